package main

import (
	"fmt"
	"math/rand"
	"os"
	"regexp"
	"strconv"
	"strings"
	"time"

	"github.com/pion/webrtc/v4"
)

// p <variant> <semB> <modeB> <n> {r<pktHex> | c<pktHex> | v<lineHex> | u<lineHex> | d<lineHex>}*   → survived | inconclusive
//
// A connected pair over loopback (run inside a C30 worker process): A offers audio+video+data, B is the
// connection under test and sees A's offer transformed by <variant> (0 as is with SSRCs renumbered 7001…,
// 1 without any a=ssrc / a=ssrc-group line, 2 without them and with rid/simulcast lines in the video
// section, 3 without the video section's a=ssrc lines; 4..9: A offers a single video section, all a=ssrc
// lines are removed and the a=msid line is replaced by a 2 / 1 / 0 / 3 token form, a trailing-space form, or
// removed — the two-stage undeclared-SSRC scenario; 10 / 11: B, the connection under test, is the OFFERER with a
// send-only transceiver from a track (no receiver, mids 0 and 3), a recvonly (1), a sendrecv (2) and a stopped one
// (4); A answers, 11 strips the answer's a=ssrc lines; the RTP then names each of those mids, unknown mids or none,
// with rid / rsid / neither, on unknown SSRCs). v/u/d tokens are extra lines inserted after a=mid of the
// video / audio / data section. Once connected, A sends the given raw RTP (r) and
// RTCP (c) packets on its SRTP/SRTCP sessions, bypassing senders: unknown and declared SSRCs, unknown
// payload types, mid / rid / rsid header extensions, padding-only and too-short RTX payloads. B reads every
// track it is handed. Then both close and B's operations queue is awaited.

var c30SsrcLineRe = regexp.MustCompile(`\b\d{5,10}\b`)

// c30MsidForms: what variants 4..9 put in place of the offer's a=msid line ("" = line removed).
var c30MsidForms = map[int]string{
	4: "a=msid:streamU trackU", 5: "a=msid:streamU", 6: "a=msid:", 7: "a=msid:streamU trackU extra", 8: "a=msid:streamU ", 9: "",
}

func c30PairTransform(variant int, text string, insV, insA, insD []string) string {
	lines := strings.Split(strings.ReplaceAll(text, "\r\n", "\n"), "\n")
	ids := map[string]int{}
	out := []string{}
	section := ""
	for _, l := range lines {
		if strings.HasPrefix(l, "m=") {
			section = strings.SplitN(l[2:], " ", 2)[0]
		}
		if variant >= 4 && strings.HasPrefix(l, "a=msid:") {
			l = c30MsidForms[variant]
			if l == "" {
				continue
			}
		}
		if strings.HasPrefix(l, "a=ssrc") {
			if variant == 1 || variant == 2 || variant >= 4 || (variant == 3 && section == "video") {
				continue
			}
			l = c30SsrcLineRe.ReplaceAllStringFunc(l, func(m string) string {
				if _, ok := ids[m]; !ok {
					ids[m] = 7001 + len(ids)
				}

				return strconv.Itoa(ids[m])
			})
		}
		out = append(out, l)
		if variant == 2 && section == "video" && strings.HasPrefix(l, "a=mid:") {
			out = append(out, "a=rid:q send", "a=rid:h send", "a=rid:f send", "a=simulcast:send q;h;f")
		}
		if strings.HasPrefix(l, "a=mid:") {
			switch section {
			case "video":
				out = append(out, insV...)
			case "audio":
				out = append(out, insA...)
			case "application":
				out = append(out, insD...)
			}
		}
	}

	return strings.Join(out, "\r\n")
}

func c30RunPair(a []string) (out string) {
	defer func() {
		if r := recover(); r != nil {
			out = "panic " + c30Hash(fmt.Sprint(r))
		}
	}()
	if len(a) < 5 {
		return "bad-op"
	}
	variant, e1 := strconv.Atoi(a[1])
	semB, e2 := strconv.Atoi(a[2])
	modeB, e3 := strconv.Atoi(a[3])
	n, e4 := strconv.Atoi(a[4])
	if e1 != nil || e2 != nil || e3 != nil || e4 != nil || len(a) != 5+n {
		return "bad-op"
	}
	insV, insA, insD := []string{}, []string{}, []string{}
	for _, p := range a[5:] {
		switch {
		case len(p) > 1 && p[0] == 'v':
			insV = append(insV, string(unhx(p[1:])))
		case len(p) > 1 && p[0] == 'u':
			insA = append(insA, string(unhx(p[1:])))
		case len(p) > 1 && p[0] == 'd':
			insD = append(insD, string(unhx(p[1:])))
		}
	}
	modeA := c30ModeTracks | c30ModeData
	if variant >= 4 && variant < 10 {
		modeA = c30ModeVideoTrk // exactly one media section
	}
	if variant >= 10 {
		modeA = c30ModeTracks
		modeB &^= c30ModeTracks | c30ModeData | c30ModeVideoTrk // B's transceivers are added below
		if semB == 1 {
			semB = 0 // A (Unified Plan) cannot answer a Plan-B offer
		}
	}
	pa, err := c30NewPC(0, modeA)
	if err != nil {
		return "bad-op newpc"
	}
	pb, err := c30NewPC(semB, modeB)
	if err != nil {
		_ = pa.Close()

		return "bad-op newpc"
	}
	closed := false
	closeBoth := func() {
		if !closed {
			closed = true
			_ = pa.Close()
			_ = pb.Close()
		}
	}
	defer closeBoth()
	pb.OnDataChannel(func(dc *webrtc.DataChannel) {
		dc.OnOpen(func() { _ = dc.SendText("hello") })
		dc.OnMessage(func(webrtc.DataChannelMessage) {})
	})
	pb.OnTrack(func(t *webrtc.TrackRemote, r *webrtc.RTPReceiver) {
		go func() {
			for {
				if _, _, err := t.ReadRTP(); err != nil {
					return
				}
			}
		}()
		go func() {
			b := make([]byte, 1500)
			_ = r.SetReadDeadline(time.Now().Add(time.Hour))
			for {
				if _, _, err := r.Read(b); err != nil {
					return
				}
			}
		}()
	})
	if variant >= 10 {
		// the connection under test (B) is the OFFERER, with transceivers of every shape: send-only from a
		// track (no receiver), recvonly, sendrecv, and a stopped one; A answers, B sees A's answer (variant 11:
		// without its a=ssrc lines; both: with the inserted lines)
		if res := c30OffererUnderTest(pa, pb, variant, insV, insA, insD); res != "" {
			return res
		}
	} else {
		offer, err := pa.CreateOffer(nil)
		if err != nil {
			return "inconclusive offer"
		}
		if c30WaitGather(pa, func() error { return pa.SetLocalDescription(offer) }) != nil {
			return "inconclusive offer"
		}
		text := c30PairTransform(variant, pa.LocalDescription().SDP, insV, insA, insD)
		if pb.SetRemoteDescription(webrtc.SessionDescription{Type: webrtc.SDPTypeOffer, SDP: text}) != nil {
			return "survived"
		}
		ans, err := pb.CreateAnswer(nil)
		if err != nil {
			return "survived"
		}
		if c30WaitGather(pb, func() error { return pb.SetLocalDescription(ans) }) != nil {
			return "survived"
		}
		if err := pa.SetRemoteDescription(*pb.LocalDescription()); err != nil {
			if os.Getenv("VERIF_DEBUG") != "" {
				fmt.Fprintf(os.Stderr, "pair: offerer rejected the answer: %v\n", err)
			}

			return "inconclusive answer"
		}
	}
	deadline := time.Now().Add(12 * time.Second)
	for pa.ConnectionState() != webrtc.PeerConnectionStateConnected ||
		pb.ConnectionState() != webrtc.PeerConnectionStateConnected {
		if time.Now().After(deadline) {
			return "inconclusive connect"
		}
		time.Sleep(3 * time.Millisecond)
	}
	for i, p := range a[5:] {
		if len(p) < 1 {
			continue
		}
		pkt := unhx(p[1:])
		switch p[0] {
		case 'c':
			_ = webrtc.VerifWriteRawRTCP(pa, pkt)
		case 'r':
			_ = webrtc.VerifWriteRawRTP(pa, pkt)
		default:
			continue
		}
		if i%8 == 7 {
			time.Sleep(time.Millisecond)
		}
	}
	time.Sleep(60 * time.Millisecond)
	closeBoth()
	done := make(chan struct{})
	go func() {
		webrtc.VerifOpsDone(pb)
		webrtc.VerifOpsDone(pa)
		close(done)
	}()
	select {
	case <-done:
	case <-time.After(15 * time.Second):
		return "hang ops-queue"
	}
	time.Sleep(2 * time.Millisecond)

	return "survived"
}

// c30OffererUnderTest: B adds one transceiver of every shape and offers, A answers, B applies A's (transformed)
// answer. Returns "" when the exchange went through.
func c30OffererUnderTest(pa, pb *webrtc.PeerConnection, variant int, insV, insA, insD []string) string {
	vp8 := webrtc.RTPCodecCapability{MimeType: webrtc.MimeTypeVP8, ClockRate: 90000}
	opus := webrtc.RTPCodecCapability{MimeType: webrtc.MimeTypeOpus, ClockRate: 48000, Channels: 2}
	if tv, err := webrtc.NewTrackLocalStaticSample(vp8, "videoB", "streamB"); err == nil { // mid 0: no receiver
		_, _ = pb.AddTransceiverFromTrack(tv, webrtc.RTPTransceiverInit{Direction: webrtc.RTPTransceiverDirectionSendonly})
	}
	_, _ = pb.AddTransceiverFromKind(webrtc.RTPCodecTypeAudio, // mid 1
		webrtc.RTPTransceiverInit{Direction: webrtc.RTPTransceiverDirectionRecvonly})
	_, _ = pb.AddTransceiverFromKind(webrtc.RTPCodecTypeVideo, // mid 2
		webrtc.RTPTransceiverInit{Direction: webrtc.RTPTransceiverDirectionSendrecv})
	if ta, err := webrtc.NewTrackLocalStaticSample(opus, "audioB", "streamB"); err == nil { // mid 3: no receiver
		_, _ = pb.AddTransceiverFromTrack(ta, webrtc.RTPTransceiverInit{Direction: webrtc.RTPTransceiverDirectionSendonly})
	}
	if stopped, err := pb.AddTransceiverFromKind(webrtc.RTPCodecTypeVideo, // mid 4: stopped after it got its mid
		webrtc.RTPTransceiverInit{Direction: webrtc.RTPTransceiverDirectionRecvonly}); err == nil {
		if _, oerr := pb.CreateOffer(nil); oerr == nil { // gives every transceiver its mid
			_ = stopped.Stop()
		}
	}
	offer, err := pb.CreateOffer(nil)
	if err != nil {
		return "inconclusive offer"
	}
	if c30WaitGather(pb, func() error { return pb.SetLocalDescription(offer) }) != nil {
		return "inconclusive offer"
	}
	if pa.SetRemoteDescription(*pb.LocalDescription()) != nil {
		return "inconclusive offer"
	}
	ans, err := pa.CreateAnswer(nil)
	if err != nil {
		return "inconclusive answer"
	}
	if c30WaitGather(pa, func() error { return pa.SetLocalDescription(ans) }) != nil {
		return "inconclusive answer"
	}
	v := 0
	if variant == 11 {
		v = 1 // strip every a=ssrc line: A's media is undeclared for B
	}
	text := c30PairTransform(v, pa.LocalDescription().SDP, insV, insA, insD)
	if pb.SetRemoteDescription(webrtc.SessionDescription{Type: webrtc.SDPTypeAnswer, SDP: text}) != nil {
		return "survived"
	}

	return ""
}

// c30ExtIDs: ids of the sdes:mid, rtp-stream-id and repaired-rtp-stream-id header extensions in an offer of
// the default configuration (discovered from a real offer so that the packets follow the tree).
func c30ExtIDs() [3]int {
	ids := [3]int{4, 10, 11}
	pc, err := c30NewPC(0, c30ModeTracks)
	if err != nil {
		return ids
	}
	defer pc.Close() //nolint:errcheck
	offer, err := pc.CreateOffer(nil)
	if err != nil {
		return ids
	}
	re := regexp.MustCompile(`a=extmap:(\d+)\S* (\S+)`)
	for _, m := range re.FindAllStringSubmatch(offer.SDP, -1) {
		v, _ := strconv.Atoi(m[1])
		switch m[2] {
		case "urn:ietf:params:rtp-hdrext:sdes:mid":
			ids[0] = v
		case "urn:ietf:params:rtp-hdrext:sdes:rtp-stream-id":
			ids[1] = v
		case "urn:ietf:params:rtp-hdrext:sdes:repaired-rtp-stream-id":
			ids[2] = v
		}
	}

	return ids
}

func c30PairRTP(r *rand.Rand, ids [3]int, seq int) []byte {
	pts := []byte{96, 97, 111, 102, 103, 45, 127, 0, 63, 98}
	ssrcs := []uint32{7001, 7002, 7003, 7004, 0, 1, 424242, 0xffffffff, uint32(r.Intn(50))} //nolint:gosec
	ssrc := ssrcs[r.Intn(len(ssrcs))]
	b := []byte{
		0x80, pts[r.Intn(len(pts))], byte(seq >> 8), byte(seq), 0, 0, byte(seq >> 4), byte(seq << 4),
		byte(ssrc >> 24), byte(ssrc >> 16), byte(ssrc >> 8), byte(ssrc),
	}
	if r.Intn(3) == 0 {
		b[1] |= 0x80
	}
	if r.Intn(8) == 0 {
		cc := 1 + r.Intn(3)
		b[0] |= byte(cc)
		for i := 0; i < cc; i++ {
			b = append(b, 0, 0, 0, byte(i+1))
		}
	}
	if r.Intn(4) != 0 {
		b[0] |= 0x10
		ext := []byte{}
		add := func(id int, vals []string) {
			v := vals[r.Intn(len(vals))]
			if v == "" || id < 1 || id > 14 {
				return
			}
			ext = append(ext, byte(id<<4|(len(v)-1)))
			ext = append(ext, v...)
		}
		if r.Intn(5) != 0 {
			add(ids[0], []string{"0", "1", "2", "9", "video", "0123456789abcdef"})
		}
		if r.Intn(2) == 0 {
			add(ids[1], []string{"q", "h", "f", "zz", "~q"})
		}
		if r.Intn(4) == 0 {
			add(ids[2], []string{"q", "h", "zz"})
		}
		for len(ext)%4 != 0 {
			ext = append(ext, 0)
		}
		b = append(b, 0xBE, 0xDE, byte(len(ext)/4>>8), byte(len(ext)/4))
		b = append(b, ext...)
	}
	pl := []int{0, 1, 2, 3, 10, 30}[r.Intn(6)]
	for i := 0; i < pl; i++ {
		b = append(b, byte(r.Intn(256)))
	}
	if r.Intn(6) == 0 {
		b[0] |= 0x20
		b = append(b, []byte{1, 2, 4, 40, 255}[r.Intn(5)])
	}

	return b
}

func c30PairRTCP(r *rand.Rand) []byte {
	ssrc := []uint32{7001, 7002, 0, 424242, 1}[r.Intn(5)]
	s4 := []byte{byte(ssrc >> 24), byte(ssrc >> 16), byte(ssrc >> 8), byte(ssrc)}
	var b []byte
	switch r.Intn(6) {
	case 0: // RR, no report blocks
		b = append([]byte{0x80, 201, 0, 1}, s4...)
	case 1: // SR
		b = append([]byte{0x80, 200, 0, 6}, s4...)
		b = append(b, make([]byte, 20)...)
	case 2: // PLI
		b = append([]byte{0x81, 206, 0, 2}, s4...)
		b = append(b, 0, 0, 0x1b, 0x59)
	case 3: // NACK
		b = append([]byte{0x81, 205, 0, 3}, s4...)
		b = append(b, 0, 0, 0x1b, 0x59, 0, 5, 0xff, 0xff)
	case 4: // BYE
		b = append([]byte{0x81, 203, 0, 1}, s4...)
	default: // REMB-like application feedback
		b = append([]byte{0x8f, 206, 0, 5}, s4...)
		b = append(b, 0, 0, 0, 0, 'R', 'E', 'M', 'B', 1, 0x10, 0, 0, 0, 0, 0x1b, 0x59)
	}
	switch r.Intn(5) {
	case 0:
		if len(b) > 8 {
			b = b[:8+r.Intn(len(b)-8)]
		}
	case 1:
		b[2], b[3] = byte(r.Intn(256)), byte(r.Intn(256))
	case 2:
		b[0] = byte(0x80 | r.Intn(32))
	}

	return b
}

// lines that keep a connection possible, inserted into the audio / video section of the offer the answerer sees
var c30PairLines = []string{
	"a=msid:", "a=msid: ", "a=msid:a", "a=msid:a b", "a=msid:a b c", "a=msid:a ", "a=msid",
	"a=ssrc:", "a=ssrc:abc", "a=ssrc:7009", "a=ssrc:7009 msid:", "a=ssrc:7009 msid:a", "a=ssrc:7009 msid:a b", "a=ssrc:7009 msid:a b c",
	"a=ssrc:424242 cname:x", "a=ssrc:0 msid:s t", "a=ssrc:4294967296 msid:a b",
	"a=ssrc-group:", "a=ssrc-group:FID", "a=ssrc-group:FID 7001", "a=ssrc-group:FID 7001 7009", "a=ssrc-group:FID 424242 7009",
	"a=ssrc-group:FID 7009 7001", "a=ssrc-group:FEC-FR 7001 7008", "a=ssrc-group:FID x y", "a=ssrc-group:FID 7001 7009 7010",
	"a=rid:", "a=rid:q", "a=rid:q send", "a=rid:h send", "a=rid:zz recv", "a=rid",
	"a=simulcast:", "a=simulcast:send", "a=simulcast:send q;h", "a=simulcast:send ~q;;", "a=simulcast:recv q",
	"a=extmap:15 urn:ietf:params:rtp-hdrext:sdes:mid", "a=extmap:14 urn:ietf:params:rtp-hdrext:sdes:rtp-stream-id",
	"a=extmap:13 urn:ietf:params:rtp-hdrext:sdes:repaired-rtp-stream-id", "a=extmap:", "a=extmap:abc uri:x",
	"a=rtcp-fb:96 nack pli extra", "a=rtcp-fb:96", "a=fmtp:97 apt=", "a=fmtp:97 apt=999", "a=rtpmap:97 rtx/90000",
	"a=recvonly", "a=inactive", "a=sendonly",
}

// … and into the data section: the SCTP association is started from these in the background
var c30PairDataLines = []string{
	"a=max-message-size:0", "a=max-message-size:1", "a=max-message-size:4294967295", "a=max-message-size:4294967296",
	"a=max-message-size:-1", "a=max-message-size:", "a=sctp-port:0", "a=sctp-port:65536", "a=sctp-port:abc", "a=sctp-init:",
	"a=sctp-init:!!!!", "a=sctp-init:AAAA", "a=sctp-init:AQAAAA==", "a=sctpmap:5000 webrtc-datachannel 1024", "a=bundle-only",
}

func c30GenPairs(c *Ctx) {
	r := c.Rng
	ids := c30ExtIDs()
	seq := 1
	forceSem := -1
	emit := func(variant int) {
		semB := r.Intn(3)
		modeB := []int{0, 0, c30ModeTracks, c30ModeData, c30ModeUndeclNA}[r.Intn(5)]
		if forceSem >= 0 {
			semB, modeB = forceSem, 0
		}
		toks := []string{}
		for k := r.Intn(3); k > 0 && r.Intn(2) == 0; k-- {
			tag := "v"
			if r.Intn(3) == 0 {
				tag = "u"
			}
			toks = append(toks, tag+hx([]byte(c30PairLines[r.Intn(len(c30PairLines))])))
		}
		if variant < 4 && r.Intn(3) == 0 {
			toks = append(toks, "d"+hx([]byte(c30PairDataLines[r.Intn(len(c30PairDataLines))])))
		}
		if variant == 0 {
			// deterministic RTX coverage: media on the declared video SSRC (7002 after renumbering: audio 7001,
			// video 7002, its RTX 7003), then RTX packets with 0, 1, 2, 3, 5 payload bytes, with and without
			// padding / header extension, on the declared repair SSRC
			for k := 0; k < 3; k++ {
				seq++
				toks = append(toks, "r"+hx(c30ProbePacket(7002, 96, seq, ids, c30ProbePkt{})))
			}
			for _, pl := range []int{0, 1, 2, 3, 5} {
				for _, form := range []int{0, 1, 2} {
					seq++
					b := []byte{0x80, 97, byte(seq >> 8), byte(seq), 0, 0, 0, byte(seq), 0, 0, 0x1b, 0x5b}
					if form == 1 { // one header extension word
						b[0] |= 0x10
						b = append(b, 0xBE, 0xDE, 0, 1, byte(ids[0]<<4), '0', 0, 0)
					}
					for i := 0; i < pl; i++ {
						b = append(b, byte(i+1))
					}
					if form == 2 {
						b[0] |= 0x20
						b = append(b, 0, 0, 0, 4)
					}
					toks = append(toks, "r"+hx(b))
				}
			}
		}
		n := 30 + r.Intn(60)
		for k := 0; k < n; k++ {
			if r.Intn(6) == 0 {
				toks = append(toks, "c"+hx(c30PairRTCP(r)))
			} else {
				seq++
				pkt := c30PairRTP(r, ids, seq)
				if variant >= 10 {
					// unknown SSRCs (a few packets each), a payload type B negotiated, mid naming each of B's
					// sections (0 and 3 have no receiver, 4 is stopped), an unknown mid or none; rid / rsid / neither
					ssrc := uint32(500000 + k/3) //nolint:gosec
					mid := []string{"0", "0", "1", "2", "3", "4", "9", ""}[r.Intn(8)]
					rid := []string{"q", "q", "h", "", "zz"}[r.Intn(5)]
					rsid := []string{"", "", "", "q", "zz"}[r.Intn(5)]
					pt := []byte{96, 96, 111, 97}[r.Intn(4)]
					pkt = c30ProbePacket(ssrc, pt, seq, ids, c30ProbePkt{mid: mid, rid: rid, rsid: rsid, pad: r.Intn(9) == 0})
				}
				if variant >= 4 && variant < 10 && k < 6 {
					pkt[1] = pkt[1]&0x80 | 96 // a payload type the answerer negotiated, so that the SSRC is resolved
				}
				toks = append(toks, "r"+hx(pkt))
			}
		}
		c.Emit("p %d %d %d %d %s", variant, semB, modeB, len(toks), strings.Join(toks, " "))
	}
	// the two-stage undeclared-SSRC scenario, every msid form
	for v := 4; v <= 9; v++ {
		emit(v)
		emit(v)
	}
	// RTX repair reader (variant 0 carries the deterministic RTX burst)
	forceSem = 0
	emit(0)
	forceSem = 2
	emit(0)
	forceSem = -1
	// the connection under test as offerer with receiver-less / stopped transceivers
	for k := 0; k < c.N(2, 40); k++ {
		emit(10)
		emit(11)
	}
	for i := 0; i < c.N(18, 400); i++ {
		emit(r.Intn(10))
	}
}
