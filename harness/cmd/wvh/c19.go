package main

import (
	"fmt"
	"sort"
	"strconv"
	"strings"
	"sync"
	"time"

	"github.com/pion/webrtc/v4"
)

// C19 — data channels end to end over loopback.
//
//	conn <maxB> <nch> {<ordered> <mr|-> <mplt|-> <negotiated> <labelhex> <protohex>}* <nmsg> {<ch> <isString> <payloadSpec>}*
//
// A creates the channels and sends; B (whose SettingEngine announces max-message-size maxB, 0 = default)
// receives. Output, per channel in creation order:
//
//	ch <labelhex> <protohex> <ordered> <mr|-> <mplt|-> <neg> recv <n> {<isString> <len> <fnv>}* <open|closed>
//
// followed by `senderr <indices…>` for sends that returned an error. `inconclusive <why>` when the
// connection itself did not come up (never a violation).
type c19Chan struct {
	ordered    bool
	mr, mplt   *uint16
	negotiated bool
	label      string
	proto      string
}

type c19Msg struct {
	ch       int
	isString bool
	data     []byte
}

func c19Parse(a []string) (maxB uint32, chans []c19Chan, msgs []c19Msg, ok bool) {
	if len(a) < 3 || a[0] != "conn" {
		return
	}
	m, err := strconv.ParseUint(a[1], 10, 32)
	nch, err2 := strconv.Atoi(a[2])
	if err != nil || err2 != nil {
		return
	}
	maxB = uint32(m)
	i := 3
	opt := func(s string) (*uint16, bool) {
		if s == "-" {
			return nil, true
		}
		v, e := strconv.ParseUint(s, 10, 16)
		if e != nil {
			return nil, false
		}
		x := uint16(v)

		return &x, true
	}
	for k := 0; k < nch; k++ {
		if i+6 > len(a) {
			return
		}
		mr, o1 := opt(a[i+1])
		mp, o2 := opt(a[i+2])
		if !o1 || !o2 {
			return
		}
		chans = append(chans, c19Chan{ordered: a[i] == "1", mr: mr, mplt: mp, negotiated: a[i+3] == "1",
			label: string(unhx(a[i+4])), proto: string(unhx(a[i+5]))})
		i += 6
	}
	if i >= len(a) {
		return
	}
	nm, err := strconv.Atoi(a[i])
	if err != nil {
		return
	}
	i++
	for k := 0; k < nm; k++ {
		if i+3 > len(a) {
			return
		}
		ch, e := strconv.Atoi(a[i])
		pl, pok := payloadOfSpec(a[i+2])
		if e != nil || !pok || ch >= nch {
			return
		}
		msgs = append(msgs, c19Msg{ch: ch, isString: a[i+1] == "1", data: pl})
		i += 3
	}

	return maxB, chans, msgs, i == len(a)
}

func optS(p *uint16) string {
	if p == nil {
		return "-"
	}

	return strconv.Itoa(int(*p))
}

func c19Run(a []string) string {
	maxB, chans, msgs, ok := c19Parse(a)
	if !ok {
		return "bad-op"
	}
	seA, seB := loopbackSettings(), loopbackSettings()
	if maxB != 0 {
		seB.SetSCTPMaxMessageSize(maxB)
	}
	pair, err := NewPair(webrtc.NewAPI(webrtc.WithSettingEngine(seA)), webrtc.NewAPI(webrtc.WithSettingEngine(seB)))
	if err != nil {
		return "inconclusive newpc"
	}
	defer pair.Close()

	type rx struct {
		mu     sync.Mutex
		raw    []webrtc.DataChannelMessage // retained as delivered (hashed at the end: catches buffer reuse)
		got    []string
		dc     *webrtc.DataChannel
		closed bool
	}
	rxs := make([]*rx, len(chans))
	for i := range rxs {
		rxs[i] = &rx{}
	}
	attach := func(idx int, dc *webrtc.DataChannel) {
		r := rxs[idx]
		r.mu.Lock()
		r.dc = dc
		r.mu.Unlock()
		dc.OnMessage(func(m webrtc.DataChannelMessage) {
			r.mu.Lock()
			r.raw = append(r.raw, m)
			r.got = append(r.got, "")
			r.mu.Unlock()
		})
		dc.OnClose(func() {
			r.mu.Lock()
			r.closed = true
			r.mu.Unlock()
		})
	}
	// in-band channels are matched on B by arrival order of OnDataChannel per label index: labels may
	// repeat, so A's stream ids are used
	var amu sync.Mutex
	byID := map[uint16]int{}
	pending := []*webrtc.DataChannel{}
	pair.B.OnDataChannel(func(dc *webrtc.DataChannel) {
		amu.Lock()
		defer amu.Unlock()
		if dc.ID() != nil {
			if idx, ok := byID[*dc.ID()]; ok {
				attach(idx, dc)

				return
			}
		}
		pending = append(pending, dc)
	})
	adcs := make([]*webrtc.DataChannel, len(chans))
	opened := make(chan int, len(chans))
	for i, c := range chans {
		init := &webrtc.DataChannelInit{Ordered: &c.ordered, MaxRetransmits: c.mr, MaxPacketLifeTime: c.mplt, Protocol: &c.proto}
		if c.negotiated {
			neg := true
			id := uint16(100 + 2*i)
			init.Negotiated = &neg
			init.ID = &id
			bdc, e := pair.B.CreateDataChannel(c.label, init)
			if e != nil {
				return "inconclusive create-b"
			}
			attach(i, bdc)
		}
		dc, e := pair.A.CreateDataChannel(c.label, init)
		if e != nil {
			return "createerr " + strconv.Itoa(i)
		}
		adcs[i] = dc
		i := i
		dc.OnOpen(func() { opened <- i })
	}
	if err := Negotiate(pair.A, pair.B); err != nil {
		return "inconclusive negotiate"
	}
	deadline := time.After(15 * time.Second)
	for n := 0; n < len(chans); n++ {
		select {
		case <-opened:
		case <-deadline:
			return "inconclusive open-timeout"
		}
	}
	// map in-band channels by A's stream id
	amu.Lock()
	for i, dc := range adcs {
		if !chans[i].negotiated && dc.ID() != nil {
			byID[*dc.ID()] = i
		}
	}
	stillPending := pending
	pending = nil
	amu.Unlock()
	for _, dc := range stillPending {
		if dc.ID() != nil {
			amu.Lock()
			idx, ok := byID[*dc.ID()]
			amu.Unlock()
			if ok {
				attach(idx, dc)
			}
		}
	}
	// wait until B has every channel
	for t := 0; t < 1000; t++ {
		all := true
		for _, r := range rxs {
			r.mu.Lock()
			if r.dc == nil {
				all = false
			}
			r.mu.Unlock()
		}
		if all {
			break
		}
		time.Sleep(5 * time.Millisecond)
	}
	for _, r := range rxs {
		r.mu.Lock()
		missing := r.dc == nil
		r.mu.Unlock()
		if missing {
			return "inconclusive remote-channel-missing"
		}
	}
	sendErr := []string{}
	expect := make([]int, len(chans))
	for k, m := range msgs {
		var e error
		if m.isString {
			e = adcs[m.ch].SendText(string(m.data))
		} else {
			d := m.data
			if d == nil {
				d = []byte{}
			}
			e = adcs[m.ch].Send(d)
		}
		if e != nil {
			sendErr = append(sendErr, strconv.Itoa(k))
		} else {
			expect[m.ch]++
		}
	}
	// wait for delivery (or closure) with a deadline; then a short settle to catch duplicates
	// the deadline is an idle deadline: as long as messages keep arriving (a loaded machine is slow, not
	// lossy) the wait goes on, up to a hard cap
	end := time.Now().Add(12 * time.Second)
	hardEnd := time.Now().Add(100 * time.Second)
	lastTotal := -1
	for time.Now().Before(end) && time.Now().Before(hardEnd) {
		done := true
		total := 0
		for i, r := range rxs {
			r.mu.Lock()
			total += len(r.got)
			if len(r.got) < expect[i] && !r.closed && r.dc.ReadyState() == webrtc.DataChannelStateOpen {
				done = false
			}
			r.mu.Unlock()
		}
		if done {
			break
		}
		if total != lastTotal {
			lastTotal = total
			end = time.Now().Add(12 * time.Second)
		}
		time.Sleep(5 * time.Millisecond)
	}
	time.Sleep(60 * time.Millisecond)
	out := []string{}
	for i, r := range rxs {
		r.mu.Lock()
		dc := r.dc
		got := []string{}
		for _, m := range r.raw {
			got = append(got, fmt.Sprintf("%s %s", b2s(m.IsString), fnv64s(m.Data)))
		}
		st := "open"
		if r.closed || dc.ReadyState() != webrtc.DataChannelStateOpen {
			st = "closed"
		}
		r.mu.Unlock()
		if !chans[i].ordered {
			sort.Strings(got)
		}
		out = append(out, fmt.Sprintf("ch %s %s %s %s %s %s recv %d %s %s", hx([]byte(dc.Label())), hx([]byte(dc.Protocol())),
			b2s(dc.Ordered()), optS(dc.MaxRetransmits()), optS(dc.MaxPacketLifeTime()), b2s(dc.Negotiated()),
			len(got), strings.Join(got, " "), st))
	}
	out = append(out, "senderr "+strings.Join(sendErr, " "))

	return strings.Join(out, " ")
}

func init() {
	registry["C19"] = &Prop{
		Workers: 8,
		Timeout: 150 * time.Second,
		Rule: "one loopback connection per op line: 1–4 data channels with seeded parameters (ordered/unordered, " +
			"maxRetransmits or maxPacketLifeTime or neither, in-band or pre-negotiated, labels/protocols incl. empty, " +
			"UTF-8 and 300-byte ones), 5–60 messages of sizes from {0,1,2,1200,16384,65535,65536,65537} ∪ random ∪ " +
			"{max−1,max,max+1} for a receiver max-message-size from {default, 70000, 100000, 131070, 262144}, text and " +
			"binary. Non-trivial: distinct op lines that deliver at least one message.",
		Gen: func(c *Ctx) {
			r := c.Rng
			labels := []string{"", "a", "data", "chät ✓", strings.Repeat("L", 300), "x y", "0"}
			for n := 0; n < c.N(16, 160); n++ {
				maxB := []uint32{0, 0, 70000, 100000, 131070, 262144}[r.Intn(6)]
				nch := 1 + r.Intn(4)
				sb := strings.Builder{}
				fmt.Fprintf(&sb, "conn %d %d", maxB, nch)
				for k := 0; k < nch; k++ {
					mr, mp := "-", "-"
					switch r.Intn(4) {
					case 0:
						mr = strconv.Itoa([]int{0, 1, 5, 65535}[r.Intn(4)])
					case 1:
						mp = strconv.Itoa([]int{1, 100, 5000, 65535}[r.Intn(4)])
					}
					ordered := 1
					if r.Intn(3) == 0 {
						ordered = 0
					}
					fmt.Fprintf(&sb, " %d %s %s %d %s %s", ordered, mr, mp, r.Intn(4)/3,
						hx([]byte(labels[r.Intn(len(labels))])), hx([]byte(labels[r.Intn(len(labels))])))
				}
				nm := 5 + r.Intn(c.N(30, 56))
				fmt.Fprintf(&sb, " %d", nm)
				big := 0
				for k := 0; k < nm; k++ {
					sz := r.Intn(3000)
					switch r.Intn(6) {
					case 0:
						sz = []int{0, 1, 2, 1200, 16384, 65535, 65536, 65537}[r.Intn(8)]
					case 1:
						if maxB != 0 && big < 4 {
							sz = int(maxB) + r.Intn(3) - 1
							big++
						}
					case 2:
						if big < 4 {
							sz = 60000 + r.Intn(40000)
							big++
						}
					}
					fmt.Fprintf(&sb, " %d %d g%d:%d", r.Intn(nch), r.Intn(2), sz, r.Intn(256))
				}
				c.Emit("%s", sb.String())
			}
		},
		Exec: c19Run,
		Class: func(_ []string, out string) string {
			switch {
			case strings.HasPrefix(out, "inconclusive"):
				return out
			case strings.Contains(out, " closed"):
				return "some-channel-closed"
			default:
				return "all-open"
			}
		},
		Trivial: func(_ []string, out string) bool { return !strings.Contains(out, " recv ") || strings.HasPrefix(out, "inconclusive") },
	}
}
