package main

import (
	"math/rand"
	"strconv"
	"strings"
)

// Scenario generator shared by C10 and C16.

var pcURIPool = []string{
	"urn:ietf:params:rtp-hdrext:sdes:mid",
	"urn:ietf:params:rtp-hdrext:sdes:rtp-stream-id",
	"urn:ietf:params:rtp-hdrext:sdes:repaired-rtp-stream-id",
	"urn:ietf:params:rtp-hdrext:ssrc-audio-level",
	"urn:ietf:params:rtp-hdrext:toffset",
	"http://www.webrtc.org/experiments/rtp-hdrext/abs-send-time",
	"http://www.ietf.org/id/draft-holmer-rmcat-transport-wide-cc-extensions-01",
	"http://www.webrtc.org/experiments/rtp-hdrext/playout-delay",
	"http://www.webrtc.org/experiments/rtp-hdrext/video-content-type",
	"http://www.webrtc.org/experiments/rtp-hdrext/video-timing",
	"http://www.webrtc.org/experiments/rtp-hdrext/color-space",
	"urn:3gpp:video-orientation",
	"https://aomediacodec.github.io/av1-rtp-spec/#dependency-descriptor-rtp-header-extension",
	"http://www.webrtc.org/experiments/rtp-hdrext/abs-capture-time",
	"urn:example:ext:a", "urn:example:ext:b", "urn:example:ext:c", "urn:example:ext:d",
}

// pcSaneCodec: codecs whose mime type survives the SDP round trip of the generated description (the encoding
// name must not contain '/' or blanks: a mime type with a re-cased "AUDIO/" prefix is written as is).
func pcSaneCodec(c c15Codec) bool {
	name := strings.TrimPrefix(strings.TrimPrefix(c.mime, "audio/"), "video/")
	if name == "" || strings.ContainsAny(name, "/ \t") {
		return false
	}
	if c.fmtp != strings.TrimSpace(c.fmtp) || strings.ContainsAny(c.fmtp, "\r\n") {
		return false
	}

	return true
}

// pcWeirdApt: an apt value outside what a payload type can be, built around the payload type p of a codec that is
// present: congruent to it modulo 256 (a uint8 conversion would hit p), negative, signed, padded, not a number, huge.
func pcWeirdApt(r *rand.Rand, p int) string {
	switch r.Intn(12) {
	case 0, 1, 2:
		return strconv.Itoa(256 + p)
	case 3, 4:
		return strconv.Itoa(512 + p)
	case 5:
		return strconv.Itoa(65536 + p)
	case 6:
		return strconv.Itoa(-p)
	case 7:
		return strconv.Itoa(p - 256)
	case 8:
		return c15Pick(r, []string{"abc", "", "0x60", "96a", "9 6", "1e2"})
	case 9:
		return c15Pick(r, []string{"99999999999999999999", "18446744073709551712", "4294967392"}) // 2^64+96, 2^32+96
	case 10:
		return "+" + strconv.Itoa(256+p)
	default:
		return "00" + strconv.Itoa(256+p)
	}
}

func pcLocals(r *rand.Rand, audio bool) []c15Codec {
	out := []c15Codec{}
	for _, c := range c15Locals(r, audio) {
		if pcSaneCodec(c) {
			out = append(out, c)
		}
	}
	// RTX chains and RTX next to FlexFEC (video only)
	if !audio && len(out) > 0 && r.Intn(6) == 0 {
		used := map[int]bool{}
		for _, c := range out {
			used[c.pt] = true
		}
		p := out[r.Intn(len(out))].pt
		a := c15FreshPt(r, used)
		used[a] = true
		b := c15FreshPt(r, used)
		used[b] = true
		switch r.Intn(4) {
		case 0: // rtx of rtx, both attached
			out = append(out, c15Codec{a, "video/rtx", 90000, 0, "apt=" + strconv.Itoa(p), nil},
				c15Codec{b, "video/rtx", 90000, 0, "apt=" + strconv.Itoa(a), nil})
		case 1: // rtx of an unattached rtx, in both orders
			out = append(out, c15Codec{a, "video/rtx", 90000, 0, "apt=" + strconv.Itoa(1+r.Intn(20)), nil},
				c15Codec{b, "video/rtx", 90000, 0, "apt=" + strconv.Itoa(a), nil})
		case 2:
			out = append(out, c15Codec{b, "video/rtx", 90000, 0, "apt=" + strconv.Itoa(a), nil},
				c15Codec{a, "video/rtx", 90000, 0, "apt=" + strconv.Itoa(1+r.Intn(20)), nil})
		default: // two rtx for the same primary, flexfec
			out = append(out, c15Codec{a, "video/rtx", 90000, 0, "apt=" + strconv.Itoa(p), nil},
				c15Codec{b, "video/rtx", 90000, 0, "apt=" + strconv.Itoa(p), nil},
				c15Codec{c15FreshPt(r, used), "video/flexfec-03", 90000, 0, "repair-window=10000000", nil})
		}
	}
	// an RTX whose apt is no payload type at all, aimed at a codec that is present
	if !audio && len(out) > 0 && r.Intn(7) == 0 {
		used := map[int]bool{}
		for _, c := range out {
			used[c.pt] = true
		}
		p := out[r.Intn(len(out))].pt
		x := c15Codec{c15FreshPt(r, used), "video/rtx", 90000, 0, "apt=" + pcWeirdApt(r, p), nil}
		if r.Intn(4) == 0 {
			x.fmtp += ";rtx-time=3000"
		}
		k := r.Intn(len(out) + 1)
		out = append(out[:k:k], append([]c15Codec{x}, out[k:]...)...)
	}

	return out
}

func pcExts(r *rand.Rand) []pcExt {
	n := 0
	switch r.Intn(7) {
	case 0:
		n = 0
	case 1:
		n = 1 + r.Intn(3)
	case 2:
		n = 14 + r.Intn(6) // many registrations, URIs repeating
	case 3:
		// 13-18 DISTINCT URIs for one kind, no direction restriction: the one-byte ids 1..14 run out
		pool := append([]string{}, pcURIPool...)
		r.Shuffle(len(pool), func(i, j int) { pool[i], pool[j] = pool[j], pool[i] })
		kind := c15Pick(r, []string{"a", "v", "v"})
		out := []pcExt{}
		for _, u := range pool[:13+r.Intn(6)] {
			out = append(out, pcExt{uri: u, kind: kind, mask: 0})
		}

		return out
	default:
		n = 2 + r.Intn(8)
	}
	out := []pcExt{}
	for i := 0; i < n; i++ {
		e := pcExt{uri: c15Pick(r, pcURIPool), kind: c15Pick(r, []string{"a", "v", "v"}), mask: c15Pick(r, []int{0, 0, 0, 1, 2, 3})}
		out = append(out, e)
		if r.Intn(3) == 0 { // the same URI for the other kind too (possibly with other directions: the last call wins)
			k := "a"
			if e.kind == "a" {
				k = "v"
			}
			out = append(out, pcExt{uri: e.uri, kind: k, mask: c15Pick(r, []int{0, 0, e.mask, 1, 2})})
		}
	}

	return out
}

// pcPrefs draws a SetCodecPreferences argument from the engine's codecs.
func pcPrefs(r *rand.Rand, engine []c15Codec, explicitPt bool) []c15Codec {
	out := []c15Codec{}
	if len(engine) == 0 || r.Intn(12) == 0 {
		if r.Intn(2) == 0 {
			return out // reset
		}

		return []c15Codec{{55, "video/unsupported", 90000, 0, "", nil}}
	}
	for _, c := range engine {
		if r.Intn(3) == 0 {
			continue
		}
		p := c
		p.fb = append([][2]string{}, c.fb...)
		switch r.Intn(6) {
		case 0, 1:
			p.pt = 0 // take the engine's payload type
		case 2:
			if explicitPt {
				p.pt = c15Pick(r, []int{55, 56, 57, 96, 100, 120, 127})
			}
		default:
		}
		if r.Intn(6) == 0 && len(p.fb) > 0 {
			p.fb = p.fb[:len(p.fb)-1]
		}
		if r.Intn(10) == 0 {
			p.fb = append(p.fb, [2]string{"transport-cc", ""})
		}
		out = append(out, p)
	}
	if r.Intn(3) == 0 {
		r.Shuffle(len(out), func(i, j int) { out[i], out[j] = out[j], out[i] })
	}
	if r.Intn(10) == 0 && len(out) > 0 {
		out = append(out, out[r.Intn(len(out))]) // the same codec twice
	}
	if r.Intn(8) == 0 && len(out) > 0 {
		// a preferred RTX whose apt is out of range, aimed at a preferred codec (needs an rtx in the engine to be accepted)
		p := out[r.Intn(len(out))]
		pt := p.pt
		if pt == 0 {
			pt = c15Pick(r, []int{96, 100, 120})
		}
		out = append(out, c15Codec{c15Pick(r, []int{0, 101, 119, 123}), "video/rtx", 90000, 0, "apt=" + pcWeirdApt(r, pt), nil})
	}

	return out
}

type pcRemoteOpts struct {
	malformed bool
	// remapExt: chance (percent) that a remote extmap id differs from what a previous offer of the scenario used
	bigIDs     bool
	remapAgain bool
}

// pcRemoteOffer builds a synthetic remote offer. prev (may be nil) is the previous offer of the scenario: mids are
// kept, numbers may be remapped again.
func pcRemoteOffer(r *rand.Rand, o *pcOp, prev *pcStep, opt pcRemoteOpts, mids []string) pcStep {
	s := pcStep{verb: "sro"}
	localURIs := map[string][]string{"a": {}, "v": {}}
	for _, e := range o.exts {
		dup := false
		for _, u := range localURIs[e.kind] {
			if u == e.uri {
				dup = true
			}
		}
		if !dup {
			localURIs[e.kind] = append(localURIs[e.kind], e.uri)
		}
	}
	ns := 1 + r.Intn(3)
	if prev != nil {
		ns = len(prev.secs)
		if r.Intn(3) == 0 {
			ns++
		}
	}
	// one id table per offer (BUNDLE requires consistent ids); sometimes per section
	idOf := map[string]int{}
	usedID := map[int]bool{}
	byKind := map[string][]c15Codec{}
	freshID := func() int {
		for i := 0; i < 40; i++ {
			id := 1 + r.Intn(14)
			if opt.bigIDs && r.Intn(4) == 0 {
				id = 15 + r.Intn(30)
			}
			if !usedID[id] {
				return id
			}
		}
		for id := 1; id < 200; id++ {
			if !usedID[id] {
				return id
			}
		}

		return 200
	}
	for i := 0; i < ns; i++ {
		sec := pcRSection{}
		audio := r.Intn(3) == 0
		if prev != nil && i < len(prev.secs) {
			sec.mid = prev.secs[i].mid
			audio = prev.secs[i].media == "audio"
			if r.Intn(10) == 0 {
				audio = !audio
			}
		} else if i < len(mids) && r.Intn(3) > 0 {
			sec.mid = mids[i]
		} else {
			sec.mid = c15Pick(r, []string{strconv.Itoa(i), strconv.Itoa(i), strconv.Itoa(i + 3), "m" + strconv.Itoa(i), "audio" + strconv.Itoa(i)})
		}
		for _, other := range s.secs {
			if other.mid == sec.mid {
				sec.mid += "x" + strconv.Itoa(i)
			}
		}
		locals := o.video
		kind := "v"
		sec.media = "video"
		if audio {
			locals, kind, sec.media = o.audio, "a", "audio"
		}
		switch {
		case prev != nil && i < len(prev.secs) && (prev.secs[i].media == "audio") == audio && !opt.remapAgain && r.Intn(4) > 0:
			// renegotiation that keeps the numbering of the section
			sec.codecs = append(sec.codecs, prev.secs[i].codecs...)
		case len(byKind[kind]) > 0 && r.Intn(3) > 0:
			// sections of one kind share the numbering (as BUNDLE requires), possibly a subset
			for _, c := range byKind[kind] {
				if r.Intn(5) > 0 {
					sec.codecs = append(sec.codecs, c)
				}
			}
		default:
			cs := c15RemoteSection(r, audio, locals, opt.malformed)
			sec.bad = cs.bad
			for _, c := range cs.codecs {
				if pcSaneCodec(c) && c.mime == strings.TrimSpace(c.mime) && !strings.ContainsAny(c.mime, "/ ") {
					sec.codecs = append(sec.codecs, c)
				}
			}
		}
		if len(byKind[kind]) == 0 {
			byKind[kind] = sec.codecs
		}
		if len(sec.codecs) == 0 {
			sec.codecs = []c15Codec{{c15Pick(r, c15PtPool), c15Pick(r, []string{"VP8", "opus", "H264"}), 90000, 0, "", nil}}
		}
		sec.dir = c15Pick(r, []string{"sr", "sr", "sr", "so", "ro", "so"})
		if r.Intn(25) == 0 {
			sec.dir = c15Pick(r, []string{"in", "-"})
		}
		if opt.malformed && r.Intn(12) == 0 {
			sec.media = "text" // not "application": data sections are out of scope
		}
		if opt.malformed && r.Intn(30) == 0 {
			sec.mid = ""
		}
		// extmap lines: a subset of the local URIs of the kind (+ the other kind's, + unknown ones)
		perSection := r.Intn(8) == 0
		if perSection || opt.remapAgain && r.Intn(2) == 0 {
			idOf = map[string]int{}
			if !perSection {
				usedID = map[int]bool{}
			}
		}
		cands := append([]string{}, localURIs[kind]...)
		if r.Intn(4) == 0 {
			other := "a"
			if kind == "a" {
				other = "v"
			}
			cands = append(cands, localURIs[other]...)
		}
		if r.Intn(3) == 0 {
			cands = append(cands, "urn:example:remote-only:"+strconv.Itoa(r.Intn(3)))
		}
		secIDs := map[int]bool{}
		for _, u := range cands {
			if r.Intn(4) == 0 {
				continue
			}
			id, ok := idOf[u]
			if !ok {
				id = freshID()
				idOf[u] = id
				usedID[id] = true
			}
			if secIDs[id] && !opt.malformed {
				continue
			}
			secIDs[id] = true
			sec.exts = append(sec.exts, pcRExt{id: id, uri: u})
		}
		if opt.malformed && len(sec.exts) > 1 && r.Intn(6) == 0 {
			sec.exts[len(sec.exts)-1].id = sec.exts[0].id // two URIs under one id
		}
		if opt.malformed && len(sec.exts) > 0 && r.Intn(6) == 0 {
			e := sec.exts[r.Intn(len(sec.exts))]
			e.id = freshID()
			sec.exts = append(sec.exts, e) // one URI under two ids
		}
		if r.Intn(4) == 0 {
			r.Shuffle(len(sec.exts), func(i, j int) { sec.exts[i], sec.exts[j] = sec.exts[j], sec.exts[i] })
		}
		s.secs = append(s.secs, sec)
	}
	for _, sec := range s.secs {
		if sec.mid != "" && r.Intn(12) > 0 {
			s.bundle = append(s.bundle, sec.mid)
		}
	}
	if r.Intn(15) == 0 {
		s.bundle = nil
	}

	return s
}

// pcScenario draws one scenario. flavor: "offer" (we offer, repeatedly), "answer" (remote offers, we answer),
// "mixed".
func pcScenario(r *rand.Rand, flavor string, malformed bool) *pcOp {
	o := &pcOp{multi: r.Intn(4) > 0}
	o.audio = pcLocals(r, true)
	o.video = pcLocals(r, false)
	o.exts = pcExts(r)
	ntr := 0
	add := func() {
		kind := c15Pick(r, []string{"v", "v", "a"})
		o.steps = append(o.steps, pcStep{verb: "add", kind: kind, dir: c15Pick(r, []string{"sr", "so", "ro", "ro"})})
		ntr++
		if r.Intn(5) < 2 {
			eng := o.video
			if kind == "a" {
				eng = o.audio
			}
			o.steps = append(o.steps, pcStep{verb: "pref", idx: ntr - 1, codecs: pcPrefs(r, eng, r.Intn(2) == 0)})
		}
	}
	offers := func(n int) {
		for i := 0; i < n; i++ {
			o.steps = append(o.steps, pcStep{verb: "offer"})
		}
	}
	opt := pcRemoteOpts{malformed: malformed, bigIDs: r.Intn(5) == 0, remapAgain: r.Intn(3) == 0}
	switch flavor {
	case "offer":
		for i, n := 0, 1+r.Intn(3); i < n; i++ {
			add()
		}
		offers(2 + r.Intn(2))
		if r.Intn(3) == 0 {
			add()
			offers(1)
		}
	case "answer":
		for i, n := 0, r.Intn(3); i < n; i++ {
			add()
		}
		first := pcRemoteOffer(r, o, nil, opt, nil)
		o.steps = append(o.steps, first, pcStep{verb: "answer"})
		if r.Intn(2) == 0 {
			o.steps = append(o.steps, pcStep{verb: "answer"})
		}
		if r.Intn(4) == 0 {
			// preferences on a transceiver (possibly one that SetRemoteDescription created), drawn from the engine's
			// codecs or from what the remote section offered; then answer again
			idx := r.Intn(ntr + len(first.secs))
			src := o.video
			if r.Intn(2) == 0 && len(first.secs) > 0 {
				sec := first.secs[r.Intn(len(first.secs))]
				src = nil
				for _, c := range sec.codecs {
					c.mime = sec.media + "/" + c.mime
					src = append(src, c)
				}
			} else if r.Intn(3) == 0 {
				src = o.audio
			}
			o.steps = append(o.steps, pcStep{verb: "pref", idx: idx, codecs: pcPrefs(r, src, r.Intn(2) == 0)}, pcStep{verb: "answer"})
		}
		if r.Intn(5) < 2 {
			// renegotiation: apply the answer, then a second remote offer (numbers possibly remapped again)
			o.steps = append(o.steps, pcStep{verb: "sla"})
			if r.Intn(3) == 0 {
				add()
			}
			second := pcRemoteOffer(r, o, &first, opt, nil)
			o.steps = append(o.steps, second, pcStep{verb: "answer"})
			if r.Intn(3) == 0 {
				o.steps = append(o.steps, pcStep{verb: "sla"})
			}
		} else if malformed && r.Intn(4) == 0 {
			o.steps = append(o.steps, pcRemoteOffer(r, o, &first, opt, nil), pcStep{verb: "answer"}) // refused: have-remote-offer
		}
		if r.Intn(4) == 0 {
			if r.Intn(2) == 0 {
				add()
			}
			offers(1 + r.Intn(2))
		}
	default:
		for i, n := 0, 1+r.Intn(2); i < n; i++ {
			add()
		}
		if r.Intn(2) == 0 {
			offers(1)
		}
		mids := []string{}
		for i := 0; i < ntr; i++ {
			mids = append(mids, strconv.Itoa(i))
		}
		first := pcRemoteOffer(r, o, nil, opt, mids)
		o.steps = append(o.steps, first, pcStep{verb: "answer"})
		if r.Intn(2) == 0 && ntr > 0 {
			eng := o.video
			o.steps = append(o.steps, pcStep{verb: "pref", idx: r.Intn(ntr + 1), codecs: pcPrefs(r, eng, true)})
			o.steps = append(o.steps, pcStep{verb: "answer"})
		}
		if r.Intn(2) == 0 {
			o.steps = append(o.steps, pcStep{verb: "sla"})
			if r.Intn(2) == 0 {
				add()
			}
		}
		offers(1 + r.Intn(2))
	}

	return o
}

// pcClass labels a case for the histogram.
func pcClass(a []string, out string) string {
	o, ok := pcParseOp(a)
	if !ok {
		return "unparsed"
	}
	if strings.HasPrefix(out, "inconclusive") {
		return "inconclusive (extmap id depends on Go map order)"
	}
	nOffer, nAnswer, nSro, nPref, nSla := 0, 0, 0, 0, 0
	for _, s := range o.steps {
		switch s.verb {
		case "offer":
			nOffer++
		case "answer":
			nAnswer++
		case "sro":
			nSro++
		case "pref":
			nPref++
		case "sla":
			nSla++
		default:
		}
	}
	_ = nAnswer
	shape := "offers only"
	switch {
	case nSro > 0 && nOffer > 0:
		shape = "remote offer(s) + answers + offers"
	case nSro > 1:
		shape = "two remote offers + answers"
	case nSro == 1:
		shape = "remote offer + answers"
	default:
	}
	res := "ok"
	switch {
	case strings.Contains(out, "l-err"):
		res = "SetLocalDescription failed (sender without codec)"
	case strings.Contains(out, "r-err"):
		res = "SetRemoteDescription failed"
	case strings.Contains(out, "r-nomid"):
		res = "remote section without mid"
	case strings.Contains(out, "O-err") || strings.Contains(out, "A-err"):
		res = "create failed"
	case strings.Contains(out, " S ") && !strings.Contains(out, " 0 F "):
		res = "all sections port 0"
	default:
	}
	prefs := ""
	if nSla > 0 {
		prefs = ", answer applied"
	}
	if nPref > 0 {
		prefs += ", preferences"
	}

	return shape + prefs + ": " + res
}

// pcTrivial: nothing was generated, or only rejected sections.
func pcTrivial(_ []string, out string) bool {
	f := strings.Fields(out)
	for i, t := range f {
		if t == "M" && i+1 < len(f) && f[i+1] != "0" {
			return false
		}
	}

	return true
}
