package main

import (
	"strings"
)

// Generators shared by C01/C02/C03 (histories for sigExecHistory).

// sigStage is a history prefix that brings the focus peer into a known signaling state, and a
// continuation that completes the exchange in progress from there.
type sigStage struct {
	name   string
	focus  string // peer whose state the stage is about
	prefix string
	cont   string
}

const sigFullExchange = "Aco Asl:o:mo Bsr:o:po Bca Bsl:a:ma Asr:a:pa"

func sigStages() []sigStage {
	first := []sigStage{
		{"stable", "A", "", sigFullExchange},
		{"stable+offer", "A", "Aco", "Asl:o:mo Bsr:o:po Bca Bsl:a:ma Asr:a:pa"},
		{"hlo", "A", "Aco Asl:o:mo", "Bsr:o:po Bca Bsl:a:ma Asr:a:pa"},
		{"hro", "B", "Aco Asl:o:mo Bsr:o:po", "Bca Bsl:a:ma Asr:a:pa"},
		{"hro+answer", "B", "Aco Asl:o:mo Bsr:o:po Bca", "Bsl:a:ma Asr:a:pa"},
		{"hlp", "B", "Aco Asl:o:mo Bsr:o:po Bca Bsl:p:ma", "Asr:p:pa Bsl:a:ma Asr:a:pa"},
		{"hrp", "A", "Aco Asl:o:mo Bsr:o:po Bca Bsl:p:ma Asr:p:pa", "Bsl:a:ma Asr:a:pa"},
	}
	out := append([]sigStage{}, first...)
	// the same states during a renegotiation (current descriptions present), offerer and answerer swapped
	swap := func(s string) string {
		f := strings.Fields(s)
		for i, t := range f {
			if t[0] == 'A' {
				f[i] = "B" + t[1:]
			} else {
				f[i] = "A" + t[1:]
			}
		}

		return strings.Join(f, " ")
	}
	for _, st := range first {
		fo := "B"
		if st.focus == "B" {
			fo = "A"
		}
		out = append(out, sigStage{
			"re-" + st.name, fo,
			strings.TrimSpace(sigFullExchange + " " + swap(st.prefix)), swap(st.cont),
		})
	}

	return out
}

// sigAlphabet lists the single steps of one peer used for exhaustive suffix enumeration.
func sigAlphabet(peer string, wide bool) []string {
	out := []string{peer + "co", peer + "ca"}
	tys := []string{"o", "p", "a", "r"}
	lrefs := []string{"mo", "ma", "e"}
	rrefs := []string{"po", "pa", "mo", "e"}
	if !wide {
		lrefs = []string{"mo", "ma"}
		rrefs = []string{"po", "pa"}
	}
	for _, t := range tys {
		for _, r := range lrefs {
			out = append(out, peer+"sl:"+t+":"+r)
		}
		for _, r := range rrefs {
			out = append(out, peer+"sr:"+t+":"+r)
		}
	}

	return out
}

func sigOther(p string) string {
	if p == "A" {
		return "B"
	}

	return "A"
}

func sigJoin(parts ...string) string {
	return strings.Join(strings.Fields(strings.Join(parts, " ")), " ")
}

// sigSim is a rough generator-side picture of one peer, used only to steer random walks towards
// histories in which most calls succeed. Correctness never depends on it.
type sigSim struct {
	sig       string
	hasOffer  bool
	hasAnswer bool
	closed    bool
	answerOut bool // has applied a local answer the other peer has not yet received
}

type sigWalkOpts struct {
	invalid   int // per-mille of steps replaced by an arbitrary (mostly failing) call
	rollback  int // per-mille of steps that are rollbacks
	mutations []string
	closeProb int    // per-mille
	cfg       string // "" = random
}

// sigWalk produces one guided random history of about n steps.
//
//nolint:cyclop,gocognit
func sigWalk(c *Ctx, n int, o sigWalkOpts) string {
	cfg := []string{"d", "d", "m", "t", "v"}[c.Rng.Intn(5)]
	if o.cfg != "" {
		cfg = o.cfg
	}
	sim := map[string]*sigSim{"A": {sig: "st"}, "B": {sig: "st"}}
	steps := []string{}
	tys := []string{"o", "p", "a", "r"}
	refs := []string{"mo", "ma", "po", "pa", "mo2", "po2", "e", "g"}
	emit := func(s string) { steps = append(steps, s) }
	for len(steps) < n {
		p := []string{"A", "B"}[c.Rng.Intn(2)]
		q := sigOther(p)
		sp, sq := sim[p], sim[q]
		roll := c.Rng.Intn(1000)
		switch {
		case roll < o.closeProb:
			emit(p + "cl")
			sp.closed = true
		case roll < o.closeProb+o.invalid:
			// arbitrary call, often with a mutated or unrelated description
			verb := []string{"sl", "sr"}[c.Rng.Intn(2)]
			ty := tys[c.Rng.Intn(4)]
			if c.Rng.Intn(12) == 0 {
				ty = []string{"u", "x"}[c.Rng.Intn(2)]
			}
			ref := refs[c.Rng.Intn(len(refs))]
			if cfg != "d" {
				// With media sections, a text of the wrong kind (an offer applied as an answer or the
				// reverse) is accepted by the signaling machine but confuses transceiver matching so much
				// that a later CreateOffer can give up ("excessive retries"), which is outside the model.
				switch ty {
				case "o":
					ref = []string{"mo", "po", "mo2", "po2", "e", "g"}[c.Rng.Intn(6)]
				case "p", "a":
					ref = []string{"ma", "pa", "e", "g"}[c.Rng.Intn(4)]
				}
			}
			s := p + verb + ":" + ty + ":" + ref
			if len(o.mutations) > 0 && ref != "e" && ref != "g" && c.Rng.Intn(2) == 0 {
				m := o.mutations[c.Rng.Intn(len(o.mutations))]
				if !(m == "nomidlast" && ty == "a") {
					s += ":" + m
				}
			}
			emit(s)
			// the sim does not follow these: they almost always fail; when one succeeds the walk
			// merely becomes less guided
		case roll < o.closeProb+o.invalid+o.rollback:
			verb := "sl"
			if sp.sig == "hro" || sp.sig == "hrp" || (sp.sig == "st" && c.Rng.Intn(2) == 0) {
				verb = "sr"
			}
			if c.Rng.Intn(8) == 0 { // wrong side
				verb = map[string]string{"sl": "sr", "sr": "sl"}[verb]
			}
			ref := []string{"e", "mo", "po", "pa", "g"}[c.Rng.Intn(5)]
			emit(p + verb + ":r:" + ref)
			if (verb == "sl" && (sp.sig == "hlo" || sp.sig == "hlp")) || (verb == "sr" && (sp.sig == "hro" || sp.sig == "hrp")) {
				sp.sig = "st"
			}
		default:
			// the sensible next call for p
			switch sp.sig {
			case "st":
				if sq.sig == "hlo" && c.Rng.Intn(4) != 0 {
					emit(p + "sr:o:po")
					sp.sig = "hro"
				} else if cfg != "d" && p == "B" {
					// With media sections only peer A makes offers: offers from both sides (glare, or B
					// offering before A's media was negotiated) run into pion's mid allocation
					// (duplicate mids, DESIGN §7 row 4) and CreateOffer then fails in ways the signaling
					// model does not describe.
					continue
				} else {
					emit(p + "co")
					sp.hasOffer = true
					ref := "mo"
					if c.Rng.Intn(5) == 0 {
						ref = "e"
					}
					emit(p + "sl:o:" + ref)
					sp.sig = "hlo"
				}
			case "hlo":
				switch {
				case sq.answerOut:
					emit(p + "sr:a:pa")
					sp.sig, sq.answerOut = "st", false
				case sq.sig == "hlp":
					emit(p + "sr:p:pa")
					sp.sig = "hrp"
				case sq.sig == "st" && !sq.closed:
					emit(q + "sr:o:po")
					sq.sig = "hro"
				default: // glare or a closed peer: give up the offer
					emit(p + "sl:r:e")
					sp.sig = "st"
				}
			case "hrp":
				if sq.answerOut {
					emit(p + "sr:a:pa")
					sp.sig, sq.answerOut = "st", false
				} else {
					emit(q + "ca")
					emit(q + "sl:a:ma")
					sq.sig, sq.answerOut = "st", true
				}
			case "hro", "hlp":
				emit(p + "ca")
				sp.hasAnswer = true
				ref := "ma"
				if c.Rng.Intn(5) == 0 {
					ref = "e"
				}
				if sp.sig == "hro" && c.Rng.Intn(3) == 0 {
					emit(p + "sl:p:" + ref)
					sp.sig = "hlp"
				} else {
					emit(p + "sl:a:" + ref)
					sp.sig, sp.answerOut = "st", true
				}
			}
		}
	}

	return "h " + cfg + " " + strings.Join(steps, " ")
}

// sigTable emits the raw argument tuples of checkNextSignalingState: cur, next 0..6, op 0..3, type 0..5.
func sigTable(c *Ctx, onlyType int) {
	for cur := 0; cur <= 6; cur++ {
		for next := 0; next <= 6; next++ {
			for op := 0; op <= 3; op++ {
				for ty := 0; ty <= 5; ty++ {
					if onlyType >= 0 && ty != onlyType {
						continue
					}
					c.Emit("tab %d %d %d %d", cur, next, op, ty)
				}
			}
		}
	}
}

// sigClass labels a history by the multiset of its outcomes, coarsely.
func sigClass(a []string, out string) string {
	if a[0] == "tab" {
		f := strings.Fields(out)
		if len(f) == 2 {
			return "tab→" + f[1]
		}

		return "tab ?"
	}
	ok, fail, roll := 0, 0, 0
	for i, tok := range strings.Fields(out) {
		f := strings.Split(tok, "/")
		isSet := i+2 < len(a) && (strings.Contains(a[i+2], "sl:") || strings.Contains(a[i+2], "sr:"))
		if !isSet || len(f) != 9 {
			continue
		}
		if f[0] == "ok" {
			ok++
			if strings.Contains(a[i+2], ":r:") {
				roll++
			}
		} else {
			fail++
		}
	}
	b := func(n int) string {
		switch {
		case n == 0:
			return "0"
		case n <= 2:
			return "1-2"
		case n <= 6:
			return "3-6"
		default:
			return "7+"
		}
	}

	return "hist set-ok=" + b(ok) + " set-rejected=" + b(fail) + " rollbacks-ok=" + b(roll)
}
