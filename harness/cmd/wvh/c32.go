package main

import (
	"bytes"
	"encoding/binary"
	"encoding/hex"
	"errors"
	"fmt"
	"io"
	"math/rand"
	"os"
	"path/filepath"
	"strconv"
	"strings"
	"sync/atomic"

	"github.com/pion/rtp"
	"github.com/pion/rtp/codecs"
	"github.com/pion/webrtc/v4/pkg/media/ivfreader"
	"github.com/pion/webrtc/v4/pkg/media/ivfwriter"
)

// c32Unhex is unhx without the per-byte Sscanf (op lines carry tens of kilobytes of hex).
func c32Unhex(s string) []byte {
	if s == "-" {
		return nil
	}
	b, err := hex.DecodeString(s)
	if err != nil {
		return unhx(s)
	}

	return b
}

// ---- sinks -------------------------------------------------------------------------------------

// plainSink is an io.Writer only (no Seek, no Close); it records every Write call.
type plainSink struct{ chunks [][]byte }

func (s *plainSink) Write(p []byte) (int, error) {
	s.chunks = append(s.chunks, append([]byte{}, p...))

	return len(p), nil
}

func (s *plainSink) bytes() []byte { return bytes.Join(s.chunks, nil) }

// memWS is an in-memory io.WriteSeeker that records every Write call.
type memWS struct {
	buf    []byte
	pos    int64
	chunks [][]byte
}

func (s *memWS) Write(p []byte) (int, error) {
	s.chunks = append(s.chunks, append([]byte{}, p...))
	end := s.pos + int64(len(p))
	if end > int64(len(s.buf)) {
		s.buf = append(s.buf, make([]byte, end-int64(len(s.buf)))...)
	}
	copy(s.buf[s.pos:], p)
	s.pos = end

	return len(p), nil
}

func (s *memWS) Seek(off int64, whence int) (int64, error) {
	switch whence {
	case io.SeekStart:
		s.pos = off
	case io.SeekCurrent:
		s.pos += off
	case io.SeekEnd:
		s.pos = int64(len(s.buf)) + off
	}
	if s.pos < 0 {
		return 0, errors.New("negative position")
	}

	return s.pos, nil
}

// fileTee is a real *os.File (Seek, Close, …) whose Write calls are recorded.
type fileTee struct {
	*os.File
	chunks [][]byte
}

func (s *fileTee) Write(p []byte) (int, error) {
	s.chunks = append(s.chunks, append([]byte{}, p...))

	return s.File.Write(p)
}

var c32FileSeq atomic.Int64

func c32TempName() string {
	return filepath.Join(os.TempDir(), fmt.Sprintf("wvh-c32-%d-%d.ivf", os.Getpid(), c32FileSeq.Add(1)))
}

// ---- descriptors -------------------------------------------------------------------------------

type c32Pkt struct {
	ts     uint32
	marker bool
	raw    []byte
}

// c32Descs runs pion/rtp's depacketizer over the packets exactly as the writer will (empty payloads
// are skipped before depacketizing; the AV1 depacketizer is stateful) and renders what it returned.
func c32Descs(codec string, pkts []c32Pkt) []string {
	out := make([]string, len(pkts))
	av1 := &codecs.AV1Depacketizer{}
	for i, p := range pkts {
		if len(p.raw) == 0 {
			out[i] = "-"

			continue
		}
		switch codec {
		case "9":
			v := codecs.VP9Packet{}
			if _, err := v.Unmarshal(p.raw); err != nil {
				out[i] = "e"
			} else {
				out[i] = fmt.Sprintf("%s%s:%d", b2s(v.P), b2s(v.B), len(p.raw)-len(v.Payload))
			}
		case "a":
			pl, err := av1.Unmarshal(p.raw)
			if err != nil {
				out[i] = "e"
			} else {
				out[i] = fmt.Sprintf("%s0=%s", b2s(av1.N), hx(pl))
			}
		default:
			v := codecs.VP8Packet{}
			if _, err := v.Unmarshal(p.raw); err != nil {
				out[i] = "e"
			} else {
				out[i] = fmt.Sprintf("%s0:%d", b2s(v.S == 1), len(p.raw)-len(v.Payload))
			}
		}
	}

	return out
}

// ---- reader ------------------------------------------------------------------------------------

func c32ErrKind(err error) string {
	switch {
	case err == io.EOF: //nolint:errorlint
		return "eof"
	case err.Error() == "incomplete file header":
		return "incomplete-file-header"
	case err.Error() == "IVF signature mismatch":
		return "signature-mismatch"
	case strings.HasPrefix(err.Error(), "IVF version unknown"):
		return "unknown-version"
	case err.Error() == "invalid media timebase":
		return "invalid-timebase"
	case err.Error() == "incomplete frame header":
		return "incomplete-frame-header"
	case err.Error() == "incomplete frame data":
		return "incomplete-frame-data"
	}

	return "other:" + strings.ReplaceAll(err.Error(), " ", "_")
}

func c32Read(file []byte) (res string) {
	defer func() {
		if r := recover(); r != nil {
			res = "R panic"
		}
	}()
	rd, hdr, err := ivfreader.NewWith(bytes.NewReader(file))
	if err != nil {
		return "R " + c32ErrKind(err)
	}
	frames := []string{}
	end := ""
	func() {
		defer func() {
			if r := recover(); r != nil {
				end = "panic"
			}
		}()
		for {
			pl, fh, err := rd.ParseNextFrame()
			if err != nil {
				end = c32ErrKind(err)

				return
			}
			if uint32(len(pl)) != fh.FrameSize { //nolint:gosec
				end = "framesize-field-differs"

				return
			}
			frames = append(frames, fmt.Sprintf("%s %d", fnv64s(pl), fh.Timestamp))
		}
	}()

	return strings.Join(strings.Fields(fmt.Sprintf("R ok %s %d %d %d %d %d %d %s %s", hx([]byte(hdr.FourCC)), hdr.Width,
		hdr.Height, hdr.TimebaseDenominator, hdr.TimebaseNumerator, hdr.NumFrames, len(frames),
		strings.Join(frames, " "), end)), " ")
}

// ---- generators --------------------------------------------------------------------------------

func c32RandBytes(r *rand.Rand, n int) []byte {
	b := make([]byte, n)
	r.Read(b)

	return b
}

func c32Leb(n int) []byte {
	out := []byte{}
	for {
		b := byte(n & 0x7f)
		n >>= 7
		if n == 0 {
			return append(out, b)
		}
		out = append(out, b|0x80)
	}
}

// c32AV1Frame builds a temporal unit as a low-overhead OBU stream.
func c32AV1Frame(r *rand.Rand, key bool, size int) []byte {
	out := []byte{}
	if r.Intn(3) != 0 {
		out = append(out, 0x12, 0x00) // temporal delimiter
	}
	obu := func(typ int, ext bool, sized bool, payload []byte) {
		h := byte(typ << 3)
		if ext {
			h |= 0x04
		}
		if sized {
			h |= 0x02
		}
		out = append(out, h)
		if ext {
			out = append(out, byte(r.Intn(8)<<5|r.Intn(4)<<3))
		}
		if sized {
			out = append(out, c32Leb(len(payload))...)
		}
		out = append(out, payload...)
	}
	if key {
		if r.Intn(8) == 0 {
			obu(5, false, true, c32RandBytes(r, 1+r.Intn(10))) // metadata before the sequence header
		}
		obu(1, false, true, c32RandBytes(r, 1+r.Intn(20)))
	}
	n := 1 + r.Intn(3)
	types := []int{6, 3, 4, 5, 6, 6}
	ext := r.Intn(4) == 0
	for k := 0; k < n; k++ {
		sz := size / n
		if sz < 1 {
			sz = 1
		}
		last := k == n-1
		obu(types[r.Intn(len(types))], ext && r.Intn(2) == 0, !last || r.Intn(4) != 0, c32RandBytes(r, sz))
	}

	return out
}

// c32VP9Frame builds a frame whose uncompressed header pion's vp9.Header parser accepts.
func c32VP9Frame(r *rand.Rand, key bool, size int) []byte {
	if key {
		if size < 10 {
			size = 10
		}
		b := c32RandBytes(r, size)
		copy(b, []byte{0x82, 0x49, 0x83, 0x42})
		b[4] &= 0x1f // colour space 0

		return b
	}
	b := c32RandBytes(r, size)
	b[0] = 0x86

	return b
}

func c32VP8Frame(r *rand.Rand, key bool, size int) []byte {
	b := c32RandBytes(r, size)
	if key {
		b[0] &^= 1
	} else {
		b[0] |= 1
	}

	return b
}

type c32Cfg struct {
	codec              string // 8 9 a d
	w, h, num, den     string
	direct             bool
	sink               string
	flexVP9, picIDVP8  bool
	mtu                int
	initialPictureID16 uint16
}

func c32GenCfg(r *rand.Rand) c32Cfg {
	c := c32Cfg{codec: []string{"8", "9", "a", "d"}[r.Intn(4)], w: "-", h: "-", num: "-", den: "-"}
	if r.Intn(3) != 0 {
		c.w, c.h = strconv.Itoa(r.Intn(65536)), strconv.Itoa(r.Intn(65536))
		if r.Intn(4) == 0 {
			c.w, c.h = []string{"0", "1", "255", "256", "65535"}[r.Intn(5)], []string{"0", "1", "255", "256", "65535"}[r.Intn(5)]
		}
	}
	c.direct = r.Intn(3) == 0
	switch r.Intn(10) {
	case 0, 1:
	case 2:
		c.num, c.den = "1", "90000"
	case 3:
		c.num, c.den = "1001", "30000"
	case 4:
		c.num, c.den = "1", "1000"
	case 5:
		c.num, c.den = strconv.Itoa(1+r.Intn(100)), strconv.Itoa(1+r.Intn(100))
	case 6:
		c.num, c.den = strconv.FormatUint(uint64(r.Uint32())|1, 10), strconv.FormatUint(uint64(r.Uint32())|1, 10)
	case 7:
		edge := []string{"1", "2", "255", "256", "65535", "65536", "16777216", "4294967295"}
		c.num, c.den = edge[r.Intn(len(edge))], edge[r.Intn(len(edge))]
	case 8:
		c.num, c.den = strconv.Itoa(1+r.Intn(3)), strconv.Itoa(1+r.Intn(120))
	default:
		if r.Intn(4) == 0 { // not a frame rate: a zero term
			if r.Intn(2) == 0 {
				c.num, c.den = "0", strconv.Itoa(1+r.Intn(60))
			} else {
				c.num, c.den = strconv.Itoa(1+r.Intn(60)), "0"
			}
		} else {
			c.num, c.den = "1", strconv.Itoa(1+r.Intn(60))
		}
	}
	c.sink = []string{"b", "s", "s", "f", "b", "s", "n"}[r.Intn(7)]
	c.flexVP9 = r.Intn(2) == 0
	c.picIDVP8 = r.Intn(2) == 0
	c.mtu = []int{100, 500, 1200, 1500, 20 + r.Intn(200), 20 + r.Intn(2000)}[r.Intn(6)]
	c.initialPictureID16 = uint16(r.Intn(0x8000)) //nolint:gosec

	return c
}

// c32GenStream packetizes random frames with pion's payloaders.
func c32GenStream(r *rand.Rand, c c32Cfg, startKey bool) []c32Pkt {
	var payloader rtp.Payloader
	switch c.codec {
	case "9":
		id := c.initialPictureID16
		payloader = &codecs.VP9Payloader{FlexibleMode: c.flexVP9, InitialPictureIDFn: func() uint16 { return id }}
	case "a":
		payloader = &codecs.AV1Payloader{}
	default:
		payloader = &codecs.VP8Payloader{EnablePictureID: c.picIDVP8}
	}
	ts := r.Uint32()
	switch r.Intn(5) {
	case 0:
		ts = 0xFFFFFFFF - uint32(r.Intn(20000)) //nolint:gosec
	case 1:
		ts = uint32(r.Intn(5)) //nolint:gosec
	}
	step := []uint32{3000, 3000, 1500, 90000, 3003, 1, 0, uint32(r.Intn(200000)), uint32(r.Intn(1 << 31))}[r.Intn(9)] //nolint:gosec
	nframes := 1 + r.Intn(10)
	if r.Intn(6) == 0 {
		nframes = r.Intn(3)
	}
	pkts := []c32Pkt{}
	for f := 0; f < nframes; f++ {
		key := r.Intn(5) == 0
		if f == 0 {
			key = startKey
		}
		size := 1 + r.Intn(3000)
		switch r.Intn(8) {
		case 0:
			size = 1 + r.Intn(12)
		case 1:
			size = c.mtu - 5 + r.Intn(10)
			if size < 1 {
				size = 1
			}
		case 2:
			size = 3000 + r.Intn(15000)
		case 3:
			if r.Intn(12) == 0 && c.mtu >= 1000 { // around and beyond 2^16 (a 16-bit length would wrap)
				size = []int{65520 + r.Intn(40), 70000 + r.Intn(70000)}[r.Intn(2)]
			}
		}
		var frame []byte
		switch c.codec {
		case "9":
			frame = c32VP9Frame(r, key, size)
		case "a":
			frame = c32AV1Frame(r, key, size)
		default:
			frame = c32VP8Frame(r, key, size)
		}
		parts := payloader.Payload(uint16(c.mtu), frame) //nolint:gosec
		for k, p := range parts {
			pkts = append(pkts, c32Pkt{ts: ts, marker: k == len(parts)-1, raw: p})
		}
		if r.Intn(6) == 0 {
			ts += uint32(r.Intn(100000)) //nolint:gosec
		} else {
			ts += step
		}
	}

	return pkts
}

// c32Mangle damages a packet stream the way a lossy / hostile network would.
func c32Mangle(r *rand.Rand, codec string, pkts []c32Pkt) []c32Pkt {
	for n := 1 + r.Intn(3); n > 0; n-- {
		if len(pkts) == 0 {
			pkts = append(pkts, c32Pkt{ts: r.Uint32(), marker: r.Intn(2) == 0, raw: c32RandBytes(r, 1+r.Intn(40))})

			continue
		}
		i := r.Intn(len(pkts))
		switch r.Intn(11) {
		case 0: // loss
			pkts = append(pkts[:i:i], pkts[i+1:]...)
		case 1: // duplicate
			pkts = append(pkts[:i+1:i+1], pkts[i:]...)
		case 2: // swap
			if i+1 < len(pkts) {
				pkts[i], pkts[i+1] = pkts[i+1], pkts[i]
			}
		case 3: // marker flipped
			pkts[i].marker = !pkts[i].marker
		case 4: // truncated payload
			pkts[i].raw = append([]byte{}, pkts[i].raw[:r.Intn(len(pkts[i].raw)+1)]...)
		case 5: // empty payload
			pkts[i].raw = nil
		case 6: // timestamp changes inside a frame
			pkts[i].ts += uint32(r.Intn(10000)) //nolint:gosec
		case 7: // garbage packet inserted
			g := c32Pkt{ts: pkts[i].ts, marker: r.Intn(3) == 0, raw: c32RandBytes(r, 1+r.Intn(30))}
			pkts = append(pkts[:i:i], append([]c32Pkt{g}, pkts[i:]...)...)
		case 8: // first byte (payload descriptor) flipped
			raw := append([]byte{}, pkts[i].raw...)
			if len(raw) > 0 {
				raw[0] ^= byte(1 << r.Intn(8))
			}
			pkts[i].raw = raw
		case 9: // header-only packet (VP8: one descriptor byte and no payload)
			if codec == "8" || codec == "d" {
				pkts[i].raw = []byte{byte(r.Intn(2) << 4)}
			} else if len(pkts[i].raw) > 1 {
				pkts[i].raw = pkts[i].raw[:1]
			}
		case 10: // burst loss
			j := i + 1 + r.Intn(4)
			if j > len(pkts) {
				j = len(pkts)
			}
			pkts = append(pkts[:i:i], pkts[j:]...)
		}
	}

	return pkts
}

// c32InsertBare puts packets that carry a payload descriptor and no data inside otherwise well-formed
// VP8/VP9 frames (never in front of a frame): between two packets, or behind the last one, taking over
// its marker. Such packets are accepted by pion/rtp's depacketizers with an empty Payload.
func c32InsertBare(r *rand.Rand, codec string, pkts []c32Pkt) []c32Pkt {
	if codec == "a" {
		return pkts
	}
	for n := 1 + r.Intn(3); n > 0 && len(pkts) > 0; n-- {
		i := r.Intn(len(pkts))
		raw := pkts[i].raw
		var off int
		if codec == "9" {
			v := codecs.VP9Packet{}
			if _, err := v.Unmarshal(raw); err != nil {
				continue
			}
			off = len(raw) - len(v.Payload)
		} else {
			v := codecs.VP8Packet{}
			if _, err := v.Unmarshal(raw); err != nil {
				continue
			}
			off = len(raw) - len(v.Payload)
		}
		bare := append([]byte{}, raw[:off]...)
		if codec == "9" {
			bare[0] &^= 0x08 // B
		} else {
			bare[0] &^= 0x10 // S
		}
		ins := c32Pkt{ts: pkts[i].ts, marker: pkts[i].marker, raw: bare}
		pkts[i].marker = false
		pkts = append(pkts[:i+1:i+1], append([]c32Pkt{ins}, pkts[i+1:]...)...)
	}

	return pkts
}

func c32EmitW(c *Ctx, tag string, cf c32Cfg, pkts []c32Pkt) {
	descs := c32Descs(cf.codec, pkts)
	sb := strings.Builder{}
	fmt.Fprintf(&sb, "w %s %s %s %s %s %s %s %s %d", tag, cf.codec, cf.w, cf.h, cf.num, cf.den, b2s(cf.direct), cf.sink, len(pkts))
	for i, p := range pkts {
		fmt.Fprintf(&sb, " %d %s %s %s", p.ts, b2s(p.marker), hx(p.raw), descs[i])
	}
	c.Emit("%s", sb.String())
}

// c32ValidFile builds an IVF file by hand (not with the writer under test).
func c32ValidFile(r *rand.Rand, nframes int) []byte {
	f := []byte("DKIF\x00\x00\x20\x00")
	f = append(f, []string{"VP80", "VP90", "AV01", "H264"}[r.Intn(4)]...)
	f = binary.LittleEndian.AppendUint16(f, uint16(r.Intn(65536))) //nolint:gosec
	f = binary.LittleEndian.AppendUint16(f, uint16(r.Intn(65536))) //nolint:gosec
	den, num := uint32(1+r.Intn(100)), uint32(1+r.Intn(100))       //nolint:gosec
	if r.Intn(4) == 0 {
		den, num = r.Uint32()|1, r.Uint32()|1
	}
	f = binary.LittleEndian.AppendUint32(f, den)
	f = binary.LittleEndian.AppendUint32(f, num)
	f = binary.LittleEndian.AppendUint32(f, uint32(r.Intn(1000))) //nolint:gosec
	f = binary.LittleEndian.AppendUint32(f, r.Uint32())
	for k := 0; k < nframes; k++ {
		pl := c32RandBytes(r, []int{0, 1, 2, 11, 12, 13, r.Intn(300)}[r.Intn(7)])
		if r.Intn(60) == 0 {
			pl = c32RandBytes(r, 65530+r.Intn(600))
		}
		f = binary.LittleEndian.AppendUint32(f, uint32(len(pl))) //nolint:gosec
		pts := uint64(r.Intn(1 << 20))
		switch r.Intn(6) {
		case 0:
			pts = r.Uint64()
		case 1:
			pts = 1<<64 - 1
		}
		f = binary.LittleEndian.AppendUint64(f, pts)
		f = append(f, pl...)
	}

	return f
}

// c32SafeRaw reports whether reading f allocates only small buffers: ParseNextFrame allocates FrameSize
// bytes (up to 4 GiB) before reading, and allocation size is outside the model.
func c32SafeRaw(f []byte) bool {
	pos := 32
	for pos+12 <= len(f) {
		size := int(binary.LittleEndian.Uint32(f[pos:]))
		if size > 1<<22 {
			return false
		}
		pos += 12 + size
	}

	return true
}

// ---- executor ----------------------------------------------------------------------------------

func c32ExecW(a []string) string {
	if len(a) < 10 {
		return "bad-op"
	}
	codec, sinkKind := a[2], a[8]
	n, err := strconv.Atoi(a[9])
	if err != nil || len(a) != 10+4*n {
		return "bad-op"
	}
	pkts := make([]c32Pkt, n)
	descs := make([]string, n)
	for k := 0; k < n; k++ {
		ts, e := strconv.ParseUint(a[10+4*k], 10, 32)
		if e != nil {
			return "bad-op"
		}
		pkts[k] = c32Pkt{ts: uint32(ts), marker: a[11+4*k] == "1", raw: c32Unhex(a[12+4*k])}
		if pkts[k].raw == nil {
			pkts[k].raw = []byte{}
		}
		descs[k] = a[13+4*k]
	}
	// the descriptors on the op line must be what the real depacketizers return for these payloads
	dOK := "D1"
	for k, d := range c32Descs(codec, pkts) {
		if d != descs[k] {
			dOK = "D0"
		}
	}
	opts := []ivfwriter.Option{}
	switch codec {
	case "8":
		opts = append(opts, ivfwriter.WithCodec("video/VP8"))
	case "9":
		opts = append(opts, ivfwriter.WithCodec("video/VP9"))
	case "a":
		opts = append(opts, ivfwriter.WithCodec("video/AV1"))
	case "d":
	default:
		return "bad-op"
	}
	if a[3] != "-" || a[4] != "-" {
		w, e1 := strconv.ParseUint(a[3], 10, 16)
		h, e2 := strconv.ParseUint(a[4], 10, 16)
		if e1 != nil || e2 != nil {
			return "bad-op"
		}
		opts = append(opts, ivfwriter.WithWidthAndHeight(uint16(w), uint16(h)))
	}
	if a[5] != "-" || a[6] != "-" {
		num, e1 := strconv.ParseUint(a[5], 10, 32)
		den, e2 := strconv.ParseUint(a[6], 10, 32)
		if e1 != nil || e2 != nil {
			return "bad-op"
		}
		opts = append(opts, ivfwriter.WithFrameRate(uint32(num), uint32(den)))
	}
	if a[7] == "1" {
		opts = append(opts, ivfwriter.WithDirectPTS())
	}

	var (
		wr       *ivfwriter.IVFWriter
		chunks   func() [][]byte
		fileOf   func() []byte
		fileName string
	)
	switch sinkKind {
	case "b":
		s := &plainSink{}
		wr, err = ivfwriter.NewWith(s, opts...)
		chunks, fileOf = func() [][]byte { return s.chunks }, s.bytes
	case "s":
		s := &memWS{}
		wr, err = ivfwriter.NewWith(s, opts...)
		chunks, fileOf = func() [][]byte { return s.chunks }, func() []byte { return s.buf }
	case "f":
		fileName = c32TempName()
		f, e := os.Create(fileName) //nolint:gosec
		if e != nil {
			return "harness-error " + e.Error()
		}
		s := &fileTee{File: f}
		wr, err = ivfwriter.NewWith(s, opts...)
		if err != nil {
			_ = f.Close()
		}
		chunks = func() [][]byte { return s.chunks }
	case "n":
		fileName = c32TempName()
		wr, err = ivfwriter.New(fileName, opts...)
	default:
		return "bad-op"
	}
	if fileName != "" {
		defer os.Remove(fileName) //nolint:errcheck
		fileOf = func() []byte {
			b, _ := os.ReadFile(fileName) //nolint:gosec

			return b
		}
	}
	tee := func(closed bool) string {
		if chunks == nil {
			return "-"
		}
		ch := chunks()
		if closed && sinkKind != "b" && len(ch) > 0 {
			ch = ch[:len(ch)-1] // the frame-count patch written by Close
		}
		out := []string{}
		for i := 1; i+1 < len(ch); i += 2 {
			if len(ch[i]) != 12 {
				return "x"
			}
			out = append(out, fmt.Sprintf("%s %d", fnv64s(ch[i+1]), binary.LittleEndian.Uint64(ch[i][4:])))
		}
		if len(ch) > 0 && len(ch)%2 == 0 {
			return "x"
		}

		return strings.Join(append([]string{strconv.Itoa(len(out))}, out...), " ")
	}
	if err != nil {
		return fmt.Sprintf("W eT 0 %s B %s T %s %s", dOK, fnv64s(fileOf()), tee(false), c32Read(fileOf()))
	}
	st, nerr := "ok", 0
	// like a receive loop: every packet's payload lives in ONE reused read buffer, which is overwritten
	// by the next packet (a writer that keeps a reference instead of a copy corrupts its pending frame).
	// Not for AV1: pion/rtp's AV1Depacketizer (external) itself keeps a reference to an unfinished OBU
	// fragment across packets, so a reused buffer corrupts AV1 frames before ivfwriter sees them.
	shared := make([]byte, 0, 1<<16)
	for k, p := range pkts {
		if codec != "a" {
			shared = append(shared[:0], p.raw...)
			p.raw = shared
		}
		panicked := false
		func() {
			defer func() {
				if r := recover(); r != nil {
					panicked = true
				}
			}()
			if e := wr.WriteRTP(&rtp.Packet{Header: rtp.Header{Timestamp: p.ts, Marker: p.marker}, Payload: p.raw}); e != nil {
				nerr++
			}
		}()
		if panicked {
			st = fmt.Sprintf("p%d", k)

			break
		}
	}
	if e := wr.Close(); e != nil {
		return "W close-error " + e.Error()
	}
	if e := wr.Close(); e != nil { // Close may be called again
		return "W close-error " + e.Error()
	}
	file := fileOf()

	return fmt.Sprintf("W %s %d %s B %s T %s %s", st, nerr, dOK, fnv64s(file), tee(true), c32Read(file))
}

func init() {
	registry["C32"] = &Prop{
		Workers: 16,
		Rule: "w/wf: 1-10 random frames (VP8 / VP9 flexible+non-flexible / AV1 OBU temporal units, sizes 1..18000, " +
			"key and inter frames, mostly starting with a key frame) packetized by pion/rtp's VP8/VP9/AV1 payloaders " +
			"at MTU {100,500,1200,1500,random 20..2020} (a few frames of 65 520..140 000 bytes), RTP timestamps incl. 32-bit wrap-around and irregular steps, " +
			"options: codec (or none), width/height, frame rates (default, 1/90000, 1001/30000, random 32-bit, edge values, " +
			"a zero term), direct-PTS; sinks: plain io.Writer, in-memory io.WriteSeeker, *os.File via NewWith, New(fileName); " +
			"fed to ivfwriter.WriteRTP, closed, read back with ivfreader. w/wfb: the same with 1-3 packets that carry only a " +
			"VP8/VP9 payload descriptor (empty depacketized payload) inside the frames, also as the marker packet. w/mal: the same streams after 1-3 network faults " +
			"(loss, burst loss, duplicate, swap, flipped marker, truncated / empty / header-only payload, timestamp jitter, " +
			"garbage packet, flipped descriptor bit). raw: hand-built IVF files (valid; truncated at every kind of boundary; " +
			"mutated header fields and length fields) read with ivfreader. Packet descriptors (depacketizer verdict) on the op " +
			"line are recomputed with pion/rtp at execution time. Non-trivial: the writer wrote at least one frame, or the " +
			"reader got past the file header.",
		Gen: func(c *Ctx) {
			r := c.Rng
			for i := 0; i < c.N(1000, 7000); i++ {
				cf := c32GenCfg(r)
				startKey := r.Intn(6) != 0
				pkts := c32GenStream(r, cf, startKey)
				switch {
				case r.Intn(4) == 0:
					if r.Intn(3) == 0 {
						pkts = c32InsertBare(r, cf.codec, pkts)
					}
					c32EmitW(c, "mal", cf, c32Mangle(r, cf.codec, pkts))
				case cf.codec != "a" && r.Intn(5) == 0:
					c32EmitW(c, "wfb", cf, c32InsertBare(r, cf.codec, pkts))
				default:
					c32EmitW(c, "wf", cf, pkts)
				}
			}
			// reader on hand-built files
			for i := 0; i < c.N(400, 4000); i++ {
				f := c32ValidFile(r, r.Intn(6))
				switch r.Intn(8) {
				case 0, 1, 2:
				case 3: // truncation
					f = f[:r.Intn(len(f)+1)]
				case 4: // header byte changed
					f[r.Intn(32)] ^= byte(1 << r.Intn(8))
				case 5: // a zero timebase term
					copy(f[16+4*r.Intn(2):], []byte{0, 0, 0, 0})
				case 6: // a length field changed (low three bytes only: allocation size is outside the model)
					if len(f) >= 44 {
						f[32+r.Intn(3)] = byte(r.Intn(256))
					}
				case 7: // trailing bytes
					f = append(f, c32RandBytes(r, 1+r.Intn(14))...)
				}
				if c32SafeRaw(f) {
					c.Emit("raw %s", hx(f))
				}
			}
			for cut := 0; cut <= 60; cut++ { // every truncation point of one two-frame file
				f := c32ValidFile(rand.New(rand.NewSource(99)), 2) //nolint:gosec
				if cut <= len(f) {
					c.Emit("raw %s", hx(f[:cut]))
				}
			}
		},
		Exec: func(a []string) string {
			switch a[0] {
			case "w":
				return c32ExecW(a)
			case "raw":
				if len(a) != 2 {
					return "bad-op"
				}

				return c32Read(c32Unhex(a[1]))
			}

			return "bad-op"
		},
		Class: func(a []string, out string) string {
			f := strings.Fields(out)
			if a[0] == "raw" {
				if len(f) > 1 && f[1] == "ok" {
					return "raw hdr-ok end=" + f[len(f)-1]
				}

				return "raw " + strings.Join(f[1:], " ")
			}
			if len(a) < 9 || len(f) < 2 {
				return ""
			}
			st := strings.TrimRight(f[1], "0123456789")
			written := "frames=0"
			for i, t := range f {
				if t == "T" && i+1 < len(f) && f[i+1] != "0" {
					written = "frames>0"
				}
			}

			return fmt.Sprintf("w %s codec=%s sink=%s W=%s %s", a[1], a[2], a[8], st, written)
		},
		Trivial: func(a []string, out string) bool {
			f := strings.Fields(out)
			if a[0] == "raw" {
				return !(len(f) > 1 && f[1] == "ok")
			}
			for i, t := range f {
				if t == "R" && i+9 < len(f) && f[i+1] == "ok" && f[i+8] != "0" {
					return false
				}
			}

			return true
		},
	}
}
