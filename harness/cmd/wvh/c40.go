package main

import (
	"fmt"
	"math/rand"
	"os"
	"path/filepath"
	"runtime"
	"strconv"
	"strings"
	"sync"
	"time"

	"github.com/pion/rtp"
	"github.com/pion/webrtc/v4"
	"github.com/pion/webrtc/v4/pkg/media"
)

// C40 — randomized concurrent programs against one PeerConnection while a serialized offer/answer
// exchange runs; meant to be executed from the -race build (bin/check builds .build/wvh-race).
//
//	conc <seed> <goroutines> <calls>   → ok | race | hang | err:<…>
func raceLogSize() int64 {
	p := os.Getenv("WVH_RACE_LOG")
	if p == "" {
		return 0
	}
	var n int64
	ms, _ := filepath.Glob(p + "*")
	for _, m := range ms {
		if st, err := os.Stat(m); err == nil {
			n += st.Size()
		}
	}

	return n
}

func c40Run(seed int64, ng, ncalls int) string {
	before := raceLogSize()
	se := webrtc.SettingEngine{}
	se.SetICETimeouts(2*time.Second, 4*time.Second, 500*time.Millisecond)
	api := webrtc.NewAPI(webrtc.WithSettingEngine(se))
	pcA, err := api.NewPeerConnection(webrtc.Configuration{})
	if err != nil {
		return "err:newpc"
	}
	pcB, err := api.NewPeerConnection(webrtc.Configuration{})
	if err != nil {
		return "err:newpc"
	}
	if _, err = pcA.CreateDataChannel("init", nil); err != nil {
		return "err:dc"
	}
	var tmu sync.Mutex
	tracksRTP := []*webrtc.TrackLocalStaticRTP{}
	tracksSample := []*webrtc.TrackLocalStaticSample{}
	senders := []*webrtc.RTPSender{}
	done := make(chan struct{})
	var wg sync.WaitGroup

	// serialized signaling exchange, repeated
	wg.Add(1)
	go func() {
		defer wg.Done()
		for i := 0; i < 3; i++ {
			select {
			case <-done:
				return
			default:
			}
			offer, err := pcA.CreateOffer(nil)
			if err != nil {
				return
			}
			if pcA.SetLocalDescription(offer) != nil {
				return
			}
			if pcB.SetRemoteDescription(offer) != nil {
				return
			}
			answer, err := pcB.CreateAnswer(nil)
			if err != nil {
				return
			}
			if pcB.SetLocalDescription(answer) != nil {
				return
			}
			if pcA.SetRemoteDescription(*pcB.LocalDescription()) != nil {
				return
			}
			time.Sleep(time.Duration(5+i*5) * time.Millisecond)
		}
	}()

	for g := 0; g < ng; g++ {
		wg.Add(1)
		r := rand.New(rand.NewSource(seed*1000 + int64(g))) //nolint:gosec
		go func(g int) {
			defer wg.Done()
			for k := 0; k < ncalls; k++ {
				if r.Intn(4) == 0 {
					runtime.Gosched()
				}
				if r.Intn(25) == 0 {
					time.Sleep(time.Duration(r.Intn(300)) * time.Microsecond)
				}
				switch r.Intn(16) {
				case 0:
					tr, e := webrtc.NewTrackLocalStaticRTP(webrtc.RTPCodecCapability{MimeType: webrtc.MimeTypeVP8}, fmt.Sprintf("v%d_%d", g, k), "s")
					if e != nil {
						continue
					}
					if s, e := pcA.AddTrack(tr); e == nil {
						tmu.Lock()
						tracksRTP = append(tracksRTP, tr)
						senders = append(senders, s)
						tmu.Unlock()
					}
				case 1:
					tr, e := webrtc.NewTrackLocalStaticSample(webrtc.RTPCodecCapability{MimeType: webrtc.MimeTypeOpus}, fmt.Sprintf("a%d_%d", g, k), "s")
					if e != nil {
						continue
					}
					if s, e := pcA.AddTrack(tr); e == nil {
						tmu.Lock()
						tracksSample = append(tracksSample, tr)
						senders = append(senders, s)
						tmu.Unlock()
					}
				case 2:
					tmu.Lock()
					var s *webrtc.RTPSender
					if len(senders) > 0 {
						s = senders[r.Intn(len(senders))]
					}
					tmu.Unlock()
					if s != nil {
						_ = pcA.RemoveTrack(s)
					}
				case 3:
					kind := webrtc.RTPCodecTypeAudio
					if r.Intn(2) == 0 {
						kind = webrtc.RTPCodecTypeVideo
					}
					dir := []webrtc.RTPTransceiverDirection{
						webrtc.RTPTransceiverDirectionSendrecv, webrtc.RTPTransceiverDirectionRecvonly, webrtc.RTPTransceiverDirectionSendonly,
					}[r.Intn(3)]
					_, _ = pcA.AddTransceiverFromKind(kind, webrtc.RTPTransceiverInit{Direction: dir})
				case 4:
					_, _ = pcA.CreateDataChannel("d"+strconv.Itoa(k), nil)
				case 5:
					for _, t := range pcA.GetTransceivers() {
						_ = t.Mid()
						_ = t.Direction()
						_ = t.Kind()
						if s := t.Sender(); s != nil {
							_ = s.GetParameters()
							_ = s.Track()
						}
						if rc := t.Receiver(); rc != nil {
							_ = rc.GetParameters()
							_ = rc.Tracks()
						}
					}
				case 6:
					_ = pcA.GetSenders()
					_ = pcA.GetReceivers()
				case 7:
					_ = pcA.SignalingState()
					_ = pcA.ConnectionState()
					_ = pcA.ICEConnectionState()
					_ = pcA.ICEGatheringState()
					_ = pcA.LocalDescription()
					_ = pcA.RemoteDescription()
					_ = pcA.CurrentLocalDescription()
					_ = pcA.PendingLocalDescription()
				case 8:
					_ = pcA.GetStats()
				case 9, 10:
					tmu.Lock()
					var tr *webrtc.TrackLocalStaticRTP
					if len(tracksRTP) > 0 {
						tr = tracksRTP[r.Intn(len(tracksRTP))]
					}
					tmu.Unlock()
					if tr != nil {
						_ = tr.WriteRTP(&rtp.Packet{Header: rtp.Header{Version: 2, SequenceNumber: uint16(k)}, Payload: []byte{1, 2, 3}}) //nolint:gosec
					}
				case 11, 12:
					tmu.Lock()
					var tr *webrtc.TrackLocalStaticSample
					if len(tracksSample) > 0 {
						tr = tracksSample[r.Intn(len(tracksSample))]
					}
					tmu.Unlock()
					if tr != nil {
						_ = tr.WriteSample(media.Sample{Data: []byte{0xf8, 1, 2}, Duration: 20 * time.Millisecond})
					}
				case 13:
					_ = pcA.GetConfiguration()
					_ = pcA.SCTP()
					_ = pcB.GetTransceivers()
				case 14:
					_ = pcB.GetStats()
					_ = pcB.ConnectionState()
				case 15:
					if k > ncalls/2 && r.Intn(6) == 0 {
						_ = pcA.Close()
					}
				}
			}
		}(g)
	}
	fin := make(chan struct{})
	go func() {
		wg.Wait()
		close(fin)
	}()
	res := "ok"
	select {
	case <-fin:
	case <-time.After(40 * time.Second):
		res = "hang"
		buf := make([]byte, 1<<20)
		n := runtime.Stack(buf, true)
		_ = os.WriteFile(filepath.Join(os.TempDir(), "wvh-c40-hang.txt"), buf[:n], 0o644)
	}
	close(done)
	closed := make(chan struct{})
	go func() {
		_ = pcA.Close()
		_ = pcB.Close()
		close(closed)
	}()
	select {
	case <-closed:
	case <-time.After(20 * time.Second):
		if res == "ok" {
			res = "hang"
		}
	}
	if raceLogSize() > before {
		res = "race"
	}

	return res
}

func init() {
	registry["C40"] = &Prop{
		Workers: 6,
		Timeout: 90 * time.Second,
		Rule: "seeded concurrent programs: 4–12 goroutines × 20–120 calls drawn from AddTrack (RTP and sample tracks), " +
			"RemoveTrack, AddTransceiverFromKind, CreateDataChannel, GetTransceivers (+ per-transceiver getters), " +
			"GetSenders/GetReceivers, state getters, GetStats, WriteRTP/WriteSample, late Close, while one goroutine " +
			"runs three serialized offer/answer rounds with a peer; executed from a -race build; a race report, a 40 s " +
			"watchdog expiry or a Close that does not return is a failing input. Non-trivial: distinct seeds.",
		Gen: func(c *Ctx) {
			for i := 0; i < c.N(18, 400); i++ {
				c.Emit("conc %d %d %d", c.Rng.Int63n(1<<40), 4+c.Rng.Intn(9), 20+c.Rng.Intn(100))
			}
		},
		Exec: func(a []string) string {
			if len(a) != 4 || a[0] != "conc" {
				return "bad-op"
			}
			seed, e1 := strconv.ParseInt(a[1], 10, 64)
			ng, e2 := strconv.Atoi(a[2])
			nc, e3 := strconv.Atoi(a[3])
			if e1 != nil || e2 != nil || e3 != nil {
				return "bad-op"
			}

			return c40Run(seed, ng, nc)
		},
		Class: func(a []string, out string) string { return strings.Fields(out + " ?")[0] },
	}
}
