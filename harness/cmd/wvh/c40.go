package main

import (
	"crypto/sha1" //nolint:gosec
	"encoding/hex"
	"encoding/json"
	"fmt"
	"math/rand"
	"os"
	"os/exec"
	"path/filepath"
	"regexp"
	"runtime"
	"sort"
	"strconv"
	"strings"
	"sync"
	"time"

	"github.com/pion/rtcp"
	"github.com/pion/rtp"
	"github.com/pion/webrtc/v4"
	"github.com/pion/webrtc/v4/pkg/media"
)

// C40 — concurrent use of one PeerConnection and its children, executed from the -race build
// (bin/check builds .build/wvh-race). Two kinds of op line:
//
//	conc <seed> <goroutines> <calls>
//	    a seeded random program: <goroutines> goroutines each make <calls> calls drawn from the
//	    property's list while one goroutine runs three serialized offer/answer rounds.
//	par <setup> <seed> <ng> <reps> <group>…
//	    a fixture is brought to <setup> (fresh | offer | conn | conn2 | closing), then every <group>
//	    (entry-point names of c40Ops joined by '+') is run in turn: <ng> goroutines (goroutine i runs
//	    the i-th entry of the group, the extra ones repeat its non-signaling entries) are released by
//	    one barrier and call their entry point <reps> times (destructive ones once).
//
// Output: ok | race <pairA~pairB>… | hang <group> | inconclusive <why> | err:<…>
//	| crash <runtime message> | timeout
// Every op line is executed in a process of its own (c40Spawn). The race keys are read from that
// process's race-detector log, one key per distinct report: the innermost non-runtime function of each
// of the two conflicting accesses, sorted.

// ---------------------------------------------------------------------------------------------
// race-detector log of this process

func c40RaceLogPath() string {
	p := os.Getenv("WVH_RACE_LOG")
	if p == "" {
		return ""
	}

	return p + "." + strconv.Itoa(os.Getpid())
}

func raceLogSize() int64 {
	p := c40RaceLogPath()
	if p == "" {
		return 0
	}
	st, err := os.Stat(p)
	if err != nil {
		return 0
	}

	return st.Size()
}

var c40VersionSeg = regexp.MustCompile(`^v[0-9]+\.`)

// c40ShortFunc turns "github.com/pion/webrtc/v4.(*PeerConnection).GetStats()" into
// "webrtc.(*PeerConnection).GetStats".
func c40ShortFunc(fn string) string {
	fn = strings.TrimSuffix(fn, "()")
	if i := strings.LastIndex(fn, "/"); i >= 0 {
		last := fn[i+1:]
		if c40VersionSeg.MatchString(last) { // …/webrtc/v4.(*X).M
			prev := fn[:i]
			if j := strings.LastIndex(prev, "/"); j >= 0 {
				prev = prev[j+1:]
			}
			fn = prev + last[strings.Index(last, "."):]
		} else {
			fn = last
		}
	}

	return strings.ReplaceAll(fn, " ", "")
}

func c40RuntimeFrame(fn string) bool {
	for _, p := range []string{"runtime.", "sync.", "sync/atomic.", "internal/", "reflect."} {
		if strings.HasPrefix(fn, p) {
			return true
		}
	}

	return false
}

func c40AccessHeader(l string) bool {
	l = strings.ToLower(l)
	for _, p := range []string{"read at ", "write at ", "previous read at ", "previous write at ",
		"atomic read at ", "atomic write at ", "previous atomic read at ", "previous atomic write at "} {
		if strings.HasPrefix(l, p) {
			return true
		}
	}

	return false
}

// c40RacePairs extracts one key per DATA RACE report of text.
func c40RacePairs(text string) []string {
	set := map[string]bool{}
	for _, rep := range strings.Split(text, "==================") {
		if !strings.Contains(rep, "WARNING: DATA RACE") {
			continue
		}
		lines := strings.Split(rep, "\n")
		tops := []string{}
		for i := 0; i < len(lines); i++ {
			if !c40AccessHeader(lines[i]) {
				continue
			}
			top := "unknown"
			for j := i + 1; j < len(lines) && strings.TrimSpace(lines[j]) != ""; j++ {
				fl := lines[j]
				if strings.HasPrefix(fl, "  ") && !strings.HasPrefix(fl, "   ") {
					fn := strings.TrimSpace(fl)
					if !c40RuntimeFrame(fn) && !strings.HasPrefix(fn, "[") {
						top = c40ShortFunc(fn)

						break
					}
				}
			}
			tops = append(tops, top)
		}
		for len(tops) < 2 {
			tops = append(tops, "unknown")
		}
		pair := tops[:2]
		sort.Strings(pair)
		set[pair[0]+"~"+pair[1]] = true
	}
	out := []string{}
	for k := range set {
		out = append(out, k)
	}
	sort.Strings(out)

	return out
}

var (
	c40KnownOnce sync.Once
	c40Known     map[string]bool
)

// c40KnownKeys: the recorded C40 findings. They only influence the ORDER of the keys printed after
// `race` (unlisted first), so that a recorded race can never hide a new one behind it — the judge
// names the first key.
func c40KnownKeys() map[string]bool {
	c40KnownOnce.Do(func() {
		c40Known = map[string]bool{}
		data, err := os.ReadFile(filepath.Join(os.Getenv("VERIF_ROOT"), "known_findings.json"))
		if err != nil {
			return
		}
		var k struct {
			Findings []struct{ Property, Key string } `json:"findings"`
		}
		if json.Unmarshal(data, &k) != nil {
			return
		}
		for _, f := range k.Findings {
			if f.Property == "C40" {
				c40Known[strings.TrimPrefix(f.Key, "data-race:")] = true
			}
		}
	})

	return c40Known
}

// c40Verdict turns the result of the scenario and the growth of the race log into the output line and
// stores the report text next to the log for the replay file (bin/check picks it up by op hash).
func c40Verdict(args []string, res string, before int64) string {
	p := c40RaceLogPath()
	if p == "" || raceLogSize() <= before {
		return res
	}
	time.Sleep(20 * time.Millisecond) // let a report that is being written finish
	data, err := os.ReadFile(p)
	if err != nil || int64(len(data)) <= before {
		return res
	}
	text := string(data[before:])
	pairs := c40RacePairs(text)
	if len(pairs) == 0 {
		return res
	}
	known := c40KnownKeys()
	sort.SliceStable(pairs, func(i, j int) bool { return !known[pairs[i]] && known[pairs[j]] })
	h := sha1.Sum([]byte("C40 " + strings.Join(args, " "))) //nolint:gosec
	_ = os.WriteFile(os.Getenv("WVH_RACE_LOG")+"-op-"+hex.EncodeToString(h[:6])+".txt", []byte(text), 0o644)

	return "race " + strings.Join(pairs, " ")
}

// ---------------------------------------------------------------------------------------------
// conc: seeded random programs next to a serialized signaling exchange

func c40Run(seed int64, ng, ncalls int) string {
	se := webrtc.SettingEngine{}
	se.SetICETimeouts(2*time.Second, 4*time.Second, 500*time.Millisecond)
	api := webrtc.NewAPI(webrtc.WithSettingEngine(se))
	pcA, err := api.NewPeerConnection(webrtc.Configuration{})
	if err != nil {
		return "err:newpc"
	}
	pcB, err := api.NewPeerConnection(webrtc.Configuration{})
	if err != nil {
		return "err:newpc"
	}
	if _, err = pcA.CreateDataChannel("init", nil); err != nil {
		return "err:dc"
	}
	var tmu sync.Mutex
	tracksRTP := []*webrtc.TrackLocalStaticRTP{}
	tracksSample := []*webrtc.TrackLocalStaticSample{}
	senders := []*webrtc.RTPSender{}
	done := make(chan struct{})
	var wg sync.WaitGroup

	// serialized signaling exchange, repeated
	wg.Add(1)
	go func() {
		defer wg.Done()
		for i := 0; i < 3; i++ {
			select {
			case <-done:
				return
			default:
			}
			offer, err := pcA.CreateOffer(nil)
			if err != nil {
				return
			}
			if pcA.SetLocalDescription(offer) != nil {
				return
			}
			if pcB.SetRemoteDescription(offer) != nil {
				return
			}
			answer, err := pcB.CreateAnswer(nil)
			if err != nil {
				return
			}
			if pcB.SetLocalDescription(answer) != nil {
				return
			}
			if pcA.SetRemoteDescription(*pcB.LocalDescription()) != nil {
				return
			}
			time.Sleep(time.Duration(5+i*5) * time.Millisecond)
		}
	}()

	for g := 0; g < ng; g++ {
		wg.Add(1)
		r := rand.New(rand.NewSource(seed*1000 + int64(g))) //nolint:gosec
		go func(g int) {
			defer wg.Done()
			for k := 0; k < ncalls; k++ {
				if r.Intn(4) == 0 {
					runtime.Gosched()
				}
				if r.Intn(25) == 0 {
					time.Sleep(time.Duration(r.Intn(300)) * time.Microsecond)
				}
				switch r.Intn(16) {
				case 0:
					tr, e := webrtc.NewTrackLocalStaticRTP(webrtc.RTPCodecCapability{MimeType: webrtc.MimeTypeVP8}, fmt.Sprintf("v%d_%d", g, k), "s")
					if e != nil {
						continue
					}
					if s, e := pcA.AddTrack(tr); e == nil {
						tmu.Lock()
						tracksRTP = append(tracksRTP, tr)
						senders = append(senders, s)
						tmu.Unlock()
					}
				case 1:
					tr, e := webrtc.NewTrackLocalStaticSample(webrtc.RTPCodecCapability{MimeType: webrtc.MimeTypeOpus}, fmt.Sprintf("a%d_%d", g, k), "s")
					if e != nil {
						continue
					}
					if s, e := pcA.AddTrack(tr); e == nil {
						tmu.Lock()
						tracksSample = append(tracksSample, tr)
						senders = append(senders, s)
						tmu.Unlock()
					}
				case 2:
					tmu.Lock()
					var s *webrtc.RTPSender
					if len(senders) > 0 {
						s = senders[r.Intn(len(senders))]
					}
					tmu.Unlock()
					if s != nil {
						_ = pcA.RemoveTrack(s)
					}
				case 3:
					kind := webrtc.RTPCodecTypeAudio
					if r.Intn(2) == 0 {
						kind = webrtc.RTPCodecTypeVideo
					}
					dir := []webrtc.RTPTransceiverDirection{
						webrtc.RTPTransceiverDirectionSendrecv, webrtc.RTPTransceiverDirectionRecvonly, webrtc.RTPTransceiverDirectionSendonly,
					}[r.Intn(3)]
					_, _ = pcA.AddTransceiverFromKind(kind, webrtc.RTPTransceiverInit{Direction: dir})
				case 4:
					_, _ = pcA.CreateDataChannel("d"+strconv.Itoa(k), nil)
				case 5:
					for _, t := range pcA.GetTransceivers() {
						_ = t.Mid()
						_ = t.Direction()
						_ = t.Kind()
						if s := t.Sender(); s != nil {
							_ = s.GetParameters()
							_ = s.Track()
						}
						if rc := t.Receiver(); rc != nil {
							_ = rc.GetParameters()
							_ = rc.Tracks()
						}
					}
				case 6:
					_ = pcA.GetSenders()
					_ = pcA.GetReceivers()
				case 7:
					_ = pcA.SignalingState()
					_ = pcA.ConnectionState()
					_ = pcA.ICEConnectionState()
					_ = pcA.ICEGatheringState()
					_ = pcA.LocalDescription()
					_ = pcA.RemoteDescription()
					_ = pcA.CurrentLocalDescription()
					_ = pcA.PendingLocalDescription()
				case 8:
					_ = pcA.GetStats()
				case 9, 10:
					tmu.Lock()
					var tr *webrtc.TrackLocalStaticRTP
					if len(tracksRTP) > 0 {
						tr = tracksRTP[r.Intn(len(tracksRTP))]
					}
					tmu.Unlock()
					if tr != nil {
						_ = tr.WriteRTP(&rtp.Packet{Header: rtp.Header{Version: 2, SequenceNumber: uint16(k)}, Payload: []byte{1, 2, 3}}) //nolint:gosec
					}
				case 11, 12:
					tmu.Lock()
					var tr *webrtc.TrackLocalStaticSample
					if len(tracksSample) > 0 {
						tr = tracksSample[r.Intn(len(tracksSample))]
					}
					tmu.Unlock()
					if tr != nil {
						_ = tr.WriteSample(media.Sample{Data: []byte{0xf8, 1, 2}, Duration: 20 * time.Millisecond})
					}
				case 13:
					_ = pcA.GetConfiguration()
					_ = pcA.SCTP()
					_ = pcB.GetTransceivers()
				case 14:
					_ = pcB.GetStats()
					_ = pcB.ConnectionState()
				case 15:
					if k > ncalls/2 && r.Intn(6) == 0 {
						_ = pcA.Close()
					}
				}
			}
		}(g)
	}
	fin := make(chan struct{})
	go func() {
		wg.Wait()
		close(fin)
	}()
	res := "ok"
	if !c40Wait(fin) {
		res = "hang conc"
	}
	close(done)
	if !c40CloseAll(pcA, pcB) && res == "ok" {
		res = "hang close"
	}

	return res
}

// ---------------------------------------------------------------------------------------------
// par: table-driven concurrent groups at a setup point

const (
	c40Soft       = 40 * time.Second // after this the watchdog starts looking at the goroutines
	c40Hard       = 4 * time.Minute  // unconditional limit for one group / the teardown
	c40SetupAfter = 30 * time.Second
)

var c40CurrentArgs []string //nolint:gochecknoglobals // the op line this process executes (one per process)

func c40DumpGoroutines() {
	buf := make([]byte, 4<<20)
	n := runtime.Stack(buf, true)
	_ = os.WriteFile(filepath.Join(os.TempDir(), "wvh-c40-hang.txt"), buf[:n], 0o644)
	if keep := os.Getenv("WVH_RACE_LOG"); keep != "" && c40CurrentArgs != nil {
		h := sha1.Sum([]byte("C40 " + strings.Join(c40CurrentArgs, " "))) //nolint:gosec
		if n > 60000 {
			n = 60000
		}
		_ = os.WriteFile(keep+"-hang-"+hex.EncodeToString(h[:6])+".txt", buf[:n], 0o644)
	}
}

type c40GState struct {
	active bool   // running / runnable / in a syscall
	frames string // the stack without its header line
	op     bool   // one of the scenario's calling goroutines, currently inside the library
	pion   bool
}

func c40Snapshot() map[string]c40GState {
	buf := make([]byte, 4<<20)
	n := runtime.Stack(buf, true)
	out := map[string]c40GState{}
	for _, blk := range strings.Split(string(buf[:n]), "\n\n") {
		nl := strings.Index(blk, "\n")
		if nl < 0 || !strings.HasPrefix(blk, "goroutine ") || strings.Contains(blk, "main.c40Snapshot") {
			continue
		}
		head, frames := blk[:nl], blk[nl+1:]
		f := strings.Fields(head)
		if len(f) < 3 {
			continue
		}
		st := strings.Trim(strings.SplitN(head[strings.Index(head, "[")+1:], ",", 2)[0], "[]:")
		g := c40GState{frames: frames, pion: strings.Contains(frames, "github.com/pion/")}
		g.active = st == "running" || st == "runnable" || st == "syscall"
		g.op = g.pion && (strings.Contains(frames, "main.c40RunGroup.func1") || strings.Contains(frames, "main.c40Run.func") ||
			strings.Contains(frames, "main.c40CloseAll.func1"))
		out[f[1]] = g
	}

	return out
}

// c40LooksHung: four goroutine dumps half a second apart. The scenario counts as hung when every calling
// goroutine that is inside the library sits blocked with an unchanged stack in all four, and no goroutine
// with library frames is running or runnable in three of them (someone is still working, however slowly —
// on a loaded machine that is the common case, and then only the hard limit applies).
func c40LooksHung() bool {
	snaps := []map[string]c40GState{}
	for i := 0; i < 4; i++ {
		if i > 0 {
			time.Sleep(500 * time.Millisecond)
		}
		snaps = append(snaps, c40Snapshot())
	}
	ops := 0
	for id, g := range snaps[0] {
		if g.op {
			ops++
			for _, s := range snaps {
				if h, ok := s[id]; !ok || h.active || h.frames != g.frames {
					return false
				}
			}
		}
	}
	if ops == 0 {
		return false
	}
	busy := map[string]int{}
	for _, s := range snaps {
		for id, g := range s {
			if g.pion && g.active {
				busy[id]++
			}
		}
	}
	for _, n := range busy {
		if n >= 3 {
			return false
		}
	}

	return true
}

// c40Wait waits for fin; false = hung.
func c40Wait(fin <-chan struct{}) bool {
	hard := time.After(c40Hard)
	select {
	case <-fin:
		return true
	case <-time.After(c40Soft):
	}
	for {
		if c40LooksHung() {
			select {
			case <-fin:
				return true
			default:
			}
			c40DumpGoroutines()

			return false
		}
		select {
		case <-fin:
			return true
		case <-hard:
			c40DumpGoroutines()

			return false
		case <-time.After(5 * time.Second):
		}
	}
}

func c40CloseAll(pcs ...*webrtc.PeerConnection) bool {
	closed := make(chan struct{})
	go func() {
		for _, pc := range pcs {
			if pc != nil {
				_ = pc.Close()
			}
		}
		close(closed)
	}()

	return c40Wait(closed)
}

// c40Bounded runs a documented-blocking read without waiting for it longer than 150 ms (a deadline set
// before the read may be lost when a concurrent call replaces the stream; the read then ends at teardown).
func c40Bounded(f func()) {
	done := make(chan struct{})
	go func() {
		defer close(done)
		f()
	}()
	select {
	case <-done:
	case <-time.After(150 * time.Millisecond):
	}
}

// c40Fix is the fixture the entry points act on; nothing in it is written after setup.
type c40Fix struct {
	A, B       *webrtc.PeerConnection
	ts, ts2    *webrtc.TrackLocalStaticSample // video; ts is sent by sndV, ts2 is the spare for ReplaceTrack
	tr, tr2    *webrtc.TrackLocalStaticRTP    // audio; tr is sent by sndA
	sndV, sndA *webrtc.RTPSender
	tcvV, tcvA *webrtc.RTPTransceiver
	rcv        *webrtc.RTPReceiver // receiver of the video transceiver
	remote     *webrtc.TrackRemote // B's video as received by A (conn setups only)
	dc         *webrtc.DataChannel
	sctp       *webrtc.SCTPTransport
	dtls       *webrtc.DTLSTransport
	ice        *webrtc.ICETransport
	gat        *webrtc.ICEGatherer
	bCands     []webrtc.ICECandidateInit
	stop       chan struct{}
	bg         sync.WaitGroup
}

// c40G is the private state of one goroutine of a group (never shared: the harness must not add
// synchronisation between the goroutines it races).
type c40G struct {
	r       *rand.Rand
	g, k    int
	senders []*webrtc.RTPSender
	tcvs    []*webrtc.RTPTransceiver
	dcs     []*webrtc.DataChannel
}

const (
	fSig    = 1 << iota // signaling call: at most one goroutine of a group makes signaling calls (the property's "one goroutine performs a serialized signaling exchange")
	fOnce               // destructive: called once per goroutine, and its group is placed last on the line
	fRO                 // pure getter
	fListed             // named by the property text (track/transceiver/data-channel calls, state getters, GetStats, local-track writes, Close)
	fConn               // only meaningful on a connected fixture
	fHeavy              // expensive: a quarter of the repetitions
	fGrow               // adds a track / transceiver / data channel: never repeated beyond its own count (the SDP would grow without bound)
)

type c40Op struct {
	Name  string
	Flags int
	Run   func(f *c40Fix, x *c40G)
}

func c40Noop()         {}
func c40NoopErr(error) {}
func c40SDPExchange(o, a *webrtc.PeerConnection, opt *webrtc.OfferOptions) {
	dbg := func(step string, err error) bool {
		if err != nil && os.Getenv("WVH_C40_DEBUG") != "" {
			fmt.Fprintf(os.Stderr, "c40 exchange: %s: %v\n", step, err)
		}

		return err != nil
	}
	// the exchange is serialized and complete: an offer that is already pending on the offerer (setup point
	// `offer`) is carried through instead of being replaced, one pending on the answerer is rolled back first
	if a.SignalingState() == webrtc.SignalingStateHaveLocalOffer {
		dbg("rollback", a.SetLocalDescription(webrtc.SessionDescription{Type: webrtc.SDPTypeRollback}))
	}
	if o.SignalingState() != webrtc.SignalingStateHaveLocalOffer {
		offer, err := o.CreateOffer(opt)
		if dbg("CreateOffer", err) || dbg("SetLocalDescription(offer)", o.SetLocalDescription(offer)) {
			return
		}
	}
	ld := o.LocalDescription()
	if ld == nil || dbg("SetRemoteDescription(offer)", a.SetRemoteDescription(*ld)) {
		return
	}
	answer, err := a.CreateAnswer(nil)
	if dbg("CreateAnswer", err) || dbg("SetLocalDescription(answer)", a.SetLocalDescription(answer)) {
		return
	}
	if ld = a.LocalDescription(); ld != nil {
		dbg("SetRemoteDescription(answer)", o.SetRemoteDescription(*ld))
	}
}

var c40Opus = webrtc.RTPCodecCapability{MimeType: webrtc.MimeTypeOpus, ClockRate: 48000, Channels: 2}
var c40VP8 = webrtc.RTPCodecCapability{MimeType: webrtc.MimeTypeVP8, ClockRate: 90000}

func c40RawRTP(seq uint16) []byte {
	b, _ := (&rtp.Packet{Header: rtp.Header{Version: 2, SequenceNumber: seq, Timestamp: uint32(seq) * 960}, Payload: []byte{0xf8, 1, 2, 3}}).Marshal()

	return b
}

// c40Ops — ONE LINE PER ENTRY POINT. Adding a public call to the scenarios means adding a line here;
// the generator pairs it with every other line at every setup point it is allowed at.
var c40Ops = []c40Op{ //nolint:gochecknoglobals
	// --- PeerConnection: track / transceiver / data-channel calls
	{"pc.AddTrackRTP", fListed | fGrow, func(f *c40Fix, x *c40G) {
		if t, e := webrtc.NewTrackLocalStaticRTP(c40VP8, fmt.Sprintf("v%d_%d", x.g, x.k), "s"); e == nil {
			if s, e := f.A.AddTrack(t); e == nil {
				x.senders = append(x.senders, s)
			}
		}
	}},
	{"pc.AddTrackSample", fListed | fGrow, func(f *c40Fix, x *c40G) {
		if t, e := webrtc.NewTrackLocalStaticSample(c40Opus, fmt.Sprintf("a%d_%d", x.g, x.k), "s"); e == nil {
			if s, e := f.A.AddTrack(t); e == nil {
				x.senders = append(x.senders, s)
			}
		}
	}},
	{"pc.RemoveTrack", fListed, func(f *c40Fix, x *c40G) {
		if n := len(x.senders); n > 0 {
			_ = f.A.RemoveTrack(x.senders[n-1])
			x.senders = x.senders[:n-1]
		} else if ss := f.A.GetSenders(); len(ss) > 0 {
			_ = f.A.RemoveTrack(ss[x.r.Intn(len(ss))])
		}
	}},
	{"pc.AddTransceiverFromKind", fListed | fGrow, func(f *c40Fix, x *c40G) {
		kind := []webrtc.RTPCodecType{webrtc.RTPCodecTypeAudio, webrtc.RTPCodecTypeVideo}[x.r.Intn(2)]
		dir := []webrtc.RTPTransceiverDirection{webrtc.RTPTransceiverDirectionSendrecv, webrtc.RTPTransceiverDirectionRecvonly, webrtc.RTPTransceiverDirectionSendonly}[x.r.Intn(3)]
		if t, e := f.A.AddTransceiverFromKind(kind, webrtc.RTPTransceiverInit{Direction: dir}); e == nil {
			x.tcvs = append(x.tcvs, t)
		}
	}},
	{"pc.AddTransceiverFromTrack", fListed | fGrow, func(f *c40Fix, x *c40G) {
		if t, e := webrtc.NewTrackLocalStaticSample(c40VP8, fmt.Sprintf("t%d_%d", x.g, x.k), "s"); e == nil {
			if tc, e := f.A.AddTransceiverFromTrack(t, webrtc.RTPTransceiverInit{Direction: webrtc.RTPTransceiverDirectionSendonly}); e == nil {
				x.tcvs = append(x.tcvs, tc)
			}
		}
	}},
	{"pc.CreateDataChannel", fListed | fGrow, func(f *c40Fix, x *c40G) {
		if d, e := f.A.CreateDataChannel(fmt.Sprintf("d%d_%d", x.g, x.k), nil); e == nil {
			x.dcs = append(x.dcs, d)
		}
	}},
	{"pc.GetTransceivers", fListed | fRO, func(f *c40Fix, _ *c40G) {
		for _, t := range f.A.GetTransceivers() {
			_, _, _ = t.Mid(), t.Direction(), t.Kind()
			if s := t.Sender(); s != nil {
				_, _ = s.GetParameters(), s.Track()
			}
			if rc := t.Receiver(); rc != nil {
				_, _ = rc.GetParameters(), rc.Tracks()
			}
		}
	}},
	{"pc.GetSenders", fListed | fRO, func(f *c40Fix, _ *c40G) { _ = f.A.GetSenders() }},
	{"pc.GetReceivers", fListed | fRO, func(f *c40Fix, _ *c40G) { _ = f.A.GetReceivers() }},
	// --- PeerConnection: getters
	{"pc.StateGetters", fListed | fRO, func(f *c40Fix, _ *c40G) {
		_, _, _, _ = f.A.SignalingState(), f.A.ConnectionState(), f.A.ICEConnectionState(), f.A.ICEGatheringState()
	}},
	{"pc.Descriptions", fListed | fRO, func(f *c40Fix, _ *c40G) {
		_, _, _ = f.A.LocalDescription(), f.A.RemoteDescription(), f.A.CanTrickleICECandidates()
		_, _, _, _ = f.A.CurrentLocalDescription(), f.A.PendingLocalDescription(), f.A.CurrentRemoteDescription(), f.A.PendingRemoteDescription()
	}},
	{"pc.GetStats", fListed | fHeavy, func(f *c40Fix, _ *c40G) { _ = f.A.GetStats() }},
	{"pc.GetConfiguration", fRO, func(f *c40Fix, _ *c40G) { _, _, _ = f.A.GetConfiguration(), f.A.SCTP(), f.A.ID() }},
	{"pc.SetConfiguration", 0, func(f *c40Fix, _ *c40G) { _ = f.A.SetConfiguration(webrtc.Configuration{}) }},
	{"pc.OnHandlers", 0, func(f *c40Fix, _ *c40G) {
		f.A.OnSignalingStateChange(func(webrtc.SignalingState) {})
		f.A.OnDataChannel(func(*webrtc.DataChannel) {})
		f.A.OnNegotiationNeeded(c40Noop)
		f.A.OnICECandidate(func(*webrtc.ICECandidate) {})
		f.A.OnICEGatheringStateChange(func(webrtc.ICEGatheringState) {})
		f.A.OnTrack(func(*webrtc.TrackRemote, *webrtc.RTPReceiver) {})
		f.A.OnICEConnectionStateChange(func(webrtc.ICEConnectionState) {})
		f.A.OnConnectionStateChange(func(webrtc.PeerConnectionState) {})
	}},
	{"pc.WriteRTCP", 0, func(f *c40Fix, _ *c40G) {
		_ = f.A.WriteRTCP([]rtcp.Packet{&rtcp.PictureLossIndication{SenderSSRC: 1, MediaSSRC: 2}})
	}},
	{"pc.Close", fListed | fOnce, func(f *c40Fix, _ *c40G) { _ = f.A.Close() }},
	{"pc.GracefulClose", fOnce, func(f *c40Fix, _ *c40G) { _ = f.A.GracefulClose() }},
	{"peer.Close", fOnce, func(f *c40Fix, _ *c40G) { _ = f.B.Close() }},
	// --- the serialized signaling exchange (one goroutine of a group at most)
	{"sig.Exchange", fSig | fHeavy | fListed, func(f *c40Fix, _ *c40G) { c40SDPExchange(f.A, f.B, nil) }},
	{"sig.ExchangeFromPeer", fSig | fHeavy | fListed, func(f *c40Fix, _ *c40G) { c40SDPExchange(f.B, f.A, nil) }},
	{"sig.ICERestart", fSig | fHeavy, func(f *c40Fix, _ *c40G) { c40SDPExchange(f.A, f.B, &webrtc.OfferOptions{ICERestart: true}) }},
	{"sig.CreateOffer", fSig, func(f *c40Fix, _ *c40G) { _, _ = f.A.CreateOffer(nil) }},
	{"sig.OfferThenRollback", fSig, func(f *c40Fix, _ *c40G) {
		if o, e := f.A.CreateOffer(nil); e == nil && f.A.SetLocalDescription(o) == nil {
			_ = f.A.SetLocalDescription(webrtc.SessionDescription{Type: webrtc.SDPTypeRollback})
		}
	}},
	{"sig.AddICECandidate", fSig, func(f *c40Fix, x *c40G) {
		if len(f.bCands) > 0 {
			_ = f.A.AddICECandidate(f.bCands[x.r.Intn(len(f.bCands))])
		}
		_ = f.A.AddICECandidate(webrtc.ICECandidateInit{})
	}},
	// --- local tracks
	{"ts.WriteSample", fListed, func(f *c40Fix, _ *c40G) {
		_ = f.ts.WriteSample(media.Sample{Data: make([]byte, 2600), Duration: 33 * time.Millisecond})
	}},
	{"ts.WriteSampleDropped", fListed, func(f *c40Fix, _ *c40G) {
		_ = f.ts.WriteSample(media.Sample{Data: []byte{1, 2, 3, 4}, Duration: 33 * time.Millisecond, PrevDroppedPackets: 2})
	}},
	{"ts.GeneratePadding", 0, func(f *c40Fix, _ *c40G) { _ = f.ts.GeneratePadding(1) }},
	{"tr.WriteRTP", fListed, func(f *c40Fix, x *c40G) {
		_ = f.tr.WriteRTP(&rtp.Packet{Header: rtp.Header{Version: 2, SequenceNumber: uint16(x.k), Timestamp: uint32(x.k) * 960}, Payload: []byte{0xf8, 1, 2}}) //nolint:gosec
	}},
	{"tr.Write", fListed, func(f *c40Fix, x *c40G) { _, _ = f.tr.Write(c40RawRTP(uint16(x.k))) }}, //nolint:gosec
	{"trk.LocalGetters", fRO, func(f *c40Fix, _ *c40G) {
		_, _, _, _, _ = f.ts.ID(), f.ts.StreamID(), f.ts.RID(), f.ts.Kind(), f.ts.Codec()
		_, _, _, _, _ = f.tr.ID(), f.tr.StreamID(), f.tr.RID(), f.tr.Kind(), f.tr.Codec()
	}},
	// --- RTPSender (the video sender)
	{"snd.ReplaceTrack", 0, func(f *c40Fix, x *c40G) {
		switch x.r.Intn(5) {
		case 0:
			_ = f.sndV.ReplaceTrack(nil)
		case 1, 2:
			_ = f.sndV.ReplaceTrack(f.ts2)
		default:
			_ = f.sndV.ReplaceTrack(f.ts)
		}
	}},
	{"snd.Getters", fRO, func(f *c40Fix, _ *c40G) { _, _, _ = f.sndV.GetParameters(), f.sndV.Track(), f.sndV.Transport() }},
	{"snd.Send", 0, func(f *c40Fix, _ *c40G) { _ = f.sndV.Send(f.sndV.GetParameters()) }},
	{"snd.ReadRTCP", fConn, func(f *c40Fix, _ *c40G) {
		if f.sndV.SetReadDeadline(time.Now().Add(2*time.Millisecond)) == nil {
			c40Bounded(func() { _, _, _ = f.sndV.ReadRTCP() })
		}
	}},
	{"snd.Stop", fOnce, func(f *c40Fix, _ *c40G) { _ = f.sndV.Stop() }},
	// --- RTPReceiver / TrackRemote (the video receiver)
	{"rcv.Getters", fRO, func(f *c40Fix, _ *c40G) {
		_, _, _, _, _ = f.rcv.GetParameters(), f.rcv.Track(), f.rcv.Tracks(), f.rcv.Transport(), f.rcv.RTPTransceiver()
	}},
	{"rcv.ReadRTCP", fConn, func(f *c40Fix, _ *c40G) {
		if f.rcv.SetReadDeadline(time.Now().Add(2*time.Millisecond)) == nil {
			c40Bounded(func() { _, _, _ = f.rcv.ReadRTCP() })
		}
	}},
	{"rcv.Stop", fOnce, func(f *c40Fix, _ *c40G) { _ = f.rcv.Stop() }},
	{"rtrk.ReadRTP", fConn, func(f *c40Fix, _ *c40G) {
		if f.remote.SetReadDeadline(time.Now().Add(2*time.Millisecond)) == nil {
			c40Bounded(func() { _, _, _ = f.remote.ReadRTP() })
		}
	}},
	{"rtrk.Getters", fRO | fConn, func(f *c40Fix, _ *c40G) {
		t := f.remote
		_, _, _, _, _ = t.ID(), t.RID(), t.PayloadType(), t.Kind(), t.StreamID()
		_, _, _, _, _ = t.SSRC(), t.Msid(), t.Codec(), t.RtxSSRC(), t.HasRTX()
	}},
	// --- RTPTransceiver (the audio transceiver)
	{"tcv.SetCodecPreferences", 0, func(f *c40Fix, x *c40G) {
		cs := []webrtc.RTPCodecParameters{{RTPCodecCapability: c40Opus, PayloadType: 111}}
		if x.r.Intn(3) == 0 {
			cs = nil
		}
		_ = f.tcvA.SetCodecPreferences(cs)
	}},
	{"tcv.SetSender", 0, func(f *c40Fix, x *c40G) { _ = f.tcvA.SetSender(f.sndA, []webrtc.TrackLocal{f.tr, f.tr2}[x.r.Intn(2)]) }},
	{"tcv.Getters", fRO, func(f *c40Fix, _ *c40G) {
		_, _, _, _, _ = f.tcvA.Direction(), f.tcvA.Mid(), f.tcvA.Kind(), f.tcvA.Sender(), f.tcvA.Receiver()
	}},
	{"tcv.SetMid", 0, func(f *c40Fix, _ *c40G) { _ = f.tcvA.SetMid("9") }},
	{"tcv.Stop", fOnce, func(f *c40Fix, _ *c40G) { _ = f.tcvA.Stop() }},
	// --- DataChannel
	{"dc.Send", 0, func(f *c40Fix, _ *c40G) { _ = f.dc.Send([]byte{1, 2, 3, 4}) }},
	{"dc.SendText", 0, func(f *c40Fix, _ *c40G) { _ = f.dc.SendText("hello") }},
	{"dc.OnHandlers", 0, func(f *c40Fix, _ *c40G) {
		f.dc.OnOpen(c40Noop)
		f.dc.OnDial(c40Noop)
		f.dc.OnClose(c40Noop)
		f.dc.OnMessage(func(webrtc.DataChannelMessage) {})
		f.dc.OnError(c40NoopErr)
		f.dc.OnBufferedAmountLow(c40Noop)
	}},
	{"dc.BufferedAmount", 0, func(f *c40Fix, x *c40G) {
		_, _ = f.dc.BufferedAmount(), f.dc.BufferedAmountLowThreshold()
		f.dc.SetBufferedAmountLowThreshold(uint64(x.k)) //nolint:gosec
	}},
	{"dc.Getters", fRO, func(f *c40Fix, _ *c40G) {
		d := f.dc
		_, _, _, _, _ = d.Label(), d.Ordered(), d.MaxPacketLifeTime(), d.MaxRetransmits(), d.Protocol()
		_, _, _, _ = d.Negotiated(), d.ID(), d.ReadyState(), d.Transport()
	}},
	{"dc.Close", fOnce, func(f *c40Fix, _ *c40G) { _ = f.dc.Close() }},
	{"dc.GracefulClose", fOnce, func(f *c40Fix, _ *c40G) { _ = f.dc.GracefulClose() }},
	// --- transports
	{"sctp.Getters", fRO, func(f *c40Fix, _ *c40G) {
		s := f.sctp
		_, _, _, _, _ = s.State(), s.MaxChannels(), s.Stats(), s.BufferedAmount(), s.Transport()
		_ = s.GetCapabilities() // not GetSctpInit: documented "the caller should hold the lock"
		_, _ = s.Metadata()
	}},
	{"sctp.OnHandlers", 0, func(f *c40Fix, _ *c40G) {
		f.sctp.OnError(c40NoopErr)
		f.sctp.OnClose(c40NoopErr)
		f.sctp.OnDataChannelOpened(func(*webrtc.DataChannel) {})
	}},
	{"dtls.Getters", fRO, func(f *c40Fix, _ *c40G) {
		_, _, _ = f.dtls.State(), f.dtls.GetRemoteCertificate(), f.dtls.ICETransport()
		_, _ = f.dtls.GetLocalParameters()
	}},
	{"dtls.OnStateChange", 0, func(f *c40Fix, _ *c40G) { f.dtls.OnStateChange(func(webrtc.DTLSTransportState) {}) }},
	{"dtls.WriteRTCP", 0, func(f *c40Fix, _ *c40G) {
		_, _ = f.dtls.WriteRTCP([]rtcp.Packet{&rtcp.ReceiverReport{SSRC: 1}})
	}},
	{"ice.Getters", fRO, func(f *c40Fix, _ *c40G) {
		_, _, _ = f.ice.State(), f.ice.Role(), f.ice.Stats()
		_, _ = f.ice.GetSelectedCandidatePair()
		_, _ = f.ice.GetSelectedCandidatePairStats()
		_, _ = f.ice.GetLocalParameters()
		_, _ = f.ice.GetRemoteParameters()
	}},
	{"ice.OnHandlers", 0, func(f *c40Fix, _ *c40G) {
		f.ice.OnSelectedCandidatePairChange(func(*webrtc.ICECandidatePair) {})
		f.ice.OnConnectionStateChange(func(webrtc.ICETransportState) {})
	}},
	{"gat.Getters", fRO, func(f *c40Fix, _ *c40G) {
		_ = f.gat.State()
		_, _ = f.gat.GetLocalParameters()
		_, _ = f.gat.GetLocalCandidates()
	}},
}

var c40OpIndex = func() map[string]*c40Op { //nolint:gochecknoglobals
	m := map[string]*c40Op{}
	for i := range c40Ops {
		m[c40Ops[i].Name] = &c40Ops[i]
	}

	return m
}()

var c40Setups = []string{"fresh", "offer", "conn", "conn2", "closing"} //nolint:gochecknoglobals

func c40Connected(s string) bool { return s == "conn" || s == "conn2" || s == "closing" }

// c40Setup builds the fixture. fresh: everything created, nothing negotiated. offer: A is in
// have-local-offer (gathering running). conn: connected, media and data-channel messages flowing from B
// to A in the background. conn2: as conn, and A's two local tracks are ALSO sent by B (one track bound
// to two PeerConnections). closing: as conn; the first group gets an extra goroutine calling A.Close().
func c40Setup(setup string) (*c40Fix, string) {
	api := webrtc.NewAPI(webrtc.WithSettingEngine(loopbackSettings()))
	f := &c40Fix{stop: make(chan struct{})}
	var err error
	if f.A, err = api.NewPeerConnection(webrtc.Configuration{}); err != nil {
		return nil, "err:newpc"
	}
	if f.B, err = api.NewPeerConnection(webrtc.Configuration{}); err != nil {
		_ = f.A.Close()

		return nil, "err:newpc"
	}
	fail := func(s string) (*c40Fix, string) {
		close(f.stop)
		c40CloseAll(f.A, f.B)

		return nil, s
	}
	f.ts, _ = webrtc.NewTrackLocalStaticSample(c40VP8, "video", "c40")
	f.ts2, _ = webrtc.NewTrackLocalStaticSample(c40VP8, "video2", "c40")
	f.tr, _ = webrtc.NewTrackLocalStaticRTP(c40Opus, "audio", "c40")
	f.tr2, _ = webrtc.NewTrackLocalStaticRTP(c40Opus, "audio2", "c40")
	if f.sndV, err = f.A.AddTrack(f.ts); err != nil {
		return fail("err:addtrack")
	}
	if f.sndA, err = f.A.AddTrack(f.tr); err != nil {
		return fail("err:addtrack")
	}
	for _, t := range f.A.GetTransceivers() {
		switch t.Sender() {
		case f.sndV:
			f.tcvV = t
		case f.sndA:
			f.tcvA = t
		}
	}
	if f.tcvV == nil || f.tcvA == nil || f.tcvV.Receiver() == nil {
		return fail("err:transceivers")
	}
	f.rcv = f.tcvV.Receiver()
	if f.dc, err = f.A.CreateDataChannel("c40", nil); err != nil {
		return fail("err:dc")
	}
	f.sctp = f.A.SCTP()
	f.dtls = f.sctp.Transport()
	f.ice = f.dtls.ICETransport()
	f.gat = webrtc.VerifICEGatherer(f.A)

	bVideo, _ := webrtc.NewTrackLocalStaticSample(c40VP8, "bvideo", "c40b")
	if _, err = f.B.AddTrack(bVideo); err != nil {
		return fail("err:addtrack")
	}
	if setup == "conn2" {
		if _, err = f.B.AddTrack(f.ts); err != nil {
			return fail("err:addtrack")
		}
		if _, err = f.B.AddTrack(f.tr); err != nil {
			return fail("err:addtrack")
		}
	}
	switch {
	case setup == "fresh":
		return f, ""
	case setup == "offer":
		offer, err := f.A.CreateOffer(nil)
		if err != nil || f.A.SetLocalDescription(offer) != nil {
			return fail("err:offer")
		}

		return f, ""
	case !c40Connected(setup):
		return fail("bad-op")
	}

	remoteCh := make(chan *webrtc.TrackRemote, 4)
	f.A.OnTrack(func(t *webrtc.TrackRemote, _ *webrtc.RTPReceiver) {
		select {
		case remoteCh <- t:
		default:
		}
	})
	bdcCh := make(chan *webrtc.DataChannel, 4)
	f.B.OnDataChannel(func(d *webrtc.DataChannel) {
		d.OnOpen(func() {
			select {
			case bdcCh <- d:
			default:
			}
		})
	})
	var cmu sync.Mutex
	f.B.OnICECandidate(func(c *webrtc.ICECandidate) {
		if c != nil {
			cmu.Lock()
			f.bCands = append(f.bCands, c.ToJSON())
			cmu.Unlock()
		}
	})
	if err = Negotiate(f.A, f.B); err != nil {
		return fail("inconclusive negotiate")
	}
	if setup == "conn2" { // B's extra tracks need media sections of their own: B offers
		if err = Negotiate(f.B, f.A); err != nil {
			return fail("inconclusive negotiate")
		}
	}
	cmu.Lock()
	f.bCands = append([]webrtc.ICECandidateInit{}, f.bCands...)
	cmu.Unlock()
	f.B.OnICECandidate(func(*webrtc.ICECandidate) {})
	if !(&Pair{A: f.A, B: f.B}).WaitConnected(c40SetupAfter) {
		return fail("inconclusive connect")
	}
	// B's media and messages towards A, in the background until the fixture is torn down
	var bdc *webrtc.DataChannel
	select {
	case bdc = <-bdcCh:
	case <-time.After(c40SetupAfter):
		return fail("inconclusive datachannel")
	}
	f.bg.Add(1)
	go func() {
		defer f.bg.Done()
		tick := time.NewTicker(3 * time.Millisecond)
		defer tick.Stop()
		for i := 0; ; i++ {
			select {
			case <-f.stop:
				return
			case <-tick.C:
			}
			_ = bVideo.WriteSample(media.Sample{Data: []byte{0x10, 0, 0, 1, 2, 3}, Duration: 33 * time.Millisecond})
			if i%8 == 0 {
				_ = bdc.SendText("ping")
			}
		}
	}()
	select {
	case t := <-remoteCh:
		for t.ID() != "bvideo" { // conn2: A also receives its own two tracks back
			select {
			case t = <-remoteCh:
			case <-time.After(c40SetupAfter):
				return fail("inconclusive remote-track")
			}
		}
		f.remote = t
	case <-time.After(c40SetupAfter):
		return fail("inconclusive remote-track")
	}

	return f, ""
}

func (f *c40Fix) teardown() bool {
	close(f.stop)
	ok := c40CloseAll(f.A, f.B)
	f.bg.Wait()

	return ok
}

// c40RunGroup releases ng goroutines on the group's entry points through one barrier.
func c40RunGroup(f *c40Fix, ops []*c40Op, seed int64, gi, ng, reps int, withClose bool) bool {
	nonSig := []*c40Op{}
	for _, o := range ops {
		if o.Flags&fSig == 0 {
			nonSig = append(nonSig, o)
		}
	}
	start := make(chan struct{})
	var wg, anchors sync.WaitGroup
	// anchors: the signaling exchange and destructive calls (Close, Stop). The other goroutines of the
	// group keep calling (throttled after their own repetitions) until every anchor has returned — "while
	// one goroutine performs a serialized signaling exchange".
	anchored := make(chan struct{})
	isAnchor := func(o *c40Op) bool { return o.Flags&(fSig|fOnce) != 0 }
	launch := func(o *c40Op, g int) {
		x := &c40G{r: rand.New(rand.NewSource(seed*7919 + int64(gi)*131 + int64(g))), g: gi*16 + g} //nolint:gosec
		n := reps
		if o.Flags&fHeavy != 0 {
			n = (reps + 3) / 4
		}
		if o.Flags&fOnce != 0 {
			n = 1
		}
		wg.Add(1)
		if isAnchor(o) {
			anchors.Add(1)
		}
		go func() {
			defer wg.Done()
			<-start
			if isAnchor(o) {
				defer anchors.Done()
				for k := 0; k < n; k++ {
					x.k = k
					o.Run(f, x)
				}

				return
			}
			for k := 0; k < 5000; k++ {
				if k >= n {
					if o.Flags&fGrow != 0 {
						return
					}
					select {
					case <-anchored:
						return
					default:
					}
					time.Sleep(time.Duration(100+x.r.Intn(700)) * time.Microsecond)
				}
				x.k = k
				if x.r.Intn(4) == 0 {
					runtime.Gosched()
				}
				o.Run(f, x)
			}
		}()
	}
	for g := 0; g < ng; g++ {
		switch {
		case g < len(ops):
			launch(ops[g], g)
		case len(nonSig) > 0:
			launch(nonSig[(g-len(ops))%len(nonSig)], g)
		}
	}
	if withClose {
		launch(c40OpIndex["pc.Close"], ng)
	}
	fin := make(chan struct{})
	go func() {
		anchors.Wait()
		close(anchored)
		wg.Wait()
		close(fin)
	}()
	close(start)

	return c40Wait(fin)
}

func c40Par(a []string) string {
	// par <setup> <seed> <ng> <reps> <group>…
	if len(a) < 6 {
		return "bad-op"
	}
	seed, e1 := strconv.ParseInt(a[2], 10, 64)
	ng, e2 := strconv.Atoi(a[3])
	reps, e3 := strconv.Atoi(a[4])
	if e1 != nil || e2 != nil || e3 != nil || ng < 1 || ng > 8 || reps < 1 || reps > 1000 {
		return "bad-op"
	}
	groups := [][]*c40Op{}
	for _, g := range a[5:] {
		ops := []*c40Op{}
		sigs := 0
		for _, n := range strings.Split(g, "+") {
			o, ok := c40OpIndex[n]
			if !ok {
				return "bad-op"
			}
			if o.Flags&fSig != 0 {
				sigs++
			}
			ops = append(ops, o)
		}
		if sigs > 1 { // the property's signaling exchange is serialized
			return "bad-op"
		}
		groups = append(groups, ops)
	}
	f, why := c40Setup(a[1])
	if f == nil && strings.HasPrefix(why, "inconclusive") { // a loaded machine: once more
		f, why = c40Setup(a[1])
	}
	if f == nil {
		return why
	}
	res := "ok"
	for gi, ops := range groups {
		if !c40RunGroup(f, ops, seed, gi, ng, reps, a[1] == "closing" && gi == 0) {
			res = "hang " + a[5+gi]

			break
		}
	}
	if !f.teardown() && res == "ok" {
		res = "hang close"
	}

	return res
}

// ---------------------------------------------------------------------------------------------
// one process per op line

const c40LineTimeout = 15 * time.Minute

var c40Slug = regexp.MustCompile(`[^A-Za-z0-9:]+`)

// c40Spawn executes one op line in a process of its own (this binary, replay mode): the race-detector log
// of that process then belongs to this line alone (no attribution across concurrently running lines, no
// goroutines left over from an earlier line, no report suppressed because an earlier line already showed
// the same race), a fatal runtime error (`fatal error: sync: unlock of unlocked mutex`, concurrent map
// writes, an unrecovered panic on a library goroutine) costs one line instead of the run, and a hung line
// can be killed.
func c40Spawn(a []string) string {
	self, err := os.Executable()
	if err != nil {
		return "err:self"
	}
	dir, err := os.MkdirTemp("", "wvh-c40-")
	if err != nil {
		return "err:tmp"
	}
	defer os.RemoveAll(dir)
	opf := filepath.Join(dir, "line.ops")
	if err = os.WriteFile(opf, []byte("C40 "+strings.Join(a, " ")+"\n"), 0o644); err != nil {
		return "err:tmp"
	}
	errf, err := os.Create(filepath.Join(dir, "stderr.txt"))
	if err != nil {
		return "err:tmp"
	}
	cmd := exec.Command(self, "C40", "-replay", opf, "-out", dir)
	cmd.Env = append(os.Environ(), "WVH_C40_CHILD=1", "WVH_CHILD=1")
	cmd.Stderr = errf
	if err = cmd.Start(); err != nil {
		errf.Close()

		return "err:spawn"
	}
	done := make(chan struct{})
	go func() {
		_ = cmd.Wait()
		close(done)
	}()
	select {
	case <-done:
	case <-time.After(c40LineTimeout):
		_ = cmd.Process.Kill()
		<-done
		errf.Close()

		return "timeout"
	}
	errf.Close()
	if data, err := os.ReadFile(filepath.Join(dir, "impl.txt")); err == nil {
		if out := strings.TrimSpace(string(data)); out != "" {
			return out
		}
	}
	// the process died: name the runtime's complaint
	data, _ := os.ReadFile(filepath.Join(dir, "stderr.txt"))
	for _, l := range strings.Split(string(data), "\n") {
		if strings.HasPrefix(l, "fatal error: ") || strings.HasPrefix(l, "panic: ") {
			if len(l) > 90 {
				l = l[:90]
			}
			keep := os.Getenv("WVH_RACE_LOG")
			if keep != "" {
				h := sha1.Sum([]byte("C40 " + strings.Join(a, " "))) //nolint:gosec
				if len(data) > 20000 {
					data = data[:20000]
				}
				_ = os.WriteFile(keep+"-op-"+hex.EncodeToString(h[:6])+".txt", data, 0o644)
			}

			return "crash " + strings.Trim(c40Slug.ReplaceAllString(l, "-"), "-")
		}
	}

	return "crash unknown"
}

// ---------------------------------------------------------------------------------------------
// generator

// c40Allowed: the generated lines use the calls the property names (fListed) and nothing else — a race or
// crash that needs a call outside that list is outside the property's quantifier and must not raise an
// alarm. WVH_C40_EXTENDED=1 opens the whole table (exploration beyond the property; how the repaired
// DataChannel / TrackRemote / configuration / gatherer defects were found).
func c40Allowed(o *c40Op, setup string) bool {
	if o.Flags&fListed == 0 && os.Getenv("WVH_C40_EXTENDED") == "" {
		return false
	}

	return o.Flags&fConn == 0 || c40Connected(setup)
}

type c40Group struct {
	names string
	last  bool // contains a destructive entry point
}

func c40MkGroup(ops ...*c40Op) c40Group {
	g := c40Group{}
	ns := []string{}
	for _, o := range ops {
		ns = append(ns, o.Name)
		if o.Flags&fOnce != 0 {
			g.last = true
		}
	}
	g.names = strings.Join(ns, "+")

	return g
}

// c40Pairs enumerates the unordered pairs of entry points allowed at `setup` that satisfy keep
// (two signaling calls never form a pair; a self-pair is a pair).
func c40Pairs(setup string, keep func(a, b *c40Op) bool) []c40Group {
	out := []c40Group{}
	for i := range c40Ops {
		for j := i; j < len(c40Ops); j++ {
			a, b := &c40Ops[i], &c40Ops[j]
			if !c40Allowed(a, setup) || !c40Allowed(b, setup) || (a.Flags&fSig != 0 && b.Flags&fSig != 0) {
				continue
			}
			if keep(a, b) {
				out = append(out, c40MkGroup(a, b))
			}
		}
	}

	return out
}

// c40EmitLines packs groups into op lines: (one of `first`, if any is left,) up to perLine
// non-destructive groups, then at most one destructive group — so that a line's setup is shared and the
// fixture is alive for all but the last group. `first` groups contain the signaling exchange: at the
// fresh / offer setup points only the FIRST group of a line meets the initial negotiation (transports
// starting, receivers being configured); every later group already runs on a connected pair.
func c40EmitLines(c *Ctx, setup string, first, groups []c40Group, perLine int, ng func() int) int {
	c.Rng.Shuffle(len(groups), func(i, j int) { groups[i], groups[j] = groups[j], groups[i] })
	c.Rng.Shuffle(len(first), func(i, j int) { first[i], first[j] = first[j], first[i] })
	nd, d := []c40Group{}, []c40Group{}
	for _, g := range groups {
		if g.last {
			d = append(d, g)
		} else {
			nd = append(nd, g)
		}
	}
	lines := 0
	for len(nd) > 0 || len(d) > 0 || len(first) > 0 {
		names := []string{}
		take := perLine
		if len(first) > 0 {
			names = append(names, first[0].names)
			first = first[1:]
			// spread what is left over the remaining first-group lines
			if per := (len(nd) + len(first)) / (len(first) + 1); per < take {
				take = per
			}
		} else if len(d) > 0 && len(nd) > 0 {
			// spread the non-destructive groups over the lines that end in a destructive one
			if per := (len(nd) + len(d) - 1) / len(d); per < take {
				take = per
			}
		}
		if take > len(nd) {
			take = len(nd)
		}
		for _, g := range nd[:take] {
			names = append(names, g.names)
		}
		nd = nd[take:]
		if len(d) > 0 {
			names = append(names, d[0].names)
			d = d[1:]
		}
		c.Emit("par %s %d %d %d %s", setup, c.Rng.Int63n(1<<40), ng(), 4+c.Rng.Intn(9), strings.Join(names, " "))
		lines++
	}

	return lines
}

func c40Sample(c *Ctx, gs []c40Group, n int) []c40Group {
	if n >= len(gs) {
		return gs
	}
	c.Rng.Shuffle(len(gs), func(i, j int) { gs[i], gs[j] = gs[j], gs[i] })

	return gs[:n]
}

// c40SampleSplit samples nd non-destructive and d destructive groups.
func c40SampleSplit(c *Ctx, gs []c40Group, nd, d int) []c40Group {
	a, b := []c40Group{}, []c40Group{}
	for _, g := range gs {
		if g.last {
			b = append(b, g)
		} else {
			a = append(a, g)
		}
	}

	return append(c40Sample(c, a, nd), c40Sample(c, b, d)...)
}

func c40Gen(c *Ctx) { //nolint:cyclop
	for i := 0; i < c.N(4, 100); i++ {
		c.Emit("conc %d %d %d", c.Rng.Int63n(1<<40), 4+c.Rng.Intn(9), 20+c.Rng.Intn(100))
	}
	four := func() int { return 4 }
	varied := func() int { return 2 + c.Rng.Intn(3) }
	isSig := func(o *c40Op) bool { return o.Flags&fSig != 0 }
	listed := func(a, b *c40Op) bool { return a.Flags&fListed != 0 && b.Flags&fListed != 0 }
	writers := func(a, b *c40Op) bool { return a.Flags&fRO == 0 || b.Flags&fRO == 0 } // two pure getters are the least interesting
	core := func(a, b *c40Op) bool {
		// the property's own list against itself, and every non-getter entry point against itself; with 4
		// goroutines a pair X+Y runs as X‖Y‖X‖Y, so every entry point of a core pair also meets itself
		return (listed(a, b) && writers(a, b)) || (a == b && a.Flags&fRO == 0)
	}
	rest := func(a, b *c40Op) bool { return !core(a, b) }
	noExchange := func(a, b *c40Op) bool { return writers(a, b) && !isExchange(a) && !isExchange(b) }
	// the local-track writers and the calls that re-bind them: what conn2 (one track, two PeerConnections) is about
	trackOp := func(o *c40Op) bool {
		return strings.HasPrefix(o.Name, "ts.") || strings.HasPrefix(o.Name, "tr.") || o.Name == "snd.ReplaceTrack" ||
			o.Name == "snd.Stop" || o.Name == "pc.RemoveTrack" || o.Name == "tcv.SetSender" || o.Name == "tcv.Stop"
	}
	track := func(a, b *c40Op) bool { return trackOp(a) || trackOp(b) }
	trackBoth := func(a, b *c40Op) bool { return trackOp(a) && trackOp(b) && a.Flags&fOnce == 0 && b.Flags&fOnce == 0 }
	// X next to the (initial) offer/answer exchange, for every X — placed first on fresh/offer lines
	withExchange := func(setup string, keep func(o *c40Op) bool, both bool) []c40Group {
		out := []c40Group{}
		for i := range c40Ops {
			o := &c40Ops[i]
			if isSig(o) || !c40Allowed(o, setup) || !keep(o) {
				continue
			}
			out = append(out, c40MkGroup(o, c40OpIndex["sig.Exchange"]))
			if both {
				out = append(out, c40MkGroup(o, c40OpIndex["sig.ExchangeFromPeer"]))
			}
		}

		return out
	}
	if !c.Thorough() {
		// quick: the core pairs on a connected fixture (all of them, 4 goroutines); every listed call next to
		// the initial exchange; the track writers against each other with the tracks bound to two
		// PeerConnections; a seeded sample of everything else at every setup point
		c40EmitLines(c, "conn", nil, c40Pairs("conn", core), 10, four)
		c40EmitLines(c, "conn", nil, c40Sample(c, c40Pairs("conn", rest), 40), 10, varied)
		c40EmitLines(c, "fresh", withExchange("fresh", func(o *c40Op) bool { return o.Flags&fListed != 0 && o.Flags&fOnce == 0 }, false),
			c40SampleSplit(c, c40Pairs("fresh", noExchange), 48, 5), 6, four)
		c40EmitLines(c, "offer", c40Sample(c, withExchange("offer", func(o *c40Op) bool { return o.Flags&fRO == 0 && o.Flags&fOnce == 0 }, true), 6),
			c40SampleSplit(c, c40Pairs("offer", noExchange), 24, 3), 6, varied)
		c40EmitLines(c, "conn2", nil, c40Pairs("conn2", trackBoth), 8, four)
		c40EmitLines(c, "conn2", nil, c40SampleSplit(c, c40Pairs("conn2", track), 20, 3), 8, varied)
		c40EmitLines(c, "closing", nil, c40Sample(c, c40Pairs("closing", writers), 8), 1, varied)

		return
	}
	// thorough: every pair at conn; at fresh / offer every entry point next to the initial exchange (both
	// directions) as first group, the lines filled from the pairs with a non-getter; at conn2 every pair
	// with a track writer; pairs next to Close; seeded triples
	c40EmitLines(c, "conn", nil, c40Pairs("conn", core), 8, four)
	c40EmitLines(c, "conn", nil, c40Pairs("conn", rest), 8, varied)
	for _, s := range []string{"fresh", "offer"} {
		c40EmitLines(c, s, withExchange(s, func(o *c40Op) bool { return o.Flags&fOnce == 0 }, true),
			c40SampleSplit(c, c40Pairs(s, noExchange), 640, 100), 7, varied)
	}
	c40EmitLines(c, "conn2", nil, c40Pairs("conn2", track), 8, varied)
	c40EmitLines(c, "closing", nil, c40Sample(c, c40Pairs("closing", writers), 200), 1, varied)
	for _, s := range c40Setups {
		trip := []c40Group{}
		n := 100
		if s == "closing" {
			n = 40
		}
		for i := 0; i < n; i++ {
			var ops []*c40Op
			sig := false
			for len(ops) < 3 {
				o := &c40Ops[c.Rng.Intn(len(c40Ops))]
				if !c40Allowed(o, s) || (sig && isSig(o)) {
					continue
				}
				sig = sig || isSig(o)
				ops = append(ops, o)
			}
			trip = append(trip, c40MkGroup(ops...))
		}
		per := 8
		if s == "closing" {
			per = 1
		}
		c40EmitLines(c, s, nil, trip, per, func() int { return 3 + c.Rng.Intn(2) })
	}
}

func isExchange(o *c40Op) bool { return o.Name == "sig.Exchange" || o.Name == "sig.ExchangeFromPeer" }

func init() {
	registry["C40"] = &Prop{
		Workers: 16, // each worker only waits for the process it spawned for its op line
		Timeout: c40LineTimeout + time.Minute,
		Rule: fmt.Sprintf("(a) `conc`: seeded random programs, 4–12 goroutines × 20–120 calls from the property's list next to three "+
			"serialized offer/answer rounds. (b) `par`: table-driven concurrent groups over %d public entry points of "+
			"PeerConnection, local tracks, RTPSender, RTPReceiver/TrackRemote, RTPTransceiver, DataChannel, SCTP/DTLS/ICE "+
			"transports and the gatherer (c40Ops, one line per entry point): a fixture is brought to fresh / have-local-offer / "+
			"connected with media flowing / connected with the local tracks bound to two PeerConnections / closing, then each "+
			"group (pair or triple of entry points; at most one signaling call per group) is run by 2–4 goroutines released by a "+
			"barrier, each repeating its call 4–12 times. Quick: every pair of the property's own calls and every self-pair on "+
			"the connected fixture with 4 goroutines (X‖Y‖X‖Y); every listed call next to the INITIAL offer/answer exchange "+
			"(first group of a fresh line); the track writers against each other on tracks bound to two PeerConnections; a "+
			"seeded sample of the remaining pairs at all setup points. Thorough: every pair at conn; at fresh/offer every entry "+
			"point next to the initial exchange in both directions + 740 other pairs each; every pair with a track writer at "+
			"conn2; 200 pairs next to Close; 440 "+
			"triples. Executed from a -race build, one op line at a time per process; a race report (key = the two racing "+
			"functions), a watchdog verdict (all calling goroutines blocked with unchanged stacks and nobody working, looked at from 40 s on; hard limit 4 min per group) or a Close that does not return is a failing input. Non-trivial: "+
			"the scenario ran (not inconclusive/err).", len(c40Ops)),
		Gen: c40Gen,
		Exec: func(a []string) string {
			if os.Getenv("WVH_C40_DRY") != "" { // generator statistics only
				return "ok"
			}
			if os.Getenv("WVH_C40_CHILD") == "" {
				return c40Spawn(a)
			}
			before := raceLogSize()
			c40CurrentArgs = a
			switch {
			case len(a) == 4 && a[0] == "conc":
				seed, e1 := strconv.ParseInt(a[1], 10, 64)
				ng, e2 := strconv.Atoi(a[2])
				nc, e3 := strconv.Atoi(a[3])
				if e1 != nil || e2 != nil || e3 != nil {
					return "bad-op"
				}

				return c40Verdict(a, c40Run(seed, ng, nc), before)
			case len(a) >= 6 && a[0] == "par":
				res := c40Par(a)
				if res == "bad-op" {
					return res
				}

				return c40Verdict(a, res, before)
			}

			return "bad-op"
		},
		Class: func(a []string, out string) string {
			cl := strings.Fields(out + " ?")[0]
			if len(a) > 1 && a[0] == "par" {
				return "par/" + a[1] + ":" + cl
			}

			return a[0] + ":" + cl
		},
		Trivial: func(_ []string, out string) bool {
			return strings.HasPrefix(out, "inconclusive") || strings.HasPrefix(out, "err:") || out == "bad-op"
		},
	}
}
