package main

import (
	"strings"
)

// C16 — answer codecs are a subset of the offered codecs, with the offered payload types. Scenarios on a real
// PeerConnection (pcscn.go / pcgen.go), weighted towards answering synthetic remote offers whose payload types
// differ from the local ones.
func c16Gen(c *Ctx) {
	r := c.Rng
	n := c.N(1400, 30000)
	for i := 0; i < n; i++ {
		malformed := i%8 == 7
		flavor := "answer"
		if i%4 == 3 {
			flavor = "mixed"
		}
		c.Emit("%s", strings.Join(pcScenario(r, flavor, malformed).tokens(), " "))
	}
}

// c16Trivial: no accepted (port != 0) answer section with codecs.
func c16Trivial(_ []string, out string) bool {
	f := strings.Fields(out)
	inAnswer := false
	for i, t := range f {
		switch t {
		case "A":
			inAnswer = true
		case "O":
			inAnswer = false
		case "S":
			if inAnswer && i+5 < len(f) && f[i+3] == "0" && f[i+4] == "F" && f[i+5] != "0" {
				return false
			}
		default:
		}
	}

	return true
}

func init() {
	registry["C16"] = &Prop{
		Workers: 16,
		Rule: "Seeded random scenarios on a real PeerConnection (public API; SettingEngine without network interfaces, always " +
			"closed): a MediaEngine with RegisterDefaultCodecs' table, a subset, or 1-7 random codecs per kind (payload types " +
			"colliding within and across kinds, RTX with present / absent / duplicate primaries, FlexFEC, unknown codecs) and 0-19 " +
			"header-extension registrations; 0-2 transceivers added beforehand, 2/5 of them with SetCodecPreferences (subsets, " +
			"reorderings, payload type kept / 0 / replaced by an explicit one, duplicates); a synthetic remote offer rendered with " +
			"pion/sdp (1-4 audio/video sections; codecs derived from the local ones with payload types remapped, apt following the " +
			"remap, mime re-cased, clock / channels / fmtp / feedback mutated, order shuffled, and/or independent random codecs; " +
			"mids matching or not matching local ones; BUNDLE complete, partial or absent), 1-2 CreateAnswer calls, in 2/5 " +
			"SetLocalDescription(answer) and a second remote offer that keeps the mids and remaps payload types again, CreateOffer " +
			"afterwards in 1/4; every fourth case starts with local transceivers and a CreateOffer. Every eighth case is the " +
			"malformed stream (weird apt syntax, payload type without rtpmap, section without mid or direction, unknown media). " +
			"Every generated m-section is abstracted with pion/sdp and compared with the model; the judge checks every accepted " +
			"answer section against the offer section of the same mid. Non-trivial: at least one accepted answer section with codecs.",
		Gen:     c16Gen,
		Exec:    pcExec,
		Class:   pcClass,
		Trivial: c16Trivial,
	}
}
