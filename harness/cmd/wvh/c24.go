package main

import (
	"fmt"
	"strconv"
	"strings"
	"sync"
	"sync/atomic"
	"time"

	"github.com/pion/ice/v4"
	"github.com/pion/webrtc/v4"
)

// C24 — ICE candidate reporting under a controlled schedule (grammar: lean/WebrtcVerif/Drv/C24.lean).
//
//	run pool=<n> <spec>… sched <name>…
//	  A:<item>,…   the gathering agent's callback thread (at most one); items: a candidate id (decimal),
//	               n (the final nil), r (ICE restart: Gather again once the previous gathering is fully reported)
//	  F:<k>        a thread that calls flushCandidates k times (k SetLocalDescription calls)
//	out: <name:result>… / <drain name:result>… | <thread>:c<id> / <thread>:n / <thread>:r … | <gatherer state> | <name:state>…
//	e2e pool=<0|1> extra=<k>   public API under the natural schedule (see c24E2E)

type c24Prog struct {
	pool  int
	specs []string
	sched []string
	nF    int
}

// c24Nat parses a decimal of 1–4 digits without sign or leading zero (the Lean side's strictNat?).
func c24Nat(s string) (int, bool) {
	if len(s) == 0 || len(s) > 4 || (len(s) > 1 && s[0] == '0') {
		return 0, false
	}
	n := 0
	for _, ch := range s {
		if ch < '0' || ch > '9' {
			return 0, false
		}
		n = n*10 + int(ch-'0')
	}

	return n, true
}

func c24Parse(a []string) (*c24Prog, bool) { //nolint:cyclop
	if len(a) < 2 || a[0] != "run" || !strings.HasPrefix(a[1], "pool=") {
		return nil, false
	}
	pool, ok := c24Nat(a[1][5:])
	if !ok || pool > 255 {
		return nil, false
	}
	p := &c24Prog{pool: pool}
	i := 2
	for ; i < len(a) && a[i] != "sched"; i++ {
		p.specs = append(p.specs, a[i])
	}
	if i >= len(a) { // the `sched` keyword is mandatory
		return nil, false
	}
	p.sched = a[i+1:]
	if len(p.specs) == 0 || len(p.specs) > 9 {
		return nil, false
	}
	agents, restart := 0, false
	for _, sp := range p.specs {
		switch {
		case strings.HasPrefix(sp, "A:"):
			agents++
			seen := map[int]bool{}
			items := c24Items(sp[2:])
			for j, it := range items {
				switch it {
				case "n": // last, or followed by r
					if j != len(items)-1 && items[j+1] != "r" {
						return nil, false
					}
				case "r": // directly after an n
					if j == 0 || items[j-1] != "n" {
						return nil, false
					}
					restart = true
				default:
					id, ok := c24Nat(it)
					if !ok || seen[id] {
						return nil, false
					}
					seen[id] = true
				}
			}
		case strings.HasPrefix(sp, "F:"):
			if len(sp) != 3 || sp[2] < '1' || sp[2] > '9' {
				return nil, false
			}
			p.nF++
		default:
			return nil, false
		}
	}
	if agents > 1 || (restart && pool > 0 && p.nF == 0) {
		return nil, false
	}

	return p, true
}

func c24Items(s string) []string {
	out := []string{}
	for _, it := range strings.Split(s, ",") {
		if it != "" {
			out = append(out, it)
		}
	}

	return out
}

// curName is the scheduler name of the calling goroutine ("?" if it is not under the scheduler).
func (s *Sched) curName() string {
	gid := curGID()
	s.mu.Lock()
	defer s.mu.Unlock()
	if th, ok := s.byGID[gid]; ok {
		return th.name
	}

	return "?"
}

// c24E2E runs the public API end to end under the natural schedule: a PeerConnection with the given pool
// size gathers on loopback, its local description is set, and after gathering is complete `extra` more
// SetLocalDescription calls follow (real renegotiations against a second PeerConnection). The output
// is what the property says about the OnICECandidate invocations, not the candidates themselves.
func c24E2E(a []string) string { //nolint:cyclop
	if len(a) != 3 || !strings.HasPrefix(a[1], "pool=") || !strings.HasPrefix(a[2], "extra=") {
		return "bad-op"
	}
	pool, ok1 := c24Nat(a[1][5:])
	extra, ok2 := c24Nat(a[2][6:])
	if !ok1 || !ok2 || pool > 1 || extra > 3 {
		return "bad-op"
	}
	webrtc.VerifSetYield(nil)
	se := webrtc.SettingEngine{}
	se.SetIncludeLoopbackCandidate(true)
	se.SetICEMulticastDNSMode(ice.MulticastDNSModeDisabled)
	se.SetNetworkTypes([]webrtc.NetworkType{webrtc.NetworkTypeUDP4})
	api := webrtc.NewAPI(webrtc.WithSettingEngine(se))
	pc, err := api.NewPeerConnection(webrtc.Configuration{ICECandidatePoolSize: uint8(pool)}) //nolint:gosec
	if err != nil {
		return "setup-failed"
	}
	defer pc.GracefulClose() //nolint:errcheck
	pc2, err := api.NewPeerConnection(webrtc.Configuration{})
	if err != nil {
		return "setup-failed"
	}
	defer pc2.GracefulClose() //nolint:errcheck
	var mu sync.Mutex
	seen := []string{}
	pc.OnICECandidate(func(c *webrtc.ICECandidate) {
		mu.Lock()
		defer mu.Unlock()
		if c == nil {
			seen = append(seen, "n")
		} else {
			seen = append(seen, c.String())
		}
	})
	if _, err = pc.CreateDataChannel("d", nil); err != nil {
		return "setup-failed"
	}
	done := webrtc.GatheringCompletePromise(pc)
	fail := func(step string, err error) string {
		return "e2e-failed " + step + " " + strings.ReplaceAll(err.Error(), " ", "_")
	}
	for round := 0; round <= extra; round++ {
		offer, err := pc.CreateOffer(nil)
		if err != nil {
			return fail("offer", err)
		}
		if err = pc.SetLocalDescription(offer); err != nil {
			return fail("sld", err)
		}
		if round == 0 {
			select {
			case <-done:
			case <-time.After(10 * time.Second):
				return "e2e-failed gathering-timeout"
			}
			time.Sleep(30 * time.Millisecond) // let the agent's nil callback return
		}
		if err = pc2.SetRemoteDescription(*pc.LocalDescription()); err != nil {
			return fail("srd2", err)
		}
		answer, err := pc2.CreateAnswer(nil)
		if err != nil {
			return fail("answer", err)
		}
		if err = pc2.SetLocalDescription(answer); err != nil {
			return fail("sld2", err)
		}
		if err = pc.SetRemoteDescription(answer); err != nil {
			return fail("srd", err)
		}
	}
	// the marker may still be on its way (the agent's nil callback runs on its own goroutine): wait for
	// it, then a little longer for anything that would follow it
	for deadline := time.Now().Add(5 * time.Second); time.Now().Before(deadline); time.Sleep(2 * time.Millisecond) {
		mu.Lock()
		got := len(seen) > 0 && seen[len(seen)-1] == "n"
		mu.Unlock()
		if got {
			break
		}
	}
	time.Sleep(30 * time.Millisecond)
	mu.Lock()
	defer mu.Unlock()
	nils, dup, after := 0, 0, 0
	count := map[string]int{}
	sawNil := false
	for _, e := range seen {
		switch {
		case e == "n":
			nils++
			sawNil = true
		default:
			count[e]++
			if count[e] == 2 {
				dup++
			}
			if sawNil {
				after++
			}
		}
	}
	some := "0"
	if len(count) > 0 {
		some = "1"
	}

	return fmt.Sprintf("e2e candidates=%s nil=%d twice=%d afternil=%d", some, nils, dup, after)
}

func c24Run(p *c24Prog) string {
	s := NewSched()
	s.Families = []string{"flush.", "gather."}
	// no segment here ever waits on anything but the short critical sections of the gatherer, so a
	// thread that does not reach its next yield is late (machine load), not blocked: wait generously
	s.BlockTimeout = 3 * time.Second
	webrtc.VerifSetYield(s.Yield)
	defer webrtc.VerifSetYield(nil)
	var logMu sync.Mutex
	log := []string{}
	v, err := webrtc.NewVerifGatherer(uint8(p.pool), func(port int) { //nolint:gosec
		who := s.curName()
		logMu.Lock()
		if port < 0 {
			log = append(log, who+":n")
		} else {
			log = append(log, fmt.Sprintf("%s:c%d", who, port-1000))
		}
		logMu.Unlock()
	})
	if err != nil {
		return "setup-failed " + strings.ReplaceAll(err.Error(), " ", "_")
	}
	// bookkeeping for the restart guard (threads run one at a time, so plain variables would do)
	var inCall, flushesDone atomic.Int32
	for i, sp := range p.specs {
		name := fmt.Sprintf("T%d", i)
		switch {
		case strings.HasPrefix(sp, "A:"):
			items := c24Items(sp[2:])
			s.Go(name, func() {
				for j, it := range items {
					if j > 0 {
						s.Yield("cb")
					}
					switch it {
					case "n":
						v.EndOfCandidates()
					case "r": // ICE restart once the previous gathering is fully reported
						for inCall.Load() > 0 || (p.pool > 0 && flushesDone.Load() == 0) {
							s.Yield("r.wait")
						}
						_ = v.Regather()
						logMu.Lock()
						log = append(log, name+":r")
						logMu.Unlock()
					default:
						id, _ := strconv.Atoi(it)
						_ = v.Candidate(1000 + id)
					}
				}
			})
		case strings.HasPrefix(sp, "F:"):
			k, _ := strconv.Atoi(sp[2:])
			s.Go(name, func() {
				for j := 0; j < k; j++ {
					if j > 0 {
						s.Yield("fl")
					}
					inCall.Add(1)
					v.Flush()
					inCall.Add(-1)
					flushesDone.Add(1)
				}
			})
		}
	}
	ev := []string{}
	for _, n := range p.sched {
		ev = append(ev, n+":"+s.Step(n))
	}
	ev = append(ev, "/")
	ev = append(ev, s.Drain(400)...)
	names := s.AllNames()
	states := []string{}
	s.mu.Lock()
	for _, n := range names {
		switch {
		case s.finished[n]:
			states = append(states, n+":fin")
		case s.blockedFlag[n]:
			states = append(states, n+":blocked")
		default:
			states = append(states, n+":parked")
		}
	}
	s.mu.Unlock()
	s.Release()
	logMu.Lock()
	defer logMu.Unlock()

	return fmt.Sprintf("%s | %s | %s | %s", strings.Join(ev, " "), strings.Join(log, " "), v.State(), strings.Join(states, " "))
}

// c24Enumerate emits every schedule in which thread i is released exactly counts[i] times. When counts[i]
// is the largest number of segments thread i can have, these words contain every maximal interleaving
// of the program as a prefix (releasing a finished thread is a no-op), so the enumeration is complete.
func c24Enumerate(c *Ctx, head string, counts []int) {
	total := 0
	for _, k := range counts {
		total += k
	}
	left := append([]int{}, counts...)
	word := make([]string, 0, total)
	var rec func()
	rec = func() {
		if len(word) == total {
			c.Emit("%s sched %s", head, strings.Join(word, " "))

			return
		}
		for t := range left {
			if left[t] == 0 {
				continue
			}
			left[t]--
			word = append(word, fmt.Sprintf("T%d", t))
			rec()
			word = word[:len(word)-1]
			left[t]++
		}
	}
	rec()
}

func c24Segments(specs []string) int {
	n := 0
	for _, sp := range specs {
		if strings.HasPrefix(sp, "A:") {
			n += 1 + 3*len(c24Items(sp[2:]))
		} else {
			k, _ := strconv.Atoi(sp[2:])
			n += 1 + 5*k
		}
	}

	return n
}

func init() {
	registry["C24"] = &Prop{
		Procs: 16,
		Rule: "programs: candidate pool size 1 (60%), 0 (30%) or 2/3/255; one agent callback thread delivering 0–4 " +
			"distinct candidates (random ids) and, in 80%, the final nil, in 15% followed by an ICE restart and a " +
			"second (rarely third) gathering; 0–3 threads calling flushCandidates 1–3 times each (what " +
			"SetLocalDescription does), overlapping freely; thread order shuffled. Unusual stream (~10%): flush-only, " +
			"agent-only, empty agent, nil only, pool 255, 9 flushes in a row. The schedule (which thread runs its " +
			"next lock-delimited segment) is a random word over the thread names (uniform, or with one thread " +
			"favoured, or with a thread run ahead first), sometimes with names of no thread; afterwards every thread " +
			"is drained in a fixed order. Additionally ALL interleavings of small programs are enumerated (every word " +
			"that releases each thread as often as it can have segments): pool 1 and pool 0 with agent [c,nil] and one " +
			"flush; thorough: also two and three flush calls in a row, agent [c,c,nil] with one flush, and agent " +
			"[nil] with two overlapping flush threads. Each op line is executed on the " +
			"real ICEGatherer (the callback Gather registers, and flushCandidates) under the cooperative scheduler " +
			"and replayed by the Lean transition system; the OnLocalCandidate invocation sequence is compared and " +
			"judged. A handful of e2e lines run the public API under the natural schedule (PeerConnection with pool 0/1 " +
			"gathers on loopback, SetLocalDescription, then 0–3 renegotiations after gathering completed) and " +
			"report how often nil / a duplicate / a candidate after nil was seen. A few syntactically bad op lines check that both sides refuse the same lines. Non-trivial: " +
			"distinct lines with an agent callback and at least one flush (something can interleave).",
		Gen: func(c *Ctx) {
			r := c.Rng
			// complete enumerations of small programs. Segment counts: agent 3 per directly reported
			// candidate (2 if pooled) and 3 for nil; a flush call 4 + max(0, pooled-1) + (1 if pooled)
			c24Enumerate(c, "run pool=1 A:1,n F:1", []int{6, 5})
			c24Enumerate(c, "run pool=0 A:1,n F:1", []int{6, 4})
			if c.Thorough() {
				c24Enumerate(c, "run pool=1 A:5,n F:2", []int{6, 9})
				c24Enumerate(c, "run pool=0 F:2 A:5,n", []int{8, 6})
				c24Enumerate(c, "run pool=1 A:2,1,n F:1", []int{9, 6})
				c24Enumerate(c, "run pool=1 F:1 A:n F:1", []int{4, 3, 4})
				c24Enumerate(c, "run pool=1 F:3 A:7,n", []int{13, 6})
			}
			for n := 0; n < c.N(2000, 50000); n++ {
				if r.Intn(100) == 0 { // syntactically bad line: both sides must refuse it
					bad := []string{"run pool=1 A:1,n F:1", "run pool=x A:1 sched T0", "run pool=1 A:1,1 sched", "run pool=1 A:n,2 sched T0",
						"run pool=1 A:r sched", "run pool=1 A:1 A:2 sched", "run pool=1 F:0 sched", "run pool=1 F:10 sched", "run pool=256 A:1 sched",
						"run pool=01 A:1 sched", "run pool=1 B:1 sched", "run pool=1 sched T0", "run pool=1 A:1,n,r sched T0", "walk pool=1 A:1 sched",
						"run pool=1 A:00012 sched", "run pool=1 A:1,n,2 F:1 sched", "run pool=1 A:+1 sched T0"}
					c.Emit("%s", bad[r.Intn(len(bad))])

					continue
				}
				pool := 1
				switch x := r.Intn(10); {
				case x < 6:
				case x < 9:
					pool = 0
				default:
					pool = []int{2, 3, 255}[r.Intn(3)]
				}
				specs := []string{}
				unusual := r.Intn(10) == 0
				hasAgent := true
				items := []string{}
				ids := r.Perm(40)
				next := 0
				round := func(maxC int) {
					for k := r.Intn(maxC + 1); k > 0; k-- {
						items = append(items, strconv.Itoa(1+ids[next]))
						next++
					}
				}
				nF := []int{0, 1, 1, 1, 1, 2, 2, 2, 3, 1}[r.Intn(10)]
				if unusual {
					switch r.Intn(6) {
					case 0: // flush-only
						hasAgent = false
						nF = 1 + r.Intn(3)
					case 1: // agent-only
						nF = 0
						round(4)
						if r.Intn(2) == 0 {
							items = append(items, "n")
						}
					case 2: // empty agent
					case 3: // nil only
						items = append(items, "n")
					case 4:
						pool = 255
						round(4)
						items = append(items, "n")
					default:
						round(3)
						items = append(items, "n")
					}
				} else {
					round(4)
					if r.Intn(5) != 0 {
						items = append(items, "n")
						if r.Intn(100) < 15 {
							items = append(items, "r")
							round(2)
							if r.Intn(4) != 0 {
								items = append(items, "n")
								if r.Intn(5) == 0 {
									items = append(items, "r")
									round(2)
									if r.Intn(2) == 0 {
										items = append(items, "n")
									}
								}
							}
						}
					}
				}
				restart := false
				for _, it := range items {
					if it == "r" {
						restart = true
					}
				}
				if restart && pool > 0 && nF == 0 {
					nF = 1
				}
				if hasAgent {
					specs = append(specs, "A:"+strings.Join(items, ","))
				}
				for f := 0; f < nF; f++ {
					k := []int{1, 1, 1, 2, 2, 3}[r.Intn(6)]
					if unusual && r.Intn(8) == 0 {
						k = 9
					}
					specs = append(specs, "F:"+strconv.Itoa(k))
				}
				if len(specs) == 0 {
					specs = append(specs, "F:1")
				}
				r.Shuffle(len(specs), func(i, j int) { specs[i], specs[j] = specs[j], specs[i] })
				// schedule
				total := c24Segments(specs)
				steps := r.Intn(total + 3)
				sched := []string{}
				fav := -1
				switch r.Intn(4) {
				case 0: // one thread favoured
					fav = r.Intn(len(specs))
				case 1: // one thread runs ahead first
					t := r.Intn(len(specs))
					for k := r.Intn(6); k > 0; k-- {
						sched = append(sched, fmt.Sprintf("T%d", t))
					}
				default:
				}
				for k := 0; k < steps; k++ {
					t := r.Intn(len(specs))
					if fav >= 0 && r.Intn(2) == 0 {
						t = fav
					}
					if r.Intn(60) == 0 {
						sched = append(sched, []string{"T9", "W0", "T01", "X"}[r.Intn(4)])

						continue
					}
					sched = append(sched, fmt.Sprintf("T%d", t))
				}
				c.Emit("run pool=%d %s sched %s", pool, strings.Join(specs, " "), strings.Join(sched, " "))
			}
			// last (so that no PeerConnection goroutine is around while schedules run): the public API end
			// to end under the natural schedule, incl. SetLocalDescription after gathering completed
			for rep := 0; rep < c.N(1, 3); rep++ {
				for pool := 0; pool <= 1; pool++ {
					for extra := 0; extra <= c.N(2, 3); extra++ {
						c.Emit("e2e pool=%d extra=%d", pool, extra)
					}
				}
			}
			c.Emit("e2e pool=2 extra=0") // refused by both sides (PeerConnection supports pool size ≤ 1)
		},
		Exec: func(a []string) string {
			if len(a) > 0 && a[0] == "e2e" {
				return c24E2E(a)
			}
			p, ok := c24Parse(a)
			if !ok {
				return "bad-op"
			}

			return c24Run(p)
		},
		Class: func(a []string, out string) string {
			if out == "bad-op" {
				return "bad-op-line"
			}
			if len(a) > 0 && a[0] == "e2e" {
				return "e2e-public-api"
			}
			cl := []string{}
			hasA, nF, restart, hasNil := false, 0, false, false
			for _, t := range a {
				if t == "sched" {
					break
				}
				if strings.HasPrefix(t, "pool=") {
					switch t {
					case "pool=0", "pool=1":
						cl = append(cl, t)
					default:
						cl = append(cl, "pool>1")
					}
				}
				if strings.HasPrefix(t, "A:") {
					hasA = true
					for _, it := range c24Items(t[2:]) {
						if it == "r" {
							restart = true
						}
						if it == "n" {
							hasNil = true
						}
					}
				}
				if strings.HasPrefix(t, "F:") {
					nF++
				}
			}
			switch {
			case !hasA:
				cl = append(cl, "flush-only")
			case nF == 0:
				cl = append(cl, "agent-only")
			case nF == 1:
				cl = append(cl, "1-flusher")
			default:
				cl = append(cl, "overlapping-flushers")
			}
			if restart {
				cl = append(cl, "restart")
			}
			if hasA && !hasNil {
				cl = append(cl, "no-nil")
			}
			parts := strings.Split(out, " | ")
			if len(parts) == 4 {
				flushNil, flushCand := false, false
				for _, e := range strings.Fields(parts[1]) {
					// who reported what: the agent thread is the one with gather.* events
					th := strings.SplitN(e, ":", 2)
					if len(th) == 2 && !strings.Contains(parts[0], th[0]+":gather.") && !strings.Contains(parts[0], th[0]+":cb") {
						if th[1] == "n" {
							flushNil = true
						} else if th[1] != "r" {
							flushCand = true
						}
					}
				}
				if flushCand {
					cl = append(cl, "pooled-then-flushed")
				}
				if flushNil {
					cl = append(cl, "nil-by-flush")
				}
			}

			return strings.Join(cl, "+")
		},
		Trivial: func(a []string, out string) bool {
			if len(a) > 0 && a[0] == "e2e" {
				return out == "bad-op"
			}
			hasA, nF := false, 0
			for _, t := range a {
				if t == "sched" {
					break
				}
				if strings.HasPrefix(t, "A:") && len(c24Items(t[2:])) > 0 {
					hasA = true
				}
				if strings.HasPrefix(t, "F:") {
					nF++
				}
			}

			return out == "bad-op" || !hasA || nF == 0
		},
		Timeout: 60e9,
	}
}
