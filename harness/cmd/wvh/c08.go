package main

import (
	"fmt"
	"strconv"
	"strings"

	"github.com/pion/sdp/v3"
	"github.com/pion/webrtc/v4"
)

// C08 — answer directions are legal responses to the offered directions (RFC 3264 §6.1).
//
//	h <step>*      one history on two real PeerConnections A and B (fresh pair per line, no network)
//
// steps (P ∈ A|B):
//
//	P.at.<k>       AddTrack(kind a|v)
//	P.rt.<i>       RemoveTrack(GetTransceivers()[i].Sender())            (skip: no such sender)
//	P.ak.<k>.<d>   AddTransceiverFromKind(k, RTPTransceiverInit{Direction: d ∈ s|o|r|i})
//	P.st.<i>       GetTransceivers()[i].Stop()                           (skip: no such transceiver)
//	P.ss.<i>       GetTransceivers()[i].SetSender(new sender, new track) (direct; skip: no such transceiver)
//	P.of           CreateOffer + SetLocalDescription                     (skip: not stable / no transceiver)
//	P.ro.<spec>    SetRemoteDescription(other peer's latest offer with its direction attributes rewritten)
//	P.ca           CreateAnswer
//	P.la           SetLocalDescription(P's latest created answer)
//	P.ra.<spec>    SetRemoteDescription(other peer's latest created answer, rewritten)
//
// spec: one character per m-section: k keep, s|o|r|i replace the direction attribute, x remove it.
// Output per step: `<status> <secsA> <secsB> <transceivers of P>`, steps separated by `|` (see Drv/C08.lean).
func c08PC() (*webrtc.PeerConnection, *webrtc.API, error) {
	se := webrtc.SettingEngine{}
	// no interfaces: nothing is gathered, nothing touches the network
	se.SetInterfaceFilter(func(string) bool { return false })
	se.SetNetworkTypes([]webrtc.NetworkType{webrtc.NetworkTypeUDP4})
	me := &webrtc.MediaEngine{}
	if err := me.RegisterDefaultCodecs(); err != nil {
		return nil, nil, err
	}
	api := webrtc.NewAPI(webrtc.WithSettingEngine(se), webrtc.WithMediaEngine(me))
	pc, err := api.NewPeerConnection(webrtc.Configuration{})

	return pc, api, err
}

func c08DirCh(d webrtc.RTPTransceiverDirection, unknown string) string {
	switch d {
	case webrtc.RTPTransceiverDirectionSendrecv:
		return "s"
	case webrtc.RTPTransceiverDirectionSendonly:
		return "o"
	case webrtc.RTPTransceiverDirectionRecvonly:
		return "r"
	case webrtc.RTPTransceiverDirectionInactive:
		return "i"
	default:
		return unknown
	}
}

func c08DirOf(s string) (webrtc.RTPTransceiverDirection, bool) {
	switch s {
	case "s":
		return webrtc.RTPTransceiverDirectionSendrecv, true
	case "o":
		return webrtc.RTPTransceiverDirectionSendonly, true
	case "r":
		return webrtc.RTPTransceiverDirectionRecvonly, true
	case "i":
		return webrtc.RTPTransceiverDirectionInactive, true
	}

	return 0, false
}

var c08DirAttr = map[string]string{"sendrecv": "s", "sendonly": "o", "recvonly": "r", "inactive": "i"}

var c08AttrOf = map[byte]string{'s': "sendrecv", 'o': "sendonly", 'r': "recvonly", 'i': "inactive"}

// c08Secs lists the audio/video m-sections of a description as mid:kind:dir (dir = the first direction
// attribute, x = none, j = rejected section with port 0).
func c08Secs(text string) string {
	d := &sdp.SessionDescription{}
	if err := d.UnmarshalString(text); err != nil {
		return "unparsable"
	}
	out := []string{}
	for _, m := range d.MediaDescriptions {
		if m.MediaName.Media == "application" {
			continue
		}
		mid, ok := m.Attribute("mid")
		if !ok {
			mid = "?"
		}
		kind := "?"
		switch m.MediaName.Media {
		case "audio":
			kind = "a"
		case "video":
			kind = "v"
		}
		dir := "x"
		for _, a := range m.Attributes {
			if c, isDir := c08DirAttr[a.Key]; isDir {
				dir = c

				break
			}
		}
		if m.MediaName.Port.Value == 0 {
			dir = "j"
		}
		out = append(out, mid+":"+kind+":"+dir)
	}
	if len(out) == 0 {
		return "-"
	}

	return strings.Join(out, ",")
}

// c08Rewrite replaces / removes the direction attribute of the i-th audio/video m-section per spec.
func c08Rewrite(text, spec string) (string, error) {
	if strings.Trim(spec, "k") == "" {
		return text, nil
	}
	d := &sdp.SessionDescription{}
	if err := d.UnmarshalString(text); err != nil {
		return "", err
	}
	i := 0
	for _, m := range d.MediaDescriptions {
		if m.MediaName.Media == "application" {
			continue
		}
		if i >= len(spec) {
			break
		}
		c := spec[i]
		i++
		if c == 'k' {
			continue
		}
		at := m.Attributes[:0:0]
		placed := false
		for _, a := range m.Attributes {
			if _, isDir := c08DirAttr[a.Key]; isDir {
				if name, ok := c08AttrOf[c]; ok && !placed {
					at = append(at, sdp.Attribute{Key: name})
					placed = true
				}

				continue
			}
			at = append(at, a)
		}
		if name, ok := c08AttrOf[c]; ok && !placed {
			at = append(at, sdp.Attribute{Key: name})
		}
		m.Attributes = at
	}
	b, err := d.Marshal()

	return string(b), err
}

func c08Trs(pc *webrtc.PeerConnection) string {
	out := []string{}
	for _, t := range pc.GetTransceivers() {
		mid := t.Mid()
		if mid == "" {
			mid = "-"
		}
		kind := "?"
		switch t.Kind() {
		case webrtc.RTPCodecTypeAudio:
			kind = "a"
		case webrtc.RTPCodecTypeVideo:
			kind = "v"
		}
		snd := "-"
		if t.Sender() != nil {
			snd = "T"
		}
		out = append(out, strings.Join([]string{
			mid, kind, c08DirCh(t.Direction(), "?"),
			c08DirCh(webrtc.VerifCurrentDirection(t), "-"),
			c08DirCh(webrtc.VerifCurrentRemoteDirection(t), "-"), snd,
		}, "/"))
	}
	if len(out) == 0 {
		return "-"
	}

	return strings.Join(out, ",")
}

type c08Peer struct {
	pc     *webrtc.PeerConnection
	api    *webrtc.API
	offer  *webrtc.SessionDescription // latest offer created and set locally
	answer *webrtc.SessionDescription // latest answer created
	nTrack int
}

func c08Kind(k string) (webrtc.RTPCodecType, string, bool) {
	switch k {
	case "a":
		return webrtc.RTPCodecTypeAudio, webrtc.MimeTypeOpus, true
	case "v":
		return webrtc.RTPCodecTypeVideo, webrtc.MimeTypeVP8, true
	}

	return 0, "", false
}

func c08Status(err error) string {
	if err != nil {
		return "err"
	}

	return "ok"
}

func c08Step(peers map[string]*c08Peer, tok string) (string, bool) { //nolint:cyclop,gocognit,gocyclo
	f := strings.Split(tok, ".")
	if len(f) < 2 {
		return "", false
	}
	p, ok := peers[f[0]]
	if !ok {
		return "", false
	}
	other := peers["A"]
	if f[0] == "A" {
		other = peers["B"]
	}
	seg := func(status, sa, sb string) (string, bool) {
		return status + " " + sa + " " + sb + " " + c08Trs(p.pc), true
	}
	args := f[2:]
	switch f[1] {
	case "at":
		if len(args) != 1 {
			return "", false
		}
		_, mime, okk := c08Kind(args[0])
		if !okk {
			return "", false
		}
		p.nTrack++
		tr, err := webrtc.NewTrackLocalStaticSample(webrtc.RTPCodecCapability{MimeType: mime},
			fmt.Sprintf("t%s%d", f[0], p.nTrack), fmt.Sprintf("s%s%d", f[0], p.nTrack))
		if err == nil {
			_, err = p.pc.AddTrack(tr)
		}

		return seg(c08Status(err), "-", "-")
	case "rt", "st", "ss":
		if len(args) != 1 {
			return "", false
		}
		i, err := strconv.Atoi(args[0])
		if err != nil || i < 0 {
			return "", false
		}
		trs := p.pc.GetTransceivers()
		if i >= len(trs) {
			return seg("skip", "-", "-")
		}
		if f[1] == "st" {
			return seg(c08Status(trs[i].Stop()), "-", "-")
		}
		if f[1] == "ss" {
			// RTPTransceiver.SetSender called directly: no isSendAllowed test
			mime := webrtc.MimeTypeOpus
			if trs[i].Kind() == webrtc.RTPCodecTypeVideo {
				mime = webrtc.MimeTypeVP8
			}
			p.nTrack++
			tr, errT := webrtc.NewTrackLocalStaticSample(webrtc.RTPCodecCapability{MimeType: mime},
				fmt.Sprintf("t%s%d", f[0], p.nTrack), fmt.Sprintf("s%s%d", f[0], p.nTrack))
			if errT != nil {
				return seg("err", "-", "-")
			}
			// re-use the transceiver's own (possibly already negotiated) sender when it has one, as an
			// application swapping the track does; otherwise a fresh sender
			snd := trs[i].Sender()
			if snd == nil {
				var errS error
				if snd, errS = p.api.NewRTPSender(tr, p.pc.SCTP().Transport()); errS != nil {
					return seg("err", "-", "-")
				}
			}

			return seg(c08Status(trs[i].SetSender(snd, tr)), "-", "-")
		}
		snd := trs[i].Sender()
		if snd == nil {
			return seg("skip", "-", "-")
		}

		return seg(c08Status(p.pc.RemoveTrack(snd)), "-", "-")
	case "ak":
		if len(args) != 2 {
			return "", false
		}
		kind, _, okk := c08Kind(args[0])
		dir, okd := c08DirOf(args[1])
		if !okk || !okd {
			return "", false
		}
		_, err := p.pc.AddTransceiverFromKind(kind, webrtc.RTPTransceiverInit{Direction: dir})

		return seg(c08Status(err), "-", "-")
	case "of":
		if len(args) != 0 {
			return "", false
		}
		if p.pc.SignalingState() != webrtc.SignalingStateStable || len(p.pc.GetTransceivers()) == 0 {
			return seg("skip", "-", "-")
		}
		offer, err := p.pc.CreateOffer(nil)
		if err == nil {
			err = p.pc.SetLocalDescription(offer)
		}
		if err != nil {
			return seg("err", "-", "-")
		}
		p.offer = &offer

		return seg("ok", c08Secs(offer.SDP), "-")
	case "ro", "ra":
		if len(args) != 1 {
			return "", false
		}
		src := other.offer
		typ := webrtc.SDPTypeOffer
		if f[1] == "ra" {
			src = other.answer
			typ = webrtc.SDPTypeAnswer
		}
		if src == nil {
			return seg("skip", "-", "-")
		}
		text, err := c08Rewrite(src.SDP, args[0])
		if err != nil {
			return seg("err", "unparsable", "-")
		}
		err = p.pc.SetRemoteDescription(webrtc.SessionDescription{Type: typ, SDP: text})

		return seg(c08Status(err), c08Secs(text), "-")
	case "ca":
		if len(args) != 0 {
			return "", false
		}
		ans, err := p.pc.CreateAnswer(nil)
		if err != nil {
			return seg("err", "-", "-")
		}
		p.answer = &ans
		off := "-"
		if rd := p.pc.RemoteDescription(); rd != nil {
			off = c08Secs(rd.SDP)
		}

		return seg("ok", off, c08Secs(ans.SDP))
	case "la":
		if len(args) != 0 {
			return "", false
		}
		if p.answer == nil {
			return seg("skip", "-", "-")
		}

		return seg(c08Status(p.pc.SetLocalDescription(*p.answer)), "-", "-")
	}

	return "", false
}

func c08Exec(a []string) string {
	if len(a) < 1 || a[0] != "h" {
		return "bad-op"
	}
	pa, apiA, err := c08PC()
	if err != nil {
		return "bad-op"
	}
	defer pa.Close() //nolint:errcheck
	pb, apiB, err := c08PC()
	if err != nil {
		return "bad-op"
	}
	defer pb.Close() //nolint:errcheck
	peers := map[string]*c08Peer{"A": {pc: pa, api: apiA}, "B": {pc: pb, api: apiB}}
	outs := []string{}
	for _, tok := range a[1:] {
		o, ok := c08Step(peers, tok)
		if !ok {
			return "bad-op"
		}
		outs = append(outs, o)
	}

	return strings.Join(outs, " | ")
}

func init() {
	registry["C08"] = &Prop{
		Workers: 16,
		Exec:    c08Exec,
		Gen:     c08Gen,
		Rule: "Every line is one history on a fresh pair of real PeerConnections (no network). (1) table: every " +
			"combination of offerer preparation x answerer preparation x rewritten direction of the first offer " +
			"(k,s,o,r,i,x) x one local operation on the answerer (none, AddTrack, RemoveTrack, Stop, direct " +
			"RTPTransceiver.SetSender; before or inside the answer window) x rewritten direction of the re-offer, " +
			"enumerated completely in the thorough tier and sampled 1/6 in the quick tier; (1b) every ordering of two or " +
			"three mid-less answerer transceivers with different directions x rewritten offer direction, two rounds " +
			"(exercises the preference lists of satisfyTypeAndDirection; complete in both tiers); (2) seeded random histories " +
			"of <= 8 operations (AddTrack, RemoveTrack, AddTransceiverFromKind, Stop, SetSender, complete offer/answer " +
			"rounds with either peer offering, the offer's and sometimes the answer's direction attributes rewritten " +
			"per section), local operations also interleaved between the five steps of a round; (3) a malformed " +
			"stream: steps in arbitrary order (answers without offers, stale descriptions, indexes out of range, " +
			"inactive AddTransceiverFromKind). A line is trivial when no answer was created in it.",
		Class: func(a []string, out string) string {
			answers := 0
			segs := strings.Split(out, " | ")
			rew, win := false, false
			pending := map[string]bool{}
			for i, t := range a[1:] {
				f := strings.Split(t, ".")
				if len(f) < 2 {
					continue
				}
				ok := i < len(segs) && strings.HasPrefix(segs[i], "ok")
				switch f[1] {
				case "ro":
					if len(f) >= 3 && strings.Trim(f[2], "k") != "" {
						rew = true
					}
					if ok {
						pending[f[0]] = true
					}
				case "ra":
					if len(f) >= 3 && strings.Trim(f[2], "k") != "" {
						rew = true
					}
				case "ca":
					if ok {
						answers++
					}
				case "la":
					if ok {
						pending[f[0]] = false
					}
				case "at", "rt", "ak", "st", "ss":
					if pending[f[0]] {
						win = true
					}
				}
			}
			if answers > 4 {
				answers = 4
			}

			return fmt.Sprintf("answers=%d rewritten=%s local-op-in-answer-window=%s", answers, b2s(rew), b2s(win))
		},
		Trivial: func(a []string, out string) bool {
			segs := strings.Split(out, " | ")
			for i, t := range a[1:] {
				if strings.HasSuffix(t, ".ca") && i < len(segs) && strings.HasPrefix(segs[i], "ok") {
					return false
				}
			}

			return true
		},
	}
}

func c08Other(p string) string {
	if p == "A" {
		return "B"
	}

	return "A"
}

func c08Gen(c *Ctx) { //nolint:cyclop,gocognit
	r := c.Rng
	peers := []string{"A", "B"}
	kinds := []string{"a", "v"}
	dirs := []string{"s", "o", "r", "i"}
	// (1) the table
	oPrep := []string{"A.at.a", "A.ak.a.s", "A.ak.a.o", "A.ak.a.r"}
	aPrep := []string{"", "B.at.a", "B.ak.a.s", "B.ak.a.o", "B.ak.a.r"}
	spec := []string{"k", "s", "o", "r", "i", "x"}
	locals := []string{"", "B.at.a", "B.rt.0", "B.st.0", "B.ss.0"}
	for _, op := range oPrep {
		for _, ap := range aPrep {
			for _, d1 := range spec {
				for _, lo := range locals {
					for where := 0; where < 2; where++ {
						if lo == "" && where == 1 {
							continue
						}
						for _, d2 := range spec {
							if !c.Thorough() && r.Intn(6) != 0 {
								continue
							}
							before, inside := lo, ""
							if where == 1 {
								before, inside = "", lo
							}
							c.Emit("h %s %s A.of B.ro.%s B.ca B.la A.ra. %s A.of B.ro.%s %s B.ca B.la A.ra.",
								op, ap, d1, before, d2, inside)
						}
					}
				}
			}
		}
	}
	// (1b) preference lists of satisfyTypeAndDirection: the answerer holds two or three mid-less transceivers
	// of the offered kind with different directions, in every order; the offer's direction is rewritten
	// (enumerated completely in both tiers)
	prefs := []string{"B.ak.a.s", "B.ak.a.o", "B.ak.a.r"}
	for i := range prefs {
		for j := range prefs {
			if i == j {
				continue
			}
			for k := -1; k < len(prefs); k++ {
				if k == i || k == j {
					continue
				}
				third := ""
				if k >= 0 {
					third = prefs[k]
				}
				for _, d1 := range []string{"k", "s", "o", "r", "i"} {
					c.Emit("h A.at.a %s %s %s A.of B.ro.%s B.ca B.la A.ra. A.at.a A.of B.ro.k%s B.ca B.la A.ra.",
						prefs[i], prefs[j], third, d1, d1)
				}
			}
		}
	}
	localOp := func() string {
		p := peers[r.Intn(2)]
		switch x := r.Intn(11); {
		case x < 4:
			return p + ".at." + kinds[r.Intn(2)]
		case x < 6:
			return fmt.Sprintf("%s.rt.%d", p, r.Intn(3))
		case x < 9:
			return p + ".ak." + kinds[r.Intn(2)] + "." + dirs[r.Intn(3)]
		case x < 10:
			return fmt.Sprintf("%s.st.%d", p, r.Intn(3))
		default:
			return fmt.Sprintf("%s.ss.%d", p, r.Intn(3))
		}
	}
	randSpec := func(keepProb int) string {
		if r.Intn(100) < keepProb {
			return ""
		}
		n := 1 + r.Intn(4)
		sb := strings.Builder{}
		for i := 0; i < n; i++ {
			switch x := r.Intn(20); {
			case x < 4:
				sb.WriteByte('k')
			case x < 19:
				sb.WriteString(dirs[r.Intn(4)])
			default:
				sb.WriteByte('x')
			}
		}

		return sb.String()
	}
	// (2) seeded histories
	for n := 0; n < c.N(2500, 24000); n++ {
		steps := []string{}
		// something to negotiate
		steps = append(steps, peers[r.Intn(2)]+".at."+kinds[r.Intn(2)])
		nops := 2 + r.Intn(6)
		for k := 0; k < nops; k++ {
			if r.Intn(10) < 4 {
				steps = append(steps, localOp())

				continue
			}
			o := peers[r.Intn(2)]
			q := c08Other(o)
			round := []string{o + ".of", q + ".ro." + randSpec(45), q + ".ca", q + ".la", o + ".ra." + randSpec(85)}
			for _, st := range round {
				if r.Intn(8) == 0 {
					steps = append(steps, localOp())
				}
				steps = append(steps, st)
			}
		}
		c.Emit("h %s", strings.Join(steps, " "))
	}
	// (3) malformed: arbitrary step order
	for n := 0; n < c.N(300, 3000); n++ {
		steps := []string{}
		l := 3 + r.Intn(14)
		for k := 0; k < l; k++ {
			p := peers[r.Intn(2)]
			switch x := r.Intn(12); {
			case x < 3:
				steps = append(steps, localOp())
			case x == 3:
				steps = append(steps, p+".ak."+kinds[r.Intn(2)]+".i")
			case x == 4:
				steps = append(steps, fmt.Sprintf("%s.rt.%d", p, r.Intn(9)))
			case x < 7:
				steps = append(steps, p+".of")
			case x < 9:
				steps = append(steps, p+".ro."+randSpec(50))
			case x == 9:
				steps = append(steps, p+".ca")
			case x == 10:
				steps = append(steps, p+".la")
			default:
				steps = append(steps, p+".ra."+randSpec(70))
			}
		}
		c.Emit("h %s", strings.Join(steps, " "))
	}
}
