package main

import (
	"fmt"
	"strconv"
	"strings"
	"time"

	"github.com/pion/rtp"
	"github.com/pion/webrtc/v4"
	"github.com/pion/webrtc/v4/pkg/media"
)

// C28 — TrackLocalStaticSample.WriteSample timestamps / sequence numbers, through the public API with a
// recording TrackLocalWriter. Line format: see lean/WebrtcVerif/Drv/C28.lean.

type c28Writer struct {
	pkts [][2]uint32 // (sequence number, timestamp) in arrival order
}

func (w *c28Writer) WriteRTP(h *rtp.Header, _ []byte) (int, error) {
	w.pkts = append(w.pkts, [2]uint32{uint32(h.SequenceNumber), h.Timestamp})

	return 0, nil
}

func (w *c28Writer) Write(b []byte) (int, error) { return len(b), nil }

// c28Chunker is the harness's own rtp.Payloader (installed with webrtc.WithPayloader): chunks of k bytes,
// no payload at all for k = 0 (what e.g. the H264 payloader does for a sample holding only an SPS).
type c28Chunker struct{ k int }

func (c *c28Chunker) Payload(_ uint16, payload []byte) [][]byte {
	out := [][]byte{}
	if c.k == 0 {
		return out
	}
	for len(payload) > c.k {
		out = append(out, payload[:c.k])
		payload = payload[c.k:]
	}
	if len(payload) > 0 {
		out = append(out, payload)
	}

	return out
}

func c28Exec(a []string) string { //nolint:cyclop,gocognit
	if len(a) < 6 || a[0] != "seq" {
		return "bad-op"
	}
	rate, _ := strconv.ParseUint(a[2], 10, 32)
	nops, _ := strconv.Atoi(a[5])
	capb := webrtc.RTPCodecCapability{ClockRate: uint32(rate)}
	// "r": the option is not used and pion/rtp picks a random initial value; every reported value is
	// relative to the first packet of the history, so the output stays deterministic
	opts := []func(*webrtc.TrackLocalStaticRTP){}
	fixedTS, fixedSeq := a[3] != "r", a[4] != "r"
	seq0 := uint64(0)
	if fixedTS {
		ts0, _ := strconv.ParseUint(a[3], 10, 32)
		opts = append(opts, webrtc.WithRTPTimestamp(uint32(ts0)))
	}
	if fixedSeq {
		seq0, _ = strconv.ParseUint(a[4], 10, 16)
		opts = append(opts, webrtc.WithRTPSequenceNumber(uint16(seq0)))
	} else {
		seq0 = uint64(nops) // only picks among the G711/G722 mime types below
	}
	switch {
	case a[1] == "opus":
		capb.MimeType, capb.Channels = webrtc.MimeTypeOpus, 2
	case a[1] == "g7":
		capb.MimeType = []string{webrtc.MimeTypePCMU, webrtc.MimeTypePCMA, webrtc.MimeTypeG722}[seq0%3]
	case a[1] == "vp8":
		capb.MimeType = webrtc.MimeTypeVP8
	case strings.HasPrefix(a[1], "c"):
		k, err := strconv.Atoi(a[1][1:])
		if err != nil {
			return "bad-op"
		}
		capb.MimeType = webrtc.MimeTypeVP8
		opts = append(opts, webrtc.WithPayloader(func(webrtc.RTPCodecCapability) (rtp.Payloader, error) {
			return &c28Chunker{k}, nil
		}))
	default:
		return "bad-op"
	}
	track, err := webrtc.NewTrackLocalStaticSample(capb, "track", "stream", opts...)
	if err != nil {
		return "bad-op"
	}
	codecs := []webrtc.RTPCodecParameters{{RTPCodecCapability: capb, PayloadType: 96}}
	primary := &c28Writer{}
	primaryCtx := &c29Ctx{id: "primary", ssrc: 1, codecs: codecs, w: primary}
	if _, err = track.Bind(primaryCtx); err != nil {
		return "bind-failed"
	}
	type extra struct {
		ctx *c29Ctx
		w   *c28Writer
	}
	extras := []extra{}
	t := a[6:]
	type seg struct {
		mark string
		pkts [][2]uint32
		bad  bool
	}
	segs := []seg{}
	flush := func() seg {
		sg := seg{pkts: primary.pkts}
		for _, e := range extras { // every other bound writer must have received the same packets
			if fmt.Sprint(e.w.pkts) != fmt.Sprint(primary.pkts) {
				sg.bad = true
			}
			e.w.pkts = nil
		}
		primary.pkts = nil

		return sg
	}
	for k := 0; k < nops; k++ {
		if len(t) == 0 {
			return "bad-op"
		}
		switch t[0] {
		case "S":
			if len(t) < 4 {
				return "bad-op"
			}
			dur, _ := strconv.ParseInt(t[1], 10, 64)
			l, _ := strconv.Atoi(t[2])
			drop, _ := strconv.ParseUint(t[3], 10, 16)
			if err := track.WriteSample(media.Sample{
				Data: make([]byte, l), Duration: time.Duration(dur), PrevDroppedPackets: uint16(drop),
			}); err != nil {
				return "write-failed"
			}
			segs = append(segs, flush())
			t = t[4:]
		case "P":
			if len(t) < 2 {
				return "bad-op"
			}
			n, _ := strconv.ParseUint(t[1], 10, 32)
			if err := track.GeneratePadding(uint32(n)); err != nil {
				return "write-failed"
			}
			segs = append(segs, flush())
			t = t[2:]
		case "B":
			e := extra{w: &c28Writer{}}
			e.ctx = &c29Ctx{id: fmt.Sprintf("extra%d", len(extras)), ssrc: uint32(2 + len(extras)), codecs: codecs, w: e.w}
			if _, err := track.Bind(e.ctx); err != nil {
				return "bind-failed"
			}
			extras = append(extras, e)
			segs = append(segs, seg{mark: "b"})
			t = t[1:]
		case "U":
			if n := len(extras); n > 0 {
				if err := track.Unbind(extras[n-1].ctx); err != nil {
					return "unbind-failed"
				}
				extras = extras[:n-1]
			}
			segs = append(segs, seg{mark: "u"})
			t = t[1:]
		case "R":
			if err := track.Unbind(primaryCtx); err != nil {
				return "unbind-failed"
			}
			if _, err := track.Bind(primaryCtx); err != nil {
				return "bind-failed"
			}
			segs = append(segs, seg{mark: "rb"})
			t = t[1:]
		default:
			return "bad-op"
		}
	}

	var first *[2]uint32
	for i := range segs {
		if len(segs[i].pkts) > 0 {
			first = &segs[i].pkts[0]

			break
		}
	}
	out := []string{"first - -"}
	if first != nil {
		fs, ft := "r", "r"
		if fixedSeq {
			fs = strconv.Itoa(int(first[0]))
		}
		if fixedTS {
			ft = strconv.FormatUint(uint64(first[1]), 10)
		}
		out[0] = "first " + fs + " " + ft
	}
	for _, sg := range segs {
		if sg.mark != "" {
			out = append(out, sg.mark)

			continue
		}
		sb := &strings.Builder{}
		fmt.Fprintf(sb, "%d", len(sg.pkts))
		for _, p := range sg.pkts {
			fmt.Fprintf(sb, " %d %d", uint16(p[0]-first[0]), p[1]-first[1])
		}
		if sg.bad {
			sb.WriteString(" !fanout-differs")
		}
		out = append(out, sb.String())
	}

	return strings.Join(out, " | ")
}

func init() { //nolint:gocognit,cyclop
	registry["C28"] = &Prop{
		Workers: 16,
		Timeout: 60 * time.Second,
		Exec:    c28Exec,
		Rule: "Seeded random sample sequences written with TrackLocalStaticSample.WriteSample through the public API " +
			"(a recording TrackLocalWriter observes every packet's sequence number and timestamp). The track is " +
			"created with WithRTPTimestamp and WithRTPSequenceNumber, with only one of them, or with neither (a " +
			"quarter each; without the option pion/rtp draws a random initial value, so sequence numbers and " +
			"timestamps are reported relative to the first packet of the history, mod 2^16 / 2^32, plus the first " +
			"packet's absolute value where the option fixed it). Per history: clock rate 8000 / 48000 / 90000 (85%) or " +
			"16000, 44100, 1, 4294967295 (15%); payloader Opus, G711/G722, VP8 (real pion/rtp payloaders) or the " +
			"harness's own chunking payloader incl. one that returns no payload; initial timestamp / sequence " +
			"number random or within 2000 of wrap-around; 20..600 ops (some 2000..6000); a duration pattern: fixed " +
			"20 ms, 33.333333 ms, 33333333 ns, 33366700 ns (1/29.97 s), 1 ns, 999999 ns, one tick ± 1 ns, 0, " +
			"uniformly random ≤ 50 ms, 1..10 s, or a per-sample mixture; data sizes 0..4000 bytes (1..4 packets); " +
			"PrevDroppedPackets 0 (90%) or 1, 2, 7, 100, 65535; interleaved GeneratePadding bursts, Bind/Unbind of " +
			"further contexts (two and more bindings) and Unbind + Bind again of the observed context between " +
			"samples (none of which may reset the packetizer or the sequencer). A malformed stream (10%) adds clock rate 0 and " +
			"one sample whose dropped time exceeds uint32 ticks (hours-long sample × 65535 dropped packets, kept " +
			"below 2^50 ticks; beyond that see known_findings.json), followed by up to 400 more ops. " +
			"The Lean model is evaluated with a bit-exact IEEE-754 binary64 replica of the Go arithmetic, so model " +
			"and implementation outputs are compared exactly; the property itself is judged against exact " +
			"integer arithmetic with the property's own tolerance (timestamp within one tick of " +
			"ts0 + floor(total·rate/1e9) mod 2^32 — a bound on the distance to the exact total, hence " +
			"non-accumulating; with a random initial timestamp: some initial value puts every sample within one " +
			"tick, i.e. the deviations of the relative timestamps from the exact relative tick counts span at " +
			"most 2). Sequence numbers are judged on the relative values (every packet = packets so far + total " +
			"skipped after the first packet) and on the first packet's absolute value where it was fixed. Non-trivial: distinct histories with at least 10 packets.",
		Gen: func(c *Ctx) {
			r := c.Rng
			durTable := []int64{20000000, 33333333, 33333334, 33366700, 1, 999999, 10000000, 2500000, 21333333, 0, 41708333}
			for n := 0; n < c.N(400, 4000); n++ {
				malformed := r.Intn(10) == 0
				rate := []uint32{8000, 48000, 90000}[r.Intn(3)]
				if r.Intn(100) < 15 {
					rate = []uint32{16000, 44100, 1, 4294967295}[r.Intn(4)]
				}
				if malformed && r.Intn(4) == 0 {
					rate = 0
				}
				pay := "c" + strconv.Itoa([]int{400, 100, 1188, 0, 700}[r.Intn(5)])
				switch r.Intn(4) {
				case 0, 1:
					switch rate {
					case 48000:
						pay = "opus"
					case 8000, 16000:
						pay = "g7"
					default:
						pay = "vp8"
					}
				case 2:
					pay = []string{"opus", "g7", "vp8"}[r.Intn(3)]
				}
				ts0, seq0 := r.Uint32(), uint16(r.Intn(65536))
				if r.Intn(4) == 0 {
					ts0 = uint32(0x100000000 - int64(r.Intn(2000)) - 1)
				}
				if r.Intn(4) == 0 {
					seq0 = uint16(65535 - r.Intn(2000))
				}
				if r.Intn(16) == 0 {
					ts0, seq0 = 0, 0
				}
				nops := 20 + r.Intn(580)
				if r.Intn(12) == 0 {
					nops = 2000 + r.Intn(4000)
				}
				tick := int64(0)
				if rate > 0 {
					tick = 1000000000 / int64(rate)
				}
				pattern := r.Intn(14)
				fixed := durTable[r.Intn(len(durTable))]
				sb := &strings.Builder{}
				overflowLeft := -1 // after a conversion beyond uint32 the history is cut short (see Rule)
				ops := 0
				for ops < nops {
					x := r.Intn(100)
					switch {
					case x < 2:
						fmt.Fprintf(sb, " P %d", r.Intn(4))
					case x < 3:
						sb.WriteString(" B")
					case x < 4:
						sb.WriteString(" U")
					case x < 5:
						sb.WriteString(" R")
					default:
						var dur int64
						switch pattern {
						case 0, 1, 2, 3:
							dur = fixed
						case 4:
							dur = tick + int64(r.Intn(3)) - 1
							if dur < 0 {
								dur = 0
							}
						case 5:
							dur = r.Int63n(50000001)
						case 6:
							dur = 1000000000 + r.Int63n(9000000001)
						case 7:
							dur = fixed + int64(r.Intn(2001)) - 1000 // jitter
							if dur < 0 {
								dur = 0
							}
						case 8:
							dur = 33333333 + int64(ops%3/2) // 33333333, 33333333, 33333334
						default:
							dur = durTable[r.Intn(len(durTable))]
						}
						drop := 0
						if r.Intn(10) == 0 {
							drop = []int{1, 2, 7, 100, 65535}[r.Intn(5)]
						}
						if malformed && overflowLeft < 0 && rate > 0 && r.Intn(40) == 0 {
							// one conversion beyond uint32 ticks, kept below 2^50 ticks (binary64 holds
							// integers exactly only up to 2^53; see known_findings.json)
							maxSec := int64(1<<50) / (int64(rate) * 65535)
							if maxSec > 10000 {
								maxSec = 10000
							}
							if maxSec >= 1 {
								dur = 1000000000 * (1 + r.Int63n(maxSec))
								drop = 65535
								overflowLeft = 400
							}
						}
						l := 1 + r.Intn(1500)
						switch r.Intn(10) {
						case 0:
							l = 0
						case 1:
							l = 1500 + r.Intn(2501)
						case 2:
							l = []int{1187, 1188, 1189, 1185, 1184, 2376, 2377}[r.Intn(7)]
						}
						fmt.Fprintf(sb, " S %d %d %d", dur, l, drop)
					}
					ops++
					if overflowLeft > 0 {
						overflowLeft--
						if overflowLeft == 0 {
							break
						}
					}
				}
				// the options that fix the initial values are used, or not, independently: without them
				// pion/rtp draws a random timestamp / sequence number (the normal case in applications)
				tsTok, seqTok := strconv.FormatUint(uint64(ts0), 10), strconv.Itoa(int(seq0))
				switch r.Intn(4) {
				case 0:
					tsTok, seqTok = "r", "r"
				case 1:
					seqTok = "r"
				case 2:
					tsTok = "r"
				}
				c.Emit("seq %s %d %s %s %d%s", pay, rate, tsTok, seqTok, ops, sb.String())
			}
		},
		Class: func(a []string, out string) string {
			if len(a) < 6 {
				return "?"
			}
			drops, samples, big := 0, 0, false
			for i := 6; i < len(a); i++ {
				if a[i] == "S" && i+3 < len(a) {
					samples++
					if a[i+3] != "0" {
						drops++
					}
					if len(a[i+1]) > 11 {
						big = true
					}
					i += 3
				}
			}
			sz := "≤100"
			switch {
			case samples > 1000:
				sz = ">1000"
			case samples > 100:
				sz = "101-1000"
			}
			d := "0"
			switch {
			case drops > 5:
				d = "6+"
			case drops > 0:
				d = "1-5"
			}
			pay := a[1]
			if strings.HasPrefix(pay, "c") {
				pay = "chunk"
			}

			ini := "fixed-ts+seq"
			switch {
			case a[3] == "r" && a[4] == "r":
				ini = "random-ts+seq"
			case a[3] == "r":
				ini = "random-ts"
			case a[4] == "r":
				ini = "random-seq"
			}

			return fmt.Sprintf("rate=%s payloader=%s initial=%s samples=%s samples-with-drops=%s beyond-uint32=%s",
				a[2], pay, ini, sz, d, b2s(big))
		},
		Trivial: func(_ []string, out string) bool {
			n := 0
			for _, s := range strings.Split(out, " | ") {
				f := strings.Fields(s)
				if len(f) > 0 {
					k, _ := strconv.Atoi(f[0])
					n += k
				}
			}

			return n < 10
		},
	}
}
