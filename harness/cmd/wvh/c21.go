package main

import (
	"bytes"
	"errors"
	"fmt"
	"os"
	"runtime"
	"strconv"
	"strings"
	"sync"
	"time"

	"github.com/pion/webrtc/v4"
	"github.com/pion/webrtc/v4/pkg/rtcerr"
)

// C21 — Close / GracefulClose under a controlled schedule (grammar: lean/WebrtcVerif/Drv/C21.lean).
//
//	run <point> <closers> u=<ice,…|-> sched <name>…
//
// point: p0 fresh (one local track) · p1 after SetLocalDescription(offer), gathering running ·
// p1r answerer after SetRemoteDescription(offer): its transports start, ICE checking · p2 both descriptions set, ICE checking (no candidates
// were exchanged, so it stays there) · p3 connected, data channel open and sending · p4 as p3, and the
// data channel's OnMessage handler is parked inside the application's code (its read loop goroutine is busy)
// until harness thread H0 releases it.
// closers: a word over {C,G}: thread T<i> calls Close (C) or GracefulClose (G).
// u=: thread U<j> delivers the ICE connection state <ice> (raw value) the way the agent's notifier does.
// sched: thread names released one segment at a time; afterwards all threads are drained round-robin.

type c21Prog struct {
	point   string
	closers string
	ups     []int
	sched   []string
}

func c21Parse(a []string) (*c21Prog, bool) {
	if len(a) < 5 || a[0] != "run" || a[4] != "sched" {
		return nil, false
	}
	p := &c21Prog{point: a[1], closers: a[2], sched: a[5:]}
	switch p.point {
	case "p0", "p1", "p1r", "p2", "p3", "p4":
	default:
		return nil, false
	}
	if len(p.closers) < 1 || len(p.closers) > 4 || strings.Trim(p.closers, "CG") != "" {
		return nil, false
	}
	if !strings.HasPrefix(a[3], "u=") {
		return nil, false
	}
	if u := a[3][2:]; u != "-" {
		for _, t := range strings.Split(u, ",") {
			v, err := strconv.Atoi(t)
			if err != nil || v < 0 || v > 8 || len(t) != 1 {
				return nil, false
			}
			p.ups = append(p.ups, v)
		}
		if len(p.ups) > 4 {
			return nil, false
		}
	}
	for _, n := range p.sched {
		if len(n) != 2 || (n[0] != 'T' && n[0] != 'U' && n[0] != 'H') || n[1] < '0' || n[1] > '9' {
			return nil, false
		}
	}

	return p, true
}

// pionGoroutines returns the ids of goroutines that have a pion frame on their stack (other than the
// calling harness code).
func pionGoroutines() map[string]string {
	buf := make([]byte, 1<<20)
	for {
		n := runtime.Stack(buf, true)
		if n < len(buf) {
			buf = buf[:n]

			break
		}
		buf = make([]byte, 2*len(buf))
	}
	out := map[string]string{}
	for _, blk := range bytes.Split(buf, []byte("\n\n")) {
		if !bytes.Contains(blk, []byte("github.com/pion/")) || bytes.Contains(blk, []byte("main.pionGoroutines")) {
			continue
		}
		f := bytes.Fields(blk)
		if len(f) >= 2 {
			out[string(f[1])] = string(blk)
		}
	}

	return out
}

func stripCandidates(sdp string) string {
	lines := strings.Split(sdp, "\r\n")
	out := lines[:0]
	for _, l := range lines {
		if strings.HasPrefix(l, "a=candidate:") || l == "a=end-of-candidates" {
			continue
		}
		out = append(out, l)
	}

	return strings.Join(out, "\r\n")
}

func c21ErrClass(err error) string {
	if err == nil {
		return "ok"
	}
	var is *rtcerr.InvalidStateError
	if errors.As(err, &is) {
		switch {
		case errors.Is(err, webrtc.ErrConnectionClosed):
			return "IS:closed"
		case errors.Is(err, webrtc.ErrNoRemoteDescription):
			return "IS:noremote"
		}

		return "IS:other"
	}

	return "other"
}

type c21Setup struct {
	a, b      *webrtc.PeerConnection
	sender    *webrtc.RTPSender
	track2    *webrtc.TrackLocalStaticSample
	offer     webrtc.SessionDescription
	stopSend  chan struct{}
	sendDone  chan struct{}
	hmu       sync.Mutex
	hlog      []webrtc.PeerConnectionState
	wantConn  webrtc.PeerConnectionState
	wantPre   []webrtc.PeerConnectionState
	hasRemote bool
	// p4: the data channel's OnMessage handler parks (on its read loop goroutine) until release is closed
	entered, release, left chan struct{}
	releaseOnce          sync.Once
}

func (st *c21Setup) releaseHandler() {
	if st.release != nil {
		st.releaseOnce.Do(func() { close(st.release) })
	}
}

// handlerBusy: the read loop goroutine is inside the application's handler.
func (st *c21Setup) handlerBusy() bool {
	if st.entered == nil {
		return false
	}
	select {
	case <-st.entered:
	default:
		return false
	}
	select {
	case <-st.left:
		return false
	default:
		return true
	}
}

func (st *c21Setup) handlerLog() []webrtc.PeerConnectionState {
	st.hmu.Lock()
	defer st.hmu.Unlock()

	return append([]webrtc.PeerConnectionState{}, st.hlog...)
}

func (st *c21Setup) cleanup() {
	st.releaseHandler()
	if st.stopSend != nil {
		select {
		case <-st.stopSend:
		default:
			close(st.stopSend)
		}
		<-st.sendDone
	}
	if st.b != nil {
		_ = st.b.GracefulClose()
	}
	if st.a != nil {
		_ = st.a.Close()
	}
}

// c21Settings: loopback only, and ICE timeouts far beyond the length of a run so that the agent never
// reports disconnected/failed on its own while a schedule is being played.
func c21Settings() webrtc.SettingEngine {
	se := loopbackSettings()
	se.SetICETimeouts(60*time.Second, 120*time.Second, time.Second)

	return se
}

func c21MakeSetup(point string) (*c21Setup, string) {
	st := &c21Setup{wantConn: webrtc.PeerConnectionStateNew}
	se := c21Settings()
	api := webrtc.NewAPI(webrtc.WithSettingEngine(se))
	a, err := api.NewPeerConnection(webrtc.Configuration{})
	if err != nil {
		return st, "inconclusive new-a"
	}
	st.a = a
	a.OnConnectionStateChange(func(s webrtc.PeerConnectionState) {
		st.hmu.Lock()
		st.hlog = append(st.hlog, s)
		st.hmu.Unlock()
	})
	t1, _ := webrtc.NewTrackLocalStaticSample(webrtc.RTPCodecCapability{MimeType: webrtc.MimeTypeOpus}, "audio", "s1")
	st.track2, _ = webrtc.NewTrackLocalStaticSample(webrtc.RTPCodecCapability{MimeType: webrtc.MimeTypeVP8}, "video", "s2")
	if st.sender, err = a.AddTrack(t1); err != nil {
		return st, "inconclusive add-track"
	}
	if point == "p0" {
		off, err := a.CreateOffer(nil)
		if err != nil {
			return st, "inconclusive offer"
		}
		st.offer = off

		return st, ""
	}
	b, err := webrtc.NewAPI(webrtc.WithSettingEngine(c21Settings())).NewPeerConnection(webrtc.Configuration{})
	if err != nil {
		return st, "inconclusive new-b"
	}
	st.b = b
	switch point {
	case "p1":
		off, err := a.CreateOffer(nil)
		if err != nil {
			return st, "inconclusive offer"
		}
		st.offer = off
		if err = a.SetLocalDescription(off); err != nil {
			return st, "inconclusive sld"
		}
	case "p1r":
		if _, err = b.CreateDataChannel("d", nil); err != nil {
			return st, "inconclusive dc"
		}
		off, err := b.CreateOffer(nil)
		if err != nil {
			return st, "inconclusive offer"
		}
		st.offer = off
		if err = b.SetLocalDescription(off); err != nil {
			return st, "inconclusive sld"
		}
		if err = a.SetRemoteDescription(off); err != nil {
			return st, "inconclusive srd"
		}
		st.hasRemote = true
		// an answerer starts its transports as soon as the offer is applied: ICE goes to checking
		st.wantConn = webrtc.PeerConnectionStateConnecting
		st.wantPre = []webrtc.PeerConnectionState{webrtc.PeerConnectionStateConnecting}
	case "p2":
		if _, err = a.CreateDataChannel("d", nil); err != nil {
			return st, "inconclusive dc"
		}
		off, err := a.CreateOffer(nil)
		if err != nil {
			return st, "inconclusive offer"
		}
		off.SDP = stripCandidates(off.SDP)
		st.offer = off
		if err = a.SetLocalDescription(off); err != nil {
			return st, "inconclusive sld"
		}
		if err = b.SetRemoteDescription(off); err != nil {
			return st, "inconclusive srd-b"
		}
		ans, err := b.CreateAnswer(nil)
		if err != nil {
			return st, "inconclusive answer"
		}
		ans.SDP = stripCandidates(ans.SDP)
		if err = b.SetLocalDescription(ans); err != nil {
			return st, "inconclusive sld-b"
		}
		if err = a.SetRemoteDescription(ans); err != nil {
			return st, "inconclusive srd"
		}
		st.hasRemote = true
		st.wantConn = webrtc.PeerConnectionStateConnecting
		st.wantPre = []webrtc.PeerConnectionState{webrtc.PeerConnectionStateConnecting}
	case "p3", "p4":
		dc, err := a.CreateDataChannel("d", nil)
		if err != nil {
			return st, "inconclusive dc"
		}
		if point == "p4" {
			st.entered, st.release, st.left = make(chan struct{}), make(chan struct{}), make(chan struct{})
			var first sync.Once
			dc.OnMessage(func(webrtc.DataChannelMessage) {
				first.Do(func() {
					close(st.entered)
					<-st.release // application work on the read loop goroutine
					close(st.left)
				})
			})
		}
		opened := make(chan struct{})
		dc.OnOpen(func() { close(opened) })
		b.OnDataChannel(func(d *webrtc.DataChannel) {
			d.OnMessage(func(m webrtc.DataChannelMessage) { _ = d.Send(m.Data) })
		})
		if err = Negotiate(a, b); err != nil {
			return st, "inconclusive negotiate"
		}
		st.offer = *a.LocalDescription()
		st.hasRemote = true
		pr := &Pair{A: a, B: b}
		if !pr.WaitConnected(8 * time.Second) {
			return st, "inconclusive not-connected"
		}
		select {
		case <-opened:
		case <-time.After(5 * time.Second):
			return st, "inconclusive dc-not-open"
		}
		st.stopSend = make(chan struct{})
		st.sendDone = make(chan struct{})
		go func() {
			defer close(st.sendDone)
			msg := bytes.Repeat([]byte{0x55}, 200)
			for {
				select {
				case <-st.stopSend:
					return
				default:
				}
				if dc.Send(msg) != nil {
					return
				}
				time.Sleep(300 * time.Microsecond)
			}
		}()
		st.wantConn = webrtc.PeerConnectionStateConnected
		st.wantPre = []webrtc.PeerConnectionState{webrtc.PeerConnectionStateConnecting, webrtc.PeerConnectionStateConnected}
		if point == "p4" {
			select {
			case <-st.entered: // an echoed message is now being handled: the read loop goroutine is parked
			case <-time.After(10 * time.Second):
				return st, "inconclusive handler-not-entered"
			}
		}
	}
	// the point is reached when the connection state and the handler log are what the point promises
	deadline := time.Now().Add(6 * time.Second)
	for {
		log := st.handlerLog()
		if a.ConnectionState() == st.wantConn && len(log) == len(st.wantPre) {
			same := true
			for i := range log {
				same = same && log[i] == st.wantPre[i]
			}
			if same {
				break
			}
		}
		if time.Now().After(deadline) {
			return st, fmt.Sprintf("inconclusive point-not-reached conn=%d handler=%v", a.ConnectionState(), log)
		}
		time.Sleep(2 * time.Millisecond)
	}

	return st, ""
}

func c21Run(p *c21Prog) string {
	base := pionGoroutines()
	st, bad := c21MakeSetup(p.point)
	defer st.cleanup()
	if bad != "" {
		return bad
	}
	a := st.a
	pre := len(st.handlerLog())

	s := NewSched()
	s.Families = []string{"close.", "ucs.", "dc."}
	s.BlockTimeout = 20 * time.Second
	known := func() bool {
		gid := curGID()
		s.mu.Lock()
		_, ok := s.byGID[gid]
		s.mu.Unlock()

		return ok
	}
	webrtc.VerifSetYield(func(label string) {
		// only the close()/updateConnectionState points, and only for threads of this program: the
		// library's own goroutines (ICE agent notifier, operations worker) run freely
		// (of the data-channel points only the receive on the read loop's channel inside d.GracefulClose)
		if (strings.HasPrefix(label, "close.") || strings.HasPrefix(label, "ucs.") ||
			label == "dc.close.wait" || label == "dc.close.woke") && known() {
			s.Yield(label)
		}
	})
	defer webrtc.VerifSetYield(nil)

	var rmu sync.Mutex
	rets := make([]string, len(p.closers))
	names := []string{}
	for i, k := range p.closers {
		name := fmt.Sprintf("T%d", i)
		names = append(names, name)
		graceful := k == 'G'
		s.Go(name, func() {
			if graceful {
				_ = a.GracefulClose()
			} else {
				_ = a.Close()
			}
			o := "r" + strconv.Itoa(i) + "=" + b2s(a.SignalingState() == webrtc.SignalingStateClosed)
			if graceful { // … and whether a data-channel read loop is still busy in the application's handler
				o += "/" + strconv.Itoa(int(a.ConnectionState())) + "/" + b2s(st.handlerBusy())
			}
			rmu.Lock()
			rets[i] = o
			rmu.Unlock()
		})
	}
	for j, ice := range p.ups {
		name := fmt.Sprintf("U%d", j)
		names = append(names, name)
		s.Go(name, func() { webrtc.VerifICEStateChange(a, webrtc.ICEConnectionState(ice)) })
	}
	if p.point == "p4" {
		names = append(names, "H0")
		s.Go("H0", func() { // the application's handler returns
			st.releaseHandler()
			<-st.left
		})
	}
	finished := map[string]bool{}
	hung := false
	// every store of a new connection state spawns one handler goroutine: wait for it before the next
	// segment so that the handler sequence is the sequence of stores
	lastConn, expectH := a.ConnectionState(), pre
	awaitHandler := func() {
		if cur := a.ConnectionState(); cur != lastConn {
			lastConn = cur
			expectH++
		}
		for dl := time.Now().Add(2 * time.Second); len(st.handlerLog()) < expectH && time.Now().Before(dl); {
			time.Sleep(50 * time.Microsecond)
		}
	}
	step := func(name string) string {
		s.mu.Lock()
		th, ok := s.byName[name]
		var state int
		var label string
		if ok {
			state, label = th.state, th.label
		}
		s.mu.Unlock()
		if !ok || finished[name] || state == thDone {
			return "skip"
		}
		if state == thParked {
			cd, gd := webrtc.VerifCloseChannels(a)
			if (label == "close.cwait" && !cd) || (label == "close.gwait" && !gd) ||
				(label == "dc.close.wait" && st.handlerBusy()) {
				return "blocked" // the receive would block; a blocked segment has no effect
			}
		}
		r := s.Step(name)
		switch r {
		case "fin":
			finished[name] = true
		case "blocked": // no yield reached within BlockTimeout: a real hang
			hung = true
			finished[name] = true
			r = "hung"
		}
		time.Sleep(100 * time.Microsecond)
		awaitHandler()

		return r
	}
	ev := []string{}
	for _, n := range p.sched {
		if hung {
			break
		}
		ev = append(ev, n+":"+step(n))
	}
	ev = append(ev, "/")
	for pass := 0; pass < 40 && !hung; pass++ {
		progressed := false
		for _, n := range names {
			if finished[n] || hung || n == "H0" {
				continue
			}
			r := step(n)
			ev = append(ev, n+":"+r)
			if r != "blocked" && r != "skip" {
				progressed = true
			}
		}
		// the application's handler returns only when nothing else can run any more
		if !progressed && !hung && p.point == "p4" && !finished["H0"] {
			r := step("H0")
			ev = append(ev, "H0:"+r)
			progressed = r != "blocked" && r != "skip"
		}
		if !progressed {
			break
		}
	}
	states := []string{}
	allFin := true
	for _, n := range names {
		if finished[n] && !hung {
			states = append(states, n+":fin")
		} else if finished[n] {
			states = append(states, n+":fin?")
		} else {
			states = append(states, n+":stuck")
			allFin = false
		}
	}
	s.Release()
	if hung || !allFin {
		return fmt.Sprintf("%s | %s | hung", strings.Join(ev, " "), strings.Join(states, " "))
	}
	// handler log: wait until it is stable
	last, stable := -1, time.Now()
	for time.Since(stable) < 20*time.Millisecond {
		if n := len(st.handlerLog()); n != last {
			last, stable = n, time.Now()
		}
		time.Sleep(time.Millisecond)
	}
	hs := []string{}
	for _, h := range st.handlerLog()[pre:] {
		hs = append(hs, strconv.Itoa(int(h)))
	}
	sig := b2s(a.SignalingState() == webrtc.SignalingStateClosed)
	conn := int(a.ConnectionState())
	// every mutating API afterwards
	apis := []string{}
	add := func(n string, err error) { apis = append(apis, n+"="+c21ErrClass(err)) }
	_, err := a.CreateOffer(nil)
	add("createOffer", err)
	_, err = a.CreateAnswer(nil)
	add("createAnswer", err)
	add("setLocal", a.SetLocalDescription(st.offer))
	add("setRemote", a.SetRemoteDescription(st.offer))
	_, err = a.AddTrack(st.track2)
	add("addTrack", err)
	add("removeTrack", a.RemoveTrack(st.sender))
	_, err = a.AddTransceiverFromKind(webrtc.RTPCodecTypeVideo)
	add("addTransceiverFromKind", err)
	_, err = a.AddTransceiverFromTrack(st.track2)
	add("addTransceiverFromTrack", err)
	_, err = a.CreateDataChannel("x", nil)
	add("createDataChannel", err)
	add("setConfiguration", a.SetConfiguration(webrtc.Configuration{}))
	sig2 := b2s(a.SignalingState() == webrtc.SignalingStateClosed)
	conn2 := int(a.ConnectionState())
	opsClosed := b2s(webrtc.VerifOpsClosed(a)) // the graceful tail ran (ops.GracefulClose) iff it was requested
	// goroutine census (runtime observation): only claimed after a GracefulClose returned
	gor := "-"
	if strings.Contains(p.closers, "G") {
		if st.stopSend != nil {
			close(st.stopSend)
			<-st.sendDone
		}
		if st.b != nil {
			_ = st.b.GracefulClose()
			st.b = nil
		}
		left := 0
		deadline := time.Now().Add(3 * time.Second)
		for {
			left = 0
			var sample string
			for id, blk := range pionGoroutines() {
				if _, was := base[id]; !was {
					left++
					sample = blk
				}
			}
			if left == 0 || time.Now().After(deadline) {
				if left != 0 && debugOn() {
					fmt.Println("C21 goroutine left:\n" + sample)
				}

				break
			}
			time.Sleep(5 * time.Millisecond)
		}
		gor = strconv.Itoa(left)
	}
	rmu.Lock()
	defer rmu.Unlock()

	return fmt.Sprintf("%s | %s | ret %s | sig %s conn %d | h %s | api %s | after %s %d | ops %s | gor %s",
		strings.Join(ev, " "), strings.Join(states, " "), strings.Join(rets, " "), sig, conn,
		strings.Join(append([]string{strconv.Itoa(len(hs))}, hs...), " "), strings.Join(apis, " "), sig2, conn2, opsClosed, gor)
}

func debugOn() bool { return os.Getenv("VERIF_DEBUG") != "" }

func init() {
	registry["C21"] = &Prop{
		Procs:   16,
		Timeout: 90e9,
		Rule: "one real PeerConnection per op line, brought to one of five points of setup (p0 fresh with a local track; " +
			"p1 after SetLocalDescription(offer) while gathering; p1r answerer after SetRemoteDescription(offer), ICE checking; p2 both " +
			"descriptions applied, ICE checking against a peer it cannot reach; p3 connected over loopback with an open data " +
			"channel that keeps sending; p4 as p3 with the data channel's OnMessage handler parked inside the application's " +
			"code, i.e. its read loop goroutine busy, until the schedulable thread H0 lets it return), then closed by 1–4 harness threads calling Close or GracefulClose (random mix) while " +
			"0–4 further threads deliver an ICE state change (failed, disconnected, connected, …) through the transport's own " +
			"callback path. The schedule — which thread runs its next segment between two verifYield points (after the first " +
			"critical section of close(), around both channel receives, after the signaling state is set, between computing " +
			"and storing in updateConnectionState, after it, between the two deferred channel closes) — is drawn from the " +
			"seeded PRNG in four styles (drain only; blind random; all callbacks compute first; all closers pass their first " +
			"critical section first), then every thread is drained round-robin (H0 only when nothing else can run). Afterwards every mutating API is called. " +
			"A GracefulClose joins the data-channel read loops (yield points around that receive): it must be blocked " +
			"while the handler is parked and must not have returned while the read loop is busy. " +
			"Observed: the trace of yield labels, what each call saw on return (incl. whether the read loop was still busy), SignalingState, ConnectionState, the handler " +
			"sequence since the closing started, the error class of the ten API calls, the states again, and — after a " +
			"GracefulClose — the number of goroutines with pion frames that did not exist before the run (runtime " +
			"observation, polled for 3 s). The Lean simulator applies only proved core actions and must reproduce the line. " +
			"~3% malformed op lines. Non-trivial: distinct lines other than a single closer without callbacks and schedule.",
		Gen: func(c *Ctx) {
			r := c.Rng
			pick := func(w []int) int {
				t := 0
				for _, x := range w {
					t += x
				}
				k := r.Intn(t)
				for i, x := range w {
					if k < x {
						return i
					}
					k -= x
				}

				return 0
			}
			points := []string{"p0", "p1", "p1r", "p2", "p3", "p4"}
			ices := []int{6, 6, 6, 5, 5, 3, 3, 2, 1, 4, 7, 6, 5, 0, 8}
			bad := []string{
				"run p9 C u=- sched", "run p0 CX u=- sched", "run p0 CCCCC u=- sched T0", "run p0 C u=9 sched",
				"run p0 C u=1,,2 sched", "run p0 C u=- T0", "run p0 C u=- sched W0", "run p0 u=- sched", "close p0 C u=- sched",
				"run p0 C u=1,2,3,4,5 sched", "run p3 G sched T0", "run p0 c u=- sched",
			}
			for n := 0; n < c.N(320, 6000); n++ {
				if r.Intn(33) == 0 {
					c.Emit("%s", bad[r.Intn(len(bad))])

					continue
				}
				point := points[pick([]int{3, 2, 2, 2, 2, 3})]
				nc := 1 + pick([]int{2, 4, 3, 2})
				closers := ""
				for i := 0; i < nc; i++ {
					closers += string("CG"[r.Intn(2)])
				}
				nu := pick([]int{3, 6, 4, 2, 1})
				ups := []string{}
				for j := 0; j < nu; j++ {
					ups = append(ups, strconv.Itoa(ices[r.Intn(len(ices))]))
				}
				u := "-"
				if nu > 0 {
					u = strings.Join(ups, ",")
				}
				names := []string{}
				for i := 0; i < nc; i++ {
					names = append(names, fmt.Sprintf("T%d", i))
				}
				for j := 0; j < nu; j++ {
					names = append(names, fmt.Sprintf("U%d", j))
				}
				if point == "p4" {
					if r.Intn(3) == 0 { // the application's handler returning is a schedulable event; mostly left to the drain
						names = append(names, "H0")
					}
				}
				sched := []string{}
				style := pick([]int{1, 4, 3, 3})
				switch style {
				case 2: // every callback takes its snapshot before anybody closes
					for j := 0; j < nu; j++ {
						sched = append(sched, fmt.Sprintf("U%d", j))
					}
				case 3: // every closer passes its first critical section, in random order
					perm := r.Perm(nc)
					for _, i := range perm {
						sched = append(sched, fmt.Sprintf("T%d", i))
					}
				}
				if style != 0 {
					for k := r.Intn(22); k > 0; k-- {
						sched = append(sched, names[r.Intn(len(names))])
					}
				}
				c.Emit("run %s %s u=%s sched %s", point, closers, u, strings.Join(sched, " "))
			}
		},
		Exec: func(a []string) string {
			p, ok := c21Parse(a)
			if !ok {
				return "bad-op"
			}

			return c21Run(p)
		},
		Class: func(a []string, out string) string {
			if out == "bad-op" {
				return "malformed"
			}
			if strings.HasPrefix(out, "inconclusive") {
				return "inconclusive"
			}
			if len(a) < 4 {
				return "?"
			}
			kind := "mixed"
			if !strings.Contains(a[2], "G") {
				kind = "close-only"
			} else if !strings.Contains(a[2], "C") {
				kind = "graceful-only"
			}
			cl := fmt.Sprintf("%s n=%d %s", a[1], len(a[2]), kind)
			if a[3] != "u=-" {
				cl += " cb"
			}
			if strings.Contains(out, ":blocked") {
				cl += " waits"
			}

			return cl
		},
		Trivial: func(a []string, out string) bool {
			return out == "bad-op" || strings.HasPrefix(out, "inconclusive") ||
				(len(a) == 5 && len(a[2]) == 1 && a[3] == "u=-")
		},
	}
}
