package main

import (
	"bufio"
	"bytes"
	"crypto/ecdsa"
	"crypto/elliptic"
	crand "crypto/rand"
	"fmt"
	"hash/fnv"
	"io"
	"os"
	"os/exec"
	"path/filepath"
	"regexp"
	"runtime/debug"
	"strconv"
	"strings"
	"sync"
	"time"

	"github.com/pion/ice/v4"
	"github.com/pion/webrtc/v4"
)

// C30 — no remote input can crash the process (PARTIAL: helper theorems + search).
//
//	s <sem> <mode> <k> <candHex>{k} {<type> <sdpHex>}+      → survived          (search; see c30RunScript)
//	rp <midID> <ridID> <rsidID> <pktHex>                     → survived          (handleUnknownRTPPacket / checkAndUpdateTrack)
//	p <variant> <semB> <modeB> <n> {r<hex>|c<hex>}*          → survived          (connected pair, raw RTP/RTCP; c30_pair.go)
//	h … (c30_helpers.go)                                     → helper outputs    (differential against the Lean model)
//
// `s` ops run in worker child processes (one per executor goroutine): a panic in a goroutine the
// harness cannot recover kills only the worker; the executor then re-runs the op alone in a fresh
// worker and reports `panic bg <sig>` when it dies again, `child-failed <sig>` when the death cannot be
// attributed to this op line. Workers log every op line to $TMPDIR/wvh-c30/worker-<pid>.log before
// executing it; the log of a worker that died is kept.

const (
	c30ModeTracks   = 1   // local audio+video tracks are added before the first step
	c30ModeData     = 2   // a local data channel is created before the first step
	c30ModeAudioOnl = 4   // media engine: Opus only
	c30ModeVideoOnl = 8   // media engine: VP8 only (4|8: no codecs at all)
	c30ModeReoffer  = 16  // after the steps: CreateOffer + SetLocalDescription again
	c30ModeNoSettle = 32  // Close immediately, without the settle delay
	c30ModeLite     = 64  // local agent is ICE lite
	c30ModeNoAnswer = 128 // accepted remote offers are not answered (the next step meets have-remote-offer)
	c30ModeVideoTrk = 256 // only a local video track is added (single-section offers)
	c30ModeUndeclNA = 512 // SettingEngine.SetHandleUndeclaredSSRCWithoutAnswer(true)
)

var (
	c30Detail  sync.Map // op-hash → detail string of the last execution (for Class)
	c30CertMu  sync.Mutex
	c30CertVal *webrtc.Certificate
)

func c30Cert() webrtc.Certificate {
	c30CertMu.Lock()
	defer c30CertMu.Unlock()
	if c30CertVal == nil {
		sk, err := ecdsa.GenerateKey(elliptic.P256(), crand.Reader)
		if err != nil {
			panic(err)
		}
		c, err := webrtc.GenerateCertificate(sk)
		if err != nil {
			panic(err)
		}
		c30CertVal = c
	}

	return *c30CertVal
}

func c30Hash(s string) string {
	h := fnv.New32a()
	h.Write([]byte(s))

	return fmt.Sprintf("%08x", h.Sum32())
}

func c30NewPC(sem, mode int) (*webrtc.PeerConnection, error) {
	me := &webrtc.MediaEngine{}
	opus := webrtc.RTPCodecParameters{
		RTPCodecCapability: webrtc.RTPCodecCapability{MimeType: webrtc.MimeTypeOpus, ClockRate: 48000, Channels: 2,
			SDPFmtpLine: "minptime=10;useinbandfec=1"},
		PayloadType: 111,
	}
	vp8 := webrtc.RTPCodecParameters{
		RTPCodecCapability: webrtc.RTPCodecCapability{MimeType: webrtc.MimeTypeVP8, ClockRate: 90000,
			RTCPFeedback: []webrtc.RTCPFeedback{{Type: "nack"}, {Type: "nack", Parameter: "pli"}}},
		PayloadType: 96,
	}
	switch mode & (c30ModeAudioOnl | c30ModeVideoOnl) {
	case 0:
		if err := me.RegisterDefaultCodecs(); err != nil {
			return nil, err
		}
	case c30ModeAudioOnl:
		_ = me.RegisterCodec(opus, webrtc.RTPCodecTypeAudio)
	case c30ModeVideoOnl:
		_ = me.RegisterCodec(vp8, webrtc.RTPCodecTypeVideo)
	}
	se := loopbackSettings()
	se.SetICEMulticastDNSMode(ice.MulticastDNSModeDisabled)
	se.SetLite(mode&c30ModeLite != 0)
	se.SetHandleUndeclaredSSRCWithoutAnswer(mode&c30ModeUndeclNA != 0)
	api := webrtc.NewAPI(webrtc.WithMediaEngine(me), webrtc.WithSettingEngine(se))
	sems := []webrtc.SDPSemantics{
		webrtc.SDPSemanticsUnifiedPlan, webrtc.SDPSemanticsPlanB, webrtc.SDPSemanticsUnifiedPlanWithFallback,
	}
	pc, err := api.NewPeerConnection(webrtc.Configuration{
		SDPSemantics: sems[sem%3],
		Certificates: []webrtc.Certificate{c30Cert()},
	})
	if err != nil {
		return nil, err
	}
	if mode&c30ModeTracks != 0 {
		if ta, err := webrtc.NewTrackLocalStaticSample(opus.RTPCodecCapability, "audioL", "streamL"); err == nil {
			_, _ = pc.AddTrack(ta)
		}
		if tv, err := webrtc.NewTrackLocalStaticSample(vp8.RTPCodecCapability, "videoL", "streamL"); err == nil {
			_, _ = pc.AddTrack(tv)
		}
	}
	if mode&c30ModeVideoTrk != 0 {
		if tv, err := webrtc.NewTrackLocalStaticSample(vp8.RTPCodecCapability, "videoL", "streamL"); err == nil {
			_, _ = pc.AddTrack(tv)
		}
	}
	if mode&c30ModeData != 0 {
		_, _ = pc.CreateDataChannel("d", nil)
	}

	return pc, nil
}

func c30ec(err error) string {
	if err == nil {
		return "ok"
	}

	return "err"
}

// c30RunScript executes one `s` op line against a fresh PeerConnection. Everything runs on the calling
// goroutine except the library's own background work, which is awaited (operations queue) after Close.
func c30RunScript(a []string) (out string) {
	detail := []string{}
	defer func() {
		if r := recover(); r != nil {
			if os.Getenv("VERIF_DEBUG") != "" {
				fmt.Fprintf(os.Stderr, "panic: %v\n%s\n", r, debug.Stack())
			}
			out = "panic " + c30Hash(fmt.Sprint(r)) + " " + strings.Join(detail, ",")
		}
	}()
	if len(a) < 4 {
		return "bad-op"
	}
	sem, err1 := strconv.Atoi(a[1])
	mode, err2 := strconv.Atoi(a[2])
	k, err3 := strconv.Atoi(a[3])
	if err1 != nil || err2 != nil || err3 != nil || len(a) < 4+k || (len(a)-4-k)%2 != 0 {
		return "bad-op"
	}
	cands := a[4 : 4+k]
	steps := a[4+k:]
	pc, err := c30NewPC(sem, mode)
	if err != nil {
		return "bad-op newpc"
	}
	closed := false
	defer func() {
		if !closed {
			_ = pc.Close()
		}
	}()
	for i := 0; i+1 < len(steps); i += 2 {
		typ := webrtc.NewSDPType(steps[i])
		text := string(unhx(steps[i+1]))
		if (typ == webrtc.SDPTypeAnswer || typ == webrtc.SDPTypePranswer) &&
			pc.SignalingState() == webrtc.SignalingStateStable {
			offer, err := pc.CreateOffer(nil)
			if err == nil {
				err = pc.SetLocalDescription(offer)
			}
			detail = append(detail, "lo="+c30ec(err))
		}
		err := pc.SetRemoteDescription(webrtc.SessionDescription{Type: typ, SDP: text})
		detail = append(detail, "srd="+c30ec(err))
		if err == nil && typ == webrtc.SDPTypeOffer && mode&c30ModeNoAnswer == 0 {
			ans, err := pc.CreateAnswer(nil)
			detail = append(detail, "ca="+c30ec(err))
			if err == nil {
				err = pc.SetLocalDescription(ans)
				detail = append(detail, "sld="+c30ec(err))
			}
		}
		nok := 0
		for _, c := range cands {
			if pc.AddICECandidate(webrtc.ICECandidateInit{Candidate: string(unhx(c))}) == nil {
				nok++
			}
		}
		if len(cands) > 0 {
			detail = append(detail, fmt.Sprintf("cand=%d/%d", nok, len(cands)))
		}
	}
	if mode&c30ModeReoffer != 0 {
		offer, err := pc.CreateOffer(nil)
		if err == nil {
			err = pc.SetLocalDescription(offer)
		}
		detail = append(detail, "ro="+c30ec(err))
	}
	_ = pc.GetStats()
	if mode&c30ModeNoSettle == 0 {
		time.Sleep(2 * time.Millisecond)
	}
	closed = true
	_ = pc.Close()
	done := make(chan struct{})
	go func() {
		webrtc.VerifOpsDone(pc)
		close(done)
	}()
	select {
	case <-done:
	case <-time.After(15 * time.Second):
		return "hang ops-queue " + strings.Join(detail, ",")
	}
	time.Sleep(time.Millisecond)

	return "survived " + strings.Join(detail, ",")
}

// ---------------------------------------------------------------------------------------------
// worker processes

type c30Worker struct {
	cmd    *exec.Cmd
	in     io.WriteCloser
	out    *bufio.Reader
	errBuf *bytes.Buffer
	errMu  sync.Mutex
	lines  chan string
}

var c30Pool = make(chan *c30Worker, 256)

func c30LogDir() string {
	d := filepath.Join(os.TempDir(), "wvh-c30")
	_ = os.MkdirAll(d, 0o755)

	return d
}

func c30Spawn() *c30Worker {
	self, _ := os.Executable()
	cmd := exec.Command(self, "C30-worker")
	cmd.Env = append(os.Environ(), "WVH_C30_WORKER=1", "GOTRACEBACK=all", "GOMAXPROCS=2")
	w := &c30Worker{cmd: cmd, errBuf: &bytes.Buffer{}, lines: make(chan string, 4)}
	w.in, _ = cmd.StdinPipe()
	so, _ := cmd.StdoutPipe()
	se, _ := cmd.StderrPipe()
	if err := cmd.Start(); err != nil {
		return nil
	}
	go func() {
		buf := make([]byte, 8192)
		for {
			n, err := se.Read(buf)
			w.errMu.Lock()
			if w.errBuf.Len() < 1<<16 {
				w.errBuf.Write(buf[:n])
			}
			w.errMu.Unlock()
			if err != nil {
				return
			}
		}
	}()
	go func() {
		sc := bufio.NewScanner(so)
		sc.Buffer(make([]byte, 1<<16), 1<<26)
		for sc.Scan() {
			w.lines <- sc.Text()
		}
		close(w.lines)
	}()

	return w
}

// run sends one op line; alive == false when the worker died (or had to be killed) before answering.
func (w *c30Worker) run(line string, to time.Duration) (res string, alive bool) {
	if _, err := io.WriteString(w.in, line+"\n"); err != nil {
		_ = w.cmd.Process.Kill()
		_ = w.cmd.Wait()

		return "", false
	}
	select {
	case l, ok := <-w.lines:
		if !ok {
			_ = w.cmd.Wait()

			return "", false
		}

		return l, true
	case <-time.After(to):
		_ = w.cmd.Process.Kill()
		_ = w.cmd.Wait()

		return "timeout", false
	}
}

func (w *c30Worker) stop() {
	_ = w.in.Close()
	_ = w.cmd.Wait()
}

var c30FrameRe = regexp.MustCompile(`(?m)^(github\.com/pion/[^\s(]+)\(`)

// signature: hash of the panic message and the first pion frame of the crashing goroutine.
func (w *c30Worker) signature() string {
	time.Sleep(20 * time.Millisecond)
	w.errMu.Lock()
	txt := w.errBuf.String()
	w.errMu.Unlock()
	msg := ""
	if i := strings.Index(txt, "panic: "); i >= 0 {
		msg = txt[i:]
		if j := strings.Index(msg, "\n"); j >= 0 {
			msg = msg[:j]
		}
		rest := txt[i:]
		if m := c30FrameRe.FindStringSubmatch(rest); m != nil {
			msg += " @ " + m[1]
		}
	} else if i := strings.Index(txt, "fatal error: "); i >= 0 {
		msg = txt[i:]
		if j := strings.Index(msg, "\n"); j >= 0 {
			msg = msg[:j]
		}
	}
	if os.Getenv("VERIF_DEBUG") != "" {
		fmt.Fprintf(os.Stderr, "---- worker died ----\n%s\n", txt)
	}
	if msg != "" {
		f, _ := os.OpenFile(filepath.Join(c30LogDir(), "crashes.log"), os.O_CREATE|os.O_APPEND|os.O_WRONLY, 0o644)
		if f != nil {
			fmt.Fprintf(f, "%s\n", msg)
			f.Close()
		}
	}

	return c30Hash(msg)
}

func c30ExecScript(a []string) string {
	line := strings.Join(a, " ")
	key := c30Hash(line)
	finish := func(res string) string {
		f := strings.SplitN(res, " ", 2)
		switch f[0] {
		case "survived":
			if len(f) > 1 {
				c30Detail.Store(key, f[1])
			}

			return "survived"
		case "panic":
			g := strings.Fields(res)
			if len(g) > 2 {
				c30Detail.Store(key, g[2])
			}

			return strings.Join(g[:2], " ")
		}

		return res
	}
	if os.Getenv("WVH_C30_INPROC") != "" {
		if a[0] == "p" {
			return finish(c30RunPair(a))
		}

		return finish(c30RunScript(a))
	}
	var w *c30Worker
	select {
	case w = <-c30Pool:
	default:
		w = c30Spawn()
	}
	if w == nil {
		return "bad-op no-worker"
	}
	res, alive := w.run(line, 40*time.Second)
	if alive && res != "timeout" {
		c30Pool <- w

		return finish(res)
	}
	if res == "timeout" {
		// machine load can starve a worker: a hang only counts when the line, run alone in a fresh worker
		// with a generous limit, does not finish either
		if alive {
			w.stop()
		}
		w3 := c30Spawn()
		if w3 == nil {
			return "timeout"
		}
		res3, alive3 := w3.run(line, 100*time.Second)
		if alive3 && res3 != "timeout" {
			c30Pool <- w3

			return finish(res3)
		}
		if alive3 {
			w3.stop()
		}
		if res3 == "timeout" {
			return "timeout"
		}

		return "panic bg " + w3.signature()
	}
	sig := w.signature()
	// attribute: run the line alone in a fresh worker
	w2 := c30Spawn()
	if w2 == nil {
		return "child-failed " + sig
	}
	res2, alive2 := w2.run(line, 40*time.Second)
	if alive2 {
		// give late background work of this op a moment to show itself
		time.Sleep(30 * time.Millisecond)
		_, alive3 := w2.run("ping", 5*time.Second)
		if alive3 {
			w2.stop()
			_ = res2

			return "child-failed " + sig
		}
	}
	if res2 == "timeout" {
		return "timeout"
	}

	return "panic bg " + w2.signature()
}

// c30WorkerMain: read op lines on stdin, execute each, answer one line on stdout.
func c30WorkerMain() {
	logPath := filepath.Join(c30LogDir(), fmt.Sprintf("worker-%d.log", os.Getpid()))
	lf, _ := os.Create(logPath)
	in := bufio.NewReaderSize(os.Stdin, 1<<20)
	out := bufio.NewWriter(os.Stdout)
	for {
		line, err := in.ReadString('\n')
		line = strings.TrimSpace(line)
		if line != "" {
			if lf != nil {
				fmt.Fprintf(lf, "C30 %s\n", line)
				_ = lf.Sync()
			}
			res := "pong"
			if line != "ping" {
				ch := make(chan string, 1)
				t0 := time.Now()
				go func() {
					f := strings.Fields(line)
					if line == "bases" {
						ch <- c30EncodeBases(c30PionBases())

						return
					}
					if len(f) > 0 && f[0] == "p" {
						ch <- c30RunPair(f)
					} else {
						ch <- c30RunScript(f)
					}
				}()

				select {
				case res = <-ch:
				case <-time.After(95 * time.Second):
					res = "timeout"
				}
				if tl := os.Getenv("WVH_C30_TIMES"); tl != "" {
					if f, err := os.OpenFile(tl, os.O_CREATE|os.O_APPEND|os.O_WRONLY, 0o644); err == nil {
						fmt.Fprintf(f, "%d %s %s\n", time.Since(t0).Milliseconds(), c30Hash(line), res)
						f.Close()
					}
				}
			}
			fmt.Fprintln(out, res)
			_ = out.Flush()
		}
		if err != nil {
			break
		}
	}
	if lf != nil {
		lf.Close()
		_ = os.Remove(logPath)
	}
}

// ---------------------------------------------------------------------------------------------
// RTP packets against the packet-inspecting helpers (in-process; these run on the caller's goroutine)

var (
	c30APIOnce sync.Once
	c30APIVal  *webrtc.API
)

func c30ExecRTP(a []string) string {
	if len(a) != 5 {
		return "bad-op"
	}
	ids := [3]uint8{}
	for i := 0; i < 3; i++ {
		v, err := strconv.Atoi(a[1+i])
		if err != nil {
			return "bad-op"
		}
		ids[i] = uint8(v) //nolint:gosec
	}
	pkt := unhx(a[4])
	c30APIOnce.Do(func() { c30APIVal = webrtc.NewAPI() })
	_, _, _, _, _ = webrtc.VerifHandleUnknownRTPPacket(pkt, ids[0], ids[1], ids[2])
	_, _, _ = webrtc.VerifCheckAndUpdateTrack(c30APIVal, webrtc.RTPCodecTypeVideo, pkt)
	_, _, _ = webrtc.VerifCheckAndUpdateTrack(c30APIVal, webrtc.RTPCodecTypeAudio, pkt)

	return "survived"
}

func init() {
	if os.Getenv("WVH_C30_WORKER") != "" && len(os.Args) > 1 && os.Args[1] == "C30-worker" {
		c30WorkerMain()
		os.Exit(0)
	}
	registry["C30"] = &Prop{
		Workers: 32,
		Timeout: 400 * time.Second,
		Rule: "PARTIAL property. (1) h ops: differential — the Lean model of the index-carrying helpers " +
			"(trackDetailsFromSDP, trackDetailsToRTPReceiveParameters, getRids, extractBundleID, extractFingerprint, " +
			"getPeerDirection, selectCandidateMediaSection, extractICEDetails, descriptionIsPlanB/PossiblyPlanB, " +
			"codecsFromMediaDescription, findMediaSectionByPayloadType, the Plan-B path of startRTPReceivers on an open or " +
			"closed connection, handleUndeclaredSSRC, checkAndUpdateTrack, ICECandidate.exportExtensions, RTPReceiver.Read " +
			"over every bound/unbound pattern of up to 4 tracks) vs the real helpers through verif hooks, on parsed " +
			"descriptions produced by the mutator (pion/sdp's parse of the mutated text, or a loose line parse that also " +
			"yields structures pion/sdp would refuse). (2) s ops: SEARCH — grammar-aware mutations (drop / duplicate / " +
			"truncate / swap lines, numbers → 0,-1,2^32,huge,empty, empty tokens, token duplication, weird lines inserted at " +
			"media or session level or replacing a line of the same attribute, attributes copied between session and media " +
			"level, duplicate / missing / Plan-B mids, unknown media types, format lists, multi-ssrc Plan-B sections, " +
			"rid/simulcast lines, stripped ssrc lines, duplicated / dropped sections, byte noise; 1–4 per case, " +
			"occasionally 8–27) of pion offers/answers generated by real PeerConnections under the three semantics " +
			"(audio+video+data, RTX) and of Chrome (unified, simulcast, Plan B) / Firefox style descriptions, fed to a " +
			"fresh PeerConnection under each SDPSemantics and 13 local configurations (tracks, data channel, audio-only / " +
			"video-only / empty media engine, ICE lite, re-offer, no settle delay, unanswered offers followed by " +
			"rollback / offer / answer / pranswer): SetRemoteDescription (after a local offer for answers), CreateAnswer + " +
			"SetLocalDescription when accepted, AddICECandidate with mutated candidate strings, GetStats, Close, then the " +
			"operations queue is awaited so that startTransports / startRTP / startRTPReceivers / startSCTP run inside " +
			"the observed window; executed in worker child processes so that a panic in a background goroutine is " +
			"observed (the line is then re-run alone to attribute it). (3) rp ops: mutated RTP packets into " +
			"handleUnknownRTPPacket and TrackRemote.checkAndUpdateTrack; p ops: a connected loopback pair whose answerer " +
			"sees the offer with its a=ssrc lines renumbered / stripped / replaced by rid lines, then raw RTP and RTCP " +
			"packets (declared and unknown SSRCs, unknown payload types, mid/rid/rsid extensions, padding, short RTX " +
			"payloads) written on the offerer's SRTP/SRTCP sessions while the answerer reads every track and receiver it " +
			"is handed (handleIncomingSSRC, handleUndeclaredSSRC, simulcast probing, RTX repair reader in background " +
			"goroutines); variants 4–9 are the two-stage undeclared-SSRC scenario: a single-section offer without " +
			"a=ssrc / a=rid whose a=msid has 2 / 1 / 0 / 3 tokens, a trailing space or is absent, then RTP on the " +
			"undeclared SSRC; every variant may carry extra weird msid / ssrc / rid / simulcast / extmap / rtcp-fb lines " +
			"inserted into the audio or video section. h uin ops run handleIncomingSSRC itself (declared-SSRC test, " +
			"single-section shortcut, payload-type lookup, mid-extension fallback through findMediaSectionByPayloadType, " +
			"handleUndeclaredSSRC) on parsed mutated descriptions with a packet delivered through a real SRTP session " +
			"pair, differentially against the model. Non-trivial: s ops whose description was accepted by SetRemoteDescription, all h / rp / p ops.",
		Gen:     c30Gen,
		Exec:    c30Exec,
		Class:   c30Class,
		Trivial: c30Trivial,
	}
}

func c30Exec(a []string) string {
	if len(a) == 0 {
		return "bad-op"
	}
	switch a[0] {
	case "s", "p":
		return c30ExecScript(a)
	case "rp":
		return c30ExecRTP(a)
	case "h":
		return c30ExecHelper(a)
	}

	return "bad-op"
}

func c30Class(a []string, out string) string {
	if len(a) == 0 {
		return ""
	}
	switch a[0] {
	case "s":
		d, _ := c30Detail.Load(c30Hash(strings.Join(a, " ")))
		ds, _ := d.(string)
		first := "srd=?"
		for _, f := range strings.Split(ds, ",") {
			if strings.HasPrefix(f, "srd=") {
				first = f

				break
			}
		}
		typ := "?"
		if k, err := strconv.Atoi(a[3]); err == nil && len(a) > 4+k {
			typ = a[4+k]
		}
		o := strings.Fields(out)
		res := "?"
		if len(o) > 0 {
			res = o[0]
		}

		return fmt.Sprintf("s sem=%s %s %s → %s", a[1], typ, first, res)
	case "rp":
		return "rp → " + out
	case "p":
		if len(a) > 2 {
			return "p variant=" + a[1] + " sem=" + a[2] + " → " + strings.Fields(out + " ?")[0]
		}
	case "h":
		if len(a) > 1 {
			o := strings.Fields(out)
			if len(o) > 0 && o[0] == "panic" {
				return "h " + a[1] + " → panic"
			}

			return "h " + a[1]
		}
	}

	return ""
}

func c30Trivial(a []string, out string) bool {
	if len(a) == 0 {
		return true
	}
	if a[0] == "s" {
		d, _ := c30Detail.Load(c30Hash(strings.Join(a, " ")))
		ds, _ := d.(string)

		return !strings.Contains(ds, "srd=ok")
	}

	return false
}

func c30EncodeBases(bs []c30Base) string {
	out := []string{"bases", strconv.Itoa(len(bs))}
	for _, b := range bs {
		out = append(out, hx([]byte(b.name)), b.typ, strconv.Itoa(b.mode), hx([]byte(b.sdp)))
	}

	return strings.Join(out, " ")
}

// c30PionBasesInWorker generates the pion offers/answers in a worker child process: real PeerConnections are
// negotiated and closed for them, and a tree that panics in a background goroutine on its own valid
// descriptions must not take the generator down (the s ops then exhibit the failing input).
func c30PionBasesInWorker() []c30Base {
	if os.Getenv("WVH_C30_INPROC") != "" {
		return c30PionBases()
	}
	w := c30Spawn()
	if w == nil {
		return nil
	}
	res, alive := w.run("bases", 90*time.Second)
	if !alive {
		fmt.Fprintf(os.Stderr, "C30: the worker generating pion descriptions died (%s); continuing with the fixed bases\n", w.signature())

		return nil
	}
	w.stop()
	f := strings.Fields(res)
	if len(f) < 2 || f[0] != "bases" {
		return nil
	}
	n, err := strconv.Atoi(f[1])
	if err != nil || len(f) != 2+4*n {
		return nil
	}
	out := []c30Base{}
	for i := 0; i < n; i++ {
		mode, _ := strconv.Atoi(f[2+4*i+2])
		out = append(out, c30Base{string(unhx(f[2+4*i])), f[2+4*i+1], mode, string(unhx(f[2+4*i+3]))})
	}

	return out
}
