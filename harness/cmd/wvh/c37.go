package main

import (
	"bytes"
	"encoding/binary"
	"errors"
	"fmt"
	"io"
	"math/rand"
	"net"
	"strings"
	"sync/atomic"
	"time"

	"github.com/pion/rtp"
	"github.com/pion/webrtc/v4/pkg/media/h264reader"
	"github.com/pion/webrtc/v4/pkg/media/h265reader"
	"github.com/pion/webrtc/v4/pkg/media/ivfreader"
	"github.com/pion/webrtc/v4/pkg/media/oggreader"
	"github.com/pion/webrtc/v4/pkg/media/oggwriter"
	"github.com/pion/webrtc/v4/pkg/media/rtpdump"
)

// C37 — container readers on arbitrary bytes: every reader is driven through its public API in a
// read-until-error loop under recover, with a per-call watchdog and a cap on the number of calls.
// Line protocol: see lean/WebrtcVerif/Drv/C37.lean.

const (
	c37Watchdog = 2 * time.Second
	c37MaxAlloc = 1 << 22
)

// c37Count counts the bytes a reader takes from its stream.
type c37Count struct {
	r io.Reader
	n int
}

func (c *c37Count) Read(p []byte) (int, error) {
	n, err := c.r.Read(p)
	c.n += n

	return n, err
}

// c37Run is the channel a reader loop reports through, one token per call, so that the watchdog is per call.
type c37Run struct {
	ch      chan string
	n       int // successful calls so far
	oneShot bool
}

func (x *c37Run) emit(format string, a ...any) { x.ch <- fmt.Sprintf(format, a...) }

func (x *c37Run) end(tok string) {
	x.ch <- tok
	x.ch <- fmt.Sprintf("n=%d", x.n)
}

// c37Hung is set by the first watchdog expiry. A hung call cannot be killed: its goroutine keeps a CPU busy, and
// once there are more of them than CPUs every later op would time out as a victim. So after the first hang the
// remaining ops of this process are not executed (`inconclusive`: neither compared nor judged); the hang itself
// is the violation, and its op line replays alone.
var c37Hung atomic.Bool

// c37Drive runs body in its own goroutine under recover; a call that reports nothing for c37Watchdog is a hang
// (the goroutine is abandoned).
func c37Drive(oneShot bool, body func(x *c37Run)) string {
	x := &c37Run{ch: make(chan string, 256), oneShot: oneShot}
	go func() {
		defer close(x.ch)
		defer func() {
			if r := recover(); r != nil {
				if x.oneShot {
					x.ch <- "panic"
				} else {
					x.end("panic")
				}
			}
		}()
		body(x)
	}()
	toks := []string{}
	timer := time.NewTimer(c37Watchdog)
	defer timer.Stop()
	for {
		select {
		case t, ok := <-x.ch:
			if !ok {
				return strings.Join(toks, " ")
			}
			toks = append(toks, t)
			if !timer.Stop() {
				select {
				case <-timer.C:
				default:
				}
			}
			timer.Reset(c37Watchdog)
		case <-timer.C:
			// before calling it a hang make sure this process is being scheduled at all (a fresh goroutine gets to
			// run), then give the call one more period
			probe := make(chan struct{})
			go close(probe)
			<-probe
			select {
			case t, ok := <-x.ch:
				if !ok {
					return strings.Join(toks, " ")
				}
				toks = append(toks, t)
				timer.Reset(c37Watchdog)

				continue
			case <-time.After(c37Watchdog):
			}
			c37Hung.Store(true)
			toks = append(toks, "hang")

			return strings.Join(toks, " ")
		}
	}
}

// ---- the readers -------------------------------------------------------------------------------

// c37IvfTooBig: an accepted file header followed by a frame chain that reaches a FrameSize above 4 MiB
// (ParseNextFrame allocates FrameSize bytes before it reads; allocation size is outside the model).
func c37IvfTooBig(f []byte) bool {
	if len(f) < 32 || string(f[:4]) != "DKIF" || f[4] != 0 || f[5] != 0 {
		return false
	}
	if binary.LittleEndian.Uint32(f[16:]) == 0 || binary.LittleEndian.Uint32(f[20:]) == 0 {
		return false
	}
	pos := 32
	for pos+12 <= len(f) {
		size := int(binary.LittleEndian.Uint32(f[pos:]))
		if size > c37MaxAlloc {
			return true
		}
		if size > len(f)-pos-12 {
			return false
		}
		pos += 12 + size
	}

	return false
}

// c37IvfSem: at most two IVF inputs are in flight. The FrameSize pre-check above follows the frame chain as the
// unchanged reader does; a changed reader may follow another chain and allocate up to 4 GiB per call.
var c37IvfSem = make(chan struct{}, 2)

func c37Ivf(file []byte) string {
	if c37IvfTooBig(file) {
		return "skipped-alloc"
	}
	c37IvfSem <- struct{}{}
	defer func() { <-c37IvfSem }()

	return c37Drive(false, func(x *c37Run) {
		cr := &c37Count{r: bytes.NewReader(file)}
		rd, _, err := ivfreader.NewWith(cr)
		if err != nil {
			x.end("new:" + c32ErrKind(err))

			return
		}
		x.emit("new:ok@%d", cr.n)
		for i := 0; i < len(file)+8; i++ {
			pl, _, err := rd.ParseNextFrame()
			if err != nil {
				x.end("end:" + c32ErrKind(err))

				return
			}
			x.n++
			x.emit("ok@%d:%d", cr.n, len(pl))
		}
		x.end("cap")
	})
}

func c37PageErr(err error) string {
	switch {
	case errors.Is(err, io.EOF):
		return "eof"
	case errors.Is(err, io.ErrUnexpectedEOF):
		return "unexpected"
	case strings.Contains(err.Error(), "checksum"):
		return "checksum"
	}

	return "other:" + strings.ReplaceAll(err.Error(), " ", "_")
}

func c37OggPages(x *c37Run, r *oggreader.OggReader, cr *c37Count, limit int) {
	for i := 0; i < limit; i++ {
		pl, _, err := r.ParseNextPage()
		if err != nil {
			x.end("end:" + c37PageErr(err))

			return
		}
		x.n++
		x.emit("ok@%d:%d", cr.n, len(pl))
	}
	x.end("cap")
}

func c37Ogg(ck bool, file []byte) string {
	return c37Drive(false, func(x *c37Run) {
		cr := &c37Count{r: bytes.NewReader(file)}
		r, err := oggreader.NewWithOptions(cr, oggreader.WithDoChecksum(ck))
		if err != nil {
			x.end("new:other")

			return
		}
		x.emit("new:ok@%d", cr.n)
		c37OggPages(x, r, cr, len(file)+8)
	})
}

func c37HeadErr(err error) string {
	s := err.Error()
	switch {
	case errors.Is(err, io.EOF):
		return "read-eof"
	case errors.Is(err, io.ErrUnexpectedEOF):
		return "read-unexpected"
	case strings.Contains(s, "checksum"):
		return "read-checksum"
	case strings.Contains(s, "payload for id page must be"):
		return "badlen"
	case strings.Contains(s, "unsupported channel mapping family"):
		return "family"
	case strings.Contains(s, "bad header signature"):
		return "badsig"
	case strings.Contains(s, "wrong header, expected beginning of stream"):
		return "badtype"
	case strings.Contains(s, "bad payload signature"):
		return "badpayloadsig"
	}

	return "other:" + strings.ReplaceAll(s, " ", "_")
}

func c37OggNew(file []byte) string {
	return c37Drive(false, func(x *c37Run) {
		cr := &c37Count{r: bytes.NewReader(file)}
		r, _, err := oggreader.NewWith(cr)
		if err != nil {
			x.end("new:" + c37HeadErr(err))

			return
		}
		x.emit("new:ok@%d", cr.n)
		c37OggPages(x, r, cr, len(file)+8)
	})
}

func c37Head(p []byte) string {
	return c37Drive(true, func(x *c37Run) {
		if _, err := oggreader.ParseOpusHead(p); err != nil {
			x.emit("one:%s", c37HeadErr(err))

			return
		}
		x.emit("one:ok")
	})
}

func c37Tags(p []byte) string {
	return c37Drive(true, func(x *c37Run) {
		if _, err := oggreader.ParseOpusTags(p); err != nil {
			if strings.Contains(err.Error(), "bad opus tags signature") {
				x.emit("one:badsig")
			} else {
				x.emit("one:other")
			}

			return
		}
		x.emit("one:ok")
	})
}

func c37Annex(codec string, sei bool, sched string, file []byte) string {
	rep, items, ok := c34ParseSched(sched)
	if !ok {
		return "bad-op"
	}

	return c37Drive(false, func(x *c37Run) {
		evs := c34MkEvents(rep, items, file)
		script := &c34Script{evs: evs}
		total := len(evs)
		var next func() (int, error)
		if codec == "h264" {
			r, err := h264reader.NewReaderWithOptions(script, h264reader.WithIncludeSEI(sei))
			if err != nil {
				x.end("new:other")

				return
			}
			next = func() (int, error) {
				nal, err := r.NextNAL()
				if err != nil {
					return 0, err
				}

				return len(nal.Data), nil
			}
		} else {
			r, err := h265reader.NewReaderWithOptions(script, h265reader.WithIncludeSEI(sei))
			if err != nil {
				x.end("new:other")

				return
			}
			next = func() (int, error) {
				nal, err := r.NextNAL()
				if err != nil {
					return 0, err
				}

				return len(nal.Data), nil
			}
		}
		x.emit("new:ok")
		for i := 0; i < len(file)+8; i++ {
			l, err := next()
			if err != nil {
				switch {
				case errors.Is(err, io.EOF):
					x.end("end:eof")
				case strings.HasPrefix(err.Error(), "data is not a H26"):
					x.end("end:notstream")
				default:
					x.end("end:other")
				}

				return
			}
			x.n++
			x.emit("ok@%d:%d", total-len(script.evs), l)
		}
		x.end("cap")
	})
}

func c37RtpErr(err error) string {
	switch {
	case errors.Is(err, io.EOF):
		return "eof"
	case err.Error() == "malformed rtpdump":
		return "malformed"
	}

	return "other:" + strings.ReplaceAll(err.Error(), " ", "_")
}

func c37Rtpdump(file []byte) string {
	return c37Drive(false, func(x *c37Run) {
		r, _, err := rtpdump.NewReader(bytes.NewReader(file))
		if err != nil {
			x.end("new:" + c37RtpErr(err))

			return
		}
		x.emit("new:ok")
		cum := 0
		for i := 0; i < len(file)+8; i++ {
			p, err := r.Next()
			if err != nil {
				x.end("end:" + c37RtpErr(err))

				return
			}
			x.n++
			cum += 8 + len(p.Payload)
			x.emit("ok@%d:%d", cum, len(p.Payload))
		}
		x.end("cap")
	})
}

func c37Exec(a []string) string {
	if len(a) < 3 {
		return "bad-op"
	}
	if c37Hung.Load() {
		return "inconclusive not-executed:a-call-hung-earlier-in-this-run"
	}
	switch a[0] {
	case "ivf", "oggnew", "head", "tags", "rtpdump":
		if len(a) != 3 {
			return "bad-op"
		}
		f := c32Unhex(a[2])
		switch a[0] {
		case "ivf":
			return c37Ivf(f)
		case "oggnew":
			return c37OggNew(f)
		case "head":
			return c37Head(f)
		case "tags":
			return c37Tags(f)
		}

		return c37Rtpdump(f)
	case "ogg":
		if len(a) != 4 || (a[2] != "0" && a[2] != "1") {
			return "bad-op"
		}

		return c37Ogg(a[2] == "1", c32Unhex(a[3]))
	case "h264", "h265":
		if len(a) != 5 || (a[2] != "0" && a[2] != "1") {
			return "bad-op"
		}

		return c37Annex(a[0], a[2] == "1", a[3], c32Unhex(a[4]))
	}

	return "bad-op"
}

// ---- valid files -------------------------------------------------------------------------------

// c37Field is a length / count / size field of a file: offset, width in bytes, big endian?
type c37Field struct {
	off, w int
	be     bool
}

func c37Put(f []byte, fd c37Field, v uint64) {
	for i := 0; i < fd.w; i++ {
		sh := uint(8 * i)
		if fd.be {
			sh = uint(8 * (fd.w - 1 - i))
		}
		f[fd.off+i] = byte(v >> sh)
	}
}

func c37Bytes(r *rand.Rand, n int) []byte {
	b := make([]byte, n)
	r.Read(b)

	return b
}

// c37IvfFile: header + n small frames, with the positions of its numeric fields.
func c37IvfFile(r *rand.Rand, n int) ([]byte, []c37Field) {
	f := []byte("DKIF\x00\x00\x20\x00")
	f = append(f, []string{"VP80", "VP90", "AV01"}[r.Intn(3)]...)
	f = binary.LittleEndian.AppendUint16(f, uint16(r.Intn(65536))) //nolint:gosec
	f = binary.LittleEndian.AppendUint16(f, uint16(r.Intn(65536))) //nolint:gosec
	f = binary.LittleEndian.AppendUint32(f, uint32(1+r.Intn(100))) //nolint:gosec
	f = binary.LittleEndian.AppendUint32(f, uint32(1+r.Intn(100))) //nolint:gosec
	f = binary.LittleEndian.AppendUint32(f, uint32(n))             //nolint:gosec
	f = binary.LittleEndian.AppendUint32(f, 0)
	fields := []c37Field{{4, 2, false}, {6, 2, false}, {16, 4, false}, {20, 4, false}, {24, 4, false}}
	for k := 0; k < n; k++ {
		pl := c37Bytes(r, []int{0, 1, 2, 11, 12, 13, r.Intn(40)}[r.Intn(7)])
		fields = append(fields, c37Field{len(f), 4, false}, c37Field{len(f) + 4, 4, false}, c37Field{len(f) + 8, 4, false})
		f = binary.LittleEndian.AppendUint32(f, uint32(len(pl))) //nolint:gosec
		f = binary.LittleEndian.AppendUint64(f, uint64(r.Intn(1<<20)))
		f = append(f, pl...)
	}

	return f, fields
}

// c37OggFile writes a small file with the real multi-track writer (valid checksums).
func c37OggFile(r *rand.Rand, npkts int) []byte {
	buf := &bytes.Buffer{}
	w, err := oggwriter.NewWriter(buf, oggwriter.WithVendor("pion"[:r.Intn(5)]))
	if err != nil {
		return nil
	}
	nt := 1 + r.Intn(2)
	trs := []*oggwriter.Track{}
	for k := 0; k < nt; k++ {
		opts := []oggwriter.TrackOption{oggwriter.WithSerial(uint32(100 + k))} //nolint:gosec
		if r.Intn(3) == 0 {
			opts = append(opts, oggwriter.WithChannelMapping(1, 2, 1, []byte{0, 1, 2}))
		} else {
			opts = append(opts, oggwriter.WithChannelCount(uint16(1+r.Intn(2)))) //nolint:gosec
		}
		if r.Intn(2) == 0 {
			opts = append(opts, oggwriter.WithUserComments(oggwriter.UserComment{Comment: "a", Value: "b"}))
		}
		t, err := w.NewTrack(uint32(k), opts...) //nolint:gosec
		if err != nil {
			return nil
		}
		trs = append(trs, t)
	}
	for k := 0; k < npkts; k++ {
		i := r.Intn(nt)
		p := c37Bytes(r, 1+r.Intn(24))
		if r.Intn(12) == 0 {
			p = c37Bytes(r, 250+r.Intn(20)) // lacing around 255
		}
		p[0] = byte(r.Intn(64)) << 2
		_ = trs[i].WriteRTP(&rtp.Packet{Header: rtp.Header{SSRC: uint32(i)}, Payload: p}) //nolint:gosec
	}
	_ = w.Close()

	return buf.Bytes()
}

// c37OggFields walks the pages of a well-formed file: header type, segment count and every lacing value.
func c37OggFields(f []byte) []c37Field {
	out := []c37Field{}
	pos := 0
	for pos+27 <= len(f) {
		nseg := int(f[pos+26])
		if pos+27+nseg > len(f) {
			break
		}
		out = append(out, c37Field{pos + 4, 1, false}, c37Field{pos + 5, 1, false}, c37Field{pos + 26, 1, false})
		n := 0
		for i := 0; i < nseg; i++ {
			out = append(out, c37Field{pos + 27 + i, 1, false})
			n += int(f[pos+27+i])
		}
		pos += 27 + nseg + n
	}

	return out
}

var c37CrcTable = func() *[256]uint32 {
	var t [256]uint32
	for i := range t {
		r := uint32(i) << 24 //nolint:gosec
		for k := 0; k < 8; k++ {
			if r&0x80000000 != 0 {
				r = (r << 1) ^ 0x04c11db7
			} else {
				r <<= 1
			}
		}
		t[i] = r
	}

	return &t
}()

// c37OggFixCRC rewrites the checksum of every complete page (as the page structure now reads), so that a
// mutated file gets past the checksum test and exercises what lies behind it.
func c37OggFixCRC(f []byte) {
	pos := 0
	for pos+27 <= len(f) {
		nseg := int(f[pos+26])
		if pos+27+nseg > len(f) {
			return
		}
		n := 0
		for _, s := range f[pos+27 : pos+27+nseg] {
			n += int(s)
		}
		end := pos + 27 + nseg + n
		if end > len(f) {
			return
		}
		copy(f[pos+22:], []byte{0, 0, 0, 0})
		var crc uint32
		for _, v := range f[pos:end] {
			crc = (crc << 8) ^ c37CrcTable[byte(crc>>24)^v]
		}
		binary.LittleEndian.PutUint32(f[pos+22:], crc)
		pos = end
	}
}

// c37OggPage wraps a payload (≤ 255·255 bytes) into one page with a valid checksum.
func c37OggPage(headerType byte, serial, index uint32, payload []byte) []byte {
	p := append([]byte("OggS"), 0, headerType, 0, 0, 0, 0, 0, 0, 0, 0)
	p = binary.LittleEndian.AppendUint32(p, serial)
	p = binary.LittleEndian.AppendUint32(p, index)
	p = append(p, 0, 0, 0, 0)
	nseg := len(payload)/255 + 1
	p = append(p, byte(nseg))
	for i := 0; i < nseg-1; i++ {
		p = append(p, 255)
	}
	p = append(p, byte(len(payload)%255))
	p = append(p, payload...)
	c37OggFixCRC(p)

	return p
}

func c37HeadPkt(r *rand.Rand) ([]byte, []c37Field) {
	fam := []byte{0, 0, 1, 2, 255}[r.Intn(5)]
	ch := byte(1 + r.Intn(3))
	p := append([]byte("OpusHead"), 1, ch, 0, 15, 0x80, 0xbb, 0, 0, 0, 0, fam)
	if fam != 0 {
		p = append(p, 1, byte(r.Intn(2)))
		p = append(p, c37Bytes(r, int(ch))...)
	}

	return p, []c37Field{{8, 1, false}, {9, 1, false}, {18, 1, false}}
}

func c37TagsPkt(r *rand.Rand) ([]byte, []c37Field) {
	le := func(n int) []byte { return binary.LittleEndian.AppendUint32(nil, uint32(n)) } //nolint:gosec
	vendor := []byte("pion-verif")[:r.Intn(11)]
	p := append([]byte("OpusTags"), le(len(vendor))...)
	p = append(p, vendor...)
	n := r.Intn(4)
	fields := []c37Field{{8, 4, false}, {len(p), 4, false}}
	p = append(p, le(n)...)
	for ; n > 0; n-- {
		kv := []byte([]string{"a=b", "TITLE=x y", "k=", "=v", "ARTIST=pion=webrtc"}[r.Intn(5)])
		fields = append(fields, c37Field{len(p), 4, false})
		p = append(p, le(len(kv))...)
		p = append(p, kv...)
	}

	return p, fields
}

// c37AnnexFile: 1..5 well-formed units behind 3-/4-byte start codes (SEI over-represented).
func c37AnnexFile(r *rand.Rand, codec string) []byte {
	cc := "4"
	if codec == "h265" {
		cc = "5"
	}
	f := []byte{}
	for k := 1 + r.Intn(5); k > 0; k-- {
		if r.Intn(2) == 0 {
			f = append(f, 0)
		}
		f = append(f, 0, 0, 1)
		f = append(f, c34ShortNal(r, cc, 1+r.Intn(12))...)
	}

	return f
}

func c37RtpdumpFile(r *rand.Rand, n int) ([]byte, []c37Field) {
	buf := &bytes.Buffer{}
	w, err := rtpdump.NewWriter(buf, rtpdump.Header{
		Start: time.Unix(int64(r.Intn(1e9)), 0), Source: net.IPv4(byte(r.Intn(256)), 2, byte(r.Intn(256)), byte(r.Intn(256))), //nolint:gosec
		Port: uint16(r.Intn(65536)), //nolint:gosec
	})
	if err != nil {
		return nil, nil
	}
	fields := []c37Field{}
	for k := 0; k < n; k++ {
		fields = append(fields, c37Field{buf.Len(), 2, true}, c37Field{buf.Len() + 2, 2, true})
		_ = w.WritePacket(rtpdump.Packet{
			Offset: time.Duration(r.Intn(100000)) * time.Millisecond, IsRTCP: r.Intn(3) == 0,
			Payload: c37Bytes(r, []int{1, 2, 7, 8, 9, 1 + r.Intn(30)}[r.Intn(6)]),
		})
	}

	return buf.Bytes(), fields
}

// ---- generator ---------------------------------------------------------------------------------

var c37FieldVals = []uint64{0, 1, 7, 8, 0xFF, 0xFFFF, 0xFFFFFFFF}

type c37Gen struct {
	c *Ctx
	r *rand.Rand
}

// emit one input for a reader family ("ivf", "ogg", "head", "tags", "h264", "h265", "rtpdump").
func (g *c37Gen) emit(family, tag string, f []byte) {
	h := hx(f)
	switch family {
	case "ogg":
		// the page reader with and without checksums, and NewWith; mutated files also with repaired checksums
		switch g.r.Intn(4) {
		case 0:
			g.c.Emit("ogg %s 1 %s", tag, h)
		case 1:
			g.c.Emit("oggnew %s %s", tag, h)
		default:
			g.c.Emit("ogg %s 0 %s", tag, h)
		}
		if tag != "valid" && tag != "trunc" && g.r.Intn(2) == 0 {
			fx := append([]byte{}, f...)
			c37OggFixCRC(fx)
			if g.r.Intn(2) == 0 {
				g.c.Emit("oggnew %s+crc %s", tag, hx(fx))
			} else {
				g.c.Emit("ogg %s+crc 1 %s", tag, hx(fx))
			}
		}
	case "h264", "h265":
		sched := []string{"-", "-", "r:d1", "r:d2", "r:d3"}[g.r.Intn(5)]
		switch g.r.Intn(6) {
		case 0:
			sched = c34CleanSched(g.r)
		case 1:
			sched = c34DirtySched(g.r)
		}
		g.c.Emit("%s %s %d %s %s", family, tag, g.r.Intn(2), sched, h)
	default:
		g.c.Emit("%s %s %s", family, tag, h)
	}
}

// emitAll: valid files are run through every entry point of their family
func (g *c37Gen) emitValid(family string, f []byte) {
	h := hx(f)
	switch family {
	case "ogg":
		g.c.Emit("ogg valid 1 %s", h)
		g.c.Emit("ogg valid 0 %s", h)
		g.c.Emit("oggnew valid %s", h)
	case "h264", "h265":
		for _, s := range []string{"-", "r:d1", c34CleanSched(g.r)} {
			g.c.Emit("%s valid 0 %s %s", family, s, h)
			g.c.Emit("%s valid 1 %s %s", family, s, h)
		}
	default:
		g.c.Emit("%s valid %s", family, h)
	}
}

func (g *c37Gen) truncations(family string, f []byte) {
	for k := 0; k <= len(f); k++ {
		if family == "ogg" { // every offset through each of the three entry points in turn
			switch k % 3 {
			case 0:
				g.c.Emit("ogg trunc 1 %s", hx(f[:k]))
			case 1:
				g.c.Emit("oggnew trunc %s", hx(f[:k]))
			default:
				g.c.Emit("ogg trunc 0 %s", hx(f[:k]))
			}

			continue
		}
		g.emit(family, "trunc", f[:k])
	}
}

func (g *c37Gen) fieldMutations(family string, f []byte, fields []c37Field, allCuts bool) {
	for _, fd := range fields {
		for _, v := range c37FieldVals {
			if fd.w < 4 && v > 0xFFFF || fd.w < 2 && v > 0xFF {
				continue
			}
			m := append([]byte{}, f...)
			c37Put(m, fd, v)
			g.emit(family, "field", m)
			// … and the same file cut shortly behind the field (the header that carries it ends 0..8 bytes later)
			cuts := []int{0, 2, 4, 6, 8}
			if !allCuts {
				cuts = cuts[g.r.Intn(5):][:1]
			}
			for _, j := range cuts {
				if end := fd.off + fd.w + j; end < len(m) {
					g.emit(family, "field", m[:end])
				}
			}
		}
		// off by a little
		m := append([]byte{}, f...)
		m[fd.off+func() int {
			if fd.be {
				return fd.w - 1
			}

			return 0
		}()] += byte(1 + g.r.Intn(3))
		g.emit(family, "field", m)
	}
}

func (g *c37Gen) byteMutations(family string, f []byte, every bool, n int) {
	vals := []byte{0, 1, 7, 8, 0xFF}
	if every {
		for i := range f {
			for _, v := range vals {
				if f[i] == v {
					continue
				}
				m := append([]byte{}, f...)
				m[i] = v
				g.emit(family, "byte", m)
			}
		}

		return
	}
	for ; n > 0 && len(f) > 0; n-- {
		m := append([]byte{}, f...)
		m[g.r.Intn(len(m))] = vals[g.r.Intn(len(vals))]
		g.emit(family, "byte", m)
	}
}

func (g *c37Gen) bitFlips(family string, f []byte, every bool, n int) {
	if every {
		for i := range f {
			for b := 0; b < 8; b++ {
				m := append([]byte{}, f...)
				m[i] ^= 1 << b
				g.emit(family, "bit", m)
			}
		}

		return
	}
	for ; n > 0 && len(f) > 0; n-- {
		m := append([]byte{}, f...)
		m[g.r.Intn(len(m))] ^= 1 << g.r.Intn(8)
		g.emit(family, "bit", m)
	}
}

var c37Magic = map[string][][]byte{
	"ivf": {[]byte("DKIF\x00\x00\x20\x00VP80"), []byte("DKIF"),
		[]byte("DKIF\x00\x00\x20\x00VP80\x80\x02\xe0\x01\x1e\x00\x00\x00\x01\x00\x00\x00\x02\x00\x00\x00\x00\x00\x00\x00")},
	"ogg": {[]byte("OggS\x00\x02"), []byte("OggS"),
		[]byte("OggS\x00\x02\x00\x00\x00\x00\x00\x00\x00\x00\x64\x00\x00\x00\x00\x00\x00\x00\x00\x00\x00\x00")},
	"head": {[]byte("OpusHead\x01"), []byte("OpusHead")},
	"tags": {[]byte("OpusTags"), []byte("OpusTags\x00\x00\x00\x00")},
	"h264": {{0, 0, 1}, {0, 0, 0, 1}},
	"h265": {{0, 0, 1}, {0, 0, 0, 1}},
	"rtpdump": {[]byte("#!rtpplay1.0 1.2.3.4/5\n"), []byte("#!rtpplay1.0 "),
		[]byte("#!rtpplay1.0 1.2.3.4/5\n\x00\x00\x00\x01\x00\x00\x00\x02\x01\x02\x03\x04\x00\x05\x00\x00")},
}

func (g *c37Gen) randomBytes(family string, n int) {
	for ; n > 0; n-- {
		l := g.r.Intn(64)
		if g.r.Intn(8) == 0 {
			l = g.r.Intn(400)
		}
		f := c37Bytes(g.r, l)
		switch g.r.Intn(4) {
		case 0: // 0/1-heavy
			for i := range f {
				if g.r.Intn(3) > 0 {
					f[i] = byte(g.r.Intn(2))
				}
			}
		case 1: // small values (plausible length fields)
			for i := range f {
				if g.r.Intn(2) == 0 {
					f[i] = byte(g.r.Intn(9))
				}
			}
		}
		if g.r.Intn(3) > 0 {
			ms := c37Magic[family] // magic only, or (ivf, ogg, rtpdump) a complete valid header
			f = append(append([]byte{}, ms[g.r.Intn(len(ms))]...), f...)
		}
		g.emit(family, "rand", f)
	}
}

// havoc: 1..6 stacked random edits of a valid file (search, in the style of a mutational fuzzer without
// coverage feedback)
func (g *c37Gen) havoc(family string, f []byte, fields []c37Field, other []byte) {
	m := append([]byte{}, f...)
	for k := 1 + g.r.Intn(6); k > 0 && len(m) > 0; k-- {
		switch g.r.Intn(9) {
		case 0:
			m[g.r.Intn(len(m))] = byte(g.r.Intn(256))
		case 1:
			m[g.r.Intn(len(m))] ^= 1 << g.r.Intn(8)
		case 2: // delete a block
			a := g.r.Intn(len(m))
			b := a + g.r.Intn(min(16, len(m)-a)+1)
			m = append(m[:a:a], m[b:]...)
		case 3: // insert random bytes
			a := g.r.Intn(len(m) + 1)
			m = append(m[:a:a], append(c37Bytes(g.r, 1+g.r.Intn(8)), m[a:]...)...)
		case 4: // duplicate a block
			a := g.r.Intn(len(m))
			b := a + g.r.Intn(min(32, len(m)-a)+1)
			m = append(m[:b:b], append(append([]byte{}, m[a:b]...), m[b:]...)...)
		case 5: // a length field to a boundary value
			if len(fields) > 0 {
				fd := fields[g.r.Intn(len(fields))]
				if fd.off+fd.w <= len(m) {
					v := c37FieldVals[g.r.Intn(len(c37FieldVals))]
					if g.r.Intn(3) == 0 {
						v = uint64(g.r.Intn(300))
					}
					c37Put(m, fd, v)
				}
			}
		case 6: // splice with another file
			if len(other) > 0 {
				a, b := g.r.Intn(len(m)+1), g.r.Intn(len(other)+1)
				m = append(m[:a:a], other[b:]...)
			}
		case 7: // truncate
			m = m[:g.r.Intn(len(m)+1)]
		case 8: // run of zeros / 0xFF
			a := g.r.Intn(len(m))
			v := []byte{0, 0xFF}[g.r.Intn(2)]
			for i := a; i < len(m) && i < a+1+g.r.Intn(8); i++ {
				m[i] = v
			}
		}
	}
	g.emit(family, "havoc", m)
}

func c37GenAll(c *Ctx) {
	g := &c37Gen{c: c, r: c.Rng}
	r := c.Rng
	type file struct {
		b      []byte
		fields []c37Field
	}
	mk := map[string]func() file{
		"ivf": func() file { b, fs := c37IvfFile(r, r.Intn(5)); return file{b, fs} },
		"ogg": func() file {
			for {
				if b := c37OggFile(r, r.Intn(4)); len(b) > 0 {
					return file{b, c37OggFields(b)}
				}
			}
		},
		"head":    func() file { b, fs := c37HeadPkt(r); return file{b, fs} },
		"tags":    func() file { b, fs := c37TagsPkt(r); return file{b, fs} },
		"h264":    func() file { return file{c37AnnexFile(r, "h264"), nil} },
		"h265":    func() file { return file{c37AnnexFile(r, "h265"), nil} },
		"rtpdump": func() file { b, fs := c37RtpdumpFile(r, r.Intn(5)); return file{b, fs} },
	}
	families := []string{"ivf", "ogg", "head", "tags", "h264", "h265", "rtpdump"}
	for _, fam := range families {
		nfiles := c.N(4, 50)
		if fam == "head" || fam == "tags" {
			nfiles = c.N(12, 150)
		}
		files := make([]file, nfiles)
		for i := range files {
			files[i] = mk[fam]()
		}
		for i, fl := range files {
			g.emitValid(fam, fl.b)
			// (ii) every truncation of every file at every offset
			g.truncations(fam, fl.b)
			// (iii) every length / count / size field set to every boundary value
			g.fieldMutations(fam, fl.b, fl.fields, i == 0)
			if fam == "h264" || fam == "h265" {
				// no length fields here: the structure is the start codes — at every position insert 00, 01, a 3-, 4- and
				// 5-byte start code, and delete one byte
				if i < c.N(2, 25) {
					for at := 0; at <= len(fl.b); at++ {
						for _, ins := range [][]byte{{0}, {1}, {0, 0, 1}, {0, 0, 0, 1}, {0, 0, 0, 0, 1}} {
							m := append(append(append([]byte{}, fl.b[:at]...), ins...), fl.b[at:]...)
							g.emit(fam, "field", m)
						}
						if at < len(fl.b) {
							g.emit(fam, "field", append(append([]byte{}, fl.b[:at]...), fl.b[at+1:]...))
						}
					}
				}
			}
			if fam == "ivf" && len(fl.fields) > 5 {
				// FrameSize around the allocation limit of this harness (4 MiB and one more: the latter is skipped)
				for _, v := range []uint64{c37MaxAlloc - 1, c37MaxAlloc, c37MaxAlloc + 1, 0x10000, 0xFFFFFF} {
					m := append([]byte{}, fl.b...)
					c37Put(m, fl.fields[5], v)
					g.emit(fam, "field", m)
				}
			}
			// byte-level: every position × {0,1,7,8,0xFF} and every single-bit flip for the first file(s) (all
			// files when small: head, tags), a random sample for the others
			small := len(fl.b) <= 64
			g.byteMutations(fam, fl.b, i < c.N(1, 6) || small, c.N(100, 300))
			g.bitFlips(fam, fl.b, i < c.N(1, 4) || small && i < c.N(2, 20), c.N(100, 300))
		}
		g.randomBytes(fam, c.N(600, 20000))
		for i := 0; i < c.N(1500, 150000); i++ {
			fl := files[r.Intn(len(files))]
			g.havoc(fam, fl.b, fl.fields, files[r.Intn(len(files))].b)
		}
		if fam == "ogg" {
			// NewWith on a first page (valid checksum, BOS or not) that carries every prefix and every field mutation
			// of an OpusHead packet — the path behind validateOpusPageHeader — followed by a second page or nothing
			for i := 0; i < c.N(6, 60); i++ {
				hp, hf := c37HeadPkt(r)
				tail := c37OggPage(0, 7, 1, c37Bytes(r, r.Intn(20)))
				wrap := func(tag string, p []byte) {
					ht := byte(2)
					if r.Intn(10) == 0 {
						ht = byte(r.Intn(8))
					}
					f := c37OggPage(ht, 7, 0, p)
					if r.Intn(2) == 0 {
						f = append(f, tail...)
					}
					c.Emit("oggnew %s %s", tag, hx(f))
				}
				wrap("valid", hp)
				for k := 0; k <= len(hp); k++ {
					wrap("trunc", hp[:k])
				}
				for _, fd := range hf {
					for _, v := range []byte{0, 1, 2, 3, 7, 8, 254, 255} {
						m := append([]byte{}, hp...)
						m[fd.off] = v
						wrap("field", m)
						wrap("field", append(m, c37Bytes(r, 1+r.Intn(3))...))
					}
				}
			}
		}
		if fam == "rtpdump" {
			// a record whose length field is 0..9 (below / at / above the 8-byte record header) as the last thing in
			// the file, followed by a few bytes, and followed by more than 65535 bytes
			hdr := c37Magic["rtpdump"][2]
			for lf := 0; lf <= 9; lf++ {
				rec := []byte{0, byte(lf), 0, byte(r.Intn(3)), 0, 0, 0, byte(r.Intn(256))}
				g.emit(fam, "field", append(append([]byte{}, hdr...), rec...))
				g.emit(fam, "field", append(append(append([]byte{}, hdr...), rec...), c37Bytes(r, 1+r.Intn(3))...))
				if lf == 1 || lf == 7 || lf == 8 || c.Thorough() {
					g.emit(fam, "field", append(append(append([]byte{}, hdr...), rec...), c37Bytes(r, 65536+r.Intn(100))...))
				}
			}
		}
		// larger valid files (payloads of several kB, around the Annex-B readers' 4096-byte read buffer)
		for i := 0; i < c.N(6, 60); i++ {
			switch fam {
			case "ivf":
				g.emitValid(fam, c32ValidFile(r, 1+r.Intn(6)))
			case "ogg":
				if b := c33ValidFile(r); len(b) > 0 {
					g.emitValid(fam, b)
					g.emit(fam, "trunc", b[:r.Intn(len(b)+1)])
				}
			case "h264", "h265":
				cc := map[string]string{"h264": "4", "h265": "5"}[fam]
				b := []byte{}
				for k := 1 + r.Intn(4); k > 0; k-- {
					b = append(b, 0, 0, 1)
					b = append(b, c34GenNal(c34Len(r), r.Intn(1<<30), c34Header(r, cc))...)
				}
				g.emitValid(fam, b)
				g.emit(fam, "trunc", b[:r.Intn(len(b)+1)])
			}
		}
	}
}

func c37Coarse(a []string, out string) string {
	f := strings.Fields(out)
	switch {
	case out == "skipped-alloc":
		return "skipped"
	case len(f) == 0:
		return "none"
	case strings.Contains(out, "panic") || strings.Contains(out, "hang") || strings.Contains(out, "cap") || out == "timeout":
		return "ALARM"
	case strings.HasPrefix(f[0], "one:"):
		if f[0] == "one:ok" {
			return "accepted"
		}

		return "rejected"
	case strings.HasPrefix(f[0], "new:") && !strings.HasPrefix(f[0], "new:ok"):
		return "rejected"
	case f[len(f)-1] == "n=0":
		return "no-item"
	}

	return "items"
}

func init() {
	registry["C37"] = &Prop{
		Workers: 16,
		Timeout: 60 * time.Second,
		Rule: "Op: <reader> <tag> [flags] <hex>; readers ivf, ogg (page loop, checksums on/off), oggnew (NewWith), head, " +
			"tags (ParseOpusHead/ParseOpusTags called directly), h264, h265 (SEI inclusion on/off, the bytes cut into Read " +
			"results by a C34 schedule: 4096-byte chunks, 1/2/3-byte reads, random clean chunkings, and faulty ones with " +
			"zero-length reads, data+io.EOF, data+error), rtpdump. Each op runs the real reader in a goroutine under " +
			"recover: constructor, then the read call until it returns an error, at most len+8 calls (`cap`); a call that " +
			"reports nothing for 2 s, confirmed over a second 2 s period, is a `hang` (after the first hang the rest of the " +
			"run is not executed: `inconclusive`). Inputs per reader family: (i) valid: 4 (thorough 50; head/tags 12 / 150) " +
			"small valid files — IVF built by hand (0..4 frames of 0..40 bytes), Ogg from the real oggwriter (1-2 tracks, " +
			"0..3 packets, lacing around 255), OpusHead families 0/1/2/255, OpusTags with 0..3 comments, 1..5 Annex-B units " +
			"of 1..12 bytes behind 3-/4-byte start codes (SEI over-represented), rtpdump from the real writer (0..4 " +
			"records) — plus 6 (60) larger ones from the C32/C33/C34 generators (payloads up to 10 kB); (ii) trunc: EVERY " +
			"prefix of every small valid file; (iii) field: every length/count/size field of every small file (IVF header " +
			"size, version, timebase, frame count, FrameSize and both timestamp words; Ogg version, header type, segment " +
			"count, every lacing value; OpusHead version, channels, family; OpusTags vendor length, comment count, every " +
			"comment length; rtpdump record length and packet length) set to each of 0,1,7,8,0xFF,0xFFFF,0xFFFFFFFF (as " +
			"wide as the field) and off by 1..3, each also cut 0..8 bytes behind the field; FrameSize at 4 MiB-1, 4 MiB, " +
			"4 MiB+1; rtpdump records with length 0..9 as the last thing in the file, followed by 1..3 bytes, and followed " +
			"by more than 65535 bytes; a first Ogg page with a valid checksum carrying every prefix and field mutation of " +
			"an OpusHead packet (NewWith); Annex-B: 00, 01 and 3-/4-/5-byte start codes inserted at, and one byte deleted " +
			"from, every position of the first 2 (25) files; byte: every byte position of the first file (of every file " +
			"of at most 64 bytes) set to each of 0,1,7,8,0xFF, 100 (300) random ones for the others; bit: every single-bit " +
			"flip of the first file, 100 (300) random ones for the others; rand: 600 (20000) random strings of 0..63 (1 in " +
			"8: ..399) bytes, 0/1-heavy or small-valued, two thirds behind the format's magic or a complete valid header; " +
			"havoc: 1500 (150000) valid files after 1..6 stacked random edits (byte set, bit flip, block " +
			"delete/insert/duplicate, field to a boundary value, splice with another file, truncate, runs of 00/FF) — " +
			"random search, not proof. Mutated Ogg files are also run with recomputed page checksums (+crc) so that " +
			"NewWith / checksum-on reading get past the CRC test. Not executed (`skipped-alloc`): IVF inputs whose " +
			"accepted header is followed by a reachable FrameSize above 4 MiB — ParseNextFrame allocates FrameSize bytes " +
			"(up to 4 GiB) before reading; allocation size is outside the model. Non-trivial: distinct op lines on which " +
			"at least one read call succeeded (head/tags: inputs of at least 8 bytes).",
		Gen:  c37GenAll,
		Exec: c37Exec,
		Class: func(a []string, out string) string {
			if len(a) < 2 {
				return ""
			}

			return a[0] + " " + strings.TrimSuffix(a[1], "+crc") + " " + c37Coarse(a, out)
		},
		Trivial: func(a []string, out string) bool {
			if len(a) < 3 {
				return true
			}
			if a[0] == "head" || a[0] == "tags" {
				return len(a[2]) < 16
			}

			return c37Coarse(a, out) != "items"
		},
	}
}
