package main

import (
	"bytes"
	"fmt"
	"hash/fnv"
	"io"
	"net"
	"strconv"
	"strings"
	"time"

	"github.com/pion/webrtc/v4/pkg/media/rtpdump"
)

func fnv64s(b []byte) string {
	h := fnv.New64a()
	h.Write(b)

	return fmt.Sprintf("%d %d", len(b), h.Sum64())
}

func genPayload(l, seed int) []byte {
	b := make([]byte, l)
	for i := range b {
		b[i] = byte(seed + 7*i + i/256)
	}

	return b
}

func payloadOfSpec(s string) ([]byte, bool) {
	switch {
	case strings.HasPrefix(s, "x"):
		return unhx(s[1:]), true
	case strings.HasPrefix(s, "g"):
		var l, sd int
		if _, err := fmt.Sscanf(s[1:], "%d:%d", &l, &sd); err != nil {
			return nil, false
		}

		return genPayload(l, sd), true
	}

	return nil, false
}

func rtpdumpRead(file []byte) string {
	r, hdr, err := rtpdump.NewReader(bytes.NewReader(file))
	if err != nil {
		return "R malformed"
	}
	out := []string{}
	n := 0
	end := "eof"
	for {
		p, err := r.Next()
		if err == io.EOF { //nolint:errorlint
			break
		}
		if err != nil {
			end = "malformed"

			break
		}
		n++
		out = append(out, fmt.Sprintf("%d %s %s", int64(p.Offset), b2s(p.IsRTCP), fnv64s(p.Payload)))
	}
	src := "-"
	if v4 := hdr.Source.To4(); v4 != nil {
		src = hx(v4)
	}

	return fmt.Sprintf("R ok %d %s %d %d %s %s", hdr.Start.UnixNano(), src, hdr.Port, n, strings.Join(out, " "), end)
}

func init() {
	sizes := []int{0, 1, 2, 7, 8, 9, 255, 1200, 65526, 65527, 65528, 65535, 65536, 70000}
	registry["C36"] = &Prop{
		Workers: 16,
		Rule: "rt: seeded random headers (IPv4 / IPv4-mapped / IPv6 / nil source; start times 1900..2200 with " +
			"ns, µs or s precision; ports 0..65535) and 0..12 packets (payload sizes from a boundary table " +
			"{0,1,2,7,8,9,255,1200,65526,65527,65528,65535,65536,70000} or random ≤ 3000; RTP/RTCP; offsets incl. " +
			"sub-ms, negative and > 2^32 ms) written by rtpdump.Writer and read back by rtpdump.Reader; " +
			"raw: valid preamble+header followed by records with every length field 0..20 and random ones, " +
			"truncations and random bytes. Non-trivial: distinct op lines whose file has at least a header.",
		Gen: func(c *Ctx) {
			r := c.Rng
			for i := 0; i < c.N(1500, 30000); i++ {
				var start int64
				clean := r.Intn(10) < 6 // mostly-valid stream: everything representable
				sw := r.Intn(6)
				if clean {
					sw = 2 + r.Intn(2)
				}
				switch sw {
				case 0:
					start = time.Date(1900+r.Intn(300), 1, 1, 0, 0, 0, r.Intn(1e9), time.UTC).UnixNano()
				case 1:
					start = int64(r.Intn(2)) * 4294967295 * 1e9
					start += int64(r.Intn(3)-1) * int64(r.Intn(2e9))
				case 2:
					start = r.Int63n(4294967296) * 1e9
				case 3:
					start = r.Int63n(4294967296)*1e9 + int64(r.Intn(1e6))*1000
				default:
					start = r.Int63n(4294967296)*1e9 + int64(r.Intn(1e9))
				}
				src := make([]byte, 4)
				r.Read(src)
				sw = r.Intn(10)
				if clean {
					sw = 2 + r.Intn(8)
				}
				switch sw {
				case 0:
					src = nil
				case 1:
					src = make([]byte, 16)
					r.Read(src)
				case 2:
					src = append([]byte{0, 0, 0, 0, 0, 0, 0, 0, 0, 0, 255, 255}, src...)
				case 3:
					src = []byte{0, 0, 0, 0}
				case 4:
					src = []byte{255, 255, 255, 255}
				}
				port := r.Intn(65536)
				if r.Intn(8) == 0 {
					port = []int{0, 1, 9, 10, 99, 100, 999, 1000, 9999, 10000, 65535}[r.Intn(11)]
				}
				n := r.Intn(13)
				if r.Intn(4) == 0 {
					n = r.Intn(3)
				}
				sb := strings.Builder{}
				fmt.Fprintf(&sb, "rt %d %s %d %d", start, hx(src), port, n)
				big := 0
				for k := 0; k < n; k++ {
					var off int64
					sw = r.Intn(8)
					if clean && sw > 0 {
						sw = 7
					}
					switch sw {
					case 0:
						off = r.Int63n(4294967296) * 1e6
					case 1:
						off = int64(r.Intn(100000))*1e6 + int64(r.Intn(1e6))
					case 2:
						off = -int64(r.Intn(5e6))
					case 3:
						off = (4294967294 + int64(r.Intn(4))) * 1e6
					default:
						off = int64(r.Intn(600000)) * 1e6
					}
					l := r.Intn(3000)
					if clean {
						l = 1 + r.Intn(3000)
						if r.Intn(4) == 0 {
							l = []int{1, 2, 7, 8, 9, 255, 65526, 65527}[r.Intn(8)]
						}
					} else if r.Intn(3) == 0 && big < 3 {
						l = sizes[r.Intn(len(sizes))]
						if l > 60000 {
							big++
						}
					}
					if l <= 24 && r.Intn(2) == 0 {
						pl := make([]byte, l)
						r.Read(pl)
						fmt.Fprintf(&sb, " %d %d x%s", off, r.Intn(2), hx(pl))
					} else {
						fmt.Fprintf(&sb, " %d %d g%d:%d", off, r.Intn(2), l, r.Intn(256))
					}
				}
				c.Emit("%s", sb.String())
			}
			// raw record streams behind a valid header
			hdrFile := func() []byte {
				buf := &bytes.Buffer{}
				_, _ = rtpdump.NewWriter(buf, rtpdump.Header{
					Start: time.Unix(int64(r.Intn(1e9)), 0), Source: net.IPv4(1, 2, 3, byte(r.Intn(256))), Port: uint16(r.Intn(65536)), //nolint:gosec
				})

				return buf.Bytes()
			}
			rec := func(lenField, plen int, payload []byte) []byte {
				b := []byte{byte(lenField >> 8), byte(lenField), byte(plen >> 8), byte(plen), 0, 0, byte(r.Intn(256)), byte(r.Intn(256))}

				return append(b, payload...)
			}
			for lf := 0; lf <= 20; lf++ {
				for pre := 0; pre < 3; pre++ {
					f := hdrFile()
					for k := 0; k < pre; k++ {
						pl := genPayload(1+r.Intn(40), r.Intn(256))
						f = append(f, rec(len(pl)+8, len(pl), pl)...)
					}
					tail := genPayload(r.Intn(70), r.Intn(256))
					f = append(f, rec(lf, r.Intn(30), tail)...)
					c.Emit("raw %s", hx(f))
				}
			}
			for i := 0; i < c.N(600, 20000); i++ {
				f := hdrFile()
				for k := r.Intn(5); k > 0; k-- {
					pl := genPayload(r.Intn(60), r.Intn(256))
					lf := len(pl) + 8
					switch r.Intn(6) {
					case 0:
						lf = r.Intn(8)
					case 1:
						lf = r.Intn(65536)
					case 2:
						lf = len(pl) + 8 + r.Intn(5) - 2
					}
					f = append(f, rec(lf, r.Intn(2)*len(pl), pl)...)
				}
				switch r.Intn(6) {
				case 0:
					f = f[:r.Intn(len(f)+1)]
				case 1:
					f[r.Intn(len(f))] ^= byte(1 << r.Intn(8))
				case 2:
					f = append(genPayload(r.Intn(4), 35), f...)
				}
				c.Emit("raw %s", hx(f))
			}
		},
		Exec: func(a []string) string {
			switch a[0] {
			case "raw":
				if len(a) != 2 {
					return "bad-op"
				}

				return rtpdumpRead(unhx(a[1]))
			case "rt":
				if len(a) < 5 {
					return "bad-op"
				}
				start, e1 := strconv.ParseInt(a[1], 10, 64)
				port, e2 := strconv.Atoi(a[3])
				n, e3 := strconv.Atoi(a[4])
				if e1 != nil || e2 != nil || e3 != nil || len(a) != 5+3*n {
					return "bad-op"
				}
				var src net.IP
				if b := unhx(a[2]); len(b) > 0 {
					src = net.IP(b)
				}
				buf := &bytes.Buffer{}
				w, err := rtpdump.NewWriter(buf, rtpdump.Header{Start: time.Unix(0, start).UTC(), Source: src, Port: uint16(port)}) //nolint:gosec
				if err != nil {
					return fmt.Sprintf("W eH %s %s", fnv64s(buf.Bytes()), rtpdumpRead(buf.Bytes()))
				}
				st := "ok"
				for k := 0; k < n; k++ {
					off, e := strconv.ParseInt(a[5+3*k], 10, 64)
					pl, ok := payloadOfSpec(a[7+3*k])
					if e != nil || !ok {
						return "bad-op"
					}
					if pl == nil {
						pl = []byte{}
					}
					if err := w.WritePacket(rtpdump.Packet{Offset: time.Duration(off), IsRTCP: a[6+3*k] == "1", Payload: pl}); err != nil {
						st = fmt.Sprintf("e%d", k)

						break
					}
				}

				return fmt.Sprintf("W %s %s %s", st, fnv64s(buf.Bytes()), rtpdumpRead(buf.Bytes()))
			}

			return "bad-op"
		},
		Class: func(a []string, out string) string {
			f := strings.Fields(out)
			if a[0] == "rt" && len(f) > 1 {
				return "rt W=" + strings.TrimRight(f[1], "0123456789")
			}
			if len(f) > 0 {
				return "raw end=" + f[len(f)-1]
			}

			return ""
		},
	}
}
