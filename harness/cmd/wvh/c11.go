package main

import (
	"fmt"
	"math/rand"
	"os"
	"runtime"
	"sort"
	"strconv"
	"strings"
	"sync"
	"sync/atomic"
	"time"

	"github.com/pion/webrtc/v4"
)

// C11 — SDP origin: fixed session id, strictly increasing session version
// (grammar and output formats: lean/WebrtcVerif/Drv/C11.lean).
//
//	sch <id0:v0,…>… sched <T<i>>…      updateSDPOrigin on one shared origin from 1–4 harness threads under
//	                                    the cooperative scheduler (yields after the CAS, in the load loop,
//	                                    before the add); trace validated step by step against the Lean system
//	seq eng=<a|d|p> <op>…               one real PeerConnection, sequential CreateOffer / CreateAnswer mixed
//	                                    with state changes (incl. rollback, older descriptions); every o= line parsed
//	race n=<N> spin=<S>                 N CreateOffer calls, each racing with Transceiver.Stop (successful retries)
//	par pc|hook …                       genuinely concurrent calls (goroutines released together, round by
//	                                    round) on one real PeerConnection / one shared origin; `par hook` also
//	                                    repeats the experiment on N fresh origins (n=, sweep=1: without barriers)
//
// Ticks come from one monotonic clock per op line (an atomic counter; in `par` the coarse tick is the
// round counter, advanced only between rounds, plus a fine counter checked on the Go side).

// ---------------------------------------------------------------------------------------------------
// sch

type c11Param struct{ id0, v0 uint64 }

// c11DrainLimit bounds the drain phase (a thread whose load loop never ends is left parked).
const c11DrainLimit = 60

func c11ParseSch(a []string) (specs [][]c11Param, sched []string, ok bool) {
	i := 1
	for ; i < len(a) && a[i] != "sched"; i++ {
		calls := []c11Param{}
		for _, c := range strings.Split(a[i], ",") {
			p := strings.Split(c, ":")
			if len(p) != 2 {
				return nil, nil, false
			}
			id0, e1 := strconv.ParseUint(p[0], 10, 64)
			v0, e2 := strconv.ParseUint(p[1], 10, 64)
			if e1 != nil || e2 != nil {
				return nil, nil, false
			}
			calls = append(calls, c11Param{id0, v0})
		}
		specs = append(specs, calls)
	}
	if i >= len(a) || len(specs) == 0 {
		return nil, nil, false
	}

	return specs, a[i+1:], true
}

// c11Hyp: the property's hypotheses on the generated descriptions (non-zero id and version, no wrap).
func c11Hyp(specs [][]c11Param) bool {
	n := uint64(0)
	for _, calls := range specs {
		n += uint64(len(calls))
	}
	for _, calls := range specs {
		for _, p := range calls {
			if p.id0 == 0 || p.v0 == 0 || p.v0+n < p.v0 {
				return false
			}
		}
	}

	return true
}

func c11Sch(a []string) string {
	specs, sched, ok := c11ParseSch(a)
	if !ok {
		return "bad-op"
	}
	s := NewSched()
	s.Families = []string{"origin."}
	// updateSDPOrigin never waits on a real primitive: a segment that has not parked yet is merely slow
	// (machine load), never "blocked"
	s.BlockTimeout = 15 * time.Second
	webrtc.VerifSetYield(s.Yield)
	defer webrtc.VerifSetYield(nil)
	org := webrtc.NewVerifOrigin()
	var clock atomic.Uint64
	tick := func() uint64 { return clock.Add(1) - 1 }
	var mu sync.Mutex
	log := []string{}
	for i, calls := range specs {
		s.Go(fmt.Sprintf("T%d", i), func() {
			for j, p := range calls {
				if j > 0 {
					s.Yield("call")
				}
				st := tick()
				id, ver := org.Update(p.id0, p.v0)
				rt := tick()
				mu.Lock()
				log = append(log, fmt.Sprintf("T%d.%d:%d:%d:%d:%d", i, j, st, rt, id, ver))
				mu.Unlock()
			}
		})
	}
	ev := []string{}
	for _, n := range sched {
		ev = append(ev, n+":"+s.Step(n))
	}
	ev = append(ev, "/")
	ev = append(ev, s.Drain(c11DrainLimit)...)
	id, ver := org.Cells()
	states := []string{}
	names := s.AllNames()
	s.mu.Lock()
	for _, n := range names {
		if s.finished[n] {
			states = append(states, n+":fin")
		} else {
			states = append(states, n+":parked")
		}
	}
	s.mu.Unlock()
	mu.Lock()
	out := fmt.Sprintf("%s | %s | origin %d %d | %s", strings.Join(ev, " "), strings.Join(log, " "), id, ver,
		strings.Join(states, " "))
	mu.Unlock()
	org.Unstick() // threads still in the load loop (a session id of zero was stored) can now leave it
	s.Release()

	return out
}

// ---------------------------------------------------------------------------------------------------
// real PeerConnections

func c11NewPC(audioOnly bool, planB ...bool) (*webrtc.PeerConnection, error) {
	m := &webrtc.MediaEngine{}
	cfg := webrtc.Configuration{}
	if len(planB) > 0 && planB[0] {
		cfg.SDPSemantics = webrtc.SDPSemanticsPlanB
	}
	if audioOnly {
		if err := m.RegisterCodec(webrtc.RTPCodecParameters{
			RTPCodecCapability: webrtc.RTPCodecCapability{MimeType: webrtc.MimeTypeOpus, ClockRate: 48000, Channels: 2},
			PayloadType:        111,
		}, webrtc.RTPCodecTypeAudio); err != nil {
			return nil, err
		}
	} else if err := m.RegisterDefaultCodecs(); err != nil {
		return nil, err
	}

	return webrtc.NewAPI(webrtc.WithMediaEngine(m)).NewPeerConnection(cfg)
}

// c11Origin parses the o= line of an SDP text: "o=<user> <sess-id> <sess-version> IN IP4 <addr>".
func c11Origin(sdpText string) (id, ver uint64, ok bool) {
	for _, l := range strings.Split(sdpText, "\n") {
		l = strings.TrimRight(l, "\r")
		if !strings.HasPrefix(l, "o=") {
			continue
		}
		f := strings.Fields(l[2:])
		if len(f) < 3 {
			return 0, 0, false
		}
		id, e1 := strconv.ParseUint(f[1], 10, 64)
		ver, e2 := strconv.ParseUint(f[2], 10, 64)

		return id, ver, e1 == nil && e2 == nil
	}

	return 0, 0, false
}

type c11Obs struct {
	kind       string
	start, ret uint64 // coarse ticks (what the Lean judge sees)
	fs, fr     uint64 // fine ticks (par mode, checked here)
	id, ver    uint64
	ok         bool
	round      int
}

type c11Peer struct {
	pc         *webrtc.PeerConnection
	remote     *webrtc.PeerConnection
	lastOffer  *webrtc.SessionDescription
	lastAnswer *webrtc.SessionDescription
	prevOffer  *webrtc.SessionDescription // the offer created before lastOffer
	prevAnswer *webrtc.SessionDescription
	planB      bool
}

func (p *c11Peer) ensureRemote() bool {
	if p.remote == nil {
		r, err := c11NewPC(false)
		if err != nil {
			return false
		}
		p.remote = r
		_, _ = r.CreateDataChannel("r", nil)
	}

	return true
}

// remoteAnswer lets the remote peer answer our pending (else last created) offer and applies the result
// as `typ` (answer / pranswer); the remote peer then rolls back, so it can be used again.
func (p *c11Peer) remoteAnswer(typ webrtc.SDPType) {
	off := p.pc.PendingLocalDescription()
	if off == nil || off.Type != webrtc.SDPTypeOffer {
		off = p.lastOffer
	}
	if off == nil {
		return
	}
	// a fresh answering peer every time: a rolled-back remote offer leaves its transceivers behind in pion,
	// so a re-used helper can refuse a later offer of ours and the answer would silently not be applied
	helper, err := c11NewPC(false)
	if err != nil {
		return
	}
	defer func() { _ = helper.Close() }()
	if err := helper.SetRemoteDescription(webrtc.SessionDescription{Type: webrtc.SDPTypeOffer, SDP: off.SDP}); err != nil {
		c11Dbg("N(remote side)", err)

		return
	}
	ans, err := helper.CreateAnswer(nil)
	if err != nil {
		return
	}
	ans.Type = typ
	c11Dbg("N", p.pc.SetRemoteDescription(ans))
}

func (p *c11Peer) close() {
	if p.pc != nil {
		_ = p.pc.Close()
	}
	if p.remote != nil {
		_ = p.remote.Close()
	}
}

func (p *c11Peer) create(kind string) (id, ver uint64, ok bool) {
	var (
		d   webrtc.SessionDescription
		err error
	)
	if kind == "O" {
		d, err = p.pc.CreateOffer(nil)
	} else {
		d, err = p.pc.CreateAnswer(nil)
	}
	if err != nil {
		return 0, 0, false
	}
	id, ver, ok = c11Origin(d.SDP)

	return id, ver, ok
}

func c11Dbg(op string, err error) {
	if err != nil && os.Getenv("C11_DEBUG") != "" {
		fmt.Fprintf(os.Stderr, "  %s: %v\n", op, err)
	}
}

// state ops (no origin effect of their own)
func (p *c11Peer) stateOp(op string) {
	switch op {
	case "T":
		_, _ = p.pc.AddTransceiverFromKind(webrtc.RTPCodecTypeAudio)
	case "D":
		_, _ = p.pc.CreateDataChannel("d", nil)
	case "X": // a recvonly video transceiver: without a video codec CreateOffer rejects the section and retries
		if p.planB { // (not under Plan B, whose handling of codec-less sections is not this property's subject)
			return
		}
		_, _ = p.pc.AddTransceiverFromKind(webrtc.RTPCodecTypeVideo,
			webrtc.RTPTransceiverInit{Direction: webrtc.RTPTransceiverDirectionRecvonly})
	case "R":
		if !p.ensureRemote() {
			return
		}
		o, err := p.remote.CreateOffer(nil)
		if err == nil {
			c11Dbg("R", p.pc.SetRemoteDescription(o))
		}
	case "L":
		if p.lastAnswer != nil {
			_ = p.pc.SetLocalDescription(*p.lastAnswer)
		}
	case "K":
		if p.lastOffer != nil {
			_ = p.pc.SetLocalDescription(*p.lastOffer)
		}
	case "Ko": // an OLDER offer: created, then another one created, then the older one applied
		if p.prevOffer != nil {
			_ = p.pc.SetLocalDescription(*p.prevOffer)
		}
	case "Lo":
		if p.prevAnswer != nil {
			_ = p.pc.SetLocalDescription(*p.prevAnswer)
		}
	case "P": // the last answer applied as a provisional answer
		if p.lastAnswer != nil {
			d := *p.lastAnswer
			d.Type = webrtc.SDPTypePranswer
			_ = p.pc.SetLocalDescription(d)
		}
	case "Rl":
		_ = p.pc.SetLocalDescription(webrtc.SessionDescription{Type: webrtc.SDPTypeRollback})
	case "Rr":
		_ = p.pc.SetRemoteDescription(webrtc.SessionDescription{Type: webrtc.SDPTypeRollback})
	case "N":
		p.remoteAnswer(webrtc.SDPTypeAnswer)
	case "Np":
		p.remoteAnswer(webrtc.SDPTypePranswer)
	case "C":
		_ = p.pc.Close()
	}
}

func c11Seq(a []string) string {
	if len(a) < 2 || (a[1] != "eng=a" && a[1] != "eng=d" && a[1] != "eng=p") {
		return "bad-op"
	}
	pc, err := c11NewPC(a[1] != "eng=d", a[1] == "eng=p")
	if err != nil {
		return "setup-failed"
	}
	p := &c11Peer{pc: pc, planB: a[1] == "eng=p"}
	defer p.close()
	// every offer has at least the application section (a remote peer cannot answer an offer without media)
	p.stateOp("D")
	var clock uint64
	obs := []c11Obs{}
	for _, op := range a[2:] {
		switch op {
		case "O", "A", "Ot", "At":
			st := clock
			clock++
			var d webrtc.SessionDescription
			switch op {
			case "O":
				d, err = pc.CreateOffer(nil)
			case "Ot":
				d, err = pc.CreateOffer(&webrtc.OfferOptions{OfferAnswerOptions: webrtc.OfferAnswerOptions{ICETricklingSupported: true}})
			case "A":
				d, err = pc.CreateAnswer(nil)
			default:
				d, err = pc.CreateAnswer(&webrtc.AnswerOptions{OfferAnswerOptions: webrtc.OfferAnswerOptions{ICETricklingSupported: true}})
			}
			rt := clock
			clock++
			o := c11Obs{kind: op[:1], start: st, ret: rt}
			if err == nil {
				o.id, o.ver, o.ok = c11Origin(d.SDP)
				if !o.ok {
					return "no-origin-line"
				}
				dd := d
				if op == "O" || op == "Ot" {
					p.prevOffer = p.lastOffer
					p.lastOffer = &dd
				} else {
					p.prevAnswer = p.lastAnswer
					p.lastAnswer = &dd
				}
			}
			obs = append(obs, o)
		case "T", "D", "X", "R", "L", "K", "C", "Ko", "Lo", "P", "Rl", "Rr", "N", "Np":
			p.stateOp(op)
		default:
			return "bad-op"
		}
	}
	// canonical: ids by order of first appearance, versions relative to the smallest one
	minV, have := uint64(0), false
	for _, o := range obs {
		if o.ok && (!have || o.ver < minV) {
			minV, have = o.ver, true
		}
	}
	idc := map[uint64]int{}
	out := []string{}
	for _, o := range obs {
		if !o.ok {
			out = append(out, fmt.Sprintf("%s:%d:%d:err", o.kind, o.start, o.ret))

			continue
		}
		if _, seen := idc[o.id]; !seen {
			idc[o.id] = len(idc)
		}
		out = append(out, fmt.Sprintf("%s:%d:%d:i%d:%d", o.kind, o.start, o.ret, idc[o.id], o.ver-minV))
	}

	// the recorded assumption on pion/sdp: generated session ids and versions are never zero
	hyp := "1"
	for _, o := range obs {
		if o.ok && (o.id == 0 || o.ver == 0) {
			hyp = "0"
		}
	}

	return strings.Join(out, " ") + " | sig=" + pc.SignalingState().String() + " hyp=" + hyp
}

// c11Race provokes CreateOffer's retry loop in its successful form: while CreateOffer runs, another
// goroutine stops a transceiver (Stop changes the direction without taking pc.mu), so that
// hasLocalDescriptionChanged is true for the description generated first and false for the next one.
// How often that happens is timing-dependent, so the output only says how each description's version
// compares with the previous one (and whether the id is the same): `>` every time iff the property holds.
func c11Race(a []string) string {
	n, spin := c11KV(a, "n", 8), c11KV(a, "spin", 1000)
	if n < 1 || n > 64 || spin < 0 || spin > 10000000 {
		return "bad-op"
	}
	pc, err := c11NewPC(true)
	if err != nil {
		return "setup-failed"
	}
	defer func() { _ = pc.Close() }()
	out := []string{}
	var firstID, prev uint64
	retried := 0
	for i := 0; i < n; i++ {
		tr, err := pc.AddTransceiverFromKind(webrtc.RTPCodecTypeAudio,
			webrtc.RTPTransceiverInit{Direction: webrtc.RTPTransceiverDirectionRecvonly})
		if err != nil {
			return "setup-failed"
		}
		done := make(chan struct{})
		go func() {
			defer close(done)
			var x atomic.Uint64
			for k := 0; k < spin*(1+i%4); k++ {
				x.Add(1)
			}
			_ = tr.Stop()
		}()
		d, err := pc.CreateOffer(nil)
		<-done
		if err != nil {
			out = append(out, "err")

			continue
		}
		id, ver, ok := c11Origin(d.SDP)
		if !ok {
			return "no-origin-line"
		}
		switch {
		case i == 0:
			firstID = id
			out = append(out, "i0:first")
		default:
			cl, cmp := "i0", ">"
			if id != firstID {
				cl = "i1"
			}
			if ver == prev {
				cmp = "="
			} else if ver < prev {
				cmp = "<"
			}
			if ver > prev+1 {
				retried++
			}
			out = append(out, cl+":"+cmp)
		}
		prev = ver
	}
	if os.Getenv("C11_DEBUG") != "" {
		fmt.Fprintf(os.Stderr, "race spin=%d: %d of %d offers were retried\n", spin, retried, n)
	}

	return strings.Join(out, " ")
}

func c11KV(a []string, key string, def int) int {
	for _, t := range a {
		if strings.HasPrefix(t, key+"=") {
			if v, err := strconv.Atoi(t[len(key)+1:]); err == nil {
				return v
			}
		}
	}

	return def
}

func c11KVs(a []string, key, def string) string {
	for _, t := range a {
		if strings.HasPrefix(t, key+"=") {
			return t[len(key)+1:]
		}
	}

	return def
}

// c11Par: G goroutines × K calls per round × R rounds; all goroutines of a round are released together and
// the next round starts only after every call of the round has returned (so "returned before started" holds
// between rounds by construction, and is unknown — concurrent — inside a round). `par hook` repeats the
// whole experiment N times on fresh origins (the first callers race for the CAS each time) and reports the
// first experiment whose outcome is not the expected one, otherwise the last.
func c11Par(a []string) string {
	if len(a) < 2 {
		return "bad-op"
	}
	target := a[1]
	g, k, r, n := c11KV(a, "g", 2), c11KV(a, "k", 1), c11KV(a, "r", 1), c11KV(a, "n", 1)
	pat := c11KVs(a, "pat", "O")
	if g < 1 || g > 64 || k < 1 || k > 65536 || r < 1 || r > 64 || n < 1 || n > 100000 || pat == "" {
		return "bad-op"
	}
	switch target {
	case "pc":
		pc, err := c11NewPC(true)
		if err != nil {
			return "setup-failed"
		}
		p := &c11Peer{pc: pc}
		defer p.close()
		switch c11KVs(a, "st", "s0") {
		case "s0":
		case "hro":
			p.stateOp("T")
			p.stateOp("R")
		case "st1":
			p.stateOp("R")
			if d, err := pc.CreateAnswer(nil); err == nil {
				p.lastAnswer = &d
			}
			p.stateOp("L")
			p.stateOp("T")
		default:
			return "bad-op"
		}
		out, _ := c11ParRun(g, k, r, pat, func(kind string, _ int) (uint64, uint64, bool) { return p.create(kind) })

		return out
	case "hook":
		base, err := strconv.ParseUint(c11KVs(a, "v0", "1"), 10, 64)
		if err != nil {
			return "bad-op"
		}
		if c11KV(a, "shake", 0) != 0 {
			var ctr atomic.Uint64
			webrtc.VerifSetYield(func(string) {
				switch n := ctr.Add(0x9e3779b97f4a7c15) >> 61; n {
				case 0, 1, 2:
					runtime.Gosched()
				case 3:
					for i := uint64(0); i < 50; i++ { // a few dozen nanoseconds
						ctr.Load()
					}
				}
			})
			defer webrtc.VerifSetYield(nil)
		}
		if c11KV(a, "sweep", 0) != 0 {
			return c11Sweep(g, k, n, base)
		}
		out := ""
		for e := 0; e < n; e++ {
			org := webrtc.NewVerifOrigin()
			var expected bool
			out, expected = c11ParRun(g, k, r, pat, func(_ string, idx int) (uint64, uint64, bool) {
				id, ver := org.Update(uint64(1000+idx), base+uint64(idx%7))

				return id, ver, true
			})
			if !expected {
				break
			}
		}

		return out
	}

	return "bad-op"
}

// c11Sweep: G goroutines walk over the same N fresh origins in the same order, K calls on each, without
// any barrier in between: goroutines that run in parallel bunch up (the leader pays the cache misses) and
// keep meeting at the first call of an origin — the race for the compare-and-swap — and in the adds.
// Every origin is one experiment (1 round of G×K concurrent calls; ticks from one fine counter).
func c11Sweep(g, k, n int, base uint64) string {
	orgs := make([]*webrtc.VerifOrigin, n)
	for i := range orgs {
		orgs[i] = webrtc.NewVerifOrigin()
	}
	obs := make([]c11Obs, n*g*k)
	var fine atomic.Uint64
	var wg sync.WaitGroup
	start := make(chan struct{})
	for gi := 0; gi < g; gi++ {
		wg.Add(1)
		go func() {
			defer wg.Done()
			<-start
			for e := 0; e < n; e++ {
				for j := 0; j < k; j++ {
					idx := (e*g+gi)*k + j
					o := &obs[idx]
					o.kind, o.round, o.start, o.ret = "O", 0, 0, 1
					o.fs = fine.Add(1)
					o.id, o.ver = orgs[e].Update(uint64(1000+idx), base+uint64(idx%7))
					o.ok = true
					o.fr = fine.Add(1)
				}
			}
		}()
	}
	close(start)
	wg.Wait()
	out := ""
	for e := 0; e < n; e++ {
		var expected bool
		out, expected = c11ParReport(obs[e*g*k:(e+1)*g*k], g, k, 1)
		if !expected {
			break
		}
	}

	return out
}

// c11Ranges prints a sorted list as runs of consecutive values: "0-5 7 9-10".
func c11Ranges(vs []uint64) string {
	ss := []string{}
	for i := 0; i < len(vs); {
		j := i
		for j+1 < len(vs) && vs[j+1] == vs[j]+1 {
			j++
		}
		if j == i {
			ss = append(ss, strconv.FormatUint(vs[i], 10))
		} else {
			ss = append(ss, fmt.Sprintf("%d-%d", vs[i], vs[j]))
		}
		i = j + 1
	}

	return strings.Join(ss, " ")
}

// c11ParRun runs one experiment; `expected` reports whether every call succeeded with one id, each round
// took the next contiguous block of versions and the fine clock saw no inversion.
func c11ParRun(g, k, r int, pat string,
	call func(kind string, idx int) (uint64, uint64, bool),
) (out string, expected bool) {
	var fine atomic.Uint64
	obs := make([]c11Obs, g*k*r)
	for round := 0; round < r; round++ {
		var wg sync.WaitGroup
		start := make(chan struct{})
		var arrived atomic.Int32
		for gi := 0; gi < g; gi++ {
			wg.Add(1)
			go func() {
				defer wg.Done()
				<-start
				// line up: wait (bounded, ~50 µs) until all goroutines of the round are running, so that
				// their calls really overlap instead of one goroutine finishing before the next wakes up
				arrived.Add(1)
				for spins := 0; int(arrived.Load()) < g && spins < 50000; spins++ {
				}
				for j := 0; j < k; j++ {
					idx := (round*g+gi)*k + j
					o := &obs[idx]
					o.kind = string(pat[(gi+j+round)%len(pat)])
					o.round = round
					o.start, o.ret = uint64(2*round), uint64(2*round+1)
					o.fs = fine.Add(1)
					o.id, o.ver, o.ok = call(o.kind, idx)
					o.fr = fine.Add(1)
				}
			}()
		}
		close(start)
		wg.Wait()
	}

	return c11ParReport(obs, g, k, r)
}

// c11ParReport canonicalises the observations of one experiment (see c11ParRun).
func c11ParReport(obs []c11Obs, g, k, r int) (out string, expected bool) {
	minV, have := uint64(0), false
	ids := map[uint64]bool{}
	nok := 0
	for _, o := range obs {
		if o.ok {
			nok++
			ids[o.id] = true
			if !have || o.ver < minV {
				minV, have = o.ver, true
			}
		}
	}
	expected = len(ids) <= 1
	rounds := []string{}
	next := uint64(0)
	for round := 0; round < r; round++ {
		vs := []uint64{}
		for _, o := range obs[round*g*k : (round+1)*g*k] {
			if o.ok {
				vs = append(vs, o.ver-minV)
			}
		}
		sort.Slice(vs, func(i, j int) bool { return vs[i] < vs[j] })
		for _, v := range vs {
			if v != next {
				expected = false
			}
			next++
		}
		rounds = append(rounds, c11Ranges(vs))
	}
	// fine clock: a call that returned before another started must have the smaller version.
	// Sweep the calls by start tick, keeping the largest version among the calls that have returned.
	fineRes := "ok"
	okObs := []*c11Obs{}
	for i := range obs {
		if obs[i].ok {
			okObs = append(okObs, &obs[i])
		}
	}
	byStart := append([]*c11Obs{}, okObs...)
	sort.Slice(byStart, func(i, j int) bool { return byStart[i].fs < byStart[j].fs })
	byRet := append([]*c11Obs{}, okObs...)
	sort.Slice(byRet, func(i, j int) bool { return byRet[i].fr < byRet[j].fr })
	var maxRet *c11Obs
	ri := 0
	for _, y := range byStart {
		for ri < len(byRet) && byRet[ri].fr < y.fs {
			if maxRet == nil || byRet[ri].ver > maxRet.ver {
				maxRet = byRet[ri]
			}
			ri++
		}
		if maxRet != nil && maxRet.ver >= y.ver {
			x := maxRet
			fineRes = fmt.Sprintf("inv %d %d %d %d %d %d", x.fs, x.fr, x.ver-minV, y.fs, y.fr, y.ver-minV)
			expected = false

			break
		}
	}

	return fmt.Sprintf("%s | ids %d | fine %s", strings.Join(rounds, " / "), len(ids), fineRes), expected
}

// ---------------------------------------------------------------------------------------------------
// generators

func c11RandParam(r *rand.Rand, malformed bool) c11Param {
	p := c11Param{id0: 1 + uint64(r.Int63()), v0: 1790000000 + uint64(r.Intn(1000))}
	switch r.Intn(6) {
	case 0:
		p.v0 = 1 + uint64(r.Intn(3))
	case 1:
		p.v0 = ^uint64(0) - 16 - uint64(r.Intn(40)) // large, but no wrap with ≤ 12 calls
	case 2:
		p.id0 = 1 + uint64(r.Intn(3))
	}
	if malformed {
		switch r.Intn(4) {
		case 0:
			p.id0 = 0
		case 1:
			p.v0 = 0
		case 2:
			p.v0 = ^uint64(0) - uint64(r.Intn(6)) // the counter wraps
		case 3:
			p.id0, p.v0 = 0, 0
		}
	}

	return p
}

func c11GenSch(c *Ctx) {
	r := c.Rng
	emit := func(specs [][]c11Param, sched []string) {
		ss := []string{}
		for _, calls := range specs {
			cs := []string{}
			for _, p := range calls {
				cs = append(cs, fmt.Sprintf("%d:%d", p.id0, p.v0))
			}
			ss = append(ss, strings.Join(cs, ","))
		}
		c.Emit("sch %s sched %s", strings.Join(ss, " "), strings.Join(sched, " "))
	}
	// (a) every schedule prefix of length L over the thread names, one call per thread:
	//     2 threads, L = 8 covers every interleaving of the two calls (≤ 4 segments each) completely
	enum := func(nthreads, l int, keep func() bool) {
		total := 1
		for i := 0; i < l; i++ {
			total *= nthreads
		}
		for code := 0; code < total; code++ {
			if !keep() {
				continue
			}
			specs := make([][]c11Param, nthreads)
			for t := range specs {
				specs[t] = []c11Param{{id0: uint64(11 * (t + 1)), v0: uint64(1000 * (t + 1))}}
			}
			sched := make([]string, l)
			x := code
			for i := 0; i < l; i++ {
				sched[i] = fmt.Sprintf("T%d", x%nthreads)
				x /= nthreads
			}
			emit(specs, sched)
		}
	}
	enum(2, 8, func() bool { return true })
	if c.Thorough() {
		enum(3, 8, func() bool { return true })
		enum(4, 7, func() bool { return true })
	} else {
		enum(3, 8, func() bool { return r.Intn(16) == 0 })
		enum(4, 7, func() bool { return r.Intn(40) == 0 })
	}
	// (b) random programs: 1–4 threads, 1–3 calls each, random parameters, random schedules
	for n := 0; n < c.N(500, 20000); n++ {
		nt := 1 + r.Intn(4)
		malformed := r.Intn(8) == 0
		specs := make([][]c11Param, nt)
		for t := range specs {
			for k := 1 + r.Intn(3); k > 0; k-- {
				specs[t] = append(specs[t], c11RandParam(r, malformed && r.Intn(2) == 0))
			}
		}
		steps := r.Intn(30)
		sched := []string{}
		starve := -1
		if r.Intn(3) == 0 {
			starve = r.Intn(nt) // this thread is held back: whoever it beat to the CAS has to spin
		}
		for k := 0; k < steps; k++ {
			t := r.Intn(nt + 1) // T<nt> does not exist: a skip on both sides
			if t == starve && r.Intn(5) != 0 {
				continue
			}
			sched = append(sched, fmt.Sprintf("T%d", t))
		}
		emit(specs, sched)
	}
}

func c11GenSeq(c *Ctx) {
	r := c.Rng
	weights := []struct {
		op string
		w  int
	}{{"O", 9}, {"A", 8}, {"Ot", 2}, {"At", 2}, {"R", 5}, {"L", 4}, {"T", 2}, {"D", 1}, {"K", 4}, {"X", 1}, {"C", 1},
		{"Rl", 4}, {"Rr", 3}, {"Ko", 2}, {"Lo", 1}, {"P", 2}, {"N", 3}, {"Np", 2}}
	total := 0
	for _, w := range weights {
		total += w.w
	}
	// scripted: rollback (local / remote) in every signaling state — stable, have-local-offer, have-remote-offer,
	// have-local-pranswer, have-remote-pranswer, closed — each followed by new offers / answers; an older
	// description applied after a newer one was created
	reach := map[string][]string{
		"stable":               {},
		"have-local-offer":     {"O", "K"},
		"have-remote-offer":    {"R"},
		"have-local-pranswer":  {"R", "A", "P"},
		"have-remote-pranswer": {"O", "K", "Np"},
		"closed":               {"O", "C"},
		"stable-negotiated":    {"O", "K", "N"},
	}
	states := []string{"stable", "have-local-offer", "have-remote-offer", "have-local-pranswer", "have-remote-pranswer",
		"closed", "stable-negotiated"}
	for _, eng := range []string{"a", "d", "p"} {
		for _, st := range states {
			for _, rb := range []string{"Rl", "Rr"} {
				c.Emit("seq eng=%s O O %s %s O O R A A %s O A", eng, strings.Join(reach[st], " "), rb, rb)
				c.Emit("seq eng=%s %s O %s O %s A O", eng, strings.Join(reach[st], " "), rb, rb)
			}
			c.Emit("seq eng=%s O O %s Ko O Lo O A", eng, strings.Join(reach[st], " "))
		}
		c.Emit("seq eng=%s O O K Rl O O", eng) // the history of seeded change C11-3
		c.Emit("seq eng=%s O K Rl O K Rl O K Rl O", eng)
		c.Emit("seq eng=%s R A Rr R A L O K Rl O", eng)
		c.Emit("seq eng=%s R A A Lo L O O Ko K Rl Ko O", eng)
		c.Emit("seq eng=%s R A P A Rl R A P A L O", eng)
		c.Emit("seq eng=%s O K Np Rr O K N O", eng)
		// a description applied after a newer one of the other kind was created (seeded change C11-4)
		c.Emit("seq eng=%s R A O O L O A", eng)
		c.Emit("seq eng=%s O R A L K O O", eng)
		c.Emit("seq eng=%s R A O P O A L O", eng)
		c.Emit("seq eng=%s O O R A A L K O Rl O", eng)
	}
	for n := 0; n < c.N(160, 3000); n++ {
		eng := []string{"a", "a", "a", "d", "d", "p"}[r.Intn(6)]
		ops := []string{}
		if r.Intn(2) == 0 {
			ops = append(ops, "R") // start in have-remote-offer: both kinds of call succeed
		}
		for l := 2 + r.Intn(14); l > 0; l-- {
			x := r.Intn(total)
			for _, w := range weights {
				if x < w.w {
					ops = append(ops, w.op)

					break
				}
				x -= w.w
			}
		}
		c.Emit("seq eng=%s %s", eng, strings.Join(ops, " "))
	}
}

func c11GenPar(c *Ctx) {
	r := c.Rng
	// CreateOffer racing with Transceiver.Stop: successful retries inside one CreateOffer call
	for n := 0; n < c.N(40, 600); n++ {
		c.Emit("race n=%d spin=%d", 4+r.Intn(12), []int{0, 200, 1000, 3000, 10000, 30000}[r.Intn(6)]+r.Intn(500))
	}
	pats := []string{"O", "A", "OA", "AO", "OOA", "AAO", "OAAO"}
	sts := []string{"hro", "hro", "hro", "s0", "st1"}
	c.Emit("par pc st=hro g=8 k=20 r=1 pat=OA")
	for n := 0; n < c.N(30, 700); n++ {
		c.Emit("par pc st=%s g=%d k=%d r=%d pat=%s", sts[r.Intn(len(sts))], 2+r.Intn(7), 1+r.Intn(4), 1+r.Intn(5),
			pats[r.Intn(len(pats))])
	}
	randBase := func() uint64 {
		switch r.Intn(3) {
		case 0:
			return 1790000000 + uint64(r.Intn(100000))
		case 1:
			return 1<<63 + uint64(r.Int63n(1<<62))
		}

		return uint64(1 + r.Intn(5))
	}
	// the race for the compare-and-swap, over and over: thousands of fresh origins, all goroutines start together
	for n := 0; n < c.N(24, 200); n++ {
		c.Emit("par hook g=%d k=%d r=1 n=%d v0=%d shake=%d", 2+r.Intn(7), 1+r.Intn(2), c.N(300, 500)+r.Intn(c.N(1200, 2000)), randBase(), r.Intn(2))
	}
	// the same race without barriers: goroutines sweeping over thousands of fresh origins
	for n := 0; n < c.N(32, 300); n++ {
		c.Emit("par hook g=%d k=%d r=1 n=%d v0=%d shake=0 sweep=1", 2+r.Intn(7), 1+r.Intn(3), 4000+r.Intn(c.N(8000, 16000)), randBase())
	}
	// long bursts of adds (long enough to overlap even on a loaded machine)
	for n := 0; n < c.N(16, 200); n++ {
		c.Emit("par hook g=%d k=%d r=%d n=1 v0=%d shake=0", 3+r.Intn(6), 2000+r.Intn(4000), 1+r.Intn(2), randBase())
	}
	for n := 0; n < c.N(400, 10000); n++ {
		c.Emit("par hook g=%d k=%d r=%d n=%d v0=%d shake=%d", 2+r.Intn(7), 1+r.Intn(3), 1+r.Intn(3), 1+r.Intn(20),
			randBase(), r.Intn(2))
	}
}

func init() {
	registry["C11"] = &Prop{
		Procs: 16,
		Rule: "sch: updateSDPOrigin on one shared origin (verif hook VerifOrigin) from 1–4 harness threads with 1–3 " +
			"calls each under the cooperative scheduler — every schedule prefix of length 8 over 2 threads (complete: " +
			"covers every interleaving of two calls), of length 8 over 3 and length 7 over 4 threads (complete in the " +
			"thorough tier, sampled in quick), plus seeded random programs/schedules (one thread often starved so that " +
			"the others spin) with session ids and versions drawn from {typical, 1..3, close to 2^64} and a malformed " +
			"stream (id 0, version 0, wrapping version: outside the property's hypotheses, compared with the model " +
			"only); each observed trace is replayed by the Lean transition system. " +
			"seq: one real PeerConnection; scripted histories with a local / remote rollback in every signaling state " +
			"(stable, have-local-offer, have-remote-offer, have-local-pranswer, have-remote-pranswer, closed, stable " +
			"after a full exchange) followed by further offers/answers, and with an older offer / answer applied " +
			"after a newer one was created; plus random histories of 2–16 operations drawn from CreateOffer, " +
			"CreateAnswer, remote offer, remote answer / pranswer to our offer, SetLocalDescription(last answer, as " +
			"answer or pranswer / last offer / an OLDER offer or answer / rollback), SetRemoteDescription(rollback), " +
			"AddTransceiver, CreateDataChannel, a codec-less transceiver (makes CreateOffer run its 128-iteration " +
			"retry loop), Close; every o= line parsed. " +
			"par pc: 2–8 goroutines × 1–4 calls × 1–5 rounds (plus one 8 × 20 burst) of CreateOffer/CreateAnswer " +
			"released together on one real PeerConnection in have-remote-offer / stable. " +
			"par hook: the same on one shared origin without any lock — small mixes, 'cas-race' lines (300–2500 " +
			"fresh origins each raced by 2–8 goroutines; 'sweep': 2–8 goroutines walking over 4000–20000 fresh origins " +
			"without barriers) and 'long-burst' lines (3–8 goroutines × 2000–6000 adds each); " +
			"half of them with Gosched/short delays injected at the yield points. " +
			"race: 4–15 CreateOffer calls on one connection, each racing with Transceiver.Stop on a fresh transceiver " +
			"(provokes successful retries inside CreateOffer; only the comparison with the previous version is reported). " +
			"Non-trivial: distinct op lines with at least two completed calls.",
		Gen: func(c *Ctx) {
			c11GenSch(c)
			c11GenSeq(c)
			c11GenPar(c)
		},
		Exec: func(a []string) string {
			if len(a) == 0 {
				return "bad-op"
			}
			switch a[0] {
			case "sch":
				return c11Sch(a)
			case "seq":
				return c11Seq(a)
			case "par":
				return c11Par(a)
			case "race":
				return c11Race(a)
			}

			return "bad-op"
		},
		Class: func(a []string, out string) string {
			switch a[0] {
			case "sch":
				cl := "sch"
				nt := 0
				for _, t := range a[1:] {
					if t == "sched" {
						break
					}
					nt++
				}
				cl += fmt.Sprintf(" threads=%d", nt)
				if strings.Contains(out, ":origin.spin") {
					cl += " spin"
				}
				if specs, _, ok := c11ParseSch(a); ok && !c11Hyp(specs) {
					cl += " malformed"
				}

				return cl
			case "seq":
				cl := "seq"
				if strings.Contains(out, ":err") {
					cl += " with-failing-call"
				}
				if a[1] == "eng=p" {
					cl += " plan-b"
				}
				for _, t := range a[2:] {
					if t == "Rl" || t == "Rr" {
						cl += " rollback"

						break
					}
				}
				for _, t := range a[2:] {
					if t == "Ko" || t == "Lo" {
						cl += " older-description"

						break
					}
				}
				for _, t := range a[2:] {
					if t == "X" && a[1] == "eng=a" {
						cl += " retry-loop"

						break
					}
				}

				return cl
			case "race":
				return "race offer-vs-stop"
			case "par":
				if a[1] == "hook" {
					switch {
					case c11KV(a, "sweep", 0) != 0:
						return "par hook cas-race sweep"
					case c11KV(a, "n", 1) >= 300:
						return "par hook cas-race"
					case c11KV(a, "k", 1) >= 2000:
						return "par hook long-burst"
					}

					return "par hook"
				}

				return "par pc " + c11KVs(a, "st", "")
			}

			return ""
		},
		Trivial: func(a []string, out string) bool {
			switch a[0] {
			case "sch":
				f := strings.Split(out, "|")

				return len(f) < 2 || len(strings.Fields(f[1])) < 2
			case "race":
				return strings.Count(out, "i0:") < 2
			case "seq":
				return strings.Count(out, ":i") < 2
			case "par":
				f := strings.Split(out, "|")

				t := strings.Fields(strings.ReplaceAll(f[0], "/", " "))

				return len(t) < 1 || (len(t) == 1 && !strings.Contains(t[0], "-"))
			}

			return true
		},
		Timeout: 60e9,
	}
}
