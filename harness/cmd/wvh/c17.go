package main

import (
	"encoding/hex"
	"fmt"
	"math/rand"
	"strconv"
	"strings"

	"github.com/pion/webrtc/v4"
)

// C17 — codec compatibility (internal/fmtp Parse / Match) is symmetric and case-insensitive.
//
//	pair <mimeA> <clkA> <chA> <lineA> <mimeB> <clkB> <chB> <lineB> <nA> <mimeA'>*nA <nB> <mimeB'>*nB
//	    → <ab> <ba> <aa> <bb> {<a'b> <ba'>}*nA {<ab'> <b'a>}*nB <implA> <implB>
//	params <line>       → <n> {<key> <value>}*n
//	get <mime> <line> <key> → <found> <value>                 (Parse(mime,0,0,line).Parameter(key))
//	clk <mime> <a> <b>  → <ClockRateEqual(mime,a,b)> <ClockRateEqual(mime,b,a)>
//	chn <mime> <a> <b>  → <ChannelsEqual(mime,a,b)> <ChannelsEqual(mime,b,a)>
//	defaults            → <n> {<mime> <clock> <channels> <line> <self-match>}*n
//
// text tokens are hex of the UTF-8 bytes ("-" = empty).
func init() {
	registry["C17"] = &Prop{
		Workers: 8,
		Rule: "pair: codec A from a family grammar (H264 / VP9 / AV1 / opus / rtx / telephone-event / PCMU / PCMA / other " +
			"generic / near-miss mime types such as 'video/H2640' / random), clock rates and channel counts from boundary " +
			"pools (0 = use default, the defaults, 1, max); fmtp lines from per-family parameter grammars rendered with " +
			"adversarial syntax (random key/value case, blanks and Unicode spaces around segments and '=', empty segments, " +
			"trailing ';', duplicate keys, keys without '=', values containing '=', invalid / short / odd-length hex in " +
			"profile-level-id). Codec B is mostly derived from A (same mime under a random recasing in 75% of the pairs; " +
			"line = A's line identical / permuted and recased / values recased / one value changed / one parameter dropped / " +
			"added / duplicated, or independent). Each pair is evaluated in both orders, against itself, and with the mime " +
			"type of either side replaced by its ASCII upper-, lower- and randomly-cased forms, in 8% of the pairs also a " +
			"Unicode case variant (s→U+017F, k→U+212A) and in 4% a non-variant (ignored by the judge). ~12% of the pairs " +
			"come from a malformed stream (random text over letters, digits, ';', '=', blanks, control characters, Unicode " +
			"spaces, U+017F, U+212A, U+0130, caseless non-ASCII). Non-ASCII *cased* letters other than U+017F, U+212A, U+0130 are not generated (outside " +
			"the model's folding table). params: the lines of the pairs' grammar, parsed map compared with the model; get: " +
			"FMTP.Parameter(key) on those lines for stored / raw / recased / fixed keys. " +
			"clk/chn: every (mime, a, b) over the mime pool × boundary values (complete product). defaults: the codecs of " +
			"RegisterDefaultCodecs from the real engine. Trivial: a pair whose two mime types are not equal under case " +
			"folding (the answer is 0 for that reason alone), a params op with an empty line.",
		Gen: c17Gen,
		Exec: func(a []string) string {
			switch a[0] {
			case "pair":
				return c17Pair(a[1:])
			case "params":
				if len(a) != 2 {
					return "bad-op"
				}
				kv := webrtc.VerifFmtpParameters(c17Text(a[1]))
				out := []string{strconv.Itoa(len(kv))}
				for _, e := range kv {
					out = append(out, hx([]byte(e[0])), hx([]byte(e[1])))
				}

				return strings.Join(out, " ")
			case "get":
				if len(a) != 4 {
					return "bad-op"
				}
				v, ok := webrtc.VerifFmtpParameter(c17Text(a[1]), 0, 0, c17Text(a[2]), c17Text(a[3]))

				return b2s(ok) + " " + hx([]byte(v))
			case "clk", "chn":
				if len(a) != 4 {
					return "bad-op"
				}
				bits := 32
				if a[0] == "chn" {
					bits = 16
				}
				x, err1 := strconv.ParseUint(a[2], 10, bits)
				y, err2 := strconv.ParseUint(a[3], 10, bits)
				if err1 != nil || err2 != nil {
					return "bad-op"
				}
				mime := c17Text(a[1])
				if a[0] == "clk" {
					return b2s(webrtc.VerifFmtpClockRateEqual(mime, uint32(x), uint32(y))) + " " +
						b2s(webrtc.VerifFmtpClockRateEqual(mime, uint32(y), uint32(x)))
				}

				return b2s(webrtc.VerifFmtpChannelsEqual(mime, uint16(x), uint16(y))) + " " +
					b2s(webrtc.VerifFmtpChannelsEqual(mime, uint16(y), uint16(x)))
			case "defaults":
				cs, err := webrtc.VerifDefaultCodecs()
				if err != nil {
					return "error"
				}
				out := []string{strconv.Itoa(len(cs))}
				for _, c := range cs {
					self := webrtc.VerifFmtpMatch(c.MimeType, c.ClockRate, c.Channels, c.SDPFmtpLine,
						c.MimeType, c.ClockRate, c.Channels, c.SDPFmtpLine)
					out = append(out, hx([]byte(c.MimeType)), strconv.Itoa(int(c.ClockRate)),
						strconv.Itoa(int(c.Channels)), hx([]byte(c.SDPFmtpLine)), b2s(self))
				}

				return strings.Join(out, " ")
			}

			return "bad-op"
		},
		Class: func(a []string, out string) string {
			switch a[0] {
			case "pair":
				f := strings.Fields(out)
				if len(f) < 6 {
					return "pair ?"
				}
				fam := func(h string) string {
					switch c17Text(h) {
					case "video/h264":
						return "h264"
					case "video/vp9":
						return "vp9"
					case "video/av1":
						return "av1"
					}

					return "generic"
				}
				fa, fb := fam(f[len(f)-2]), fam(f[len(f)-1])
				// a generic codec whose mime type is literally "video/h264" cannot exist (Parse dispatches it)
				if fa > fb {
					fa, fb = fb, fa
				}

				return fmt.Sprintf("pair %s×%s →%s", fa, fb, f[0])
			case "params":
				f := strings.Fields(out)
				if len(f) == 0 {
					return "params ?"
				}
				n, _ := strconv.Atoi(f[0])
				if n > 4 {
					return "params n≥5"
				}

				return "params n=" + f[0]
			case "get":
				return "get found=" + strings.Fields(out + " ?")[0]
			case "clk", "chn":
				return a[0] + " →" + out
			}

			return a[0]
		},
		Trivial: func(a []string, out string) bool {
			switch a[0] {
			case "pair":
				return len(a) > 5 && !strings.EqualFold(c17Text(a[1]), c17Text(a[5]))
			case "params":
				return len(a) == 2 && a[1] == "-"
			}

			return false
		},
	}
}

// c17Text decodes a text token (hex of UTF-8 bytes, "-" = empty).
func c17Text(s string) string {
	if s == "-" {
		return ""
	}
	b, err := hex.DecodeString(s)
	if err != nil {
		return string(unhx(s))
	}

	return string(b)
}

func c17Codec(a []string) (mime string, clk uint32, ch uint16, line string, ok bool) {
	c, err1 := strconv.ParseUint(a[1], 10, 32)
	h, err2 := strconv.ParseUint(a[2], 10, 16)
	if err1 != nil || err2 != nil {
		return "", 0, 0, "", false
	}

	return c17Text(a[0]), uint32(c), uint16(h), c17Text(a[3]), true
}

func c17Pair(a []string) string {
	if len(a) < 10 {
		return "bad-op"
	}
	mA, cA, hA, lA, ok1 := c17Codec(a[0:4])
	mB, cB, hB, lB, ok2 := c17Codec(a[4:8])
	if !ok1 || !ok2 {
		return "bad-op"
	}
	rest := a[8:]
	takeN := func() ([]string, bool) {
		if len(rest) == 0 {
			return nil, false
		}
		n, err := strconv.Atoi(rest[0])
		if err != nil || n < 0 || len(rest) < 1+n {
			return nil, false
		}
		v := make([]string, n)
		for i := range v {
			v[i] = c17Text(rest[1+i])
		}
		rest = rest[1+n:]

		return v, true
	}
	vA, ok1 := takeN()
	vB, ok2 := takeN()
	if !ok1 || !ok2 || len(rest) != 0 {
		return "bad-op"
	}
	m := func(m1 string, c1 uint32, h1 uint16, l1 string, m2 string, c2 uint32, h2 uint16, l2 string) string {
		return b2s(webrtc.VerifFmtpMatch(m1, c1, h1, l1, m2, c2, h2, l2))
	}
	out := []string{
		m(mA, cA, hA, lA, mB, cB, hB, lB), m(mB, cB, hB, lB, mA, cA, hA, lA),
		m(mA, cA, hA, lA, mA, cA, hA, lA), m(mB, cB, hB, lB, mB, cB, hB, lB),
	}
	for _, v := range vA {
		out = append(out, m(v, cA, hA, lA, mB, cB, hB, lB), m(mB, cB, hB, lB, v, cA, hA, lA))
	}
	for _, v := range vB {
		out = append(out, m(mA, cA, hA, lA, v, cB, hB, lB), m(v, cB, hB, lB, mA, cA, hA, lA))
	}
	out = append(out, hx([]byte(webrtc.VerifFmtpMimeType(mA, cA, hA, lA))), hx([]byte(webrtc.VerifFmtpMimeType(mB, cB, hB, lB))))

	return strings.Join(out, " ")
}

// ---------------------------------------------------------------------------------------------------
// generators

type c17kv struct {
	k, v string
	eq   bool
}

var c17Mimes = []string{
	"video/H264", "video/VP9", "video/AV1", "audio/opus", "audio/PCMU", "audio/PCMA", "audio/G722", "video/VP8",
	"video/rtx", "video/H265", "video/flexfec-03", "video/flexfec", "video/ulpfec", "audio/telephone-event", "audio/red",
	"audio/speex", "audio/isac", "audio/silk", "video/mkv",
}

var c17NearMiss = []string{
	"video/H2640", "video/H26", "video/VP90", "video/VP", "video/AV", "video/AV11", "video/h264 ", " video/h264",
	"", "video", "video/", "aud\u0130o/opus", "v\u0130deo/h264", "audio/opu", "audio/opuss", "audio/pcm", "audio/pcmuu", "audio/h264", "video/opus",
	"audio/€x", "audio/中", "video/h264;", "audio/opuſ", "audio/pcmu ",
}

func c17Pick(r *rand.Rand, xs []string) string { return xs[r.Intn(len(xs))] }

// ASCII-only recasing: mode 0 upper, 1 lower, 2 random per letter, 3 swap, <0 unchanged
func c17Recase(r *rand.Rand, s string, mode int) string {
	if mode < 0 {
		return s
	}
	rs := []rune(s)
	for i, c := range rs {
		up := c >= 'A' && c <= 'Z'
		lo := c >= 'a' && c <= 'z'
		if !up && !lo {
			continue
		}
		toUp := false
		switch mode {
		case 0:
			toUp = true
		case 1:
			toUp = false
		case 2:
			toUp = r.Intn(2) == 0
		default:
			toUp = lo
		}
		if toUp && lo {
			rs[i] = c - 32
		} else if !toUp && up {
			rs[i] = c + 32
		}
	}

	return string(rs)
}

// Unicode case variant: one s/S → U+017F or one k/K → U+212A (or back); falls back to ASCII recasing
func c17UnicodeVariant(r *rand.Rand, s string) string {
	rs := []rune(s)
	idx := []int{}
	for i, c := range rs {
		switch c {
		case 's', 'S', 'k', 'K', '\u017f', '\u212a':
			idx = append(idx, i)
		}
	}
	if len(idx) == 0 {
		return c17Recase(r, s, 2)
	}
	i := idx[r.Intn(len(idx))]
	switch rs[i] {
	case 's', 'S':
		rs[i] = '\u017f'
	case 'k', 'K':
		rs[i] = '\u212a'
	case '\u017f':
		rs[i] = []rune{'s', 'S'}[r.Intn(2)]
	default:
		rs[i] = []rune{'k', 'K'}[r.Intn(2)]
	}

	return string(rs)
}

func c17NonVariant(r *rand.Rand, s string) string {
	rs := []rune(s)
	if len(rs) == 0 {
		return "x"
	}
	i := r.Intn(len(rs))
	switch r.Intn(3) {
	case 0:
		if rs[i] == 'q' || rs[i] == 'Q' {
			rs[i] = 'z'
		} else {
			rs[i] = 'q'
		}
	case 1:
		return string(rs[:i]) + string(rs[i+1:])
	default:
		return string(rs) + "x"
	}

	return string(rs)
}

var c17Alphabet = []rune("abcdefghijklmnopqrstuvwxyzABCDEFGHIJKLMNOPQRSTUVWXYZ0123456789;;;===  \t-_,/.+\n\r\x00\x7f" +
	"\u00a0\u3000\u0085\u2028\u200a\u200b\u1680\u202f\u205f\u017f\u212a\u0130\u4e2d\u20ac")

func c17RandomText(r *rand.Rand, maxLen int) string {
	n := r.Intn(maxLen + 1)
	rs := make([]rune, n)
	for i := range rs {
		rs[i] = c17Alphabet[r.Intn(len(c17Alphabet))]
	}

	return string(rs)
}

var c17Plids = []string{
	"42001f", "42e01f", "4d001f", "64001f", "640032", "424200", "4242", "e0e01f", "42424d", "004200", "42E01F", "42001F", "42e034", "4200", "420", "42", "4", "",
	"zz001f", "42zz1f", "4200zz", "42001", "42001fff", "42 001f", "0x42001f", "42001\u017f", "４2001f", "42001f ", "4D001F",
}

func c17FamilyParams(r *rand.Rand, mime string) []c17kv {
	kvs := []c17kv{}
	add := func(k, v string) { kvs = append(kvs, c17kv{k, v, true}) }
	switch strings.ToLower(mime) {
	case "video/h264":
		if r.Intn(10) < 7 {
			add("level-asymmetry-allowed", c17Pick(r, []string{"1", "0"}))
		}
		switch x := r.Intn(20); {
		case x < 9:
			add("packetization-mode", "1")
		case x < 14:
			add("packetization-mode", "0")
		case x < 15:
			add("packetization-mode", "2")
		case x < 16:
			add("packetization-mode", c17Pick(r, []string{"", "", "01", " 1", "1 ", "one"}))
		case x < 18:
			kvs = append(kvs, c17kv{"packetization-mode", "", false})
		}
		if r.Intn(12) != 0 {
			if r.Intn(2) == 0 {
				add("profile-level-id", c17Plids[r.Intn(6)]) // the common well-formed ones
			} else {
				add("profile-level-id", c17Plids[r.Intn(len(c17Plids))])
			}
		}
		if r.Intn(6) == 0 {
			add("sprop-parameter-sets", "Z0IAH5WoFAFuQA==,aM48gA==")
		}
		if r.Intn(10) == 0 {
			add("max-fs", "12288")
		}
	case "video/vp9":
		if r.Intn(4) != 0 {
			add("profile-id", c17Pick(r, []string{"0", "0", "1", "2", "3", "00", "", " 0", "a", "A"}))
		}
		if r.Intn(6) == 0 {
			add("max-fr", "30")
		}
	case "video/av1":
		if r.Intn(4) != 0 {
			add("profile", c17Pick(r, []string{"0", "0", "1", "2", "00", "", "0 ", "main", "Main"}))
		}
		if r.Intn(3) == 0 {
			add("level-idx", c17Pick(r, []string{"5", "8"}))
		}
		if r.Intn(3) == 0 {
			add("tier", c17Pick(r, []string{"0", "1"}))
		}
	case "audio/opus":
		if r.Intn(4) != 0 {
			add("minptime", c17Pick(r, []string{"10", "20"}))
		}
		if r.Intn(4) != 0 {
			add("useinbandfec", c17Pick(r, []string{"1", "0"}))
		}
		if r.Intn(4) == 0 {
			add("stereo", "1")
		}
		if r.Intn(8) == 0 {
			kvs = append(kvs, c17kv{"usedtx", "", false})
		}
	case "video/rtx":
		add("apt", strconv.Itoa(96+r.Intn(6)))
		if r.Intn(5) == 0 {
			add("rtx-time", "3000")
		}
	case "audio/telephone-event":
		kvs = append(kvs, c17kv{c17Pick(r, []string{"0-16", "0-15"}), "", false})
	default:
		n := r.Intn(4)
		for i := 0; i < n; i++ {
			k := c17Pick(r, []string{"a", "b", "apt", "x-y", "mode", "profile", "profile-id", "packetization-mode",
				"profile-level-id", "k", "s", "K", "i", "I", "\u0130", "\u212a", "\u017f", "\u00e9"})
			v := c17Pick(r, []string{"0", "1", "2", "yes", "YES", "Yes", "", "a=b", " 1", "\u017f", "s", "S", "k", "K", "\u212a", "\u0130", "i",
				"42001f", "中", "x;"})
			v = strings.ReplaceAll(v, ";", "")
			if r.Intn(8) == 0 {
				kvs = append(kvs, c17kv{k, "", false})
			} else {
				add(k, v)
			}
		}
	}

	return kvs
}

var c17Blank = []string{" ", " ", " ", "\t", "  ", "\u00a0", "\u3000", "\n", "\u0085", "\u2009", "\r\n"}

// level 0: canonical "k=v;k=v"; 1: browser style "k=v; k=v" + key recasing; 2: adversarial
func c17Render(r *rand.Rand, kvs []c17kv, level int) string {
	segs := []string{}
	for _, e := range kvs {
		k, v := e.k, e.v
		if level >= 1 && r.Intn(3) == 0 {
			k = c17Recase(r, k, r.Intn(4))
		}
		s := k
		if e.eq {
			eq := "="
			if level >= 2 && r.Intn(10) == 0 {
				eq = c17Pick(r, []string{" =", "= ", " = ", "=="})
			}
			s += eq + v
		}
		if level >= 1 && r.Intn(3) == 0 {
			s = c17Pick(r, c17Blank) + s
		}
		if level >= 2 && r.Intn(6) == 0 {
			s += c17Pick(r, c17Blank)
		}
		segs = append(segs, s)
		if level >= 2 && r.Intn(15) == 0 {
			segs = append(segs, c17Pick(r, []string{"", " ", "\t", "="}))
		}
	}
	line := strings.Join(segs, ";")
	if level >= 2 && r.Intn(8) == 0 {
		line += ";"
	}
	if level >= 2 && r.Intn(20) == 0 {
		line = ";" + line
	}

	return line
}

func c17RecaseValue(r *rand.Rand, v string) string {
	if r.Intn(6) == 0 {
		return c17UnicodeVariant(r, v)
	}

	return c17Recase(r, v, r.Intn(4))
}

// derive B's parameters from A's
func c17Derive(r *rand.Rand, mime string, kvs []c17kv) ([]c17kv, string) {
	out := append([]c17kv{}, kvs...)
	switch x := r.Intn(100); {
	case x < 15:
		return out, "same"
	case x < 35:
		r.Shuffle(len(out), func(i, j int) { out[i], out[j] = out[j], out[i] })

		return out, "permuted"
	case x < 45:
		for i := range out {
			out[i].v = c17RecaseValue(r, out[i].v)
		}

		return out, "values-recased"
	case x < 60:
		if len(out) > 0 {
			i := r.Intn(len(out))
			alt := c17FamilyParams(r, mime)
			changed := false
			for _, e := range alt {
				if e.k == out[i].k && e.v != out[i].v {
					out[i] = e
					changed = true
				}
			}
			if !changed {
				out[i].v += c17Pick(r, []string{"0", "x", " ", "f"})
				out[i].eq = true
			}
		}

		return out, "value-changed"
	case x < 70:
		if len(out) > 0 {
			i := r.Intn(len(out))
			out = append(out[:i:i], out[i+1:]...)
		}

		return out, "dropped"
	case x < 80:
		extra := c17FamilyParams(r, c17Pick(r, c17Mimes))
		if len(extra) > 0 {
			e := extra[r.Intn(len(extra))]
			i := r.Intn(len(out) + 1)
			out = append(out[:i:i], append([]c17kv{e}, out[i:]...)...)
		}

		return out, "added"
	case x < 86:
		if len(out) > 0 {
			e := out[r.Intn(len(out))]
			e.v = c17Pick(r, []string{"0", "1", "2", e.v + "0", "", "42e01f"})
			e.eq = true
			if r.Intn(2) == 0 {
				out = append(out, e) // later duplicate wins
			} else {
				out = append([]c17kv{e}, out...) // earlier duplicate loses
			}
		}

		return out, "duplicated"
	case x < 95:
		return c17FamilyParams(r, mime), "independent"
	}

	return c17FamilyParams(r, c17Pick(r, c17Mimes)), "other-family"
}

var (
	c17Clocks   = []uint32{0, 0, 90000, 90000, 48000, 8000, 16000, 44100, 1, 4294967295, 89999, 90001}
	c17Channels = []uint16{0, 0, 0, 1, 2, 2, 6, 65535}
)

func c17DefaultClock(mime string) uint32 {
	switch strings.ToLower(mime) {
	case "audio/opus":
		return 48000
	case "audio/pcmu", "audio/pcma", "audio/g722":
		return 8000
	}

	return 90000
}

func c17Variants(r *rand.Rand, mime string) []string {
	v := []string{c17Recase(r, mime, 0), c17Recase(r, mime, 1), c17Recase(r, mime, 2)}
	if r.Intn(100) < 8 {
		v = append(v, c17UnicodeVariant(r, mime))
	}
	if r.Intn(100) < 4 {
		v = append(v, c17NonVariant(r, mime))
	}

	return v
}

func c17EmitPair(c *Ctx, mA string, cA uint32, hA uint16, lA string, mB string, cB uint32, hB uint16, lB string,
	vA, vB []string,
) {
	sb := strings.Builder{}
	fmt.Fprintf(&sb, "pair %s %d %d %s %s %d %d %s %d", hx([]byte(mA)), cA, hA, hx([]byte(lA)),
		hx([]byte(mB)), cB, hB, hx([]byte(lB)), len(vA))
	for _, v := range vA {
		sb.WriteString(" " + hx([]byte(v)))
	}
	fmt.Fprintf(&sb, " %d", len(vB))
	for _, v := range vB {
		sb.WriteString(" " + hx([]byte(v)))
	}
	c.Emit("%s", sb.String())
}

func c17Gen(c *Ctx) {
	r := c.Rng
	c.Emit("defaults")

	// ClockRateEqual / ChannelsEqual: complete product over the pools
	mimes := append(append([]string{}, c17Mimes...), c17NearMiss...)
	mimes = append(mimes, "AUDIO/OPUS", "Audio/Opus", "audio/PCMu", "audio/pcma", "audio/opuS", "audio/OPU\u017f", "audio/pcm\u212a", "video/m\u212av", "aud\u0130o/opus", "AUD\u0130O/PCMA")
	clocks := []uint32{0, 1, 8000, 48000, 90000, 4294967295}
	chans := []uint16{0, 1, 2, 3, 65535}
	for _, m := range mimes {
		for _, x := range clocks {
			for _, y := range clocks {
				c.Emit("clk %s %d %d", hx([]byte(m)), x, y)
			}
		}
		for _, x := range chans {
			for _, y := range chans {
				c.Emit("chn %s %d %d", hx([]byte(m)), x, y)
			}
		}
	}

	// fixed pairs: every default codec against every default codec (both orders are part of each op)
	if defs, err := webrtc.VerifDefaultCodecs(); err == nil {
		for i, a := range defs {
			for j, b := range defs {
				if j < i {
					continue
				}
				c17EmitPair(c, a.MimeType, a.ClockRate, a.Channels, a.SDPFmtpLine,
					b.MimeType, b.ClockRate, b.Channels, b.SDPFmtpLine,
					[]string{c17Recase(r, a.MimeType, 0), c17Recase(r, a.MimeType, 1)},
					[]string{c17Recase(r, b.MimeType, 3)})
			}
		}
	}

	lines := []string{}
	n := c.N(20000, 400000)
	for i := 0; i < n; i++ {
		var mA, mB, lA, lB string
		var cA, cB uint32
		var hA, hB uint16
		if r.Intn(100) < 12 {
			// malformed stream
			mA = c17RandomText(r, 12)
			if r.Intn(2) == 0 {
				mA = c17Pick(r, c17Mimes)
			}
			switch r.Intn(3) {
			case 0:
				mB = c17Recase(r, mA, 2)
			case 1:
				mB = c17UnicodeVariant(r, mA)
			default:
				mB = c17RandomText(r, 12)
			}
			lA = c17RandomText(r, 40)
			switch r.Intn(3) {
			case 0:
				lB = lA
			case 1:
				lB = c17Recase(r, lA, 2)
			default:
				lB = c17RandomText(r, 40)
			}
			cA, cB = c17Clocks[r.Intn(len(c17Clocks))], c17Clocks[r.Intn(len(c17Clocks))]
			hA, hB = c17Channels[r.Intn(len(c17Channels))], c17Channels[r.Intn(len(c17Channels))]
		} else {
			switch x := r.Intn(100); {
			case x < 22:
				mA = "video/H264"
			case x < 32:
				mA = "video/VP9"
			case x < 42:
				mA = "video/AV1"
			case x < 54:
				mA = "audio/opus"
			case x < 84:
				mA = c17Pick(r, c17Mimes)
			case x < 94:
				mA = c17Pick(r, c17NearMiss)
			default:
				mA = c17Pick(r, []string{"audio/", "video/", "", "x-"}) + strings.Trim(c17RandomText(r, 6), ";= \t\n\r")
			}
			fam := mA
			mA = c17Recase(r, mA, []int{1, 1, 0, 2, 3, -1, -1, -1}[r.Intn(8)])
			switch x := r.Intn(100); {
			case x < 75:
				mB = c17Recase(r, mA, r.Intn(4))
			case x < 80:
				mB = c17UnicodeVariant(r, mA)
			case x < 90:
				mB = c17Pick(r, c17Mimes)
			default:
				mB = c17Pick(r, c17NearMiss)
			}
			kA := c17FamilyParams(r, fam)
			kB, _ := c17Derive(r, fam, kA)
			lA = c17Render(r, kA, r.Intn(3))
			lB = c17Render(r, kB, r.Intn(3))
			cA = c17Clocks[r.Intn(len(c17Clocks))]
			if r.Intn(3) == 0 {
				cA = c17DefaultClock(fam)
			}
			switch x := r.Intn(10); {
			case x < 5:
				cB = cA
			case x < 7:
				cB = 0
			case x < 8:
				cB = c17DefaultClock(fam)
			default:
				cB = c17Clocks[r.Intn(len(c17Clocks))]
			}
			hA = c17Channels[r.Intn(len(c17Channels))]
			switch x := r.Intn(10); {
			case x < 5:
				hB = hA
			case x < 7:
				hB = 0
			default:
				hB = c17Channels[r.Intn(len(c17Channels))]
			}
		}
		c17EmitPair(c, mA, cA, hA, lA, mB, cB, hB, lB, c17Variants(r, mA), c17Variants(r, mB))
		if i%10 == 0 {
			lines = append(lines, lA, lB)
		}
	}
	for _, l := range lines {
		c.Emit("params %s", hx([]byte(l)))
	}
	for i := 0; i < c.N(500, 5000); i++ {
		c.Emit("params %s", hx([]byte(c17RandomText(r, 60))))
	}
	// Parameter(key): keys taken from the line (as Parse stores them, raw, or recased) and from a fixed pool
	for i, l := range lines {
		if i%2 == 1 && !c.Thorough() {
			continue
		}
		segs := strings.Split(l, ";")
		raw := strings.SplitN(segs[r.Intn(len(segs))], "=", 2)[0]
		key := strings.ToLower(strings.TrimSpace(raw))
		switch r.Intn(10) {
		case 0:
			key = raw
		case 1:
			key = c17Recase(r, key, 0)
		case 2:
			key = c17Pick(r, []string{"apt", "profile-id", "packetization-mode", "profile-level-id", "profile", "", "a", "k"})
		}
		c.Emit("get %s %s %s", hx([]byte(c17Pick(r, c17Mimes))), hx([]byte(l)), hx([]byte(key)))
	}
}
