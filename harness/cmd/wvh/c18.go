package main

import (
	"fmt"
	"sort"
	"strconv"
	"strings"
	"sync"
	"sync/atomic"
	"time"

	"github.com/pion/webrtc/v4"
)

// C18 — data channel stream ids: uniqueness and DTLS-role parity.
//
//	pure [M<maxVal>] {r<lo>:<hi>:<step> | a<id>}* ; {g<role> | m<id>}*
//	    bare SCTPTransport (hook): generateAndSetDataChannelID / onDataChannel on a pre-filled id set
//	    → <id>|E per g, "." per m, then "D <keys added>"
//	hist <c|s> <tok>*
//	    two real PeerConnections a (offerer, DTLS role given) and b over loopback; see lean/WebrtcVerif/Drv/C18.lean
//	    → R <roleA> <roleB> then per token "| <ids a> / <ids b> / <accepted a> / <accepted b>"
func init() {
	registry["C18"] = &Prop{
		Workers: 12,
		Timeout: 5 * time.Minute,
		Rule: "pure: generateAndSetDataChannelID and onDataChannel on a bare SCTPTransport through a verif hook; id sets are " +
			"structured (empty, each parity full with holes at the first/last/middle ids, everything used, dense prefixes, " +
			"random sparse sets, maxChannels 1..12 and 65533..65535) and each line makes more generate calls than there are " +
			"free ids so that exhaustion is reached; roles are client/server plus a malformed stream of other role bytes. " +
			"hist: seeded random histories on two real PeerConnections connected over loopback (a offers; both DTLS role " +
			"assignments via SetAnsweringDTLSRole): CreateDataChannel with/without id, negotiated or in-band, before and " +
			"after SCTP is up, channels accepted from the peer, closes, concurrent bursts of CreateDataChannel on both sides " +
			"(results renamed to the observed registration order), explicit ids chosen to collide with ids the generator " +
			"would pick next, duplicates of open channels (malformed stream), id sets pre-filled through a hook up to " +
			"exhaustion. Explicit ids are kept clear of stream ids the peer may pick concurrently so that outputs are " +
			"deterministic. Scheduled histories (run one at a time) park goroutines at three verifYield points — " +
			"CreateDataChannel after its registration, open before the generator call, open before `d.id = dcID`, " +
			"for CreateDataChannel calls and for Start's open loop — and release them in a seeded order while side a " +
			"keeps creating/closing channels; the Lean model replays the same order of atomic sections. " +
			"Trivial: a pure line without a successful generate; a history that assigns no id.",
		Gen:  c18Gen,
		Exec: c18Exec,
		Class: func(a []string, out string) string {
			if a[0] == "pure" {
				cl := "pure"
				if strings.Contains(out, "E") {
					cl += " exhausted"
				}
				for _, t := range a {
					if strings.HasPrefix(t, "M") {
						cl += " maxChannels"
					}
				}

				return cl
			}
			cl := "hist role=" + a[1]
			s := strings.Join(a, " ")
			if strings.Contains(s, "B:") || strings.Contains(s, "L:") {
				cl += " burst"
			}
			for _, t := range a[2:] {
				if (len(t) >= 2 && strings.ContainsRune("pz", rune(t[1])) && t != "connect") || strings.HasPrefix(t, "L:") {
					cl += " scheduled"

					break
				}
			}
			for _, t := range a[2:] {
				if len(t) >= 2 && t[1] == 'f' {
					cl += " prefilled"

					break
				}
			}
			if strings.Contains(out, "E") {
				cl += " create-error"
			}

			return cl
		},
		Trivial: func(a []string, out string) bool {
			if a[0] == "pure" {
				for _, t := range strings.Fields(out) {
					if _, err := strconv.Atoi(t); err == nil {
						return false
					}
					if t == "D" {
						break
					}
				}

				return true
			}
			// a history is trivial when no channel created without id ever shows an id
			return !c18HistAssigns(a, out)
		},
	}
}

func c18HistAssigns(a []string, out string) bool {
	snaps := strings.Split(out, "|")
	if len(snaps) < 2 {
		return false
	}
	last := strings.Split(snaps[len(snaps)-1], "/")
	if len(last) < 2 {
		return false
	}
	kinds := map[byte][]bool{}
	for _, t := range a[2:] {
		for _, c := range strings.Split(strings.TrimPrefix(strings.TrimPrefix(t, "B:"), "L:"), "+") {
			if len(c) >= 4 && c[1] == 'p' { // parked create: <side>p<stage><kind>…
				c = c[:1] + c[3:]
			}
			if len(c) >= 2 && (c[1] == 'u' || c[1] == 'v' || c[1] == 'e' || c[1] == 'n') {
				kinds[c[0]] = append(kinds[c[0]], c[1] == 'u' || c[1] == 'v')
			}
		}
	}
	for si, side := range []byte{'a', 'b'} {
		cells := strings.Split(strings.TrimSpace(last[si]), ",")
		for j, c := range cells {
			if j < len(kinds[side]) && kinds[side][j] {
				if _, err := strconv.Atoi(c); err == nil {
					return true
				}
			}
		}
	}

	return false
}

// ---------------------------------------------------------------------------------------------
// generators

func c18Gen(c *Ctx) { //nolint:cyclop
	// ---- pure: structured
	for _, role := range []int{0, 1, 2, 3, 4, 255} {
		c.Emit("pure ; g%d g%d g%d", role, role, role)
	}
	c.Emit("pure r0:65535:1 ; g2 g3")
	c.Emit("pure r0:65532:2 ; g2 g3 g2")
	c.Emit("pure r1:65533:2 ; g3 g2 g3")
	c.Emit("pure r0:65534:2 ; g2 g3")
	c.Emit("pure r1:65535:2 ; g3 g2")
	c.Emit("pure r0:65530:2 ; g2 g2 g2 m65534 g2") // last client id free, then exhausted; 65534 never handed out
	c.Emit("pure r1:65531:2 ; g3 g3 g3 m65535 g3") // last server id free
	c.Emit("pure r2:65532:2 ; g2 g2")              // first client id free
	c.Emit("pure r3:65533:2 ; g3 g3")              // first server id free
	c.Emit("pure r0:65533:1 ; g2 g3 g2 g3")        // only 65534/65535 free: both roles exhausted
	c.Emit("pure r0:65531:1 ; g2 g3 g2 g3 g2 g3")  // 65532 and 65533 free
	c.Emit("pure r0:30000:2 r30004:65532:2 ; g2 g2 g3 g2")
	for _, m := range []int{1, 2, 3, 4, 5, 6, 7, 8, 9, 10, 11, 12, 65533, 65534, 65535} {
		c.Emit("pure M%d ; g2 g3 g2 g3 g2 g3 g2 g3 g2 g3 g2 g3 g2 g3", m)
		c.Emit("pure M%d r0:65527:1 ; g2 g3 g2 g3 g2 g3 g2 g3 g2 g3", m)
	}
	// ---- pure: random
	for n := 0; n < c.N(260, 10000); n++ {
		sb := strings.Builder{}
		sb.WriteString("pure")
		holes := []int{}
		switch k := c.Rng.Intn(10); {
		case k < 3: // one parity (or both) nearly full, a few holes anywhere incl. the boundaries
			par := c.Rng.Intn(3) // 0 even, 1 odd, 2 both
			nh := c.Rng.Intn(4)
			for i := 0; i < nh; i++ {
				var h int
				switch c.Rng.Intn(4) {
				case 0:
					h = c.Rng.Intn(8)
				case 1:
					h = 65535 - c.Rng.Intn(8)
				default:
					h = c.Rng.Intn(65536)
				}
				holes = append(holes, h)
			}
			sort.Ints(holes)
			for _, p := range []int{0, 1} {
				if par != 2 && par != p {
					continue
				}
				lo := p
				for _, h := range holes {
					if h%2 != p || h < lo {
						continue
					}
					if h-2 >= lo {
						fmt.Fprintf(&sb, " r%d:%d:2", lo, h-2)
					}
					lo = h + 2
				}
				if lo <= 65535 {
					fmt.Fprintf(&sb, " r%d:65535:2", lo)
				}
			}
		case k < 5: // dense prefix then random singles
			fmt.Fprintf(&sb, " r0:%d:1", c.Rng.Intn(300))
			for i := c.Rng.Intn(20); i > 0; i-- {
				fmt.Fprintf(&sb, " a%d", c.Rng.Intn(400))
			}
		case k < 8: // sparse random
			for i := c.Rng.Intn(120); i > 0; i-- {
				fmt.Fprintf(&sb, " a%d", c.Rng.Intn(1+c.Rng.Intn(200)))
			}
		default: // progressions with odd steps and overlaps
			for i := 1 + c.Rng.Intn(4); i > 0; i-- {
				lo := c.Rng.Intn(50)
				fmt.Fprintf(&sb, " r%d:%d:%d", lo, lo+c.Rng.Intn(200), 1+c.Rng.Intn(5))
			}
		}
		if c.Rng.Intn(12) == 0 {
			m := []int{1, 2, 3, 7, 8, 20, 21, 65534, 65533, 100}[c.Rng.Intn(10)]
			fmt.Fprintf(&sb, " M%d", m)
		}
		sb.WriteString(" ;")
		nops := 3 + c.Rng.Intn(10) + len(holes)
		for i := 0; i < nops; i++ {
			switch r := c.Rng.Intn(20); {
			case r < 8:
				sb.WriteString(" g2")
			case r < 16:
				sb.WriteString(" g3")
			case r < 17: // malformed role byte
				fmt.Fprintf(&sb, " g%d", []int{0, 1, 4, 7, 255}[c.Rng.Intn(5)])
			default:
				v := c.Rng.Intn(40)
				if c.Rng.Intn(4) == 0 {
					v = 65535 - c.Rng.Intn(6)
				}
				fmt.Fprintf(&sb, " m%d", v)
			}
		}
		c.Emit("%s", sb.String())
	}
	// ---- hist: fixed
	c.Emit("hist c au connect au bu au bu")
	c.Emit("hist s au connect au bu au bu")
	c.Emit("hist c au ae0 ae2 bu be1 connect au bu ae6 au be5 bu")
	c.Emit("hist s au au ak1 bu connect au ak0 au br2 au")
	c.Emit("hist c af0:65528:2 au au au an65534 connect au bu")
	c.Emit("hist s af1:65529:2 au au au an65535 connect au bu")
	c.Emit("hist c ae65535 ae65534 au connect an65533 au")
	c.Emit("hist c au connect B:au+au+au+bu+bu ae1 bu B:bu+bu+au")
	// ---- hist: random
	for n := 0; n < c.N(36, 1800); n++ {
		c.Emit("%s", c18GenHist(c))
	}
	// ---- hist with schedule control (goroutines parked at the yield points); these run one at a time
	c.Emit("hist c apru azg connect aq0 au ay au bu") // CreateDataChannel's open vs Start's open on one channel
	c.Emit("hist s apru azs connect aq0 au ay au bu")
	c.Emit("hist c au connect apgu ae2 aq1 au")             // explicit id takes what the parked generator call would get
	c.Emit("hist s au connect apsu au aq1 au apsv ae5 aq4") // generated but not yet stored: already registered
	c.Emit("hist c au au azg connect au ae2 ak1 ay au")     // creates while Start is parked before its first generate
	c.Emit("hist c apru connect aq0 au")
	c.Emit("hist c au connect apre2 au aq1 au") // explicit id registered before the call returns
	c.Emit("hist s apre1 au connect aq0 au")
	c.Emit("hist c au connect L:au+au+au+au au") // the generator's test-and-set is one critical section
	c.Emit("hist s au connect L:av+av+av bu L:au+au")
	for n := 0; n < c.N(8, 360); n++ {
		c.Emit("%s", c18GenRace(c))
	}
}

// c18GenRace: histories in which only side a acts while goroutines are parked (b creates channels only at
// the very end), so that whatever reaches a yield label belongs to the goroutine the history parked.
func c18GenRace(c *Ctx) string { //nolint:cyclop
	roleA := []string{"c", "s"}[c.Rng.Intn(2)]
	par := 0
	if roleA == "s" {
		par = 1
	}
	toks := []string{}
	nslots := 0
	parkedSlots := []int{}
	closedAny := false
	connected := false
	startParked := false
	create := func() string {
		nslots++
		switch r := c.Rng.Intn(10); {
		case r < 6 || closedAny:
			return "u"
		case r < 7:
			return "v"
		default:
			return fmt.Sprintf("e%d", par+2*c.Rng.Intn(8))
		}
	}
	op := func() {
		switch r := c.Rng.Intn(20); {
		case r < 6:
			toks = append(toks, "a"+create())
		case r < 9:
			// a parked CreateDataChannel with an EXPLICIT id next to later creates / closes of the same id is
			// decided by the Go scheduler (who registers the id first), not by the history: random histories
			// park creates with generated ids only; the scripted lines keep the deterministic explicit ones
			parkedSlots = append(parkedSlots, nslots)
			k := create()
			if strings.HasPrefix(k, "e") {
				k = "u"
			}
			toks = append(toks, "apr"+k)
		case r < 13 && connected:
			stage := []string{"g", "s"}[c.Rng.Intn(2)]
			parkedSlots = append(parkedSlots, nslots)
			kind := "u"
			if c.Rng.Intn(4) == 0 {
				kind = "v"
			}
			nslots++
			toks = append(toks, "ap"+stage+kind)
		case r < 16 && len(parkedSlots) > 0:
			i := c.Rng.Intn(len(parkedSlots))
			toks = append(toks, fmt.Sprintf("aq%d", parkedSlots[i]))
			parkedSlots = append(parkedSlots[:i], parkedSlots[i+1:]...)
		case r < 17 && nslots > 0:
			// Close of a slot whose CreateDataChannel is still parked races with the open that the release
			// performs (whether the peer still sees the channel is decided by the Go scheduler, not by the
			// history): random histories close settled slots only
			j := c.Rng.Intn(nslots)
			parked := false
			for _, p := range parkedSlots {
				parked = parked || p == j
			}
			if parked {
				toks = append(toks, "au")
				nslots++

				break
			}
			toks = append(toks, fmt.Sprintf("ak%d", j))
			closedAny = true
		case r < 19 && startParked:
			toks = append(toks, "ay")
			startParked = false
		case r < 20 && connected && !startParked && len(parkedSlots) == 0:
			n := 2 + c.Rng.Intn(3)
			parts := make([]string, n)
			for i := range parts {
				parts[i] = "au"
			}
			nslots += n
			toks = append(toks, "L:"+strings.Join(parts, "+"))
		default:
			toks = append(toks, "a"+create())
		}
	}
	toks = append(toks, []string{"au", "apru", "av"}[c.Rng.Intn(3)])
	if toks[0] == "apru" {
		parkedSlots = append(parkedSlots, 0)
	}
	nslots = 1
	for i := c.Rng.Intn(4); i > 0; i-- {
		op()
	}
	if c.Rng.Intn(3) > 0 {
		// Start is parked at its first generate (g) or, when every channel created so far gets a generated id
		// and none was closed, at its first store (s). With an explicit id or a closed slot before `connect`,
		// which goroutine reaches the armed `s` gate first is a real race between Start's open loop and the
		// other openers, so the run is not reproducible; those histories park at g only (the scripted lines
		// `hist s apru azs connect …` keep the deterministic s-park).
		stage := []string{"g", "s"}[c.Rng.Intn(2)]
		for _, t := range toks {
			if strings.HasPrefix(t, "ae") || strings.HasPrefix(t, "af") || strings.HasPrefix(t, "ak") {
				stage = "g"
			}
		}
		toks = append(toks, "az"+stage)
		startParked = true
	}
	toks = append(toks, "connect")
	connected = true
	for i := 2 + c.Rng.Intn(c.N(6, 10)); i > 0; i-- {
		op()
	}
	if startParked {
		toks = append(toks, "ay")
	}
	for _, j := range parkedSlots {
		toks = append(toks, fmt.Sprintf("aq%d", j))
	}
	toks = append(toks, "au", "bu", "bu", "au")

	return "hist " + roleA + " " + strings.Join(toks, " ")
}

// generator-side bookkeeping: which ids each side has registered / which streams are open, so that the
// generated explicit ids produce deterministic outcomes (see Rule).
type c18Sim struct {
	par       [2]int // parity each side generates
	used      [2]map[int]bool
	streams   [2]map[int]bool
	dead      map[int]bool // ids of closed channels: their streams go away asynchronously
	ids       [2][]int     // per created channel: id or -1
	neg       [2][]bool
	closed    [2][]bool
	connected bool
}

func (s *c18Sim) gen(x int) int {
	for id := s.par[x]; id < 65534; id += 2 {
		if !s.used[x][id] {
			return id
		}
	}

	return -1
}

func (s *c18Sim) dial(x, j int) {
	id := s.ids[x][j]
	if id < 0 {
		return
	}
	s.streams[x][id] = true
	if !s.neg[x][j] && !s.streams[1-x][id] {
		s.streams[1-x][id] = true
		s.used[1-x][id] = true
	}
}

func (s *c18Sim) create(x, eid int, neg bool) {
	s.ids[x] = append(s.ids[x], eid)
	s.neg[x] = append(s.neg[x], neg)
	s.closed[x] = append(s.closed[x], false)
	j := len(s.ids[x]) - 1
	if eid >= 0 {
		s.used[x][eid] = true
	}
	if s.connected {
		if eid < 0 {
			if g := s.gen(x); g >= 0 {
				s.used[x][g] = true
				s.ids[x][j] = g
			}
		}
		s.dial(x, j)
	}
}

func (s *c18Sim) connect() {
	s.connected = true
	for x := 0; x < 2; x++ {
		for j := range s.ids[x] {
			if s.closed[x][j] {
				continue
			}
			if s.ids[x][j] < 0 {
				if g := s.gen(x); g >= 0 {
					s.used[x][g] = true
					s.ids[x][j] = g
				}
			}
			s.dial(x, j)
		}
	}
}

// safeExplicit reports whether an explicit id on side x has a schedule-independent outcome.
func (s *c18Sim) safeExplicit(x, id int, dupOK bool) bool {
	if s.dead[id] {
		return false
	}
	if !s.connected {
		// the peer must not be able to generate it concurrently at connect time
		if id%2 != s.par[x] && id < 65534 {
			return false
		}
		// nor dial it itself at connect time
		if s.used[1-x][id] {
			return false
		}

		return dupOK || !s.used[x][id]
	}
	if s.streams[1-x][id] && !s.streams[x][id] {
		return false
	}
	if s.streams[x][id] {
		return dupOK
	}

	return true
}

func c18GenHist(c *Ctx) string { //nolint:cyclop
	roleA := []string{"c", "s"}[c.Rng.Intn(2)]
	sim := &c18Sim{dead: map[int]bool{}}
	for x := 0; x < 2; x++ {
		sim.used[x] = map[int]bool{}
		sim.streams[x] = map[int]bool{}
	}
	if roleA == "c" {
		sim.par = [2]int{0, 1}
	} else {
		sim.par = [2]int{1, 0}
	}
	toks := []string{}
	side := func() int {
		if c.Rng.Intn(3) == 0 {
			return 1
		}

		return 0
	}
	name := []string{"a", "b"}
	// occasionally start nearly exhausted (hook pre-fill), leaving 1..3 free ids of the side's parity
	prefilled := false
	if c.Rng.Intn(7) == 0 {
		prefilled = true
		x := side()
		free := 1 + c.Rng.Intn(3)
		hi := 65532 + sim.par[x] - 2*free
		lo := sim.par[x]
		if c.Rng.Intn(2) == 0 { // leave the first id free instead of one of the last
			lo += 2
			hi += 2
		}
		toks = append(toks, fmt.Sprintf("%sf%d:%d:2", name[x], lo, hi))
		for id := lo; id <= hi; id += 2 {
			sim.used[x][id] = true
		}
	}
	pickExplicit := func(x int) (int, bool) {
		for try := 0; try < 20; try++ {
			var id int
			dup := c.Rng.Intn(14) == 0
			switch r := c.Rng.Intn(10); {
			case r < 6:
				id = c.Rng.Intn(16)
			case r < 8:
				// the id the generator would hand out next on this side, or the one after
				id = sim.gen(x)
				if id >= 0 && c.Rng.Intn(2) == 0 {
					id += 2
				}
				if id < 0 {
					id = c.Rng.Intn(16)
				}
			default:
				id = 65535 - c.Rng.Intn(4)
				if prefilled { // 65534/65535 are reserved for the trailing channels below
					id = c.Rng.Intn(16)
				}
			}
			if prefilled && id >= 65534 { // reserved for the trailing channels below
				continue
			}
			if sim.safeExplicit(x, id, dup) {
				return id, true
			}
		}

		return 0, false
	}
	createTok := func(x int, autoOnly int) string {
		// autoOnly: 0 any, 1 in-band auto, 2 negotiated auto
		r := c.Rng.Intn(20)
		switch {
		case autoOnly == 1 || (autoOnly == 0 && r < 10):
			sim.create(x, -1, false)

			return name[x] + "u"
		case autoOnly == 2 || (autoOnly == 0 && r < 12):
			sim.create(x, -1, true)

			return name[x] + "v"
		default:
			id, ok := pickExplicit(x)
			if !ok {
				sim.create(x, -1, false)

				return name[x] + "u"
			}
			neg := r >= 18
			sim.create(x, id, neg)
			if neg {
				return fmt.Sprintf("%sn%d", name[x], id)
			}

			return fmt.Sprintf("%se%d", name[x], id)
		}
	}
	step := func() {
		x := side()
		switch r := c.Rng.Intn(20); {
		case r < 13:
			toks = append(toks, createTok(x, 0))
		case r < 15 && len(sim.ids[x]) > 0:
			j := c.Rng.Intn(len(sim.ids[x]))
			toks = append(toks, fmt.Sprintf("%sk%d", name[x], j))
			sim.closed[x][j] = true
			if sim.ids[x][j] >= 0 {
				sim.dead[sim.ids[x][j]] = true
			}
		case r < 16 && sim.connected && len(sim.ids[1-x]) > 0:
			j := c.Rng.Intn(len(sim.ids[1-x]))
			toks = append(toks, fmt.Sprintf("%sr%d", name[x], j))
			if sim.ids[1-x][j] >= 0 {
				sim.dead[sim.ids[1-x][j]] = true
			}
		default:
			// burst: per side one kind of auto channel. An explicit member must not change what either
			// generator hands out during the burst: its id is out of the generators' range, or of a parity
			// whose side creates no auto channel in this burst.
			n := 2 + c.Rng.Intn(4)
			kind := [2]int{1 + c.Rng.Intn(5)/4, 1 + c.Rng.Intn(5)/4}
			type member struct {
				y        int
				explicit bool
			}
			members := []member{}
			autos := [2]int{}
			for i := 0; i < n; i++ {
				m := member{y: side(), explicit: c.Rng.Intn(5) == 0}
				if !m.explicit {
					autos[m.y]++
				}
				members = append(members, m)
			}
			parts := []string{}
			for _, m := range members {
				y := m.y
				if m.explicit {
					cands := []int{65534, 65535}
					if prefilled {
						cands = nil // 65534/65535 are reserved for the trailing channels
					}
					for x := 0; x < 2; x++ {
						if autos[x] == 0 && (sim.connected || x == y) {
							for k := 0; k < 3; k++ {
								cands = append(cands, 2*c.Rng.Intn(12)+sim.par[x])
							}
						}
					}
					if len(cands) == 0 {
						continue
					}
					id := cands[c.Rng.Intn(len(cands))]
					if !sim.used[y][id] && sim.safeExplicit(y, id, false) {
						sim.create(y, id, false)
						parts = append(parts, fmt.Sprintf("%se%d", name[y], id))

					}

					continue
				}
				parts = append(parts, createTok(y, kind[y]))
			}
			if len(parts) == 0 {
				parts = append(parts, createTok(0, 1))
			}
			toks = append(toks, "B:"+strings.Join(parts, "+"))
		}
	}
	nPre := 1 + c.Rng.Intn(c.N(5, 9))
	toks = append(toks, createTok(0, 0)) // the offerer needs a channel for the application m-section
	for i := 1; i < nPre; i++ {
		step()
	}
	if prefilled {
		// a channel for which no id is left never opens; a last channel that does open tells the harness
		// that Start's loop is over
		sim.create(0, 65534, true)
		sim.create(1, 65535, true)
		toks = append(toks, "an65534", "bn65535")
	}
	toks = append(toks, "connect")
	sim.connect()
	for i := 2 + c.Rng.Intn(c.N(8, 16)); i > 0; i-- {
		step()
	}

	return "hist " + roleA + " " + strings.Join(toks, " ")
}

// ---------------------------------------------------------------------------------------------
// schedule control: one-shot gates at the verifYield points of the id assignment path

// c18Long bounds waits for events that do happen on the unchanged tree (the machine may be heavily loaded).
const c18Long = 60 * time.Second

var c18HangSeen atomic.Bool

var (
	c18Excl      sync.RWMutex // histories that arm gates run alone (the yield labels carry no identity)
	c18Gates     sync.Map     // label -> *c18Gate
	c18YieldOnce sync.Once
)

type c18Gate struct {
	once    sync.Once
	reached chan struct{}
	release chan struct{}
}

var c18Stage = map[byte]string{
	'r': "dcid:create:registered",
	'g': "dcid:open:before-generate",
	's': "dcid:open:before-store",
	'l': "dcid:generate:locked",
}

func c18Arm(label string) *c18Gate {
	g := &c18Gate{reached: make(chan struct{}), release: make(chan struct{})}
	c18Gates.Store(label, g)

	return g
}

func c18Disarm(label string, g *c18Gate) {
	c18Gates.CompareAndDelete(label, g)
}

func c18Yield(label string) {
	v, ok := c18Gates.Load(label)
	if !ok {
		return
	}
	g, _ := v.(*c18Gate)
	taken := false
	g.once.Do(func() {
		taken = true
		c18Gates.CompareAndDelete(label, g)
		close(g.reached)
	})
	if taken {
		<-g.release
	}
}

// ---------------------------------------------------------------------------------------------
// executors

func c18Exec(a []string) string {
	switch a[0] {
	case "pure":
		c18Excl.RLock() // no gate is armed while this runs
		defer c18Excl.RUnlock()
		// a generator loop that never exits (it cannot on the unchanged tree) is reported, not waited for
		done := make(chan string, 1)
		go func() { done <- c18ExecPure(a[1:]) }()
		limit := 30 * time.Second // the loop takes a millisecond; leave room for a starved machine
		if c18HangSeen.Load() {
			limit = 2 * time.Second // the tree is broken anyway: do not wait that long for every line
		}
		select {
		case o := <-done:
			return o
		case <-time.After(limit):
			c18HangSeen.Store(true)

			return "hang"
		}
	case "hist":
		return c18ExecHist(a[1:])
	}

	return "bad-op"
}

func c18U16(s string) (uint16, bool) {
	n, err := strconv.Atoi(s)
	if err != nil || n < 0 || n > 65535 {
		return 0, false
	}

	return uint16(n), true //nolint:gosec
}

func c18Rng(s string) (lo, hi, step uint16, ok bool) {
	p := strings.Split(s, ":")
	if len(p) != 3 {
		return 0, 0, 0, false
	}
	var o1, o2, o3 bool
	lo, o1 = c18U16(p[0])
	hi, o2 = c18U16(p[1])
	step, o3 = c18U16(p[2])

	return lo, hi, step, o1 && o2 && o3
}

func c18ExecPure(a []string) string {
	maxVal := uint16(65535)
	i := 0
	type fill struct{ lo, hi, step uint16 }
	fills := []fill{}
	for ; i < len(a) && a[i] != ";"; i++ {
		t := a[i]
		switch t[0] {
		case 'M':
			v, ok := c18U16(t[1:])
			if !ok {
				return "bad-op"
			}
			maxVal = v
		case 'r':
			lo, hi, st, ok := c18Rng(t[1:])
			if !ok {
				return "bad-op"
			}
			fills = append(fills, fill{lo, hi, st})
		case 'a':
			v, ok := c18U16(t[1:])
			if !ok {
				return "bad-op"
			}
			fills = append(fills, fill{v, v, 1})
		default:
			return "bad-op"
		}
	}
	if i >= len(a) {
		return "bad-op"
	}
	v := webrtc.NewVerifDCIDs(maxVal)
	for _, f := range fills {
		v.Fill(f.lo, f.hi, f.step)
	}
	before := v.Len()
	out := []string{}
	for _, t := range a[i+1:] {
		switch t[0] {
		case 'g':
			r, err := strconv.Atoi(t[1:])
			if err != nil || r < 0 || r > 255 {
				return "bad-op"
			}
			id, ok := v.Generate(webrtc.DTLSRole(r))
			if ok {
				out = append(out, strconv.Itoa(int(id)))
			} else {
				out = append(out, "E")
			}
		case 'm':
			id, ok := c18U16(t[1:])
			if !ok {
				return "bad-op"
			}
			v.Remote(id)
			out = append(out, ".")
		default:
			return "bad-op"
		}
	}
	out = append(out, "D", strconv.Itoa(v.Len()-before))

	return strings.Join(out, " ")
}

type c18Side struct {
	name    string
	pc      *webrtc.PeerConnection
	mu      sync.Mutex
	slots   []*webrtc.DataChannel // created channels (nil: CreateDataChannel returned an error)
	labels  []string              // label of the channel in each slot
	neg     []bool
	auto    []bool // created without id
	closed  []bool
	nPre    int                            // channels created before connect (Start's snapshot)
	arrived map[string]*webrtc.DataChannel // accepted channels by label
}

func (s *c18Side) arrivedDC(label string) *webrtc.DataChannel {
	s.mu.Lock()
	defer s.mu.Unlock()

	return s.arrived[label]
}

func c18WaitFor(d time.Duration, cond func() bool) bool {
	deadline := time.Now().Add(d)
	for !cond() {
		if time.Now().After(deadline) {
			return false
		}
		time.Sleep(2 * time.Millisecond)
	}

	return true
}

type c18Create struct {
	side int
	eid  *uint16
	neg  bool
}

func c18ParseCreate(t string) (c18Create, bool) {
	if len(t) < 2 || (t[0] != 'a' && t[0] != 'b') {
		return c18Create{}, false
	}
	cr := c18Create{side: int(t[0] - 'a')}
	switch t[1] {
	case 'u':
		return cr, len(t) == 2
	case 'v':
		cr.neg = true

		return cr, len(t) == 2
	case 'e', 'n':
		v, ok := c18U16(t[2:])
		cr.eid = &v
		cr.neg = t[1] == 'n'

		return cr, ok
	}

	return cr, false
}

func c18ExecHist(a []string) string { //nolint:cyclop,gocyclo,maintidx
	if len(a) < 1 || (a[0] != "c" && a[0] != "s") {
		return "bad-op"
	}
	c18YieldOnce.Do(func() { webrtc.VerifSetYield(c18Yield) })
	scheduled := false
	for _, t := range a[1:] {
		if len(t) >= 2 && (t[0] == 'a' || t[0] == 'b') && strings.ContainsRune("pqzy", rune(t[1])) {
			scheduled = true
		}
		if strings.HasPrefix(t, "L:") {
			scheduled = true
		}
	}
	if scheduled {
		c18Excl.Lock()
		defer c18Excl.Unlock()
	} else {
		c18Excl.RLock()
		defer c18Excl.RUnlock()
	}
	mk := func(answerRole webrtc.DTLSRole) (*webrtc.PeerConnection, error) {
		se := webrtc.SettingEngine{}
		se.SetNetworkTypes([]webrtc.NetworkType{webrtc.NetworkTypeUDP4})
		se.SetIncludeLoopbackCandidate(true)
		se.SetInterfaceFilter(func(n string) bool { return n == "lo" })
		if answerRole != 0 {
			if err := se.SetAnsweringDTLSRole(answerRole); err != nil {
				return nil, err
			}
		}

		return webrtc.NewAPI(webrtc.WithSettingEngine(se)).NewPeerConnection(webrtc.Configuration{})
	}
	// a offers; b answers with the complementary role
	bRole := webrtc.DTLSRoleServer
	if a[0] == "s" {
		bRole = webrtc.DTLSRoleClient
	}
	pa, err := mk(0)
	if err != nil {
		return "setup-error"
	}
	pb, err := mk(bRole)
	if err != nil {
		return "setup-error"
	}
	defer func() {
		_ = pa.Close()
		_ = pb.Close()
	}()
	sides := [2]*c18Side{
		{name: "a", pc: pa, arrived: map[string]*webrtc.DataChannel{}},
		{name: "b", pc: pb, arrived: map[string]*webrtc.DataChannel{}},
	}
	for _, s := range sides {
		s := s
		s.pc.OnDataChannel(func(d *webrtc.DataChannel) {
			s.mu.Lock()
			s.arrived[d.Label()] = d
			s.mu.Unlock()
		})
	}
	connected := false
	type parkedCall struct {
		gate *c18Gate
		done chan struct{}
	}
	parked := [2]map[int]*parkedCall{{}, {}}
	var startGate [2]*c18Gate   // armed for Start's open loop
	var startParked [2]*c18Gate // Start is parked there
	defer func() {
		// never leave a goroutine parked
		for x := 0; x < 2; x++ {
			for _, pc := range parked[x] {
				close(pc.gate.release)
			}
			if startParked[x] != nil {
				close(startParked[x].release)
			}
		}
		for _, l := range c18Stage {
			c18Gates.Delete(l)
		}
	}()
	slotOf := func(x int, label string) int {
		for j, l := range sides[x].labels {
			if l == label {
				return j
			}
		}

		return -1
	}
	// create runs CreateDataChannel for slot j (already reserved) of side x
	create := func(x, j int, cr c18Create) {
		s := sides[x]
		init := &webrtc.DataChannelInit{}
		if cr.eid != nil {
			id := *cr.eid
			init.ID = &id
		}
		if cr.neg {
			t := true
			init.Negotiated = &t
		}
		d, err := s.pc.CreateDataChannel(s.labels[j], init)
		if err != nil {
			d = nil
		}
		s.mu.Lock()
		s.slots[j] = d
		s.mu.Unlock()
	}
	reserve := func(x int, cr c18Create) int {
		s := sides[x]
		s.slots = append(s.slots, nil)
		s.neg = append(s.neg, cr.neg)
		s.auto = append(s.auto, cr.eid == nil)
		s.closed = append(s.closed, false)
		s.labels = append(s.labels, fmt.Sprintf("%s%d", s.name, len(s.labels)))

		return len(s.slots) - 1
	}
	// after channel d of side x has been dialled in-band, the peer accepts it — unless the stream id is
	// already open on the peer's end (a channel it created or accepted has it): then nothing new arrives
	awaitArrivalOf := func(x int, d *webrtc.DataChannel) {
		p := sides[1-x]
		if d == nil || d.Negotiated() || d.ID() == nil {
			return
		}
		id, label := *d.ID(), d.Label()
		for _, o := range webrtc.VerifDataChannels(p.pc) {
			if o.Label() != label && o.ID() != nil && *o.ID() == id {
				return
			}
		}
		c18WaitFor(c18Long, func() bool { return p.arrivedDC(label) != nil })
	}
	awaitArrival := func(x, j int) { awaitArrivalOf(x, sides[x].slots[j]) }
	snapshot := func() string {
		var sb strings.Builder
		sb.WriteString(" |")
		for x := 0; x < 2; x++ {
			s := sides[x]
			cells := []string{}
			for j, d := range s.slots {
				switch {
				case d == nil && parked[x][j] != nil: // the call has not returned yet
					cells = append(cells, "-")
				case d == nil:
					cells = append(cells, "E")
				case d.ID() == nil:
					cells = append(cells, "-")
				default:
					cells = append(cells, strconv.Itoa(int(*d.ID())))
				}
			}
			if len(cells) == 0 {
				cells = []string{"_"}
			}
			sb.WriteString(" " + strings.Join(cells, ",") + " /")
		}
		for x := 0; x < 2; x++ {
			s := sides[x]
			type ent struct {
				j  int
				id string
			}
			ents := []ent{}
			s.mu.Lock()
			for label, d := range s.arrived {
				id := "-"
				if d.ID() != nil {
					id = strconv.Itoa(int(*d.ID()))
				}
				ents = append(ents, ent{slotOf(1-x, label), id})
			}
			s.mu.Unlock()
			sort.Slice(ents, func(i, k int) bool { return ents[i].j < ents[k].j })
			cells := []string{}
			for _, e := range ents {
				cells = append(cells, fmt.Sprintf("%d:%s", e.j, e.id))
			}
			if len(cells) == 0 {
				cells = []string{"_"}
			}
			sb.WriteString(" " + strings.Join(cells, ","))
			if x == 0 {
				sb.WriteString(" /")
			}
		}

		return sb.String()
	}
	// rename the auto channels of a burst so that listed order = observed order
	renameBurst := func(x int, autos []int) {
		s := sides[x]
		if len(autos) < 2 {
			return
		}
		type item struct {
			d     *webrtc.DataChannel
			label string
			key   int
		}
		items := make([]item, len(autos))
		var order map[string]int
		if !connected {
			order = map[string]int{}
			for i, d := range webrtc.VerifDataChannels(s.pc) {
				order[d.Label()] = i
			}
		}
		for i, j := range autos {
			it := item{d: s.slots[j], label: s.labels[j]}
			switch {
			case !connected:
				it.key = order[it.label]
			case it.d == nil || it.d.ID() == nil:
				it.key = 1 << 30 // failures last
			default:
				it.key = int(*it.d.ID())
			}
			items[i] = it
		}
		sort.SliceStable(items, func(i, k int) bool { return items[i].key < items[k].key })
		for i, j := range autos {
			s.slots[j] = items[i].d
			s.labels[j] = items[i].label
		}
	}
	// Start's open loop works through the channels registered before connect, in registration order.
	// A channel is settled when Start is done with it: it is open; or the application closed it (Start
	// skips it unless it was already inside open, then the id gets stored); or — a channel for which no id
	// is left never opens — a later channel of the loop is open (the generator emits a trailing explicit
	// channel in pre-filled histories; in scheduled histories, where a parked CreateDataChannel may open its
	// channel out of order, nothing fails and this rule is not used).
	startSettled := func(x int) bool {
		s := sides[x]
		laterOpen := false
		all := webrtc.VerifDataChannels(s.pc)
		ok := true
		for i := len(all) - 1; i >= 0; i-- {
			d := all[i]
			j := slotOf(x, d.Label())
			if j < 0 || j >= s.nPre {
				continue
			}
			st := d.ReadyState()
			isOpen := st == webrtc.DataChannelStateOpen || st == webrtc.DataChannelStateClosed
			var settled bool
			switch {
			case s.closed[j]:
				settled = d.Transport() == nil || !s.auto[j] || d.ID() != nil
			case scheduled:
				settled = isOpen
			default:
				settled = isOpen || laterOpen
				laterOpen = laterOpen || isOpen
			}
			if !settled {
				ok = false
			}
		}

		return ok
	}
	afterStart := func(x int) {
		s := sides[x]
		c18WaitFor(c18Long, func() bool { return startSettled(x) })
		for _, d := range webrtc.VerifDataChannels(s.pc) {
			// every channel whose open got as far as Dial (id stored, transport set) reaches the peer
			if j := slotOf(x, d.Label()); j >= 0 && j < s.nPre && d.Transport() != nil && d.ID() != nil {
				awaitArrivalOf(x, d)
			}
		}
	}
	out := strings.Builder{}
	for _, t := range a[1:] {
		switch {
		case t == "connect":
			if connected {
				break
			}
			if !c18Signal(pa, pb) {
				return "signal-error"
			}
			connected = true
			sides[0].nPre, sides[1].nPre = len(sides[0].slots), len(sides[1].slots)
			c18WaitFor(c18Long, func() bool {
				return pa.SCTP().State() == webrtc.SCTPTransportStateConnected &&
					pb.SCTP().State() == webrtc.SCTPTransportStateConnected
			})
			for x := 0; x < 2; x++ {
				if g := startGate[x]; g != nil {
					startGate[x] = nil
					reached := func() bool {
						select {
						case <-g.reached:
							return true
						default:
							return false
						}
					}
					// either the loop parks, or it is over without getting there (nothing to generate)
					c18WaitFor(c18Long, func() bool { return reached() || startSettled(x) })
					if reached() {
						startParked[x] = g
					} else {
						for _, l := range c18Stage {
							c18Disarm(l, g)
						}
					}
				}
			}
			for x := 0; x < 2; x++ {
				if startParked[x] == nil {
					afterStart(x)
				}
			}
		case strings.HasPrefix(t, "B:"), strings.HasPrefix(t, "L:"):
			locked := t[0] == 'L'
			parts := strings.Split(t[2:], "+")
			type job struct {
				x, j int
				cr   c18Create
			}
			jobs := []job{}
			autos := [2][]int{}
			for _, p := range parts {
				cr, ok := c18ParseCreate(p)
				if !ok {
					return "bad-op"
				}
				j := reserve(cr.side, cr)
				jobs = append(jobs, job{cr.side, j, cr})
				if cr.eid == nil {
					autos[cr.side] = append(autos[cr.side], j)
				}
			}
			var wg sync.WaitGroup
			start := make(chan struct{})
			var lockGate *c18Gate
			if locked && len(jobs) > 0 {
				// the first member runs alone until it sits inside the generator's critical section
				lockGate = c18Arm(c18Stage['l'])
				jb := jobs[0]
				first := make(chan struct{})
				wg.Add(1)
				go func() {
					defer wg.Done()
					defer close(first)
					create(jb.x, jb.j, jb.cr)
				}()
				select {
				case <-lockGate.reached:
				case <-first: // it never called the generator
					c18Disarm(c18Stage['l'], lockGate)
					lockGate = nil
				case <-time.After(c18Long):
					return "park-timeout"
				}
			}
			rest := jobs
			if locked && len(jobs) > 0 {
				rest = jobs[1:]
			}
			for _, jb := range rest {
				jb := jb
				wg.Add(1)
				go func() {
					defer wg.Done()
					<-start
					create(jb.x, jb.j, jb.cr)
				}()
			}
			close(start)
			if lockGate != nil {
				time.Sleep(150 * time.Millisecond) // the others are blocked on the transport lock meanwhile
				close(lockGate.release)
			}
			wg.Wait()
			if connected {
				for _, jb := range jobs {
					awaitArrival(jb.x, jb.j)
				}
			}
			renameBurst(0, autos[0])
			renameBurst(1, autos[1])
		default:
			if cr, ok := c18ParseCreate(t); ok {
				j := reserve(cr.side, cr)
				create(cr.side, j, cr)
				if connected {
					awaitArrival(cr.side, j)
				}

				break
			}
			if len(t) < 2 || (t[0] != 'a' && t[0] != 'b') || (len(t) < 3 && t[1] != 'y') {
				return "bad-op"
			}
			x := int(t[0] - 'a')
			s := sides[x]
			switch t[1] {
			case 'p': // park a CreateDataChannel call at a yield point
				if len(t) < 4 || c18Stage[t[2]] == "" {
					return "bad-op"
				}
				cr, ok := c18ParseCreate(t[:1] + t[3:])
				if !ok {
					return "bad-op"
				}
				label := c18Stage[t[2]]
				j := reserve(x, cr)
				g := c18Arm(label)
				done := make(chan struct{})
				go func() {
					defer close(done)
					create(x, j, cr)
				}()
				select {
				case <-g.reached:
					parked[x][j] = &parkedCall{g, done}
				case <-done: // the call never passes that point (explicit id, not connected, …)
					c18Disarm(label, g)
					if connected {
						awaitArrival(x, j)
					}
				case <-time.After(c18Long):
					return "park-timeout"
				}
			case 'q': // let a parked call finish
				j, err := strconv.Atoi(t[2:])
				if err != nil {
					return "bad-op"
				}
				if pc := parked[x][j]; pc != nil {
					delete(parked[x], j)
					close(pc.gate.release)
					select {
					case <-pc.done:
					case <-time.After(c18Long):
						return "release-timeout"
					}
					if connected {
						awaitArrival(x, j)
					}
				}
			case 'z': // park Start's open loop at a yield point
				if len(t) != 3 || (t[2] != 'g' && t[2] != 's') {
					return "bad-op"
				}
				startGate[x] = c18Arm(c18Stage[t[2]])
			case 'y': // let Start finish
				if g := startParked[x]; g != nil {
					startParked[x] = nil
					close(g.release)
					afterStart(x)
				}
			case 'k':
				j, err := strconv.Atoi(t[2:])
				if err != nil {
					return "bad-op"
				}
				if j < len(s.slots) && s.slots[j] != nil {
					s.closed[j] = true
					_ = s.slots[j].Close()
				}
			case 'r':
				j, err := strconv.Atoi(t[2:])
				if err != nil {
					return "bad-op"
				}
				if j < len(sides[1-x].labels) {
					if d := s.arrivedDC(sides[1-x].labels[j]); d != nil {
						_ = d.Close()
					}
				}
			case 'f':
				lo, hi, st, ok := c18Rng(t[2:])
				if !ok {
					return "bad-op"
				}
				webrtc.VerifFillDataChannelIDs(s.pc, lo, hi, st)
			default:
				return "bad-op"
			}
		}
		out.WriteString(snapshot())
	}
	ra, rb := 0, 0
	if connected {
		ra, rb = int(webrtc.VerifDataChannelRole(pa)), int(webrtc.VerifDataChannelRole(pb))
	}

	return fmt.Sprintf("R %d %d%s", ra, rb, out.String())
}

func c18Signal(pa, pb *webrtc.PeerConnection) bool {
	offer, err := pa.CreateOffer(nil)
	if err != nil {
		return false
	}
	g := webrtc.GatheringCompletePromise(pa)
	if err = pa.SetLocalDescription(offer); err != nil {
		return false
	}
	select {
	case <-g:
	case <-time.After(c18Long):
		return false
	}
	if err = pb.SetRemoteDescription(*pa.LocalDescription()); err != nil {
		return false
	}
	answer, err := pb.CreateAnswer(nil)
	if err != nil {
		return false
	}
	g = webrtc.GatheringCompletePromise(pb)
	if err = pb.SetLocalDescription(answer); err != nil {
		return false
	}
	select {
	case <-g:
	case <-time.After(c18Long):
		return false
	}

	return pa.SetRemoteDescription(*pb.LocalDescription()) == nil
}
