package main

import (
	"bytes"
	"errors"
	"fmt"
	"sort"
	"strconv"
	"strings"
	"sync"

	"github.com/pion/interceptor"
	"github.com/pion/rtp"
	"github.com/pion/webrtc/v4"
)

// C29 — TrackLocalStaticRTP fan-out through the public API with recording TrackLocalContext /
// TrackLocalWriter fakes. Line format: see lean/WebrtcVerif/Drv/C29.lean.

type c29Delivery struct {
	writer int
	toks   []string // header and payload rendered inside WriteRTP (a snapshot: later writes cannot alter it)
}

type c29Log struct {
	mu sync.Mutex
	ds []c29Delivery
}

type c29Writer struct {
	idx  int
	fail bool
	log  *c29Log
}

var errC29Writer = errors.New("writer failed")

func (w *c29Writer) WriteRTP(h *rtp.Header, payload []byte) (int, error) {
	w.log.mu.Lock()
	w.log.ds = append(w.log.ds, c29Delivery{w.idx, append(c29ShowHdr(h), hx(payload))})
	w.log.mu.Unlock()
	if w.fail {
		return 0, errC29Writer
	}

	return len(payload), nil
}

func (w *c29Writer) Write(b []byte) (int, error) {
	p := &rtp.Packet{}
	if err := p.Unmarshal(b); err != nil {
		return 0, err
	}

	return w.WriteRTP(&p.Header, p.Payload)
}

type c29Ctx struct {
	id        string
	ssrc, rtx uint32
	codecs    []webrtc.RTPCodecParameters
	w         webrtc.TrackLocalWriter
}

func (c *c29Ctx) CodecParameters() []webrtc.RTPCodecParameters            { return c.codecs }
func (c *c29Ctx) HeaderExtensions() []webrtc.RTPHeaderExtensionParameter { return nil }
func (c *c29Ctx) SSRC() webrtc.SSRC                                      { return webrtc.SSRC(c.ssrc) }
func (c *c29Ctx) SSRCRetransmission() webrtc.SSRC                        { return webrtc.SSRC(c.rtx) }
func (c *c29Ctx) SSRCForwardErrorCorrection() webrtc.SSRC                { return 0 }
func (c *c29Ctx) WriteStream() webrtc.TrackLocalWriter                   { return c.w }
func (c *c29Ctx) ID() string                                             { return c.id }
func (c *c29Ctx) RTCPReader() interceptor.RTCPReader                     { return nil }

func txtHex(s string) string { return hx([]byte(s)) }

func c29ShowHdr(h *rtp.Header) []string {
	cs := "-"
	if len(h.CSRC) > 0 {
		p := make([]string, len(h.CSRC))
		for i, c := range h.CSRC {
			p[i] = strconv.FormatUint(uint64(c), 10)
		}
		cs = strings.Join(p, ",")
	}
	hv := *h
	hv.Extension = true
	ex := "-"
	if ids := hv.GetExtensionIDs(); len(ids) > 0 {
		p := make([]string, len(ids))
		for i, id := range ids {
			p[i] = fmt.Sprintf("%d:%s", id, hx(hv.GetExtension(id)))
		}
		ex = strings.Join(p, ",")
	}

	return []string{
		strconv.Itoa(int(h.Version)), b2s(h.Padding), b2s(h.Extension), b2s(h.Marker),
		strconv.Itoa(int(h.PayloadType)), strconv.Itoa(int(h.SequenceNumber)),
		strconv.FormatUint(uint64(h.Timestamp), 10), strconv.FormatUint(uint64(h.SSRC), 10), cs,
		strconv.Itoa(int(h.ExtensionProfile)), ex, strconv.Itoa(int(h.PaddingSize)),
	}
}

func c29ShowPkt(p *rtp.Packet) []string {
	return append(c29ShowHdr(&p.Header), strconv.Itoa(int(p.PaddingSize)), hx(p.Payload))
}

// c29ParsePkt builds an rtp.Packet from the 14 packet tokens.
func c29ParsePkt(t []string) (*rtp.Packet, bool) {
	if len(t) != 14 {
		return nil, false
	}
	n := func(s string) uint64 { v, _ := strconv.ParseUint(s, 10, 64); return v }
	p := &rtp.Packet{}
	h := &p.Header
	if t[10] != "-" {
		h.Extension = true
		h.ExtensionProfile = uint16(n(t[9]))
		for _, e := range strings.Split(t[10], ",") {
			kv := strings.SplitN(e, ":", 2)
			if len(kv) != 2 {
				return nil, false
			}
			pl := unhx(kv[1])
			if pl == nil {
				pl = []byte{}
			}
			if err := h.SetExtension(uint8(n(kv[0])), pl); err != nil {
				return nil, false
			}
		}
	}
	h.Version = uint8(n(t[0]))
	h.Padding = t[1] == "1"
	h.Extension = t[2] == "1"
	h.Marker = t[3] == "1"
	h.PayloadType = uint8(n(t[4]))
	h.SequenceNumber = uint16(n(t[5]))
	h.Timestamp = uint32(n(t[6]))
	h.SSRC = uint32(n(t[7]))
	if t[8] != "-" {
		for _, c := range strings.Split(t[8], ",") {
			h.CSRC = append(h.CSRC, uint32(n(c)))
		}
	}
	h.ExtensionProfile = uint16(n(t[9]))
	h.PaddingSize = byte(n(t[11]))
	p.PaddingSize = byte(n(t[12]))
	p.Payload = unhx(t[13])

	return p, true
}

func c29Codec(t []string) webrtc.RTPCodecCapability {
	r, _ := strconv.ParseUint(t[1], 10, 32)
	ch, _ := strconv.ParseUint(t[2], 10, 16)

	return webrtc.RTPCodecCapability{
		MimeType: string(unhx(t[0])), ClockRate: uint32(r), Channels: uint16(ch), SDPFmtpLine: string(unhx(t[3])),
	}
}

func c29Exec(a []string) string { //nolint:gocognit,cyclop
	if len(a) < 6 || a[0] != "h" {
		return "bad-op"
	}
	track, err := webrtc.NewTrackLocalStaticRTP(c29Codec(a[1:5]), "track", "stream")
	if err != nil {
		return "bad-op"
	}
	nops, _ := strconv.Atoi(a[5])
	t := a[6:]
	log := &c29Log{}
	segs := []string{}
	widx := 0
	for k := 0; k < nops; k++ {
		if len(t) == 0 {
			return "bad-op"
		}
		switch t[0] {
		case "B":
			if len(t) < 6 {
				return "bad-op"
			}
			ssrc, _ := strconv.ParseUint(t[2], 10, 32)
			rtx, _ := strconv.ParseUint(t[3], 10, 32)
			nc, _ := strconv.Atoi(t[5])
			if len(t) < 6+5*nc {
				return "bad-op"
			}
			ctx := &c29Ctx{id: string(unhx(t[1])), ssrc: uint32(ssrc), rtx: uint32(rtx)}
			for i := 0; i < nc; i++ {
				ct := t[6+5*i : 11+5*i]
				pt, _ := strconv.Atoi(ct[4])
				ctx.codecs = append(ctx.codecs, webrtc.RTPCodecParameters{
					RTPCodecCapability: c29Codec(ct[:4]), PayloadType: webrtc.PayloadType(pt),
				})
			}
			ctx.w = &c29Writer{idx: widx, fail: t[4] == "1", log: log}
			widx++
			cd, err := track.Bind(ctx)
			if err != nil {
				segs = append(segs, "B err")
			} else {
				segs = append(segs, fmt.Sprintf("B ok %d", cd.PayloadType))
			}
			t = t[6+5*nc:]
		case "U":
			if len(t) < 2 {
				return "bad-op"
			}
			if err := track.Unbind(&c29Ctx{id: string(unhx(t[1]))}); err != nil {
				segs = append(segs, "U err")
			} else {
				segs = append(segs, "U ok")
			}
			t = t[2:]
		case "W", "V":
			if len(t) < 15 {
				return "bad-op"
			}
			p, ok := c29ParsePkt(t[1:15])
			if !ok {
				return "bad-op"
			}
			log.ds = nil
			var werr error
			var after []string
			if t[0] == "W" {
				werr = track.WriteRTP(p)
				after = c29ShowPkt(p) // every field, and the bytes behind the shared slices, after the call
			} else {
				raw, merr := p.Marshal()
				if merr != nil {
					return "bad-op"
				}
				keep := append([]byte{}, raw...)
				_, werr = track.Write(raw)
				after = c29ShowPkt(p)
				if !bytes.Equal(raw, keep) { // the caller's buffer was written to
					after[13] = hx(raw)
				}
			}
			ds := append([]c29Delivery{}, log.ds...)
			sort.SliceStable(ds, func(i, j int) bool { return ds[i].writer < ds[j].writer })
			res := "ok"
			if werr != nil {
				res = "err"
			}
			seg := []string{"W", res, strconv.Itoa(len(ds))}
			for i := range ds {
				seg = append(seg, strconv.Itoa(ds[i].writer))
				seg = append(seg, ds[i].toks...)
			}
			seg = append(seg, "C")
			seg = append(seg, after...)
			segs = append(segs, strings.Join(seg, " "))
			t = t[15:]
		default:
			return "bad-op"
		}
	}

	return strings.Join(segs, " | ")
}

type c29Kind struct {
	mime     string
	rate     uint32
	channels uint16
	fmtps    []string
}

var c29Kinds = []c29Kind{
	{"audio/opus", 48000, 2, []string{"", "minptime=10;useinbandfec=1", "minptime=10;useinbandfec=0", "MINPTIME=10", "minptime=10; useinbandfec=1 "}},
	{"audio/PCMU", 8000, 0, []string{"", "a=x", "a=X", "a=y", "b=1;a=x", "a=x;a=y"}},
	{"video/VP8", 90000, 0, []string{"", "a=x", "A=x", "a=y;b=2", " a=x ; b=2", "apt=96", "max-fs=12288;max-fr=60"}},
	{"audio/G722", 8000, 0, []string{"", "a=x"}},
	{"video/x-test", 90000, 0, []string{"", "k=v", "k=V", "k=w", "k", "\vk=v", "k=\u0085v\f", "\u00a0k\u00a0=w"}},
	{"video/H264", 90000, 0, []string{
		"level-asymmetry-allowed=1;packetization-mode=1;profile-level-id=42e01f",
		"level-asymmetry-allowed=1;packetization-mode=0;profile-level-id=42e01f",
		"packetization-mode=1;profile-level-id=42E01F", "packetization-mode=1;profile-level-id=42001f",
		"packetization-mode=1;profile-level-id=640032", "packetization-mode=1;profile-level-id=42e0",
		"packetization-mode=1;profile-level-id=zz", "packetization-mode=1;profile-level-id=42e", "packetization-mode=1",
		"profile-level-id=42e01f", "",
	}},
	{"video/VP9", 90000, 0, []string{
		"", "profile-id=0", "profile-id=2", "profile-id=1", "PROFILE-ID=2",
		// every Latin-1 code point strings.TrimSpace trims, around keys and values
		"\vprofile-id=1", "\fprofile-id=2\v", "\u0085profile-id=1\u00a0", "profile-id=\u00a01;\r\nx=1\t",
	}},
	{"video/AV1", 90000, 0, []string{"", "profile=0", "profile=1", "level-idx=5;profile=0;tier=0"}},
}

func c29Case(r interface{ Intn(int) int }, s string) string {
	switch r.Intn(5) {
	case 0:
		return strings.ToUpper(s)
	case 1:
		return strings.ToLower(s)
	case 2:
		b := []byte(s)
		for i := range b {
			if r.Intn(2) == 0 {
				b[i] = strings.ToUpper(string(b[i]))[0]
			}
		}

		return string(b)
	}

	return s
}

func c29GenCodec(c *Ctx, k c29Kind) string {
	r := c.Rng
	rate, ch := k.rate, k.channels
	switch r.Intn(10) {
	case 0:
		rate = 0 // unset: the default for the mime type applies
	case 1:
		rate = []uint32{8000, 16000, 48000, 90000}[r.Intn(4)]
	}
	switch r.Intn(10) {
	case 0:
		ch = 0
	case 1:
		ch = uint16(r.Intn(3))
	}

	return fmt.Sprintf("%s %d %d %s", txtHex(c29Case(r, k.mime)), rate, ch, txtHex(k.fmtps[r.Intn(len(k.fmtps))]))
}

func c29GenPacket(c *Ctx, malformed bool) *rtp.Packet {
	r := c.Rng
	p := &rtp.Packet{}
	h := &p.Header
	if r.Intn(3) == 0 {
		prof, n := uint16(rtp.ExtensionProfileOneByte), 1+r.Intn(4)
		switch r.Intn(5) {
		case 0:
			prof = rtp.ExtensionProfileTwoByte
		case 1:
			prof, n = uint16(0x1234), 1
		}
		h.Extension, h.ExtensionProfile = true, prof
		ids := r.Perm(14)
		for i := 0; i < n; i++ {
			id, l := uint8(1+ids[i]), 1+r.Intn(16)
			switch prof {
			case rtp.ExtensionProfileTwoByte:
				id, l = uint8(1+r.Intn(255)), r.Intn(40)
			case 0x1234:
				id, l = 0, 4*r.Intn(5)
			}
			pl := make([]byte, l)
			r.Read(pl)
			_ = h.SetExtension(id, pl)
		}
	}
	h.Version = 2
	h.Marker = r.Intn(2) == 0
	h.PayloadType = uint8(r.Intn(128))
	h.SequenceNumber = uint16(r.Intn(65536))
	h.Timestamp = r.Uint32()
	h.SSRC = r.Uint32()
	switch r.Intn(12) {
	case 0:
		h.SSRC, h.Timestamp, h.SequenceNumber = 0, 0, 0
	case 1:
		h.SSRC, h.Timestamp, h.SequenceNumber = 0xffffffff, 0xffffffff, 0xffff
	}
	if r.Intn(3) == 0 {
		n := 1 + r.Intn(15)
		if r.Intn(3) == 0 {
			n = 1 + r.Intn(2)
		}
		for i := 0; i < n; i++ {
			h.CSRC = append(h.CSRC, r.Uint32())
		}
	}
	l := r.Intn(24)
	switch r.Intn(12) {
	case 0:
		l = 0
	case 1:
		l = 200 + r.Intn(1000)
	}
	p.Payload = make([]byte, l)
	r.Read(p.Payload)
	// padding: via the header field, via the deprecated packet field, via both (equal or not), or none
	switch r.Intn(8) {
	case 0:
		h.Padding, h.PaddingSize = true, byte(1+r.Intn(255))
	case 1:
		h.Padding, p.PaddingSize = true, byte(1+r.Intn(255))
	case 2:
		h.Padding, h.PaddingSize = true, byte(1+r.Intn(255))
		p.PaddingSize = h.PaddingSize
	case 3:
		if malformed {
			h.Padding, h.PaddingSize, p.PaddingSize = r.Intn(2) == 0, byte(1+r.Intn(255)), byte(1+r.Intn(255))
		}
	}
	if malformed {
		switch r.Intn(6) {
		case 0:
			h.Version = uint8(r.Intn(4))
		case 1:
			h.Extension = !h.Extension // flag contradicts the list
		case 2:
			h.Padding = !h.Padding // flag contradicts the sizes
		case 3:
			h.PayloadType = uint8(128 + r.Intn(128)) // does not fit the 7-bit field
		}
	}

	return p
}

func init() { //nolint:gocognit,cyclop
	registry["C29"] = &Prop{
		Workers: 16,
		Exec:    c29Exec,
		Rule: "Seeded random bind/unbind/write histories (3..40 ops) on a TrackLocalStaticRTP through the public API, with " +
			"recording TrackLocalContext/TrackLocalWriter fakes. Track and context codecs are drawn from 8 mime kinds " +
			"(generic, H264, VP9, AV1 fmtp matchers; random letter case; clock rate / channels set, unset or different; " +
			"1..3 codecs per context, ~88% meant to contain a compatible one, so Bind succeeds or is refused); context ids " +
			"come from a 5-name pool (ids repeat while still bound) or are unique; every Bind gets its own writer, " +
			"SSRC (incl. 0 and 2^32-1) and payload types; ~10% of writers return an error. Unbind picks a bound id " +
			"(80%) or an unknown one. Packets: CSRC lists 0..15, one-byte / two-byte / RFC 3550 header extensions, " +
			"padding through Header.PaddingSize, through the deprecated Packet.PaddingSize, through both or none, " +
			"payloads 0..1200 bytes; written with WriteRTP (W) or marshalled and written with Write (V, only packets " +
			"that are fixed points of Unmarshal∘Marshal). A malformed stream (~15% of histories) adds versions ≠ 2, " +
			"flags contradicting the lists/sizes, two different padding sizes, payload types ≥ 128, contexts without " +
			"codecs. Observed: Bind/Unbind results, every (writer, header, payload) received by a writer (snapshot " +
			"taken inside the call), the caller's packet read back after the call incl. the bytes behind its slices. " +
			"Deliveries are sorted by writer (fan-out order is not part of the property). Non-trivial: distinct " +
			"histories in which at least one write reaches a writer.",
		Gen: func(c *Ctx) {
			r := c.Rng
			for n := 0; n < c.N(3000, 40000); n++ {
				malformed := r.Intn(100) < 15
				k := c29Kinds[r.Intn(len(c29Kinds))]
				sb := &strings.Builder{}
				nops := 3 + r.Intn(28)
				if r.Intn(10) == 0 {
					nops = 30 + r.Intn(11)
				}
				poolIDs := r.Intn(10) < 7
				bound := []string{} // ids believed bound (approximation used only to steer generation)
				nb := 0
				ops := 0
				emitBind := func() {
					id := fmt.Sprintf("ctx%d", nb)
					if poolIDs {
						id = string(rune('a' + r.Intn(5)))
					}
					if malformed && r.Intn(10) == 0 {
						id = ""
					}
					nc := 1 + r.Intn(3)
					if malformed && r.Intn(8) == 0 {
						nc = 0
					}
					ssrc := r.Uint32()
					switch r.Intn(16) {
					case 0:
						ssrc = 0
					case 1:
						ssrc = 0xffffffff
					}
					fmt.Fprintf(sb, " B %s %d %d %s %d", txtHex(id), ssrc, r.Uint32(), b2s(r.Intn(10) == 0), nc)
					pts := r.Perm(128)
					compat := r.Intn(8) != 0
					at := r.Intn(nc + 1)
					for i := 0; i < nc; i++ {
						kk := c29Kinds[r.Intn(len(c29Kinds))]
						if compat && (i == at || r.Intn(3) == 0) {
							kk = k
						}
						fmt.Fprintf(sb, " %s %d", c29GenCodec(c, kk), pts[i])
					}
					if compat {
						bound = append(bound, id)
					}
					nb++
				}
				emitWrite := func() {
					p := c29GenPacket(c, malformed)
					if r.Intn(4) == 0 { // Write(bytes): only fixed points of Unmarshal∘Marshal
						if raw, err := p.Marshal(); err == nil {
							q := &rtp.Packet{}
							if q.Unmarshal(raw) == nil {
								if raw2, err := q.Marshal(); err == nil && bytes.Equal(raw, raw2) {
									q2 := &rtp.Packet{}
									if q2.Unmarshal(raw2) == nil &&
										strings.Join(c29ShowPkt(q), " ") == strings.Join(c29ShowPkt(q2), " ") {
										fmt.Fprintf(sb, " V %s", strings.Join(c29ShowPkt(q), " "))

										return
									}
								}
							}
						}
					}
					fmt.Fprintf(sb, " W %s", strings.Join(c29ShowPkt(p), " "))
				}
				for ops < nops {
					x := r.Intn(100)
					switch {
					case ops == 0 || x < 28:
						emitBind()
					case x < 48:
						if len(bound) > 0 && r.Intn(5) != 0 {
							i := r.Intn(len(bound))
							fmt.Fprintf(sb, " U %s", txtHex(bound[i]))
							bound = append(bound[:i], bound[i+1:]...)
						} else {
							fmt.Fprintf(sb, " U %s", txtHex([]string{"zz", "", "a", "ctx0"}[r.Intn(4)]))
						}
					default:
						emitWrite()
					}
					ops++
				}
				emitWrite()
				ops++
				c.Emit("h %s %d%s", c29GenCodec(c, k), ops, sb.String())
			}
		},
		Class: func(a []string, out string) string {
			segs := strings.Split(out, " | ")
			maxFan, unb, refused, viaBytes := 0, 0, 0, 0
			for _, s := range segs {
				f := strings.Fields(s)
				switch {
				case len(f) >= 3 && f[0] == "W":
					if n, _ := strconv.Atoi(f[2]); n > maxFan {
						maxFan = n
					}
				case s == "U ok":
					unb++
				case s == "B err":
					refused++
				}
			}
			ids, repeated := map[string]int{}, false
			for i, t := range a {
				if t == "V" {
					viaBytes++
				}
				if t == "B" && i+1 < len(a) {
					ids[a[i+1]]++
					repeated = repeated || ids[a[i+1]] > 1
				}
			}
			fan := "0"
			switch {
			case maxFan >= 4:
				fan = "4+"
			case maxFan >= 2:
				fan = "2-3"
			case maxFan == 1:
				fan = "1"
			}
			u := "0"
			switch {
			case unb >= 3:
				u = "3+"
			case unb >= 1:
				u = "1-2"
			}

			return fmt.Sprintf("max-fanout=%s unbinds=%s refused-binds=%s repeated-ids=%s write-bytes=%s",
				fan, u, b2s(refused > 0), b2s(repeated), b2s(viaBytes > 0))
		},
		Trivial: func(_ []string, out string) bool {
			for _, s := range strings.Split(out, " | ") {
				f := strings.Fields(s)
				if len(f) >= 3 && f[0] == "W" && f[2] != "0" {
					return false
				}
			}

			return true
		},
	}
}
