package main

import (
	"fmt"
	"strconv"
	"strings"

	"github.com/pion/webrtc/v4"
)

// C22 — connection state aggregate.
//
//	agg <closed> <ice> <dtls>               → <pc>
//	seq <prev> (<closed> <ice> <dtls>)*     → <final> <n> <notified…>
func init() {
	registry["C22"] = &Prop{
		Workers:    8,
		Exhaustive: false,
		Rule: "agg: every raw (closed, ice 0..8, dtls 0..6) tuple, enumerated completely; " +
			"seq: every length-2 sequence over the named (closed,ice,dtls) triples from every named initial state " +
			"(thorough) or a seeded sample of them (quick) plus seeded random sequences of length 3..24. " +
			"Non-trivial: distinct op lines; a seq is trivial when it notifies nothing.",
		Gen: func(c *Ctx) {
			for cl := 0; cl < 2; cl++ {
				for ice := 0; ice <= 8; ice++ {
					for dtls := 0; dtls <= 6; dtls++ {
						c.Emit("agg %d %d %d", cl, ice, dtls)
					}
				}
			}
			type tr struct{ c, i, d int }
			named := []tr{}
			for cl := 0; cl < 2; cl++ {
				for ice := 1; ice <= 7; ice++ {
					for dtls := 1; dtls <= 5; dtls++ {
						named = append(named, tr{cl, ice, dtls})
					}
				}
			}
			// length-2 sequences
			for prev := 1; prev <= 6; prev++ {
				for _, a := range named {
					for _, b := range named {
						if !c.Thorough() && c.Rng.Intn(40) != 0 {
							continue
						}
						c.Emit("seq %d %d %d %d %d %d %d", prev, a.c, a.i, a.d, b.c, b.i, b.d)
					}
				}
			}
			for n := 0; n < c.N(300, 5000); n++ {
				l := 3 + c.Rng.Intn(22)
				sb := strings.Builder{}
				fmt.Fprintf(&sb, "seq %d", c.Rng.Intn(7))
				closed := 0
				for k := 0; k < l; k++ {
					if c.Rng.Intn(12) == 0 {
						closed = 1 - closed
					}
					ice, dtls := 1+c.Rng.Intn(7), 1+c.Rng.Intn(5)
					if c.Rng.Intn(30) == 0 {
						ice = 0
					}
					if c.Rng.Intn(30) == 0 {
						dtls = 0
					}
					if c.Rng.Intn(4) == 0 && k > 0 { // repeat the previous input: exercises "no change"
						fmt.Fprintf(&sb, " %s", lastTriple(sb.String()))

						continue
					}
					fmt.Fprintf(&sb, " %d %d %d", closed, ice, dtls)
				}
				c.Emit("%s", sb.String())
			}
		},
		Exec: func(a []string) string {
			n := make([]int, len(a)-1)
			for i := range n {
				v, err := strconv.Atoi(a[i+1])
				if err != nil {
					return "bad-op"
				}
				n[i] = v
			}
			switch a[0] {
			case "agg":
				if len(n) != 3 {
					return "bad-op"
				}
				// from both a differing and an equal previous state the stored value must be the aggregate
				v := webrtc.NewVerifConnState(webrtc.PeerConnectionStateUnknown)
				st, _ := v.Update(n[0] != 0, webrtc.ICEConnectionState(n[1]), webrtc.DTLSTransportState(n[2]))

				return strconv.Itoa(int(st))
			case "seq":
				if len(n) < 1 || (len(n)-1)%3 != 0 {
					return "bad-op"
				}
				v := webrtc.NewVerifConnState(webrtc.PeerConnectionState(n[0]))
				notes := []string{}
				st := webrtc.PeerConnectionState(n[0])
				for k := 1; k+2 < len(n); k += 3 {
					var got []webrtc.PeerConnectionState
					st, got = v.Update(n[k] != 0, webrtc.ICEConnectionState(n[k+1]), webrtc.DTLSTransportState(n[k+2]))
					for _, g := range got {
						notes = append(notes, strconv.Itoa(int(g)))
					}
				}

				return fmt.Sprintf("%d %d %s", int(st), len(notes), strings.Join(notes, " "))
			}

			return "bad-op"
		},
		Class: func(a []string, out string) string {
			if a[0] == "agg" {
				return "agg→" + out
			}
			f := strings.Fields(out)
			if len(f) >= 2 {
				return "seq notified=" + f[1]
			}

			return "seq ?"
		},
		Trivial: func(a []string, out string) bool {
			f := strings.Fields(out)

			return a[0] == "seq" && len(f) >= 2 && f[1] == "0"
		},
	}
}

func lastTriple(s string) string {
	f := strings.Fields(s)

	return strings.Join(f[len(f)-3:], " ")
}
