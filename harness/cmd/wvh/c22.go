package main

import (
	"fmt"
	"os"
	"os/exec"
	"path/filepath"
	"regexp"
	"runtime"
	"strconv"
	"strings"
	"sync"
	"sync/atomic"
	"time"

	"github.com/pion/webrtc/v4"
)

// C22 — connection state aggregate.
//
//	agg <closed> <ice> <dtls>               → <pc>
//	seq <prev> (<closed> <ice> <dtls>)*     → <final> <n> <notified…>
//	live <variant> <n>                      → observed A <closed> <ice> <dtls> <conn> <k> <notified…> | B …
//
// agg/seq drive updateConnectionState on a bare PeerConnection (hook). live ops exercise the CALL SITES
// (ICE state handler, startTransports after the DTLS start, close()): two real PeerConnections over loopback
// are taken through a scenario and, once both have settled, each side's closed flag, ICE connection state,
// DTLS transport state, ConnectionState() and the values its OnConnectionStateChange handler received are
// printed. Which states a live pair settles in is not predictable, so these are judge-only lines.
func init() {
	registry["C22"] = &Prop{
		Workers:    16,
		Timeout:    60 * time.Second,
		Exhaustive: false,
		Rule: "live: every scenario of c22Variants (connect; corrupted answer / offer / both fingerprints; Close of one or " +
			"both sides after connecting, while connecting, before any transport started; an offer that is never answered; an " +
			"answer that never arrives; loss of the peer until ICE is disconnected / failed; a peer closed by the library on " +
			"the other side's DTLS close_notify; a connect in which the ICE handler's update is held between computing the " +
			"aggregate and taking the lock until DTLS is connected [child process, yield hook]) on a real loopback pair with a data " +
			"channel, a media section or both (n mod 3); quick: each scenario once, thorough: each scenario with each of the " +
			"three section layouts four times. Judge-only (the settled states are observed, not predicted). " +
			"agg: every raw (closed, ice 0..8, dtls 0..6) tuple, enumerated completely; " +
			"seq: every length-2 sequence over the named (closed,ice,dtls) triples from every named initial state " +
			"(thorough) or a seeded sample of them (quick) plus seeded random sequences of length 3..24. " +
			"Non-trivial: distinct op lines; a seq is trivial when it notifies nothing.",
		Gen: func(c *Ctx) {
			// live ops first: they take seconds each and overlap with the (fast) table ops
			if c.Thorough() {
				for rep := 0; rep < 4; rep++ {
					for _, v := range c22Variants {
						for m := 0; m < 3; m++ {
							c.Emit("live %s %d", v, 3*rep+m)
						}
					}
				}
			} else {
				for _, v := range c22Variants {
					c.Emit("live %s %d", v, c.Rng.Intn(300))
				}
			}
			for cl := 0; cl < 2; cl++ {
				for ice := 0; ice <= 8; ice++ {
					for dtls := 0; dtls <= 6; dtls++ {
						c.Emit("agg %d %d %d", cl, ice, dtls)
					}
				}
			}
			type tr struct{ c, i, d int }
			named := []tr{}
			for cl := 0; cl < 2; cl++ {
				for ice := 1; ice <= 7; ice++ {
					for dtls := 1; dtls <= 5; dtls++ {
						named = append(named, tr{cl, ice, dtls})
					}
				}
			}
			// length-2 sequences
			for prev := 1; prev <= 6; prev++ {
				for _, a := range named {
					for _, b := range named {
						if !c.Thorough() && c.Rng.Intn(40) != 0 {
							continue
						}
						c.Emit("seq %d %d %d %d %d %d %d", prev, a.c, a.i, a.d, b.c, b.i, b.d)
					}
				}
			}
			for n := 0; n < c.N(300, 5000); n++ {
				l := 3 + c.Rng.Intn(22)
				sb := strings.Builder{}
				fmt.Fprintf(&sb, "seq %d", c.Rng.Intn(7))
				closed := 0
				for k := 0; k < l; k++ {
					if c.Rng.Intn(12) == 0 {
						closed = 1 - closed
					}
					ice, dtls := 1+c.Rng.Intn(7), 1+c.Rng.Intn(5)
					if c.Rng.Intn(30) == 0 {
						ice = 0
					}
					if c.Rng.Intn(30) == 0 {
						dtls = 0
					}
					if c.Rng.Intn(4) == 0 && k > 0 { // repeat the previous input: exercises "no change"
						fmt.Fprintf(&sb, " %s", lastTriple(sb.String()))

						continue
					}
					fmt.Fprintf(&sb, " %d %d %d", closed, ice, dtls)
				}
				c.Emit("%s", sb.String())
			}
		},
		Exec: func(a []string) string {
			if len(a) > 0 && a[0] == "live" {
				if len(a) != 3 {
					return "bad-op"
				}
				n, err := strconv.Atoi(a[2])
				if err != nil || n < 0 {
					return "bad-op"
				}

				return c22Live(a[1], n)
			}
			n := make([]int, len(a)-1)
			for i := range n {
				v, err := strconv.Atoi(a[i+1])
				if err != nil {
					return "bad-op"
				}
				n[i] = v
			}
			switch a[0] {
			case "agg":
				if len(n) != 3 {
					return "bad-op"
				}
				// from both a differing and an equal previous state the stored value must be the aggregate
				v := webrtc.NewVerifConnState(webrtc.PeerConnectionStateUnknown)
				st, _ := v.Update(n[0] != 0, webrtc.ICEConnectionState(n[1]), webrtc.DTLSTransportState(n[2]))

				return strconv.Itoa(int(st))
			case "seq":
				if len(n) < 1 || (len(n)-1)%3 != 0 {
					return "bad-op"
				}
				v := webrtc.NewVerifConnState(webrtc.PeerConnectionState(n[0]))
				notes := []string{}
				st := webrtc.PeerConnectionState(n[0])
				for k := 1; k+2 < len(n); k += 3 {
					var got []webrtc.PeerConnectionState
					st, got = v.Update(n[k] != 0, webrtc.ICEConnectionState(n[k+1]), webrtc.DTLSTransportState(n[k+2]))
					for _, g := range got {
						notes = append(notes, strconv.Itoa(int(g)))
					}
				}

				return fmt.Sprintf("%d %d %s", int(st), len(notes), strings.Join(notes, " "))
			}

			return "bad-op"
		},
		Class: func(a []string, out string) string {
			if a[0] == "agg" {
				return "agg→" + out
			}
			if a[0] == "live" {
				return c22LiveClass(a, out)
			}
			f := strings.Fields(out)
			if len(f) >= 2 {
				return "seq notified=" + f[1]
			}

			return "seq ?"
		},
		Trivial: func(a []string, out string) bool {
			f := strings.Fields(out)
			if a[0] == "live" { // a live pair where neither side ever left "new" exercised no call site
				return !strings.HasPrefix(out, "observed ") || c22LiveClass(a, out) == "live "+a[1]+" A=1 B=1"
			}

			return a[0] == "seq" && len(f) >= 2 && f[1] == "0"
		},
	}
}

func lastTriple(s string) string {
	f := strings.Fields(s)

	return strings.Join(f[len(f)-3:], " ")
}

// c22Variants are the live scenarios (see c22Live).
var c22Variants = []string{
	"ok", "badans", "badoff", "badboth", "closeA", "closeB", "closeAB", "earlyA", "midA", "earlyB",
	"noanswer", "halfanswer", "closenew", "lossB", "faillossB", "peercloseA", "staleice",
}

var c22FingerprintRE = regexp.MustCompile(`a=fingerprint:sha-256 [0-9A-Fa-f:]+`)

func c22Corrupt(sdp string) string {
	return c22FingerprintRE.ReplaceAllString(sdp, "a=fingerprint:sha-256 "+strings.TrimSuffix(strings.Repeat("AA:", 32), ":"))
}

// c22Side is one end of a live pair with what the harness knows about it.
type c22Side struct {
	pc     *webrtc.PeerConnection
	mu     sync.Mutex
	notes  []webrtc.PeerConnectionState
	closed bool // pc.Close() has returned
	// byPeer: the library may close this side itself (DTLS close_notify from the peer); its closed flag is then
	// read off SignalingState() == closed, which close() sets right after the flag
	byPeer bool
}

func (s *c22Side) close() {
	_ = s.pc.Close()
	s.mu.Lock()
	s.closed = true
	s.mu.Unlock()
}

// snap reads conn, ice, dtls, conn (in this order) and the handler record; ok is false when the two conn
// reads differ (a change was in flight).
func (s *c22Side) snap() (string, bool) {
	s.mu.Lock()
	closed := s.closed
	s.mu.Unlock()
	if s.byPeer && s.pc.SignalingState() == webrtc.SignalingStateClosed {
		closed = true
	}
	c1 := s.pc.ConnectionState()
	ice := s.pc.ICEConnectionState()
	dtls := s.pc.SCTP().Transport().State()
	c2 := s.pc.ConnectionState()
	s.mu.Lock()
	defer s.mu.Unlock()
	sb := strings.Builder{}
	fmt.Fprintf(&sb, "%s %d %d %d %d", b2s(closed), int(ice), int(dtls), int(c2), len(s.notes))
	for _, n := range s.notes {
		fmt.Fprintf(&sb, " %d", int(n))
	}

	return sb.String(), c1 == c2
}

func c22LiveClass(a []string, out string) string {
	if !strings.HasPrefix(out, "observed ") {
		return "live " + a[1] + " " + strings.Fields(out + " ?")[0]
	}
	parts := strings.Split(strings.TrimPrefix(out, "observed "), " | ")
	lab := "live " + a[1]
	for _, p := range parts {
		f := strings.Fields(p)
		if len(f) >= 5 {
			lab += " " + f[0] + "=" + f[4]
		}
	}

	return lab
}

// c22Live takes a loopback pair through one scenario and reports both sides once they have settled.
// n mod 3 selects what is negotiated: 0 a data channel, 1 a media section, 2 both.
// Everything before the final snapshots only steers the pair towards an interesting state; the verdict is the
// Lean judge's, on the snapshot alone.
func c22Live(variant string, n int) string {
	known := false
	for _, v := range c22Variants {
		known = known || v == variant
	}
	if !known {
		return "bad-op"
	}
	if variant == "staleice" && os.Getenv("WVH_C22_STALL") == "" {
		return c22InChild(variant, n)
	}
	se := loopbackSettings()
	// the sides do not close each other: the closed flag is what the harness did (except in peercloseA)
	se.DisableCloseByDTLS(variant != "peercloseA")
	if variant == "lossB" || variant == "faillossB" {
		se.SetICETimeouts(1500*time.Millisecond, 3*time.Second, 400*time.Millisecond)
	}
	newAPI := func() (*webrtc.API, error) {
		me := &webrtc.MediaEngine{}
		if err := me.RegisterDefaultCodecs(); err != nil {
			return nil, err
		}

		return webrtc.NewAPI(webrtc.WithSettingEngine(se), webrtc.WithMediaEngine(me)), nil
	}
	apiA, err := newAPI()
	if err != nil {
		return "inconclusive api"
	}
	apiB, err := newAPI()
	if err != nil {
		return "inconclusive api"
	}
	pair, err := NewPair(apiA, apiB)
	if err != nil {
		return "inconclusive newpair"
	}
	defer pair.Close()
	sa, sb := &c22Side{pc: pair.A}, &c22Side{pc: pair.B, byPeer: variant == "peercloseA"}
	for _, s := range []*c22Side{sa, sb} {
		s := s
		s.pc.OnConnectionStateChange(func(st webrtc.PeerConnectionState) {
			s.mu.Lock()
			s.notes = append(s.notes, st)
			s.mu.Unlock()
		})
	}
	if variant == "staleice" {
		// A's ICE handler is held between computing the aggregate for "ICE connected" and taking pc.mu (the
		// verifYield point ucs.computed) until both DTLS transports are connected: its snapshot of the DTLS state
		// is then older than the one startTransports' update has already stored a state for.
		var armed atomic.Value
		armed.Store("")
		pair.A.OnICEConnectionStateChange(func(st webrtc.ICEConnectionState) {
			if st == webrtc.ICEConnectionStateConnected {
				armed.Store(c22Goid()) // the update follows on this goroutine
			}
		})
		webrtc.VerifSetYield(func(label string) {
			if label != "ucs.computed" || armed.Load() != c22Goid() {
				return
			}
			armed.Store("")
			until := time.Now().Add(6 * time.Second)
			for time.Now().Before(until) {
				if pair.A.SCTP().Transport().State() == webrtc.DTLSTransportStateConnected &&
					pair.B.SCTP().Transport().State() == webrtc.DTLSTransportStateConnected {
					break
				}
				time.Sleep(time.Millisecond)
			}
			time.Sleep(150 * time.Millisecond) // let startTransports' own update go first
		})
		defer webrtc.VerifSetYield(nil)
	}
	if n%3 != 1 {
		if _, err = pair.A.CreateDataChannel("c22", nil); err != nil {
			return "inconclusive datachannel"
		}
	}
	if n%3 != 0 {
		if _, err = pair.A.AddTransceiverFromKind(webrtc.RTPCodecTypeVideo); err != nil {
			return "inconclusive transceiver"
		}
	}

	// signaling, step by step, so that scenarios can stop or tamper in between
	gather := func(pc *webrtc.PeerConnection, d webrtc.SessionDescription) (webrtc.SessionDescription, bool) {
		g := webrtc.GatheringCompletePromise(pc)
		if err := pc.SetLocalDescription(d); err != nil {
			return d, false
		}
		select {
		case <-g:
		case <-time.After(10 * time.Second):
			return d, false
		}

		return *pc.LocalDescription(), true
	}
	offer, err := pair.A.CreateOffer(nil)
	if err != nil {
		return "inconclusive createoffer"
	}
	offer, ok := gather(pair.A, offer)
	if !ok {
		return "inconclusive offer-gathering"
	}
	until := func(d time.Duration, cond func() bool) bool {
		deadline := time.Now().Add(d)
		for time.Now().Before(deadline) {
			if cond() {
				return true
			}
			time.Sleep(10 * time.Millisecond)
		}

		return false
	}
	dtlsOver := func(s *c22Side) func() bool {
		return func() bool {
			st := s.pc.SCTP().Transport().State()

			return st == webrtc.DTLSTransportStateFailed || st == webrtc.DTLSTransportStateClosed
		}
	}
	answerStep := func() (webrtc.SessionDescription, string) {
		o := offer
		if variant == "badoff" || variant == "badboth" {
			o.SDP = c22Corrupt(o.SDP)
		}
		if err := pair.B.SetRemoteDescription(o); err != nil {
			return o, "inconclusive srd-offer"
		}
		ans, err := pair.B.CreateAnswer(nil)
		if err != nil {
			return o, "inconclusive createanswer"
		}
		ans, ok := gather(pair.B, ans)
		if !ok {
			return o, "inconclusive answer-gathering"
		}
		if variant == "badans" || variant == "badboth" {
			ans.SDP = c22Corrupt(ans.SDP)
		}

		return ans, ""
	}

	switch variant {
	case "closenew": // nothing was ever started: close() is the only call site that runs
		sa.close()
		sb.close()
	case "noanswer": // B applies the offer and never answers: no transport starts
		if err := pair.B.SetRemoteDescription(offer); err != nil {
			return "inconclusive srd-offer"
		}
	default:
		ans, why := answerStep()
		if why != "" {
			return why
		}
		switch variant {
		case "halfanswer": // B has started its transports, A never hears of it
		case "earlyB": // B closes while it is checking; A then starts against a closed peer
			sb.close()
			if err := pair.A.SetRemoteDescription(ans); err != nil {
				return "inconclusive srd-answer"
			}
		case "midA": // A is closed from its ICE handler's goroutine on "checking" (n even) / "connected" (n odd):
			// Close races the ICE handler's own update and the DTLS start
			trigger := webrtc.ICEConnectionStateChecking
			if n%2 == 1 {
				trigger = webrtc.ICEConnectionStateConnected
			}
			done := make(chan struct{})
			var once sync.Once
			pair.A.OnICEConnectionStateChange(func(st webrtc.ICEConnectionState) {
				if st == trigger {
					once.Do(func() {
						go func() {
							sa.close()
							close(done)
						}()
					})
				}
			})
			if err := pair.A.SetRemoteDescription(ans); err != nil {
				return "inconclusive srd-answer"
			}
			select {
			case <-done:
			case <-time.After(8 * time.Second):
				once.Do(func() {
					sa.close()
					close(done)
				})
				<-done
			}
		case "earlyA": // A closes right after SetRemoteDescription returned (its transports may not have started)
			if err := pair.A.SetRemoteDescription(ans); err != nil {
				return "inconclusive srd-answer"
			}
			sa.close()
		default:
			if err := pair.A.SetRemoteDescription(ans); err != nil {
				return "inconclusive srd-answer"
			}
			switch variant {
			case "staleice":
				until(12*time.Second, func() bool {
					return pair.A.SCTP().Transport().State() == webrtc.DTLSTransportStateConnected &&
						pair.B.SCTP().Transport().State() == webrtc.DTLSTransportStateConnected
				})
				time.Sleep(400 * time.Millisecond) // the held update runs 150 ms after that
			case "badans":
				until(12*time.Second, dtlsOver(sa))
			case "badoff":
				until(12*time.Second, dtlsOver(sb))
			case "badboth":
				until(12*time.Second, func() bool { return dtlsOver(sa)() && dtlsOver(sb)() })
			default:
				pair.WaitConnected(12 * time.Second)
				c22Settle(sa, sb, 3*time.Second) // let the handlers of the connect phase run before going on
				switch variant {
				case "closeA":
					sa.close()
				case "closeB":
					sb.close()
				case "closeAB":
					sa.close()
					sb.close()
				case "peercloseA": // B is closed by the library on A's DTLS close_notify
					sa.close()
					until(6*time.Second, func() bool { return pair.B.SignalingState() == webrtc.SignalingStateClosed })
				case "lossB":
					sb.close()
					until(8*time.Second, func() bool {
						return pair.A.ICEConnectionState() == webrtc.ICEConnectionStateDisconnected
					})
				case "faillossB":
					sb.close()
					until(12*time.Second, func() bool {
						return pair.A.ICEConnectionState() == webrtc.ICEConnectionStateFailed
					})
				}
			}
		}
	}
	out, ok := c22Settle(sa, sb, 20*time.Second)
	if !ok {
		return "inconclusive not-settled " + out
	}

	return "observed " + out
}

func c22Goid() string {
	b := make([]byte, 64)
	f := strings.Fields(string(b[:runtime.Stack(b, false)]))
	if len(f) < 2 {
		return "?"
	}

	return f[1]
}

// c22InChild runs one live op in a child process (the yield callback it installs is process-global and must
// not touch the pairs of the ops running next to it).
func c22InChild(variant string, n int) string {
	self, err := os.Executable()
	if err != nil {
		return "inconclusive child"
	}
	dir, err := os.MkdirTemp("", "wvh-c22-")
	if err != nil {
		return "inconclusive child"
	}
	defer os.RemoveAll(dir)
	opf := filepath.Join(dir, "op.ops")
	if err = os.WriteFile(opf, []byte(fmt.Sprintf("C22 live %s %d\n", variant, n)), 0o600); err != nil {
		return "inconclusive child"
	}
	cmd := exec.Command(self, "C22", "-replay", opf, "-out", dir)
	cmd.Env = append(os.Environ(), "WVH_C22_STALL=1", "WVH_CHILD=1")
	if err = cmd.Run(); err != nil {
		return "inconclusive child"
	}
	data, err := os.ReadFile(filepath.Join(dir, "impl.txt"))
	if err != nil {
		return "inconclusive child"
	}

	return strings.TrimSpace(strings.Split(string(data), "\n")[0])
}

// c22Settle waits until two snapshots of both sides taken 200 ms apart are identical (and each was read
// with equal ConnectionState() before and after the transport states).
func c22Settle(sa, sb *c22Side, d time.Duration) (string, bool) {
	deadline := time.Now().Add(d)
	prev := ""
	for {
		a, oka := sa.snap()
		b, okb := sb.snap()
		cur := "A " + a + " | B " + b
		if oka && okb && cur == prev {
			return cur, true
		}
		if !oka || !okb {
			cur = ""
		}
		prev = cur
		if time.Now().After(deadline) {
			return strings.ReplaceAll(cur, " ", "_"), false
		}
		time.Sleep(200 * time.Millisecond)
	}
}
