package main

import (
	"bytes"
	"encoding/binary"
	"errors"
	"fmt"
	"io"
	"math/rand"
	"strconv"
	"strings"

	"github.com/pion/rtp"
	"github.com/pion/rtp/codecs"
	"github.com/pion/webrtc/v4/pkg/media/h264reader"
	"github.com/pion/webrtc/v4/pkg/media/h264writer"
	"github.com/pion/webrtc/v4/pkg/media/h265reader"
	"github.com/pion/webrtc/v4/pkg/media/h265writer"
)

// ---------------------------------------------------------------------------------------------
// executor: the real writer, then the real matching reader (SEI inclusion on) on what was written

func c35ReadBack(codec string, file []byte) string {
	var next func() ([]byte, error)
	if codec == "h264" {
		r, err := h264reader.NewReaderWithOptions(bytes.NewReader(file), h264reader.WithIncludeSEI(true))
		if err != nil {
			return "R newreader-failed"
		}
		next = func() ([]byte, error) {
			n, e := r.NextNAL()
			if e != nil {
				return nil, e
			}

			return n.Data, nil
		}
	} else {
		r, err := h265reader.NewReaderWithOptions(bytes.NewReader(file), h265reader.WithIncludeSEI(true))
		if err != nil {
			return "R newreader-failed"
		}
		next = func() ([]byte, error) {
			n, e := r.NextNAL()
			if e != nil {
				return nil, e
			}

			return n.Data, nil
		}
	}
	out := []string{}
	end := "eof"
	for {
		d, err := next()
		if errors.Is(err, io.EOF) {
			break
		}
		if err != nil {
			end = "notbitstream"

			break
		}
		out = append(out, fnv64s(d))
	}

	return strings.TrimSpace(fmt.Sprintf("R %d %s", len(out), strings.Join(out, " "))) + " " + end
}

func c35Exec(a []string) string {
	if len(a) < 3 {
		return "bad-op"
	}
	n, err := strconv.Atoi(a[2])
	if err != nil || len(a) != 3+n {
		return "bad-op"
	}
	buf := &bytes.Buffer{}
	var write func(*rtp.Packet) error
	switch a[0] {
	case "h264":
		write = h264writer.NewWith(buf).WriteRTP
	case "h265":
		write = h265writer.NewWith(buf).WriteRTP
	default:
		return "bad-op"
	}
	st := make([]byte, n)
	for i := 0; i < n; i++ {
		pl := unhx(a[3+i])
		before := buf.Len()
		// every packet owns its payload buffer, like packets coming off a jitter buffer
		werr := write(&rtp.Packet{Header: rtp.Header{Version: 2, SequenceNumber: uint16(i)}, Payload: pl}) //nolint:gosec
		switch {
		case werr != nil && buf.Len() != before:
			st[i] = 'E' // wrote and failed: never expected
		case werr != nil:
			st[i] = 'e'
		case buf.Len() != before:
			st[i] = 'w'
		default:
			st[i] = '-'
		}
	}
	file := append([]byte{}, buf.Bytes()...)

	return fmt.Sprintf("s:%s W %s %s", st, fnv64s(file), c35ReadBack(a[0], file))
}

// ---------------------------------------------------------------------------------------------
// generators

type c35Gen struct {
	r     *rand.Rand
	codec string
}

// body bytes biased towards the values that matter for Annex-B
func (g *c35Gen) rawBytes(n int) []byte {
	b := make([]byte, n)
	for i := range b {
		switch g.r.Intn(6) {
		case 0:
			b[i] = 0
		case 1:
			b[i] = byte(g.r.Intn(4))
		default:
			b[i] = byte(g.r.Intn(256))
		}
	}

	return b
}

// make a unit something Annex-B can carry: no 00 00 01 inside (runs of zeros followed by another byte
// stay), last byte non-zero
func c35MakeWF(n []byte, hdr int) {
	for i := 2; i < len(n); i++ {
		if n[i-2] == 0 && n[i-1] == 0 && n[i] == 1 && i >= hdr {
			n[i] = 3
		}
	}
	if len(n) > hdr && n[len(n)-1] == 0 {
		n[len(n)-1] = 0x80
	}
}

var (
	c35Key264    = []int{5, 7}
	c35NonKey264 = []int{1, 1, 1, 1, 1, 1, 2, 3, 4, 6, 8, 8, 9, 10, 11, 12, 13, 14, 15, 16, 19, 20, 21, 22, 23}
	c35Key265    = []int{19, 20, 32, 33, 34}
	// 0..5 and 38..41 are the types the shifted FU mask mistakes for key frames
	c35NonKey265 = []int{0, 1, 1, 1, 1, 1, 2, 3, 4, 5, 6, 7, 8, 9, 16, 17, 18, 21, 22, 35, 36, 37, 38, 39, 39, 40, 41, 44, 47}
)

func (g *c35Gen) nal(typ, size int) []byte {
	if g.codec == "h264" {
		if size < 1 {
			size = 1
		}
		n := g.rawBytes(size)
		n[0] = byte(g.r.Intn(4)<<5 | typ)
		c35MakeWF(n, 1)

		return n
	}
	if size < 3 {
		size = 3
	}
	n := g.rawBytes(size)
	n[0] = byte(typ<<1 | g.r.Intn(8)/7) // layer id high bit mostly 0
	n[1] = byte(g.r.Intn(4)<<3 | 1 + g.r.Intn(3))
	c35MakeWF(n, 2)

	return n
}

func (g *c35Gen) pick(xs []int) int { return xs[g.r.Intn(len(xs))] }

// a NAL sequence: units before index kpos are not key frames, unit kpos is one; later units are anything
func (g *c35Gen) stream(mtu int) ([][]byte, int) {
	count := 1 + g.r.Intn(8)
	if g.r.Intn(8) == 0 {
		count = 9 + g.r.Intn(12)
	}
	kpos := g.r.Intn(count)
	switch g.r.Intn(8) {
	case 0:
		kpos = -1
	case 1, 2:
		kpos = 0
	}
	key, non := c35Key264, c35NonKey264
	if g.codec == "h265" {
		key, non = c35Key265, c35NonKey265
	}
	// a quarter of the streams look like an encoder's output: slices, then the parameter sets and an IDR
	// picture, then slices (this is what makes the H.264 payloader emit its SPS+PPS STAP-A)
	var shape []int
	if g.r.Intn(4) == 0 {
		pre := g.r.Intn(4)
		slice, gop := 1, []int{7, 8, 5}
		if g.codec == "h265" {
			slice, gop = 1, []int{32, 33, 34, 19 + g.r.Intn(2)}
		}
		if g.r.Intn(3) == 0 { // SEI between parameter sets and picture
			sei := 6
			if g.codec == "h265" {
				sei = 39
			}
			gop = append(gop[:len(gop)-1], sei, gop[len(gop)-1])
		}
		for i := 0; i < pre; i++ {
			shape = append(shape, slice)
		}
		shape = append(shape, gop...)
		for i := g.r.Intn(4); i > 0; i-- {
			shape = append(shape, slice)
		}
		count = len(shape)
		kpos = pre
	}
	nals := make([][]byte, count)
	for i := range nals {
		var size int
		switch g.r.Intn(10) {
		case 0, 1, 2, 3:
			size = 1 + g.r.Intn(mtu/4+2)
		case 4, 5, 6:
			size = 1 + g.r.Intn(mtu)
		case 7:
			size = mtu - 3 + g.r.Intn(7)
		default:
			size = mtu + 1 + g.r.Intn(2*mtu)
		}
		if size > 4000 {
			size = 4000
		}
		if g.r.Intn(12) == 0 {
			size = 1 + g.r.Intn(5)
		}
		var typ int
		switch {
		case shape != nil:
			typ = shape[i]
			if typ >= 32 || typ == 7 || typ == 8 { // parameter sets are small
				size = 4 + g.r.Intn(40)
			}
		case kpos >= 0 && i == kpos:
			typ = g.pick(key)
		case kpos < 0 || i < kpos:
			typ = g.pick(non)
		case g.r.Intn(3) == 0:
			typ = g.pick(key)
		default:
			typ = g.pick(non)
		}
		nals[i] = g.nal(typ, size)
	}

	return nals, kpos
}

// pion's payloaders, fed with Annex-B access units of 1–4 units each
func (g *c35Gen) payloaderPackets(nals [][]byte, mtu int) [][]byte {
	var pay rtp.Payloader
	if g.codec == "h264" {
		pay = &codecs.H264Payloader{DisableStapA: g.r.Intn(4) == 0}
	} else {
		pay = &codecs.H265Payloader{SkipAggregation: g.r.Intn(4) == 0}
	}
	var out [][]byte
	for i := 0; i < len(nals); {
		k := 1 + g.r.Intn(4)
		au := []byte{}
		for j := 0; j < k && i < len(nals); j++ {
			if g.r.Intn(2) == 0 {
				au = append(au, 0)
			}
			au = append(au, 0, 0, 1)
			au = append(au, nals[i]...)
			i++
		}
		out = append(out, pay.Payload(uint16(mtu), au)...) //nolint:gosec
	}

	return out
}

func c35Units(ns [][]byte) []byte {
	var b []byte
	for _, n := range ns {
		b = binary.BigEndian.AppendUint16(b, uint16(len(n))) //nolint:gosec
		b = append(b, n...)
	}

	return b
}

func (g *c35Gen) cuts(body []byte) [][]byte {
	k := 2 + g.r.Intn(4)
	chunks := make([][]byte, 0, k)
	rest := body
	for i := 0; i < k-1; i++ {
		c := 0
		if len(rest) > 0 && g.r.Intn(10) != 0 {
			c = 1 + g.r.Intn(len(rest))
			if g.r.Intn(3) == 0 {
				c = 1 + g.r.Intn(2)
			}
			if c > len(rest) {
				c = len(rest)
			}
		}
		chunks = append(chunks, rest[:c])
		rest = rest[c:]
	}

	return append(chunks, rest)
}

func (g *c35Gen) fragments(n []byte) [][]byte {
	var pre []byte
	var typ byte
	var body []byte
	if g.codec == "h264" {
		pre, typ, body = []byte{n[0]&0xE0 | 28}, n[0]&0x1F, n[1:]
	} else {
		pre, typ, body = []byte{n[0]&0x81 | 0x62, n[1]}, (n[0]&0x7E)>>1, n[2:]
	}
	chunks := g.cuts(body)
	out := make([][]byte, len(chunks))
	for i, c := range chunks {
		fh := typ
		if i == 0 {
			fh |= 0x80
		} else if i == len(chunks)-1 {
			fh |= 0x40
		}
		p := append(append([]byte{}, pre...), fh)
		out[i] = append(p, c...)
	}

	return out
}

func (g *c35Gen) aggregate(ns [][]byte) []byte {
	if g.codec == "h264" {
		return append([]byte{byte(g.r.Intn(4)<<5 | 24)}, c35Units(ns)...)
	}

	return append([]byte{48<<1 | byte(g.r.Intn(8)/7), byte(g.r.Intn(4)<<3 | 1 + g.r.Intn(3))}, c35Units(ns)...)
}

// RFC 6184 / RFC 7798 packetisation with random grouping; the first key frame's carriage is steered so
// that every form (single, first / inner unit of an aggregate, fragmented) is common
func (g *c35Gen) handPackets(nals [][]byte, kpos, mtu int) [][]byte {
	var out [][]byte
	minAgg := 1
	if g.codec == "h265" {
		minAgg = 2
	}
	hdr := 1
	if g.codec == "h265" {
		hdr = 2
	}
	steer := g.r.Intn(4) // 0 single, 1 aggregate-first, 2 aggregate-inner, 3 fragmented
	for i := 0; i < len(nals); {
		n := nals[i]
		choice := g.r.Intn(10)
		switch {
		case kpos >= 0 && i == kpos:
			choice = []int{9, 0, 9, 4}[steer]
		case kpos >= 1 && i == kpos-1 && steer == 2:
			choice = 0
		}
		switch {
		case choice < 3 && len(n) < 300:
			k := minAgg + g.r.Intn(3)
			if kpos >= 1 && i == kpos-1 && steer == 2 && k < 2 {
				k = 2
			}
			if i+k > len(nals) {
				k = len(nals) - i
			}
			if k >= minAgg {
				out = append(out, g.aggregate(nals[i:i+k]))
				i += k

				continue
			}
			out = append(out, n)
		case (choice < 6 || len(n) > mtu) && len(n) > hdr:
			out = append(out, g.fragments(n)...)
		default:
			out = append(out, n)
		}
		i++
	}

	return out
}

// which form carries the first key frame (Go-side twin of the Lean decoder, for the histogram only)
func c35FirstKeyForm(codec string, pkts [][]byte) (string, int) {
	isKey := func(b byte) bool {
		if codec == "h264" {
			return b&0x1F == 5 || b&0x1F == 7
		}
		t := (b & 0x7E) >> 1

		return t == 19 || t == 20 || (t >= 32 && t <= 34)
	}
	form, count := "none", 0
	found := func(f string) {
		if form == "none" {
			form = f
		}
	}
	for _, p := range pkts {
		hdr, typ, agg, fu := 1, 0, 24, 28
		if codec == "h265" {
			hdr, agg, fu = 2, 48, 49
		}
		if len(p) <= hdr {
			if codec == "h264" && len(p) == 1 {
				count++
				if isKey(p[0]) {
					found("single")
				}
			}

			continue
		}
		if codec == "h264" {
			typ = int(p[0] & 0x1F)
		} else {
			typ = int((p[0] & 0x7E) >> 1)
		}
		switch typ {
		case agg:
			rest := p[hdr:]
			for k := 0; len(rest) >= 2; k++ {
				sz := int(binary.BigEndian.Uint16(rest))
				if sz == 0 || sz > len(rest)-2 {
					break
				}
				count++
				if isKey(rest[2]) {
					if k == 0 {
						found("agg0")
					} else {
						found("aggN")
					}
				}
				rest = rest[2+sz:]
			}
		case fu:
			fh := p[hdr]
			if fh&0x80 != 0 {
				count++
				orig := fh & 0x1F
				if codec == "h265" {
					orig = (fh & 0x3F) << 1
				}
				if isKey(orig) {
					found("fu")
				}
			}
		default:
			count++
			if isKey(p[0]) {
				found("single")
			}
		}
	}

	return form, count
}

func (g *c35Gen) mutate(pkts [][]byte) [][]byte {
	out := make([][]byte, len(pkts))
	for i := range pkts {
		out[i] = append([]byte{}, pkts[i]...)
	}
	for m := 1 + g.r.Intn(3); m > 0; m-- {
		if len(out) == 0 {
			out = append(out, g.rawBytes(g.r.Intn(9)))

			continue
		}
		i := g.r.Intn(len(out))
		sw := g.r.Intn(14)
		if sw >= 11 { // lose one fragment of a fragmented unit (start, middle or end)
			frags := []int{}
			for k, p := range out {
				if (g.codec == "h264" && len(p) > 1 && p[0]&0x1F == 28) || (g.codec == "h265" && len(p) > 2 && (p[0]&0x7E)>>1 == 49) {
					frags = append(frags, k)
				}
			}
			if len(frags) > 0 {
				i = frags[g.r.Intn(len(frags))]
			}
			sw = 0
		}
		switch sw {
		case 0: // lose a packet
			out = append(out[:i], out[i+1:]...)
		case 1: // duplicate
			out = append(out[:i+1], append([][]byte{append([]byte{}, out[i]...)}, out[i+1:]...)...)
		case 2: // reorder
			if i+1 < len(out) {
				out[i], out[i+1] = out[i+1], out[i]
			}
		case 3: // truncate
			out[i] = out[i][:g.r.Intn(len(out[i])+1)]
		case 4: // bit flip in the header area
			if len(out[i]) > 0 {
				out[i][g.r.Intn(min(len(out[i]), 5))] ^= byte(1 << g.r.Intn(8))
			}
		case 5: // any first byte
			if len(out[i]) > 0 {
				out[i][0] = byte(g.r.Intn(256))
			}
		case 6: // junk packet
			out = append(out[:i], append([][]byte{g.rawBytes(g.r.Intn(9))}, out[i:]...)...)
		case 7: // empty payload
			out = append(out[:i], append([][]byte{{}}, out[i:]...)...)
		case 8: // corrupt a size field of an aggregate
			if len(out[i]) > 4 {
				out[i][2+g.r.Intn(2)] = byte(g.r.Intn(256))
			}
		case 9: // H.265: wrap into a PACI packet (type 50)
			if g.codec == "h265" && len(out[i]) >= 2 {
				p := out[i]
				ctype := (p[0] & 0x7E) >> 1
				phs := g.r.Intn(4)
				f := uint16(ctype)<<9 | uint16(phs)<<4 | uint16(g.r.Intn(2)) //nolint:gosec
				w := []byte{p[0]&0x81 | 50<<1, p[1], byte(f >> 8), byte(f)}
				w = append(w, g.rawBytes(phs)...)
				out[i] = append(w, p[2:]...)
			}
		default: // trailing bytes
			out[i] = append(out[i], g.rawBytes(1+g.r.Intn(3))...)
		}
	}

	return out
}

func c35Emit(c *Ctx, codec, tag string, pkts [][]byte) {
	sb := strings.Builder{}
	fmt.Fprintf(&sb, "%s %s %d", codec, tag, len(pkts))
	for _, p := range pkts {
		sb.WriteByte(' ')
		sb.WriteString(hx(p))
	}
	c.Emit("%s", sb.String())
}

func c35Generate(c *Ctx) {
	r := c.Rng
	mtus := []int{12, 20, 60, 60, 200, 200, 1200}
	for i := 0; i < c.N(2400, 60000); i++ {
		g := &c35Gen{r: r, codec: []string{"h264", "h265"}[i%2]}
		mtu := mtus[r.Intn(len(mtus))]
		if r.Intn(4) == 0 {
			mtu = 10 + r.Intn(1400)
		}
		nals, kpos := g.stream(mtu)
		var pkts [][]byte
		gen := ""
		switch r.Intn(10) {
		case 0, 1, 2, 3:
			pkts = g.payloaderPackets(nals, mtu)
			gen = "pl"
		case 4, 5, 6, 7:
			pkts = g.handPackets(nals, kpos, mtu)
			gen = "hand"
		case 8:
			// units Annex-B cannot carry (emulated start codes, trailing zeros): outside the property,
			// model ≡ implementation only
			for _, n := range nals {
				if len(n) > 4 && r.Intn(2) == 0 {
					p := 2 + r.Intn(len(n)-3)
					copy(n[p:], [][]byte{{0, 0, 1}, {0, 0, 0}, {0, 0}}[r.Intn(3)])
				}
				if r.Intn(3) == 0 {
					n[len(n)-1] = 0
				}
			}
			pkts = g.handPackets(nals, kpos, mtu)
			gen = "nwf"
		default:
			if r.Intn(2) == 0 {
				pkts = g.payloaderPackets(nals, mtu)
			} else {
				pkts = g.handPackets(nals, kpos, mtu)
			}
			pkts = g.mutate(pkts)
			gen = "mal"
		}
		form, carried := c35FirstKeyForm(g.codec, pkts)
		if gen == "pl" && carried != len(nals) {
			gen = "plx" // the payloader dropped or withheld units (AUD/filler, parameter sets waiting for a slice, oversize STAP-A)
		}
		if gen == "mal" {
			form = "x"
		}
		c35Emit(c, g.codec, gen+":"+form, pkts)
	}
	// a fragment of a unit is lost before the first key frame: depacketizer state must not leak through the gate
	for i := 0; i < c.N(300, 6000); i++ {
		g := &c35Gen{r: r, codec: []string{"h264", "h265"}[i%2]}
		key, non := c35Key264, c35NonKey264
		if g.codec == "h265" {
			key, non = c35Key265, c35NonKey265
		}
		var pkts [][]byte
		for k := 1 + r.Intn(2); k > 0; k-- {
			fr := g.fragments(g.nal(g.pick(non), 4+r.Intn(30)))
			lose := []int{0, len(fr) - 1, len(fr) - 1, r.Intn(len(fr))}[r.Intn(4)]
			fr = append(fr[:lose], fr[lose+1:]...)
			pkts = append(pkts, fr...)
			if r.Intn(3) == 0 {
				pkts = append(pkts, g.nal(g.pick(non), 3+r.Intn(10)))
			}
		}
		kn := g.nal(g.pick(key), 5+r.Intn(30))
		if r.Intn(2) == 0 {
			pkts = append(pkts, g.fragments(kn)...)
		} else {
			pkts = append(pkts, kn)
		}
		for k := r.Intn(3); k >= 0; k-- {
			n := g.nal(g.pick(non), 4+r.Intn(30))
			if r.Intn(3) != 0 {
				pkts = append(pkts, g.fragments(n)...)
			} else {
				pkts = append(pkts, n)
			}
		}
		c35Emit(c, g.codec, "mal:fuloss", pkts)
	}
	// payloads made of random bytes with every possible first byte
	for i := 0; i < c.N(512, 8192); i++ {
		g := &c35Gen{r: r, codec: []string{"h264", "h265"}[(i/256)%2]}
		n := 1 + r.Intn(4)
		pkts := make([][]byte, n)
		for k := range pkts {
			pkts[k] = g.rawBytes(1 + r.Intn(12))
			pkts[k][0] = byte(i + 37*k)
		}
		if r.Intn(2) == 0 { // behind a key frame, so that the depacketizer sees them
			key := g.nal(map[string]int{"h264": 7, "h265": 32}[g.codec], 6)
			pkts = append([][]byte{key}, pkts...)
		}
		c35Emit(c, g.codec, "mal:x", pkts)
	}
}

func init() {
	registry["C35"] = &Prop{
		Workers: 16,
		Rule: "seeded NAL sequences (1–20 units; H.264 types 1–23, H.265 types 0–47, first key frame — SPS/IDR resp. " +
			"VPS/SPS/PPS/IDR — at a random position, first, or absent; sizes from 1 byte to 3×MTU, bytes biased to " +
			"0..3, runs of zeros allowed, but free of emulated start codes 00 00 01 and trailing zeros) are packetised (pl) by pion's H264Payloader/H265Payloader fed " +
			"with Annex-B access units at MTU ∈ {12,20,60,200,1200,random} (STAP-A/AP on and off; plx = the payloader " +
			"dropped or withheld units) or (hand) by an RFC 6184/7798 packetiser with random grouping into single, " +
			"STAP-A/AP and FU-A/FU packets (random cut points incl. empty and 1-byte fragments), the first key " +
			"frame's carriage steered over single / first-in-aggregate / inner-in-aggregate / fragmented (label " +
			"after the colon); every payload goes through the real H264Writer/H265Writer.WriteRTP, and what was " +
			"written is read back by the real h264reader/h265reader with SEI inclusion on. nwf: units with " +
			"emulated start codes / trailing zeros; mal: lost, duplicated, reordered, truncated, bit-flipped, " +
			"junk, empty, PACI-wrapped packets, fragments lost before the first key frame (fuloss) and random " +
			"payloads with every first byte (both only model ≡ " +
			"implementation, the property does not constrain them). Non-trivial: distinct op lines on which the " +
			"writer wrote something or returned an error.",
		Gen:  c35Generate,
		Exec: c35Exec,
		Class: func(a []string, out string) string {
			w := "nothing-written"
			if f := strings.Fields(out); len(f) > 2 && f[1] == "W" && f[2] != "0" {
				w = "written"
			}
			if len(a) < 2 {
				return ""
			}

			return a[0] + " " + a[1] + " " + w
		},
		Trivial: func(_ []string, out string) bool {
			f := strings.Fields(out)

			return len(f) == 0 || strings.Trim(f[0], "s:-") == ""
		},
	}
}
