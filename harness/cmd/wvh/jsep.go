package main

import (
	"encoding/hex"
	"fmt"
	"hash/fnv"
	"strconv"
	"strings"
	"time"

	"github.com/pion/ice/v4"
	"github.com/pion/sdp/v3"
	"github.com/pion/webrtc/v4"
)

// Shared executor for C06 / C07 / C09: one op line is a complete history of two real PeerConnections
// (a, b) plus synthetic remote offers; the output abstracts every created description with pion/sdp to the
// AbsSDP of lean/WebrtcVerif/Model/Jsep.lean (format: lean/WebrtcVerif/Drv/Jsep.lean).
//
//	h <cfgA> <cfgB> <op>*
//	cfg = semantics u|f|p · media-level fingerprints 0|1 · AlwaysNegotiateDataChannels 0|1 ·
//	      media engine 1 (opus) 2 (VP8) 3 (RegisterDefaultCodecs) · bundle policy 0..3
//	op  = p.at.K  AddTrack                p.ak.K.D  AddTransceiverFromKind     p.dc  CreateDataChannel
//	      p.rt.I  RemoveTrack(sender of transceiver I)      p.st.I  transceiver I .Stop()
//	      p.co    CreateOffer             p.ca      CreateAnswer
//	      p.sl    SetLocalDescription(last description p created)   p.slo  (the one before)
//	      p.sr    SetRemoteDescription(last description the other peer created)
//	      p.so.S  SetRemoteDescription(synthetic offer S)
//
// Nothing here has an order of its own making: mids, section order and the BUNDLE list are printed as they
// appear in the SDP.
const jsepFingerprint = "sha-256 0F:74:31:25:CB:A2:13:EC:28:6F:6D:2C:61:FF:5D:C2:BC:B9:DB:3D:98:14:8D:1A:BB:EA:33:0C:A4:60:A8:8E"

type jsepPeer struct {
	pc      *webrtc.PeerConnection
	created []webrtc.SessionDescription
}

func jsepNewPeer(cfg string) (*jsepPeer, error) {
	if len(cfg) != 5 {
		return nil, fmt.Errorf("bad cfg %q", cfg)
	}
	se := webrtc.SettingEngine{}
	se.SetICEMulticastDNSMode(ice.MulticastDNSModeDisabled)
	se.SetNetworkTypes([]webrtc.NetworkType{webrtc.NetworkTypeUDP4})
	se.SetInterfaceFilter(func(string) bool { return false }) // no candidates: ICE never starts anything
	se.SetSDPMediaLevelFingerprints(cfg[1] == '1')
	me := &webrtc.MediaEngine{}
	var err error
	switch cfg[3] {
	case '1':
		err = me.RegisterCodec(webrtc.RTPCodecParameters{
			RTPCodecCapability: webrtc.RTPCodecCapability{
				MimeType: webrtc.MimeTypeOpus, ClockRate: 48000, Channels: 2, SDPFmtpLine: "minptime=10;useinbandfec=1",
			},
			PayloadType: 111,
		}, webrtc.RTPCodecTypeAudio)
	case '2':
		err = me.RegisterCodec(webrtc.RTPCodecParameters{
			RTPCodecCapability: webrtc.RTPCodecCapability{MimeType: webrtc.MimeTypeVP8, ClockRate: 90000},
			PayloadType:        96,
		}, webrtc.RTPCodecTypeVideo)
	case '3':
		err = me.RegisterDefaultCodecs()
	default:
		err = fmt.Errorf("bad engine %q", cfg)
	}
	if err != nil {
		return nil, err
	}
	conf := webrtc.Configuration{AlwaysNegotiateDataChannels: cfg[2] == '1'}
	switch cfg[0] {
	case 'u':
		conf.SDPSemantics = webrtc.SDPSemanticsUnifiedPlan
	case 'f':
		conf.SDPSemantics = webrtc.SDPSemanticsUnifiedPlanWithFallback
	case 'p':
		conf.SDPSemantics = webrtc.SDPSemanticsPlanB
	default:
		return nil, fmt.Errorf("bad semantics %q", cfg)
	}
	switch cfg[4] {
	case '1':
		conf.BundlePolicy = webrtc.BundlePolicyBalanced
	case '2':
		conf.BundlePolicy = webrtc.BundlePolicyMaxCompat
	case '3':
		conf.BundlePolicy = webrtc.BundlePolicyMaxBundle
	}
	pc, err := webrtc.NewAPI(webrtc.WithSettingEngine(se), webrtc.WithMediaEngine(me)).NewPeerConnection(conf)
	if err != nil {
		return nil, err
	}

	return &jsepPeer{pc: pc}, nil
}

func jsepHex(s string) string {
	if s == "" {
		return "-"
	}

	return hex.EncodeToString([]byte(s))
}

func jsepUnhex(s string) (string, bool) {
	if s == "-" {
		return "", true
	}
	b, err := hex.DecodeString(s)

	return string(b), err == nil
}

var jsepDirs = map[byte]string{'s': "sendrecv", 'o': "sendonly", 'r': "recvonly", 'i': "inactive"}

// jsepSynSDP renders a synthetic offer spec as SDP text.
func jsepSynSDP(spec string) (string, error) {
	parts := strings.Split(spec, ";")
	if len(parts) != 2 {
		return "", fmt.Errorf("bad synthetic offer %q", spec)
	}
	var sb strings.Builder
	sb.WriteString("v=0\r\no=- 4215775240449105457 2 IN IP4 127.0.0.1\r\ns=-\r\nt=0 0\r\n")
	sb.WriteString("a=fingerprint:" + jsepFingerprint + "\r\n")
	type sec struct{ media, mid, dirs string; port0, codec bool }
	secs := []sec{}
	if parts[1] != "e" {
		for _, st := range strings.Split(parts[1], "/") {
			f := strings.Split(st, ",")
			if len(f) != 5 {
				return "", fmt.Errorf("bad section %q", st)
			}
			mid, ok := jsepUnhex(f[1])
			if !ok {
				return "", fmt.Errorf("bad mid %q", f[1])
			}
			secs = append(secs, sec{media: f[0], mid: mid, port0: f[2] == "1", dirs: f[3], codec: f[4] == "1"})
		}
	}
	switch parts[0] {
	case "-":
	case "e":
		sb.WriteString("a=group:BUNDLE\r\n")
	case "*":
		sb.WriteString("a=group:BUNDLE")
		for _, s := range secs {
			if s.mid != "" {
				sb.WriteString(" " + s.mid)
			}
		}
		sb.WriteString("\r\n")
	default:
		sb.WriteString("a=group:BUNDLE")
		for _, h := range strings.Split(parts[0], "+") {
			m, ok := jsepUnhex(h)
			if !ok {
				return "", fmt.Errorf("bad bundle mid %q", h)
			}
			sb.WriteString(" " + m)
		}
		sb.WriteString("\r\n")
	}
	for _, s := range secs {
		port := "9"
		if s.port0 {
			port = "0"
		}
		lower := strings.ToLower(s.media)
		switch {
		case s.media == "application":
			sb.WriteString("m=application " + port + " UDP/DTLS/SCTP webrtc-datachannel\r\nc=IN IP4 0.0.0.0\r\n")
		case lower == "audio" && s.codec:
			sb.WriteString("m=" + s.media + " " + port + " UDP/TLS/RTP/SAVPF 100 111\r\nc=IN IP4 0.0.0.0\r\n" +
				"a=rtpmap:100 FOOAUDIO/48000\r\na=rtpmap:111 opus/48000/2\r\na=fmtp:111 minptime=10;useinbandfec=1\r\n")
		case lower == "audio":
			sb.WriteString("m=" + s.media + " " + port + " UDP/TLS/RTP/SAVPF 100\r\nc=IN IP4 0.0.0.0\r\na=rtpmap:100 FOOAUDIO/48000\r\n")
		case lower == "video" && s.codec:
			sb.WriteString("m=" + s.media + " " + port + " UDP/TLS/RTP/SAVPF 96 100\r\nc=IN IP4 0.0.0.0\r\n" +
				"a=rtpmap:96 VP8/90000\r\na=rtpmap:100 FOOVIDEO/90000\r\n")
		case lower == "video":
			sb.WriteString("m=" + s.media + " " + port + " UDP/TLS/RTP/SAVPF 100\r\nc=IN IP4 0.0.0.0\r\na=rtpmap:100 FOOVIDEO/90000\r\n")
		default:
			sb.WriteString("m=" + s.media + " " + port + " RTP/AVP 98\r\nc=IN IP4 0.0.0.0\r\na=rtpmap:98 t140/1000\r\n")
		}
		if s.mid != "" {
			sb.WriteString("a=mid:" + s.mid + "\r\n")
		}
		sb.WriteString("a=ice-ufrag:synU\r\na=ice-pwd:synthetic0password0synthetic0pw\r\na=setup:actpass\r\n")
		if s.dirs != "-" {
			for i := 0; i < len(s.dirs); i++ {
				d, ok := jsepDirs[s.dirs[i]]
				if !ok {
					return "", fmt.Errorf("bad direction %q", s.dirs)
				}
				sb.WriteString("a=" + d + "\r\n")
			}
		}
		if s.media == "application" {
			sb.WriteString("a=sctp-port:5000\r\n")
		} else {
			sb.WriteString("a=rtcp-mux\r\n")
		}
	}

	return sb.String(), nil
}

// jsepAbs abstracts SDP text to the description token.
func jsepAbs(typ webrtc.SDPType, text string) string {
	d := &sdp.SessionDescription{}
	if err := d.UnmarshalString(text); err != nil {
		return "unparsable"
	}
	t := "Do"
	if typ == webrtc.SDPTypeAnswer {
		t = "Da"
	}
	bundle := "-"
	for _, a := range d.Attributes {
		if a.Key == sdp.AttrKeyGroup {
			f := strings.Fields(a.Value)
			if len(f) > 0 && f[0] == "BUNDLE" {
				hs := []string{}
				for _, m := range f[1:] {
					hs = append(hs, jsepHex(m))
				}
				bundle = strings.Join(hs, "+")
				if len(hs) == 0 {
					bundle = "e"
				}
			} else {
				bundle = "other"
			}

			break
		}
	}
	_, sessFp := d.Attribute("fingerprint")
	secs := []string{}
	for _, m := range d.MediaDescriptions {
		mid, dirs, setup := "-", "", "-"
		ufrag, pwd, fp, codec, pcmu, map0 := false, false, false, false, false, false
		haveMid := false
		for _, a := range m.Attributes {
			switch a.Key {
			case "mid":
				if !haveMid {
					mid, haveMid = jsepHex(a.Value), true
				}
			case "sendrecv":
				dirs += "s"
			case "sendonly":
				dirs += "o"
			case "recvonly":
				dirs += "r"
			case "inactive":
				dirs += "i"
			case "ice-ufrag":
				ufrag = true
			case "ice-pwd":
				pwd = true
			case "fingerprint":
				fp = true
			case "setup":
				if setup == "-" {
					switch a.Value {
					case "actpass", "active", "passive":
						setup = a.Value
					default:
						setup = "other"
					}
				}
			case "rtpmap":
				up := strings.ToUpper(a.Value)
				if strings.Contains(up, " OPUS/") || strings.Contains(up, " VP8/") {
					codec = true
				}
				if strings.Contains(up, " PCMU/") {
					pcmu = true
				}
				if strings.HasPrefix(up, "0 ") {
					map0 = true
				}
			}
		}
		lower := strings.ToLower(m.MediaName.Media)
		if !map0 { // payload type 0 without an rtpmap is the static PCMU
			for _, f := range m.MediaName.Formats {
				pcmu = pcmu || f == "0"
			}
		}
		if lower != "audio" && lower != "video" {
			codec = false
		}
		if lower != "audio" {
			pcmu = false
		}
		if dirs == "" {
			dirs = "-"
		}
		secs = append(secs, strings.Join([]string{
			m.MediaName.Media, mid, b2s(m.MediaName.Port.Value == 0), dirs, b2s(ufrag), b2s(pwd), setup, b2s(fp), b2s(codec),
			b2s(pcmu),
		}, ","))
	}
	s := "e"
	if len(secs) > 0 {
		s = strings.Join(secs, "/")
	}

	return strings.Join([]string{t, bundle, b2s(sessFp), s}, ";")
}

func jsepErr(err error) string {
	if err == nil {
		return "ok"
	}
	msg := err.Error()
	for _, c := range [][2]string{
		{"without mid value", "nomid"},
		{"cannot find transceiver with mid", "midnil"},
		{"semantics does not match", "sem"},
		{"RTPSender created with no codecs", "sendernocodec"},
		{"excessive retries", "retries"},
		{"invalid proposed signaling state transition", "state"},
		{"remote description is not set", "state"},
		{"can not be run in current signaling state", "state"},
		{"does not match previous", "mismatch"},
		{"no codecs are available", "nocodecs"},
		{"only supports recvonly", "direction"},
		{"failed to unmarshal SDP", "parse"},
		{"called with no ice-", "ice"},
		{"called with no fingerprint", "fingerprint"},
		{"invalid state change in RTPTransceiver.setSending", "direction"},
	} {
		if strings.Contains(msg, c[0]) {
			return "err:" + c[1]
		}
	}
	h := fnv.New32a()
	h.Write([]byte(msg))
	if os := strings.TrimSpace(msg); len(os) > 40 {
		msg = os[:40]
	}

	return fmt.Sprintf("err:other-%08x-%s", h.Sum32(), strings.ReplaceAll(msg, " ", "_"))
}

// jsepSetErr classifies the result of SetLocal/SetRemoteDescription. ErrUnsupportedCodec is raised by
// startRTPSenders (RTPSender.Send binding the track) after every state change the model tracks has been
// made; it is reported as success (documented in Model/Jsep.lean: errors of RTPSender.Send are not modelled).
func jsepSetErr(err error) string {
	if err != nil && strings.Contains(err.Error(), "codec is not supported by remote") {
		return "ok"
	}

	return jsepErr(err)
}

func jsepTrs(pc *webrtc.PeerConnection) string {
	ts := pc.GetTransceivers()
	if len(ts) == 0 {
		return "T-"
	}
	out := []string{}
	for _, t := range ts {
		k := "a"
		if t.Kind() == webrtc.RTPCodecTypeVideo {
			k = "v"
		}
		d := "?"
		switch t.Direction() {
		case webrtc.RTPTransceiverDirectionSendrecv:
			d = "s"
		case webrtc.RTPTransceiverDirectionSendonly:
			d = "o"
		case webrtc.RTPTransceiverDirectionRecvonly:
			d = "r"
		case webrtc.RTPTransceiverDirectionInactive:
			d = "i"
		}
		out = append(out, k+d+b2s(t.Sender() != nil)+":"+jsepHex(t.Mid()))
	}

	return "T" + strings.Join(out, "+")
}

func jsepExec(a []string) string {
	if len(a) < 3 || a[0] != "h" {
		return "bad-op"
	}
	pa, err := jsepNewPeer(a[1])
	if err != nil {
		return "bad-op"
	}
	defer pa.pc.Close() //nolint:errcheck
	pb, err := jsepNewPeer(a[2])
	if err != nil {
		return "bad-op"
	}
	defer pb.pc.Close() //nolint:errcheck
	out := []string{}
	trackN := 0
	for _, op := range a[3:] {
		f := strings.SplitN(op, ".", 3)
		if len(f) < 2 {
			return "bad-op"
		}
		var p, q *jsepPeer
		switch f[0] {
		case "a":
			p, q = pa, pb
		case "b":
			p, q = pb, pa
		default:
			return "bad-op"
		}
		res := "bad-op"
		arg := ""
		if len(f) == 3 {
			arg = f[2]
		}
		switch f[1] {
		case "at":
			capab := webrtc.RTPCodecCapability{MimeType: webrtc.MimeTypeOpus, ClockRate: 48000, Channels: 2}
			if arg == "v" {
				capab = webrtc.RTPCodecCapability{MimeType: webrtc.MimeTypeVP8, ClockRate: 90000}
			} else if arg != "a" {
				return "bad-op"
			}
			trackN++
			tr, terr := webrtc.NewTrackLocalStaticSample(capab, fmt.Sprintf("t%d", trackN), fmt.Sprintf("s%d", trackN))
			if terr != nil {
				return "bad-op"
			}
			_, e := p.pc.AddTrack(tr)
			res = jsepErr(e)
		case "ak":
			g := strings.Split(arg, ".")
			if len(g) != 2 {
				return "bad-op"
			}
			kind := webrtc.RTPCodecTypeAudio
			if g[0] == "v" {
				kind = webrtc.RTPCodecTypeVideo
			} else if g[0] != "a" {
				return "bad-op"
			}
			dir, ok := map[string]webrtc.RTPTransceiverDirection{
				"sr": webrtc.RTPTransceiverDirectionSendrecv, "so": webrtc.RTPTransceiverDirectionSendonly,
				"ro": webrtc.RTPTransceiverDirectionRecvonly, "in": webrtc.RTPTransceiverDirectionInactive,
			}[g[1]]
			if !ok {
				return "bad-op"
			}
			_, e := p.pc.AddTransceiverFromKind(kind, webrtc.RTPTransceiverInit{Direction: dir})
			res = jsepErr(e)
		case "dc":
			_, e := p.pc.CreateDataChannel("d", nil)
			res = jsepErr(e)
		case "rt", "st":
			i, e := strconv.Atoi(arg)
			if e != nil {
				return "bad-op"
			}
			ts := p.pc.GetTransceivers()
			switch {
			case i < 0 || i >= len(ts):
				res = "skip"
			case f[1] == "st":
				res = jsepErr(ts[i].Stop())
			case ts[i].Sender() == nil:
				res = "skip"
			default:
				res = jsepErr(p.pc.RemoveTrack(ts[i].Sender()))
			}
		case "co":
			d, e := p.pc.CreateOffer(nil)
			if e != nil {
				res = jsepErr(e)
			} else {
				p.created = append(p.created, d)
				res = jsepAbs(d.Type, d.SDP)
			}
		case "ca":
			d, e := p.pc.CreateAnswer(nil)
			if e != nil {
				res = jsepErr(e)
			} else {
				p.created = append(p.created, d)
				res = jsepAbs(d.Type, d.SDP)
			}
		case "sl", "slo":
			k := len(p.created) - 1
			if f[1] == "slo" {
				k--
			}
			if k < 0 {
				res = "skip"
			} else {
				res = jsepSetErr(p.pc.SetLocalDescription(p.created[k]))
			}
		case "sr":
			if len(q.created) == 0 {
				res = "skip"
			} else {
				res = jsepSetErr(p.pc.SetRemoteDescription(q.created[len(q.created)-1]))
			}
		case "so":
			text, e := jsepSynSDP(arg)
			if e != nil {
				return "bad-op"
			}
			res = jsepSetErr(p.pc.SetRemoteDescription(webrtc.SessionDescription{Type: webrtc.SDPTypeOffer, SDP: text}))
		default:
			return "bad-op"
		}
		out = append(out, res, jsepTrs(p.pc))
	}

	return strings.Join(out, " ")
}

// ---------------------------------------------------------------------------------------------------
// generators

type jsepGen struct {
	c       *Ctx
	ops     []string
	noPlanB bool
	// noMaxMid: do not draw the mid 9223372036854775807. In the op soup the other real peer may be handed the
	// offer with the duplicated mid that the recorded finding mid-collision:int64-wrap produces, and two tracks
	// under one mid trigger the SSRC-based Plan-B detection the model leaves out.
	noMaxMid bool
}

func (g *jsepGen) add(format string, a ...any) { g.ops = append(g.ops, fmt.Sprintf(format, a...)) }

func (g *jsepGen) pick(xs ...string) string { return xs[g.c.Rng.Intn(len(xs))] }

func jsepOther(p string) string {
	if p == "a" {
		return "b"
	}

	return "a"
}

// exchange: p offers, the other peer answers, all four descriptions applied
func (g *jsepGen) exchange(p string) {
	q := jsepOther(p)
	g.add("%s.co", p)
	g.add("%s.sl", p)
	g.add("%s.sr", q)
	g.add("%s.ca", q)
	g.add("%s.sl", q)
	g.add("%s.sr", p)
}

// local: one random local mutation on peer p; ntr is an upper bound of its transceiver count
func (g *jsepGen) local(p string, ntr int) {
	r := g.c.Rng
	switch x := r.Intn(20); {
	case x < 5:
		g.add("%s.at.%s", p, g.pick("a", "v"))
	case x < 10:
		g.add("%s.ak.%s.%s", p, g.pick("a", "v"), g.pick("sr", "sr", "so", "ro", "ro"))
	case x < 13:
		g.add("%s.dc", p)
	case x < 16:
		g.add("%s.rt.%d", p, r.Intn(ntr+1))
	case x < 18:
		g.add("%s.st.%d", p, r.Intn(ntr+1))
	case x < 19:
		g.add("%s.ak.%s.in", p, g.pick("a", "v"))
	default:
		g.add("%s.co", p) // an offer that is never applied
	}
}

func (g *jsepGen) cfg(mostlyDefault bool) string {
	r := g.c.Rng
	if mostlyDefault && r.Intn(3) != 0 {
		return "u0030"
	}
	sem := "u"
	if r.Intn(5) == 0 {
		sem = g.pick("f", "p")
		if g.noPlanB {
			sem = "f"
		}
	}
	eng := "3"
	if r.Intn(4) == 0 {
		eng = g.pick("1", "2")
	}

	return sem + g.pick("0", "0", "1") + g.pick("0", "0", "0", "1") + eng + strconv.Itoa(r.Intn(4))
}

// cfgPair: configurations of two peers that exchange descriptions. Plan B is left to the synthetic-remote
// histories: a peer that takes a real remote description for Plan B adds transceivers for its tracks from
// the asynchronous startRTP (timing dependent), and a Unified-Plan peer falls back on the SSRC-based
// descriptionIsPlanB; the model covers neither.
func (g *jsepGen) cfgPair(mostlyDefault bool) (string, string) {
	a, b := g.cfg(mostlyDefault), g.cfg(mostlyDefault)
	if a[0] == 'p' {
		a = g.pick("u", "f") + a[1:]
	}
	if b[0] == 'p' {
		b = g.pick("u", "f") + b[1:]
	}

	return a, b
}

var jsepMidPool = []string{
	"0", "1", "2", "3", "4", "5", "7", "12", "250", "audio", "video", "data", "Audio", "1000000", "007", "00", "-5", "+3", "-0", "a", "b", "x1", "audio0",
	"video-main", "foo_bar", "m.1", "A", "mid with space?", "0x10", "1e3", "９", "data1", "9223372036854775806", "9223372036854775807",
	"99999999999999999999", "2147483647", "4294967296", "aaaaaaaaaaaaaaaaaaaaaaaaaaaaaaaaaaaaaaaaaaaaaaaaaaaaaaaaaaaaaaaa",
}

// jsepSynState is what the generator remembers of the synthetic remote side, so that re-offers extend
// the previous offer (as a real remote would) most of the time
type jsepSynSec struct {
	media, mid, dirs string
	port0, codec     bool
}

func (g *jsepGen) synMid(used map[string]bool, style int) string {
	r := g.c.Rng
	for try := 0; ; try++ {
		var m string
		switch style {
		case 0: // dense numeric
			m = strconv.Itoa(len(used) + try)
		case 1: // sparse numeric
			m = strconv.Itoa(r.Intn(40) + try)
		case 2: // alphabetic / mixed pool
			m = jsepMidPool[r.Intn(len(jsepMidPool))]
		default:
			if r.Intn(2) == 0 {
				m = strconv.Itoa(r.Intn(6))
			} else {
				m = jsepMidPool[r.Intn(len(jsepMidPool))]
			}
		}
		if strings.ContainsAny(m, " ") { // a mid is one token in a=group; keep the valid stream parseable
			m = strings.ReplaceAll(m, " ", "_")
		}
		if g.noMaxMid && m == "9223372036854775807" {
			continue
		}
		if try > 50 {
			m = fmt.Sprintf("u%d", len(used)+try)
		}
		if !used[m] {
			used[m] = true

			return m
		}
	}
}

func (g *jsepGen) synSection(used map[string]bool, style int, c07 bool) jsepSynSec {
	r := g.c.Rng
	s := jsepSynSec{}
	switch x := r.Intn(20); {
	case x < 7:
		s.media = "audio"
	case x < 14:
		s.media = "video"
	case x < 16:
		s.media = "application"
	case x < 18 || c07 && x < 19:
		s.media = g.pick("text", "message") // the other media names pion/sdp parses
		if r.Intn(12) == 0 {
			s.media = g.pick("image", "AUDIO", "Video", "APPLICATION", "aud") // refused by the SDP parser
		}
	default:
		s.media = g.pick("audio", "video")
	}
	s.mid = g.synMid(used, style)
	// Plan-B style mids name their media type (audio / video / data = application): keep them on a section of
	// that type
	for try := 0; try < 20; try++ {
		l := strings.ToLower(s.mid)
		if l != "audio" && l != "video" && l != "data" || l == s.media || l == "data" && s.media == "application" {
			break
		}
		delete(used, s.mid)
		s.mid = g.synMid(used, style)
	}
	switch x := r.Intn(20); {
	case x < 9:
		s.dirs = "s"
	case x < 12:
		s.dirs = "o"
	case x < 15:
		s.dirs = "r"
	case x < 17:
		s.dirs = "i"
	case x < 19:
		s.dirs = "-"
	default:
		s.dirs = g.pick("so", "rs", "ii")
	}
	if s.media == "application" && r.Intn(3) != 0 {
		s.dirs = "-"
	}
	s.codec = r.Intn(5) != 0
	s.port0 = r.Intn(15) == 0

	return s
}

func jsepSynTok(bundle string, secs []jsepSynSec) string {
	ss := []string{}
	for _, s := range secs {
		ss = append(ss, strings.Join([]string{s.media, jsepHex(s.mid), b2s(s.port0), s.dirs, b2s(s.codec)}, ","))
	}
	body := "e"
	if len(ss) > 0 {
		body = strings.Join(ss, "/")
	}

	return bundle + ";" + body
}

func (g *jsepGen) synBundle(secs []jsepSynSec) string {
	r := g.c.Rng
	switch x := r.Intn(20); {
	case x < 14:
		return "*"
	case x < 16:
		return "-"
	case x < 17:
		return "e"
	default:
		hs := []string{}
		for _, s := range secs {
			if r.Intn(2) == 0 {
				hs = append(hs, jsepHex(s.mid))
			}
		}
		if r.Intn(3) == 0 {
			hs = append(hs, jsepHex("ghost"))
		}
		if len(hs) == 0 {
			return "e"
		}

		return strings.Join(hs, "+")
	}
}

// synOffer appends 0..n new sections to the previous synthetic offer (possibly changing directions) and
// emits it to peer p
func (g *jsepGen) synOffer(p string, prev []jsepSynSec, used map[string]bool, style, maxNew int, c07 bool) []jsepSynSec {
	r := g.c.Rng
	secs := append([]jsepSynSec{}, prev...)
	for i := range secs {
		if r.Intn(4) == 0 && secs[i].media != "application" {
			secs[i].dirs = g.pick("s", "o", "r", "i")
		}
	}
	n := r.Intn(maxNew + 1)
	if len(prev) == 0 && n == 0 {
		n = 1
	}
	hasApp := false
	for _, s := range secs {
		hasApp = hasApp || s.media == "application"
	}
	for i := 0; i < n; i++ {
		s := g.synSection(used, style, c07)
		if s.media == "application" && hasApp && r.Intn(4) != 0 {
			s.media = "audio"
		}
		hasApp = hasApp || s.media == "application"
		secs = append(secs, s)
	}
	g.add("%s.so.%s", p, jsepSynTok(g.synBundle(secs), secs))

	return secs
}

func (g *jsepGen) emit() {
	g.c.Emit("%s", strings.Join(g.ops, " "))
	g.ops = nil
}

// pionHistory: both peers are real; every offer is answered (alternating / random offerer), local
// mutations in between
func (g *jsepGen) pionHistory(rounds int, cfgA, cfgB string) {
	r := g.c.Rng
	g.ops = []string{"h", cfgA, cfgB}
	ntr := 0
	offerer := g.pick("a", "b")
	for i := 0; i < rounds; i++ {
		for k := r.Intn(4); k > 0; k-- {
			g.local(g.pick("a", "b"), ntr)
			ntr++
		}
		if i == 0 && r.Intn(3) != 0 { // make the first offer non-empty most of the time
			g.add("%s.%s", offerer, g.pick("at.a", "at.v", "dc", "ak.a.sr", "ak.v.ro"))
			ntr++
		}
		g.exchange(offerer)
		if r.Intn(3) != 0 {
			offerer = jsepOther(offerer)
		}
	}
	g.emit()
}

// synHistory: peer a talks to a synthetic remote: offer → answer rounds, local mutations, own offers
func (g *jsepGen) synHistory(rounds int, cfgA string, c07 bool) {
	r := g.c.Rng
	g.ops = []string{"h", cfgA, "u0030"}
	used := map[string]bool{}
	style := r.Intn(4)
	var prev []jsepSynSec
	ntr := 0
	for k := r.Intn(4); k > 0; k-- { // pre-existing transceivers / channels
		g.local("a", ntr)
		ntr++
	}
	for i := 0; i < rounds; i++ {
		prev = g.synOffer("a", prev, used, style, 3, c07)
		ntr += len(prev)
		g.add("a.ca")
		g.add("a.sl")
		for k := r.Intn(3); k > 0; k-- {
			g.local("a", ntr)
			ntr++
		}
		if r.Intn(2) == 0 {
			g.add("a.co")
			if r.Intn(4) == 0 {
				g.add("a.sl")
				// the synthetic side cannot answer: the next synthetic offer is refused (have-local-offer)
			}
		}
	}
	g.emit()
}

// soup: anything in any order, including what a sane application would not do
func (g *jsepGen) soup(n int, cfgA, cfgB string) {
	r := g.c.Rng
	g.noMaxMid = true
	defer func() { g.noMaxMid = false }()
	g.ops = []string{"h", cfgA, cfgB}
	used := map[string]bool{}
	var prev []jsepSynSec
	for i := 0; i < n; i++ {
		p := g.pick("a", "b")
		switch x := r.Intn(24); {
		case x < 8:
			g.local(p, i)
		case x < 11:
			g.add("%s.co", p)
		case x < 13:
			g.add("%s.ca", p)
		case x < 16:
			g.add("%s.sl", p)
		case x < 17:
			g.add("%s.slo", p)
		case x < 20:
			g.add("%s.sr", p)
		case x < 22:
			g.exchange(p)
		default:
			if r.Intn(2) == 0 {
				prev = g.synOffer(p, prev, used, 3, 2, true)
			} else { // malformed: a section without mid (duplicate mids would make a pion peer's next offer carry
				// two tracks under one mid, which triggers the SSRC-based Plan-B detection the model leaves out)
				u := map[string]bool{}
				secs := []jsepSynSec{g.synSection(u, 0, true), g.synSection(u, 0, true)}
				secs[r.Intn(2)].mid = ""
				g.add("%s.so.%s", p, jsepSynTok(g.synBundle(secs), secs))
			}
		}
	}
	g.emit()
}

func jsepClass(a []string, out string) string {
	if len(a) < 3 {
		return ""
	}
	kind := "pion"
	for _, op := range a[3:] {
		if strings.Contains(op, ".so.") {
			kind = "synthetic"

			break
		}
	}
	nd := 0
	for _, t := range strings.Fields(out) {
		if strings.HasPrefix(t, "Do;") || strings.HasPrefix(t, "Da;") {
			nd++
		}
	}
	b := "0"
	switch {
	case nd >= 8:
		b = "8+"
	case nd >= 4:
		b = "4-7"
	case nd >= 1:
		b = "1-3"
	}
	sem := map[byte]string{'u': "unified", 'f': "fallback", 'p': "planb"}[a[1][0]]

	return kind + " " + sem + " descriptions=" + b
}

func jsepTrivial(_ []string, out string) bool {
	return !strings.Contains(out, "Do;") && !strings.Contains(out, "Da;")
}

func init() {
	registry["C06"] = &Prop{
		Workers: 12,
		Timeout: 60 * time.Second,
		Rule: "Histories on two real PeerConnections (no network interfaces). Three streams: (1) pion<->pion: 2-8 rounds of " +
			"0-3 local mutations (AddTrack, AddTransceiverFromKind sr/so/ro, CreateDataChannel, RemoveTrack, Stop, unapplied " +
			"CreateOffer) followed by a complete offer/answer exchange with a random offerer; configurations mostly default, " +
			"otherwise random over SDPSemantics (Unified Plan, fallback; Plan B only in stream 2) x " +
			"SetSDPMediaLevelFingerprints x AlwaysNegotiateDataChannels x media engine (opus only / VP8 only / default " +
			"codecs) x BundlePolicy; (2) synthetic remote (all three SDPSemantics): 1-5 rounds of a synthetic offer to " +
			"peer a (sections over audio/video/application/unknown media, mids dense, sparse, non-numeric, signed, huge; " +
			"directions incl. absent and doubled; supported/unsupported codecs; BUNDLE all/none/empty/subset+ghost), " +
			"CreateAnswer, SetLocalDescription, local mutations, own CreateOffer; re-offers extend the previous synthetic offer; " +
			"(3) malformed: random op soup over both peers and synthetic offers (wrong signaling states, stale " +
			"descriptions, a section without mid, media names the SDP parser refuses). " +
			"Non-trivial: at least one description was created.",
		Gen: func(c *Ctx) {
			g := &jsepGen{c: c}
			for i := 0; i < c.N(260, 3000); i++ {
				ca, cb := g.cfgPair(true)
				g.pionHistory(2+c.Rng.Intn(7), ca, cb)
			}
			for i := 0; i < c.N(420, 4500); i++ {
				g.synHistory(1+c.Rng.Intn(5), g.cfg(true), false)
			}
			for i := 0; i < c.N(160, 1500); i++ {
				ca, cb := g.cfgPair(false)
				g.soup(6+c.Rng.Intn(25), ca, cb)
			}
		},
		Exec:    jsepExec,
		Class:   jsepClass,
		Trivial: jsepTrivial,
	}
	registry["C07"] = &Prop{
		Workers: 12,
		Timeout: 60 * time.Second,
		Rule: "Synthetic Unified-Plan offers to a real PeerConnection with 0-3 pre-existing transceivers / data channels: 1-6 " +
			"sections drawn from audio, video, application, text, message (and, rarely, names the SDP parser refuses: image, AUDIO, …); direction " +
			"sendrecv/sendonly/recvonly/inactive/absent/doubled; supported or unsupported codecs; port 9 or 0; mids dense, " +
			"sparse, non-numeric; BUNDLE all/none/empty/subset; followed by CreateAnswer, SetLocalDescription and up to 3 " +
			"extending re-offers; plus pion<->pion exchanges (every answer is compared with the offer it answers) and a " +
			"malformed op soup. Non-trivial: at least one description was created.",
		Gen: func(c *Ctx) {
			g := &jsepGen{c: c}
			for i := 0; i < c.N(700, 7000); i++ {
				g.synHistory(1+c.Rng.Intn(4), "u0"+g.pick("0", "0", "1")+g.pick("3", "3", "3", "1", "2")+"0", true)
			}
			for i := 0; i < c.N(120, 1500); i++ {
				ca, cb := g.cfgPair(true)
				g.pionHistory(1+c.Rng.Intn(5), ca, cb)
			}
			for i := 0; i < c.N(80, 1000); i++ {
				ca, cb := g.cfgPair(false)
				g.soup(6+c.Rng.Intn(20), ca, cb)
			}
		},
		Exec:    jsepExec,
		Class:   jsepClass,
		Trivial: jsepTrivial,
	}
	registry["C09"] = &Prop{
		Workers: 12,
		Timeout: 60 * time.Second,
		Rule: "Renegotiation histories between two real PeerConnections: 2-12 rounds, each 0-3 local mutations on either " +
			"peer (AddTrack, AddTransceiverFromKind, CreateDataChannel, RemoveTrack, transceiver Stop, unapplied CreateOffer) " +
			"then a complete offer/answer exchange, offerer alternating or repeated at random; configurations mostly default " +
			"Unified Plan, otherwise random; plus synthetic-remote histories (extending re-offers with arbitrary mids, own " +
			"offers in between) and a malformed op soup. After every op the acting peer's transceiver (kind, mid) list is " +
			"recorded. Non-trivial: at least one description was created.",
		Gen: func(c *Ctx) {
			// Plan-B descriptions order their sections by kind (video, audio, data), so a position clause says
			// nothing about them: C09 runs under Unified Plan (with and without fallback) only
			g := &jsepGen{c: c, noPlanB: true}
			for i := 0; i < c.N(380, 4000); i++ {
				ca, cb := g.cfgPair(true)
				g.pionHistory(2+c.Rng.Intn(11), ca, cb)
			}
			for i := 0; i < c.N(200, 2000); i++ {
				g.synHistory(1+c.Rng.Intn(5), g.cfg(true), false)
			}
			for i := 0; i < c.N(80, 1000); i++ {
				ca, cb := g.cfgPair(false)
				g.soup(6+c.Rng.Intn(25), ca, cb)
			}
		},
		Exec:    jsepExec,
		Class:   jsepClass,
		Trivial: jsepTrivial,
	}
}
