package main

import (
	"fmt"
	"os"
	"strconv"
	"strings"
	"sync"
	"time"

	"github.com/pion/logging"
	"github.com/pion/webrtc/v4"
)

// C04 — negotiationneeded fires only in stable state, once per needed negotiation.
//
// One op line is one sequential history on a pair of real PeerConnections `a` and `b` wired over
// loopback (host candidates, trickled through the harness). Tokens (`<side>` is a or b):
//
//	<side>:at:<trk>      AddTrack of local track <trk> (v0..v3 video, a0..a3 audio; one object per id)
//	<side>:rt:<k>        RemoveTrack of the k-th sender handed out so far on that side (AddTrack results and
//	                     the senders of AddTransceiverFromKind), counted from 0; no such sender: skipped
//	<side>:tr:<kind>:<dir>   AddTransceiverFromKind(kind v|a, direction sr|so|ro|in)
//	<side>:dc            CreateDataChannel
//	<side>:co / ca       CreateOffer / CreateAnswer (remembered as that side's last offer / answer)
//	<side>:slo / sla     SetLocalDescription(own last offer / own last answer)
//	<side>:sro / sra     SetRemoteDescription(the peer's last offer / last answer)
//	<side>:slp / srp     the same with the last answer's text applied as a provisional answer (type pranswer)
//	<side>:slr / srr     SetLocalDescription / SetRemoteDescription with type rollback
//	<side>:cl            Close
//
// After every op the harness waits (with a deadline) until both operations queues are drained or are
// legitimately blocked (startTransports waiting for the peer's ICE/DTLS, startRTP waiting for the peer's
// SCTP), then prints for that op
//
//	<err> <A> <B>      err: 1 = the API call returned an error, 0 = nil, - = skipped
//	                   A,B: <sig><I|B><n|-><c|->:<count>   signaling state (s stable, l have-local-offer,
//	                   r have-remote-offer, p have-local-pranswer, q have-remote-pranswer, c closed, ? other); I idle / B blocked; [[NegotiationNeeded]];
//	                   checkNegotiationNeeded(); cumulative number of OnNegotiationNeeded invocations
//
// and at the end `fa <state…> fb <state…>`: the signaling state captured inside each handler invocation.
// For a blocked side [[NegotiationNeeded]] is printed as `?` and the count is that of its last drained
// observation (see report).
// `inconclusive <why>` when a drain missed its deadline (never a violation).
type c04Side struct {
	name    string
	pc      *webrtc.PeerConnection
	mu      sync.Mutex
	fired   []string
	senders []*webrtc.RTPSender
	tracks  map[string]*webrtc.TrackLocalStaticSample

	lastOffer, lastAnswer *webrtc.SessionDescription

	drainedCount int // handler invocations at the last drained observation

	stCh      <-chan webrtc.VerifTransportStart
	stEntered bool // startTransports was entered (hook)
	// firstST is the call that enqueued the first startTransports ("sro", "srp" or "sra"): the transport roles
	// are derived from that description, also when it is rolled back afterwards
	firstST  string
	gathered bool // a SetLocalDescription succeeded: gathering was started
	closed   bool

	candMu  sync.Mutex
	inbox   []webrtc.ICECandidateInit // candidates of the peer waiting for our remote description
	hasRD   bool
	peer    *c04Side
	created int
}

func c04SigLetter(s webrtc.SignalingState) string {
	switch s {
	case webrtc.SignalingStateStable:
		return "s"
	case webrtc.SignalingStateHaveLocalOffer:
		return "l"
	case webrtc.SignalingStateHaveRemoteOffer:
		return "r"
	case webrtc.SignalingStateHaveLocalPranswer:
		return "p"
	case webrtc.SignalingStateHaveRemotePranswer:
		return "q"
	case webrtc.SignalingStateClosed:
		return "c"
	default:
		return "?"
	}
}

func (s *c04Side) count() int {
	s.mu.Lock()
	defer s.mu.Unlock()

	return len(s.fired)
}

// deliver hands a candidate of the peer to this side (buffered until a remote description exists).
func (s *c04Side) deliver(c webrtc.ICECandidateInit) {
	s.candMu.Lock()
	defer s.candMu.Unlock()
	if !s.hasRD {
		s.inbox = append(s.inbox, c)

		return
	}
	_ = s.pc.AddICECandidate(c)
}

func (s *c04Side) flushInbox() {
	s.candMu.Lock()
	defer s.candMu.Unlock()
	s.hasRD = true
	for _, c := range s.inbox {
		_ = s.pc.AddICECandidate(c)
	}
	s.inbox = nil
}

func c04NewSide(name string) (*c04Side, error) {
	se := loopbackSettings()
	se.DisableCloseByDTLS(true)
	lf := logging.NewDefaultLoggerFactory()
	lf.DefaultLogLevel = logging.LogLevelDisabled
	se.LoggerFactory = lf
	pc, err := webrtc.NewAPI(webrtc.WithSettingEngine(se)).NewPeerConnection(webrtc.Configuration{})
	if err != nil {
		return nil, err
	}
	s := &c04Side{name: name, pc: pc, tracks: map[string]*webrtc.TrackLocalStaticSample{}}
	s.stCh = webrtc.VerifCaptureTransportStart(pc)
	pc.OnNegotiationNeeded(func() {
		st := c04SigLetter(pc.SignalingState())
		if pc.ConnectionState() == webrtc.PeerConnectionStateClosed && st != "c" {
			st = "x" // closed flag set although the signaling state does not say so yet
		}
		s.mu.Lock()
		s.fired = append(s.fired, st)
		s.mu.Unlock()
	})
	pc.OnICECandidate(func(c *webrtc.ICECandidate) {
		if c == nil {
			return
		}
		s.peer.deliver(c.ToJSON())
	})

	return s, nil
}

func (s *c04Side) track(id string) (*webrtc.TrackLocalStaticSample, error) {
	if t, ok := s.tracks[id]; ok {
		return t, nil
	}
	mime := webrtc.MimeTypeVP8
	if strings.HasPrefix(id, "a") {
		mime = webrtc.MimeTypeOpus
	}
	t, err := webrtc.NewTrackLocalStaticSample(webrtc.RTPCodecCapability{MimeType: mime}, "t"+id, "s"+id)
	if err != nil {
		return nil, err
	}
	s.tracks[id] = t

	return t, nil
}

func c04Dir(d string) (webrtc.RTPTransceiverDirection, bool) {
	switch d {
	case "sr":
		return webrtc.RTPTransceiverDirectionSendrecv, true
	case "so":
		return webrtc.RTPTransceiverDirectionSendonly, true
	case "ro":
		return webrtc.RTPTransceiverDirectionRecvonly, true
	case "in":
		return webrtc.RTPTransceiverDirectionInactive, true
	}

	return 0, false
}

// apply runs one op on this side; returns "0" (nil), "1" (error), "-" (skipped), "" (bad op)
func (s *c04Side) apply(f []string) string {
	res := func(err error) string {
		if err != nil {
			return "1"
		}

		return "0"
	}
	empty := func(t webrtc.SDPType) webrtc.SessionDescription { return webrtc.SessionDescription{Type: t} }
	switch f[1] {
	case "at":
		if len(f) != 3 {
			return ""
		}
		t, err := s.track(f[2])
		if err != nil {
			return ""
		}
		snd, err := s.pc.AddTrack(t)
		if err == nil {
			s.senders = append(s.senders, snd)
		}

		return res(err)
	case "rt":
		if len(f) != 3 {
			return ""
		}
		k, err := strconv.Atoi(f[2])
		if err != nil {
			return ""
		}
		if k >= len(s.senders) {
			return "-"
		}

		return res(s.pc.RemoveTrack(s.senders[k]))
	case "tr":
		if len(f) != 4 {
			return ""
		}
		kind := webrtc.RTPCodecTypeVideo
		if f[2] == "a" {
			kind = webrtc.RTPCodecTypeAudio
		}
		d, ok := c04Dir(f[3])
		if !ok {
			return ""
		}
		t, err := s.pc.AddTransceiverFromKind(kind, webrtc.RTPTransceiverInit{Direction: d})
		if err == nil && t.Sender() != nil {
			s.senders = append(s.senders, t.Sender())
		}

		return res(err)
	case "dc":
		s.created++
		_, err := s.pc.CreateDataChannel("d"+strconv.Itoa(s.created), nil)

		return res(err)
	case "co":
		o, err := s.pc.CreateOffer(nil)
		if err == nil {
			s.lastOffer = &o
		}

		return res(err)
	case "ca":
		a, err := s.pc.CreateAnswer(nil)
		if err == nil {
			s.lastAnswer = &a
		}

		return res(err)
	case "slr":
		return res(s.pc.SetLocalDescription(empty(webrtc.SDPTypeRollback)))
	case "srr":
		return res(s.pc.SetRemoteDescription(empty(webrtc.SDPTypeRollback)))
	case "slo", "sla", "slp":
		d := empty(webrtc.SDPTypeOffer)
		if f[1] != "slo" {
			d = empty(webrtc.SDPTypeAnswer)
			if s.lastAnswer != nil {
				d = *s.lastAnswer
			}
			if f[1] == "slp" { // the created answer, applied as a provisional one
				d = webrtc.SessionDescription{Type: webrtc.SDPTypePranswer, SDP: d.SDP}
			}
		} else if s.lastOffer != nil {
			d = *s.lastOffer
		}
		before := s.pc.SignalingState()
		err := s.pc.SetLocalDescription(d)
		if err == nil {
			s.gathered = true
		} else if s.pc.SignalingState() != before {
			return "2" // error after the state was committed
		}

		return res(err)
	case "sro", "sra", "srp":
		d := empty(webrtc.SDPTypeOffer)
		if f[1] != "sro" {
			d = empty(webrtc.SDPTypeAnswer)
			if s.peer.lastAnswer != nil {
				d = *s.peer.lastAnswer
			}
			if f[1] == "srp" {
				d = webrtc.SessionDescription{Type: webrtc.SDPTypePranswer, SDP: d.SDP}
			}
		} else if s.peer.lastOffer != nil {
			d = *s.peer.lastOffer
		}
		before := s.pc.SignalingState()
		first := s.firstST == "" && s.pc.CurrentRemoteDescription() == nil
		err := s.pc.SetRemoteDescription(d)
		if err == nil {
			if first {
				s.firstST = f[1]
			}
			s.flushInbox()
		} else if s.pc.SignalingState() != before {
			if os.Getenv("VERIF_DEBUG") != "" {
				fmt.Fprintf(os.Stderr, "late error %s: %v\n", strings.Join(f, ":"), err)
			}

			return "2"
		}

		return res(err)
	case "cl":
		wasUp := s.peer.pc.SCTP().Transport().State() == webrtc.DTLSTransportStateConnected && !s.closed
		err := s.pc.Close()
		s.closed = true
		// let the peer's SCTP association see the ABORT / close-notify before the history goes on (nothing
		// public reports it)
		if wasUp {
			time.Sleep(80 * time.Millisecond)
		}

		return res(err)
	}

	return ""
}

// quiescent: the operations queue is drained, or its worker is blocked for a reason only the peer can lift:
// inside startTransports (entered, DTLS not up) while the pair cannot connect yet, or inside the SCTP
// handshake (SCTPTransport.Start entered, association not up) while the peer has not started its own.
func (s *c04Side) quiescent() (ok bool, blocked bool) {
	select {
	case <-s.stCh:
		s.stEntered = true
	default:
	}
	queued, busy := webrtc.VerifOpsProbe(s.pc)
	if queued == 0 && !busy {
		return true, false
	}
	if !busy || s.closed {
		return false, false
	}
	p := s.peer
	dtls := s.pc.SCTP().Transport().State()
	if s.stEntered && (dtls == webrtc.DTLSTransportStateNew || dtls == webrtc.DTLSTransportStateConnecting) {
		// two ends that both started from an applied offer (one was rolled back since) both take the DTLS
		// client role: that pair never connects
		iceReady := p.stEntered && s.gathered && p.gathered && !p.closed && !(s.firstST == "sro" && p.firstST == "sro")
		if !iceReady {
			return true, true
		}

		return false, false
	}
	if dtls == webrtc.DTLSTransportStateConnected && webrtc.VerifSCTPStartEntered(s.pc) &&
		s.pc.SCTP().State() == webrtc.SCTPTransportStateConnecting &&
		!webrtc.VerifSCTPStartEntered(p.pc) && !p.closed {
		return true, true
	}

	return false, false
}

func c04Settle(a, b *c04Side, d time.Duration) (string, string, bool) {
	deadline := time.Now().Add(d)
	stable := 0
	last := ""
	for {
		okA, blA := a.quiescent()
		okB, blB := b.quiescent()
		if okA && okB {
			cur := fmt.Sprintf("%v%v%d%d", blA, blB, a.count(), b.count())
			if cur == last {
				stable++
			} else {
				stable = 0
				last = cur
			}
			if stable >= 3 {
				f := func(bl bool) string {
					if bl {
						return "B"
					}

					return "I"
				}

				return f(blA), f(blB), true
			}
		} else {
			stable = 0
			last = ""
		}
		if time.Now().After(deadline) {
			return "", "", false
		}
		time.Sleep(500 * time.Microsecond)
	}
}

// report prints one side after an op. A blocked side has not drained its queue: whether the
// negotiationNeededOp that setDescription started ran before the blocking operation was enqueued is a race
// inside the API call, so [[NegotiationNeeded]] is not reported (`?`) and the count is the one of the last
// drained observation; the invocations show up once the queue drains.
func (s *c04Side) report(st string) string {
	n, c := "-", "-"
	isNN, _ := webrtc.VerifNegotiationFlags(s.pc)
	if isNN {
		n = "n"
	}
	if webrtc.VerifCheckNegotiationNeeded(s.pc) {
		c = "c"
	}
	if st == "B" {
		n = "?"
	} else {
		s.drainedCount = s.count()
	}

	return fmt.Sprintf("%s%s%s%s:%d", c04SigLetter(s.pc.SignalingState()), st, n, c, s.drainedCount)
}

func c04Run(ops []string) string {
	a, err := c04NewSide("a")
	if err != nil {
		return "inconclusive newpc"
	}
	b, err := c04NewSide("b")
	if err != nil {
		_ = a.pc.Close()

		return "inconclusive newpc"
	}
	a.peer, b.peer = b, a
	defer func() {
		_ = a.pc.Close()
		_ = b.pc.Close()
	}()
	out := []string{}
	for i, op := range ops {
		f := strings.Split(op, ":")
		if len(f) < 2 || (f[0] != "a" && f[0] != "b") {
			return "bad-op"
		}
		side := a
		if f[0] == "b" {
			side = b
		}
		r := side.apply(f)
		if r == "" {
			return "bad-op"
		}
		sa, sb, ok := c04Settle(a, b, 12*time.Second)
		if !ok {
			qa, ba := webrtc.VerifOpsProbe(a.pc)
			qb, bb := webrtc.VerifOpsProbe(b.pc)

			return fmt.Sprintf("inconclusive drain-deadline op=%d a=%d/%v b=%d/%v", i, qa, ba, qb, bb)
		}
		out = append(out, r, a.report(sa), b.report(sb))
	}
	a.mu.Lock()
	out = append(out, "fa")
	out = append(out, a.fired[:a.drainedCount]...)
	a.mu.Unlock()
	b.mu.Lock()
	out = append(out, "fb")
	out = append(out, b.fired[:b.drainedCount]...)
	b.mu.Unlock()

	return strings.Join(out, " ")
}

// c04Gen builds one history of at most 12 elements; an element is one API call or (part of) an offer/answer
// round, which expands to up to six calls.
type c04Gen struct {
	c       *Ctx
	toks    []string
	senders map[string]int
	tracks  map[string]int
	// index of the sender handed out last, per side
	lastSender map[string]int
	// the round in progress: offerer, and how many of its six steps have been emitted
	offerer string
	order   []string
	step    int
}

func c04Other(s string) string {
	if s == "a" {
		return "b"
	}

	return "a"
}

func (g *c04Gen) side() string {
	if g.c.Rng.Intn(100) < 62 {
		return "a"
	}

	return "b"
}

func (g *c04Gen) emit(format string, a ...any) { g.toks = append(g.toks, fmt.Sprintf(format, a...)) }

// newRound fixes the calls of the next offer/answer round: the six calls of a plain exchange, in one round
// out of four with the answer first applied as a provisional answer on the answering side (slp, sometimes
// followed by a second CreateAnswer), in one out of five also on the offering side (srp); in one round out
// of eight the last two calls are swapped.
func (g *c04Gen) newRound() {
	r := g.c.Rng
	if g.offerer == "" {
		g.offerer = g.side()
	}
	g.step = 0
	x, y := g.offerer, c04Other(g.offerer)
	o := []string{x + ":co", x + ":slo", y + ":sro", y + ":ca"}
	if r.Intn(4) == 0 {
		o = append(o, y+":slp")
		if r.Intn(3) == 0 {
			o = append(o, y+":ca")
		}
	}
	if r.Intn(5) == 0 {
		o = append(o, x+":srp")
	}
	o = append(o, y+":sla", x+":sra")
	if r.Intn(8) == 0 {
		o[len(o)-2], o[len(o)-1] = o[len(o)-1], o[len(o)-2]
	}
	// one round in six is abandoned: after 2..len-1 calls every side that is not stable rolls back
	if r.Intn(6) == 0 {
		k := 2 + r.Intn(len(o)-2)
		o = o[:k]
		xs, ys := "s", "s"
		for _, t := range o {
			switch t[2:] {
			case "slo":
				xs = "l"
			case "srp":
				xs = "q"
			case "sra":
				xs = "s"
			case "sro":
				ys = "r"
			case "slp":
				ys = "p"
			case "sla":
				ys = "s"
			}
		}
		rb := map[string]string{"l": "slr", "p": "slr", "r": "srr", "q": "srr"}
		first, second := y, x
		if r.Intn(2) == 0 {
			first, second = x, y
		}
		for _, sd := range []string{first, second} {
			st := ys
			if sd == x {
				st = xs
			}
			if v, ok := rb[st]; ok {
				// now and then something that needs negotiation happens right before the rollback
				if r.Intn(3) == 0 {
					o = append(o, sd+":tr:v:ro")
				}
				o = append(o, sd+":"+v)
			}
		}
	}
	g.order = o
}

// advance emits the next n calls of the round in progress (starting one if there is none).
func (g *c04Gen) advance(n int) {
	for ; n > 0; n-- {
		if g.order == nil {
			g.newRound()
		}
		g.emit("%s", g.order[g.step])
		g.step++
		if g.step == len(g.order) {
			g.offerer, g.order = "", nil
		}
	}
}

// finish completes the round in progress, or runs a whole one.
func (g *c04Gen) finish() {
	if g.order == nil {
		g.newRound()
	}
	g.advance(len(g.order) - g.step)
}

func (g *c04Gen) addTrack(s string) {
	r := g.c.Rng
	kind := "v"
	if r.Intn(3) == 0 {
		kind = "a"
	}
	n := g.tracks[s+kind]
	id := n
	if n > 0 && r.Intn(4) == 0 {
		id = r.Intn(n) // a track that was used before
	} else if n < 4 {
		g.tracks[s+kind]++
	} else {
		id = r.Intn(4)
	}
	g.emit("%s:at:%s%d", s, kind, id)
	g.lastSender[s] = g.senders[s]
	g.senders[s]++
}

func (g *c04Gen) addTransceiver(s string) {
	r := g.c.Rng
	kind := []string{"v", "v", "a"}[r.Intn(3)]
	dir := []string{"sr", "so", "ro", "ro", "sr", "so", "ro", "ro", "ro", "in"}[r.Intn(10)]
	if dir == "sr" || dir == "so" {
		g.lastSender[s] = g.senders[s]
		g.senders[s]++
	}
	g.emit("%s:tr:%s:%s", s, kind, dir)
}

func (g *c04Gen) element() {
	r := g.c.Rng
	s := g.side()
	switch p := r.Intn(100); {
	case p < 20: // AddTrack: mostly a track not used before on that side
		g.addTrack(s)
	case p < 31: // RemoveTrack: mostly the sender handed out last, or another existing one
		n := g.senders[s]
		k := 0
		if n > 0 {
			k = r.Intn(n)
			if r.Intn(2) == 0 {
				k = g.lastSender[s]
			}
		}
		if r.Intn(10) == 0 {
			k = n + r.Intn(2)
		}
		g.emit("%s:rt:%d", s, k)
	case p < 43:
		g.addTransceiver(s)
	case p < 50:
		g.emit("%s:dc", s)
	case p < 70: // complete the round in progress, or run a whole one
		g.finish()
	case p < 88: // part of a round
		g.advance(1 + r.Intn(3))
	case p < 92: // an offer that may never be applied
		g.emit("%s:co", s)
	case p < 96: // malformed stream: a signaling call out of order
		g.emit("%s:%s", s, []string{"co", "ca", "slo", "sla", "sro", "sra", "slp", "srp", "slr", "srr", "slr", "srr"}[r.Intn(12)])
	default:
		g.emit("%s:cl", s)
	}
}

// c04Enumerate emits every sequence of at most `left` further elements over the reduced alphabet
// {a: AddTrack(next new video track), a: RemoveTrack(last sender), a: AddTransceiverFromKind(video, recvonly),
// a: CreateDataChannel, a complete round offered by a, a complete round offered by b, b: AddTrack(next new),
// a round offered by a in which both sides apply the answer provisionally first, a round offered by b that a
// abandons by rollback after adding a transceiver}.
func c04Enumerate(c *Ctx, prefix []int, left int) {
	if len(prefix) > 0 {
		toks := []string{}
		na, nb, senders := 0, 0, 0
		for _, e := range prefix {
			switch e {
			case 0:
				toks = append(toks, fmt.Sprintf("a:at:v%d", na))
				na++
				senders++
			case 1:
				k := 0
				if senders > 0 {
					k = senders - 1
				}
				toks = append(toks, fmt.Sprintf("a:rt:%d", k))
			case 2:
				toks = append(toks, "a:tr:v:ro")
			case 3:
				toks = append(toks, "a:dc")
			case 4:
				toks = append(toks, "a:co", "a:slo", "b:sro", "b:ca", "b:sla", "a:sra")
			case 5:
				toks = append(toks, "b:co", "b:slo", "a:sro", "a:ca", "a:sla", "b:sra")
			case 6:
				toks = append(toks, fmt.Sprintf("b:at:v%d", nb))
				nb++
			case 7:
				toks = append(toks, "a:co", "a:slo", "b:sro", "b:ca", "b:slp", "a:srp", "b:sla", "a:sra")
			case 8:
				toks = append(toks, "b:co", "b:slo", "a:sro", "a:tr:v:ro", "a:srr", "b:slr")
			}
		}
		c.Emit("h %s", strings.Join(toks, " "))
	}
	if left == 0 {
		return
	}
	for e := 0; e < 9; e++ {
		c04Enumerate(c, append(append([]int{}, prefix...), e), left-1)
	}
}

func init() {
	registry["C04"] = &Prop{
		Workers: 8,
		Timeout: 120 * time.Second,
		Rule: "25 scripted histories (one or two per clause of checkNegotiationNeeded / negotiationNeededOp, blocked " +
			"phases, Close) plus " +
			"seeded random sequential histories on a real PeerConnection pair over loopback: at most 12 elements, " +
			"an element being AddTrack (new or re-used local track), RemoveTrack (existing or unknown sender), " +
			"AddTransceiverFromKind (sendrecv/sendonly/recvonly, rarely the rejected inactive), CreateDataChannel, " +
			"a complete offer/answer round (6 calls; in one round out of four the answer is first applied as a " +
			"provisional answer on the answering side, in one out of five on the offering side; sometimes the last " +
			"two calls swapped; one round in six is abandoned half-way and every side that is not stable rolls " +
			"back with SetLocal/SetRemoteDescription(rollback), sometimes right after adding a transceiver), 1-3 further calls of the " +
			"round in progress (partial exchanges: other elements fall in between), a CreateOffer that may never be " +
			"applied, a signaling call out of order (malformed stream), Close; 62% of the calls go to side a. After " +
			"every call both operations queues are awaited (deadline 12 s) until drained or blocked on the peer " +
			"(startTransports waiting for ICE/DTLS, startRTP waiting for the SCTP handshake); a missed deadline makes " +
			"the line inconclusive. Four histories in five start with 1-2 tracks/transceivers/channels on the side that " +
			"offers first. Thorough adds, completely enumerated, every history of at most four elements over the " +
			"reduced alphabet {a:AddTrack(new), a:RemoveTrack(last), a:AddTransceiverFromKind(video,recvonly), " +
			"a:CreateDataChannel, round offered by a, round offered by b, b:AddTrack(new), round offered by a with " +
			"provisional answers on both sides, round offered by b rolled back by a after AddTransceiverFromKind} " +
			"(7380 histories). " +
			"Trivial: a history in which no handler invocation happened on either side.",
		Gen: func(c *Ctx) {
			// scripted stream: one or two histories per clause of checkNegotiationNeeded / negotiationNeededOp
			ra := "a:co a:slo b:sro b:ca b:sla a:sra"
			rb := "b:co b:slo a:sro a:ca a:sla b:sra"
			for _, h := range []string{
				"a:at:v0 a:at:v1",                                                                     // step 3 (no local description), 4.7.3.2.5
				"a:dc a:dc " + ra + " a:dc b:dc",                                                      // step 4: first data channel only
				"b:dc " + rb + " a:dc a:at:a0",                                                        // … negotiated by the peer
				"a:at:v0 " + ra + " a:at:v1 a:tr:a:ro",                                                // step 5.2: no m-section for the mid
				"a:tr:v:ro " + ra + " b:at:v0 " + rb,                                                  // 5.3.1: sendonly without sender (answerer), re-use
				"a:tr:v:ro " + ra + " a:at:v0 " + ra + " a:rt:0",                                      // 5.3.1 msid; 5.3.2 after RemoveTrack
				"a:at:v0 " + ra + " a:rt:0 " + ra,                                                     // 5.3.2: offerer's direction changed
				"a:tr:v:sr a:tr:a:so " + ra + " a:rt:1 a:rt:0",                                        // 5.3.2: sendonly -> inactive, sendrecv -> recvonly
				"b:at:v0 a:at:v0 " + ra + " b:rt:0",                                                   // 5.3.3: answerer's direction changed
				"b:tr:a:so a:tr:a:ro " + ra + " b:rt:0 " + rb,                                         // 5.3.3: sendonly answer, then inactive
				"a:at:v0 a:co a:slo a:at:a0 a:dc b:sro b:ca b:sla a:sra " + ra,                        // change during have-local-offer
				"b:at:v0 b:co b:slo a:sro a:at:v1 a:tr:a:ro a:ca a:sla b:sra",                         // change during have-remote-offer
				"a:at:v0 a:co a:slo b:sro b:ca a:sra a:at:v1 b:sla",                                   // offerer blocked in startTransports
				"a:at:v0 " + ra + " b:dc b:co b:slo a:sro a:ca a:sla a:at:v1 b:sra",                   // answerer blocked in SCTP start
				"a:at:v0 " + ra + " a:cl a:at:v1 a:dc b:at:v0 " + rb,                                  // nothing after Close
				"a:at:v0 a:co a:slo b:sro a:at:v1 a:cl b:ca b:sla b:at:v0",                            // Close with queued work
				"a:tr:v:sr " + ra + " a:tr:a:sr a:co a:slo b:sro b:ca b:slp b:tr:v:ro b:sla a:sra",    // need arises in have-local-pranswer
				"a:at:v0 " + ra + " a:at:a0 a:co a:slo b:sro b:ca a:srp a:tr:v:ro a:dc b:sla a:sra",   // … in have-remote-pranswer
				"a:at:v0 a:co a:slo b:sro b:ca b:slp b:at:v0 a:srp a:at:v1 b:ca b:sla a:sra",          // first exchange with provisional answers
				"a:at:v0 a:dc a:co a:slo b:sro b:ca a:srp b:slp b:sla a:sra a:slp b:srp",              // pranswer before the peer gathered; refused ones
				"a:tr:v:sr " + ra + " b:co b:slo a:sro a:tr:v:ro a:srr b:slr",                         // need raised in have-remote-offer, stable by rollback
				"a:tr:v:sr " + ra + " a:tr:a:ro a:co a:slo b:sro b:tr:v:ro b:srr a:slr",               // … on the answerer; the offerer rolls back with its need still there
				"a:at:v0 " + ra + " a:at:a0 a:co a:slo b:sro b:ca b:slp b:dc b:slr a:srp a:srr a:slr", // rollback from the pranswer states
				"a:at:v0 a:co a:slo b:sro b:srr a:slr a:slr a:srr a:co a:slo b:sro b:ca b:sla a:sra",  // first exchange abandoned, then redone; refused rollbacks
				"a:co a:slo b:sro b:ca b:sla a:sra a:at:v0",                                           // descriptions without m-sections are refused
			} {
				c.Emit("h %s", h)
			}
			for n := 0; n < c.N(240, 2500); n++ {
				g := &c04Gen{c: c, senders: map[string]int{}, tracks: map[string]int{}, lastSender: map[string]int{}}
				l := 4 + c.Rng.Intn(9)
				// four histories in five begin with something to negotiate on the side that offers first
				// (an offer without m-sections is refused by the peer: no ICE credentials)
				if c.Rng.Intn(5) != 0 {
					g.offerer = g.side()
					g.step = 0
					for k := 1 + c.Rng.Intn(2); k > 0 && l > 1; k-- {
						switch c.Rng.Intn(5) {
						case 0:
							g.emit("%s:dc", g.offerer)
						case 1, 2:
							g.addTransceiver(g.offerer)
						default:
							g.addTrack(g.offerer)
						}
						l--
					}
					if c.Rng.Intn(3) == 0 {
						g.offerer = "" // the other side may come first after all
					}
				}
				for k := 0; k < l; k++ {
					g.element()
				}
				// most histories finish the round they are in, so that connections come up
				if g.order != nil && c.Rng.Intn(3) != 0 {
					g.finish()
				}
				c.Emit("h %s", strings.Join(g.toks, " "))
			}
			// thorough: every history of at most four elements over a reduced alphabet, completely
			if c.Thorough() {
				c04Enumerate(c, nil, 4)
			}
		},
		Exec: func(a []string) string {
			if len(a) < 1 || a[0] != "h" {
				return "bad-op"
			}

			return c04Run(a[1:])
		},
		Class: func(a []string, out string) string {
			if strings.HasPrefix(out, "inconclusive") {
				return "inconclusive"
			}
			f := strings.Fields(out)
			fires, blocked, errs, late := 0, false, 0, 0
			for i, t := range f {
				if t == "fa" {
					fires = len(f) - i - 2

					break
				}
				if i%3 == 0 {
					if t == "1" {
						errs++
					} else if t == "2" {
						late++
					}
				} else if len(t) > 1 && t[1] == 'B' {
					blocked = true
				}
			}
			rounds := 0
			for _, t := range a {
				if strings.HasSuffix(t, ":sra") {
					rounds++
				}
			}
			fb := "fires=" + strconv.Itoa(fires)
			if fires > 3 {
				fb = "fires>3"
			}
			rb := "rounds=" + strconv.Itoa(rounds)
			if rounds > 2 {
				rb = "rounds>2"
			}
			cl := fb + " " + rb
			if blocked {
				cl += " blocked-phase"
			}
			if errs > 0 {
				cl += " refused-calls"
			}
			if late > 0 {
				cl += " error-after-commit"
			}

			return cl
		},
		Trivial: func(a []string, out string) bool {
			return strings.HasSuffix(out, "fa fb") || strings.HasPrefix(out, "inconclusive")
		},
	}
}
