package main

import (
	"fmt"
	"runtime"
	"strconv"
	"strings"
	"sync"
	"sync/atomic"
	"time"

	"github.com/pion/webrtc/v4"
)

// C20 — DataChannel readyState under a controlled schedule (grammar: lean/WebrtcVerif/Drv/C20.lean).

type c20Prog struct {
	detach, openH, closeH bool
	specs                 []string
	sched                 []string
}

func c20Parse(a []string) (*c20Prog, bool) {
	if len(a) < 4 || a[0] != "run" {
		return nil, false
	}
	flag := func(t, k string) (bool, bool) {
		switch t {
		case k + "=0":
			return false, true
		case k + "=1":
			return true, true
		}

		return false, false
	}
	p := &c20Prog{}
	var ok1, ok2, ok3 bool
	p.detach, ok1 = flag(a[1], "det")
	p.openH, ok2 = flag(a[2], "oh")
	p.closeH, ok3 = flag(a[3], "ch")
	if !ok1 || !ok2 || !ok3 {
		return nil, false
	}
	i := 4
	for ; i < len(a) && a[i] != "sched"; i++ {
		p.specs = append(p.specs, a[i])
	}
	if i < len(a) {
		p.sched = a[i+1:]
	}
	nO, nR, nA, nK, nLO, nLC := 0, 0, 0, 0, 0, 0
	for _, sp := range p.specs {
		switch {
		case sp == "O:-" || sp == "O:r" || sp == "O:n" || sp == "O:rn":
			nO++
		case sp == "C" || sp == "G" || sp == "P":
		case sp == "R":
			nR++
		case sp == "A":
			nA++
		case sp == "K":
			nK++
		case sp == "LO":
			nLO++
		case sp == "LC":
			nLC++
		case strings.HasPrefix(sp, "S:"):
			if n, err := strconv.Atoi(sp[2:]); err != nil || n < 1 || n > 9 {
				return nil, false
			}
		default:
			return nil, false
		}
	}
	if nO > 1 || nR > 1 || nA > 1 || nK > 1 || len(p.specs) == 0 || len(p.specs) > 10 {
		return nil, false
	}
	// one registration per handler: before the run (oh / ch) or during it (LO / LC)
	if (p.openH && nLO > 0) || nLO > 1 || (p.closeH && nLC > 0) || nLC > 1 {
		return nil, false
	}

	return p, true
}

func c20State(s webrtc.DataChannelState) string {
	switch s {
	case webrtc.DataChannelStateConnecting:
		return "cn"
	case webrtc.DataChannelStateOpen:
		return "op"
	case webrtc.DataChannelStateClosing:
		return "cg"
	case webrtc.DataChannelStateClosed:
		return "cd"
	default:
		return "unknown"
	}
}

func c20Run(p *c20Prog) string {
	v, err := webrtc.NewVerifDataChannel(p.detach)
	if err != nil {
		return "setup-failed " + strings.ReplaceAll(err.Error(), " ", "_")
	}
	s := NewSched()
	s.Families = []string{"dc."}
	s.Probe = true
	s.ProbeWait = time.Second // every blocking primitive of this code follows a ".wait" yield
	// every setReadyState call reports through the note "!dc.stored": sample the state right there, so
	// that a value held only in the middle of a segment is seen as well
	var trailMu sync.Mutex
	trail := []string{}
	recording := true
	webrtc.VerifSetYield(func(l string) {
		if l == "!dc.stored" {
			trailMu.Lock()
			if recording {
				trail = append(trail, c20State(v.D.ReadyState()))
			}
			trailMu.Unlock()

			return
		}
		s.Yield(l)
	})
	defer webrtc.VerifSetYield(nil)

	var openN, closeN atomic.Int32
	if p.openH {
		v.D.OnOpen(func() { openN.Add(1) })
	}
	if p.closeH {
		v.D.OnClose(func() { closeN.Add(1) })
	}
	var logMu sync.Mutex
	log := []string{}
	rec := func(e string) {
		logMu.Lock()
		log = append(log, e)
		logMu.Unlock()
	}
	kind := map[string]string{}
	ackSent := false
	hasLO := false
	for i, sp := range p.specs {
		name := fmt.Sprintf("T%d", i)
		kind[name] = sp[:1]
		switch {
		case strings.HasPrefix(sp, "O:"):
			isRemote, neg := strings.Contains(sp[2:], "r"), strings.Contains(sp[2:], "n")
			s.Go(name, func() { v.HandleOpen(isRemote, neg) })
		case sp == "C":
			s.Go(name, func() { _ = v.D.Close() })
		case sp == "G":
			s.Go(name, func() { _ = v.D.GracefulClose() })
		case sp == "P":
			s.Go(name, func() {
				if !v.PCClose() {
					rec("pc-close-failed")
				}
			})
		case sp == "R":
			s.Go(name, func() {
				if v.RemoteClose() {
					rec("r:ok")
				} else {
					rec("r:fail")
				}
			})
		case sp == "A":
			s.Go(name, func() {
				if v.RemoteAbort() {
					rec("a:ok")
				} else {
					rec("a:fail")
				}
			})
		case sp == "LO":
			hasLO = true
			s.Go(name, func() { v.D.OnOpen(func() { openN.Add(1) }) })
		case sp == "LC":
			s.Go(name, func() { v.D.OnClose(func() { closeN.Add(1) }) })
		case sp == "K":
			s.Go(name, func() {
				ackSent = v.RemoteAck()
				if ackSent {
					rec("k:ok")
				} else {
					rec("k:fail")
				}
			})
		case strings.HasPrefix(sp, "S:"):
			n, _ := strconv.Atoi(sp[2:])
			s.Go(name, func() {
				for k := 0; k < n; k++ {
					if k > 0 {
						s.Yield("send")
					}
					st := v.D.ReadyState()
					res := "ok"
					func() {
						defer func() {
							if r := recover(); r != nil {
								res = "panic"
							}
						}()
						if e := v.D.Send([]byte{0x61}); e != nil {
							res = "err"
						}
					}()
					rec("s:" + c20State(st) + ":" + res)
				}
			})
		}
	}
	// after a step that may have woken a blocked library goroutine (read loop) or started unobserved
	// handler goroutines, give them the time to reach their next yield / to finish
	settle := func() {
		deadline := time.Now().Add(500 * time.Millisecond)
		for time.Now().Before(deadline) {
			s.mu.Lock()
			th, ok := s.byName["W0"]
			wake := ok && th.state == thFlying && th.blocked
			s.mu.Unlock()
			if !wake {
				break
			}
			time.Sleep(50 * time.Microsecond)
		}
	}
	readerBlocked := func() bool {
		s.mu.Lock()
		defer s.mu.Unlock()
		th, ok := s.byName["W0"]

		return ok && th.state == thFlying && th.blocked
	}
	lastState := c20State(v.D.ReadyState())
	step := func(n string) string {
		// the acknowledgement reaches d.onOpen through two unobserved goroutines; when its outcome is
		// decided now (read loop inside its read, or entering it in this step) wait for it
		openReg := p.openH
		if hasLO {
			for i, sp := range p.specs {
				s.mu.Lock()
				if sp == "LO" && s.finished[fmt.Sprintf("T%d", i)] {
					openReg = true
				}
				s.mu.Unlock()
			}
		}
		armed := false // handleOpen has registered its callback with pion/datachannel
		for i, sp := range p.specs {
			s.mu.Lock()
			if sp == "O:-" && !p.detach && s.finished[fmt.Sprintf("T%d", i)] {
				armed = true
			}
			s.mu.Unlock()
		}
		expectOpen := func() bool {
			return ackSent && armed && openReg && openN.Load() == 0 && !v.IsGracefulClosed()
		}
		ackBefore := ackSent
		trailMu.Lock()
		trail = trail[:0]
		trailMu.Unlock()
		willFire := (n == "W0" && expectOpen()) || (kind[n] == "K" && readerBlocked() && armed && openReg &&
			openN.Load() == 0 && !v.IsGracefulClosed())
		r := s.Step(n)
		if r != "skip" && (kind[n] == "R" || kind[n] == "A" || kind[n] == "P") {
			// the read loop, if it sits in its read, wakes and parks at dc.read.err
			time.Sleep(200 * time.Microsecond)
			deadline := time.Now().Add(500 * time.Millisecond)
			for time.Now().Before(deadline) {
				s.mu.Lock()
				th, ok := s.byName["W0"]
				parked := !ok || th.state != thFlying
				s.mu.Unlock()
				if parked {
					break
				}
				time.Sleep(50 * time.Microsecond)
			}
		}
		_ = settle
		if willFire && r != "skip" && (ackBefore || ackSent) {
			deadline := time.Now().Add(time.Second)
			for openN.Load() == 0 && time.Now().Before(deadline) {
				time.Sleep(50 * time.Microsecond)
			}
		}
		for i := 0; i < 8; i++ {
			runtime.Gosched()
		}

		trailMu.Lock()
		seq := append(append([]string{}, trail...), c20State(v.D.ReadyState()))
		trailMu.Unlock()
		// the changes during this step: drop what merely repeats the value before it
		out := []string{}
		prev := lastState
		for _, x := range seq {
			if x != prev {
				out = append(out, x)
				prev = x
			}
		}
		lastState = prev
		if len(out) == 0 {
			out = append(out, prev)
		}

		return n + ":" + r + ":" + strings.Join(out, ">")
	}
	ev := []string{}
	for _, n := range p.sched {
		ev = append(ev, step(n))
	}
	ev = append(ev, "/")
	// drain (same order as Sched.Drain, with the state sampled after every step)
	for len(ev) < 400 {
		progressed := false
		for _, n := range s.AllNames() {
			s.mu.Lock()
			skip := s.finished[n] || s.blockedFlag[n]
			s.mu.Unlock()
			if skip {
				continue
			}
			e := step(n)
			if strings.HasPrefix(e, n+":skip:") {
				s.mu.Lock()
				s.finished[n] = true
				s.mu.Unlock()
			}
			ev = append(ev, e)
			progressed = true
		}
		if progressed {
			continue
		}
		for _, n := range s.AllNames() {
			s.mu.Lock()
			bl := s.blockedFlag[n] && !s.finished[n]
			s.mu.Unlock()
			if !bl {
				continue
			}
			e := step(n)
			ev = append(ev, e)
			if !strings.HasPrefix(e, n+":skip:") {
				progressed = true
			}
		}
		if !progressed {
			break
		}
	}
	// handler goroutines
	time.Sleep(300 * time.Microsecond)
	for i := 0; i < 20; i++ {
		runtime.Gosched()
	}
	names := s.AllNames()
	states := []string{}
	s.mu.Lock()
	for _, n := range names {
		switch {
		case s.finished[n]:
			states = append(states, n+":fin")
		case s.blockedFlag[n]:
			states = append(states, n+":blocked")
		default:
			states = append(states, n+":parked")
		}
	}
	s.mu.Unlock()
	final := c20State(v.D.ReadyState())
	nOpen, nClose := openN.Load(), closeN.Load()
	logMu.Lock()
	logs := strings.Join(log, " ")
	logMu.Unlock()
	trailMu.Lock()
	recording = false
	trailMu.Unlock()
	// tear the transport down and run every remaining thread (a read loop inside its read, the
	// GracefulClose callers waiting for it) to its end under the scheduler, so that no goroutine of this
	// run is left to wander into the next run's scheduler
	v.Cleanup()
	for round := 0; round < 6; round++ {
		left := false
		for _, n := range s.AllNames() {
			s.mu.Lock()
			fin := s.finished[n]
			s.mu.Unlock()
			if !fin {
				left = true
				if r := s.Step(n); r == "skip" {
					s.mu.Lock()
					if th, ok := s.byName[n]; !ok || th.state == thDone {
						s.finished[n] = true
					}
					s.mu.Unlock()
				}
			}
		}
		if !left {
			break
		}
	}
	s.Release()

	return fmt.Sprintf("%s | %s | final %s open %d close %d | %s", strings.Join(ev, " "), logs,
		final, nOpen, nClose, strings.Join(states, " "))
}

// c20Perms emits every distinct order of the multiset of names (count[i] copies of names[i]).
func c20Perms(names []string, count []int, emit func([]string)) {
	total := 0
	for _, c := range count {
		total += c
	}
	cur := make([]string, 0, total)
	var rec func()
	rec = func() {
		if len(cur) == total {
			emit(append([]string{}, cur...))

			return
		}
		for i := range names {
			if count[i] == 0 {
				continue
			}
			count[i]--
			cur = append(cur, names[i])
			rec()
			cur = cur[:len(cur)-1]
			count[i]++
		}
	}
	rec()
}

type c20Family struct {
	head  string
	specs []string
	count []int // segments per thread; the last entry is W0
	quick int   // stride in the quick tier
	thor  int   // stride in the thorough tier
}

func c20Emit(c *Ctx, f c20Family, stride int) {
	off := int(c.Seed % int64(stride))
	names := []string{}
	for i := range f.specs {
		names = append(names, fmt.Sprintf("T%d", i))
	}
	names = append(names, "W0")
	k := 0
	c20Perms(names, append([]int{}, f.count...), func(order []string) {
		k++
		if stride > 1 && k%stride != off {
			return
		}
		c.Emit("run %s %s sched %s", f.head, strings.Join(f.specs, " "), strings.Join(order, " "))
	})
}

func init() {
	registry["C20"] = &Prop{
		Procs: 16,
		Rule: "one DataChannel (registered with a fresh PeerConnection) on a real pion/datachannel + pion/sctp stream of an " +
			"in-memory association pair whose remote end the harness scripts. Programs: 0–1 handleOpen (remote / negotiated / " +
			"waiting for the ACK), 0–3 Close / GracefulClose callers, 0–2 PeerConnection.Close, remote close, remote abort, " +
			"remote ACK, 0–1 sender (1–4 Sends), detach on in ~1/10, each handler registered before the run (7/10), during it (2/10) or never. (i) complete families: every " +
			"order of the lock-delimited segments of small programs (open/close/remote close, open/close/PeerConnection.Close, " +
			"…; quick: a stride through them); (ii) random programs with a blind random schedule over all thread names incl. " +
			"the read loop W0, finished and non-existent ones; (iii) a few malformed op lines. Every line runs on the real " +
			"code under the cooperative scheduler (verifYield hooks), then every thread is drained in a fixed order; ReadyState() " +
			"is sampled after every step. Non-trivial: distinct lines with at least two threads and a non-empty schedule.",
		Gen: func(c *Ctx) {
			r := c.Rng
			fams := []c20Family{
				{"det=0 oh=1 ch=1", []string{"O:n", "C", "R"}, []int{2, 2, 1, 2}, 6, 1},                      // 630
				{"det=0 oh=1 ch=1", []string{"O:n", "C", "P"}, []int{2, 2, 1, 2}, 6, 1},                      // 630
				{"det=0 oh=1 ch=1", []string{"O:-", "G", "R", "K"}, []int{2, 3, 1, 1, 2}, 100, 6},            // 15120
				{"det=0 oh=1 ch=1", []string{"O:r", "G", "A"}, []int{2, 3, 1, 2}, 100, 1},                    // 1680
				{"det=0 oh=1 ch=1", []string{"O:n", "C", "G", "R"}, []int{2, 2, 2, 1, 1}, 100, 4},            // 5040
				{"det=0 oh=1 ch=1", []string{"O:n", "P", "P", "C"}, []int{2, 1, 1, 2, 1}, 100, 1},            // 1260
				{"det=1 oh=1 ch=1", []string{"O:-", "C", "P", "S:2"}, []int{2, 2, 1, 2, 0}, 100, 1},          // 630
				{"det=0 oh=1 ch=1", []string{"O:n", "C", "S:3", "R"}, []int{2, 2, 3, 1, 1}, 100, 8},          // 15120
				{"det=0 oh=0 ch=0", []string{"O:-", "P", "LO", "LC", "K"}, []int{2, 1, 1, 1, 1, 2}, 100, 8},  // 10080
				{"det=0 oh=0 ch=0", []string{"O:n", "C", "LO", "LC", "R"}, []int{2, 2, 1, 1, 1, 1}, 200, 16}, // 20160
			}
			for _, f := range fams {
				if c.Thorough() {
					c20Emit(c, f, f.thor)
				} else {
					c20Emit(c, f, f.quick)
				}
			}
			for n := 0; n < c.N(180, 4000); n++ {
				specs := []string{}
				det := r.Intn(10) == 0
				immediate := false
				if r.Intn(10) != 0 {
					o := []string{"O:-", "O:r", "O:n", "O:rn"}[r.Intn(4)]
					immediate = o != "O:-"
					specs = append(specs, o)
				}
				for k := []int{0, 1, 1, 1, 2, 2, 3}[r.Intn(7)]; k > 0; k-- {
					specs = append(specs, []string{"C", "G"}[r.Intn(2)])
				}
				for k := []int{0, 0, 0, 1, 1, 2}[r.Intn(6)]; k > 0; k-- {
					specs = append(specs, "P")
				}
				if r.Intn(2) == 0 {
					specs = append(specs, "R")
				}
				if r.Intn(5) == 0 {
					specs = append(specs, "A")
				}
				if (!immediate && !det && r.Intn(3) != 0) || r.Intn(8) == 0 {
					specs = append(specs, "K")
				}
				if r.Intn(5) < 2 {
					specs = append(specs, fmt.Sprintf("S:%d", 1+r.Intn(4)))
				}
				if len(specs) == 0 {
					specs = append(specs, "C")
				}
				r.Shuffle(len(specs), func(i, j int) { specs[i], specs[j] = specs[j], specs[i] })
				sched := []string{}
				w0 := 0
				for k := 2 + r.Intn(16); k > 0; k-- {
					switch x := r.Intn(12); {
					case x < 2 && w0 < 3:
						w0++
						sched = append(sched, "W0")
					case x == 2 && r.Intn(4) == 0:
						sched = append(sched, []string{"W1", "T9", "X"}[r.Intn(3)])
					default:
						sched = append(sched, fmt.Sprintf("T%d", r.Intn(len(specs))))
					}
				}
				oh, ch := r.Intn(10) < 7, r.Intn(10) < 7
				// a handler not registered before the run is, two times out of three, registered during it
				late := []string{}
				if !oh && r.Intn(3) != 0 {
					late = append(late, "LO")
				}
				if !ch && r.Intn(3) != 0 {
					late = append(late, "LC")
				}
				for _, l := range late {
					specs = append(specs, l)
					pos := r.Intn(len(sched) + 1)
					sched = append(sched[:pos], append([]string{fmt.Sprintf("T%d", len(specs)-1)}, sched[pos:]...)...)
				}
				c.Emit("run det=%s oh=%s ch=%s %s sched %s", b2s(det), b2s(oh), b2s(ch),
					strings.Join(specs, " "), strings.Join(sched, " "))
			}
			// malformed op lines: both sides must answer bad-op
			c.Emit("run det=0 oh=1 ch=1 O:n O:r sched T0")
			c.Emit("run det=2 oh=1 ch=1 O:n sched T0")
			c.Emit("run det=0 oh=1 O:n C sched T0")
			c.Emit("run det=0 oh=1 ch=1 S:0 sched T0")
			c.Emit("run det=0 oh=1 ch=1 Q sched T0")
			c.Emit("run det=0 oh=1 ch=1 R R sched T0")
			c.Emit("run det=0 oh=1 ch=0 O:n LO sched T0")
			c.Emit("run det=0 oh=0 ch=0 O:n LC LC sched T0")
			c.Emit("walk det=0 oh=1 ch=1 C")
		},
		Exec: func(a []string) string {
			p, ok := c20Parse(a)
			if !ok {
				return "bad-op"
			}

			return c20Run(p)
		},
		Class: func(a []string, out string) string {
			if out == "bad-op" {
				return "malformed"
			}
			cl := []string{}
			has := func(pre string) bool {
				for _, t := range a {
					if t == "sched" {
						break
					}
					if strings.HasPrefix(t, pre) {
						return true
					}
				}

				return false
			}
			for _, k := range []string{"O", "C", "G", "P", "R", "A", "K", "S"} {
				if has(k) {
					cl = append(cl, k)
				}
			}
			kind := ""
			if has("O") {
				kind = "open"
			}
			if has("C") || has("G") {
				kind += "+close"
			}
			if has("P") {
				kind += "+pcclose"
			}
			if has("R") || has("A") {
				kind += "+remote"
			}
			if has("S") {
				kind += "+send"
			}
			if has("det=1") {
				kind += "/detach"
			}
			_ = cl
			if i := strings.Index(out, "| final "); i >= 0 && len(out) >= i+10 {
				kind += " → " + out[i+8:i+10]
			}

			return kind
		},
		Trivial: func(a []string, out string) bool {
			n, sched := 0, 0
			seen := false
			for _, t := range a[min(len(a), 4):] {
				if t == "sched" {
					seen = true

					continue
				}
				if seen {
					sched++
				} else {
					n++
				}
			}

			return out == "bad-op" || n < 2 || sched == 0
		},
		Timeout: 60e9,
	}
}
