package main

import (
	"strings"
)

// C10 — each generated media section is internally consistent. Scenarios on a real PeerConnection
// (pcscn.go / pcgen.go): every m-section of every CreateOffer / CreateAnswer result is abstracted with pion/sdp.
func c10Gen(c *Ctx) {
	r := c.Rng
	n := c.N(1500, 30000)
	for i := 0; i < n; i++ {
		malformed := i%6 == 5
		flavor := "offer"
		switch i % 6 {
		case 1, 3:
			flavor = "answer"
		case 2:
			flavor = "mixed"
		case 5:
			flavor = c15Pick(r, []string{"answer", "mixed"})
		default:
		}
		c.Emit("%s", strings.Join(pcScenario(r, flavor, malformed).tokens(), " "))
	}
}

func init() {
	registry["C10"] = &Prop{
		Workers: 16,
		Rule: "Seeded random scenarios on a real PeerConnection (public API; SettingEngine without network interfaces, empty " +
			"interceptor registry, always closed) whose MediaEngine was configured with RegisterCodec / RegisterHeaderExtension: " +
			"RegisterDefaultCodecs' table, a subset of it, nothing, or 1-7 random codecs per kind (opus/PCMU/PCMA/G722/" +
			"telephone-event/red/VP8/VP9/H264/H265/AV1/rtx/flexfec/ulpfec/unknown, payload types colliding within and across kinds, " +
			"RTX with present / absent / duplicate primaries, RTX of RTX, RTX whose apt is no payload type but congruent to a present " +
			"one modulo 256 (256+pt, 512+pt, 2^32+pt, 2^64+pt), negative, signed, zero-padded or not a number - registered and " +
			"preferred -, clock/channels incl. 0) and 0-19 header-extension " +
			"registrations over 18 URIs (audio/video/both, send/recv restrictions, more than 14 URIs). Steps: AddTransceiverFromKind " +
			"(sendrecv/sendonly/recvonly), SetCodecPreferences (subsets, reorderings, payload type kept / 0 / replaced, duplicates, " +
			"unsupported codecs), 2-3 consecutive CreateOffer calls, SetRemoteDescription with synthetic offers rendered by pion/sdp " +
			"(1-4 sections, codecs derived from the local ones with payload types remapped and apt following, or independent; extmap " +
			"ids remapped, per offer or per section, ids above 14; mids matching or not matching local ones; BUNDLE group complete, " +
			"partial or absent), 1-2 CreateAnswer calls each, preferences changed between answers (also on transceivers that " +
			"SetRemoteDescription created), SetLocalDescription(answer) followed by a second remote offer that keeps the mids and " +
			"renumbers, CreateOffer before / after a remote offer and after the answer was applied. Every " +
			"sixth case is the malformed stream (weird apt syntax, payload type without rtpmap, section without mid or direction, " +
			"unknown media, two URIs under one extmap id, one URI under two ids). Every generated audio/video m-section is abstracted " +
			"to (formats, rtpmaps, fmtps, rtcp-fbs, extmaps) with pion/sdp and compared with the model; the judge evaluates the " +
			"property's clauses on the observed sections. Cases whose extmap ids depend on Go's map iteration order are reported as " +
			"inconclusive. Non-trivial: at least one section with codecs was generated.",
		Gen:     c10Gen,
		Exec:    pcExec,
		Class:   pcClass,
		Trivial: pcTrivial,
	}
}
