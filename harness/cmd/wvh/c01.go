package main

import (
	"fmt"
	"strconv"
	"strings"
	"time"

	"github.com/pion/webrtc/v4"
)

// C01 — signaling state follows the JSEP transition table, with matching descriptions.
//
//	tab <cur> <next> <op> <ty>     raw ints → <returned state> <ok|norollback|transition>
//	h <cfg> <step>…                history on a pair of real PeerConnections (see sighist.go)
func sigExecTab(a []string) string {
	if len(a) != 5 {
		return "bad-op"
	}
	n := make([]int, 4)
	for i := range n {
		v, err := strconv.Atoi(a[i+1])
		if err != nil {
			return "bad-op"
		}
		n[i] = v
	}
	st, cl := webrtc.VerifCheckNextSignalingState(
		webrtc.SignalingState(n[0]), webrtc.SignalingState(n[1]), n[2], webrtc.SDPType(n[3])) //nolint:gosec

	return fmt.Sprintf("%d %s", int(st), cl)
}

func sigTrivial(a []string, out string) bool {
	if a[0] == "tab" {
		return false
	}
	// a history in which no SetLocal/SetRemoteDescription call succeeded exercises no bookkeeping
	for i, tok := range strings.Fields(out) {
		if i+2 < len(a) && (strings.Contains(a[i+2], "sl:") || strings.Contains(a[i+2], "sr:")) &&
			strings.HasPrefix(tok, "ok/") {
			return false
		}
	}

	return true
}

func init() {
	registry["C01"] = &Prop{
		Workers:    16,
		Exhaustive: false,
		Timeout:    60 * time.Second,
		Rule: "tab: every raw argument tuple of checkNextSignalingState (cur 0..6, next 0..6, op 0..3, type 0..5), " +
			"enumerated completely through a verif-tagged hook. h: histories on two real PeerConnections " +
			"(data channel only / audio transceiver / audio track / video transceiver): from 14 stages (each " +
			"signaling state of a first negotiation and of a renegotiation) every suffix of length 1 and 2 over the " +
			"focus peer's calls (createOffer, createAnswer, SetLocal/SetRemote x offer/pranswer/answer/rollback x " +
			"own/other peer's last offer/answer, empty text; second call without the empty/own-text variants; in the " +
			"quick tier a seeded half of the length-2 suffixes of the renegotiation stages) " +
			"followed by the rest of the exchange; thorough uses both peers' calls at both positions and adds " +
			"length-3 suffixes over the smaller alphabet; the length-1 suffixes also with audio/video sections; " +
			"plus seeded guided random walks " +
			"(mostly the sensible next call, 20% arbitrary calls incl. mutated texts, rollbacks, Close). " +
			"Non-trivial: distinct op lines; a history is trivial when no SetLocal/SetRemoteDescription succeeded.",
		Gen: func(c *Ctx) {
			sigTable(c, -1)
			for _, st := range sigStages() {
				wide := sigAlphabet(st.focus, true)
				small := sigAlphabet(st.focus, false)
				second := small
				if c.Thorough() {
					wide = append(wide, sigAlphabet(sigOther(st.focus), true)...)
					second = wide
				}
				for _, x := range wide {
					c.Emit("h d %s", sigJoin(st.prefix, x, st.cont))
					for _, y := range second {
						if !c.Thorough() && strings.HasPrefix(st.name, "re-") && c.Rng.Intn(2) == 0 {
							continue // quick tier: a seeded half of the (twice as long) renegotiation histories
						}
						c.Emit("h d %s", sigJoin(st.prefix, x, y, st.cont))
					}
				}
				if c.Thorough() {
					for _, x := range small {
						for _, y := range small {
							for _, z := range small {
								c.Emit("h d %s", sigJoin(st.prefix, x, y, z, st.cont))
							}
						}
					}
				}
			}
			// the same single calls with media sections in the descriptions (audio transceiver, audio track,
			// video transceiver on the offerer), from the stages of a first negotiation
			for _, cfg := range []string{"m", "t", "v"} {
				for _, st := range sigStages()[2:7] {
					for _, x := range sigAlphabet(st.focus, true) {
						c.Emit("h %s %s", cfg, sigJoin(st.prefix, x, st.cont))
					}
				}
			}
			valid := []string{"attr", "candok"}
			for n := 0; n < c.N(1500, 20000); n++ {
				c.Emit("%s", sigWalk(c, 6+c.Rng.Intn(c.N(14, 24)),
					sigWalkOpts{invalid: 200, rollback: 80, closeProb: 8, mutations: valid}))
			}
		},
		Exec: func(a []string) string {
			if a[0] == "tab" {
				return sigExecTab(a)
			}

			return sigExecHistory(a, 300*time.Microsecond)
		},
		Class:   sigClass,
		Trivial: sigTrivial,
	}
}
