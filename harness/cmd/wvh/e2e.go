package main

import (
	"errors"
	"time"

	"github.com/pion/webrtc/v4"
)

// Pair is two in-process PeerConnections wired to each other over loopback.
type Pair struct {
	A, B *webrtc.PeerConnection
}

func loopbackSettings() webrtc.SettingEngine {
	se := webrtc.SettingEngine{}
	se.SetIncludeLoopbackCandidate(true)
	se.SetInterfaceFilter(func(name string) bool { return name == "lo" })
	se.SetNetworkTypes([]webrtc.NetworkType{webrtc.NetworkTypeUDP4})
	se.SetICETimeouts(5*time.Second, 10*time.Second, time.Second)

	return se
}

// NewPair creates two PeerConnections (each from its own API so that settings can differ).
func NewPair(apiA, apiB *webrtc.API) (*Pair, error) {
	a, err := apiA.NewPeerConnection(webrtc.Configuration{})
	if err != nil {
		return nil, err
	}
	b, err := apiB.NewPeerConnection(webrtc.Configuration{})
	if err != nil {
		_ = a.Close()

		return nil, err
	}

	return &Pair{A: a, B: b}, nil
}

// Close closes both ends.
func (p *Pair) Close() {
	_ = p.A.Close()
	_ = p.B.Close()
}

var errSignalTimeout = errors.New("signaling timeout")

// Negotiate runs one complete offer/answer exchange with `offerer` offering, waiting for ICE gathering
// on both sides so that the descriptions carry their candidates (no trickle).
func Negotiate(offerer, answerer *webrtc.PeerConnection) error {
	offer, err := offerer.CreateOffer(nil)
	if err != nil {
		return err
	}
	g := webrtc.GatheringCompletePromise(offerer)
	if err = offerer.SetLocalDescription(offer); err != nil {
		return err
	}
	select {
	case <-g:
	case <-time.After(10 * time.Second):
		return errSignalTimeout
	}
	if err = answerer.SetRemoteDescription(*offerer.LocalDescription()); err != nil {
		return err
	}
	answer, err := answerer.CreateAnswer(nil)
	if err != nil {
		return err
	}
	g2 := webrtc.GatheringCompletePromise(answerer)
	if err = answerer.SetLocalDescription(answer); err != nil {
		return err
	}
	select {
	case <-g2:
	case <-time.After(10 * time.Second):
		return errSignalTimeout
	}

	return offerer.SetRemoteDescription(*answerer.LocalDescription())
}

// WaitConnected waits until both ends report PeerConnectionStateConnected.
func (p *Pair) WaitConnected(d time.Duration) bool {
	deadline := time.Now().Add(d)
	for time.Now().Before(deadline) {
		if p.A.ConnectionState() == webrtc.PeerConnectionStateConnected &&
			p.B.ConnectionState() == webrtc.PeerConnectionStateConnected {
			return true
		}
		time.Sleep(5 * time.Millisecond)
	}

	return false
}
