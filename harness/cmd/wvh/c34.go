package main

import (
	"errors"
	"fmt"
	"io"
	"math/rand"
	"strconv"
	"strings"

	"github.com/pion/webrtc/v4/pkg/media/h264reader"
	"github.com/pion/webrtc/v4/pkg/media/h265reader"
)

// C34 — Annex-B readers (h264reader / h265reader) through their public API.
// Op-line grammar: see lean/WebrtcVerif/Drv/C34.lean.

// c34GenNal mirrors Drv.C34.genNal: header bytes then LCG bytes biased towards 0/1/2/3, rewritten so that
// no 00 00 01 appears and the last byte is not 0.
func c34GenNal(l, seed int, hdr []byte) []byte {
	if l <= len(hdr) {
		return append([]byte{}, hdr[:l]...)
	}
	p1, p2 := byte(255), byte(255)
	if len(hdr) >= 1 {
		p1 = hdr[len(hdr)-1]
	}
	if len(hdr) >= 2 {
		p2 = hdr[len(hdr)-2]
	}
	out := append(make([]byte, 0, l), hdr...)
	s := uint64(seed) //nolint:gosec
	for n := l - len(hdr); n > 0; n-- {
		s = (s*1103515245 + 12345) % 2147483648
		sel := (s / 65536) % 16
		var v byte
		switch {
		case sel < 5:
			v = 0
		case sel < 8:
			v = 1
		case sel < 10:
			v = 2
		case sel < 11:
			v = 3
		default:
			v = byte((s / 256) % 256)
		}
		if v == 1 && p1 == 0 && p2 == 0 {
			v = 3
		}
		if n == 1 && v == 0 {
			v = 128
		}
		out = append(out, v)
		p2, p1 = p1, v
	}

	return out
}

func c34NalOfSpec(s string) ([]byte, bool) {
	switch {
	case strings.HasPrefix(s, "x"):
		return unhx(s[1:]), true
	case strings.HasPrefix(s, "g"):
		f := strings.Split(s[1:], ":")
		if len(f) != 3 {
			return nil, false
		}
		l, e1 := strconv.Atoi(f[0])
		sd, e2 := strconv.Atoi(f[1])
		if e1 != nil || e2 != nil {
			return nil, false
		}

		return c34GenNal(l, sd, unhx(f[2])), true
	}

	return nil, false
}

var errC34Stream = errors.New("scripted stream error")

type c34Ev struct {
	data []byte
	err  error
}

// c34Script is an io.Reader that replays a fixed list of Read results, then (0, io.EOF) forever.
type c34Script struct {
	evs []c34Ev
}

func (s *c34Script) Read(p []byte) (int, error) {
	if len(s.evs) == 0 {
		return 0, io.EOF
	}
	ev := &s.evs[0]
	n := copy(p, ev.data)
	if n < len(ev.data) { // caller's buffer is smaller than the scripted chunk: hand out the rest next time
		ev.data = ev.data[n:]

		return n, nil
	}
	err := ev.err
	s.evs = s.evs[1:]

	return n, err
}

type c34Item struct {
	kind byte
	k    int
}

func c34ParseSched(tok string) (rep bool, items []c34Item, ok bool) {
	if tok == "-" {
		return false, nil, true
	}
	f := strings.Split(tok, ":")
	if len(f) != 2 || (f[0] != "o" && f[0] != "r") {
		return false, nil, false
	}
	for _, it := range strings.Split(f[1], ",") {
		if it == "z" {
			items = append(items, c34Item{'z', 0})

			continue
		}
		if len(it) < 2 || !strings.ContainsRune("def", rune(it[0])) {
			return false, nil, false
		}
		k, err := strconv.Atoi(it[1:])
		if err != nil || k < 0 || (it[0] == 'd' && k == 0) {
			return false, nil, false
		}
		items = append(items, c34Item{it[0], k})
	}

	return f[0] == "r", items, true
}

// c34MkEvents mirrors Drv.C34.mkEvents.
func c34MkEvents(rep bool, items []c34Item, bs []byte) []c34Ev {
	evs := []c34Ev{}
	maxCycles := len(bs) + 1
	take := func(k int) []byte {
		k = min(k, 4096, len(bs))
		d := bs[:k]
		bs = bs[k:]

		return d
	}
	play := func() {
		for _, it := range items {
			switch it.kind {
			case 'd':
				if len(bs) > 0 {
					evs = append(evs, c34Ev{take(it.k), nil})
				}
			case 'z':
				evs = append(evs, c34Ev{nil, nil})
			case 'e':
				evs = append(evs, c34Ev{take(it.k), io.EOF})
			case 'f':
				evs = append(evs, c34Ev{take(it.k), errC34Stream})
			}
		}
	}
	play()
	if rep {
		for c := 0; c < maxCycles && len(bs) > 0; c++ {
			play()
		}
	}
	for len(bs) > 0 {
		evs = append(evs, c34Ev{take(4096), nil})
	}

	return evs
}

func c34Err(err error, notStream string) string {
	switch {
	case errors.Is(err, io.EOF):
		return "E eof"
	case err.Error() == notStream:
		return "E notstream"
	default:
		return "E other"
	}
}

func c34Hdr(d []byte) string {
	if len(d) > 2 {
		d = d[:2]
	}

	return hx(d)
}

func c34Run(codec string, sei bool, extra int, stream io.Reader) string {
	out := []string{}
	errs := 0
	switch codec {
	case "4":
		r, err := h264reader.NewReaderWithOptions(stream, h264reader.WithIncludeSEI(sei))
		if err != nil {
			return "new-failed"
		}
		for errs <= extra {
			nal, err := r.NextNAL()
			if err != nil {
				out = append(out, c34Err(err, "data is not a H264 bitstream"))
				errs++

				continue
			}
			out = append(out, fmt.Sprintf("N %s %s %d %d %s", c34Hdr(nal.Data), b2s(nal.ForbiddenZeroBit), nal.RefIdc,
				uint8(nal.UnitType), fnv64s(nal.Data)))
		}
	case "5":
		r, err := h265reader.NewReaderWithOptions(stream, h265reader.WithIncludeSEI(sei))
		if err != nil {
			return "new-failed"
		}
		for errs <= extra {
			nal, err := r.NextNAL()
			if err != nil {
				out = append(out, c34Err(err, "data is not a H265/HEVC bitstream"))
				errs++

				continue
			}
			out = append(out, fmt.Sprintf("N %s %s %d %d %d %s", c34Hdr(nal.Data), b2s(nal.ForbiddenZeroBit),
				uint8(nal.NalUnitType), nal.LayerID, nal.TemporalIDPlus1, fnv64s(nal.Data)))
		}
	default:
		return "bad-op"
	}

	return strings.Join(out, " ")
}

// ---- generators -------------------------------------------------------------------------------------

// c34WF is "no emulated start code, no trailing zero byte" (and non-empty).
func c34WF(n []byte) bool {
	if len(n) == 0 || n[len(n)-1] == 0 {
		return false
	}
	for i := 0; i+2 < len(n); i++ {
		if n[i] == 0 && n[i+1] == 0 && n[i+2] == 1 {
			return false
		}
	}

	return true
}

// c34Header picks header bytes: all unit types, SEI over-represented.
func c34Header(r *rand.Rand, codec string) []byte {
	if codec == "4" {
		t := r.Intn(32)
		if r.Intn(4) == 0 {
			t = 6
		}

		return []byte{byte(r.Intn(2)<<7 | r.Intn(4)<<5 | t)}
	}
	t := r.Intn(64)
	switch r.Intn(8) {
	case 0:
		t = 39
	case 1:
		t = 40
	}

	return []byte{byte(r.Intn(2)<<7 | t<<1 | r.Intn(2)), byte(r.Intn(32)<<3 | r.Intn(8))}
}

func c34Len(r *rand.Rand) int {
	switch r.Intn(12) {
	case 0:
		return 1
	case 1:
		return 2 + r.Intn(3)
	case 2:
		return 4090 + r.Intn(12) // around the 4096-byte read buffer
	case 3:
		return 1 + r.Intn(10240)
	case 4:
		return []int{10240, 10239, 8192, 4096, 4095, 4097}[r.Intn(6)]
	default:
		return 1 + r.Intn(200)
	}
}

// c34ShortNal is a literal unit of biased bytes (0/1/2/3 heavy), made well formed by rejection.
func c34ShortNal(r *rand.Rand, codec string, l int) []byte {
	for {
		n := make([]byte, l)
		for i := range n {
			switch r.Intn(8) {
			case 0, 1, 2:
				n[i] = 0
			case 3, 4:
				n[i] = 1
			case 5:
				n[i] = byte(2 + r.Intn(2))
			default:
				n[i] = byte(r.Intn(256))
			}
		}
		if r.Intn(2) == 0 {
			copy(n, c34Header(r, codec))
		}
		if c34WF(n) {
			return n
		}
	}
}

func c34CleanSched(r *rand.Rand) string {
	switch r.Intn(8) {
	case 0:
		return "-"
	case 1:
		return fmt.Sprintf("r:d%d", 1+r.Intn(5))
	case 2:
		return fmt.Sprintf("r:d%d", 1+r.Intn(5000))
	}
	n := 1 + r.Intn(6)
	its := make([]string, n)
	for i := range its {
		switch r.Intn(4) {
		case 0:
			its[i] = fmt.Sprintf("d%d", 1+r.Intn(4))
		case 1:
			its[i] = fmt.Sprintf("d%d", 1+r.Intn(40))
		default:
			its[i] = fmt.Sprintf("d%d", 1+r.Intn(5000))
		}
	}
	m := "r"
	if r.Intn(4) == 0 {
		m = "o"
	}

	return m + ":" + strings.Join(its, ",")
}

func c34DirtySched(r *rand.Rand) string {
	n := 1 + r.Intn(6)
	its := make([]string, n)
	for i := range its {
		switch r.Intn(6) {
		case 0:
			its[i] = "z"
		case 1:
			its[i] = fmt.Sprintf("e%d", r.Intn(8))
		case 2:
			its[i] = fmt.Sprintf("f%d", r.Intn(8))
		default:
			its[i] = fmt.Sprintf("d%d", 1+r.Intn(9))
		}
	}
	m := "o"
	if r.Intn(3) == 0 {
		m = "r"
	}

	return m + ":" + strings.Join(its, ",")
}

func c34Gen(c *Ctx) {
	r := c.Rng
	codecs := []string{"4", "5"}
	// (1) well-formed unit sequences, clean chunking: the property's own quantifier
	for i := 0; i < c.N(3000, 60000); i++ {
		codec := codecs[r.Intn(2)]
		n := 1 + r.Intn(8)
		if r.Intn(6) == 0 {
			n = 1 + r.Intn(2)
		}
		sb := strings.Builder{}
		fmt.Fprintf(&sb, "nals %s %d %d %s %d", codec, r.Intn(2), r.Intn(2), c34CleanSched(r), n)
		big := 0
		for k := 0; k < n; k++ {
			l := c34Len(r)
			if l > 1000 {
				if big >= 2 {
					l = 1 + r.Intn(200)
				}
				big++
			}
			if l <= 48 && r.Intn(3) > 0 {
				fmt.Fprintf(&sb, " %d x%s", 3+r.Intn(2), hx(c34ShortNal(r, codec, l)))

				continue
			}
			hdr := c34Header(r, codec)
			if r.Intn(10) == 0 {
				hdr = hdr[:1]
			}
			if len(hdr) >= l { // generated body must exist and the unit must stay well formed
				hdr = hdr[:l]
				if hdr[l-1] == 0 {
					hdr[l-1] = 0x80
				}
			}
			fmt.Fprintf(&sb, " %d g%d:%d:%s", 3+r.Intn(2), l, r.Intn(1<<30), hx(hdr))
		}
		c.Emit("%s", sb.String())
	}
	// (2) malformed: units that break the hypothesis (empty, trailing zeros, emulated start codes), or
	// well-formed units behind a stream that returns (0, nil), data+EOF, or errors
	for i := 0; i < c.N(1500, 30000); i++ {
		codec := codecs[r.Intn(2)]
		n := r.Intn(6)
		sb := strings.Builder{}
		sched := c34CleanSched(r)
		if r.Intn(2) == 0 {
			sched = c34DirtySched(r)
		}
		fmt.Fprintf(&sb, "nals %s %d %d %s %d", codec, r.Intn(2), r.Intn(4), sched, n)
		for k := 0; k < n; k++ {
			l := r.Intn(12)
			nal := make([]byte, l)
			for j := range nal {
				nal[j] = []byte{0, 0, 0, 1, 1, 2, 3, 6, 0x4e, 0x50, 0x65, 0xff}[r.Intn(12)]
			}
			if l > 0 && r.Intn(3) == 0 {
				copy(nal, c34Header(r, codec))
			}
			fmt.Fprintf(&sb, " %d x%s", 3+r.Intn(2), hx(nal))
		}
		c.Emit("%s", sb.String())
	}
	// (3) raw byte streams: every string over a small alphabet up to a length bound, then random ones
	alpha := map[string][]byte{"4": {0, 1, 6, 0x65}, "5": {0, 1, 0x4e, 0x42}}
	maxLen := c.N(5, 7)
	for _, codec := range codecs {
		for sei := 0; sei < 2; sei++ {
			for l := 0; l <= maxLen; l++ {
				total := 1
				for k := 0; k < l; k++ {
					total *= 4
				}
				for v := 0; v < total; v++ {
					s := make([]byte, l)
					x := v
					for k := range s {
						s[k] = alpha[codec][x%4]
						x /= 4
					}
					c.Emit("raw %s %d 1 - %s", codec, sei, hx(s))
					c.Emit("raw %s %d 1 - %s", codec, sei, hx(append([]byte{0, 0, 1}, s...)))
					c.Emit("raw %s %d 1 - %s", codec, sei, hx(append([]byte{0, 0, 0, 1}, s...)))
				}
			}
		}
	}
	for i := 0; i < c.N(2000, 40000); i++ {
		codec := codecs[r.Intn(2)]
		l := r.Intn(40)
		if r.Intn(10) == 0 {
			l = r.Intn(9000)
		}
		s := make([]byte, l)
		for j := range s {
			switch r.Intn(8) {
			case 0, 1, 2, 3:
				s[j] = 0
			case 4, 5:
				s[j] = 1
			case 6:
				s[j] = []byte{6, 0x4e, 0x50, 0x26}[r.Intn(4)]
			default:
				s[j] = byte(r.Intn(256))
			}
		}
		if r.Intn(2) == 0 && l >= 4 {
			copy(s, []byte{0, 0, 0, 1})
		}
		sched := c34CleanSched(r)
		if r.Intn(2) == 0 {
			sched = c34DirtySched(r)
		}
		c.Emit("raw %s %d %d %s %s", codec, r.Intn(2), r.Intn(4), sched, hx(s))
	}
}

func c34Exec(a []string) string {
	if len(a) < 6 {
		return "bad-op"
	}
	extra, e1 := strconv.Atoi(a[3])
	rep, items, ok := c34ParseSched(a[4])
	if e1 != nil || !ok || (a[1] != "4" && a[1] != "5") || (a[2] != "0" && a[2] != "1") {
		return "bad-op"
	}
	var stream []byte
	switch a[0] {
	case "raw":
		if len(a) != 6 {
			return "bad-op"
		}
		stream = unhx(a[5])
	case "nals":
		n, err := strconv.Atoi(a[5])
		if err != nil || len(a) != 6+2*n {
			return "bad-op"
		}
		for k := 0; k < n; k++ {
			nal, ok := c34NalOfSpec(a[7+2*k])
			if !ok {
				return "bad-op"
			}
			switch a[6+2*k] {
			case "3":
				stream = append(stream, 0, 0, 1)
			case "4":
				stream = append(stream, 0, 0, 0, 1)
			default:
				return "bad-op"
			}
			stream = append(stream, nal...)
		}
	default:
		return "bad-op"
	}

	return c34Run(a[1], a[2] == "1", extra, &c34Script{evs: c34MkEvents(rep, items, stream)})
}

func init() {
	registry["C34"] = &Prop{
		Workers: 16,
		Rule: "nals/well-formed: 1..8 NAL units (H.264 or H.265, every unit type, SEI over-represented and at any " +
			"position incl. last/only, lengths 1..10240 with clusters at 1, 2..4 and around the 4096-byte read buffer; " +
			"bytes biased towards 00/01/02/03 but free of 00 00 01 and of a trailing 00), each behind a 3- or 4-byte " +
			"start code, delivered by a scripted io.Reader in chunks of 1..5000 bytes (fixed, cyclic or one-off " +
			"patterns), SEI inclusion on/off. nals/malformed: units that are empty, end in 00 or contain start codes, " +
			"and/or a stream that returns (0,nil), data together with io.EOF, or another error. raw: every string of " +
			"length 0..5 (thorough 0..7) over {00,01,SEI,slice} per codec and SEI flag, bare and behind a 3- and a " +
			"4-byte start code (complete for that alphabet and length), plus random 0/1-heavy byte strings up to " +
			"9000 bytes with clean or faulty chunking. Non-trivial: distinct op lines on which NextNAL " +
			"returned at least one unit.",
		Gen:  c34Gen,
		Exec: c34Exec,
		Class: func(a []string, out string) string {
			kind := a[0]
			if a[0] == "nals" {
				rep, items, _ := c34ParseSched(a[4])
				_ = rep
				clean := true
				for _, it := range items {
					if it.kind != 'd' {
						clean = false
					}
				}
				wf := true
				n, _ := strconv.Atoi(a[5])
				lastSEI := false
				for k := 0; k < n && 7+2*k < len(a); k++ {
					nal, _ := c34NalOfSpec(a[7+2*k])
					if !c34WF(nal) {
						wf = false

						break
					}
					if a[1] == "4" {
						lastSEI = nal[0]&0x1f == 6
					} else {
						lastSEI = (nal[0]>>1)&0x3f == 39 || (nal[0]>>1)&0x3f == 40
					}
				}
				switch {
				case wf && clean && lastSEI:
					kind = "nals wf last=SEI"
				case wf && clean:
					kind = "nals wf"
				case wf:
					kind = "nals wf dirty-stream"
				default:
					kind = "nals malformed"
				}
			}

			return fmt.Sprintf("%s h26%s sei=%s", kind, a[1], a[2])
		},
		Trivial: func(_ []string, out string) bool { return !strings.Contains(out, "N ") },
	}
}
