package main

import (
	"errors"
	"fmt"
	"io"
	"math/rand"
	"strconv"
	"strings"

	"github.com/pion/interceptor"
	"github.com/pion/webrtc/v4"
)

// C26 — RTX unwrapping (rtpreceiver.go maybeStartRepairStreamReader / readRTX, track_remote.go read).
//
//	one <mtu> <pt> <ssrc> <start> <carried> <readLen> <n> <image>
//	seq <mtu> <pt> <ssrc> <start> { f <carried> <n> <image> | r <readLen> | p <pkthex> | s <ssrc> | c }*
//
// See lean/WebrtcVerif/Drv/C26.lean for the token meanings and the output format.

const c26RtxSSRC = 2222

// c26Image builds the buffer image from its `+`-joined segments, cut to mtu.
func c26Image(spec string, mtu int) ([]byte, bool) {
	out := []byte{}
	for _, seg := range strings.Split(spec, "+") {
		pl, ok := payloadOfSpec(seg)
		if !ok {
			return nil, false
		}
		out = append(out, pl...)
	}
	if len(out) > mtu {
		out = out[:mtu]
	}

	return out, true
}

func c26ShowRead(pkt []byte, attrs interceptor.Attributes, err error) string {
	if errors.Is(err, webrtc.ErrVerifNoPrimary) {
		return "none"
	}
	if errors.Is(err, io.EOF) {
		return "eof"
	}
	head := pkt
	if len(head) > 96 {
		head = head[:96]
	}
	if attrs.Get(webrtc.AttributeRtxPayloadType) == nil { // not unwrapped by the repair reader: a primary packet
		kind := "pri"
		switch {
		case errors.Is(err, webrtc.ErrCodecNotFound):
			kind = "pri-unknown-codec"
		case errors.Is(err, webrtc.ErrVerifRTPTooShort):
			kind = "pri-too-short"
		case err != nil:
			return "error " + hx([]byte(err.Error()))
		}

		return fmt.Sprintf("%s %s %s", kind, fnv64s(pkt), hx(head))
	}
	if err != nil {
		return "error " + hx([]byte(err.Error()))
	}
	get := func(key any) string {
		switch v := attrs.Get(key).(type) {
		case uint8:
			return strconv.Itoa(int(v))
		case uint16:
			return strconv.Itoa(int(v))
		case uint32:
			return strconv.FormatUint(uint64(v), 10)
		}

		return "?"
	}

	return fmt.Sprintf("rtx %s %s %s %s %s %s", fnv64s(pkt), hx(head), b2s(attrs.Get(webrtc.VerifRTXAttrKey) != nil),
		get(webrtc.AttributeRtxPayloadType), get(webrtc.AttributeRtxSequenceNumber), get(webrtc.AttributeRtxSsrc))
}

func c26Exec(a []string) string { //nolint:cyclop
	if len(a) < 5 {
		return "bad-op"
	}
	mtu, e1 := strconv.Atoi(a[1])
	pt, e2 := strconv.Atoi(a[2])
	ssrc, e3 := strconv.ParseUint(a[3], 10, 32)
	if e1 != nil || e2 != nil || e3 != nil || mtu < 76 || mtu > 65535 || pt < 0 || pt > 255 || (a[4] != "0" && a[4] != "1") {
		return "bad-op"
	}
	rest := a[5:]
	if a[0] == "one" {
		if len(rest) != 4 {
			return "bad-op"
		}
		rest = []string{"f", rest[0], rest[2], rest[3], "r", rest[1]}
	} else if a[0] != "seq" {
		return "bad-op"
	}
	type step struct {
		kind    byte // f r p s c
		carried bool
		n       int
		img     []byte
		ssrc    uint32
	}
	steps := []step{}
	primaries := 0
	for i := 0; i < len(rest); {
		switch {
		case rest[i] == "f" && i+3 < len(rest):
			n, err := strconv.Atoi(rest[i+2])
			img, ok := c26Image(rest[i+3], mtu)
			if err != nil || !ok || n < 0 || n > mtu || (rest[i+1] != "0" && rest[i+1] != "1") {
				return "bad-op"
			}
			steps = append(steps, step{kind: 'f', carried: rest[i+1] == "1", n: n, img: img})
			i += 4
		case rest[i] == "c":
			steps = append(steps, step{kind: 'c'})
			i++
			for j := i; j < len(rest); j++ {
				if rest[j] == "f" {
					return "bad-op" // the reader may be gone: no repair reads may follow
				}
			}
		case rest[i] == "r" && i+1 < len(rest):
			n, err := strconv.Atoi(rest[i+1])
			if err != nil || n < 0 {
				return "bad-op"
			}
			steps = append(steps, step{kind: 'r', n: n})
			i += 2
		case rest[i] == "p" && i+1 < len(rest):
			primaries++
			if primaries > 1000 {
				return "bad-op"
			}
			steps = append(steps, step{kind: 'p', img: unhx(rest[i+1])})
			i += 2
		case rest[i] == "s" && i+1 < len(rest):
			v, err := strconv.ParseUint(rest[i+1], 10, 32)
			if err != nil {
				return "bad-op"
			}
			steps = append(steps, step{kind: 's', ssrc: uint32(v)})
			i += 2
		default:
			return "bad-op"
		}
	}
	v, err := webrtc.NewVerifRTX(uint(mtu), webrtc.PayloadType(pt), webrtc.SSRC(ssrc), c26RtxSSRC, a[4] == "1") //nolint:gosec
	if err != nil {
		return "error " + hx([]byte(err.Error()))
	}
	defer v.Close() //nolint:errcheck
	if v.PoolBufferLen() != mtu {
		return "error " + hx([]byte("pool buffer length"))
	}
	outs := []string{}
	for _, s := range steps {
		switch s.kind {
		case 'f':
			v.Feed(s.img, s.n, s.carried)
		case 'c':
			if err := v.Stop(); err != nil {
				return "error " + hx([]byte(err.Error()))
			}
		case 'p':
			v.Primary(s.img)
		case 's':
			if err := v.Rebind(webrtc.SSRC(s.ssrc)); err != nil && !errors.Is(err, io.EOF) {
				return "error " + hx([]byte(err.Error()))
			}
		default:
			outs = append(outs, c26ShowRead(v.Read(s.n)))
		}
	}
	if a[0] == "one" {
		return strings.Join(outs, " ")
	}

	return "seq " + strings.Join(outs, " | ")
}

// c26Pkt describes an RTP packet to be laid out by hand (so that every length field can lie).
type c26Pkt struct {
	version, cc int
	marker      bool
	pt          int
	seq         int
	ts, ssrc    uint32
	hasExt      bool
	extProfile  int
	extWords    int // words actually present
	extClaim    int // length field written (== extWords when honest)
	payloadLen  int // incl. the two OSN bytes when ≥ 2
	osn         int
	hasPad      bool
	padLen      int // bytes actually present (incl. count byte)
	padClaim    int // count byte written (== padLen when honest)
	payloadSeed int
	extSeed     int
}

func (p *c26Pkt) length() int {
	n := 12 + 4*p.cc + p.payloadLen
	if p.hasExt {
		n += 4 + 4*p.extWords
	}
	if p.hasPad {
		n += p.padLen
	}

	return n
}

// spec renders the packet as image segments (literal header, generated bulk) and returns its length.
func (p *c26Pkt) spec(r *rand.Rand) string {
	b0 := byte(p.version<<6 | p.cc) //nolint:gosec
	if p.hasPad {
		b0 |= 0x20
	}
	if p.hasExt {
		b0 |= 0x10
	}
	b1 := byte(p.pt) //nolint:gosec
	if p.marker {
		b1 |= 0x80
	}
	hdr := []byte{
		b0, b1, byte(p.seq >> 8), byte(p.seq), byte(p.ts >> 24), byte(p.ts >> 16), byte(p.ts >> 8), byte(p.ts), //nolint:gosec
		byte(p.ssrc >> 24), byte(p.ssrc >> 16), byte(p.ssrc >> 8), byte(p.ssrc),
	}
	for i := 0; i < p.cc; i++ {
		c := r.Uint32()
		hdr = append(hdr, byte(c>>24), byte(c>>16), byte(c>>8), byte(c))
	}
	segs := []string{}
	if p.hasExt {
		hdr = append(hdr, byte(p.extProfile>>8), byte(p.extProfile), byte(p.extClaim>>8), byte(p.extClaim)) //nolint:gosec
		segs = append(segs, "x"+hx(hdr))
		if p.extWords > 0 {
			segs = append(segs, fmt.Sprintf("g%d:%d", 4*p.extWords, p.extSeed))
		}
	} else {
		segs = append(segs, "x"+hx(hdr))
	}
	switch {
	case p.payloadLen >= 2:
		segs = append(segs, fmt.Sprintf("x%02x%02x", p.osn>>8&0xff, p.osn&0xff))
		if p.payloadLen > 2 {
			segs = append(segs, fmt.Sprintf("g%d:%d", p.payloadLen-2, p.payloadSeed))
		}
	case p.payloadLen == 1:
		segs = append(segs, fmt.Sprintf("x%02x", p.osn&0xff))
	}
	if p.hasPad && p.padLen > 0 {
		pad := make([]byte, p.padLen)
		if r.Intn(3) == 0 {
			r.Read(pad)
		}
		pad[p.padLen-1] = byte(p.padClaim) //nolint:gosec
		segs = append(segs, "x"+hx(pad))
	}

	return strings.Join(segs, "+")
}

func c26Pick(r *rand.Rand, xs ...int) int { return xs[r.Intn(len(xs))] }

// c26Valid draws a well-formed retransmission packet that fits into mtu bytes.
func c26Valid(r *rand.Rand, mtu int) *c26Pkt {
	pkt := &c26Pkt{
		version: 2, marker: r.Intn(2) == 0, pt: r.Intn(128), seq: r.Intn(65536),
		ts: r.Uint32(), ssrc: r.Uint32(), osn: r.Intn(65536),
		payloadSeed: r.Intn(256), extSeed: r.Intn(256),
	}
	if r.Intn(12) == 0 {
		pkt.version = r.Intn(4)
	}
	switch r.Intn(4) {
	case 0:
		pkt.cc = 0
	case 1:
		pkt.cc = c26Pick(r, 1, 2, 14, 15)
	default:
		pkt.cc = r.Intn(16)
	}
	if r.Intn(8) == 0 {
		pkt.seq = c26Pick(r, 0, 1, 255, 256, 65535)
	}
	if r.Intn(8) == 0 {
		pkt.osn = c26Pick(r, 0, 1, 255, 256, 65535)
	}
	if r.Intn(10) == 0 {
		pkt.ts = []uint32{0, 1, 0x7fffffff, 0x80000000, 0xffffffff}[r.Intn(5)]
	}
	if r.Intn(10) == 0 {
		pkt.ssrc = []uint32{0, 1, 0xffffffff}[r.Intn(3)]
	}
	room := mtu - 12 - 4*pkt.cc
	if r.Intn(5) < 3 && room >= 4 {
		pkt.hasExt = true
		pkt.extProfile = c26Pick(r, 0xBEDE, 0xBEDE, 0x1000, 0x100F, 0, 0xFFFF, r.Intn(65536))
		maxW := (room - 4) / 4
		w := c26Pick(r, 0, 1, 2, 3, 4, 5, 6, 7, 8, r.Intn(65))
		if r.Intn(25) == 0 {
			w = r.Intn(maxW + 1)
		}
		if w > maxW {
			w = maxW
		}
		pkt.extWords, pkt.extClaim = w, w
		room -= 4 + 4*w
	}
	if r.Intn(5) < 2 && room >= 1 {
		pkt.hasPad = true
		pl := c26Pick(r, 1, 1, 2, 3, 4, 8, 32, 254, 255, 1+r.Intn(255))
		if pl > room {
			pl = 1 + r.Intn(room)
		}
		pkt.padLen, pkt.padClaim = pl, pl
		room -= pl
	}
	switch r.Intn(10) {
	case 0:
		pkt.payloadLen = c26Pick(r, 0, 1) // too short to carry an OSN (e.g. a bandwidth probe)
	case 1:
		pkt.payloadLen = c26Pick(r, 2, 3, 4)
	case 2:
		pkt.payloadLen = room - r.Intn(3) // up to the MTU
	case 3, 4:
		pkt.payloadLen = r.Intn(room + 1)
	default:
		pkt.payloadLen = 2 + r.Intn(200)
	}
	if pkt.payloadLen > room {
		pkt.payloadLen = room
	}
	if pkt.payloadLen < 0 {
		pkt.payloadLen = 0
	}

	return pkt
}

// c26Primary draws a well-formed packet of the primary stream with payload type pt (hex).
func c26Primary(r *rand.Rand, pt int) string {
	pkt := c26Valid(r, 76)
	pkt.pt = pt
	img, _ := c26Image(pkt.spec(r), 76)
	if r.Intn(30) == 0 {
		img = img[:r.Intn(3)] // a runt: checkAndUpdateTrack sees a zero second byte
	}

	return hx(img)
}

// c26PrimaryPT picks payload types a primary stream may switch between: 0, the usual dynamic ones, values
// the hook's MediaEngine has no codec for (7, 127), anything.
func c26PrimaryPT(r *rand.Rand) int {
	return c26Pick(r, 0, 0, 96, 96, 98, 98, 100, 111, 35, 7, 127, r.Intn(128))
}

func c26Mtu(r *rand.Rand) int {
	switch r.Intn(10) {
	case 0:
		return 76 + r.Intn(125)
	case 1:
		return c26Pick(r, 576, 1200, 1460, 9000)
	default:
		return 1500
	}
}

// c26Tail appends what a previous use of the pooled buffer left behind the packet.
func c26Tail(r *rand.Rand, spec string, used, mtu int) string {
	if used >= mtu || r.Intn(3) == 0 {
		return spec
	}
	if r.Intn(4) == 0 { // a tail that looks like a huge extension length / padding count
		return spec + "+x" + strings.Repeat(c26PickS(r, "ff", "3f", "40", "a0"), 1+r.Intn(min(40, mtu-used)))
	}

	return spec + fmt.Sprintf("+g%d:%d", mtu-used, r.Intn(256))
}

func c26PickS(r *rand.Rand, xs ...string) string { return xs[r.Intn(len(xs))] }

func c26Cfg(r *rand.Rand, mtu int) string {
	pt := r.Intn(128)
	if r.Intn(40) == 0 {
		pt = 128 + r.Intn(128) // not a payload type: the judge leaves these unconstrained
	}
	ssrc := r.Uint32()
	if r.Intn(10) == 0 {
		ssrc = []uint32{0, 1, 0x80000000, 0xffffffff}[r.Intn(4)]
	}

	return fmt.Sprintf("%d %d %d %d", mtu, pt, ssrc, r.Intn(2))
}

func c26ReadLen(r *rand.Rand, mtu, n int) int {
	if r.Intn(8) != 0 {
		return mtu
	}
	if n < 1 {
		n = 1
	}

	return max(0, c26Pick(r, 0, 1, 2, 11, 12, 13, r.Intn(n), n-2, n-1, n))
}

// c26Malformed draws (image, n) pairs that are not well-formed retransmission packets.
func c26Malformed(r *rand.Rand, mtu int) (string, int) { //nolint:cyclop
	pkt := c26Valid(r, mtu)
	kind := r.Intn(9)
	switch kind {
	case 0: // extension length lies (a little, a lot, or so much that 16-bit arithmetic would wrap)
		pkt.hasExt = true
		if pkt.length() > mtu {
			pkt.payloadLen = max(0, pkt.payloadLen-4-(pkt.length()-mtu))
		}
		pkt.extClaim = c26Pick(r, pkt.extWords+1, pkt.extWords+2, max(0, pkt.extWords-1), 0x3FFF, 0x4000, 0x3FFE,
			0x3FFF-pkt.cc-3, 0x3FFF-pkt.cc-4, 0x7FFF, 0xBFFF, 0xFFFF, 0xFFFE, 0x3FFF+r.Intn(300), r.Intn(65536),
			pkt.extWords+(pkt.payloadLen+3)/4, pkt.extWords+pkt.payloadLen/4)
	case 1: // padding count lies
		pkt.hasPad = true
		if pkt.padLen == 0 {
			pkt.padLen = 1
		}
		if pkt.length() > mtu {
			pkt.payloadLen = max(0, pkt.payloadLen-(pkt.length()-mtu))
		}
		pkt.padClaim = c26Pick(r, 0, pkt.padLen+1, pkt.padLen+pkt.payloadLen, pkt.padLen+pkt.payloadLen-1,
			pkt.padLen+pkt.payloadLen-2, pkt.padLen+pkt.payloadLen-3, 255, r.Intn(256)) & 0xff
		if pkt.padClaim < 0 {
			pkt.padClaim = 0
		}
	case 2: // both
		pkt.hasExt, pkt.hasPad = true, true
		if pkt.padLen == 0 {
			pkt.padLen = 1
		}
		for pkt.length() > mtu && pkt.payloadLen > 0 {
			pkt.payloadLen--
		}
		pkt.extClaim = c26Pick(r, pkt.extWords+1, 0x3FFF, 0xFFFF, r.Intn(65536))
		pkt.padClaim = r.Intn(256)
	}
	if pkt.length() > mtu { // give up lying when it does not fit any more
		pkt = c26Valid(r, mtu)
		kind = 3
	}
	spec := pkt.spec(r)
	n := pkt.length()
	switch kind {
	case 3: // cut short (the rest of the packet stays behind n, like stale pool contents)
		hl := 12 + 4*pkt.cc
		n = c26Pick(r, 0, 1, 11, 12, 13, hl-1, hl, hl+1, hl+2, hl+3, hl+4, hl+5, n-1, n-2, n-3, r.Intn(n+1))
	case 4: // longer than the packet: stale bytes become payload / padding count
		n = min(mtu, n+1+r.Intn(8))
	case 5: // random bytes
		l := r.Intn(min(mtu, 200) + 1)
		buf := make([]byte, l)
		r.Read(buf)
		spec, n = "x"+hx(buf), l
		if r.Intn(3) == 0 {
			n = r.Intn(l + 1)
		}
	case 6: // empty / tiny reads over a buffer whose first byte has the padding and extension bits set
		spec = "x" + c26PickS(r, "a0", "b0", "bf", "20", "30") + fmt.Sprintf("+g%d:%d", r.Intn(40), r.Intn(256))
		n = c26Pick(r, 0, 0, 1, 2, 11, 12)
	case 7: // first byte flipped
		raw, _ := c26Image(spec, mtu)
		if len(raw) > 0 && len(raw) <= 300 {
			raw[0] ^= byte(1 << r.Intn(8))
			spec = "x" + hx(raw)
		}
	}
	if n < 0 {
		n = 0
	}
	if n > mtu {
		n = mtu
	}

	return c26Tail(r, spec, pkt.length(), mtu), n
}

func init() { //nolint:gocognit,cyclop
	registry["C26"] = &Prop{
		Workers: 16,
		Rule: "one: a pooled repair buffer (receive MTU 1500, 76..200, 576/1200/1460/9000) is filled by a fake repair " +
			"interceptor with a generated image and length n, then TrackRemote.Read is called on a real RTPReceiver/TrackRemote " +
			"(reader goroutine started by receiveForRtx or by the first Read). " +
			"(a) systematic grid: CSRC count 0..15 × extension {none, 0, 1, 3 words} × padding {none, 1, 2, 5} × payload " +
			"0..4 bytes; (b) ~70% well-formed RTX packets: CSRC 0..15, extension profiles {0xBEDE, 0x1000, 0x100F, 0, 0xFFFF, " +
			"random} with 0..8 / ≤64 / up-to-MTU words, padding 1..255, payload 0..MTU (incl. 0 and 1 = no OSN), marker, " +
			"boundary seq/OSN/timestamp/SSRC values, version 0..3, stale bytes behind the packet; (c) ~30% malformed: " +
			"lying extension lengths (±1, 0x3FFF.., 0x7FFF, 0xFFFF: the 16-bit wrap cases), lying padding counts, " +
			"truncations at every header boundary, n beyond the packet, n = 0..12 over stale P/X bits, random bytes, " +
			"flipped first byte; read buffers mostly MTU, sometimes 0..n; primary payload type 0..127 (rarely ≥ 128, " +
			"unconstrained), primary SSRC incl. 0 and 2^32-1. seq: exactly 48..52 deliverable packets waiting then all " +
			"read back; histories in which the primary stream delivers packets with changing payload types (0, 96, 98, 100, " +
			"111, 35, unknown codecs 7/127, random; runts) through the real checkAndUpdateTrack and is re-bound with " +
			"a new SSRC (receiveForRid) between retransmissions, initial payload type 0 in a third of them, repair reads and " +
			"track reads interleaved; random histories of up to 120 feeds, reads, primary packets, rebinds incl. more " +
			"than 50 waiting packets and RTPReceiver.Stop before the last reads. Non-trivial: distinct op lines except single reads of n < 12 and " +
			"histories without a read.",
		Gen: func(c *Ctx) {
			r := c.Rng
			// (a) systematic grid
			for cc := 0; cc <= 15; cc++ {
				for _, ew := range []int{-1, 0, 1, 3} {
					for _, pd := range []int{0, 1, 2, 5} {
						for pl := 0; pl <= 4; pl++ {
							pkt := c26Valid(r, 1500)
							pkt.cc, pkt.hasExt, pkt.extWords, pkt.extClaim = cc, ew >= 0, max(ew, 0), max(ew, 0)
							pkt.hasPad, pkt.padLen, pkt.padClaim, pkt.payloadLen = pd > 0, pd, pd, pl
							mtu := 1500
							if r.Intn(4) == 0 {
								mtu = max(76, pkt.length()+r.Intn(3))
							}
							c.Emit("one %s %d %d %d %s", c26Cfg(r, mtu), r.Intn(2), mtu, pkt.length(),
								c26Tail(r, pkt.spec(r), pkt.length(), mtu))
						}
					}
				}
			}
			// (b) + (c) random singles
			for i := 0; i < c.N(6000, 250000); i++ {
				mtu := c26Mtu(r)
				var spec string
				var n int
				if r.Intn(10) < 7 {
					pkt := c26Valid(r, mtu)
					n = pkt.length()
					spec = c26Tail(r, pkt.spec(r), n, mtu)
				} else {
					spec, n = c26Malformed(r, mtu)
				}
				c.Emit("one %s %d %d %d %s", c26Cfg(r, mtu), r.Intn(2), c26ReadLen(r, mtu, n-2), n, spec)
			}
			// channel boundary: exactly 48..52 deliverable packets waiting, then everything read back
			for _, cnt := range []int{48, 49, 50, 51, 52} {
				for rep := 0; rep < c.N(1, 6); rep++ {
					mtu := c26Mtu(r)
					sb := strings.Builder{}
					fmt.Fprintf(&sb, "seq %s", c26Cfg(r, mtu))
					for k := 0; k < cnt; k++ {
						pkt := c26Valid(r, 76)
						if pkt.payloadLen < 2 {
							pkt.payloadLen = 2
						}
						for pkt.length() > mtu {
							pkt = c26Valid(r, 76)
						}
						fmt.Fprintf(&sb, " f %d %d %s", r.Intn(2), pkt.length(), pkt.spec(r))
					}
					for k := 0; k < cnt+1; k++ {
						fmt.Fprintf(&sb, " r %d", mtu)
					}
					c.Emit("%s", sb.String())
				}
			}
			// the primary stream changes its payload type (and SSRC) between retransmissions; reads and repair
			// reads interleaved arbitrarily (feed k, read j)
			for i := 0; i < c.N(400, 8000); i++ {
				mtu := c26Mtu(r)
				sb := strings.Builder{}
				cfg := c26Cfg(r, mtu)
				if r.Intn(3) == 0 { // the track has not seen a primary packet yet: payload type 0
					f := strings.Fields(cfg)
					f[1] = "0"
					cfg = strings.Join(f, " ")
				}
				fmt.Fprintf(&sb, "seq %s", cfg)
				waiting := 0
				for round := 1 + r.Intn(5); round > 0; round-- {
					if r.Intn(6) != 0 {
						for ; waiting > 0; waiting-- { // drain, so that the next read reaches the primary stream
							fmt.Fprintf(&sb, " r %d", mtu)
						}
						fmt.Fprintf(&sb, " p %s r %d", c26Primary(r, c26PrimaryPT(r)), c26Pick(r, mtu, mtu, mtu, 1, 2, 12))
					}
					if r.Intn(5) == 0 {
						fmt.Fprintf(&sb, " s %d", r.Uint32())
					}
					for k := r.Intn(4); k > 0; k-- {
						pkt := c26Valid(r, min(mtu, 120)-2)
						if pkt.payloadLen < 2 && r.Intn(4) != 0 {
							pkt.payloadLen = 2
						}
						fmt.Fprintf(&sb, " f %d %d %s", r.Intn(2), pkt.length(), pkt.spec(r))
						waiting++
						if r.Intn(3) == 0 {
							fmt.Fprintf(&sb, " r %d", mtu)
							waiting = max(0, waiting-1)
						}
					}
				}
				for k := waiting + r.Intn(2); k > 0; k-- {
					fmt.Fprintf(&sb, " r %d", mtu)
				}
				c.Emit("%s", sb.String())
			}
			// histories
			for i := 0; i < c.N(250, 6000); i++ {
				mtu := c26Mtu(r)
				sb := strings.Builder{}
				fmt.Fprintf(&sb, "seq %s", c26Cfg(r, mtu))
				steps := 1 + r.Intn(24)
				burst := r.Intn(12) == 0 // overflow the channel
				if burst {
					steps = 60 + r.Intn(60)
				}
				for k := 0; k < steps; k++ {
					feed := r.Intn(5) < 3
					if burst {
						feed = k < 49+r.Intn(8) || r.Intn(4) == 0
					}
					if !burst && r.Intn(8) == 0 {
						fmt.Fprintf(&sb, " p %s", c26Primary(r, c26PrimaryPT(r)))

						continue
					}
					if !burst && r.Intn(25) == 0 {
						fmt.Fprintf(&sb, " s %d", r.Uint32())

						continue
					}
					if !feed {
						fmt.Fprintf(&sb, " r %d", c26ReadLen(r, mtu, 40))

						continue
					}
					var spec string
					var n int
					if r.Intn(10) < 8 {
						pkt := c26Valid(r, min(mtu, 160))
						n = pkt.length()
						spec = pkt.spec(r)
					} else {
						spec, n = c26Malformed(r, min(mtu, 160))
					}
					fmt.Fprintf(&sb, " f %d %d %s", r.Intn(2), n, spec)
				}
				if r.Intn(5) == 0 {
					sb.WriteString(" c") // RTPReceiver.Stop: reads now end with io.EOF whatever is waiting
				}
				for k := r.Intn(4); k > 0; k-- {
					fmt.Fprintf(&sb, " r %d", mtu)
				}
				c.Emit("%s", sb.String())
			}
		},
		Exec: c26Exec,
		Class: func(a []string, out string) string {
			if a[0] == "seq" {
				if strings.Contains(out, "pri") {
					return "seq with primary reads"
				}

				return "seq"
			}
			if len(a) < 9 {
				return ""
			}
			res := "dropped"
			if strings.HasPrefix(out, "rtx") {
				res = "delivered"
			} else if !strings.HasPrefix(out, "none") {
				res = strings.Fields(out + " ?")[0]
			}
			n, _ := strconv.Atoi(a[7])
			if n < 12 {
				return "one n<12 " + res
			}
			img, _ := c26Image(strings.SplitN(a[8], "+", 2)[0], 1)
			if len(img) == 0 {
				return "one " + res
			}
			cc := "1-14"
			switch img[0] & 15 {
			case 0:
				cc = "0"
			case 15:
				cc = "15"
			}

			return fmt.Sprintf("one %s X=%d P=%d cc=%s", res, img[0]>>4&1, img[0]>>5&1, cc)
		},
		Trivial: func(a []string, out string) bool {
			if a[0] == "seq" {
				return !strings.Contains(out, "rtx") && !strings.Contains(out, "none") && !strings.Contains(out, "pri")
			}
			if len(a) < 9 {
				return true
			}
			n, _ := strconv.Atoi(a[7])

			return n < 12
		},
	}
}
