package main

import (
	"fmt"
	"os"
	"sort"
	"strconv"
	"strings"

	"github.com/pion/ice/v4"
	"github.com/pion/sdp/v3"
	"github.com/pion/webrtc/v4"
)

// C12 — a successful offer describes exactly the local transceivers and data channels.
//
//	h <engine> <always> <op>…   one PeerConnection without remote description, a history of public API calls
//
// engine: six 0/1 flags  audio-codecs video-codecs audio-rtx video-rtx audio-flexfec video-flexfec
// (rtx / flexfec are registered only together with the kind's primary codec).
// always: Configuration.AlwaysNegotiateDataChannels.
// ops (fields separated by ','; K = a|v|u kind of the track's codec; S,T,R = stream id, track id, rid as
// hex text, '-' = empty; D = sr|so|ro|in|df (df = no RTPTransceiverInit); I = transceiver index):
//
//	at,K,S,T,R        AddTrack(new TrackLocalStaticSample)
//	ak,K,D[,N]        AddTransceiverFromKind; N = SSRC asked for through RTPTransceiverInit.SendEncodings
//	af,K,S,T,R,D[,N]  AddTransceiverFromTrack
//	ae,I,K,S,T,R      GetTransceivers()[I].Sender().AddEncoding(track)
//	rm,I              RemoveTrack(GetTransceivers()[I].Sender())
//	rp,I,nil | rp,I,K,S,T,R   GetTransceivers()[I].Sender().ReplaceTrack(nil | track)
//	st,I              GetTransceivers()[I].Stop()
//	dc,V              CreateDataChannel (V: 0 plain, 1 negotiated id 4, 2 MaxRetransmits, 3 both limits = refused)
//	of                CreateOffer
//	sl                SetLocalDescription(the last created offer)
//
// output: one result token per op (ok | skip | e:<cause>), then for every successful CreateOffer
//
//	| T <transceiver>… S <section>…
//
// transceiver = mid,kind,direction,sender      sender = '-' | track/enc/enc…   track = '-' | S~T~R (Sender().Track())
//
//	enc = rid~ssrc~rtx~fec (GetParameters().Encodings; SSRCs as symbolic names n0,n1,… in order of first
//	appearance within the line, 0 = unset, c<N> = an SSRC value chosen by the op line)
//
// section = media,mid,port,directions,msids,ssrcs,groups,rids,simulcast   (lists '/'-separated, '-' = empty)
//
//	msid = hex of the attribute value; ssrc = name~hex(msid value of that source)…; group = FID~n0~n1;
//	rid = hex(id)~direction; simulcast = hex of the attribute value.
//
// Random identifiers (track ids made by AddTransceiverFromKind) are replaced by R0,R1,… in order of first
// appearance.
type c12Run struct {
	pc       *webrtc.PeerConnection
	ssrcName map[uint32]string
	randName map[string]string
	known    map[string]bool
	chosen   map[uint32]bool
	last     *webrtc.SessionDescription
}

func c12Engine(flags string) (*webrtc.MediaEngine, bool) {
	if len(flags) != 6 || strings.Trim(flags, "01") != "" {
		return nil, false
	}
	me := &webrtc.MediaEngine{}
	on := func(i int) bool { return flags[i] == '1' }
	reg := func(mime string, rate uint32, ch uint16, fmtp string, pt uint8, k webrtc.RTPCodecType) bool {
		return me.RegisterCodec(webrtc.RTPCodecParameters{
			RTPCodecCapability: webrtc.RTPCodecCapability{MimeType: mime, ClockRate: rate, Channels: ch, SDPFmtpLine: fmtp},
			PayloadType:        webrtc.PayloadType(pt),
		}, k) == nil
	}
	ok := true
	if on(0) {
		ok = ok && reg(webrtc.MimeTypeOpus, 48000, 2, "minptime=10;useinbandfec=1", 111, webrtc.RTPCodecTypeAudio)
		if on(2) {
			ok = ok && reg(webrtc.MimeTypeRTX, 48000, 0, "apt=111", 112, webrtc.RTPCodecTypeAudio)
		}
		if on(4) {
			ok = ok && reg(webrtc.MimeTypeFlexFEC03, 48000, 0, "repair-window=10000000", 113, webrtc.RTPCodecTypeAudio)
		}
	}
	if on(1) {
		ok = ok && reg(webrtc.MimeTypeVP8, 90000, 0, "", 96, webrtc.RTPCodecTypeVideo)
		if on(3) {
			ok = ok && reg(webrtc.MimeTypeRTX, 90000, 0, "apt=96", 97, webrtc.RTPCodecTypeVideo)
		}
		if on(5) {
			ok = ok && reg(webrtc.MimeTypeFlexFEC03, 90000, 0, "repair-window=10000000", 118, webrtc.RTPCodecTypeVideo)
		}
	}

	return me, ok
}

func c12Text(h string) (string, bool) {
	if h == "-" {
		return "", true
	}
	if len(h)%2 != 0 || strings.Trim(h, "0123456789abcdef") != "" {
		return "", false
	}

	return string(unhx(h)), true
}

func c12Track(k, s, t, r string) (webrtc.TrackLocal, bool) {
	mime := ""
	switch k {
	case "a":
		mime = webrtc.MimeTypeOpus
	case "v":
		mime = webrtc.MimeTypeVP8
	case "u":
		mime = "text/plain"
	default:
		return nil, false
	}
	sid, ok1 := c12Text(s)
	tid, ok2 := c12Text(t)
	rid, ok3 := c12Text(r)
	if !ok1 || !ok2 || !ok3 {
		return nil, false
	}
	opts := []func(*webrtc.TrackLocalStaticRTP){}
	if rid != "" {
		opts = append(opts, webrtc.WithRTPStreamID(rid))
	}
	tr, err := webrtc.NewTrackLocalStaticSample(webrtc.RTPCodecCapability{MimeType: mime, ClockRate: 90000}, tid, sid, opts...)
	if err != nil {
		return nil, false
	}

	return tr, true
}

// c12Init builds the optional RTPTransceiverInit; n ("" = none) is the SSRC of its single send encoding.
func c12Init(d, n string) ([]webrtc.RTPTransceiverInit, bool) {
	init, ok := c12Dir(d)
	if !ok || n == "" {
		return init, ok
	}
	v, err := strconv.ParseUint(n, 10, 32)
	if err != nil {
		return nil, false
	}
	if len(init) == 1 { // v == 0: a send encoding without SSRC, must not override anything
		init[0].SendEncodings = []webrtc.RTPEncodingParameters{
			{RTPCodingParameters: webrtc.RTPCodingParameters{SSRC: webrtc.SSRC(v)}},
		}
	}

	return init, true
}

func c12Dir(d string) ([]webrtc.RTPTransceiverInit, bool) {
	switch d {
	case "sr":
		return []webrtc.RTPTransceiverInit{{Direction: webrtc.RTPTransceiverDirectionSendrecv}}, true
	case "so":
		return []webrtc.RTPTransceiverInit{{Direction: webrtc.RTPTransceiverDirectionSendonly}}, true
	case "ro":
		return []webrtc.RTPTransceiverInit{{Direction: webrtc.RTPTransceiverDirectionRecvonly}}, true
	case "in":
		return []webrtc.RTPTransceiverInit{{Direction: webrtc.RTPTransceiverDirectionInactive}}, true
	case "df":
		return nil, true
	}

	return nil, false
}

var c12Errors = []struct{ sub, code string }{
	{"no codecs are available", "nocodec"},
	{"AddTransceiverFromKind currently only supports", "dirunsup"},
	{"AddTransceiverFromTrack currently only supports", "dirunsup"},
	{"rid is empty", "ridnil"},
	{"Sender has already been stopped", "stopped"},
	{"there is no base track", "nobase"},
	{"does not match base track", "mismatch"},
	{"RID collision", "ridcollision"},
	{"same kind as previous", "kind"},
	{"same envelope as previous", "envelope"},
	{"invalid state change in RTPTransceiver.setSending", "invalidstate"},
	{"RTPSender created with no codecs", "sendernocodec"},
	{"excessive retries in CreateOffer", "retries"},
	{"both MaxPacketLifeTime and MaxRetransmits", "dcboth"},
	{"not created by this PeerConnection", "notmine"},
	{"invalid proposed signaling state transition", "sigstate"},
}

func c12Err(err error) string {
	if err == nil {
		return "ok"
	}
	msg := err.Error()
	for _, e := range c12Errors {
		if strings.Contains(msg, e.sub) {
			return "e:" + e.code
		}
	}

	if os.Getenv("VERIF_DEBUG") != "" {
		fmt.Fprintln(os.Stderr, "C12 other error:", msg)
	}

	return "e:other"
}

func c12Kind(k webrtc.RTPCodecType) string {
	switch k {
	case webrtc.RTPCodecTypeAudio:
		return "a"
	case webrtc.RTPCodecTypeVideo:
		return "v"
	}

	return "u"
}

func (r *c12Run) ssrc(v uint32) string {
	if v == 0 {
		return "0"
	}
	if r.chosen[v] {
		return "c" + strconv.FormatUint(uint64(v), 10)
	}
	if n, ok := r.ssrcName[v]; ok {
		return n
	}
	n := "n" + strconv.Itoa(len(r.ssrcName))
	r.ssrcName[v] = n

	return n
}

// ident canonicalises a stream / track id: ids chosen by the op line stay, any other is a random one.
func (r *c12Run) ident(s string) string {
	if s == "" || r.known[s] {
		return hx([]byte(s))
	}
	if n, ok := r.randName[s]; ok {
		return hx([]byte(n))
	}
	n := "R" + strconv.Itoa(len(r.randName))
	r.randName[s] = n

	return hx([]byte(n))
}

// canonText replaces the random identifiers seen so far inside an attribute value.
func (r *c12Run) canonText(v string) string {
	keys := make([]string, 0, len(r.randName))
	for k := range r.randName {
		keys = append(keys, k)
	}
	sort.Strings(keys)
	for _, k := range keys {
		v = strings.ReplaceAll(v, k, r.randName[k])
	}

	return hx([]byte(v))
}

func c12List(xs []string) string {
	if len(xs) == 0 {
		return "-"
	}

	return strings.Join(xs, "/")
}

func (r *c12Run) transceivers() []string {
	out := []string{}
	for _, t := range r.pc.GetTransceivers() {
		mid := t.Mid()
		if mid == "" {
			mid = "-"
		}
		snd := "-"
		if s := t.Sender(); s != nil {
			parts := []string{"-"}
			if tr := s.Track(); tr != nil {
				parts[0] = r.ident(tr.StreamID()) + "~" + r.ident(tr.ID()) + "~" + hx([]byte(tr.RID()))
			}
			for _, e := range s.GetParameters().Encodings {
				parts = append(parts, fmt.Sprintf("%s~%s~%s~%s", hx([]byte(e.RID)), r.ssrc(uint32(e.SSRC)),
					r.ssrc(uint32(e.RTX.SSRC)), r.ssrc(uint32(e.FEC.SSRC))))
			}
			snd = strings.Join(parts, "/")
		}
		out = append(out, fmt.Sprintf("%s,%s,%s,%s", mid, c12Kind(t.Kind()), t.Direction().String(), snd))
	}

	return out
}

func (r *c12Run) sdpSSRC(s string) string {
	v, err := strconv.ParseUint(s, 10, 32)
	if err != nil {
		return "bad"
	}
	if v == 0 {
		return "zero"
	}
	if r.chosen[uint32(v)] {
		return "c" + strconv.FormatUint(v, 10)
	}
	if n, ok := r.ssrcName[uint32(v)]; ok {
		return n
	}

	return "unk"
}

func (r *c12Run) sections(offer string) ([]string, bool) {
	var d sdp.SessionDescription
	if err := d.UnmarshalString(offer); err != nil {
		return nil, false
	}
	out := []string{}
	for _, m := range d.MediaDescriptions {
		mid, sim := "-", "-"
		dirs, msids, groups, rids := []string{}, []string{}, []string{}, []string{}
		srcOrder := []string{}
		srcMsid := map[string][]string{}
		for _, a := range m.Attributes {
			switch a.Key {
			case "mid":
				mid = a.Value
				if mid == "" {
					mid = "empty"
				}
			case "sendrecv", "sendonly", "recvonly", "inactive":
				dirs = append(dirs, a.Key)
			case "msid":
				msids = append(msids, r.canonText(a.Value))
			case "ssrc":
				f := strings.SplitN(a.Value, " ", 2)
				n := r.sdpSSRC(f[0])
				if _, seen := srcMsid[n]; !seen {
					srcOrder = append(srcOrder, n)
					srcMsid[n] = []string{}
				}
				if len(f) == 2 && strings.HasPrefix(f[1], "msid:") {
					srcMsid[n] = append(srcMsid[n], r.canonText(strings.TrimPrefix(f[1], "msid:")))
				}
			case "ssrc-group":
				f := strings.Fields(a.Value)
				for i := 1; i < len(f); i++ {
					f[i] = r.sdpSSRC(f[i])
				}
				groups = append(groups, strings.Join(f, "~"))
			case "rid":
				f := strings.Fields(a.Value)
				if len(f) > 0 {
					f[0] = hx([]byte(f[0]))
				}
				rids = append(rids, strings.Join(f, "~"))
			case "simulcast":
				sim = hx([]byte(a.Value))
			}
		}
		srcs := []string{}
		for _, n := range srcOrder {
			srcs = append(srcs, strings.Join(append([]string{n}, srcMsid[n]...), "~"))
		}
		out = append(out, strings.Join([]string{
			m.MediaName.Media, mid, strconv.Itoa(m.MediaName.Port.Value), c12List(dirs), c12List(msids),
			c12List(srcs), c12List(groups), c12List(rids), sim,
		}, ","))
	}

	return out, true
}

func c12Exec(a []string) string { //nolint:gocognit,cyclop,gocyclo,maintidx
	if len(a) < 3 || a[0] != "h" {
		return "bad-op"
	}
	me, ok := c12Engine(a[1])
	if !ok || (a[2] != "0" && a[2] != "1") {
		return "bad-op"
	}
	se := webrtc.SettingEngine{}
	se.SetICEMulticastDNSMode(ice.MulticastDNSModeDisabled)
	se.SetInterfaceFilter(func(string) bool { return false })
	se.SetIncludeLoopbackCandidate(false)
	se.SetNetworkTypes([]webrtc.NetworkType{webrtc.NetworkTypeUDP4})
	api := webrtc.NewAPI(webrtc.WithMediaEngine(me), webrtc.WithSettingEngine(se))
	pc, err := api.NewPeerConnection(webrtc.Configuration{AlwaysNegotiateDataChannels: a[2] == "1"})
	if err != nil {
		return "bad-op"
	}
	defer pc.Close() //nolint:errcheck
	r := &c12Run{
		pc: pc, ssrcName: map[uint32]string{}, randName: map[string]string{}, known: map[string]bool{},
		chosen: map[uint32]bool{},
	}
	// identifiers and SSRCs chosen by the op line
	for _, op := range a[3:] {
		f := strings.Split(op, ",")
		if (f[0] == "ak" && len(f) == 4) || (f[0] == "af" && len(f) == 7) {
			if v, err := strconv.ParseUint(f[len(f)-1], 10, 32); err == nil && v != 0 {
				r.chosen[uint32(v)] = true
			}
		}
		for _, h := range f[1:] {
			if s, ok := c12Text(h); ok && len(h) > 1 {
				r.known[s] = true
			}
		}
	}
	results := []string{}
	snaps := []string{}
	sender := func(idx string) (*webrtc.RTPTransceiver, *webrtc.RTPSender) {
		i, err := strconv.Atoi(idx)
		ts := pc.GetTransceivers()
		if err != nil || i < 0 || i >= len(ts) {
			return nil, nil
		}

		return ts[i], ts[i].Sender()
	}
	for _, op := range a[3:] {
		f := strings.Split(op, ",")
		res := "skip"
		switch {
		case f[0] == "at" && len(f) == 5:
			if tr, ok := c12Track(f[1], f[2], f[3], f[4]); ok {
				_, err := pc.AddTrack(tr)
				res = c12Err(err)
			}
		case f[0] == "ak" && (len(f) == 3 || len(f) == 4):
			init, ok := c12Init(f[2], strings.Join(f[3:], ""))
			kind := map[string]webrtc.RTPCodecType{"a": webrtc.RTPCodecTypeAudio, "v": webrtc.RTPCodecTypeVideo, "u": 0}
			if k, ok2 := kind[f[1]]; ok && ok2 {
				_, err := pc.AddTransceiverFromKind(k, init...)
				res = c12Err(err)
			}
		case f[0] == "af" && (len(f) == 6 || len(f) == 7):
			tr, ok := c12Track(f[1], f[2], f[3], f[4])
			init, ok2 := c12Init(f[5], strings.Join(f[6:], ""))
			if ok && ok2 {
				_, err := pc.AddTransceiverFromTrack(tr, init...)
				res = c12Err(err)
			}
		case f[0] == "ae" && len(f) == 6:
			tr, ok := c12Track(f[2], f[3], f[4], f[5])
			if _, s := sender(f[1]); ok && s != nil {
				res = c12Err(s.AddEncoding(tr))
			}
		case f[0] == "rm" && len(f) == 2:
			if _, s := sender(f[1]); s != nil {
				res = c12Err(pc.RemoveTrack(s))
			}
		case f[0] == "rp" && len(f) == 3 && f[2] == "nil":
			if _, s := sender(f[1]); s != nil {
				res = c12Err(s.ReplaceTrack(nil))
			}
		case f[0] == "rp" && len(f) == 6:
			tr, ok := c12Track(f[2], f[3], f[4], f[5])
			if _, s := sender(f[1]); ok && s != nil {
				res = c12Err(s.ReplaceTrack(tr))
			}
		case f[0] == "st" && len(f) == 2:
			if t, _ := sender(f[1]); t != nil {
				res = c12Err(t.Stop())
			}
		case f[0] == "dc" && len(f) == 2:
			var init *webrtc.DataChannelInit
			t, id, n := true, uint16(4), uint16(3)
			switch f[1] {
			case "0":
			case "1":
				init = &webrtc.DataChannelInit{Negotiated: &t, ID: &id}
			case "2":
				init = &webrtc.DataChannelInit{MaxRetransmits: &n}
			case "3":
				init = &webrtc.DataChannelInit{MaxRetransmits: &n, MaxPacketLifeTime: &n}
			default:
				results = append(results, res)

				continue
			}
			_, err := pc.CreateDataChannel("d"+strconv.Itoa(len(results)), init)
			res = c12Err(err)
		case f[0] == "of" && len(f) == 1:
			offer, err := pc.CreateOffer(nil)
			res = c12Err(err)
			if err == nil {
				r.last = &offer
				ts := r.transceivers()
				ss, ok := r.sections(offer.SDP)
				if !ok {
					res = "e:unparsable"
				} else {
					snaps = append(snaps, "| T "+strings.Join(ts, " ")+" S "+strings.Join(ss, " "))
				}
			}
		case f[0] == "sl" && len(f) == 1:
			if r.last != nil {
				res = c12Err(pc.SetLocalDescription(*r.last))
			}
		}
		results = append(results, res)
	}

	return strings.Join(results, " ") + " " + strings.Join(snaps, " ")
}

// ---------------------------------------------------------------------------------------------
// generator

type c12Shadow struct {
	kind   string
	sender bool
	encs   int
	s, t   string // hex ids of the sender's track ("" = none / unknown)
	rid    string
}

var (
	c12Streams = []string{"7331", "7332", "6d61696e"}         // s1 s2 main
	c12Tracks  = []string{"7431", "7432", "7433", "63616d"}   // t1 t2 t3 cam
	c12Rids    = []string{"71", "68", "66", "6c6f77"}         // q h f low
	c12Dirs    = []string{"sr", "so", "ro", "df", "sr", "so"} // valid for AddTransceiverFromKind
)

func c12Pick(c *Ctx, xs []string) string { return xs[c.Rng.Intn(len(xs))] }

func c12GenHistory(c *Ctx, malformed bool) string { //nolint:gocognit,cyclop,gocyclo,maintidx
	eng := []byte("110000")
	for i := 2; i < 6; i++ {
		if c.Rng.Intn(2) == 0 {
			eng[i] = '1'
		}
	}
	switch c.Rng.Intn(12) {
	case 0:
		eng[0] = '0'
	case 1:
		eng[1] = '0'
	case 2:
		if malformed {
			eng[0], eng[1] = '0', '0'
		}
	}
	always := "0"
	if c.Rng.Intn(6) == 0 {
		always = "1"
	}
	ops := []string{}
	sh := []*c12Shadow{}
	kind := func() string {
		if malformed && c.Rng.Intn(6) == 0 {
			return "u"
		}
		if c.Rng.Intn(3) == 0 {
			return "a"
		}

		return "v"
	}
	rid := func() string {
		if c.Rng.Intn(3) == 0 {
			return c12Pick(c, c12Rids)
		}

		return "-"
	}
	idx := func() int {
		if len(sh) == 0 || (malformed && c.Rng.Intn(5) == 0) {
			return c.Rng.Intn(4) + len(sh)
		}

		return c.Rng.Intn(len(sh))
	}
	withSender := func() int {
		cand := []int{}
		for i, t := range sh {
			if t.sender {
				cand = append(cand, i)
			}
		}
		if len(cand) == 0 || c.Rng.Intn(8) == 0 {
			return idx()
		}

		return cand[c.Rng.Intn(len(cand))]
	}
	offered := false
	n := 1 + c.Rng.Intn(9)
	if c.Rng.Intn(4) == 0 { // simulcast envelope first
		k, st, tr := kind(), c12Pick(c, c12Streams), c12Pick(c, c12Tracks)
		perm := c.Rng.Perm(len(c12Rids))
		if c.Rng.Intn(2) == 0 {
			ops = append(ops, fmt.Sprintf("af,%s,%s,%s,%s,%s", k, st, tr, c12Rids[perm[0]], c12Pick(c, []string{"sr", "so", "df"})))
		} else {
			ops = append(ops, fmt.Sprintf("at,%s,%s,%s,%s", k, st, tr, c12Rids[perm[0]]))
		}
		sh = append(sh, &c12Shadow{kind: k, sender: true, encs: 1, s: st, t: tr, rid: c12Rids[perm[0]]})
		for j := 1; j <= 1+c.Rng.Intn(2); j++ {
			ops = append(ops, fmt.Sprintf("ae,0,%s,%s,%s,%s", k, st, tr, c12Rids[perm[j]]))
			sh[0].encs++
		}
	}
	for len(ops) < n {
		switch w := c.Rng.Intn(100); {
		case w < 18: // AddTrack
			k, s, t, r := kind(), c12Pick(c, c12Streams), c12Pick(c, c12Tracks), rid()
			if malformed && c.Rng.Intn(8) == 0 {
				s = "-"
			}
			ops = append(ops, fmt.Sprintf("at,%s,%s,%s,%s", k, s, t, r))
			reused := false
			for _, x := range sh {
				if x.kind == k && !x.sender {
					x.sender, x.encs, x.s, x.t, x.rid = true, 1, s, t, r
					reused = true

					break
				}
			}
			if !reused {
				sh = append(sh, &c12Shadow{kind: k, sender: true, encs: 1, s: s, t: t, rid: r})
			}
		case w < 32: // AddTransceiverFromKind
			k, d := kind(), c12Pick(c, c12Dirs)
			if malformed && c.Rng.Intn(4) == 0 {
				d = "in"
			}
			ov := ""
			if c.Rng.Intn(7) == 0 {
				ov = fmt.Sprintf(",%d", c.Rng.Intn(4)+1000*c.Rng.Intn(2))
			}
			ops = append(ops, fmt.Sprintf("ak,%s,%s%s", k, d, ov))
			if d != "in" {
				sh = append(sh, &c12Shadow{kind: k, sender: d != "ro", encs: 1, rid: "-"})
			}
		case w < 46: // AddTransceiverFromTrack
			k, s, t, r := kind(), c12Pick(c, c12Streams), c12Pick(c, c12Tracks), rid()
			d := c12Pick(c, []string{"sr", "so", "df"})
			if c.Rng.Intn(3) == 0 {
				r = c12Pick(c, c12Rids) // simulcast base
			}
			if malformed && c.Rng.Intn(3) == 0 {
				d = c12Pick(c, []string{"ro", "in"})
			}
			ov := ""
			if c.Rng.Intn(6) == 0 {
				ov = fmt.Sprintf(",%d", uint64(1+c.Rng.Intn(3))+4294967290*uint64(c.Rng.Intn(2)))
			}
			ops = append(ops, fmt.Sprintf("af,%s,%s,%s,%s,%s%s", k, s, t, r, d, ov))
			if d == "sr" || d == "so" || d == "df" {
				sh = append(sh, &c12Shadow{kind: k, sender: true, encs: 1, s: s, t: t, rid: r})
			}
		case w < 60: // AddEncoding
			i := withSender()
			k, s, t, r := "v", c12Pick(c, c12Streams), c12Pick(c, c12Tracks), c12Pick(c, c12Rids)
			if i < len(sh) && sh[i].s != "" && c.Rng.Intn(10) != 0 {
				k, s, t = sh[i].kind, sh[i].s, sh[i].t
			}
			if malformed && c.Rng.Intn(4) == 0 {
				r = "-"
			}
			ops = append(ops, fmt.Sprintf("ae,%d,%s,%s,%s,%s", i, k, s, t, r))
			if i < len(sh) && sh[i].sender {
				sh[i].encs++ // optimistic
			}
		case w < 68: // RemoveTrack
			i := withSender()
			ops = append(ops, fmt.Sprintf("rm,%d", i))
			if i < len(sh) {
				sh[i].sender, sh[i].s, sh[i].t = false, "", ""
			}
		case w < 80: // ReplaceTrack
			i := withSender()
			if c.Rng.Intn(2) == 0 {
				ops = append(ops, fmt.Sprintf("rp,%d,nil", i))
				if i < len(sh) {
					sh[i].s, sh[i].t = "", ""
				}
			} else {
				k := "v"
				if i < len(sh) {
					k = sh[i].kind
				}
				if c.Rng.Intn(8) == 0 {
					k = kind()
				}
				s, t, r := c12Pick(c, c12Streams), c12Pick(c, c12Tracks), rid()
				ops = append(ops, fmt.Sprintf("rp,%d,%s,%s,%s,%s", i, k, s, t, r))
				if i < len(sh) && sh[i].sender && sh[i].encs <= 1 && k == sh[i].kind {
					sh[i].s, sh[i].t, sh[i].rid = s, t, r
				}
			}
		case w < 87: // CreateDataChannel
			v := c.Rng.Intn(3)
			if c.Rng.Intn(5) == 0 {
				v = 3
			}
			ops = append(ops, fmt.Sprintf("dc,%d", v))
		case w < 90: // Stop
			ops = append(ops, fmt.Sprintf("st,%d", idx()))
		case w < 97: // CreateOffer in the middle, sometimes applied
			ops = append(ops, "of")
			offered = true
			if c.Rng.Intn(3) == 0 {
				ops = append(ops, "sl")
			}
		default:
			if offered || malformed {
				ops = append(ops, "sl")
			}
		}
		if malformed && c.Rng.Intn(12) == 0 {
			ops = append(ops, c12Pick(c, []string{"zz", "at,x,7331,7431,-", "ae,q,v,7331,7431,71", "dc,9", "rp,0", "of,1", "at,v,7,7431,-"}))
		}
	}
	ops = append(ops, "of")

	return fmt.Sprintf("h %s %s %s", eng, always, strings.Join(ops, " "))
}

func c12Gen(c *Ctx) {
	// systematic part: every engine flag combination × every single creating call (× one follow-up), then an offer
	creators := []string{
		"at,v,7331,7431,-", "at,a,7331,7432,-", "at,v,7331,7431,71",
		"ak,v,sr", "ak,v,so", "ak,v,ro", "ak,a,df", "ak,a,ro",
		"af,v,7332,7433,-,sr", "af,a,7332,7433,-,so", "af,v,7332,7433,71,so", "af,v,7332,7433,-,so,4242", "ak,v,sr,7", "ak,v,so,0",
	}
	follow := []string{
		"", "rm,0", "rp,0,nil", "rp,0,v,6d61696e,63616d,-", "rp,0,a,6d61696e,63616d,-", "ae,0,v,7331,7431,68",
		"ae,0,v,7332,7433,68", "st,0", "dc,0", "dc,3", "at,v,7332,7432,-", "at,a,7332,7432,-", "ak,v,ro", "of", "of sl",
		"rm,0 at,v,7332,7432,-", "rp,0,nil of rp,0,v,6d61696e,63616d,-", "ae,0,v,7331,7431,68 ae,0,v,7331,7431,66 rp,0,nil",
		"ae,0,v,7332,7433,68 ae,0,v,7332,7433,68",
	}
	for e := 0; e < 64; e++ {
		eng := fmt.Sprintf("%06b", e)
		full := eng[0] == '1' && eng[1] == '1'
		if !full && !(eng[2:] == "0000" || eng[2:] == "1111") {
			continue // engines lacking a kind: only without / with all repair codecs
		}
		for _, cr := range creators {
			for fi, fo := range follow {
				if !c.Thorough() && !full && fi > 3 {
					continue
				}
				if !c.Thorough() && full && (e+fi)%3 != int(c.Seed%3) && fi > 0 {
					continue
				}
				for _, always := range []string{"0", "1"} {
					if always == "1" && fi != 0 && fi != 8 {
						continue
					}
					c.Emit("h %s %s %s %s of", eng, always, cr, fo)
				}
			}
		}
	}
	// an empty history and data-channel-only histories
	for _, always := range []string{"0", "1"} {
		c.Emit("h 110000 %s of", always)
		c.Emit("h 110000 %s dc,0 of", always)
		c.Emit("h 110000 %s dc,3 of dc,1 of", always)
		c.Emit("h 000000 %s dc,2 of", always)
	}
	for n := 0; n < c.N(2500, 60000); n++ {
		c.Emit("%s", c12GenHistory(c, false))
	}
	for n := 0; n < c.N(400, 8000); n++ {
		c.Emit("%s", c12GenHistory(c, true))
	}
}

func c12Class(a []string, out string) string {
	parts := strings.Split(out, "|")
	if len(parts) < 2 {
		f := strings.Fields(out)
		if len(f) > 0 && strings.HasPrefix(f[len(f)-1], "e:") {
			return "last offer failed " + f[len(f)-1]
		}

		return "no offer"
	}
	last := parts[len(parts)-1]
	secs := strings.SplitN(last, " S ", 2)
	nt := len(strings.Fields(secs[0])) - 1
	b := "0"
	switch {
	case nt >= 4:
		b = "4+"
	case nt >= 2:
		b = "2-3"
	case nt == 1:
		b = "1"
	}
	feature := "plain"
	switch {
	case strings.Contains(last, "~send"):
		feature = "simulcast"
	case strings.Contains(secs[0], ",-/"):
		feature = "sender without track"
	case strings.Contains(last, "FID~") && strings.Contains(last, "FEC-FR~"):
		feature = "rtx+fec groups"
	case strings.Contains(last, "FID~"):
		feature = "rtx groups"
	case strings.Contains(last, "FEC-FR~"):
		feature = "fec groups"
	case strings.Contains(secs[0]+" ", ",- "):
		feature = "senderless transceiver"
	}
	app := ""
	if strings.Contains(last, "application,") {
		app = ", application section"
	}
	re := ""
	if len(parts) > 2 {
		re = ", re-offer"
	}

	_, _ = app, re

	return "offer ok, transceivers " + b + ": " + feature
}

func c12Trivial(a []string, out string) bool {
	// nothing to describe: no successful offer, or an offer without transceivers
	parts := strings.Split(out, "|")
	if len(parts) < 2 {
		return true
	}
	for _, p := range parts[1:] {
		if len(strings.Fields(strings.SplitN(p, " S ", 2)[0])) > 1 {
			return false
		}
	}

	return true
}

func init() {
	registry["C12"] = &Prop{
		Workers: 8,
		Rule: "Each op line is one complete history on a fresh real PeerConnection (no remote description, no network " +
			"interfaces, always closed): a MediaEngine chosen by six flags (primary audio / video codec, RTX and FlexFEC " +
			"codec per kind), AlwaysNegotiateDataChannels, then 1-10 public API calls drawn from AddTrack, " +
			"AddTransceiverFromKind (sendrecv, sendonly, recvonly, no init; inactive in the malformed stream), " +
			"AddTransceiverFromTrack (both sometimes with an SSRC chosen through RTPTransceiverInit.SendEncodings), RTPSender.AddEncoding (simulcast rids), RemoveTrack, RTPSender.ReplaceTrack(nil|track), " +
			"RTPTransceiver.Stop, CreateDataChannel (plain, negotiated, MaxRetransmits, refused), CreateOffer and " +
			"SetLocalDescription(last offer) in the middle, always ending with CreateOffer. A systematic part enumerates " +
			"engine flag combinations x every creating call x one follow-up call; the rest is seeded random (a shadow of " +
			"the transceiver list keeps ~85% of the calls valid); a separate malformed stream (about 1 in 7) uses indices " +
			"out of range, kind-less tracks, unsupported directions, empty rids/ids, mismatching simulcast envelopes, " +
			"engines without any codec and unparsable tokens. After every successful CreateOffer the harness prints " +
			"GetTransceivers() (mid, kind, direction, Sender().Track() ids, GetParameters().Encodings) next to the parsed " +
			"SDP (per m-section: media, mid, port, direction attributes, msid, ssrc sources with their msid, ssrc-groups, " +
			"rid, simulcast); SSRCs and random track ids become symbolic names in order of first appearance. The model " +
			"output must be identical and the Lean judge evaluates the three clauses on the implementation's output. " +
			"Non-trivial: distinct op lines with at least one successful offer that has at least one transceiver.",
		Gen:     c12Gen,
		Exec:    c12Exec,
		Class:   c12Class,
		Trivial: c12Trivial,
	}
}
