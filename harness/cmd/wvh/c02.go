package main

import (
	"strings"
	"time"
)

// C02 — rollback cancels an in-progress offer/answer exchange.
//
//	tab <cur> <next> <op> 4        the rollback rows of checkNextSignalingState (raw ints)
//	h <cfg> <step>…                history on a pair of real PeerConnections (see sighist.go)
func init() {
	registry["C02"] = &Prop{
		Workers:    16,
		Exhaustive: false,
		Timeout:    60 * time.Second,
		Rule: "tab: every raw (cur 0..6, next 0..6, op 0..3) tuple with type rollback, enumerated completely. " +
			"h: from each of 14 stages (stable, have-local-offer, have-remote-offer, have-local-pranswer, " +
			"have-remote-pranswer, each in a first negotiation and in a renegotiation with current descriptions " +
			"present) a rollback on the focus peer through SetLocalDescription and through SetRemoteDescription, " +
			"with no SDP text, the pending text, an unrelated valid text and unparsable text; then either the rest " +
			"of the exchange, a second rollback (both sides), or a rollback of the other peer followed by a complete " +
			"new exchange; thorough adds every pair of calls of the focus peer around the rollback; plus seeded " +
			"guided random walks in which 30% of the steps are rollbacks. " +
			"Non-trivial: distinct op lines; a history is trivial when no rollback call succeeded.",
		Gen: func(c *Ctx) {
			sigTable(c, 4)
			refs := []string{"e", "mo", "ma", "po", "pa", "g"}
			for _, st := range sigStages() {
				x, y := st.focus, sigOther(st.focus)
				for _, side := range []string{"sl", "sr"} {
					other := map[string]string{"sl": "sr", "sr": "sl"}[side]
					for _, ref := range refs {
						rb := x + side + ":r:" + ref
						c.Emit("h d %s", sigJoin(st.prefix, rb, st.cont))
						c.Emit("h d %s", sigJoin(st.prefix, rb, x+side+":r:e", x+other+":r:e"))
						c.Emit("h d %s", sigJoin(st.prefix, rb, y+"sl:r:e", y+"sr:r:e", sigFullExchange))
						c.Emit("h d %s", sigJoin(st.prefix, x+other+":r:"+ref, rb, sigFullExchange))
						if c.Thorough() {
							for _, a := range sigAlphabet(x, false) {
								c.Emit("h d %s", sigJoin(st.prefix, a, rb, st.cont))
								c.Emit("h d %s", sigJoin(st.prefix, rb, a, st.cont))
							}
						}
					}
				}
			}
			valid := []string{"attr", "candok"}
			for n := 0; n < c.N(2500, 25000); n++ {
				c.Emit("%s", sigWalk(c, 6+c.Rng.Intn(c.N(14, 24)),
					sigWalkOpts{invalid: 80, rollback: 300, closeProb: 5, mutations: valid}))
			}
		},
		Exec: func(a []string) string {
			if a[0] == "tab" {
				return sigExecTab(a)
			}

			return sigExecHistory(a, 300*time.Microsecond)
		},
		Class: func(a []string, out string) string {
			if a[0] == "tab" {
				return sigClass(a, out)
			}
			// outcome of every rollback call: <state before>:<side>→<error class>
			cl := map[string]bool{}
			prev := map[byte]string{'A': "st", 'B': "st"}
			for i, tok := range strings.Fields(out) {
				if i+2 >= len(a) {
					break
				}
				step := a[i+2]
				f := strings.Split(tok, "/")
				if len(f) != 9 {
					continue
				}
				if strings.Contains(step, ":r:") {
					cl[prev[step[0]]+":"+step[1:3]+"→"+f[0]] = true
				}
				prev[step[0]] = f[1]
			}
			keys := []string{}
			for k := range cl {
				keys = append(keys, k)
			}
			if len(keys) == 0 {
				return "hist no-rollback"
			}
			if len(keys) > 1 {
				return "hist several-rollback-outcomes"
			}

			return "hist " + keys[0]
		},
		Trivial: func(a []string, out string) bool {
			if a[0] == "tab" {
				return false
			}
			for i, tok := range strings.Fields(out) {
				if i+2 < len(a) && strings.Contains(a[i+2], ":r:") && strings.HasPrefix(tok, "ok/") {
					return false
				}
			}

			return true
		},
	}
}
