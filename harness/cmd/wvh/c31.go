package main

import (
	"errors"
	"fmt"
	"sort"
	"strconv"
	"strings"
	"time"

	"github.com/pion/rtp"
	"github.com/pion/rtp/codecs"
	"github.com/pion/webrtc/v4/pkg/media/samplebuilder"
)

// C31 — SampleBuilder.
//
//	h <kind> <depack> <maxLate> <maxLateTs> <op>*
//	  op:  p<seq>,<ts>,<marker>,<payloadhex>   Push
//	       o                                    Pop
//	       f                                    Flush
//	  depack: fake | vp8 | opus
//	→ per op one boundary token (P / O / F) followed by the events of that op:
//	    r<id>                                   packet release handler called for the id-th Push (0-based)
//	    n                                       Pop returned nil
//	    s<ts>,<prevDropped>,<ticks>,<seq+seq…>,<datahex>   Pop returned a sample (ticks = Duration at sample rate 1,
//	                                            seqs = sequence numbers of Sample.RTPHeaders)
//
// The fake depacketizer reads flags from the first payload byte: 1 = partition head, 2 = partition tail
// (also a tail when the marker bit is set), 4 = Unmarshal fails; Unmarshal returns payload[1:].
type c31Fake struct{}

var errC31Fake = errors.New("fake depacketizer: unmarshal refused")

func (c31Fake) IsPartitionHead(p []byte) bool { return len(p) > 0 && p[0]&1 != 0 }
func (c31Fake) IsPartitionTail(marker bool, p []byte) bool {
	return marker || (len(p) > 0 && p[0]&2 != 0)
}

func (c31Fake) Unmarshal(p []byte) ([]byte, error) {
	if len(p) == 0 || p[0]&4 != 0 {
		return nil, errC31Fake
	}

	return p[1:], nil
}

func c31Exec(a []string) string {
	if len(a) < 5 || a[0] != "h" {
		return "bad-op"
	}
	var dp rtp.Depacketizer
	switch a[2] {
	case "fake":
		dp = c31Fake{}
	case "vp8":
		dp = &codecs.VP8Packet{}
	case "opus":
		dp = &codecs.OpusPacket{}
	default:
		return "bad-op"
	}
	maxLate, e1 := strconv.ParseUint(a[3], 10, 16)
	maxLateTS, e2 := strconv.ParseUint(a[4], 10, 32)
	if e1 != nil || e2 != nil {
		return "bad-op"
	}
	out := make([]string, 0, 2*len(a))
	ids := map[*rtp.Packet]int{}
	opts := []samplebuilder.Option{
		samplebuilder.WithRTPHeaders(true),
		samplebuilder.WithPacketReleaseHandler(func(p *rtp.Packet) {
			out = append(out, "r"+strconv.Itoa(ids[p]))
		}),
	}
	if maxLateTS != 0 {
		// sample rate 1 ⇒ maxLateTimestamp = seconds
		opts = append(opts, samplebuilder.WithMaxTimeDelay(time.Duration(maxLateTS)*time.Second))
	}
	sb := samplebuilder.New(uint16(maxLate), dp, 1, opts...)
	nPush := 0
	for _, op := range a[5:] {
		switch {
		case op == "o":
			out = append(out, "O")
			s := sb.Pop()
			if s == nil {
				out = append(out, "n")

				continue
			}
			seqs := make([]string, len(s.RTPHeaders))
			for i, h := range s.RTPHeaders {
				seqs[i] = strconv.Itoa(int(h.SequenceNumber))
			}
			sq := strings.Join(seqs, "+")
			if sq == "" {
				sq = "-"
			}
			out = append(out, fmt.Sprintf("s%d,%d,%d,%s,%s", s.PacketTimestamp, s.PrevDroppedPackets,
				uint32(int64(s.Duration/time.Second)), sq, hx(s.Data))) //nolint:gosec
		case op == "f":
			out = append(out, "F")
			sb.Flush()
		case strings.HasPrefix(op, "p"):
			f := strings.Split(op[1:], ",")
			if len(f) != 4 {
				return "bad-op"
			}
			seq, e1 := strconv.ParseUint(f[0], 10, 16)
			ts, e2 := strconv.ParseUint(f[1], 10, 32)
			if e1 != nil || e2 != nil || (f[2] != "0" && f[2] != "1") {
				return "bad-op"
			}
			pl := unhx(f[3])
			if pl == nil {
				pl = []byte{}
			}
			p := &rtp.Packet{Header: rtp.Header{Version: 2, SequenceNumber: uint16(seq), Timestamp: uint32(ts), Marker: f[2] == "1"}, Payload: pl}
			ids[p] = nPush
			nPush++
			out = append(out, "P")
			sb.Push(p)
		default:
			return "bad-op"
		}
	}

	return strings.Join(out, " ")
}

// ---- generators ----

type c31Pkt struct {
	seq    uint16
	ts     uint32
	marker bool
	pl     []byte
}

func (p c31Pkt) tok() string {
	return fmt.Sprintf("p%d,%d,%s,%s", p.seq, p.ts, b2s(p.marker), hx(p.pl))
}

// c31Frames builds nf frames of consecutive sequence numbers for the given depacketizer.
func c31Frames(c *Ctx, dp string, nf int, maxPk int, seq uint16, ts uint32, sloppy bool) ([]c31Pkt, int, int) {
	r := c.Rng
	var pk []c31Pkt
	frames := 0
	lastLen := 0
	for f := 0; f < nf; f++ {
		n := 1 + r.Intn(maxPk)
		if dp == "opus" {
			n = 1
		}
		lastLen = n
		for k := 0; k < n; k++ {
			first, last := k == 0, k == n-1
			body := make([]byte, r.Intn(4))
			r.Read(body)
			var pl []byte
			marker := false
			switch dp {
			case "fake":
				flags := byte(r.Intn(32)) << 3
				if first {
					flags |= 1
				}
				// tail signalled by payload flag, marker, both, or (sometimes) only by the timestamp change
				if last {
					switch r.Intn(8) {
					case 0:
						marker = true
					case 1:
						marker = true
						flags |= 2
					case 2: // no tail signal: the next frame's timestamp ends the run
					default:
						flags |= 2
					}
				}
				if sloppy {
					if r.Intn(25) == 0 {
						flags ^= 1
					}
					if r.Intn(25) == 0 {
						flags ^= 2
					}
					if r.Intn(40) == 0 {
						flags |= 4
					}
				}
				pl = append([]byte{flags}, body...)
				if sloppy && r.Intn(40) == 0 {
					pl = nil
				}
			case "vp8":
				b0 := byte(r.Intn(8)) | byte(r.Intn(2))<<5
				if first {
					b0 |= 0x10
				}
				hdr := []byte{b0}
				if r.Intn(3) == 0 { // extended control bits
					hdr[0] |= 0x80
					x := byte(r.Intn(16)) << 4
					hdr = append(hdr, x)
					if x&0x80 != 0 {
						if r.Intn(2) == 0 {
							hdr = append(hdr, 0x80|byte(r.Intn(128)), byte(r.Intn(256)))
						} else {
							hdr = append(hdr, byte(r.Intn(128)))
						}
					}
					if x&0x40 != 0 {
						hdr = append(hdr, byte(r.Intn(256)))
					}
					if x&0x30 != 0 {
						hdr = append(hdr, byte(r.Intn(256)))
					}
				}
				pl = append(hdr, body...)
				marker = last
				if sloppy {
					if r.Intn(25) == 0 {
						pl[0] ^= 0x10
					}
					if r.Intn(25) == 0 {
						marker = !marker
					}
					if r.Intn(30) == 0 {
						pl = pl[:r.Intn(len(pl)+1)]
					}
				}
			case "opus":
				pl = append([]byte{byte(r.Intn(256))}, body...)
				if sloppy && r.Intn(30) == 0 {
					pl = nil
				}
				marker = r.Intn(10) == 0
			}
			pk = append(pk, c31Pkt{seq, ts, marker, pl})
			seq++
		}
		frames++
		switch x := r.Intn(20); {
		case x == 0 && sloppy:
			// same timestamp again
		case x == 1:
			ts += uint32(r.Intn(1 << 30)) //nolint:gosec
		case x == 2 && sloppy:
			ts -= uint32(r.Intn(5000)) //nolint:gosec
		default:
			ts += 1 + uint32(r.Intn(3000)) //nolint:gosec
		}
	}

	return pk, frames, lastLen
}

// c31Deliver applies loss, duplication and bounded reordering.
func c31Deliver(c *Ctx, pk []c31Pkt, lossPct, dupPct, window int, protect int) []c31Pkt {
	r := c.Rng
	type kp struct {
		key int
		p   c31Pkt
	}
	var ks []kp
	for i, p := range pk {
		if i >= len(pk)-protect { // the final frame arrives intact and last
			ks = append(ks, kp{2 * (i + window + 50), p})

			continue
		}
		if r.Intn(100) < lossPct {
			continue
		}
		k := 2 * i
		if window > 0 && r.Intn(3) == 0 {
			k += 2 * r.Intn(window+1)
		}
		ks = append(ks, kp{k, p})
		if r.Intn(100) < dupPct {
			d := 1
			switch r.Intn(3) {
			case 0:
				d = 1 + r.Intn(3)
			case 1:
				d = 1 + r.Intn(40)
			case 2:
				d = 1 + r.Intn(2*window+2)
			}
			ks = append(ks, kp{k + 2*d + 1, p})
		}
	}
	sort.SliceStable(ks, func(i, j int) bool { return ks[i].key < ks[j].key })
	out := make([]c31Pkt, len(ks))
	for i := range ks {
		out[i] = ks[i].p
	}

	return out
}

func c31Start(c *Ctx) (uint16, uint32) {
	r := c.Rng
	seq := uint16(r.Intn(65536)) //nolint:gosec
	switch r.Intn(5) {
	case 0:
		seq = uint16(65536 - 1 - r.Intn(40)) //nolint:gosec
	case 1:
		seq = uint16(r.Intn(3)) //nolint:gosec
	case 2:
		seq = uint16(32768 - 20 + r.Intn(40)) //nolint:gosec
	}
	ts := r.Uint32()
	switch r.Intn(4) {
	case 0:
		ts = uint32(1<<32 - 1 - r.Intn(20000)) //nolint:gosec
	case 1:
		ts = uint32(r.Intn(5)) //nolint:gosec
	}

	return seq, ts
}

func c31MaxLate(c *Ctx) int {
	r := c.Rng
	switch r.Intn(8) {
	case 0:
		return 1 + r.Intn(80)
	case 1:
		return r.Intn(3)
	default:
		return []int{1, 5, 10, 50, 500}[r.Intn(5)]
	}
}

func c31Emit(c *Ctx, kind, dp string, maxLate, maxLateTS int, ops []string) {
	c.Emit("h %s %s %d %d %s", kind, dp, maxLate, maxLateTS, strings.Join(ops, " "))
}

// c31Interleave turns a delivery into an op list: pops between pushes, optional mid-stream flushes,
// a final flush and enough pops to drain the prepared queue.
func c31Interleave(c *Ctx, dl []c31Pkt, frames int, popMode int, midFlush bool) []string {
	r := c.Rng
	ops := make([]string, 0, 2*len(dl)+frames+8)
	for _, p := range dl {
		ops = append(ops, p.tok())
		switch popMode {
		case 1:
			if r.Intn(3) == 0 {
				ops = append(ops, "o")
			}
		case 2:
			ops = append(ops, "o")
		case 3:
			ops = append(ops, "o", "o")
		case 4:
			if r.Intn(25) == 0 {
				for k := r.Intn(12); k > 0; k-- {
					ops = append(ops, "o")
				}
			}
		}
		if midFlush && r.Intn(60) == 0 {
			ops = append(ops, "f")
		}
	}
	ops = append(ops, "f")
	for k := 0; k < frames+3; k++ {
		ops = append(ops, "o")
	}

	return ops
}

func c31Gen(c *Ctx) {
	r := c.Rng
	dps := []string{"fake", "fake", "vp8", "opus"}
	// fixed small cases: every depacketizer, tiny maxLate, wrap at both counters
	for _, dp := range dps[1:] {
		for _, seq := range []uint16{0, 65534, 32766} {
			pk, nf, _ := c31Frames(c, dp, 4, 3, seq, 0xFFFFFFF0, false)
			for _, ml := range []int{0, 1, 5} {
				c31Emit(c, "fixed", dp, ml, 0, c31Interleave(c, pk, nf, 0, false))
				c31Emit(c, "fixed", dp, ml, 0, c31Interleave(c, pk, nf, 2, false))
			}
		}
	}
	// the whole ring: more than 65 536 packets buffered at once (maxLate so large that nothing is purged),
	// the Push that takes the last free slot makes `filled` read as empty
	for k := 0; k < c.N(2, 6); k++ {
		seq, ts := c31Start(c)
		dp := dps[1+r.Intn(3)]
		np := 65536 + r.Intn(300) - 100
		ops := make([]string, 0, np+600)
		for j := 0; j < np; j++ {
			var pl []byte
			marker := false
			switch dp {
			case "fake":
				pl = []byte{3, byte(j)}
			case "vp8":
				pl = []byte{0x10, byte(j)}
				marker = true
			default:
				pl = []byte{byte(j)}
			}
			ops = append(ops, c31Pkt{seq, ts, marker, pl}.tok())
			seq++
			ts += 10
			if j > 65000 && r.Intn(20) == 0 {
				ops = append(ops, "o")
			}
		}
		for j := 0; j < 200; j++ {
			ops = append(ops, "o")
		}
		ops = append(ops, "f")
		for j := 0; j < 300; j++ {
			ops = append(ops, "o")
		}
		c31Emit(c, "ringfull", dp, []int{65535, 40000, 32768}[k%3], 0, ops)
	}
	n := c.N(1800, 25000)
	for i := 0; i < n; i++ {
		dp := dps[r.Intn(len(dps))]
		seq, ts := c31Start(c)
		nf := 5 + r.Intn(40)
		if r.Intn(10) == 0 {
			nf = 5 + r.Intn(296)
		}
		maxPk := 1 + r.Intn(8)
		maxLate := c31MaxLate(c)
		maxLateTS := 0
		if r.Intn(3) == 0 {
			maxLateTS = []int{1, 100, 3000, 20000, 1 << 31, 1<<32 - 1}[r.Intn(6)]
			if r.Intn(2) == 0 {
				maxLateTS = 1 + r.Intn(30000)
			}
		}
		popMode := r.Intn(5)
		switch k := r.Intn(10); {
		case k < 3: // loss-free, reordered within a window that is usually small against maxLate
			pk, frames, _ := c31Frames(c, dp, nf, maxPk, seq, ts, false)
			w := 0
			if maxLate > maxPk+1 {
				w = r.Intn(maxLate - maxPk)
				if w > 20 {
					w = r.Intn(21)
				}
			}
			if r.Intn(6) == 0 {
				w = r.Intn(21)
			}
			c31Emit(c, "lossfree", dp, maxLate, 0, c31Interleave(c, c31Deliver(c, pk, 0, 0, w, 0), frames, popMode, false))
		case k < 7: // realistic: loss, duplication, reordering
			pk, frames, lastLen := c31Frames(c, dp, nf, maxPk, seq, ts, false)
			protect := 0
			if r.Intn(4) == 0 { // the final frame arrives intact and last
				protect = lastLen
			}
			dl := c31Deliver(c, pk, r.Intn(21)*r.Intn(2), r.Intn(11)*r.Intn(2), r.Intn(21)*r.Intn(2), protect)
			c31Emit(c, "lossy", dp, maxLate, maxLateTS, c31Interleave(c, dl, frames, popMode, r.Intn(4) == 0))
		case k < 9: // sloppy framing: flipped head/tail flags, repeated / decreasing timestamps, unmarshal errors
			pk, frames, _ := c31Frames(c, dp, nf, maxPk, seq, ts, true)
			dl := c31Deliver(c, pk, r.Intn(21)*r.Intn(2), r.Intn(11)*r.Intn(2), r.Intn(21)*r.Intn(2), 0)
			c31Emit(c, "sloppy", dp, maxLate, maxLateTS, c31Interleave(c, dl, frames, popMode, r.Intn(3) == 0))
		default: // malformed: arbitrary sequence numbers (clusters incl. half a ring apart), flags and timestamps
			base := []uint16{seq, seq + 32760, seq + 40000, seq + 200}
			if maxLateTS != 0 {
				// with a max time delay every purge iteration scans the gap between clusters (quadratic in the
				// gap in the real code): keep the clusters close
				base = []uint16{seq, seq + 1000, seq + 60, seq + 200}
			}
			tss := []uint32{ts, ts + 1, ts + 90000, ts - 5}
			np := 3 + r.Intn(60)
			var ops []string
			for j := 0; j < np; j++ {
				s := base[r.Intn(1+r.Intn(len(base)))] + uint16(r.Intn(12)) //nolint:gosec
				var pl []byte
				switch dp {
				case "fake":
					pl = []byte{byte(r.Intn(8)), byte(j)}
				case "vp8":
					pl = []byte{byte(r.Intn(2)) << 4, byte(j)}
				default:
					pl = []byte{byte(j)}
				}
				if r.Intn(15) == 0 {
					pl = nil
				}
				ops = append(ops, c31Pkt{s, tss[r.Intn(1+r.Intn(len(tss)))], r.Intn(4) == 0, pl}.tok())
				for r.Intn(3) == 0 {
					ops = append(ops, "o")
				}
				if r.Intn(20) == 0 {
					ops = append(ops, "f")
				}
			}
			ops = append(ops, "f")
			for j := 0; j < np+2; j++ {
				ops = append(ops, "o")
			}
			c31Emit(c, "malformed", dp, maxLate, maxLateTS, ops)
		}
	}
}

func init() {
	registry["C31"] = &Prop{
		Workers: 16,
		Timeout: 60 * time.Second,
		Rule: "h: one complete Push/Pop/Flush history per op line against samplebuilder.New(maxLate, depacketizer, 1, " +
			"WithRTPHeaders, WithPacketReleaseHandler[, WithMaxTimeDelay]); depacketizer = flag-driven fake, real VP8 or real Opus; " +
			"5..300 frames of 1..8 packets, sequence numbers starting anywhere incl. just below 65536 and 32768, timestamps incl. " +
			"just below 2^32 and jumps up to 2^30; kinds: lossfree (no loss/dup, reordering window mostly below maxLate), lossy " +
			"(loss 0-20 %, duplication 0-10 %, reordering window 0-20, optional mid-stream Flush), sloppy (same plus flipped " +
			"head/tail flags, repeated/decreasing timestamps, Unmarshal errors, empty payloads), malformed (arbitrary sequence " +
			"numbers in clusters up to half a ring apart — close clusters when a max time delay is set, because the real purge " +
			"loop is quadratic in the gap then —, arbitrary flags), ringfull (65 436..65 835 consecutive packets buffered under " +
			"maxLate 65535 / 40000 / 32768, so that the Push taking the last free slot makes `filled` read empty); " +
			"Pop interleaved never / randomly / after every Push / " +
			"twice / in bursts; final Flush and frames+3 Pops; maxLate in {0..2, 1, 5, 10, 50, 500, random <= 80}, max time delay off " +
			"or 1..2^32-1 ticks. Non-trivial: distinct histories in which at least one sample is emitted.",
		Gen:  c31Gen,
		Exec: c31Exec,
		Class: func(a []string, out string) string {
			if len(a) < 3 {
				return ""
			}

			return a[1] + "/" + a[2]
		},
		Trivial: func(a []string, out string) bool {
			for _, t := range strings.Fields(out) {
				if strings.HasPrefix(t, "s") {
					return false
				}
			}

			return true
		},
	}
}
