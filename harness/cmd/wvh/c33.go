package main

import (
	"bytes"
	"encoding/binary"
	"errors"
	"fmt"
	"hash/fnv"
	"io"
	"math/rand"
	"os"
	"strconv"
	"strings"

	"github.com/pion/rtp"
	"github.com/pion/webrtc/v4/pkg/media/oggreader"
	"github.com/pion/webrtc/v4/pkg/media/oggwriter"
)

// C33 — Ogg/Opus writers and reader.  Line protocol: see lean/WebrtcVerif/Drv/C33.lean.

// memFile is a seekable in-memory output (Write appends; Seek only reports the end; WriteAt splices).
type memFile struct{ buf []byte }

func (m *memFile) Write(p []byte) (int, error) { m.buf = append(m.buf, p...); return len(p), nil }

func (m *memFile) Seek(off int64, whence int) (int64, error) {
	if off != 0 || whence != io.SeekCurrent {
		return 0, errors.New("memFile: unsupported seek")
	}

	return int64(len(m.buf)), nil
}

func (m *memFile) WriteAt(p []byte, off int64) (int, error) {
	if off < 0 {
		return 0, errors.New("memFile: negative offset")
	}
	if need := int(off) + len(p); need > len(m.buf) {
		m.buf = append(m.buf, make([]byte, need-len(m.buf))...)
	}
	copy(m.buf[off:], p)

	return len(p), nil
}

func c33Payload(s string) ([]byte, bool) {
	switch {
	case strings.HasPrefix(s, "x"):
		return unhx(s[1:]), true
	case strings.HasPrefix(s, "p"):
		f := strings.Split(s[1:], ".")
		if len(f) != 4 {
			return nil, false
		}
		v := [4]int{}
		for i := range f {
			n, err := strconv.Atoi(f[i])
			if err != nil {
				return nil, false
			}
			v[i] = n
		}
		g := genPayload(v[2], v[3])
		if len(g) >= 1 {
			g[0] = byte(v[0])
		}
		if len(g) >= 2 {
			g[1] = byte(v[1])
		}

		return g, true
	}

	return nil, false
}

func c33ErrName(err error) string {
	s := err.Error()
	for _, m := range [][2]string{
		{"invalid channel count", "channel-count"}, {"invalid channel mapping", "channel-map"},
		{"invalid OpusTags", "opus-tags"}, {"file not opened", "file-not-opened"},
		{"output not opened", "output-not-opened"}, {"invalid nil packet", "nil-packet"},
		{"duplicate Ogg track SSRC", "dup-ssrc"}, {"duplicate Ogg track serial", "dup-serial"},
		{"cannot add Ogg tracks", "tracks-started"}, {"does not match Ogg track SSRC", "ssrc-mismatch"},
		{"invalid Opus packet", "opus-packet"},
	} {
		if strings.Contains(s, m[0]) {
			return m[1]
		}
	}

	return "other:" + strings.ReplaceAll(s, " ", "_")
}

type c33Opt struct {
	w oggwriter.WriterOption
	t oggwriter.TrackOption
}

func c33ParseOpt(s string) (c33Opt, bool) {
	if s == "" {
		return c33Opt{}, false
	}
	body := s[1:]
	switch s[0] {
	case 'r':
		n, err := strconv.ParseUint(body, 10, 32)
		o := oggwriter.WithSampleRate(uint32(n))

		return c33Opt{o, o}, err == nil
	case 'c':
		n, err := strconv.ParseUint(body, 10, 16)
		o := oggwriter.WithChannelCount(uint16(n))

		return c33Opt{o, o}, err == nil
	case 's':
		n, err := strconv.ParseUint(body, 10, 32)

		return c33Opt{nil, oggwriter.WithSerial(uint32(n))}, err == nil
	case 'v':
		o := oggwriter.WithVendor(string(unhx(body)))

		return c33Opt{o, o}, true
	case 'm':
		f := strings.Split(body, ".")
		if len(f) != 4 {
			return c33Opt{}, false
		}
		v := [3]uint64{}
		for i := 0; i < 3; i++ {
			n, err := strconv.ParseUint(f[i], 10, 8)
			if err != nil {
				return c33Opt{}, false
			}
			v[i] = n
		}
		o := oggwriter.WithChannelMapping(uint8(v[0]), uint8(v[1]), uint8(v[2]), unhx(f[3]))

		return c33Opt{o, o}, true
	case 'u':
		cs := []oggwriter.UserComment{}
		if body != "-" {
			for _, kv := range strings.Split(body, ",") {
				p := strings.Split(kv, ".")
				if len(p) != 2 {
					return c33Opt{}, false
				}
				cs = append(cs, oggwriter.UserComment{Comment: string(unhx(p[0])), Value: string(unhx(p[1]))})
			}
		}
		o := oggwriter.WithUserComments(cs...)

		return c33Opt{o, o}, true
	}

	return c33Opt{}, false
}

func c33HeadShow(h *oggreader.OggHeader, err error) string {
	if err != nil {
		s := err.Error()
		switch {
		case strings.Contains(s, "payload for id page must be"):
			return "badlen"
		case strings.Contains(s, "unsupported channel mapping family"):
			return "family"
		case strings.Contains(s, "bad header signature"):
			return "badsig"
		case strings.Contains(s, "wrong header, expected beginning of stream"):
			return "badtype"
		case strings.Contains(s, "bad payload signature"):
			return "badpayloadsig"
		}

		return "readerr"
	}

	return fmt.Sprintf("ok.%d.%d.%d.%d.%d.%d.%d.%d.%s", h.Version, h.Channels, h.PreSkip, h.SampleRate, h.OutputGain,
		h.ChannelMap, h.StreamCount, h.CoupledCount, hx([]byte(h.ChannelMapping)))
}

func fnvStr(s string) uint64 {
	h := fnv.New64a()
	h.Write([]byte(s))

	return h.Sum64()
}

func c33TagsShow(t *oggreader.OpusTags, err error) string {
	if err != nil {
		return "badsig"
	}
	sb := strings.Builder{}
	for _, c := range t.UserComments {
		sb.WriteString(hx([]byte(c.Comment)) + "=" + hx([]byte(c.Value)) + ";")
	}

	return fmt.Sprintf("ok.%s.%d.%d", strings.ReplaceAll(fnv64s([]byte(t.Vendor)), " ", "."), len(t.UserComments), fnvStr(sb.String()))
}

type c33Page struct {
	ht      uint8
	serial  uint32
	payload []byte
}

// c33Read runs the real reader page by page: summary line + the pages.
func c33Read(file []byte, doChecksum bool) (string, []c33Page) {
	r, err := oggreader.NewWithOptions(bytes.NewReader(file), oggreader.WithDoChecksum(doChecksum))
	if err != nil {
		return "R 0 newerr 0", nil
	}
	pages := []c33Page{}
	sb := strings.Builder{}
	end := ""
	for {
		payload, hdr, err := r.ParseNextPage()
		if err != nil {
			switch {
			case errors.Is(err, io.EOF):
				end = "eof"
			case errors.Is(err, io.ErrUnexpectedEOF):
				end = "unexpected"
			case strings.Contains(err.Error(), "checksum"):
				end = "checksum"
			default:
				end = "other"
			}

			break
		}
		_, _, ht, index, nseg := hdr.VerifFields()
		fmt.Fprintf(&sb, "%d,%d,%d,%d,%d,%s;", ht, hdr.GranulePosition, hdr.Serial, index, nseg,
			strings.ReplaceAll(fnv64s(payload), " ", ","))
		pages = append(pages, c33Page{ht, hdr.Serial, payload})
	}

	return fmt.Sprintf("R %d %s %d", len(pages), end, fnvStr(sb.String())), pages
}

func c33NewWithShow(file []byte, doChecksum bool) string {
	if doChecksum {
		_, h, err := oggreader.NewWith(bytes.NewReader(file))

		return c33HeadShow(h, err)
	}
	// NewWith always verifies checksums; without them only the page-level reader is exercised
	return "skipped"
}

func c33File(serials []uint32, file []byte) string {
	rs, pages := c33Read(file, true)
	sb := strings.Builder{}
	sb.WriteString("H n=" + c33NewWithShow(file, true))
	for _, s := range serials {
		mine := []c33Page{}
		for _, p := range pages {
			if p.serial == s {
				mine = append(mine, p)
			}
		}
		if len(mine) < 2 {
			sb.WriteString(" h=none t=none")

			continue
		}
		tags := append([]byte{}, mine[1].payload...)
		for _, p := range mine[2:] {
			if p.ht&1 == 0 {
				break
			}
			tags = append(tags, p.payload...)
		}
		sb.WriteString(" h=" + c33HeadShow(oggreader.ParseOpusHead(mine[0].payload)))
		sb.WriteString(" t=" + c33TagsShow(oggreader.ParseOpusTags(tags)))
	}

	return fmt.Sprintf("F %s %s %s", hx(file), rs, sb.String())
}

// c33Mask zeroes serial and checksum of every page (to compare writers that differ only in the serial).
func c33Mask(file []byte) ([]byte, bool) {
	out := append([]byte{}, file...)
	pos := 0
	for pos < len(out) {
		if pos+27 > len(out) {
			return nil, false
		}
		nseg := int(out[pos+26])
		if pos+27+nseg > len(out) {
			return nil, false
		}
		n := 0
		for _, s := range out[pos+27 : pos+27+nseg] {
			n += int(s)
		}
		for i := 14; i < 18; i++ {
			out[pos+i] = 0
		}
		for i := 22; i < 26; i++ {
			out[pos+i] = 0
		}
		pos += 27 + nseg + n
	}

	return out, pos == len(out)
}

type c33Single interface {
	WriteRTP(*rtp.Packet) error
	Close() error
}

func c33RunSingleOps(w c33Single, ops []string) (string, bool) {
	sts := []string{}
	for _, op := range ops {
		switch op {
		case "C":
			if err := w.Close(); err != nil {
				sts = append(sts, "c!"+c33ErrName(err))
			} else {
				sts = append(sts, "c")
			}
		case "N":
			sts = append(sts, c33Status(w.WriteRTP(nil), nil))
		default:
			p, ok := c33Payload(op)
			if !ok {
				return "", false
			}
			sts = append(sts, c33Status(w.WriteRTP(&rtp.Packet{Payload: p}), p))
		}
	}
	if err := w.Close(); err != nil {
		sts = append(sts, "close!"+c33ErrName(err))
	}
	if len(sts) == 0 {
		return "-", true
	}

	return strings.Join(sts, ","), true
}

func c33Status(err error, payload []byte) string {
	if err != nil {
		return "e:" + c33ErrName(err)
	}
	if len(payload) == 0 {
		return "z"
	}

	return "k"
}

func c33ExecSingle(a []string) string {
	if len(a) < 6 {
		return "bad-op"
	}
	rate, e1 := strconv.ParseUint(a[2], 10, 32)
	ch, e2 := strconv.ParseUint(a[3], 10, 16)
	serial, e3 := strconv.ParseUint(a[4], 10, 32)
	n, e4 := strconv.Atoi(a[5])
	if e1 != nil || e2 != nil || e3 != nil || e4 != nil || len(a) != 6+n {
		return "bad-op"
	}
	ops := a[6:]
	seek := a[1] == "1"
	var file, pub []byte
	var sts string
	if seek {
		f, err := os.CreateTemp("", "c33-*.ogg")
		if err != nil {
			return "tmpfile-error"
		}
		defer os.Remove(f.Name())
		w, err := oggwriter.VerifNewSingle(f, f, uint32(rate), uint16(ch), uint32(serial))
		if err != nil {
			f.Close()

			return "E " + c33ErrName(err)
		}
		var ok bool
		if sts, ok = c33RunSingleOps(w, ops); !ok {
			return "bad-op"
		}
		file, _ = os.ReadFile(f.Name())
		// the public constructor on a second file
		f2, err := os.CreateTemp("", "c33p-*.ogg")
		if err != nil {
			return "tmpfile-error"
		}
		f2.Close()
		defer os.Remove(f2.Name())
		w2, err := oggwriter.New(f2.Name(), uint32(rate), uint16(ch))
		if err != nil {
			return "X public-constructor-differs"
		}
		if sts2, _ := c33RunSingleOps(w2, ops); sts2 != sts {
			return "X public-constructor-differs"
		}
		pub, _ = os.ReadFile(f2.Name())
	} else {
		buf := &bytes.Buffer{}
		w, err := oggwriter.VerifNewSingle(buf, nil, uint32(rate), uint16(ch), uint32(serial))
		if err != nil {
			if _, err2 := oggwriter.NewWith(&bytes.Buffer{}, uint32(rate), uint16(ch)); err2 == nil {
				return "X public-constructor-differs"
			}

			return "E " + c33ErrName(err)
		}
		var ok bool
		if sts, ok = c33RunSingleOps(w, ops); !ok {
			return "bad-op"
		}
		file = buf.Bytes()
		buf2 := &bytes.Buffer{}
		w2, err := oggwriter.NewWith(buf2, uint32(rate), uint16(ch))
		if err != nil {
			return "X public-constructor-differs"
		}
		if sts2, _ := c33RunSingleOps(w2, ops); sts2 != sts {
			return "X public-constructor-differs"
		}
		pub = buf2.Bytes()
	}
	// public output: same bytes up to serial and checksum, and every checksum valid for the real reader
	m1, ok1 := c33Mask(file)
	m2, ok2 := c33Mask(pub)
	if !ok1 || !ok2 || !bytes.Equal(m1, m2) {
		return "X public-constructor-differs"
	}
	if rs, _ := c33Read(pub, true); !strings.Contains(rs, " eof ") {
		return "X public-constructor-bad-crc"
	}

	return fmt.Sprintf("W %s %s", sts, c33File([]uint32{uint32(serial)}, file))
}

func c33TakeOpts(a []string, pos int) ([]c33Opt, int, bool) {
	if pos >= len(a) {
		return nil, 0, false
	}
	n, err := strconv.Atoi(a[pos])
	if err != nil || pos+1+n > len(a) {
		return nil, 0, false
	}
	opts := []c33Opt{}
	for _, s := range a[pos+1 : pos+1+n] {
		o, ok := c33ParseOpt(s)
		if !ok {
			return nil, 0, false
		}
		opts = append(opts, o)
	}

	return opts, pos + 1 + n, true
}

type c33Track struct {
	t      *oggwriter.Track
	ssrc   uint32
	serial uint32
}

func c33ExecMulti(a []string) string { //nolint:cyclop
	if len(a) < 3 {
		return "bad-op"
	}
	seek := a[1] == "1"
	wo, pos, ok := c33TakeOpts(a, 2)
	if !ok {
		return "bad-op"
	}
	wopts := []oggwriter.WriterOption{}
	for _, o := range wo {
		if o.w == nil {
			return "bad-op"
		}
		wopts = append(wopts, o.w)
	}
	var out io.Writer
	buf := &bytes.Buffer{}
	mem := &memFile{}
	if seek {
		out = mem
		wopts = append(wopts, oggwriter.WithSeekableOutput(mem))
	} else {
		out = buf
	}
	w, err := oggwriter.NewWriter(out, wopts...)
	if err != nil {
		return "E " + c33ErrName(err)
	}
	if pos >= len(a) {
		return "bad-op"
	}
	nt, err := strconv.Atoi(a[pos])
	if err != nil {
		return "bad-op"
	}
	pos++
	tracks := []c33Track{}
	tsts := []string{}
	for k := 0; k < nt; k++ {
		if pos >= len(a) {
			return "bad-op"
		}
		ssrc, err := strconv.ParseUint(a[pos], 10, 32)
		if err != nil {
			return "bad-op"
		}
		to, np, ok := c33TakeOpts(a, pos+1)
		if !ok {
			return "bad-op"
		}
		pos = np
		topts := []oggwriter.TrackOption{}
		var serial uint64
		for i, o := range to {
			topts = append(topts, o.t)
			if s := a[np-len(to)+i]; s[0] == 's' {
				serial, _ = strconv.ParseUint(s[1:], 10, 32)
			}
		}
		tr, err := w.NewTrack(uint32(ssrc), topts...)
		if err != nil {
			tsts = append(tsts, "e:"+c33ErrName(err))

			continue
		}
		tsts = append(tsts, "k")
		tracks = append(tracks, c33Track{tr, uint32(ssrc), uint32(serial)})
	}
	if pos >= len(a) {
		return "bad-op"
	}
	n, err := strconv.Atoi(a[pos])
	if err != nil || len(a) != pos+1+n {
		return "bad-op"
	}
	sts := []string{}
	for _, op := range a[pos+1:] {
		switch {
		case op == "C":
			if err := w.Close(); err != nil {
				sts = append(sts, "c!"+c33ErrName(err))
			} else {
				sts = append(sts, "c")
			}
		case strings.HasPrefix(op, "L"):
			f := strings.Split(op[1:], ".")
			if len(f) != 2 {
				return "bad-op"
			}
			ssrc, e1 := strconv.ParseUint(f[0], 10, 32)
			serial, e2 := strconv.ParseUint(f[1], 10, 32)
			if e1 != nil || e2 != nil {
				return "bad-op"
			}
			tr, err := w.NewTrack(uint32(ssrc), oggwriter.WithSerial(uint32(serial)))
			if err != nil {
				sts = append(sts, "e:"+c33ErrName(err))
			} else {
				sts = append(sts, "k")
				tracks = append(tracks, c33Track{tr, uint32(ssrc), uint32(serial)})
			}
		default:
			f := strings.SplitN(op, ":", 2)
			if len(f) != 2 {
				return "bad-op"
			}
			i, err := strconv.Atoi(f[0])
			if err != nil {
				return "bad-op"
			}
			if i >= len(tracks) {
				sts = append(sts, "n")

				continue
			}
			tr := tracks[i]
			switch {
			case f[1] == "N":
				sts = append(sts, c33Status(tr.t.WriteRTP(nil), nil))
			case strings.HasPrefix(f[1], "M"):
				p, ok := c33Payload(f[1][1:])
				if !ok {
					return "bad-op"
				}
				sts = append(sts, c33Status(tr.t.WriteRTP(&rtp.Packet{Header: rtp.Header{SSRC: tr.ssrc + 1}, Payload: p}), p))
			default:
				p, ok := c33Payload(f[1])
				if !ok {
					return "bad-op"
				}
				sts = append(sts, c33Status(tr.t.WriteRTP(&rtp.Packet{Header: rtp.Header{SSRC: tr.ssrc}, Payload: p}), p))
			}
		}
	}
	if err := w.Close(); err != nil {
		sts = append(sts, "close!"+c33ErrName(err))
	}
	file := buf.Bytes()
	if seek {
		file = mem.buf
	}
	serials := []uint32{}
	for _, t := range tracks {
		serials = append(serials, t.serial)
	}
	join := func(x []string) string {
		if len(x) == 0 {
			return "-"
		}

		return strings.Join(x, ",")
	}

	return fmt.Sprintf("T %s W %s %s", join(tsts), join(sts), c33File(serials, file))
}

// ---- generators ----

func c33SamplesPerFrame(toc byte) int {
	cfg := int(toc >> 3)
	switch {
	case cfg < 12:
		return []int{480, 960, 1920, 2880}[cfg%4]
	case cfg < 16:
		return []int{480, 960}[cfg%2]
	}

	return []int{120, 240, 480, 960}[cfg%4]
}

var c33Sizes = []int{1, 2, 3, 254, 255, 256, 509, 510, 511, 765, 65024, 65025, 65026, 65279, 65280, 65281, 70000, 130050, 130051}

// c33GenPacket: valid → an Opus packet the writer must accept; otherwise anything.
func c33GenPacket(r *rand.Rand, valid bool, big *int) string {
	toc := r.Intn(256)
	b1 := r.Intn(256)
	l := 1 + r.Intn(120)
	if r.Intn(4) == 0 {
		l = 1 + r.Intn(600)
	}
	switch r.Intn(12) {
	case 0:
		l = c33Sizes[r.Intn(len(c33Sizes))]
		if *big > 0 && r.Intn(2) == 0 {
			l = c33Sizes[10+r.Intn(len(c33Sizes)-10)]
		}
	case 1:
		l = 255*(1+r.Intn(5)) + r.Intn(3) - 1
	case 2:
		l = 1 + r.Intn(4)
	}
	if *big < 0 && l > 300 { // long histories: keep the file small
		l = []int{254, 255, 256, 1 + r.Intn(300)}[r.Intn(4)]
	}
	if l > 60000 {
		if *big <= 0 {
			l = 255 * (1 + r.Intn(3))
		} else {
			*big--
		}
	}
	if valid {
		if toc&3 == 3 {
			maxFrames := 5760 / c33SamplesPerFrame(byte(toc))
			fc := 1 + r.Intn(maxFrames)
			if r.Intn(3) == 0 {
				fc = maxFrames
			}
			b1 = fc | r.Intn(4)<<6
			if l < 2 {
				l = 2
			}
		}

		return fmt.Sprintf("p%d.%d.%d.%d", toc, b1, l, r.Intn(256))
	}
	switch r.Intn(6) {
	case 0:
		return "x-"
	case 1: // code 3 without a count byte
		return fmt.Sprintf("x%02x", toc|3)
	case 2: // zero frames
		return fmt.Sprintf("p%d.%d.%d.%d", toc|3, r.Intn(4)<<6, 2+r.Intn(50), r.Intn(256))
	case 3: // just above 120 ms
		t := toc | 3
		fc := 5760/c33SamplesPerFrame(byte(t)) + 1
		if fc > 63 {
			fc = 63
		}

		return fmt.Sprintf("p%d.%d.%d.%d", t, fc, 2+r.Intn(50), r.Intn(256))
	}

	return fmt.Sprintf("p%d.%d.%d.%d", toc, b1, l, r.Intn(256))
}

// channel mappings on and just outside the border of what validateChannelMapping accepts
var c33EdgeMappings = []string{
	"m255.1.2.00", "m255.1.2.0102", "m255.2.0.00", "m255.2.1.0001", "m255.0.0.00", "m255.1.1.02", "m255.1.0.01",
	"m255.1.0.-", "m1.1.1.0100", "m1.1.0.0001", "m1.1.1.00", "m1.1.0.01", "m2.1.0.01", "m2.1.1.00",
	"m2.1.0.0000", "m0.1.0.00", "m3.1.0.00", "m254.1.0.00", "m1.1.1.000102",
	"m255.1.1.0001ff", "m255.1.0.00ff00", "m255.1.1.01", "m1.1.0.00", "m1.1.1.0001", "m2.1.0.00",
}

var c33UTF8 = [][]byte{
	[]byte("pion"), []byte("é"), []byte("€uro"), []byte("😀"), []byte("a=b"), {}, []byte("libopus 1.5, pion"),
	{0xed, 0x9f, 0xbf}, {0xee, 0x80, 0x80}, {0xf4, 0x8f, 0xbf, 0xbf}, {0xe0, 0xa0, 0x80}, {0xf0, 0x90, 0x80, 0x80}, {0xc2, 0x80},
}

var c33BadUTF8 = [][]byte{
	{0xff}, {0xc0, 0x80}, {0xc1, 0xbf}, {0xed, 0xa0, 0x80}, {0xf4, 0x90, 0x80, 0x80}, {0xe2, 0x82}, {0x80}, {0xe0, 0x9f, 0xbf},
	{0xf0, 0x8f, 0xbf, 0xbf}, {0xf5, 0x80, 0x80, 0x80}, {0x61, 0xc3}, {0xf1, 0x80, 0x80},
}

func c33GenText(r *rand.Rand, valid bool) []byte {
	if !valid && r.Intn(2) == 0 {
		t := append([]byte{}, c33UTF8[r.Intn(len(c33UTF8))]...)

		return append(t, c33BadUTF8[r.Intn(len(c33BadUTF8))]...)
	}
	out := []byte{}
	for k := r.Intn(4); k >= 0; k-- {
		out = append(out, c33UTF8[r.Intn(len(c33UTF8))]...)
	}

	return out
}

func c33GenName(r *rand.Rand, valid bool) []byte {
	if !valid {
		return [][]byte{{}, []byte("A=B"), {0x7e}, {0x1f, 0x41}, []byte("TITLE\x7f"), {0xc3, 0xa9}}[r.Intn(6)]
	}
	n := 1 + r.Intn(8)
	out := make([]byte, n)
	for i := range out {
		c := byte(0x20 + r.Intn(0x7e-0x20))
		if c == '=' {
			c = 0x7d
		}
		out[i] = c
	}

	return out
}

// c33GenOpts: 0..3 options; clean → all valid.
func c33GenOpts(r *rand.Rand, clean bool, allowBigVendor bool) []string {
	opts := []string{}
	for k := r.Intn(4); k > 0; k-- {
		switch r.Intn(6) {
		case 0:
			opts = append(opts, fmt.Sprintf("r%d", []uint32{48000, 8000, 16000, 44100, 0, 4294967295, r.Uint32()}[r.Intn(7)]))
		case 1:
			n := 1 + r.Intn(2)
			if !clean && r.Intn(3) == 0 {
				n = []int{0, 3, 8, 255, 65535}[r.Intn(5)]
			}
			opts = append(opts, fmt.Sprintf("c%d", n))
		case 2:
			switch v := r.Intn(8); {
			case v == 0:
				opts = append(opts, "m1.1.0.00")
			case v == 1:
				opts = append(opts, "m1.1.1.0001")
			case v == 2:
				opts = append(opts, "m2.1.0.00")
			case v <= 5 || clean:
				cc := r.Intn(2)
				n := 1 + r.Intn(8)
				if r.Intn(10) == 0 {
					n = 255
				}
				m := make([]byte, n)
				for i := range m {
					m[i] = byte(r.Intn(1 + cc))
					if r.Intn(5) == 0 {
						m[i] = 255
					}
				}
				opts = append(opts, fmt.Sprintf("m255.1.%d.%s", cc, hx(m)))
			case v == 6:
				opts = append(opts, c33EdgeMappings[r.Intn(len(c33EdgeMappings))])
			default:
				m := make([]byte, r.Intn(4))
				for i := range m {
					m[i] = byte(r.Intn(4))
				}
				if r.Intn(6) == 0 {
					m = make([]byte, 256)
				}
				opts = append(opts, fmt.Sprintf("m%d.%d.%d.%s", []int{0, 1, 2, 3, 255, 7}[r.Intn(6)], r.Intn(3), r.Intn(3), hx(m)))
			}
		case 3:
			v := c33GenText(r, clean || r.Intn(3) != 0)
			if allowBigVendor && r.Intn(12) == 0 {
				// OpusTags packet of 65024 / 65025 / 65026 / 70000 bytes when there are no comments
				v = bytes.Repeat([]byte("v"), []int{65024, 65025, 65026, 70000}[r.Intn(4)]-16)
			}
			opts = append(opts, "v"+hx(v))
		default:
			n := r.Intn(4)
			if n == 0 {
				opts = append(opts, "u-")

				break
			}
			cs := []string{}
			for ; n > 0; n-- {
				ok := clean || r.Intn(6) != 0
				cs = append(cs, hx(c33GenName(r, ok))+"."+hx(c33GenText(r, clean || r.Intn(6) != 0)))
			}
			opts = append(opts, "u"+strings.Join(cs, ","))
		}
	}

	return opts
}

func c33GenSingle(c *Ctx) {
	r := c.Rng
	clean := r.Intn(10) < 7
	rate := []uint32{48000, 48000, 8000, 16000, 44100, 0, 4294967295, r.Uint32()}[r.Intn(8)]
	ch := 1 + r.Intn(2)
	if !clean && r.Intn(4) == 0 {
		ch = []int{0, 3, 255, 65535}[r.Intn(4)]
	}
	serial := []uint32{r.Uint32(), r.Uint32(), 0, 4294967295, 1}[r.Intn(5)]
	n := r.Intn(14)
	switch r.Intn(12) {
	case 0:
		n = 0
	case 1:
		n = 40 + r.Intn(260)
	}
	ops := []string{}
	big := 0
	if n >= 40 {
		big = -1
	} else if r.Intn(12) == 0 {
		big = 1 + r.Intn(2)
	}
	for k := 0; k < n; k++ {
		switch {
		case !clean && r.Intn(25) == 0:
			ops = append(ops, "C")
		case !clean && r.Intn(20) == 0:
			ops = append(ops, "N")
		default:
			ops = append(ops, c33GenPacket(r, clean || r.Intn(4) != 0, &big))
		}
	}
	if n < 40 && r.Intn(14) == 0 {
		// the last packet ends on a continuation page (255·255·k bytes) or spans pages: exercises the EOS rewrite
		toc := r.Intn(64) << 2
		ops = append(ops, fmt.Sprintf("p%d.%d.%d.%d", toc, r.Intn(256), []int{65025, 65025, 130050, 65026, 70000}[r.Intn(5)], r.Intn(256)))
	}
	c.Emit("s %d %d %d %d %d %s", r.Intn(2), rate, ch, serial, len(ops), strings.Join(ops, " "))
}

func c33GenMulti(c *Ctx) {
	r := c.Rng
	clean := r.Intn(10) < 7
	wopts := c33GenOpts(r, clean || r.Intn(2) == 0, r.Intn(4) == 0)
	nt := r.Intn(5)
	if clean && nt == 0 {
		nt = 1 + r.Intn(3)
	}
	sb := strings.Builder{}
	fmt.Fprintf(&sb, "m %d %d %s %d", r.Intn(2), len(wopts), strings.Join(wopts, " "), nt)
	serials := []uint32{}
	ssrcs := []uint32{}
	for k := 0; k < nt; k++ {
		ssrc := r.Uint32()
		serial := []uint32{r.Uint32(), r.Uint32(), uint32(k), 4294967295 - uint32(k)}[r.Intn(4)]
		if !clean && k > 0 && r.Intn(8) == 0 {
			serial = serials[r.Intn(len(serials))]
		}
		if !clean && k > 0 && r.Intn(8) == 0 {
			ssrc = ssrcs[r.Intn(len(ssrcs))]
		}
		serials = append(serials, serial)
		ssrcs = append(ssrcs, ssrc)
		topts := c33GenOpts(r, clean || r.Intn(3) != 0, r.Intn(6) == 0)
		at := r.Intn(len(topts) + 1)
		topts = append(topts[:at], append([]string{fmt.Sprintf("s%d", serial)}, topts[at:]...)...)
		fmt.Fprintf(&sb, " %d %d %s", ssrc, len(topts), strings.Join(topts, " "))
	}
	n := r.Intn(30)
	switch r.Intn(12) {
	case 0:
		n = 0
	case 1:
		n = 60 + r.Intn(240)
	}
	if nt == 0 {
		serials = append(serials, 0)
	}
	ops := []string{}
	big := 0
	if n >= 40 {
		big = -1
	} else if r.Intn(12) == 0 {
		big = 1 + r.Intn(2)
	}
	for k := 0; k < n; k++ {
		i := r.Intn(nt + 1)
		if clean && nt > 0 {
			i = r.Intn(nt)
		}
		switch {
		case !clean && r.Intn(40) == 0:
			ops = append(ops, "C")
		case !clean && r.Intn(25) == 0:
			ops = append(ops, fmt.Sprintf("L%d.%d", r.Uint32(), []uint32{r.Uint32(), serials[0]}[r.Intn(2)]))
		case !clean && r.Intn(25) == 0:
			ops = append(ops, fmt.Sprintf("%d:N", i))
		case !clean && r.Intn(25) == 0:
			ops = append(ops, fmt.Sprintf("%d:M%s", i, c33GenPacket(r, true, &big)))
		default:
			ops = append(ops, fmt.Sprintf("%d:%s", i, c33GenPacket(r, clean || r.Intn(4) != 0, &big)))
		}
	}
	if n < 40 && nt > 0 && r.Intn(14) == 0 {
		toc := r.Intn(64) << 2
		ops = append(ops, fmt.Sprintf("%d:p%d.%d.%d.%d", r.Intn(nt), toc, r.Intn(256), []int{65025, 65025, 130050, 65026, 70000}[r.Intn(5)], r.Intn(256)))
	}
	fmt.Fprintf(&sb, " %d %s", len(ops), strings.Join(ops, " "))
	c.Emit("%s", sb.String())
}

// c33ValidFile writes a small valid file with the real multi-track writer (deterministic: serials fixed).
func c33ValidFile(r *rand.Rand) []byte {
	buf := &bytes.Buffer{}
	w, err := oggwriter.NewWriter(buf, oggwriter.WithVendor(string(c33GenText(r, true))))
	if err != nil {
		return nil
	}
	nt := 1 + r.Intn(2)
	trs := []*oggwriter.Track{}
	for k := 0; k < nt; k++ {
		t, err := w.NewTrack(uint32(k), oggwriter.WithSerial(uint32(100+k)), oggwriter.WithChannelCount(uint16(1+r.Intn(2))))
		if err != nil {
			return nil
		}
		trs = append(trs, t)
	}
	for k := r.Intn(5); k > 0; k-- {
		i := r.Intn(nt)
		p := genPayload(1+r.Intn(600), r.Intn(256))
		p[0] = byte(r.Intn(64)) << 2
		_ = trs[i].WriteRTP(&rtp.Packet{Header: rtp.Header{SSRC: uint32(i)}, Payload: p})
	}
	_ = w.Close()

	return buf.Bytes()
}

func c33GenRaw(c *Ctx) {
	r := c.Rng
	f := c33ValidFile(r)
	ck := r.Intn(4) != 0
	if len(f) == 0 {
		return
	}
	switch r.Intn(8) {
	case 0: // untouched
	case 1, 2:
		f = f[:r.Intn(len(f)+1)]
	case 3:
		f[r.Intn(len(f))] ^= byte(1 << r.Intn(8))
	case 4: // a segment count / lacing value / length field set to a boundary value
		f[r.Intn(len(f))] = []byte{0, 1, 7, 8, 254, 255}[r.Intn(6)]
	case 5:
		f[26] = byte(r.Intn(256))
	case 6:
		f = genPayload(r.Intn(120), r.Intn(256))
	case 7:
		cut := r.Intn(len(f) + 1)
		f = append(append([]byte{}, f[:cut]...), genPayload(r.Intn(40), r.Intn(256))...)
	}
	c.Emit("raw %s %s", b2s(ck), hx(f))
}

var c33Lens = []uint32{0, 1, 7, 8, 0xFFFF, 0xFFFFFFFF, 0x7FFFFFFF, 0x80000000}

func c33GenHeadTags(c *Ctx) {
	r := c.Rng
	if r.Intn(2) == 0 {
		fam := []byte{0, 0, 1, 2, 3, 255, byte(r.Intn(256))}[r.Intn(7)]
		ch := byte(r.Intn(4))
		if r.Intn(6) == 0 {
			ch = byte(r.Intn(256))
		}
		p := append([]byte("OpusHead"), 1, ch, 0, 15, 0x80, 0xbb, 0, 0, byte(r.Intn(256)), byte(r.Intn(256)), fam)
		if fam != 0 {
			p = append(p, byte(r.Intn(3)), byte(r.Intn(3)))
			p = append(p, genPayload(int(ch), r.Intn(256))...)
		}
		switch r.Intn(6) {
		case 0:
			p = p[:r.Intn(len(p)+1)]
		case 1:
			p = append(p, genPayload(1+r.Intn(4), 0)...)
		case 2:
			p[r.Intn(len(p))] = byte(r.Intn(256))
		}
		c.Emit("head %s", hx(p))

		return
	}
	le := func(n uint32) []byte { b := make([]byte, 4); binary.LittleEndian.PutUint32(b, n); return b }
	vendor := c33GenText(r, true)
	p := append([]byte("OpusTags"), le(uint32(len(vendor)))...)
	p = append(p, vendor...)
	n := r.Intn(4)
	p = append(p, le(uint32(n))...)
	lenPos := []int{8, 12 + len(vendor)}
	for ; n > 0; n-- {
		kv := append(append(c33GenName(r, true), '='), c33GenText(r, true)...)
		if r.Intn(8) == 0 {
			kv = c33GenName(r, true) // no '='
		}
		lenPos = append(lenPos, len(p))
		p = append(p, le(uint32(len(kv)))...)
		p = append(p, kv...)
	}
	switch r.Intn(6) {
	case 0:
		p = p[:r.Intn(len(p)+1)]
	case 1, 2: // a length field set to a boundary value or off by a little
		at := lenPos[r.Intn(len(lenPos))]
		v := c33Lens[r.Intn(len(c33Lens))]
		if r.Intn(2) == 0 {
			v = binary.LittleEndian.Uint32(p[at:]) + uint32(r.Intn(9)) - 4
		}
		copy(p[at:], le(v))
	case 3:
		p[r.Intn(len(p))] = byte(r.Intn(256))
	}
	c.Emit("tags %s", hx(p))
}

func init() {
	registry["C33"] = &Prop{
		Workers: 16,
		Rule: "s: single-track OggWriter (New on a temp file / NewWith on a buffer; serial fixed through a verif hook, and " +
			"the public constructor run on the same ops and compared up to serial+CRC), sample rates incl. 0 and 2^32-1, channel " +
			"counts 1,2 (and invalid 0,3,255,65535), 0..13 (sometimes 40..300) ops: Opus packets with every TOC byte, code-3 " +
			"frame counts up to the 120 ms limit (valid) or 0 / above it / missing (invalid), sizes 1..400 or boundary " +
			"{1,2,3,254..256,509..511,765,k·255±1,65024..65026,65279..65281,70000,130050,130051}, empty payloads, nil packets, " +
			"Close in the middle. m: multi-track Writer, seekable (in-memory WriteAt) or not, 0..3 writer options and per track " +
			"0..3 options (sample rate, channel count, channel mapping families 0/1/2/255 and invalid ones, vendor incl. " +
			"multi-byte/invalid UTF-8 and 65 kB strings that make OpusTags span pages, user comments with valid/invalid names), " +
			"0..4 tracks (duplicate SSRC/serial sometimes), 0..29 (sometimes 60..300) ops interleaved at random over the tracks: " +
			"packets as above, wrong-SSRC and nil packets, late NewTrack, Close in the middle; one s/m case in 14 ends with a " +
			"65025/65026/70000/130050-byte packet (EOS rewrite on a continuation page); every mapping of a table of 25 on/just " +
			"outside the border of validateChannelMapping once as writer default and once as track override. 70% of the " +
			"random s/m cases are all-valid. " +
			"raw: a valid file from the real writer, untouched / truncated / bit-flipped / a byte set to a boundary value / " +
			"random bytes, read page by page with and without checksums; head/tags: ParseOpusHead / ParseOpusTags on valid " +
			"packets with truncations and length fields set to 0,1,7,8,0xFFFF,0x7FFFFFFF,0x80000000,0xFFFFFFFF or ±4. " +
			"Non-trivial: s/m cases that wrote at least one audio packet, raw cases with at least one page read, head/tags " +
			"inputs of at least 8 bytes.",
		Gen: func(c *Ctx) {
			for i := 0; i < c.N(400, 4000); i++ {
				c33GenSingle(c)
			}
			for i := 0; i < c.N(550, 6000); i++ {
				c33GenMulti(c)
			}
			// every edge mapping once as writer default and once as track override
			for _, m := range c33EdgeMappings {
				c.Emit("m %d 1 %s 1 7 1 s9 2 0:p0.0.3.1 0:p8.0.20.2", c.Rng.Intn(2), m)
				c.Emit("m %d 0 1 7 2 s9 %s 2 0:p0.0.3.1 0:p8.0.20.2", c.Rng.Intn(2), m)
			}
			for i := 0; i < c.N(500, 6000); i++ {
				c33GenRaw(c)
			}
			for i := 0; i < c.N(500, 6000); i++ {
				c33GenHeadTags(c)
			}
		},
		Exec: func(a []string) string {
			switch a[0] {
			case "s":
				return c33ExecSingle(a)
			case "m":
				return c33ExecMulti(a)
			case "raw":
				if len(a) != 3 {
					return "bad-op"
				}
				f := unhx(a[2])
				rs, _ := c33Read(f, a[1] == "1")
				n := "skipped"
				if a[1] == "1" {
					n = c33NewWithShow(f, true)
				}

				return rs + " N " + n
			case "head":
				if len(a) != 2 {
					return "bad-op"
				}

				return c33HeadShow(oggreader.ParseOpusHead(unhx(a[1])))
			case "tags":
				if len(a) != 2 {
					return "bad-op"
				}

				return c33TagsShow(oggreader.ParseOpusTags(unhx(a[1])))
			}

			return "bad-op"
		},
		Class: func(a []string, out string) string {
			f := strings.Fields(out)
			if len(f) == 0 {
				return ""
			}
			switch a[0] {
			case "s":
				if f[0] != "W" {
					return "s " + f[0]
				}

				return "s fd=" + a[1]
			case "m":
				if f[0] != "T" {
					return "m " + f[0]
				}

				nk := 0
				for _, t := range strings.Split(f[1], ",") {
					if t == "k" {
						nk++
					}
				}

				return fmt.Sprintf("m seek=%s tracks=%d", a[1], nk)
			case "raw":
				if len(f) > 2 {
					return "raw ck=" + a[1] + " end=" + f[2]
				}
			case "head", "tags":
				return a[0] + " " + strings.SplitN(f[0], ".", 2)[0]
			}

			return ""
		},
		Trivial: func(a []string, out string) bool {
			f := strings.Fields(out)
			switch a[0] {
			case "s", "m":
				for i, t := range f {
					if t == "W" && i+1 < len(f) {
						for _, s := range strings.Split(f[i+1], ",") {
							if s == "k" {
								return false
							}
						}
					}
				}

				return true
			case "raw":
				return len(f) < 2 || f[1] == "0"
			}

			return len(a) < 2 || len(a[1]) < 16
		},
	}
}
