// wvh — correspondence harness: runs pion/webrtc (from /repo's working tree, built with -tags verif)
// on generated operation lines and writes the operation lines and the implementation's canonical
// outputs side by side, for the Lean driver (wvdriver) to replay and judge.
//
//	wvh <Cxx> -tier quick|thorough -seed N -out DIR     generate + execute
//	wvh <Cxx> -replay FILE -out DIR                      execute the op lines of FILE
package main

import (
	"bufio"
	"encoding/json"
	"flag"
	"fmt"
	"hash/fnv"
	"math/rand"
	"os"
	"os/exec"
	"path/filepath"
	"runtime/debug"
	"sort"
	"strings"
	"sync"
	"time"
)

// Prop is one property's generator and executor. Every op line is self-contained: it carries a
// complete input / history, so it can be replayed and minimised on its own.
type Prop struct {
	// Gen emits op lines (without the property prefix).
	Gen func(c *Ctx)
	// Exec runs the implementation on one op line and returns its canonical output (one line).
	Exec func(args []string) string
	// Class labels an (op, output) pair for the input-distribution histogram; "" = unlabelled.
	Class func(args []string, out string) string
	// Trivial reports cases that exercise nothing (not counted in distinct_nontrivial).
	Trivial func(args []string, out string) bool
	// Workers is the Exec parallelism (default 1: executors that use wall-clock waits stay serial).
	Workers int
	// Rule describes generation and what counts as non-trivial, for the evidence file.
	Rule string
	// Exhaustive is set when Gen enumerates a finite input space completely.
	Exhaustive bool
	// Timeout per op (default 20s); an op that exceeds it yields "timeout".
	Timeout time.Duration
	// Procs > 1: op lines are executed by that many child processes (for executors that need
	// process-global state such as the yield callback, so cannot run concurrently in one process).
	Procs int
}

var registry = map[string]*Prop{}

// Ctx is handed to generators.
type Ctx struct {
	Tier string
	Seed int64
	Rng  *rand.Rand
	ops  []string
}

// Thorough reports the tier.
func (c *Ctx) Thorough() bool { return c.Tier == "thorough" }

// N picks the case count by tier.
func (c *Ctx) N(quick, thorough int) int {
	if c.Thorough() {
		return thorough
	}

	return quick
}

// Emit records one op line.
func (c *Ctx) Emit(format string, a ...any) {
	c.ops = append(c.ops, strings.Join(strings.Fields(fmt.Sprintf(format, a...)), " "))
}

func hx(b []byte) string {
	if len(b) == 0 {
		return "-"
	}

	return fmt.Sprintf("%x", b)
}

func unhx(s string) []byte {
	if s == "-" {
		return nil
	}
	b := make([]byte, len(s)/2)
	for i := range b {
		fmt.Sscanf(s[2*i:2*i+2], "%02x", &b[i])
	}

	return b
}

func b2s(b bool) string {
	if b {
		return "1"
	}

	return "0"
}

func safeExec(p *Prop, args []string) (out string) {
	done := make(chan string, 1)
	go func() {
		defer func() {
			if r := recover(); r != nil {
				msg := fmt.Sprint(r)
				if os.Getenv("VERIF_DEBUG") != "" {
					fmt.Fprintf(os.Stderr, "panic: %v\n%s\n", r, debug.Stack())
				}
				h := fnv.New32a()
				h.Write([]byte(msg))
				done <- fmt.Sprintf("panic %08x", h.Sum32())
			}
		}()
		done <- p.Exec(args)
	}()
	to := p.Timeout
	if to == 0 {
		to = 20 * time.Second
	}
	select {
	case o := <-done:
		return strings.Join(strings.Fields(o), " ")
	case <-time.After(to):
		return "timeout"
	}
}

func main() {
	if len(os.Args) < 2 {
		fmt.Fprintln(os.Stderr, "usage: wvh <Cxx> [-tier T] [-seed N] [-out DIR] [-replay FILE]")
		os.Exit(2)
	}
	id := os.Args[1]
	fs := flag.NewFlagSet("wvh", flag.ExitOnError)
	tier := fs.String("tier", "quick", "quick|thorough")
	seed := fs.Int64("seed", 1, "PRNG seed")
	out := fs.String("out", ".", "output directory")
	replay := fs.String("replay", "", "op file to execute instead of generating")
	_ = fs.Parse(os.Args[2:])

	if id == "list" {
		ids := []string{}
		for k := range registry {
			ids = append(ids, k)
		}
		sort.Strings(ids)
		fmt.Println(strings.Join(ids, " "))

		return
	}
	p, ok := registry[id]
	if !ok {
		fmt.Fprintf(os.Stderr, "unknown property %s\n", id)
		os.Exit(2)
	}
	start := time.Now()
	c := &Ctx{Tier: *tier, Seed: *seed, Rng: rand.New(rand.NewSource(*seed))} //nolint:gosec
	if *replay != "" {
		f, err := os.Open(*replay)
		if err != nil {
			fmt.Fprintln(os.Stderr, err)
			os.Exit(2)
		}
		sc := bufio.NewScanner(f)
		sc.Buffer(make([]byte, 1<<20), 1<<28)
		for sc.Scan() {
			line := strings.TrimSpace(sc.Text())
			if line == "" || strings.HasPrefix(line, "#") {
				continue
			}
			line = strings.TrimPrefix(line, id+" ")
			c.ops = append(c.ops, line)
		}
		f.Close()
	} else {
		// corpus first (minimised past disagreements / witnesses of known findings)
		corpus, _ := filepath.Glob(filepath.Join(os.Getenv("VERIF_ROOT"), "corpus", id, "*.ops"))
		sort.Strings(corpus)
		for _, cf := range corpus {
			data, err := os.ReadFile(cf)
			if err != nil {
				continue
			}
			for _, line := range strings.Split(string(data), "\n") {
				line = strings.TrimSpace(line)
				if line == "" || strings.HasPrefix(line, "#") {
					continue
				}
				c.ops = append(c.ops, strings.TrimPrefix(line, id+" "))
			}
		}
		p.Gen(c)
	}

	outs := make([]string, len(c.ops))
	if p.Procs > 1 && os.Getenv("WVH_CHILD") == "" && len(c.ops) > 2*p.Procs {
		runInChildren(id, p, c.ops, outs, *out)
	} else {
		execAll(p, c.ops, outs)
	}
	finish(id, p, c, outs, *out, *tier, *seed, *replay, start)
}

func runInChildren(id string, p *Prop, ops, outs []string, out string) {
	self, _ := os.Executable()
	var wg sync.WaitGroup
	n := p.Procs
	for k := 0; k < n; k++ {
		wg.Add(1)
		go func(k int) {
			defer wg.Done()
			dir := filepath.Join(out, fmt.Sprintf("child%d", k))
			_ = os.MkdirAll(dir, 0o755)
			chunk := filepath.Join(dir, "chunk.ops")
			f, _ := os.Create(chunk)
			idxs := []int{}
			for i := k; i < len(ops); i += n {
				fmt.Fprintf(f, "%s %s\n", id, ops[i])
				idxs = append(idxs, i)
			}
			f.Close()
			cmd := exec.Command(self, id, "-replay", chunk, "-out", dir)
			cmd.Env = append(os.Environ(), "WVH_CHILD=1")
			cmd.Stderr = os.Stderr
			_ = cmd.Run()
			data, err := os.ReadFile(filepath.Join(dir, "impl.txt"))
			lines := strings.Split(strings.TrimSuffix(string(data), "\n"), "\n")
			for j, i := range idxs {
				if err == nil && j < len(lines) {
					outs[i] = lines[j]
				} else {
					outs[i] = "child-failed"
				}
			}
			_ = os.RemoveAll(dir)
		}(k)
	}
	wg.Wait()
}

func execAll(p *Prop, ops, outs []string) {
	workers := p.Workers
	if workers < 1 {
		workers = 1
	}
	var wg sync.WaitGroup
	idx := make(chan int, 1024)
	for w := 0; w < workers; w++ {
		wg.Add(1)
		go func() {
			defer wg.Done()
			for i := range idx {
				outs[i] = safeExec(p, strings.Fields(ops[i]))
			}
		}()
	}
	for i := range ops {
		idx <- i
	}
	close(idx)
	wg.Wait()
}

func finish(id string, p *Prop, c *Ctx, outs []string, outDir, tierS string, seedV int64, replayS string, start time.Time) {
	out, tier, seed, replay := &outDir, &tierS, &seedV, &replayS
	if err := os.MkdirAll(*out, 0o755); err != nil {
		fmt.Fprintln(os.Stderr, err)
		os.Exit(2)
	}
	fo, _ := os.Create(filepath.Join(*out, "ops.txt"))
	fi, _ := os.Create(filepath.Join(*out, "impl.txt"))
	bo, bi := bufio.NewWriterSize(fo, 1<<20), bufio.NewWriterSize(fi, 1<<20)
	distinct := map[uint64]struct{}{}
	hist := map[string]int{}
	nontrivial := 0
	for i, op := range c.ops {
		fmt.Fprintf(bo, "%s %s\n", id, op)
		fmt.Fprintf(bi, "%s\n", outs[i])
		h := fnv.New64a()
		h.Write([]byte(op))
		k := h.Sum64()
		args := strings.Fields(op)
		if _, seen := distinct[k]; !seen {
			distinct[k] = struct{}{}
			if p.Trivial == nil || !p.Trivial(args, outs[i]) {
				nontrivial++
			}
		}
		if p.Class != nil {
			if cl := p.Class(args, outs[i]); cl != "" {
				hist[cl]++
			}
		}
	}
	bo.Flush()
	bi.Flush()
	fo.Close()
	fi.Close()

	// samples: first, middle, last + 3 seeded picks; truncated for readability
	samples := []string{}
	if n := len(c.ops); n > 0 {
		r := rand.New(rand.NewSource(*seed + 7)) //nolint:gosec
		pick := []int{0, n / 2, n - 1, r.Intn(n), r.Intn(n), r.Intn(n)}
		seen := map[int]bool{}
		for _, i := range pick {
			if seen[i] {
				continue
			}
			seen[i] = true
			s := id + " " + c.ops[i] + " => " + outs[i]
			if len(s) > 600 {
				s = s[:600] + "…"
			}
			samples = append(samples, s)
		}
	}
	meta := map[string]any{
		"property_id":         id,
		"tier":                *tier,
		"seed":                *seed,
		"evaluations":         len(c.ops),
		"distinct":            len(distinct),
		"distinct_nontrivial": nontrivial,
		"histogram":           hist,
		"samples":             samples,
		"rule":                p.Rule,
		"exhaustive":          p.Exhaustive && *replay == "",
		"harness_wall_s":      time.Since(start).Seconds(),
	}
	mb, _ := json.MarshalIndent(meta, "", " ")
	_ = os.WriteFile(filepath.Join(*out, "meta.json"), mb, 0o644)
}
