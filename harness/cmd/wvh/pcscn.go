package main

import (
	"errors"
	"fmt"
	"os"
	"sort"
	"strconv"
	"strings"

	"github.com/pion/interceptor"
	"github.com/pion/sdp/v3"
	"github.com/pion/webrtc/v4"
)

// Scenarios on a real PeerConnection, shared by C10 and C16 (line protocol: lean/WebrtcVerif/Drv/PcWire.lean).
//
//	pc <multi> <nA> codec* <nV> codec* <nX> ext* <nSteps> step*
//	ext  := <uriHex> <a|v> <dirmask>
//	step := add <a|v> <sr|so|ro> | pref <idx> <n> codec* | offer | answer | sla | sro <nB> <midHex>* <nS> rsec*
//	rsec := <mediaHex> <midHex> <sr|so|ro|in|-> <bad> <nC> codec* <nE> { <id> <uriHex> }*
type pcExt struct {
	uri  string
	kind string // a | v
	mask int    // 1 send, 2 recv
}

type pcRExt struct {
	id  int
	uri string
}

type pcRSection struct {
	media  string
	mid    string
	dir    string // sr so ro in -
	bad    bool
	codecs []c15Codec // rtpmap encoding names
	exts   []pcRExt
}

type pcStep struct {
	verb   string
	kind   string
	dir    string
	idx    int
	codecs []c15Codec
	bundle []string
	secs   []pcRSection
}

type pcOp struct {
	multi bool
	audio []c15Codec
	video []c15Codec
	exts  []pcExt
	steps []pcStep
}

func pcCodecListTokens(cs []c15Codec) []string {
	t := []string{strconv.Itoa(len(cs))}
	for _, c := range cs {
		t = append(t, c15Tokens(c)...)
	}

	return t
}

func (o *pcOp) tokens() []string {
	t := []string{"pc", b2s(o.multi)}
	t = append(t, pcCodecListTokens(o.audio)...)
	t = append(t, pcCodecListTokens(o.video)...)
	t = append(t, strconv.Itoa(len(o.exts)))
	for _, e := range o.exts {
		t = append(t, hx([]byte(e.uri)), e.kind, strconv.Itoa(e.mask))
	}
	t = append(t, strconv.Itoa(len(o.steps)))
	for _, s := range o.steps {
		t = append(t, s.verb)
		switch s.verb {
		case "add":
			t = append(t, s.kind, s.dir)
		case "pref":
			t = append(t, strconv.Itoa(s.idx))
			t = append(t, pcCodecListTokens(s.codecs)...)
		case "sro":
			t = append(t, strconv.Itoa(len(s.bundle)))
			for _, m := range s.bundle {
				t = append(t, hx([]byte(m)))
			}
			t = append(t, strconv.Itoa(len(s.secs)))
			for _, sec := range s.secs {
				t = append(t, hx([]byte(sec.media)), hx([]byte(sec.mid)), sec.dir, b2s(sec.bad))
				t = append(t, pcCodecListTokens(sec.codecs)...)
				t = append(t, strconv.Itoa(len(sec.exts)))
				for _, e := range sec.exts {
					t = append(t, strconv.Itoa(e.id), hx([]byte(e.uri)))
				}
			}
		default:
		}
	}

	return t
}

func pcParseOp(a []string) (*pcOp, bool) {
	if len(a) == 0 || a[0] != "pc" {
		return nil, false
	}
	r := &c15Reader{t: a[1:], ok: true}
	o := &pcOp{}
	o.multi = r.num() != 0
	o.audio = r.codecs()
	o.video = r.codecs()
	nx := r.num()
	for i := 0; i < nx && r.ok; i++ {
		o.exts = append(o.exts, pcExt{uri: r.str(), kind: r.next(), mask: r.num()})
	}
	ns := r.num()
	for i := 0; i < ns && r.ok; i++ {
		s := pcStep{verb: r.next()}
		switch s.verb {
		case "add":
			s.kind = r.next()
			s.dir = r.next()
		case "pref":
			s.idx = r.num()
			s.codecs = r.codecs()
		case "offer", "answer", "sla":
		case "sro":
			nb := r.num()
			for k := 0; k < nb && r.ok; k++ {
				s.bundle = append(s.bundle, r.str())
			}
			nsec := r.num()
			for k := 0; k < nsec && r.ok; k++ {
				sec := pcRSection{media: r.str(), mid: r.str(), dir: r.next(), bad: r.num() != 0}
				sec.codecs = r.codecs()
				ne := r.num()
				for j := 0; j < ne && r.ok; j++ {
					sec.exts = append(sec.exts, pcRExt{id: r.num(), uri: r.str()})
				}
				s.secs = append(s.secs, sec)
			}
		default:
			return nil, false
		}
		o.steps = append(o.steps, s)
	}
	if !r.ok || len(r.t) != 0 {
		return nil, false
	}

	return o, true
}

func pcNewPC(o *pcOp) (*webrtc.PeerConnection, error) {
	me := &webrtc.MediaEngine{}
	for _, c := range o.audio {
		_ = me.RegisterCodec(c15ToParams(c), webrtc.RTPCodecTypeAudio)
	}
	for _, c := range o.video {
		_ = me.RegisterCodec(c15ToParams(c), webrtc.RTPCodecTypeVideo)
	}
	for _, e := range o.exts {
		kind := webrtc.RTPCodecTypeAudio
		if e.kind == "v" {
			kind = webrtc.RTPCodecTypeVideo
		}
		dirs := []webrtc.RTPTransceiverDirection{}
		if e.mask&1 != 0 {
			dirs = append(dirs, webrtc.RTPTransceiverDirectionSendonly)
		}
		if e.mask&2 != 0 {
			dirs = append(dirs, webrtc.RTPTransceiverDirectionRecvonly)
		}
		_ = me.RegisterHeaderExtension(webrtc.RTPHeaderExtensionCapability{URI: e.uri}, kind, dirs...)
	}
	se := webrtc.SettingEngine{}
	// no sockets: gathering is not what is observed here
	se.SetNetworkTypes([]webrtc.NetworkType{webrtc.NetworkTypeTCP4})
	se.SetInterfaceFilter(func(string) bool { return false })
	se.DisableMediaEngineMultipleCodecs(!o.multi)
	api := webrtc.NewAPI(webrtc.WithSettingEngine(se), webrtc.WithMediaEngine(me),
		webrtc.WithInterceptorRegistry(&interceptor.Registry{}))

	return api.NewPeerConnection(webrtc.Configuration{})
}

const pcFingerprint = "sha-256 00:11:22:33:44:55:66:77:88:99:AA:BB:CC:DD:EE:FF:00:11:22:33:44:55:66:77:88:99:AA:BB:CC:DD:EE:FF"

// pcRenderOffer renders the synthetic remote offer of an sro step with pion/sdp.
func pcRenderOffer(s pcStep) (string, error) {
	d := &sdp.SessionDescription{
		Version: 0,
		Origin: sdp.Origin{
			Username: "-", SessionID: 4242, SessionVersion: 2, NetworkType: "IN", AddressType: "IP4", UnicastAddress: "127.0.0.1",
		},
		SessionName:      "-",
		TimeDescriptions: []sdp.TimeDescription{{Timing: sdp.Timing{}}},
	}
	if len(s.bundle) > 0 {
		d.WithValueAttribute("group", "BUNDLE "+strings.Join(s.bundle, " "))
	}
	for _, sec := range s.secs {
		m := &sdp.MediaDescription{
			MediaName: sdp.MediaName{
				Media: sec.media, Port: sdp.RangedPort{Value: 9}, Protos: []string{"UDP", "TLS", "RTP", "SAVPF"},
			},
			ConnectionInformation: &sdp.ConnectionInformation{
				NetworkType: "IN", AddressType: "IP4", Address: &sdp.Address{Address: "0.0.0.0"},
			},
		}
		if sec.mid != "" {
			m.WithValueAttribute("mid", sec.mid)
		}
		switch sec.dir {
		case "sr":
			m.WithPropertyAttribute("sendrecv")
		case "so":
			m.WithPropertyAttribute("sendonly")
		case "ro":
			m.WithPropertyAttribute("recvonly")
		case "in":
			m.WithPropertyAttribute("inactive")
		default:
		}
		m.WithPropertyAttribute("rtcp-mux")
		m.WithValueAttribute("ice-ufrag", "abcd")
		m.WithValueAttribute("ice-pwd", "abcdefghijklmnopqrstuvwx")
		m.WithValueAttribute("fingerprint", pcFingerprint)
		m.WithValueAttribute("setup", "actpass")
		for _, c := range sec.codecs {
			m.WithCodec(uint8(c.pt), c.mime, c.clock, c.ch, c.fmtp) //nolint:gosec
			for _, fb := range c.fb {
				val := fmt.Sprintf("%d %s", c.pt, fb[0])
				if fb[1] != "" {
					val += " " + fb[1]
				}
				m.WithValueAttribute("rtcp-fb", val)
			}
		}
		if sec.bad {
			m.MediaName.Formats = append(m.MediaName.Formats, "127")
		}
		for _, e := range sec.exts {
			m.WithValueAttribute("extmap", fmt.Sprintf("%d %s", e.id, e.uri))
		}
		d.MediaDescriptions = append(d.MediaDescriptions, m)
	}
	b, err := d.Marshal()

	return string(b), err
}

// pcFaithful confirms that the rendered offer is read back as the op line describes it.
func pcFaithful(text string, s pcStep) string {
	seen, err := webrtc.VerifCodecsFromSDP(text)
	if err != nil || len(seen) != len(s.secs) {
		return "sdp-unfaithful parse"
	}
	for i, sec := range s.secs {
		if sec.bad {
			if seen[i] != nil {
				return fmt.Sprintf("sdp-unfaithful bad-section-accepted %d", i)
			}

			continue
		}
		if seen[i] == nil || len(seen[i]) != len(sec.codecs) {
			return fmt.Sprintf("sdp-unfaithful %d", i)
		}
		for k, c := range sec.codecs {
			want := c
			want.mime = sec.media + "/" + c.mime
			if !c15Same(want, c15FromParams(seen[i][k])) {
				return fmt.Sprintf("sdp-unfaithful %d %d", i, k)
			}
		}
	}

	return ""
}

func pcGroup(tag string, items []string) []string {
	sort.Strings(items)

	return append([]string{tag, strconv.Itoa(len(items))}, items...)
}

// pcAbstract abstracts every audio/video m-section of a generated description with pion/sdp.
func pcAbstract(tag, text string) []string {
	parsed := &sdp.SessionDescription{}
	if err := parsed.UnmarshalString(text); err != nil {
		return []string{tag + "-unparsed"}
	}
	out := []string{}
	n := 0
	for _, m := range parsed.MediaDescriptions {
		kind := ""
		switch m.MediaName.Media {
		case "audio":
			kind = "a"
		case "video":
			kind = "v"
		default:
			continue
		}
		n++
		mid := ""
		formats, rtpmaps, fmtps, fbs, exts := []string{}, []string{}, []string{}, []string{}, []string{}
		bad := false
		for _, f := range m.MediaName.Formats {
			v, err := strconv.ParseUint(f, 10, 16)
			if err != nil {
				bad = true
			}
			formats = append(formats, strconv.FormatUint(v, 10))
		}
		ptOf := func(s string) (string, bool) {
			v, err := strconv.ParseUint(s, 10, 16)

			return strconv.FormatUint(v, 10), err == nil
		}
		for _, a := range m.Attributes {
			switch a.Key {
			case "mid":
				if mid == "" {
					mid = a.Value
				}
			case "rtpmap":
				sp := strings.SplitN(a.Value, " ", 2)
				pt, ok := ptOf(sp[0])
				if !ok || len(sp) != 2 {
					bad = true

					continue
				}
				parts := strings.Split(sp[1], "/")
				clock, ch := uint64(0), uint64(0)
				var e1, e2 error
				if len(parts) > 1 {
					clock, e1 = strconv.ParseUint(parts[1], 10, 32)
				}
				if len(parts) > 2 {
					ch, e2 = strconv.ParseUint(parts[2], 10, 16)
				}
				if e1 != nil || e2 != nil || len(parts) < 2 || len(parts) > 3 {
					bad = true

					continue
				}
				rtpmaps = append(rtpmaps, fmt.Sprintf("%s %s %d %d", pt, hx([]byte(parts[0])), clock, ch))
			case "fmtp":
				sp := strings.SplitN(a.Value, " ", 2)
				pt, ok := ptOf(sp[0])
				if !ok || len(sp) != 2 {
					bad = true

					continue
				}
				fmtps = append(fmtps, pt+" "+hx([]byte(sp[1])))
			case "rtcp-fb":
				sp := strings.SplitN(a.Value, " ", 2)
				pt, ok := ptOf(sp[0])
				if !ok || len(sp) != 2 {
					bad = true

					continue
				}
				fbs = append(fbs, pt+" "+hx([]byte(sp[1])))
			case "extmap":
				f := strings.Fields(a.Value)
				if len(f) < 2 {
					bad = true

					continue
				}
				id, err := strconv.ParseUint(strings.SplitN(f[0], "/", 2)[0], 10, 32)
				if err != nil {
					bad = true

					continue
				}
				exts = append(exts, fmt.Sprintf("%d %s", id, hx([]byte(f[1]))))
			default:
			}
		}
		if bad {
			return []string{tag + "-unparsed"}
		}
		out = append(out, "S", hx([]byte(mid)), kind, b2s(m.MediaName.Port.Value == 0))
		out = append(out, pcGroup("F", formats)...)
		out = append(out, pcGroup("M", rtpmaps)...)
		out = append(out, pcGroup("P", fmtps)...)
		out = append(out, pcGroup("B", fbs)...)
		out = append(out, pcGroup("X", exts)...)
	}

	return append([]string{tag, strconv.Itoa(n)}, out...)
}

// pcAmbiguousRemote: a remote section gives two different locally registered URIs the same id — which of them
// negotiatedHeaderExtensions[id] ends up with depends on Go's map iteration order.
func pcAmbiguousRemote(o *pcOp, s pcStep) bool {
	local := map[string]bool{}
	for _, e := range o.exts {
		local[e.uri] = true
	}
	for _, sec := range s.secs {
		last := map[string]int{} // rtpExtensionsFromMediaDescription: last id per URI
		for _, e := range sec.exts {
			last[e.uri] = e.id
		}
		byID := map[int]string{}
		for uri, id := range last {
			if !local[uri] {
				continue
			}
			if other, dup := byID[id]; dup && other != uri {
				return true
			}
			byID[id] = uri
		}
	}

	return false
}

func pcErrClass(err error) string {
	var numErr *strconv.NumError
	switch {
	case errors.Is(err, webrtc.ErrCodecAlreadyRegistered):
		return "dup"
	case errors.As(err, &numErr):
		return "apt"
	default:
		return "sdp"
	}
}

func pcExec(a []string) string {
	o, ok := pcParseOp(a)
	if !ok {
		return "bad-op"
	}
	pc, err := pcNewPC(o)
	if err != nil {
		return "no-pc"
	}
	defer pc.Close() //nolint:errcheck
	out := []string{}
	ambiguous := false
	pending := false // a remote offer is pending (have-remote-offer)
	var lastAnswer *webrtc.SessionDescription
	kindOf := func(k string) webrtc.RTPCodecType {
		if k == "v" {
			return webrtc.RTPCodecTypeVideo
		}

		return webrtc.RTPCodecTypeAudio
	}
	// a section generated for a kind that is not negotiated yet while some URI is negotiated under two ids
	checkAmbiguity := func(desc []string) {
		negA, negV, twice := webrtc.VerifNegotiationState(pc)
		if !twice {
			return
		}
		for i, t := range desc {
			if t == "S" && i+2 < len(desc) {
				if (desc[i+2] == "a" && !negA) || (desc[i+2] == "v" && !negV) {
					ambiguous = true
				}
			}
		}
	}
	for _, s := range o.steps {
		switch s.verb {
		case "add":
			dir := webrtc.RTPTransceiverDirectionSendrecv
			switch s.dir {
			case "so":
				dir = webrtc.RTPTransceiverDirectionSendonly
			case "ro":
				dir = webrtc.RTPTransceiverDirectionRecvonly
			default:
			}
			if _, err := pc.AddTransceiverFromKind(kindOf(s.kind), webrtc.RTPTransceiverInit{Direction: dir}); err != nil {
				out = append(out, "a0")
			} else {
				out = append(out, "a1")
			}
		case "pref":
			trs := pc.GetTransceivers()
			if s.idx >= len(trs) {
				out = append(out, "p0")

				continue
			}
			prefs := []webrtc.RTPCodecParameters{}
			for _, c := range s.codecs {
				prefs = append(prefs, c15ToParams(c))
			}
			if err := trs[s.idx].SetCodecPreferences(prefs); err != nil {
				out = append(out, "p0")
			} else {
				out = append(out, "p1")
			}
		case "offer":
			d, err := pc.CreateOffer(nil)
			if err != nil {
				if os.Getenv("VERIF_DEBUG") != "" {
					fmt.Fprintf(os.Stderr, "CreateOffer: %v\n", err)
				}
				out = append(out, "O-err")

				continue
			}
			desc := pcAbstract("O", d.SDP)
			checkAmbiguity(desc)
			out = append(out, desc...)
		case "answer":
			d, err := pc.CreateAnswer(nil)
			if err != nil {
				out = append(out, "A-err")

				continue
			}
			desc := pcAbstract("A", d.SDP)
			checkAmbiguity(desc)
			out = append(out, desc...)
			lastAnswer = &d
		case "sla":
			if !pending || lastAnswer == nil {
				out = append(out, "l-skip")

				continue
			}
			if err := pc.SetLocalDescription(*lastAnswer); err != nil {
				if os.Getenv("VERIF_DEBUG") != "" {
					fmt.Fprintf(os.Stderr, "SetLocalDescription: %v\n", err)
				}
				out = append(out, "l-err", "end")
				if ambiguous {
					return "inconclusive map-order-dependent-extmap"
				}

				return strings.Join(out, " ")
			}
			out = append(out, "l-ok")
			pending, lastAnswer = false, nil
		case "sro":
			text, err := pcRenderOffer(s)
			if err != nil {
				return "sdp-unfaithful marshal"
			}
			if msg := pcFaithful(text, s); msg != "" {
				return msg
			}
			if pcAmbiguousRemote(o, s) {
				ambiguous = true
			}
			if pending {
				// pion refuses SetRemote(offer) in have-remote-offer; confirm and go on
				if err := pc.SetRemoteDescription(webrtc.SessionDescription{Type: webrtc.SDPTypeOffer, SDP: text}); err == nil {
					return "unexpected: offer accepted in have-remote-offer"
				}
				out = append(out, "r-state")

				continue
			}
			if err := pc.SetRemoteDescription(webrtc.SessionDescription{Type: webrtc.SDPTypeOffer, SDP: text}); err != nil {
				if os.Getenv("VERIF_DEBUG") != "" {
					fmt.Fprintf(os.Stderr, "SetRemoteDescription: %v\n%s\n", err, text)
				}
				if strings.Contains(err.Error(), "media section without mid value") {
					out = append(out, "r-nomid", "end")
				} else {
					out = append(out, "r-err", pcErrClass(err), "end")
				}
				if ambiguous {
					return "inconclusive map-order-dependent-extmap"
				}

				return strings.Join(out, " ")
			}
			out = append(out, "r-ok")
			pending, lastAnswer = true, nil
		default:
			return "bad-op"
		}
	}
	if ambiguous {
		return "inconclusive map-order-dependent-extmap"
	}

	return strings.Join(out, " ")
}
