package main

import (
	"bytes"
	"fmt"
	"runtime"
	"strconv"
	"strings"
	"sync"
	"time"

	"github.com/pion/webrtc/v4"
)

// C27 — transport demultiplexing (internal/mux) — see lean/WebrtcVerif/Drv/C27.lean for the grammar.
//
//	cls <len> <b0> <b1>                 → <dtls><srtp><srtcp><rtp>      classification of one buffer
//	clsb <hex>                          → <dtls><srtp><srtcp><rtp>
//	pipe <act>…                         → endpoints | pend …            real readLoop over a net.Pipe, sequential
//	run <thread spec>… sched <name>…    → events / drain | endpoints | pend … | loop …
//	                                      direct dispatch under the cooperative scheduler

func c27Buf(n, b0, b1 int) []byte {
	buf := make([]byte, n)
	for i := range buf {
		switch i {
		case 0:
			buf[i] = byte(b0)
		case 1:
			buf[i] = byte(b1)
		default:
			buf[i] = byte(0xA0 + i + 7*b0 + 13*b1)
		}
	}

	return buf
}

func c27Bits(b []byte) string {
	return b2s(webrtc.VerifMuxMatchDTLS(b)) + b2s(webrtc.VerifMuxMatchSRTP(b)) + b2s(webrtc.VerifMuxMatchSRTCP(b)) +
		b2s(webrtc.VerifMuxMatchSRTPOrSRTCP(b))
}

func c27Matcher(tok string) (func([]byte) bool, bool) {
	switch tok {
	case "dtls", "srtp", "srtcp", "rtp", "all":
		return webrtc.VerifMuxMatcher(tok, 0, 0), true
	}
	if strings.HasPrefix(tok, "g") {
		p := strings.Split(tok[1:], ".")
		if len(p) == 2 {
			lo, e1 := strconv.Atoi(p[0])
			hi, e2 := strconv.Atoi(p[1])
			if e1 == nil && e2 == nil && lo >= 0 && lo < 256 && hi >= 0 && hi < 256 {
				return webrtc.VerifMuxMatcher("range", byte(lo), byte(hi)), true
			}
		}
	}

	return nil, false
}

type c27Ep struct {
	tok string
	ep  *webrtc.VerifMuxEndpoint
	obs [][]byte
}

type c27Thread struct {
	eps []*c27Ep
	// run mode: park is called by the MatchFunc of an `N` endpoint before it answers; it parks (harness
	// yield `match`) when the call comes from this thread's own NewEndpoint, i.e. from inside m.lock
	park  func()
	gid   uint64
	inNew bool
}

func c27HexList(l [][]byte) string {
	if len(l) == 0 {
		return "-"
	}
	h := make([]string, len(l))
	for i, b := range l {
		h[i] = hx(b)
	}

	return strings.Join(h, ",")
}

// c27Act performs one creator act; returns false on a malformed act.
func c27Act(vm *webrtc.VerifMux, th *c27Thread, a string) bool {
	switch {
	case strings.HasPrefix(a, "n"), strings.HasPrefix(a, "N"):
		f, ok := c27Matcher(a[1:])
		if !ok {
			return false
		}
		ep := &c27Ep{tok: a[1:]}
		if a[0] == 'N' && th.park != nil {
			inner := f
			f = func(b []byte) bool {
				th.park()

				return inner(b)
			}
		}
		th.inNew = true
		ep.ep = vm.NewEndpoint(f)
		th.inNew = false
		th.eps = append(th.eps, ep)
	case strings.HasPrefix(a, "x"):
		k, err := strconv.Atoi(a[1:])
		if err != nil {
			return false
		}
		if k < len(th.eps) {
			_ = th.eps[k].ep.Close()
		}
	case a == "q":
		_ = vm.Close()
	case strings.HasPrefix(a, "l"):
		p := strings.Split(a[1:], ".")
		if len(p) != 2 {
			return false
		}
		k, e1 := strconv.Atoi(p[0])
		lim, e2 := strconv.Atoi(p[1])
		if e1 != nil || e2 != nil || lim < 1 {
			return false
		}
		if k < len(th.eps) {
			th.eps[k].ep.SetLimitSize(lim)
		}
	case strings.HasPrefix(a, "r"):
		k, err := strconv.Atoi(a[1:])
		if err != nil {
			return false
		}
		if k < len(th.eps) {
			if b, ok := th.eps[k].ep.TryRead(); ok {
				th.eps[k].obs = append(th.eps[k].obs, b)
			}
		}
	default:
		return false
	}

	return true
}

func c27Final(vm *webrtc.VerifMux, names []string, ths []*c27Thread) string {
	pend := vm.Pending()
	out := []string{}
	for i, th := range ths {
		if th == nil {
			continue
		}
		for k, ep := range th.eps {
			ep.obs = append(ep.obs, ep.ep.Drain()...)
			out = append(out, fmt.Sprintf("%s.%d=%s:%s", names[i], k, ep.tok, c27HexList(ep.obs)))
		}
	}
	_ = vm.Close()
	if len(out) == 0 {
		out = append(out, "none")
	}

	return strings.Join(out, " ") + " | pend " + c27HexList(pend)
}

// c27Pipe: sequential script over the real readLoop. After every datagram an empty datagram is
// written as a barrier: net.Pipe writes are synchronous and the readLoop is serial, so when the
// barrier write returns, dispatch of the previous datagram has returned.
func c27Pipe(acts []string) string {
	webrtc.VerifMuxSetYield(nil)
	vm := webrtc.NewVerifMux(true, 4096)
	th := &c27Thread{}
	dead := false
	closed := false
	feed := func(b []byte) {
		if dead || closed {
			return
		}
		done := make(chan error, 1)
		go func() { done <- vm.Feed(b) }()
		select {
		case err := <-done:
			if err != nil {
				dead = true
			}
		case <-time.After(10 * time.Second): // only when the readLoop has ended
			dead = true
		}
	}
	for _, a := range acts {
		if strings.HasPrefix(a, "d") {
			feed(unhx(a[1:]))
			feed(nil)

			continue
		}
		if a == "q" {
			closed = true
		}
		if !c27Act(vm, th, a) {
			return "bad-op"
		}
	}
	loop := "ok"
	if dead {
		loop = "dead"
	}

	return c27Final(vm, []string{"P"}, []*c27Thread{th}) + " | loop " + loop
}

type c27Prog struct {
	specs []string
	sched []string
}

func c27Parse(a []string) (*c27Prog, bool) {
	if len(a) < 1 || a[0] != "run" {
		return nil, false
	}
	p := &c27Prog{}
	i := 1
	for ; i < len(a) && a[i] != "sched"; i++ {
		p.specs = append(p.specs, a[i])
	}
	if i < len(a) {
		p.sched = a[i+1:]
	}

	return p, true
}

func c27Run(p *c27Prog) string {
	s := NewSched()
	s.Families = []string{"mux."}
	// nothing in these programs blocks on a real primitive, so a segment that has not parked yet is only
	// slow (loaded machine), not blocked: wait long before calling it blocked
	s.BlockTimeout = 5 * time.Second
	webrtc.VerifMuxSetYield(s.Yield)
	defer webrtc.VerifMuxSetYield(nil)
	vm := webrtc.NewVerifMux(false, 4096)
	var mu sync.Mutex
	dead := false
	ths := make([]*c27Thread, len(p.specs))
	names := make([]string, len(p.specs))
	nD := 0
	for i, sp := range p.specs {
		name := fmt.Sprintf("T%d", i)
		names[i] = name
		switch {
		case strings.HasPrefix(sp, "D:"):
			nD++
			pkts := [][]byte{}
			for _, h := range strings.Split(sp[2:], ",") {
				if h != "" {
					pkts = append(pkts, unhx(h))
				}
			}
			s.Go(name, func() {
				for j, d := range pkts {
					if j > 0 {
						s.Yield("next")
					}
					if err := vm.Feed(d); err != nil { // the readLoop ends on a dispatch error
						mu.Lock()
						dead = true
						mu.Unlock()

						return
					}
				}
			})
		case strings.HasPrefix(sp, "E:"):
			th := &c27Thread{}
			ths[i] = th
			acts := []string{}
			for _, a := range strings.Split(sp[2:], ",") {
				if a != "" {
					acts = append(acts, a)
				}
			}
			for _, a := range acts {
				if strings.HasPrefix(a, "d") {
					return "bad-op"
				}
			}
			bad := false
			th.park = func() {
				if th.inNew && curGID() == th.gid {
					s.Yield("match")
				}
			}
			s.Go(name, func() {
				th.gid = curGID()
				for j, a := range acts {
					if j > 0 {
						s.Yield("act")
					}
					if !c27Act(vm, th, a) {
						bad = true
					}
				}
			})
			_ = bad
		default:
			return "bad-op"
		}
	}
	if nD > 1 {
		s.Release()

		return "bad-op" // the Mux has one readLoop
	}
	ev := []string{}
	st := &c27Stepper{s: s}
	for _, n := range p.sched {
		ev = append(ev, n+":"+st.step(n))
	}
	ev = append(ev, "/")
	ev = append(ev, st.drain(400)...)
	stuck := []string{}
	all := s.AllNames()
	s.mu.Lock()
	for _, n := range all {
		if !s.finished[n] {
			stuck = append(stuck, n)
		}
	}
	s.mu.Unlock()
	s.Release()
	fin := c27Final(vm, names, ths)
	loop := "ok"
	mu.Lock()
	if dead {
		loop = "dead"
	}
	mu.Unlock()
	stt := "all-fin"
	if len(stuck) > 0 {
		stt = "stuck:" + strings.Join(stuck, ",")
	}

	return strings.Join(ev, " ") + " | " + fin + " | loop " + loop + " | " + stt
}

// c27Stepper releases threads like Sched.Step, plus the rule for a creator parked at `match` (inside
// NewEndpoint's m.lock section): another thread released meanwhile either finishes its segment (it needs
// no m.lock) or is found waiting for the mutex (`blocked`, decided from its goroutine state, not from a
// timeout); while one thread waits, the others are not released (`held`), so at most one thread queues
// on the lock and its segment runs deterministically as soon as the creator has left the section.
type c27Stepper struct {
	s      *Sched
	holder string
	waiter string
}

// goMutexWaiting reports whether goroutine gid is queued on a sync.Mutex.
func goMutexWaiting(gid uint64) bool {
	buf := make([]byte, 1<<16)
	for {
		n := runtime.Stack(buf, true)
		if n < len(buf) {
			buf = buf[:n]

			break
		}
		buf = make([]byte, 2*len(buf))
	}
	key := []byte(fmt.Sprintf("goroutine %d [", gid))
	i := bytes.Index(buf, key)
	if i < 0 || (i > 0 && buf[i-1] != '\n') {
		return false
	}
	rest := buf[i+len(key):]
	j := bytes.IndexByte(rest, ']')
	if j < 0 {
		return false
	}
	state := string(rest[:j])
	if k := strings.IndexByte(state, ','); k >= 0 {
		state = state[:k]
	}

	return state == "sync.Mutex.Lock" || state == "semacquire"
}

// settle: th has parked or finished; returns its label ("fin" when done) and keeps Sched's books.
func (st *c27Stepper) settle(name string, th *schedThread) string {
	s := st.s
	s.mu.Lock()
	defer s.mu.Unlock()
	th.blocked = false
	if th.state == thDone {
		s.finished[name] = true

		return "fin"
	}

	return th.label
}

// probe releases a parked thread while a creator holds m.lock.
func (st *c27Stepper) probe(name string) string {
	s := st.s
	s.mu.Lock()
	th, ok := s.byName[name]
	s.mu.Unlock()
	if !ok {
		return s.Step(name)
	}
	if !s.waitParked(th, 20*time.Second) {
		return "skip"
	}
	s.mu.Lock()
	if th.state == thDone {
		s.mu.Unlock()

		return "skip"
	}
	th.state = thFlying
	s.mu.Unlock()
	th.resume <- struct{}{}
	seen := 0
	deadline := time.Now().Add(20 * time.Second)
	for time.Now().Before(deadline) {
		if s.waitParked(th, 300*time.Microsecond) {
			return st.settle(name, th)
		}
		if goMutexWaiting(th.gid) {
			seen++
			if seen >= 3 {
				if s.waitParked(th, 0) {
					return st.settle(name, th)
				}

				return "blocked"
			}
		} else {
			seen = 0
		}
	}

	return "blocked"
}

func (st *c27Stepper) step(name string) string {
	s := st.s
	if name == st.waiter {
		return "skip"
	}
	if st.holder != "" && name != st.holder {
		s.mu.Lock()
		fin := s.finished[name]
		s.mu.Unlock()
		if fin {
			return "skip"
		}
		s.mu.Lock()
		_, known := s.byName[name]
		s.mu.Unlock()
		if !known {
			return s.Step(name)
		}
		if st.waiter != "" {
			return "held"
		}
		r := st.probe(name)
		if r == "blocked" {
			st.waiter = name
		}

		return r
	}
	r := s.Step(name)
	if r == "match" {
		st.holder = name

		return r
	}
	if name == st.holder {
		st.holder = ""
		if st.waiter != "" { // the lock is free: the waiting thread runs its segment by itself
			w := st.waiter
			st.waiter = ""
			s.mu.Lock()
			th := s.byName[w]
			s.mu.Unlock()
			if s.waitParked(th, 20*time.Second) {
				if st.settle(w, th) == "match" {
					st.holder = w
				}
			}
		}
	}

	return r
}

func (st *c27Stepper) drain(limit int) []string {
	s := st.s
	ev := []string{}
	for len(ev) < limit {
		progressed := false
		for _, n := range s.AllNames() {
			s.mu.Lock()
			fin := s.finished[n]
			s.mu.Unlock()
			if fin || n == st.waiter {
				continue
			}
			r := st.step(n)
			if r == "skip" {
				s.mu.Lock()
				s.finished[n] = true
				s.mu.Unlock()
			}
			ev = append(ev, n+":"+r)
			if r != "held" && r != "skip" && r != "blocked" {
				progressed = true
			}
		}
		if !progressed {
			break
		}
	}

	return ev
}

// ---- generators ----

// matcher families whose members are pairwise disjoint (the Go map iteration picks any matching
// endpoint, so overlapping matchers would make the implementation's output nondeterministic)
var c27Families = [][]string{
	{"dtls", "srtp", "srtcp"},
	{"dtls", "srtp", "srtcp"},
	{"dtls", "rtp"},
	{"all"},
	{"g0.3", "g20.63", "g64.79", "g128.191"},
	{"dtls", "srtp", "srtcp", "g0.3", "g64.79", "g16.19"},
	{"g20.62", "g63.63", "g64.127", "srtcp", "srtp"},
}

var c27Firsts = []int{0, 1, 3, 16, 19, 20, 21, 22, 23, 62, 63, 64, 79, 127, 128, 129, 144, 190, 191, 192, 200, 255}
var c27Seconds = []int{0, 96, 111, 191, 192, 193, 200, 201, 222, 223, 224, 255}

type c27Gen struct {
	c   *Ctx
	seq int
}

// datagram: mostly well-formed (a class byte, a second byte, a unique 2-byte counter, some payload),
// sometimes short / empty / duplicated (malformed stream)
func (g *c27Gen) datagram(prev [][]byte) []byte {
	r := g.c.Rng
	g.seq++
	switch r.Intn(20) {
	case 0:
		return nil // empty
	case 1: // 1..3 bytes, RTP range with an RTCP-looking second byte, or a boundary first byte
		n := 1 + r.Intn(3)
		b := []byte{byte(c27Firsts[r.Intn(len(c27Firsts))]), byte(c27Seconds[r.Intn(len(c27Seconds))]), byte(g.seq)}

		return b[:n]
	case 2:
		if len(prev) > 0 { // duplicate of an earlier datagram
			return append([]byte{}, prev[r.Intn(len(prev))]...)
		}
	}
	var b0 int
	switch r.Intn(10) {
	case 0, 1, 2:
		b0 = 20 + r.Intn(44) // DTLS
	case 3, 4, 5, 6, 7:
		b0 = 128 + r.Intn(64) // RTP/RTCP
	case 8:
		b0 = c27Firsts[r.Intn(len(c27Firsts))]
	default:
		b0 = r.Intn(256)
	}
	b1 := r.Intn(256)
	if r.Intn(2) == 0 {
		b1 = c27Seconds[r.Intn(len(c27Seconds))]
	}
	n := 4 + r.Intn(9)
	b := make([]byte, n)
	b[0], b[1], b[2], b[3] = byte(b0), byte(b1), byte(g.seq>>8), byte(g.seq)
	for i := 4; i < n; i++ {
		b[i] = byte(r.Intn(256))
	}

	return b
}

// creator acts for one thread; reg tracks which matcher tokens are currently registered (over all threads)
// and owner which thread may use a token (a token freed by one thread's close must not be taken by another
// thread: under some schedules both endpoints would be registered at once)
func (g *c27Gen) acts(minep *[]string, fam []string, reg map[string]bool, owner map[string]int, me int, n int, plainOnly bool) []string {
	r := g.c.Rng
	acts := []string{}
	mine := *minep // tokens of this thread's endpoints ("" once closed)
	defer func() { *minep = mine }()
	for k := 0; k < n; k++ {
		roll := r.Intn(12)
		if plainOnly && roll >= 6 {
			roll = r.Intn(6)
		}
		switch {
		case roll < 6:
			free := []string{}
			for _, t := range fam {
				if o, owned := owner[t]; !reg[t] && (!owned || o == me) {
					free = append(free, t)
				}
			}
			if len(free) == 0 {
				continue
			}
			t := free[r.Intn(len(free))]
			reg[t] = true
			owner[t] = me
			mine = append(mine, t)
			if r.Intn(3) == 0 { // its MatchFunc parks inside NewEndpoint's locked section
				acts = append(acts, "N"+t)
			} else {
				acts = append(acts, "n"+t)
			}
		case roll < 8: // close one of my endpoints (sometimes an index that does not exist)
			if r.Intn(10) == 0 {
				acts = append(acts, fmt.Sprintf("x%d", len(mine)+r.Intn(3)))

				continue
			}
			if len(mine) == 0 {
				continue
			}
			i := r.Intn(len(mine))
			if mine[i] != "" {
				reg[mine[i]] = false
				mine[i] = ""
			}
			acts = append(acts, fmt.Sprintf("x%d", i))
		case roll < 9:
			if len(mine) == 0 {
				continue
			}
			acts = append(acts, fmt.Sprintf("l%d.%d", r.Intn(len(mine)), []int{1, 6, 9, 14, 20, 30, 1000}[r.Intn(7)]))
		case roll < 11:
			if len(mine) == 0 {
				continue
			}
			acts = append(acts, fmt.Sprintf("r%d", r.Intn(len(mine))))
		default:
			if r.Intn(3) == 0 {
				acts = append(acts, "q")
				for _, t := range mine {
					if t != "" {
						reg[t] = false
					}
				}
				for i := range mine {
					mine[i] = ""
				}
			}
		}
	}

	return acts
}

func (g *c27Gen) pipeLine() string {
	r := g.c.Rng
	fam := c27Families[r.Intn(len(c27Families))]
	reg := map[string]bool{}
	owner := map[string]int{}
	mine := []string{}
	out := []string{"pipe"}
	prev := [][]byte{}
	steps := 3 + r.Intn(22)
	if r.Intn(8) == 0 {
		steps += 20 // long enough to overflow the pending queue
	}
	plain := r.Intn(3) != 0
	late := r.Intn(3) == 0 // endpoints are created late: many datagrams queue up first
	for k := 0; k < steps; k++ {
		if (late && k < steps*2/3) || r.Intn(3) != 0 {
			d := g.datagram(prev)
			prev = append(prev, d)
			out = append(out, "d"+hx(d))

			continue
		}
		out = append(out, g.acts(&mine, fam, reg, owner, 0, 1, plain)...)
	}

	return strings.Join(out, " ")
}

func (g *c27Gen) runProg() (specs []string, maxSeg []int) {
	r := g.c.Rng
	fam := c27Families[r.Intn(len(c27Families))]
	nd := 1 + r.Intn(7)
	if r.Intn(10) == 0 {
		nd = 16 + r.Intn(5)
	}
	prev := [][]byte{}
	ds := []string{}
	for k := 0; k < nd; k++ {
		d := g.datagram(prev)
		prev = append(prev, d)
		ds = append(ds, hx(d))
	}
	if r.Intn(300) == 0 { // a datagram the packetio buffer refuses (len ≥ 0x10000)
		big := make([]byte, 65536+r.Intn(3))
		for i := range big {
			big[i] = byte(i * 7)
		}
		big[0] = []byte{22, 128, 144}[r.Intn(3)]
		big[1] = byte(c27Seconds[r.Intn(len(c27Seconds))])
		ds[r.Intn(len(ds))] = hx(big)
	}
	specs = []string{"D:" + strings.Join(ds, ",")}
	maxSeg = []int{2 * nd}
	reg := map[string]bool{}
	owner := map[string]int{}
	plain := r.Intn(3) != 0
	for e := 1 + r.Intn(3); e > 0; e-- {
		mine := []string{}
		a := g.acts(&mine, fam, reg, owner, e, 1+r.Intn(4), plain)
		if len(a) == 0 {
			a = []string{"r0"}
		}
		specs = append(specs, "E:"+strings.Join(a, ","))
		seg := 2 * len(a)
		for _, x := range a {
			if x[0] == 'N' {
				seg += nd / 2
			}
		}
		maxSeg = append(maxSeg, seg)
	}
	// the dispatcher is not always T0
	if r.Intn(4) == 0 {
		j := r.Intn(len(specs))
		specs[0], specs[j] = specs[j], specs[0]
		maxSeg[0], maxSeg[j] = maxSeg[j], maxSeg[0]
	}

	return specs, maxSeg
}

func (g *c27Gen) runLine() string {
	r := g.c.Rng
	specs, maxSeg := g.runProg()
	total := 0
	for _, m := range maxSeg {
		total += m
	}
	sched := []string{}
	steps := r.Intn(total + 3)
	// bias: sometimes let the dispatcher run ahead, sometimes the creators
	bias := r.Intn(3)
	di := 0
	for i, sp := range specs {
		if strings.HasPrefix(sp, "D:") {
			di = i
		}
	}
	for k := 0; k < steps; k++ {
		var n string
		switch {
		case r.Intn(25) == 0:
			n = fmt.Sprintf("W%d", r.Intn(2))
		case bias == 1 && r.Intn(3) != 0:
			n = fmt.Sprintf("T%d", di)
		case bias == 2 && r.Intn(3) != 0 && len(specs) > 1:
			j := r.Intn(len(specs))
			if j == di {
				j = (j + 1) % len(specs)
			}
			n = fmt.Sprintf("T%d", j)
		default:
			n = fmt.Sprintf("T%d", r.Intn(len(specs)))
		}
		sched = append(sched, n)
	}

	return "run " + strings.Join(specs, " ") + " sched " + strings.Join(sched, " ")
}

// every word over the thread names of the given length (complete enumeration of the interleavings
// of a small program: a finished thread's extra letters are skipped by both sides)
func c27Words(names []string, length int, emit func([]string)) {
	w := make([]string, length)
	var rec func(int)
	rec = func(i int) {
		if i == length {
			emit(w)

			return
		}
		for _, n := range names {
			w[i] = n
			rec(i + 1)
		}
	}
	rec(0)
}

func init() {
	registry["C27"] = &Prop{
		Procs: 16,
		Rule: "clsrow: every (length 0..5, first byte, second byte) buffer, enumerated completely (1536 lines of 256 second " +
			"bytes each = 393216 buffers; by theorem C27_class_depends_on_two_bytes_and_length the class of any byte list " +
			"equals that of one of them); cls: the single-buffer form at seeded boundary values, lengths 0..6; clsb: seeded " +
			"buffers of length 0..40 with boundary-biased first/second bytes. pipe: seeded sequential scripts over the real " +
			"readLoop (net.Pipe): datagrams (30% DTLS, 50% RTP/RTCP, boundary and foreign first bytes; 15% malformed: empty, " +
			"1..3 bytes, duplicates) interleaved with NewEndpoint over a family of pairwise disjoint matchers, Endpoint.Close, " +
			"Mux.Close, buffer limits and reads; 1/8 long enough to overflow the 15-packet pending queue. run: programs of one " +
			"dispatcher thread (1..7, sometimes 16..20 datagrams, 1/300 with a 64 KiB datagram) and 1..3 endpoint-creator threads executed on the real Mux " +
			"under the cooperative scheduler (yields after NewEndpoint's critical section, between dispatch's lookup and its " +
			"buffer write, inside Endpoint.Close; 1/3 of the endpoints get a MatchFunc that parks at every call made by " +
			"NewEndpoint itself, i.e. with m.lock held: a thread released meanwhile must be found waiting for the mutex), " +
			"with a seeded blind schedule then a fixed-order drain; plus EVERY " +
			"interleaving of 7 small programs (2..3 datagrams × one creator with 1..2 acts, one with a parking MatchFunc; thorough: also 2 datagrams × " +
			"two creators, and create/close/create). Non-trivial: distinct op lines; cls/clsrow lines that " +
			"differ only in unused bytes, and pipe/run lines without a datagram or without an endpoint, are trivial.",
		Gen: func(c *Ctx) {
			g := &c27Gen{c: c}
			for n := 0; n <= 5; n++ {
				for b0 := 0; b0 < 256; b0++ {
					c.Emit("clsrow %d %d", n, b0) // all 256 second bytes in one line
				}
			}
			for k := 0; k < c.N(300, 3000); k++ { // single-buffer form of the same op (also used for replays)
				c.Emit("cls %d %d %d", c.Rng.Intn(7), c27Firsts[c.Rng.Intn(len(c27Firsts))], c27Seconds[c.Rng.Intn(len(c27Seconds))])
			}
			for k := 0; k < c.N(600, 20000); k++ {
				n := c.Rng.Intn(41)
				b := make([]byte, n)
				for i := range b {
					b[i] = byte(c.Rng.Intn(256))
				}
				if n > 0 && c.Rng.Intn(3) != 0 {
					b[0] = byte(c27Firsts[c.Rng.Intn(len(c27Firsts))])
				}
				if n > 1 && c.Rng.Intn(2) == 0 {
					b[1] = byte(c27Seconds[c.Rng.Intn(len(c27Seconds))])
				}
				c.Emit("clsb %s", hx(b))
			}
			// complete schedule enumeration of small programs: words of length = the largest possible number
			// of segments (2 per datagram, 2 per creator act), so every interleaving is a prefix of some word
			enum := func(sp []string) {
				names := []string{}
				total := 0
				nd := 0
				for _, t := range sp {
					if t[0] == 'D' {
						nd = len(strings.Split(t[2:], ","))
					}
				}
				for i, t := range sp {
					names = append(names, fmt.Sprintf("T%d", i))
					for _, x := range strings.Split(t[2:], ",") {
						total += 2
						if x[0] == 'N' { // one more segment per MatchFunc call of the flush
							total += nd
						}
					}
				}
				c27Words(names, total, func(w []string) {
					c.Emit("run %s sched %s", strings.Join(sp, " "), strings.Join(w, " "))
				})
			}
			for _, sp := range [][]string{
				{"D:16fefd0001,16fefd0002", "E:ndtls"},
				{"D:16fefd0001,80600001", "E:ndtls,nsrtp"},
				{"D:80c80001,80600002", "E:nsrtp,nsrtcp"},
				{"D:16fefd0001,16fefd0002", "E:ndtls,x0"},
				{"E:nrtp", "D:80c80001,80600002"},
				{"D:16fefd0001,16fefd0002,16fefd0003", "E:ndtls"},
				{"D:16fefd0001,16fefd0002", "E:Ndtls"},
			} {
				enum(sp)
			}
			if c.Thorough() {
				for _, sp := range [][]string{
					{"D:16fefd0001,80600001", "E:ndtls", "E:nsrtp"},
					{"D:16fefd0001,16fefd0002", "E:ndtls", "E:nsrtp"},
					{"D:80c80001,80600002", "E:nsrtcp", "E:nsrtp"},
					{"D:16fefd0001,16fefd0002", "E:ndtls,x0,ndtls"},
					{"D:16fefd0001,16fefd0002,16fefd0003", "E:Ndtls"},
				} {
					enum(sp)
				}
			}
			for k := 0; k < c.N(1000, 40000); k++ {
				c.Emit("%s", g.pipeLine())
			}
			for k := 0; k < c.N(1500, 60000); k++ {
				c.Emit("%s", g.runLine())
			}
		},
		Exec: func(a []string) string {
			switch a[0] {
			case "cls":
				if len(a) != 4 {
					return "bad-op"
				}
				n, e1 := strconv.Atoi(a[1])
				b0, e2 := strconv.Atoi(a[2])
				b1, e3 := strconv.Atoi(a[3])
				if e1 != nil || e2 != nil || e3 != nil || n < 0 || n > 70000 || b0 < 0 || b0 > 255 || b1 < 0 || b1 > 255 {
					return "bad-op"
				}

				return c27Bits(c27Buf(n, b0, b1))
			case "clsrow":
				if len(a) != 3 {
					return "bad-op"
				}
				n, e1 := strconv.Atoi(a[1])
				b0, e2 := strconv.Atoi(a[2])
				if e1 != nil || e2 != nil || n < 0 || n > 70000 || b0 < 0 || b0 > 255 {
					return "bad-op"
				}
				sb := strings.Builder{}
				for b1 := 0; b1 < 256; b1++ {
					v, _ := strconv.ParseUint(c27Bits(c27Buf(n, b0, b1)), 2, 8)
					fmt.Fprintf(&sb, "%x", v)
				}

				return sb.String()
			case "clsb":
				if len(a) != 2 {
					return "bad-op"
				}

				return c27Bits(unhx(a[1]))
			case "pipe":
				return c27Pipe(a[1:])
			case "run":
				p, ok := c27Parse(a)
				if !ok {
					return "bad-op"
				}

				return c27Run(p)
			}

			return "bad-op"
		},
		Class: func(a []string, out string) string {
			switch a[0] {
			case "cls", "clsb":
				return a[0] + "→" + out
			case "clsrow":
				kinds := ""
				for _, ch := range []string{"0", "1", "3", "5", "8"} {
					if strings.Contains(out, ch) {
						kinds += ch
					}
				}

				return "clsrow len=" + a[1] + " classes(hex)=" + kinds
			}
			fl := []string{a[0]}
			nd, ne := 0, 0
			has := map[string]bool{}
			for _, t := range a[1:] {
				if t == "sched" {
					break
				}
				parts := []string{t}
				if strings.HasPrefix(t, "D:") || strings.HasPrefix(t, "E:") {
					if t[0] == 'D' {
						nd += len(strings.Split(t[2:], ","))

						continue
					}
					parts = strings.Split(t[2:], ",")
				}
				for _, p := range parts {
					switch {
					case strings.HasPrefix(p, "d"):
						nd++
					case strings.HasPrefix(p, "n"):
						ne++
					case strings.HasPrefix(p, "N"):
						ne++
						has["park-in-lock"] = true
					case p == "q":
						has["muxclose"] = true
					case strings.HasPrefix(p, "x"):
						has["epclose"] = true
					case strings.HasPrefix(p, "l"):
						has["limit"] = true
					case strings.HasPrefix(p, "r"):
						has["read"] = true
					}
				}
			}
			if nd > 15 {
				fl = append(fl, "d>15")
			}
			if len(strings.Join(a, " ")) > 100000 {
				fl = append(fl, "64KiB-datagram")
			}
			if strings.Contains(out, ":blocked") {
				has["blocked-on-lock"] = true
			}
			for _, k := range []string{"epclose", "muxclose", "limit", "read", "park-in-lock", "blocked-on-lock"} {
				if has[k] {
					fl = append(fl, k)
				}
			}
			if !strings.Contains(out, "pend -") {
				fl = append(fl, "left-pending")
			}
			if strings.Contains(out, "loop dead") {
				fl = append(fl, "loop-dead")
			}
			if ne == 0 {
				fl = append(fl, "no-endpoint")
			}

			return strings.Join(fl, " ")
		},
		Trivial: func(a []string, out string) bool {
			switch a[0] {
			case "cls":
				return (a[1] == "0" && (a[2] != "0" || a[3] != "0")) || (a[1] == "1" && a[3] != "0")
			case "clsrow":
				return a[1] == "0" && a[2] != "0"
			case "clsb":
				return false
			}

			return strings.HasPrefix(out, "none") || strings.Contains(out, "| none") ||
				!(strings.Contains(strings.Join(a, " "), " d") || strings.Contains(strings.Join(a, " "), "D:"))
		},
		Timeout: 60e9,
	}
}
