package main

// Cooperative scheduler for schedule-controlled runs of the real code (DESIGN §3.5).
//
// The library is built with -tags verif, so `verifYield(label)` calls sit between its critical
// sections. A Sched installs the yield callback; every goroutine that reaches a yield parks on its
// own channel. The controller releases exactly one parked thread at a time (Step) and waits until
// that thread parks again, finishes, or is blocked on a real primitive (channel, WaitGroup) for longer
// than BlockTimeout. Yields never sit inside a lock, so a parked thread holds no lock.
//
// Threads started by the harness are T0, T1, …; goroutines spawned inside the library are adopted at
// their first yield as W0, W1, … in order of appearance. Labels starting with '!' are notes: they are
// recorded for the releasing thread but do not park.

import (
	"bytes"
	"fmt"
	"runtime"
	"strconv"
	"strings"
	"sync"
	"time"
)

func curGID() uint64 {
	var buf [64]byte
	n := runtime.Stack(buf[:], false)
	// "goroutine 123 [running]:"
	f := bytes.Fields(buf[:n])
	if len(f) < 2 {
		return 0
	}
	id, _ := strconv.ParseUint(string(f[1]), 10, 64)

	return id
}

// goWaiting reports whether goroutine gid exists and sits in a waiting state (not running/runnable,
// not a momentary mutex acquisition).
func goWaiting(gid uint64) bool {
	buf := make([]byte, 1<<18)
	for {
		n := runtime.Stack(buf, true)
		if n < len(buf) {
			buf = buf[:n]

			break
		}
		buf = make([]byte, 2*len(buf))
	}
	key := []byte(fmt.Sprintf("goroutine %d [", gid))
	i := bytes.Index(buf, key)
	if i < 0 || (i > 0 && buf[i-1] != '\n') {
		return false
	}
	rest := buf[i+len(key):]
	j := bytes.IndexByte(rest, ']')
	if j < 0 {
		return false
	}
	st := string(rest[:j])
	if k := strings.IndexByte(st, ','); k >= 0 { // "chan receive, 2 minutes"
		st = st[:k]
	}
	switch st {
	case "chan receive", "chan send", "select", "sync.Cond.Wait", "sync.WaitGroup.Wait", "sleep", "IO wait",
		"chan receive (nil chan)", "chan send (nil chan)", "select (no cases)", "semacquire":
		return true
	}

	return false
}

// waitParkedProbe waits until th parks or finishes (true), or until its goroutine has been waiting
// continuously for `need` (false). Gives up after 10 s.
func (s *Sched) waitParkedProbe(th *schedThread, need time.Duration) bool {
	deadline := time.Now().Add(10 * time.Second)
	var since time.Time
	for time.Now().Before(deadline) {
		if s.waitParked(th, 400*time.Microsecond) {
			return true
		}
		if goWaiting(th.gid) {
			if since.IsZero() {
				since = time.Now()
			} else if time.Since(since) >= need {
				// a last look: it may have parked meanwhile
				return s.waitParked(th, 0)
			}
		} else {
			since = time.Time{}
		}
	}

	return false
}

type schedThread struct {
	name    string
	gid     uint64
	resume  chan struct{}
	state   int // 0 in-flight (running or blocked), 1 parked, 2 finished
	label   string
	blocked bool // last release timed out
}

const (
	thFlying = iota
	thParked
	thDone
)

// Sched controls one run.
type Sched struct {
	mu             sync.Mutex
	cond           *sync.Cond
	byGID          map[uint64]*schedThread
	byName         map[string]*schedThread
	order          []string
	workers        int
	notes          []string
	BlockTimeout   time.Duration
	RecheckTimeout time.Duration
	AdoptPrefix    string
	Families       []string // library label families this run schedules (empty = all)
	off            bool
	spawns         int
	tnames         []string
	blockedFlag    map[string]bool
	finished       map[string]bool
	// Probe switches blocked-detection from "did not park within BlockTimeout" to "its goroutine has
	// been in a waiting state (channel, Cond, WaitGroup, select, sleep) for ProbeWait without a break":
	// time spent runnable on a loaded machine does not count. After a label ending in ".wait" (the
	// convention for the yield right before a blocking primitive) ProbeWaitShort is used instead.
	Probe          bool
	ProbeWait      time.Duration
	ProbeWaitShort time.Duration
	steps          int // number of Step calls so far
}

// StepNo is the index of the Step call in progress (0-based; the position of its event in the trace).
func (s *Sched) StepNo() int {
	s.mu.Lock()
	defer s.mu.Unlock()

	return s.steps - 1
}

// libFamilies are the label prefixes of the verifYield points in /repo, one family per instrumented
// area. A Sched with Families set parks only at labels of those families (and at the harness's own
// labels, which belong to no family); the others return at once.
var libFamilies = []string{"ops.", "dc.", "dcid:", "flush.", "gather.", "mux.", "origin.", "close.", "ucs."}

func labelFamily(label string) string {
	for _, f := range libFamilies {
		if strings.HasPrefix(label, f) {
			return f
		}
	}

	return ""
}

// NewSched creates a scheduler; install its Yield with the library's VerifSetYield.
func NewSched() *Sched {
	s := &Sched{byGID: map[uint64]*schedThread{}, byName: map[string]*schedThread{}, BlockTimeout: 40 * time.Millisecond, RecheckTimeout: 6 * time.Millisecond, AdoptPrefix: "W",
		blockedFlag: map[string]bool{}, finished: map[string]bool{}, ProbeWait: 30 * time.Millisecond, ProbeWaitShort: 3 * time.Millisecond}
	s.cond = sync.NewCond(&s.mu)

	return s
}

// Go starts a harness thread under the scheduler's control; it parks before running fn.
func (s *Sched) Go(name string, fn func()) {
	th := &schedThread{name: name, resume: make(chan struct{}, 1)}
	s.mu.Lock()
	s.byName[name] = th
	s.order = append(s.order, name)
	s.tnames = append(s.tnames, name)
	s.mu.Unlock()
	ready := make(chan struct{})
	go func() {
		th.gid = curGID()
		s.mu.Lock()
		s.byGID[th.gid] = th
		s.mu.Unlock()
		close(ready)
		s.Yield("begin")
		fn()
		s.mu.Lock()
		th.state = thDone
		th.label = "fin"
		s.cond.Broadcast()
		s.mu.Unlock()
	}()
	<-ready
	s.waitParked(th, 5*time.Second)
}

// Yield is the callback for verifYield and for harness-level yields.
func (s *Sched) Yield(label string) {
	if s.off {
		return
	}
	if len(label) > 0 && label[0] == '!' {
		gid := curGID()
		s.mu.Lock()
		if _, known := s.byGID[gid]; !known && len(s.Families) > 0 {
			// a note from a goroutine this scheduler does not control (e.g. the operations queue of a
			// real PeerConnection used by a run that schedules something else)
			s.mu.Unlock()

			return
		}
		switch label {
		case "!spawn":
			s.spawns++
		case "!exit": // this goroutine will not yield again
			if th, ok := s.byGID[gid]; ok {
				th.state = thDone
				th.label = "fin"
				s.cond.Broadcast()
			}
		default:
			s.notes = append(s.notes, label)
		}
		s.mu.Unlock()

		return
	}
	// yield points that other properties added to the library are not this run's business
	if fam := labelFamily(label); fam != "" && len(s.Families) > 0 {
		mine := false
		for _, f := range s.Families {
			if f == fam {
				mine = true
			}
		}
		if !mine {
			return
		}
	}
	gid := curGID()
	s.mu.Lock()
	if s.off {
		s.mu.Unlock()

		return
	}
	th, ok := s.byGID[gid]
	if !ok { // goroutine spawned inside the library: adopt
		th = &schedThread{name: fmt.Sprintf("%s%d", s.AdoptPrefix, s.workers), gid: gid, resume: make(chan struct{}, 1)}
		s.workers++
		s.byGID[gid] = th
		s.byName[th.name] = th
		s.order = append(s.order, th.name)
	}
	th.state = thParked
	th.label = label
	th.blocked = false
	s.cond.Broadcast()
	s.mu.Unlock()
	<-th.resume
}

// Finish marks an adopted goroutine as finished (called from a hook at the end of a library
// goroutine, via the note label "!fin").
func (s *Sched) waitParked(th *schedThread, d time.Duration) bool {
	deadline := time.Now().Add(d)
	s.mu.Lock()
	defer s.mu.Unlock()
	for th.state == thFlying {
		remaining := time.Until(deadline)
		if remaining <= 0 {
			return false
		}
		t := time.AfterFunc(remaining, func() { s.mu.Lock(); s.cond.Broadcast(); s.mu.Unlock() })
		s.cond.Wait()
		t.Stop()
	}

	return true
}

// Step releases thread `name` for one segment and reports where it stopped: the label it parked
// at, "fin", "blocked" (it did not reach its next yield: it waits on a real primitive), or "skip"
// (no such thread, finished, or still blocked from an earlier step). A thread that was blocked and
// has woken meanwhile is parked at its wake label; Step then runs its next segment.
func (s *Sched) Step(name string) string {
	s.mu.Lock()
	s.steps++
	s.mu.Unlock()
	r := s.step(name)
	s.mu.Lock()
	switch r {
	case "blocked":
		s.blockedFlag[name] = true
	case "skip":
	case "fin":
		s.finished[name] = true
		s.blockedFlag[name] = false
	default:
		s.blockedFlag[name] = false
	}
	s.mu.Unlock()

	return r
}

func (s *Sched) step(name string) string {
	s.mu.Lock()
	th, ok := s.byName[name]
	spawns := s.spawns
	s.mu.Unlock()
	if !ok {
		// a worker that has been spawned but has not reached its first yield yet?
		var k int
		if _, err := fmt.Sscanf(name, s.AdoptPrefix+"%d", &k); err != nil || k >= spawns {
			return "skip"
		}
		deadline := time.Now().Add(s.BlockTimeout)
		if s.Probe { // it has been spawned (k < spawns), so it will reach its first yield
			deadline = time.Now().Add(5 * time.Second)
		}
		for !ok && time.Now().Before(deadline) {
			time.Sleep(100 * time.Microsecond)
			s.mu.Lock()
			th, ok = s.byName[name]
			s.mu.Unlock()
		}
		if !ok {
			return "skip"
		}
	}
	s.mu.Lock()
	st := th.state
	wasBlocked := th.blocked
	s.mu.Unlock()
	if st == thDone {
		return "skip"
	}
	if st == thFlying { // blocked earlier, or just spawned: has it parked meanwhile?
		to := s.BlockTimeout
		if wasBlocked {
			to = s.RecheckTimeout
		}
		if s.Probe {
			need := s.ProbeWait
			if wasBlocked {
				need = s.ProbeWaitShort
			}
			if !s.waitParkedProbe(th, need) {
				return "skip"
			}
		} else if !s.waitParked(th, to) {
			return "skip"
		}
		s.mu.Lock()
		st = th.state
		s.mu.Unlock()
		if st == thDone {
			return "skip"
		}
	}
	s.mu.Lock()
	th.state = thFlying
	th.blocked = false
	s.mu.Unlock()
	s.mu.Lock()
	fromWait := strings.HasSuffix(th.label, ".wait")
	s.mu.Unlock()
	th.resume <- struct{}{}
	parked := false
	if s.Probe {
		need := s.ProbeWait
		if fromWait {
			need = s.ProbeWaitShort
		}
		parked = s.waitParkedProbe(th, need)
	} else {
		parked = s.waitParked(th, s.BlockTimeout)
	}
	if !parked {
		s.mu.Lock()
		th.blocked = true
		s.mu.Unlock()

		return "blocked"
	}
	s.mu.Lock()
	defer s.mu.Unlock()

	return th.label
}

// AllNames lists harness threads, then W0..W(spawns-1).
func (s *Sched) AllNames() []string {
	s.mu.Lock()
	defer s.mu.Unlock()
	out := append([]string{}, s.tnames...)
	for k := 0; k < s.spawns; k++ {
		out = append(out, fmt.Sprintf("%s%d", s.AdoptPrefix, k))
	}

	return out
}

// Drain runs every thread to completion in a fixed, model-reproducible order and returns the events
// "name:result": passes over all threads that are neither finished nor flagged blocked; when a pass
// makes no progress the blocked ones are re-tried once; stop when that wakes nobody.
func (s *Sched) Drain(limit int) []string {
	ev := []string{}
	for len(ev) < limit {
		progressed := false
		for _, n := range s.AllNames() {
			s.mu.Lock()
			skip := s.finished[n] || s.blockedFlag[n]
			s.mu.Unlock()
			if skip {
				continue
			}
			r := s.Step(n)
			if r == "skip" { // (cannot happen for a parked thread; keep the event for the diff)
				s.mu.Lock()
				s.finished[n] = true
				s.mu.Unlock()
			}
			ev = append(ev, n+":"+r)
			progressed = true
		}
		if progressed {
			continue
		}
		for _, n := range s.AllNames() {
			s.mu.Lock()
			bl := s.blockedFlag[n] && !s.finished[n]
			s.mu.Unlock()
			if !bl {
				continue
			}
			r := s.Step(n)
			ev = append(ev, n+":"+r)
			if r != "skip" {
				progressed = true
			}
		}
		if !progressed {
			break
		}
	}

	return ev
}

// Runnable lists the threads currently parked (in creation order).
func (s *Sched) Runnable() []string {
	s.mu.Lock()
	defer s.mu.Unlock()
	out := []string{}
	for _, n := range s.order {
		if s.byName[n].state == thParked {
			out = append(out, n)
		}
	}

	return out
}

// Threads lists all threads with their state ("parked@label", "fin", "blocked@label").
func (s *Sched) Threads() []string {
	s.mu.Lock()
	defer s.mu.Unlock()
	out := []string{}
	for _, n := range s.order {
		th := s.byName[n]
		switch th.state {
		case thParked:
			out = append(out, n+":parked@"+th.label)
		case thDone:
			out = append(out, n+":fin")
		default:
			out = append(out, n+":blocked@"+th.label)
		}
	}

	return out
}

// Settle gives in-flight goroutines (just spawned / just woken) a moment to park.
func (s *Sched) Settle() {
	deadline := time.Now().Add(s.BlockTimeout)
	for time.Now().Before(deadline) {
		s.mu.Lock()
		fly := false
		for _, th := range s.byName {
			if th.state == thFlying && !th.blocked {
				fly = true
			}
		}
		s.mu.Unlock()
		if !fly {
			return
		}
		time.Sleep(100 * time.Microsecond)
	}
}

// Release turns the scheduler off and lets every parked thread run freely (end of a run).
func (s *Sched) Release() {
	s.mu.Lock()
	s.off = true
	ths := []*schedThread{}
	for _, th := range s.byName {
		ths = append(ths, th)
	}
	s.mu.Unlock()
	for _, th := range ths {
		select {
		case th.resume <- struct{}{}:
		default:
		}
	}
}
