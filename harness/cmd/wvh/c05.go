package main

import (
	"fmt"
	"strconv"
	"strings"
	"sync"
	"time"

	"github.com/pion/webrtc/v4"
)

// C05 — operations queue under a controlled schedule (see lean/WebrtcVerif/Drv/C05.lean for the grammar).

type c05Prog struct {
	mode     int // what the worker's onNegotiationNeeded callback does: 0 nothing, 1 enqueue a check, 2 as PeerConnection.onNegotiationNeeded
	specs    []string
	sched    []string
	children map[int][]int
}

func c05Parse(a []string) (*c05Prog, bool) {
	if len(a) < 2 || a[0] != "run" || (a[1] != "neg=0" && a[1] != "neg=1" && a[1] != "neg=2") {
		return nil, false
	}
	p := &c05Prog{mode: int(a[1][4] - '0'), children: map[int][]int{}}
	i := 2
	for ; i < len(a) && a[i] != "sched"; i++ {
		p.specs = append(p.specs, a[i])
	}
	if i < len(a) {
		p.sched = a[i+1:]
	}

	return p, true
}

func c05Ops(spec string) (ids []int, children map[int][]int) {
	children = map[int][]int{}
	for _, s := range strings.Split(spec, ",") {
		if s == "" {
			continue
		}
		parts := strings.Split(s, ".")
		id, _ := strconv.Atoi(parts[0])
		ids = append(ids, id)
		for _, c := range parts[1:] {
			ci, _ := strconv.Atoi(c)
			children[id] = append(children[id], ci)
		}
	}

	return ids, children
}

// c05Run executes a program. With online != nil the schedule is chosen on the fly (generation) and
// recorded in p.sched; otherwise p.sched is followed.
func c05Run(p *c05Prog, online func(names []string) string, onlineSteps int) string {
	s := NewSched()
	s.Families = []string{"ops."}
	// blocked = the goroutine sits in a wait state for ProbeWait, not "did not park within a timeout":
	// a runnable goroutine that a loaded machine has not scheduled yet is not blocked
	s.Probe = true
	s.ProbeWait = 50 * time.Millisecond
	webrtc.VerifSetYield(s.Yield)
	defer webrtc.VerifSetYield(nil)
	var logMu sync.Mutex
	log := []string{}
	rec := func(e string) {
		logMu.Lock()
		log = append(log, e)
		logMu.Unlock()
	}
	negCalls := 0
	var q *webrtc.VerifOperations
	var opFn func(id int) func()
	opFn = func(id int) func() {
		return func() {
			rec(fmt.Sprintf("o%d", id))
			for _, c := range p.children[id] {
				s.Yield("op.child")
				q.Enqueue(opFn(c))
			}
		}
	}
	checks := 0
	enqCheck := func() {
		logMu.Lock()
		checks++
		id := 900 + checks
		logMu.Unlock()
		q.Enqueue(opFn(id))
	}
	// what PeerConnection.onNegotiationNeeded does (peerconnection.go): if the queue is not empty, ask for
	// another call at the end of the chain and leave; otherwise queue the check. The two halves are separate
	// critical sections in the real code, hence the yield.
	negFn := func(who string) {
		empty := q.IsEmpty()
		if empty {
			rec(who + "e")
		} else {
			rec(who + "b")
		}
		s.Yield("neg.tested")
		if !empty {
			q.SetFlag(true)
			rec(fmt.Sprintf("%ss@%d", who, s.StepNo()))

			return
		}
		enqCheck()
	}
	q = webrtc.NewVerifOperations(func() {
		negCalls++
		switch p.mode {
		case 1:
			enqCheck()
		case 2:
			negFn("n")
		}
	})
	nd, nc := 0, 0
	for i, sp := range p.specs {
		name := fmt.Sprintf("T%d", i)
		switch {
		case strings.HasPrefix(sp, "E:"):
			ids, ch := c05Ops(sp[2:])
			for k, v := range ch {
				p.children[k] = v
			}
			s.Go(name, func() {
				for j, id := range ids {
					if j > 0 {
						s.Yield("enq")
					}
					q.Enqueue(opFn(id))
				}
			})
		case sp == "D":
			k := nd
			nd++
			s.Go(name, func() {
				q.Done()
				rec(fmt.Sprintf("d%d", k))
			})
		case strings.HasPrefix(sp, "C:"):
			k := nc
			nc++
			ids, _ := c05Ops(sp[2:])
			s.Go(name, func() {
				q.GracefulClose()
				rec(fmt.Sprintf("c%d", k))
				for _, id := range ids {
					s.Yield("enq")
					q.Enqueue(opFn(id))
				}
			})
		case sp == "F":
			s.Go(name, func() {
				q.SetFlag(true)
				rec(fmt.Sprintf("f@%d", s.StepNo()))
			})
		case sp == "N":
			s.Go(name, func() { negFn("a") })
		default:
			return "bad-op"
		}
	}
	ev := []string{}
	if online != nil {
		p.sched = nil
		for k := 0; k < onlineSteps; k++ {
			n := online(s.AllNames())
			if n == "" {
				break
			}
			p.sched = append(p.sched, n)
			ev = append(ev, n+":"+s.Step(n))
		}
	} else {
		for _, n := range p.sched {
			ev = append(ev, n+":"+s.Step(n))
		}
	}
	ev = append(ev, "/")
	ev = append(ev, s.Drain(400)...)
	names := s.AllNames()
	states := []string{}
	s.mu.Lock()
	for _, n := range names {
		switch {
		case s.finished[n]:
			states = append(states, n+":fin")
		case s.blockedFlag[n]:
			states = append(states, n+":blocked")
		default:
			states = append(states, n+":parked")
		}
	}
	s.mu.Unlock()
	b01 := map[bool]int{false: 0, true: 1}
	flag, empty := b01[q.Flag()], b01[q.IsEmpty()]
	s.Release()
	logMu.Lock()
	defer logMu.Unlock()

	return fmt.Sprintf("%s | %s | neg %d flag %d empty %d | %s", strings.Join(ev, " "), strings.Join(log, " "), negCalls, flag, empty, strings.Join(states, " "))
}

// c05Directed builds a neg=2 line whose schedule puts an enqueue between the worker's last pop and its
// flag test + callback, with the flag set: T0 enqueues k ops, T1 sets the flag (F) or finds the queue busy
// (N), W0 runs the ops and pops nil, T2 enqueues one more op, W0 loads the flag, clears it and calls the
// callback, which finds the queue busy. 0–3 random extra steps are mixed in, random others run at the end.
func c05Directed(r interface{ Intn(int) int }, next int) string {
	k := 1 + r.Intn(2)
	first := []string{}
	for i := 0; i < k; i++ {
		first = append(first, strconv.Itoa(next))
		next++
	}
	setter := "F"
	if r.Intn(2) == 0 {
		setter = "N"
	}
	specs := []string{"E:" + strings.Join(first, ","), setter, "E:" + strconv.Itoa(next)}
	next++
	for x := r.Intn(3); x > 0; x-- {
		specs = append(specs, []string{"N", "D", "E:" + strconv.Itoa(next), "F"}[r.Intn(4)])
		next++
	}
	sched := []string{}
	for i := 0; i < k; i++ {
		sched = append(sched, "T0")
	}
	sched = append(sched, "T1")
	if setter == "N" {
		sched = append(sched, "T1")
	}
	for i := 0; i <= k; i++ {
		sched = append(sched, "W0")
	}
	sched = append(sched, "T2", "W0", "W0", "W0")
	for x := r.Intn(4); x > 0; x-- {
		at := r.Intn(len(sched) + 1)
		var n string
		if r.Intn(3) == 0 {
			n = fmt.Sprintf("W%d", r.Intn(2))
		} else {
			n = fmt.Sprintf("T%d", r.Intn(len(specs)))
		}
		sched = append(sched[:at], append([]string{n}, sched[at:]...)...)
	}
	for x := r.Intn(8); x > 0; x-- {
		if r.Intn(2) == 0 {
			sched = append(sched, fmt.Sprintf("W%d", 1+r.Intn(2)))
		} else {
			sched = append(sched, fmt.Sprintf("T%d", r.Intn(len(specs))))
		}
	}

	return fmt.Sprintf("run neg=2 %s sched %s", strings.Join(specs, " "), strings.Join(sched, " "))
}

func init() {
	registry["C05"] = &Prop{
		Procs: 16,
		Rule: "programs of 1–3 enqueuers (1–3 ops each; ~1/3 of ops enqueue 1–2 children from inside their body), " +
			"0–2 Done() callers, 0–1 GracefulClose() callers (followed by 0–2 late enqueues), 0–1 flag setters, " +
			"0–2 API goroutines doing what PeerConnection.onNegotiationNeeded does (IsEmpty; yield; set the flag or " +
			"enqueue the check); the worker's negotiation callback does nothing (1/4), enqueues a check (1/4) or " +
			"does what PeerConnection.onNegotiationNeeded does (1/2); the schedule (which thread runs its next " +
			"lock-delimited segment) is drawn step by step from the seeded PRNG among all threads incl. blocked " +
			"ones, then every thread is drained in a fixed order; half of the lines of the third kind start with a " +
			"directed prefix (flag set; the worker pops nil; an enqueue; the worker's flag test and callback) with " +
			"0–3 random extra steps mixed in. Each op line is executed on the real operations queue under the " +
			"cooperative scheduler (verifYield hooks) and replayed by the Lean transition system. Non-trivial: " +
			"distinct (program, schedule) lines with at least two threads.",
		Gen: func(c *Ctx) {
			r := c.Rng
			for n := 0; n < c.N(900, 12000); n++ {
				specs := []string{}
				next := 1
				ne := 1 + r.Intn(3)
				for e := 0; e < ne; e++ {
					ops := []string{}
					for k := 1 + r.Intn(3); k > 0; k-- {
						o := strconv.Itoa(next)
						next++
						if r.Intn(3) == 0 {
							for ch := 1 + r.Intn(2); ch > 0; ch-- {
								o += "." + strconv.Itoa(100+next)
								next++
							}
						}
						ops = append(ops, o)
					}
					specs = append(specs, "E:"+strings.Join(ops, ","))
				}
				for d := r.Intn(3); d > 0; d-- {
					specs = append(specs, "D")
				}
				if r.Intn(2) == 0 {
					post := []string{}
					for k := r.Intn(3); k > 0; k-- {
						post = append(post, strconv.Itoa(500+next))
						next++
					}
					specs = append(specs, "C:"+strings.Join(post, ","))
				}
				if r.Intn(3) == 0 {
					specs = append(specs, "F")
				}
				for k := []int{0, 0, 1, 1, 1, 2}[r.Intn(6)]; k > 0; k-- {
					specs = append(specs, "N")
				}
				r.Shuffle(len(specs), func(i, j int) { specs[i], specs[j] = specs[j], specs[i] })
				p := &c05Prog{mode: []int{0, 1, 2, 2}[r.Intn(4)], specs: specs, children: map[int][]int{}}
				if p.mode == 2 && r.Intn(2) == 0 {
					c.Emit("%s", c05Directed(r, next))

					continue
				}
				// blind schedule: names drawn without executing (non-runnable entries are skipped by both
				// sides); sometimes the workers are starved for a while so that queues build up
				steps := 4 + r.Intn(22)
				starve := r.Intn(3) == 0
				budget := map[string]int{}
				for k := 0; k < steps; k++ {
					var n string
					if (starve && r.Intn(4) != 0) || r.Intn(2) == 0 {
						n = fmt.Sprintf("T%d", r.Intn(len(specs)))
					} else {
						n = fmt.Sprintf("W%d", []int{0, 0, 0, 0, 1, 1, 2}[r.Intn(7)])
					}
					if n[0] == 'T' {
						sp := specs[int(n[1]-'0')]
						if (sp == "D" || strings.HasPrefix(sp, "C:")) && budget[n] >= 3 {
							continue
						}
						budget[n]++
					}
					p.sched = append(p.sched, n)
				}
				c.Emit("run neg=%d %s sched %s", p.mode, strings.Join(specs, " "), strings.Join(p.sched, " "))
			}
		},
		Exec: func(a []string) string {
			p, ok := c05Parse(a)
			if !ok {
				return "bad-op"
			}

			return c05Run(p, nil, 0)
		},
		Class: func(a []string, out string) string {
			cl := []string{}
			hasC, hasD, hasN, hasF := false, false, false, false
			for _, t := range a {
				if t == "sched" {
					break
				}
				if strings.HasPrefix(t, "C:") {
					hasC = true
				}
				if t == "D" {
					hasD = true
				}
				if t == "N" {
					hasN = true
				}
				if t == "F" {
					hasF = true
				}
			}
			if len(a) > 1 {
				cl = append(cl, a[1])
			}
			if hasN {
				cl = append(cl, "api")
			}
			if hasC {
				cl = append(cl, "close")
			}
			if hasD {
				cl = append(cl, "done")
			}
			switch {
			case strings.Contains(out, " ns@"):
				// the worker's own callback found the queue busy and re-armed the flag
				cl = append(cl, "worker-rearm")
			case strings.Contains(out, " flag 1 ") && !hasF:
				// at the end the request sits in the flag (API goroutine stored it after the worker left)
				cl = append(cl, "flag-parked")
			case strings.Contains(out, "W1:"):
				cl = append(cl, "handoff")
			}

			return strings.Join(cl, "+")
		},
		Trivial: func(a []string, _ string) bool {
			n := 0
			for _, t := range a {
				if t == "sched" {
					break
				}
				if strings.Contains(t, ":") || t == "D" || t == "F" || t == "N" {
					n++
				}
			}

			return n < 2
		},
		Timeout: 60e9,
	}
}
