package main

import (
	"errors"
	"fmt"
	"os"
	"path/filepath"
	"runtime"
	"strconv"
	"strings"
	"sync"
	"time"

	"github.com/pion/ice/v4"
	"github.com/pion/sdp/v3"
	"github.com/pion/webrtc/v4"
)

// helper ops of C30: `h <helper> <params…> D <parsed description>` (format in lean/WebrtcVerif/Drv/C30.lean).

type c30Attr struct{ k, v string }

type c30Media struct {
	media   string
	formats []string
	attrs   []c30Attr
}

type c30Desc struct {
	attrs  []c30Attr
	medias []c30Media
}

func c30FromSDP(d *sdp.SessionDescription) c30Desc {
	out := c30Desc{}
	for _, a := range d.Attributes {
		out.attrs = append(out.attrs, c30Attr{a.Key, a.Value})
	}
	for _, m := range d.MediaDescriptions {
		cm := c30Media{media: m.MediaName.Media, formats: append([]string{}, m.MediaName.Formats...)}
		for _, a := range m.Attributes {
			cm.attrs = append(cm.attrs, c30Attr{a.Key, a.Value})
		}
		out.medias = append(out.medias, cm)
	}

	return out
}

// c30LooseParse builds a parsed description from lines without pion/sdp's validation, so that the
// helpers also see structures its parser would have refused.
func c30LooseParse(text string) c30Desc {
	out := c30Desc{}
	for _, l := range strings.Split(strings.ReplaceAll(text, "\r\n", "\n"), "\n") {
		switch {
		case strings.HasPrefix(l, "m="):
			f := strings.Split(l[2:], " ")
			cm := c30Media{media: f[0]}
			if len(f) > 3 {
				cm.formats = f[3:]
			}
			out.medias = append(out.medias, cm)
		case strings.HasPrefix(l, "a="):
			k, v, _ := strings.Cut(l[2:], ":")
			if len(out.medias) == 0 {
				out.attrs = append(out.attrs, c30Attr{k, v})
			} else {
				m := &out.medias[len(out.medias)-1]
				m.attrs = append(m.attrs, c30Attr{k, v})
			}
		}
	}

	return out
}

func (d c30Desc) toSDP() *sdp.SessionDescription {
	s := &sdp.SessionDescription{}
	for _, a := range d.attrs {
		s.Attributes = append(s.Attributes, sdp.Attribute{Key: a.k, Value: a.v})
	}
	for _, m := range d.medias {
		md := &sdp.MediaDescription{MediaName: sdp.MediaName{
			Media: m.media, Port: sdp.RangedPort{Value: 9}, Protos: []string{"UDP", "TLS", "RTP", "SAVPF"},
			Formats: append([]string{}, m.formats...),
		}}
		for _, a := range m.attrs {
			md.Attributes = append(md.Attributes, sdp.Attribute{Key: a.k, Value: a.v})
		}
		s.MediaDescriptions = append(s.MediaDescriptions, md)
	}

	return s
}

func hs(s string) string { return hx([]byte(s)) }

func (d c30Desc) encode() string {
	sb := strings.Builder{}
	sb.WriteString("D " + strconv.Itoa(len(d.attrs)))
	for _, a := range d.attrs {
		sb.WriteString(" " + hs(a.k) + " " + hs(a.v))
	}
	sb.WriteString(" " + strconv.Itoa(len(d.medias)))
	for _, m := range d.medias {
		sb.WriteString(" " + hs(m.media) + " " + strconv.Itoa(len(m.formats)))
		for _, f := range m.formats {
			sb.WriteString(" " + hs(f))
		}
		sb.WriteString(" " + strconv.Itoa(len(m.attrs)))
		for _, a := range m.attrs {
			sb.WriteString(" " + hs(a.k) + " " + hs(a.v))
		}
	}

	return sb.String()
}

type c30Toks struct {
	t  []string
	ok bool
}

func (p *c30Toks) next() string {
	if len(p.t) == 0 {
		p.ok = false

		return ""
	}
	x := p.t[0]
	p.t = p.t[1:]

	return x
}

func (p *c30Toks) nat() int {
	v, err := strconv.Atoi(p.next())
	if err != nil || v < 0 || v > len(p.t) {
		p.ok = false

		return 0
	}

	return v
}

func (p *c30Toks) str() string { return string(unhx(p.next())) }

func c30Decode(t []string) (c30Desc, bool) {
	p := &c30Toks{t: t, ok: true}
	d := c30Desc{}
	for n := p.nat(); n > 0 && p.ok; n-- {
		d.attrs = append(d.attrs, c30Attr{p.str(), p.str()})
	}
	for nm := p.nat(); nm > 0 && p.ok; nm-- {
		m := c30Media{media: p.str()}
		for n := p.nat(); n > 0 && p.ok; n-- {
			m.formats = append(m.formats, p.str())
		}
		for n := p.nat(); n > 0 && p.ok; n-- {
			m.attrs = append(m.attrs, c30Attr{p.str(), p.str()})
		}
		d.medias = append(d.medias, m)
	}

	return d, p.ok && len(p.t) == 0
}

func c30GroupPairs(sem string, m c30Media) [][2]uint64 {
	out := [][2]uint64{}
	for _, a := range m.attrs {
		if a.k != "ssrc-group" {
			continue
		}
		f := strings.Split(a.v, " ")
		if len(f) != 3 || f[0] != sem {
			continue
		}
		b, err1 := strconv.ParseUint(f[1], 10, 32)
		r, err2 := strconv.ParseUint(f[2], 10, 32)
		if err1 == nil && err2 == nil {
			out = append(out, [2]uint64{b, r})
		}
	}

	return out
}

func c30Ambiguous(d c30Desc) bool {
	for _, m := range d.medias {
		for _, sem := range []string{"FID", "FEC-FR"} {
			ps := c30GroupPairs(sem, m)
			for _, p := range ps {
				for _, q := range ps {
					if p[0] == q[0] && p[1] != q[1] {
						return true
					}
				}
			}
		}
	}

	return false
}

// c30AmbiguousExt: the MediaEngine keeps negotiated header extensions in Go maps; when one extmap id names two
// URIs or one URI has two ids, which one it answers with depends on map iteration order (outside C30's subject).
func c30AmbiguousExt(d c30Desc) bool {
	type ent struct{ id, uri string }
	es := []ent{}
	for _, m := range d.medias {
		for _, a := range m.attrs {
			if a.k != "extmap" {
				continue
			}
			f := strings.Split(a.v, " ")
			id, _, _ := strings.Cut(f[0], "/")
			uri := ""
			if len(f) > 1 {
				uri = f[1]
			}
			es = append(es, ent{id, uri})
		}
	}
	for _, p := range es {
		for _, q := range es {
			if (p.id == q.id) != (p.uri == q.uri) {
				return true
			}
		}
	}

	return false
}

func c30OptSSRC(p *webrtc.SSRC) string {
	if p == nil {
		return "-"
	}

	return strconv.FormatUint(uint64(*p), 10)
}

var (
	c30HelperPCOnce sync.Once
	c30HelperPC     *webrtc.PeerConnection
)

func c30CandClass(v string) int {
	_, err := ice.UnmarshalCandidate(v)
	switch {
	case err == nil:
		return 0
	case errors.Is(err, ice.ErrUnknownCandidateTyp) || errors.Is(err, ice.ErrDetermineNetworkType):
		return 1
	}

	return 2
}

func c30ExecHelper(a []string) string { //nolint:gocyclo,cyclop,maintidx
	if len(a) < 2 {
		return "bad-op"
	}
	name := a[1]
	if name == "rt" {
		if len(a) < 3 {
			return "bad-op"
		}
		idx, err := strconv.Atoi(a[2])
		if err != nil {
			return "bad-op"
		}
		bound := make([]bool, 0, len(a)-3)
		for _, t := range a[3:] {
			bound = append(bound, t == "1")
		}
		i, rerr := webrtc.VerifReceiverReadRTP(bound, idx)
		if rerr != nil {
			return "err"
		}

		return fmt.Sprintf("read %d", i)
	}
	if name == "rr" {
		bound := make([]bool, 0, len(a)-2)
		for _, t := range a[2:] {
			bound = append(bound, t == "1")
		}
		i, err := webrtc.VerifReceiverRead(bound)
		if err != nil {
			return "err"
		}

		return fmt.Sprintf("read %d", i)
	}
	if name == "ext" {
		if len(a) != 3 {
			return "bad-op"
		}
		got, err := webrtc.VerifCandidateExportExtensions(string(unhx(a[2])))
		if err != nil {
			return "err"
		}
		out := []string{"ok", strconv.Itoa(len(got))}
		for _, g := range got {
			out = append(out, hs(g[0]), hs(g[1]))
		}

		return strings.Join(out, " ")
	}
	if name == "cut" {
		p := &c30Toks{t: a[2:], ok: true}
		for n := p.nat(); n > 0 && p.ok; n-- {
			p.next()
		}
		if !p.ok || len(p.t) != 1 {
			return "bad-op"
		}
		c30APIOnce.Do(func() { c30APIVal = webrtc.NewAPI() })
		pkt := unhx(p.t[0])
		pt, _, err := webrtc.VerifCheckAndUpdateTrack(c30APIVal, webrtc.RTPCodecTypeVideo, pkt)
		switch {
		case err == nil:
			return fmt.Sprintf("updated %d", pt)
		case len(pkt) < 2:
			return "short"
		}

		return "unknown"
	}
	di := -1
	for i := 2; i < len(a); i++ {
		if a[i] == "D" {
			di = i

			break
		}
	}
	if di < 0 {
		return "bad-op"
	}
	params := a[2:di]
	d, ok := c30Decode(a[di+1:])
	if !ok {
		return "bad-op"
	}
	s := d.toSDP()
	switch name {
	case "td":
		if c30Ambiguous(d) {
			return "ambiguous"
		}
		ts := webrtc.VerifTrackDetailsFromSDP(s)
		out := []string{"ok", strconv.Itoa(len(ts))}
		for _, t := range ts {
			out = append(out, hs(t.Mid), strconv.Itoa(int(t.Kind)), hs(t.StreamID), hs(t.ID), strconv.Itoa(len(t.SSRCs)))
			for _, x := range t.SSRCs {
				out = append(out, strconv.FormatUint(uint64(x), 10))
			}
			out = append(out, c30OptSSRC(t.RTX), c30OptSSRC(t.FEC), strconv.Itoa(len(t.RIDs)))
			for _, r := range t.RIDs {
				out = append(out, hs(r))
			}
		}

		return strings.Join(out, " ")
	case "enc":
		if c30Ambiguous(d) {
			return "ambiguous"
		}
		ts := webrtc.VerifTrackDetailsFromSDP(s)
		out := []string{"ok", strconv.Itoa(len(ts))}
		for _, t := range ts {
			es := webrtc.VerifReceiveEncodings(t)
			out = append(out, strconv.Itoa(len(es)))
			for _, e := range es {
				out = append(out, hs(e[0]), e[1], e[2], e[3])
			}
		}

		return strings.Join(out, " ")
	case "rids":
		out := []string{"ok"}
		for _, m := range s.MediaDescriptions {
			ids, paused := webrtc.VerifGetRids(m)
			out = append(out, strconv.Itoa(len(ids)))
			for i := range ids {
				out = append(out, hs(ids[i]), b2s(paused[i]))
			}
		}

		return strings.Join(out, " ")
	case "bundle":
		return "ok " + hs(webrtc.VerifExtractBundleID(s))
	case "fp":
		v, h, err := webrtc.VerifExtractFingerprintParsed(s)
		switch {
		case err == nil:
			return "ok " + hs(v) + " " + hs(h)
		case errors.Is(err, webrtc.ErrSessionDescriptionNoFingerprint):
			return "none"
		}

		return "invalid"
	case "dir":
		out := []string{"ok"}
		for _, m := range s.MediaDescriptions {
			out = append(out, strconv.Itoa(int(webrtc.VerifGetPeerDirection(m))))
		}

		return strings.Join(out, " ")
	case "sel":
		mid, idx, ok := webrtc.VerifSelectCandidateMediaSection(s)
		if !ok {
			return "none"
		}

		return fmt.Sprintf("ok %s %d", hs(mid), idx)
	case "ice":
		u, p, n, err := webrtc.VerifExtractICEDetails(s)
		switch {
		case err == nil:
			return fmt.Sprintf("ok %s %s %d", hs(u), hs(p), n)
		case errors.Is(err, webrtc.ErrSessionDescriptionMissingIceUfrag):
			return "err-ufrag"
		case errors.Is(err, webrtc.ErrSessionDescriptionMissingIcePwd):
			return "err-pwd"
		}

		return "err-cand"
	case "planb":
		return "ok " + b2s(webrtc.VerifDescriptionIsPlanB(true, s)) + " " + b2s(webrtc.VerifDescriptionPossiblyPlanB(true, s))
	case "codecs":
		if len(params) < 1 {
			return "bad-op"
		}
		mi, err := strconv.Atoi(params[0])
		if err != nil || mi < 0 || mi >= len(s.MediaDescriptions) {
			return "bad-op"
		}
		cs, err := webrtc.VerifCodecsFromMediaDescription(s.MediaDescriptions[mi])
		if err != nil {
			return "err"
		}
		out := []string{"ok", strconv.Itoa(len(cs))}
		for _, c := range cs {
			out = append(out, strconv.Itoa(int(c.PayloadType)), hs(c.MimeType), strconv.Itoa(int(c.ClockRate)),
				strconv.Itoa(int(c.Channels)), hs(c.SDPFmtpLine), strconv.Itoa(len(c.RTCPFeedback)))
			for _, f := range c.RTCPFeedback {
				out = append(out, hs(f.Type), hs(f.Parameter))
			}
		}

		return strings.Join(out, " ")
	case "rtpr":
		if len(params) != 2 {
			return "bad-op"
		}
		sem := 0
		if params[0] == "1" {
			sem = 1
		}
		pc, err := c30NewPC(sem, 0)
		if err != nil {
			return "bad-op newpc"
		}
		defer pc.Close() //nolint:errcheck
		if params[1] == "1" {
			_ = pc.Close()
		}
		webrtc.VerifStartRTPReceivers(pc, s, webrtc.SDPTypeOffer)

		return "survived"
	case "undecl":
		out := []string{"ok"}
		for _, m := range s.MediaDescriptions {
			pc, err := c30NewPC(0, 0)
			if err != nil {
				return "bad-op newpc"
			}
			handled, herr := webrtc.VerifHandleUndeclaredSSRC(pc, 4242, m)
			switch {
			case handled:
				trs := pc.GetTransceivers()
				tr := trs[len(trs)-1]
				id, sid := "", ""
				if t := tr.Receiver().Track(); t != nil {
					id, sid = t.ID(), t.StreamID()
				}
				out = append(out, "add", strconv.Itoa(int(tr.Kind())), hs(sid), hs(id))
			case herr != nil:
				out = append(out, "ssrc-err")
			default:
				out = append(out, "rid")
			}
			_ = pc.Close()
		}

		return strings.Join(out, " ")
	case "uin":
		// uin <isAnswer> <withoutAnswer> <midOK> <ridOK> <ptKnown> <audioOK> <videoOK> <ssrc> <pktHex|->
		if len(params) != 9 {
			return "bad-op"
		}
		if c30Ambiguous(d) || c30AmbiguousExt(d) {
			return "ambiguous"
		}
		mode := 0
		if params[1] == "1" {
			mode = c30ModeUndeclNA
		}
		pc, err := c30NewPC(0, mode)
		if err != nil {
			return "bad-op newpc"
		}
		defer pc.Close() //nolint:errcheck
		typ := webrtc.SDPTypeOffer
		if params[0] == "1" {
			typ = webrtc.SDPTypeAnswer
		}
		ssrc, err := strconv.ParseUint(params[7], 10, 32)
		if err != nil {
			return "bad-op"
		}
		class := webrtc.VerifHandleIncomingSSRC(pc, typ, s, webrtc.SSRC(ssrc), unhx(params[8]))
		if class != "nil" {
			return class
		}
		trs := pc.GetTransceivers()
		if len(trs) == 0 {
			return "declared"
		}
		tr := trs[len(trs)-1]
		id, sid := "", ""
		if t := tr.Receiver().Track(); t != nil {
			id, sid = t.ID(), t.StreamID()
		}

		return fmt.Sprintf("add %d %s %s", int(tr.Kind()), hs(sid), hs(id))
	case "probe":
		return c30ExecProbe(params, d, s)
	case "pt":
		if len(params) != 1 {
			return "bad-op"
		}
		n, err := strconv.Atoi(params[0])
		if err != nil {
			return "bad-op"
		}
		c30HelperPCOnce.Do(func() { c30HelperPC, _ = c30NewPC(0, 0) })
		i, ok := webrtc.VerifFindMediaSectionByPayloadType(c30HelperPC, webrtc.PayloadType(n), s) //nolint:gosec
		if !ok {
			return "none"
		}

		return fmt.Sprintf("ok %d", i)
	}

	return "bad-op"
}

// c30DeclaredSSRCs: the numbers a description's a=ssrc / a=ssrc-group lines mention.
func c30DeclaredSSRCs(d c30Desc) []uint32 {
	out := []uint32{}
	for _, m := range d.medias {
		for _, a := range m.attrs {
			if a.k != "ssrc" && a.k != "ssrc-group" {
				continue
			}
			for _, f := range strings.Split(a.v, " ") {
				if v, err := strconv.ParseUint(f, 10, 32); err == nil {
					out = append(out, uint32(v))
				}
			}
		}
	}

	return out
}

// c30FormatPTs: the payload types listed on the m= lines.
func c30FormatPTs(d c30Desc) []byte {
	out := []byte{}
	for _, m := range d.medias {
		for _, f := range m.formats {
			if v, err := strconv.ParseUint(f, 10, 7); err == nil {
				out = append(out, byte(v))
			}
		}
	}

	return out
}

// c30KnownPTs: the payload types the default media engine knows (probed through the hook).
func c30KnownPTs() []int {
	c30APIOnce.Do(func() { c30APIVal = webrtc.NewAPI() })
	out := []int{}
	for pt := 0; pt < 128; pt++ {
		if _, _, err := webrtc.VerifCheckAndUpdateTrack(c30APIVal, webrtc.RTPCodecTypeVideo, []byte{0x80, byte(pt)}); err == nil {
			out = append(out, pt)
		}
	}

	return out
}

func c30GenHelpers(c *Ctx, bases []c30Base) {
	r := c.Rng
	known := c30KnownPTs()
	ks := []string{strconv.Itoa(len(known))}
	for _, k := range known {
		ks = append(ks, strconv.Itoa(k))
	}
	emitAll := func(d c30Desc, light bool) {
		enc := d.encode()
		for _, h := range []string{"td", "enc", "rids", "bundle", "fp", "dir", "sel", "planb"} {
			c.Emit("h %s %s", h, enc)
		}
		// ice: classify every candidate attribute with the real parser
		cs := []string{}
		seen := map[string]bool{}
		for _, m := range d.medias {
			for _, a := range m.attrs {
				if a.k == "candidate" && !seen[a.v] {
					seen[a.v] = true
					cs = append(cs, hs(a.v), strconv.Itoa(c30CandClass(a.v)))
				}
			}
		}
		c.Emit("h ice %d %s %s", len(cs)/2, strings.Join(cs, " "), enc)
		// codecs: GetCodecForPayloadType of pion/sdp is the oracle
		s := d.toSDP()
		for mi, m := range s.MediaDescriptions {
			one := &sdp.SessionDescription{MediaDescriptions: []*sdp.MediaDescription{m}}
			tbl := []string{}
			n := 0
			done := map[uint64]bool{}
			for _, f := range m.MediaName.Formats {
				pt, err := strconv.ParseUint(f, 10, 8)
				if err != nil || done[pt] {
					continue
				}
				done[pt] = true
				cd, err := one.GetCodecForPayloadType(uint8(pt))
				if err != nil {
					continue
				}
				n++
				tbl = append(tbl, strconv.FormatUint(pt, 10), hs(cd.Name), strconv.Itoa(int(cd.ClockRate)),
					hs(cd.EncodingParameters), hs(cd.Fmtp), strconv.Itoa(len(cd.RTCPFeedback)))
				for _, fb := range cd.RTCPFeedback {
					tbl = append(tbl, hs(fb))
				}
			}
			c.Emit("h codecs %d %d %s %s", mi, n, strings.Join(tbl, " "), enc)
		}
		c.Emit("h pt %d %s", []int{96, 111, 0, 97, 120, 255, 8}[r.Intn(7)], enc)
		c.Emit("h undecl %s", enc)
		if !light {
			c.Emit("h rtpr %d %d %s", r.Intn(2), r.Intn(2), enc)
			c.Emit("h rtpr 1 1 %s", enc)
		}
		// handleIncomingSSRC on this description: a declared or an unknown SSRC, with or without a packet
		nuin := 1
		if !light {
			nuin = 2
		}
		for k := 0; k < nuin; k++ {
			ssrc := uint32(424242)
			if decl := c30DeclaredSSRCs(d); len(decl) > 0 && r.Intn(3) == 0 {
				ssrc = decl[r.Intn(len(decl))]
			}
			isAnswer, withoutAnswer := r.Intn(4) == 0, r.Intn(4) == 0
			pkt := []byte{}
			if r.Intn(6) != 0 {
				pts := []byte{96, 111, 97, 0, 45, 102, 120, 109}
				if fs := c30FormatPTs(d); len(fs) > 0 && r.Intn(3) != 0 {
					pts = fs
				}
				pkt = []byte{0x80, pts[r.Intn(len(pts))], 0, byte(1 + k), 0, 0, 0, 1, byte(ssrc >> 24), byte(ssrc >> 16), byte(ssrc >> 8), byte(ssrc), 1, 2, 3, 4}
			}
			mode := 0
			if withoutAnswer {
				mode = c30ModeUndeclNA
			}
			typ := webrtc.SDPTypeOffer
			if isAnswer {
				typ = webrtc.SDPTypeAnswer
			}
			pt := byte(0)
			if len(pkt) > 1 {
				pt = pkt[1] & 0x7f
			}
			pc, err := c30NewPC(0, mode)
			if err != nil {
				continue
			}
			o := webrtc.VerifIncomingSSRCOracle(pc, typ, d.toSDP(), webrtc.PayloadType(pt))
			_ = pc.Close()
			c.Emit("h uin %s %s %s %s %s %s %s %d %s %s", b2s(isAnswer), b2s(withoutAnswer), b2s(o.MidOK), b2s(o.RidOK),
				b2s(o.KnownPT), b2s(o.AudioCodecs), b2s(o.VideoOK), ssrc, hx(pkt), enc)
		}
	}
	// the bases themselves
	for _, b := range bases {
		d := &sdp.SessionDescription{}
		if d.UnmarshalString(b.sdp) == nil {
			emitAll(c30FromSDP(d), false)
		}
	}
	n := c.N(260, 1800)
	for i := 0; i < n; i++ {
		b := bases[r.Intn(len(bases))]
		text, _ := c30Mutate(r, b.sdp, 1+r.Intn(5))
		var d c30Desc
		parsed := &sdp.SessionDescription{}
		if r.Intn(3) != 0 && parsed.UnmarshalString(text) == nil {
			d = c30FromSDP(parsed)
		} else {
			d = c30LooseParse(text)
		}
		emitAll(d, i%4 != 0)
	}
	// RTPReceiver.Read over every bound/unbound pattern of up to 4 tracks (complete enumeration)
	for n := 0; n <= 4; n++ {
		for bits := 0; bits < 1<<n; bits++ {
			toks := []string{}
			for k := 0; k < n; k++ {
				toks = append(toks, b2s(bits>>k&1 == 1))
			}
			c.Emit("h rr %s", strings.Join(toks, " "))
		}
	}
	// RTPReceiver.readRTP: every bound/unbound pattern of up to 3 tracks, every reader incl. a foreign one
	for n := 0; n <= 3; n++ {
		for bits := 0; bits < 1<<n; bits++ {
			for idx := 0; idx <= n; idx++ {
				toks := []string{}
				for k := 0; k < n; k++ {
					toks = append(toks, b2s(bits>>k&1 == 1))
				}
				c.Emit("h rt %d %s", idx, strings.Join(toks, " "))
			}
		}
	}
	// candidate extension strings for exportExtensions
	words := []string{"generation", "0", "ufrag", "abc", "network-id", "1", "network-cost", "10", "tcptype", "active", "fail", "", "x"}
	for i := 0; i < c.N(300, 6000); i++ {
		parts := []string{}
		for k := r.Intn(8); k > 0; k-- {
			parts = append(parts, words[r.Intn(len(words))])
		}
		e := strings.Join(parts, " ")
		switch r.Intn(6) {
		case 0:
			e = " " + e
		case 1:
			e += " "
		case 2:
			e = strings.ReplaceAll(e, " ", "  ")
		}
		c.Emit("h ext %s", hs(e))
	}
	// packets for checkAndUpdateTrack
	for i := 0; i < c.N(400, 8000); i++ {
		c.Emit("h cut %s %s", strings.Join(ks, " "), hx(c30RTPPacket(r)))
	}
}

// ---------------------------------------------------------------------------------------------
// h probe: the whole handleIncomingSSRC including the mid / rid / rsid probing loop over the transceivers

type c30ProbeTr struct {
	shape, kind int // shape 0 send-only from a track (no receiver), 1 recvonly, 2 sendrecv, 3/4 = 1/2 stopped
	mid         string
	rids        []string
}

type c30ProbePkt struct {
	mid, rid, rsid string
	pad            bool
}

// c30ProbePacket builds an RTP packet whose one-byte header extensions carry the given values (an empty value
// or an id outside 1..14 means the extension is absent).
func c30ProbePacket(ssrc uint32, pt byte, seq int, ids [3]int, p c30ProbePkt) []byte {
	b := []byte{
		0x80, pt & 0x7f, byte(seq >> 8), byte(seq), 0, 0, 0, byte(seq),
		byte(ssrc >> 24), byte(ssrc >> 16), byte(ssrc >> 8), byte(ssrc),
	}
	ext := []byte{}
	for i, v := range []string{p.mid, p.rid, p.rsid} {
		if v == "" || ids[i] < 1 || ids[i] > 14 || len(v) > 16 {
			continue
		}
		ext = append(ext, byte(ids[i]<<4|(len(v)-1)))
		ext = append(ext, v...)
	}
	if len(ext) > 0 {
		for len(ext)%4 != 0 {
			ext = append(ext, 0)
		}
		b[0] |= 0x10
		b = append(b, 0xBE, 0xDE, byte(len(ext)/4>>8), byte(len(ext)/4))
		b = append(b, ext...)
	}
	if p.pad {
		b[0] |= 0x20
		b = append(b, 0, 0, 0, 4)
	} else {
		b = append(b, 1, 2, 3, 4, 5)
	}

	return b
}

func c30ExecProbe(params []string, d c30Desc, s *sdp.SessionDescription) string { //nolint:cyclop
	if len(params) < 14 {
		return "bad-op"
	}
	if c30Ambiguous(d) || c30AmbiguousExt(d) {
		return "ambiguous"
	}
	t := &c30Toks{t: params[7:], ok: true}
	num := func() int {
		v, err := strconv.Atoi(t.next())
		if err != nil {
			t.ok = false
		}

		return v
	}
	ssrc, pt := num(), num()
	ids := [3]int{num(), num(), num()}
	trs := []c30ProbeTr{}
	for n := t.nat(); n > 0 && t.ok; n-- {
		tr := c30ProbeTr{shape: num(), kind: num(), mid: t.str()}
		for k := t.nat(); k > 0 && t.ok; k-- {
			tr.rids = append(tr.rids, t.str())
		}
		trs = append(trs, tr)
	}
	pkts := []c30ProbePkt{}
	for n := t.nat(); n > 0 && t.ok; n-- {
		pkts = append(pkts, c30ProbePkt{mid: t.str(), rid: t.str(), rsid: t.str(), pad: t.next() == "1"})
	}
	if !t.ok || len(t.t) != 0 {
		return "bad-op"
	}
	mode := 0
	if params[1] == "1" {
		mode = c30ModeUndeclNA
	}
	pc, err := c30NewPC(0, mode)
	if err != nil {
		return "bad-op newpc"
	}
	defer pc.Close() //nolint:errcheck
	for _, tr := range trs {
		kind := webrtc.RTPCodecTypeVideo
		capab := webrtc.RTPCodecCapability{MimeType: webrtc.MimeTypeVP8, ClockRate: 90000}
		if tr.kind == 1 {
			kind = webrtc.RTPCodecTypeAudio
			capab = webrtc.RTPCodecCapability{MimeType: webrtc.MimeTypeOpus, ClockRate: 48000, Channels: 2}
		}
		var t *webrtc.RTPTransceiver
		switch tr.shape {
		case 0:
			track, terr := webrtc.NewTrackLocalStaticSample(capab, "t", "s")
			if terr != nil {
				return "bad-op track"
			}
			t, err = pc.AddTransceiverFromTrack(track, webrtc.RTPTransceiverInit{Direction: webrtc.RTPTransceiverDirectionSendonly})
		case 1, 3:
			t, err = pc.AddTransceiverFromKind(kind, webrtc.RTPTransceiverInit{Direction: webrtc.RTPTransceiverDirectionRecvonly})
		default:
			t, err = pc.AddTransceiverFromKind(kind, webrtc.RTPTransceiverInit{Direction: webrtc.RTPTransceiverDirectionSendrecv})
		}
		if err != nil {
			return "bad-op transceiver"
		}
		if tr.mid != "" {
			_ = t.SetMid(tr.mid)
		}
		webrtc.VerifConfigureReceiverRIDs(t, tr.rids)
		if tr.shape >= 3 {
			_ = t.Stop()
		}
	}
	typ := webrtc.SDPTypeOffer
	if params[0] == "1" {
		typ = webrtc.SDPTypeAnswer
	}
	raw := [][]byte{}
	for i, p := range pkts {
		raw = append(raw, c30ProbePacket(uint32(ssrc), byte(pt), i+1, ids, p)) //nolint:gosec
	}
	classCh := make(chan string, 1)
	go func() {
		defer func() {
			if rec := recover(); rec != nil {
				classCh <- "panic " + c30Hash(fmt.Sprint(rec))
			}
		}()
		classCh <- webrtc.VerifHandleIncomingSSRCProbe(pc, typ, s, webrtc.SSRC(ssrc), raw) //nolint:gosec
	}()
	var class string
	select {
	case class = <-classCh:
	case <-time.After(60 * time.Second):
		// a hang: keep the goroutine stacks for diagnosis
		buf := make([]byte, 1<<20)
		buf = buf[:runtime.Stack(buf, true)]
		_ = os.WriteFile(filepath.Join(c30LogDir(), fmt.Sprintf("hang-%d.txt", os.Getpid())), buf, 0o644)

		return "hang probe"
	}
	if strings.HasPrefix(class, "panic ") {
		return class
	}
	if class != "nil" {
		return class
	}
	all := pc.GetTransceivers()
	if len(all) > len(trs) { // handleUndeclaredSSRC added a transceiver for the SSRC
		tr := all[len(all)-1]
		id, sid := "", ""
		if t := tr.Receiver().Track(); t != nil {
			id, sid = t.ID(), t.StreamID()
		}

		return fmt.Sprintf("add %d %s %s", int(tr.Kind()), hs(sid), hs(id))
	}
	if i, how := webrtc.VerifProbeChoice(pc, webrtc.SSRC(ssrc)); i >= 0 { //nolint:gosec
		return fmt.Sprintf("%s %d", how, i)
	}

	return "declared"
}

// c30GenProbes emits h probe ops: descriptions that negotiate the mid / rid extensions (and mutated ones),
// 1–5 transceivers of every shape, 1–6 packets naming their mids (receiver-less ones included), unknown
// and empty mids, rids with and without mid, rsid only, padding-only packets.
func c30GenProbes(c *Ctx, bases []c30Base) {
	r := c.Rng
	good := []c30Base{}
	for _, b := range bases {
		if strings.Contains(b.sdp, "sdes:rtp-stream-id") {
			good = append(good, b)
		}
	}
	if len(good) == 0 {
		return
	}
	mids := []string{"0", "1", "2", "video", "9"}
	rids := []string{"q", "h", "f"}
	for i := 0; i < c.N(150, 3000); i++ {
		b := good[r.Intn(len(good))]
		text := b.sdp
		if r.Intn(4) == 0 {
			text, _ = c30Mutate(r, b.sdp, 1+r.Intn(2))
		}
		parsed := &sdp.SessionDescription{}
		if parsed.UnmarshalString(text) != nil {
			continue
		}
		d := c30FromSDP(parsed)
		isAnswer, withoutAnswer := r.Intn(4) != 0, r.Intn(5) == 0
		typ := webrtc.SDPTypeOffer
		if isAnswer {
			typ = webrtc.SDPTypeAnswer
		}
		mode := 0
		if withoutAnswer {
			mode = c30ModeUndeclNA
		}
		pts := c30FormatPTs(d)
		pt := byte(96)
		if len(pts) > 0 && r.Intn(5) != 0 {
			pt = pts[r.Intn(len(pts))]
		}
		pc, err := c30NewPC(0, mode)
		if err != nil {
			continue
		}
		o := webrtc.VerifIncomingSSRCOracle(pc, typ, d.toSDP(), webrtc.PayloadType(pt))
		midID, ridID, rsidID := webrtc.VerifHeaderExtensionIDs(pc, typ, d.toSDP())
		_ = pc.Close()
		if midID > 14 || ridID > 14 || rsidID > 14 {
			continue
		}
		sb := strings.Builder{}
		fmt.Fprintf(&sb, "h probe %s %s %s %s %s %s %s %d %d %d %d %d", b2s(isAnswer), b2s(withoutAnswer), b2s(o.MidOK),
			b2s(o.RidOK), b2s(o.KnownPT), b2s(o.AudioCodecs), b2s(o.VideoOK), 424242+r.Intn(3), pt, midID, ridID, rsidID)
		nt := 1 + r.Intn(5)
		fmt.Fprintf(&sb, " %d", nt)
		used := []string{}
		for k := 0; k < nt; k++ {
			mid := mids[r.Intn(len(mids))]
			if r.Intn(8) == 0 {
				mid = ""
			}
			used = append(used, mid)
			shape := []int{0, 0, 1, 1, 2, 3, 4}[r.Intn(7)]
			nr := r.Intn(4)
			fmt.Fprintf(&sb, " %d %d %s %d", shape, 1+r.Intn(2), hs(mid), nr)
			for _, x := range rids[:nr] {
				sb.WriteString(" " + hs(x))
			}
		}
		np := 1 + r.Intn(6)
		fmt.Fprintf(&sb, " %d", np)
		for k := 0; k < np; k++ {
			mid := used[r.Intn(len(used))]
			switch r.Intn(6) {
			case 0:
				mid = ""
			case 1:
				mid = []string{"7", "nope", "0123456789abcdef"}[r.Intn(3)]
			}
			rid := []string{"q", "h", "", "zz", "q"}[r.Intn(5)]
			rsid := []string{"", "", "", "q", "zz"}[r.Intn(5)]
			fmt.Fprintf(&sb, " %s %s %s %s", hs(mid), hs(rid), hs(rsid), b2s(r.Intn(7) == 0))
		}
		c.Emit("%s %s", sb.String(), d.encode())
	}
}
