package main

import (
	"errors"
	"fmt"
	"strconv"
	"strings"
	"sync"

	"github.com/pion/ice/v4"
	"github.com/pion/sdp/v3"
	"github.com/pion/webrtc/v4"
)

// helper ops of C30: `h <helper> <params…> D <parsed description>` (format in lean/WebrtcVerif/Drv/C30.lean).

type c30Attr struct{ k, v string }

type c30Media struct {
	media   string
	formats []string
	attrs   []c30Attr
}

type c30Desc struct {
	attrs  []c30Attr
	medias []c30Media
}

func c30FromSDP(d *sdp.SessionDescription) c30Desc {
	out := c30Desc{}
	for _, a := range d.Attributes {
		out.attrs = append(out.attrs, c30Attr{a.Key, a.Value})
	}
	for _, m := range d.MediaDescriptions {
		cm := c30Media{media: m.MediaName.Media, formats: append([]string{}, m.MediaName.Formats...)}
		for _, a := range m.Attributes {
			cm.attrs = append(cm.attrs, c30Attr{a.Key, a.Value})
		}
		out.medias = append(out.medias, cm)
	}

	return out
}

// c30LooseParse builds a parsed description from lines without pion/sdp's validation, so that the
// helpers also see structures its parser would have refused.
func c30LooseParse(text string) c30Desc {
	out := c30Desc{}
	for _, l := range strings.Split(strings.ReplaceAll(text, "\r\n", "\n"), "\n") {
		switch {
		case strings.HasPrefix(l, "m="):
			f := strings.Split(l[2:], " ")
			cm := c30Media{media: f[0]}
			if len(f) > 3 {
				cm.formats = f[3:]
			}
			out.medias = append(out.medias, cm)
		case strings.HasPrefix(l, "a="):
			k, v, _ := strings.Cut(l[2:], ":")
			if len(out.medias) == 0 {
				out.attrs = append(out.attrs, c30Attr{k, v})
			} else {
				m := &out.medias[len(out.medias)-1]
				m.attrs = append(m.attrs, c30Attr{k, v})
			}
		}
	}

	return out
}

func (d c30Desc) toSDP() *sdp.SessionDescription {
	s := &sdp.SessionDescription{}
	for _, a := range d.attrs {
		s.Attributes = append(s.Attributes, sdp.Attribute{Key: a.k, Value: a.v})
	}
	for _, m := range d.medias {
		md := &sdp.MediaDescription{MediaName: sdp.MediaName{
			Media: m.media, Port: sdp.RangedPort{Value: 9}, Protos: []string{"UDP", "TLS", "RTP", "SAVPF"},
			Formats: append([]string{}, m.formats...),
		}}
		for _, a := range m.attrs {
			md.Attributes = append(md.Attributes, sdp.Attribute{Key: a.k, Value: a.v})
		}
		s.MediaDescriptions = append(s.MediaDescriptions, md)
	}

	return s
}

func hs(s string) string { return hx([]byte(s)) }

func (d c30Desc) encode() string {
	sb := strings.Builder{}
	sb.WriteString("D " + strconv.Itoa(len(d.attrs)))
	for _, a := range d.attrs {
		sb.WriteString(" " + hs(a.k) + " " + hs(a.v))
	}
	sb.WriteString(" " + strconv.Itoa(len(d.medias)))
	for _, m := range d.medias {
		sb.WriteString(" " + hs(m.media) + " " + strconv.Itoa(len(m.formats)))
		for _, f := range m.formats {
			sb.WriteString(" " + hs(f))
		}
		sb.WriteString(" " + strconv.Itoa(len(m.attrs)))
		for _, a := range m.attrs {
			sb.WriteString(" " + hs(a.k) + " " + hs(a.v))
		}
	}

	return sb.String()
}

type c30Toks struct {
	t  []string
	ok bool
}

func (p *c30Toks) next() string {
	if len(p.t) == 0 {
		p.ok = false

		return ""
	}
	x := p.t[0]
	p.t = p.t[1:]

	return x
}

func (p *c30Toks) nat() int {
	v, err := strconv.Atoi(p.next())
	if err != nil || v < 0 || v > len(p.t) {
		p.ok = false

		return 0
	}

	return v
}

func (p *c30Toks) str() string { return string(unhx(p.next())) }

func c30Decode(t []string) (c30Desc, bool) {
	p := &c30Toks{t: t, ok: true}
	d := c30Desc{}
	for n := p.nat(); n > 0 && p.ok; n-- {
		d.attrs = append(d.attrs, c30Attr{p.str(), p.str()})
	}
	for nm := p.nat(); nm > 0 && p.ok; nm-- {
		m := c30Media{media: p.str()}
		for n := p.nat(); n > 0 && p.ok; n-- {
			m.formats = append(m.formats, p.str())
		}
		for n := p.nat(); n > 0 && p.ok; n-- {
			m.attrs = append(m.attrs, c30Attr{p.str(), p.str()})
		}
		d.medias = append(d.medias, m)
	}

	return d, p.ok && len(p.t) == 0
}

func c30GroupPairs(sem string, m c30Media) [][2]uint64 {
	out := [][2]uint64{}
	for _, a := range m.attrs {
		if a.k != "ssrc-group" {
			continue
		}
		f := strings.Split(a.v, " ")
		if len(f) != 3 || f[0] != sem {
			continue
		}
		b, err1 := strconv.ParseUint(f[1], 10, 32)
		r, err2 := strconv.ParseUint(f[2], 10, 32)
		if err1 == nil && err2 == nil {
			out = append(out, [2]uint64{b, r})
		}
	}

	return out
}

func c30Ambiguous(d c30Desc) bool {
	for _, m := range d.medias {
		for _, sem := range []string{"FID", "FEC-FR"} {
			ps := c30GroupPairs(sem, m)
			for _, p := range ps {
				for _, q := range ps {
					if p[0] == q[0] && p[1] != q[1] {
						return true
					}
				}
			}
		}
	}

	return false
}

// c30AmbiguousExt: the MediaEngine keeps negotiated header extensions in Go maps; when one extmap id names two
// URIs or one URI has two ids, which one it answers with depends on map iteration order (outside C30's subject).
func c30AmbiguousExt(d c30Desc) bool {
	type ent struct{ id, uri string }
	es := []ent{}
	for _, m := range d.medias {
		for _, a := range m.attrs {
			if a.k != "extmap" {
				continue
			}
			f := strings.Split(a.v, " ")
			id, _, _ := strings.Cut(f[0], "/")
			uri := ""
			if len(f) > 1 {
				uri = f[1]
			}
			es = append(es, ent{id, uri})
		}
	}
	for _, p := range es {
		for _, q := range es {
			if (p.id == q.id) != (p.uri == q.uri) {
				return true
			}
		}
	}

	return false
}

func c30OptSSRC(p *webrtc.SSRC) string {
	if p == nil {
		return "-"
	}

	return strconv.FormatUint(uint64(*p), 10)
}

var (
	c30HelperPCOnce sync.Once
	c30HelperPC     *webrtc.PeerConnection
)

func c30CandClass(v string) int {
	_, err := ice.UnmarshalCandidate(v)
	switch {
	case err == nil:
		return 0
	case errors.Is(err, ice.ErrUnknownCandidateTyp) || errors.Is(err, ice.ErrDetermineNetworkType):
		return 1
	}

	return 2
}

func c30ExecHelper(a []string) string { //nolint:gocyclo,cyclop,maintidx
	if len(a) < 2 {
		return "bad-op"
	}
	name := a[1]
	if name == "rr" {
		bound := make([]bool, 0, len(a)-2)
		for _, t := range a[2:] {
			bound = append(bound, t == "1")
		}
		i, err := webrtc.VerifReceiverRead(bound)
		if err != nil {
			return "err"
		}

		return fmt.Sprintf("read %d", i)
	}
	if name == "ext" {
		if len(a) != 3 {
			return "bad-op"
		}
		got, err := webrtc.VerifCandidateExportExtensions(string(unhx(a[2])))
		if err != nil {
			return "err"
		}
		out := []string{"ok", strconv.Itoa(len(got))}
		for _, g := range got {
			out = append(out, hs(g[0]), hs(g[1]))
		}

		return strings.Join(out, " ")
	}
	if name == "cut" {
		p := &c30Toks{t: a[2:], ok: true}
		for n := p.nat(); n > 0 && p.ok; n-- {
			p.next()
		}
		if !p.ok || len(p.t) != 1 {
			return "bad-op"
		}
		c30APIOnce.Do(func() { c30APIVal = webrtc.NewAPI() })
		pkt := unhx(p.t[0])
		pt, _, err := webrtc.VerifCheckAndUpdateTrack(c30APIVal, webrtc.RTPCodecTypeVideo, pkt)
		switch {
		case err == nil:
			return fmt.Sprintf("updated %d", pt)
		case len(pkt) < 2:
			return "short"
		}

		return "unknown"
	}
	di := -1
	for i := 2; i < len(a); i++ {
		if a[i] == "D" {
			di = i

			break
		}
	}
	if di < 0 {
		return "bad-op"
	}
	params := a[2:di]
	d, ok := c30Decode(a[di+1:])
	if !ok {
		return "bad-op"
	}
	s := d.toSDP()
	switch name {
	case "td":
		if c30Ambiguous(d) {
			return "ambiguous"
		}
		ts := webrtc.VerifTrackDetailsFromSDP(s)
		out := []string{"ok", strconv.Itoa(len(ts))}
		for _, t := range ts {
			out = append(out, hs(t.Mid), strconv.Itoa(int(t.Kind)), hs(t.StreamID), hs(t.ID), strconv.Itoa(len(t.SSRCs)))
			for _, x := range t.SSRCs {
				out = append(out, strconv.FormatUint(uint64(x), 10))
			}
			out = append(out, c30OptSSRC(t.RTX), c30OptSSRC(t.FEC), strconv.Itoa(len(t.RIDs)))
			for _, r := range t.RIDs {
				out = append(out, hs(r))
			}
		}

		return strings.Join(out, " ")
	case "enc":
		if c30Ambiguous(d) {
			return "ambiguous"
		}
		ts := webrtc.VerifTrackDetailsFromSDP(s)
		out := []string{"ok", strconv.Itoa(len(ts))}
		for _, t := range ts {
			es := webrtc.VerifReceiveEncodings(t)
			out = append(out, strconv.Itoa(len(es)))
			for _, e := range es {
				out = append(out, hs(e[0]), e[1], e[2], e[3])
			}
		}

		return strings.Join(out, " ")
	case "rids":
		out := []string{"ok"}
		for _, m := range s.MediaDescriptions {
			ids, paused := webrtc.VerifGetRids(m)
			out = append(out, strconv.Itoa(len(ids)))
			for i := range ids {
				out = append(out, hs(ids[i]), b2s(paused[i]))
			}
		}

		return strings.Join(out, " ")
	case "bundle":
		return "ok " + hs(webrtc.VerifExtractBundleID(s))
	case "fp":
		v, h, err := webrtc.VerifExtractFingerprintParsed(s)
		switch {
		case err == nil:
			return "ok " + hs(v) + " " + hs(h)
		case errors.Is(err, webrtc.ErrSessionDescriptionNoFingerprint):
			return "none"
		}

		return "invalid"
	case "dir":
		out := []string{"ok"}
		for _, m := range s.MediaDescriptions {
			out = append(out, strconv.Itoa(int(webrtc.VerifGetPeerDirection(m))))
		}

		return strings.Join(out, " ")
	case "sel":
		mid, idx, ok := webrtc.VerifSelectCandidateMediaSection(s)
		if !ok {
			return "none"
		}

		return fmt.Sprintf("ok %s %d", hs(mid), idx)
	case "ice":
		u, p, n, err := webrtc.VerifExtractICEDetails(s)
		switch {
		case err == nil:
			return fmt.Sprintf("ok %s %s %d", hs(u), hs(p), n)
		case errors.Is(err, webrtc.ErrSessionDescriptionMissingIceUfrag):
			return "err-ufrag"
		case errors.Is(err, webrtc.ErrSessionDescriptionMissingIcePwd):
			return "err-pwd"
		}

		return "err-cand"
	case "planb":
		return "ok " + b2s(webrtc.VerifDescriptionIsPlanB(true, s)) + " " + b2s(webrtc.VerifDescriptionPossiblyPlanB(true, s))
	case "codecs":
		if len(params) < 1 {
			return "bad-op"
		}
		mi, err := strconv.Atoi(params[0])
		if err != nil || mi < 0 || mi >= len(s.MediaDescriptions) {
			return "bad-op"
		}
		cs, err := webrtc.VerifCodecsFromMediaDescription(s.MediaDescriptions[mi])
		if err != nil {
			return "err"
		}
		out := []string{"ok", strconv.Itoa(len(cs))}
		for _, c := range cs {
			out = append(out, strconv.Itoa(int(c.PayloadType)), hs(c.MimeType), strconv.Itoa(int(c.ClockRate)),
				strconv.Itoa(int(c.Channels)), hs(c.SDPFmtpLine), strconv.Itoa(len(c.RTCPFeedback)))
			for _, f := range c.RTCPFeedback {
				out = append(out, hs(f.Type), hs(f.Parameter))
			}
		}

		return strings.Join(out, " ")
	case "rtpr":
		if len(params) != 2 {
			return "bad-op"
		}
		sem := 0
		if params[0] == "1" {
			sem = 1
		}
		pc, err := c30NewPC(sem, 0)
		if err != nil {
			return "bad-op newpc"
		}
		defer pc.Close() //nolint:errcheck
		if params[1] == "1" {
			_ = pc.Close()
		}
		webrtc.VerifStartRTPReceivers(pc, s, webrtc.SDPTypeOffer)

		return "survived"
	case "undecl":
		out := []string{"ok"}
		for _, m := range s.MediaDescriptions {
			pc, err := c30NewPC(0, 0)
			if err != nil {
				return "bad-op newpc"
			}
			handled, herr := webrtc.VerifHandleUndeclaredSSRC(pc, 4242, m)
			switch {
			case handled:
				trs := pc.GetTransceivers()
				tr := trs[len(trs)-1]
				id, sid := "", ""
				if t := tr.Receiver().Track(); t != nil {
					id, sid = t.ID(), t.StreamID()
				}
				out = append(out, "add", strconv.Itoa(int(tr.Kind())), hs(sid), hs(id))
			case herr != nil:
				out = append(out, "ssrc-err")
			default:
				out = append(out, "rid")
			}
			_ = pc.Close()
		}

		return strings.Join(out, " ")
	case "uin":
		// uin <isAnswer> <withoutAnswer> <midOK> <ridOK> <ptKnown> <audioOK> <videoOK> <ssrc> <pktHex|->
		if len(params) != 9 {
			return "bad-op"
		}
		if c30Ambiguous(d) || c30AmbiguousExt(d) {
			return "ambiguous"
		}
		mode := 0
		if params[1] == "1" {
			mode = c30ModeUndeclNA
		}
		pc, err := c30NewPC(0, mode)
		if err != nil {
			return "bad-op newpc"
		}
		defer pc.Close() //nolint:errcheck
		typ := webrtc.SDPTypeOffer
		if params[0] == "1" {
			typ = webrtc.SDPTypeAnswer
		}
		ssrc, err := strconv.ParseUint(params[7], 10, 32)
		if err != nil {
			return "bad-op"
		}
		class := webrtc.VerifHandleIncomingSSRC(pc, typ, s, webrtc.SSRC(ssrc), unhx(params[8]))
		if class != "nil" {
			return class
		}
		trs := pc.GetTransceivers()
		if len(trs) == 0 {
			return "declared"
		}
		tr := trs[len(trs)-1]
		id, sid := "", ""
		if t := tr.Receiver().Track(); t != nil {
			id, sid = t.ID(), t.StreamID()
		}

		return fmt.Sprintf("add %d %s %s", int(tr.Kind()), hs(sid), hs(id))
	case "pt":
		if len(params) != 1 {
			return "bad-op"
		}
		n, err := strconv.Atoi(params[0])
		if err != nil {
			return "bad-op"
		}
		c30HelperPCOnce.Do(func() { c30HelperPC, _ = c30NewPC(0, 0) })
		i, ok := webrtc.VerifFindMediaSectionByPayloadType(c30HelperPC, webrtc.PayloadType(n), s) //nolint:gosec
		if !ok {
			return "none"
		}

		return fmt.Sprintf("ok %d", i)
	}

	return "bad-op"
}

// c30DeclaredSSRCs: the numbers a description's a=ssrc / a=ssrc-group lines mention.
func c30DeclaredSSRCs(d c30Desc) []uint32 {
	out := []uint32{}
	for _, m := range d.medias {
		for _, a := range m.attrs {
			if a.k != "ssrc" && a.k != "ssrc-group" {
				continue
			}
			for _, f := range strings.Split(a.v, " ") {
				if v, err := strconv.ParseUint(f, 10, 32); err == nil {
					out = append(out, uint32(v))
				}
			}
		}
	}

	return out
}

// c30FormatPTs: the payload types listed on the m= lines.
func c30FormatPTs(d c30Desc) []byte {
	out := []byte{}
	for _, m := range d.medias {
		for _, f := range m.formats {
			if v, err := strconv.ParseUint(f, 10, 7); err == nil {
				out = append(out, byte(v))
			}
		}
	}

	return out
}

// c30KnownPTs: the payload types the default media engine knows (probed through the hook).
func c30KnownPTs() []int {
	c30APIOnce.Do(func() { c30APIVal = webrtc.NewAPI() })
	out := []int{}
	for pt := 0; pt < 128; pt++ {
		if _, _, err := webrtc.VerifCheckAndUpdateTrack(c30APIVal, webrtc.RTPCodecTypeVideo, []byte{0x80, byte(pt)}); err == nil {
			out = append(out, pt)
		}
	}

	return out
}

func c30GenHelpers(c *Ctx, bases []c30Base) {
	r := c.Rng
	known := c30KnownPTs()
	ks := []string{strconv.Itoa(len(known))}
	for _, k := range known {
		ks = append(ks, strconv.Itoa(k))
	}
	emitAll := func(d c30Desc, light bool) {
		enc := d.encode()
		for _, h := range []string{"td", "enc", "rids", "bundle", "fp", "dir", "sel", "planb"} {
			c.Emit("h %s %s", h, enc)
		}
		// ice: classify every candidate attribute with the real parser
		cs := []string{}
		seen := map[string]bool{}
		for _, m := range d.medias {
			for _, a := range m.attrs {
				if a.k == "candidate" && !seen[a.v] {
					seen[a.v] = true
					cs = append(cs, hs(a.v), strconv.Itoa(c30CandClass(a.v)))
				}
			}
		}
		c.Emit("h ice %d %s %s", len(cs)/2, strings.Join(cs, " "), enc)
		// codecs: GetCodecForPayloadType of pion/sdp is the oracle
		s := d.toSDP()
		for mi, m := range s.MediaDescriptions {
			one := &sdp.SessionDescription{MediaDescriptions: []*sdp.MediaDescription{m}}
			tbl := []string{}
			n := 0
			done := map[uint64]bool{}
			for _, f := range m.MediaName.Formats {
				pt, err := strconv.ParseUint(f, 10, 8)
				if err != nil || done[pt] {
					continue
				}
				done[pt] = true
				cd, err := one.GetCodecForPayloadType(uint8(pt))
				if err != nil {
					continue
				}
				n++
				tbl = append(tbl, strconv.FormatUint(pt, 10), hs(cd.Name), strconv.Itoa(int(cd.ClockRate)),
					hs(cd.EncodingParameters), hs(cd.Fmtp), strconv.Itoa(len(cd.RTCPFeedback)))
				for _, fb := range cd.RTCPFeedback {
					tbl = append(tbl, hs(fb))
				}
			}
			c.Emit("h codecs %d %d %s %s", mi, n, strings.Join(tbl, " "), enc)
		}
		c.Emit("h pt %d %s", []int{96, 111, 0, 97, 120, 255, 8}[r.Intn(7)], enc)
		c.Emit("h undecl %s", enc)
		if !light {
			c.Emit("h rtpr %d %d %s", r.Intn(2), r.Intn(2), enc)
			c.Emit("h rtpr 1 1 %s", enc)
		}
		// handleIncomingSSRC on this description: a declared or an unknown SSRC, with or without a packet
		nuin := 1
		if !light {
			nuin = 2
		}
		for k := 0; k < nuin; k++ {
			ssrc := uint32(424242)
			if decl := c30DeclaredSSRCs(d); len(decl) > 0 && r.Intn(3) == 0 {
				ssrc = decl[r.Intn(len(decl))]
			}
			isAnswer, withoutAnswer := r.Intn(4) == 0, r.Intn(4) == 0
			pkt := []byte{}
			if r.Intn(6) != 0 {
				pts := []byte{96, 111, 97, 0, 45, 102, 120, 109}
				if fs := c30FormatPTs(d); len(fs) > 0 && r.Intn(3) != 0 {
					pts = fs
				}
				pkt = []byte{0x80, pts[r.Intn(len(pts))], 0, byte(1 + k), 0, 0, 0, 1, byte(ssrc >> 24), byte(ssrc >> 16), byte(ssrc >> 8), byte(ssrc), 1, 2, 3, 4}
			}
			mode := 0
			if withoutAnswer {
				mode = c30ModeUndeclNA
			}
			typ := webrtc.SDPTypeOffer
			if isAnswer {
				typ = webrtc.SDPTypeAnswer
			}
			pt := byte(0)
			if len(pkt) > 1 {
				pt = pkt[1] & 0x7f
			}
			pc, err := c30NewPC(0, mode)
			if err != nil {
				continue
			}
			o := webrtc.VerifIncomingSSRCOracle(pc, typ, d.toSDP(), webrtc.PayloadType(pt))
			_ = pc.Close()
			c.Emit("h uin %s %s %s %s %s %s %s %d %s %s", b2s(isAnswer), b2s(withoutAnswer), b2s(o.MidOK), b2s(o.RidOK),
				b2s(o.KnownPT), b2s(o.AudioCodecs), b2s(o.VideoOK), ssrc, hx(pkt), enc)
		}
	}
	// the bases themselves
	for _, b := range bases {
		d := &sdp.SessionDescription{}
		if d.UnmarshalString(b.sdp) == nil {
			emitAll(c30FromSDP(d), false)
		}
	}
	n := c.N(260, 1800)
	for i := 0; i < n; i++ {
		b := bases[r.Intn(len(bases))]
		text, _ := c30Mutate(r, b.sdp, 1+r.Intn(5))
		var d c30Desc
		parsed := &sdp.SessionDescription{}
		if r.Intn(3) != 0 && parsed.UnmarshalString(text) == nil {
			d = c30FromSDP(parsed)
		} else {
			d = c30LooseParse(text)
		}
		emitAll(d, i%4 != 0)
	}
	// RTPReceiver.Read over every bound/unbound pattern of up to 4 tracks (complete enumeration)
	for n := 0; n <= 4; n++ {
		for bits := 0; bits < 1<<n; bits++ {
			toks := []string{}
			for k := 0; k < n; k++ {
				toks = append(toks, b2s(bits>>k&1 == 1))
			}
			c.Emit("h rr %s", strings.Join(toks, " "))
		}
	}
	// candidate extension strings for exportExtensions
	words := []string{"generation", "0", "ufrag", "abc", "network-id", "1", "network-cost", "10", "tcptype", "active", "fail", "", "x"}
	for i := 0; i < c.N(300, 6000); i++ {
		parts := []string{}
		for k := r.Intn(8); k > 0; k-- {
			parts = append(parts, words[r.Intn(len(words))])
		}
		e := strings.Join(parts, " ")
		switch r.Intn(6) {
		case 0:
			e = " " + e
		case 1:
			e += " "
		case 2:
			e = strings.ReplaceAll(e, " ", "  ")
		}
		c.Emit("h ext %s", hs(e))
	}
	// packets for checkAndUpdateTrack
	for i := 0; i < c.N(400, 8000); i++ {
		c.Emit("h cut %s %s", strings.Join(ks, " "), hx(c30RTPPacket(r)))
	}
}
