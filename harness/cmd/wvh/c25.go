package main

import (
	"errors"
	"fmt"
	"strconv"
	"strings"
	"time"

	"github.com/pion/ice/v4"
	"github.com/pion/sdp/v3"
	"github.com/pion/webrtc/v4"
)

// C25 — ICE candidates round-trip through their signaling form.
//
//	rs  <pend> <cur> <candidate string>       source = ice.UnmarshalCandidate
//	rt  <pend> <cur> <typ> <network> <addr> <port> <comp> <prio> <foundation> <tcp> <raddr> <rport>
//	    <relayproto> <n> {<key> <value>}*       source = NewCandidate<Typ> + AddExtension*
//	add <pend> <cur> <ICECandidateInit.Candidate>
//	wc  <pend> <cur> <typ> <proto> <addr> <port> <comp> <prio> <foundation> <tcpType> <raddr> <rport>
//	                                            a hand-built webrtc.ICECandidate literal → ToJSON → …
//	exts <n> {<key> <value>}*                   setExtensions → exportExtensions
//	ext <extension string>                      exportExtensions on a raw string
//
// see lean/WebrtcVerif/Drv/C25.lean for the output format.

func c25View(c ice.Candidate) string {
	rel := "~ 0"
	if r := c.RelatedAddress(); r != nil {
		rel = hx([]byte(r.Address)) + " " + strconv.Itoa(r.Port)
	}
	tcp := c.TCPType().String()
	if tcp == "" {
		tcp = "-"
	}

	return fmt.Sprintf("%s %s %s %d %d %s %d %s %s %s", c.Type(), c.NetworkType().NetworkShort(),
		hx([]byte(c.Foundation())), c.Component(), c.Priority(), hx([]byte(c.Address())), c.Port(), rel, tcp,
		c25Exts(c.Extensions()))
}

func c25Exts(exts []ice.CandidateExtension) string {
	sb := strings.Builder{}
	sb.WriteString(strconv.Itoa(len(exts)))
	for _, e := range exts {
		sb.WriteString(" " + hx([]byte(e.Key)) + " " + hx([]byte(e.Value)))
	}

	return sb.String()
}

func c25Desc(tok string) (*sdp.SessionDescription, bool) {
	if tok == "N" {
		return nil, true
	}
	if !strings.HasPrefix(tok, "D") {
		return nil, false
	}
	attrs := func(part string) []sdp.Attribute {
		out := []sdp.Attribute{{Key: "ice-pwd", Value: "pwd"}}
		if part == "-" {
			return out
		}
		for _, u := range strings.Split(part, ".") {
			v := ""
			if u != "_" {
				v = string(unhx(u))
			}
			out = append(out, sdp.Attribute{Key: "ice-ufrag", Value: v})
		}

		return append(out, sdp.Attribute{Key: "mid", Value: "0"})
	}
	parts := strings.Split(tok[1:], "/")
	d := &sdp.SessionDescription{Attributes: attrs(parts[0])}
	for _, m := range parts[1:] {
		d.MediaDescriptions = append(d.MediaDescriptions, &sdp.MediaDescription{Attributes: attrs(m)})
	}

	return d, true
}

func c25Parse(value string) (ice.Candidate, string) {
	p, err := ice.UnmarshalCandidate(value)
	if err != nil {
		return nil, "P err"
	}

	return p, "P " + c25View(p)
}

// c25Add observes AddICECandidate: phase 1 on a transport without gatherer (did the candidate reach the
// transport?), phase 2 — only when it did — on a transport with a real agent (what did the agent get?).
func c25Add(pend, cur *sdp.SessionDescription, init webrtc.ICECandidateInit, parsed ice.Candidate) string {
	v1, err := webrtc.NewVerifCandidatePC(pend, cur, false)
	if err != nil {
		return "A hook-error"
	}
	err = v1.Add(init)
	switch {
	case err == nil:
		return "A drop - 0"
	case webrtc.VerifIsICEGathererNotStarted(err):
	case errors.Is(err, webrtc.ErrNoRemoteDescription):
		return "A norem - 0"
	default:
		return "A err - 0"
	}
	v2, err := webrtc.NewVerifCandidatePC(pend, cur, true)
	if err != nil {
		return "A hook-error"
	}
	defer v2.Close() //nolint:errcheck
	if err = v2.Add(init); err != nil {
		return "A fwd err 0"
	}
	// the agent adds asynchronously; it ignores active-TCP candidates and (mDNS disabled) .local names
	wait := parsed != nil && parsed.TCPType() != ice.TCPTypeActive &&
		!(parsed.Type() == ice.CandidateTypeHost && strings.HasSuffix(parsed.Address(), ".local"))
	var rc []ice.Candidate
	deadline := time.Now().Add(15 * time.Second)
	for {
		rc, _ = v2.RemoteCandidates()
		if len(rc) > 0 || !wait || time.Now().After(deadline) {
			break
		}
		time.Sleep(50 * time.Microsecond)
	}
	out := fmt.Sprintf("A fwd nil %d", len(rc))
	for _, c := range rc {
		out += " " + c25View(c)
	}

	return out
}

func c25Chain(pend, cur *sdp.SessionDescription, src ice.Candidate) string {
	wc, err := webrtc.VerifICECandidateFromICE(src, "0", 0)
	if err != nil {
		return "S " + c25View(src) + " X"
	}
	init := wc.ToJSON()
	p, ps := c25Parse(strings.TrimPrefix(init.Candidate, "candidate:"))
	w := fmt.Sprintf("W %s %s %s %d %d %s %d %s %d %s %s", wc.Typ, wc.Protocol, hx([]byte(wc.Foundation)), wc.Component,
		wc.Priority, hx([]byte(wc.Address)), wc.Port, hx([]byte(wc.RelatedAddress)), wc.RelatedPort,
		hx([]byte(wc.TCPType)), hx([]byte(webrtc.VerifCandidateExtensions(wc))))

	return "S " + c25View(src) + " " + w + " J " + hx([]byte(init.Candidate)) + " " + ps + " " + c25Add(pend, cur, init, p)
}

func c25Export(ext string) string {
	c, err := ice.NewCandidateHost(&ice.CandidateHostConfig{
		Network: "udp", Address: "1.2.3.4", Port: 9, Component: 1, Foundation: "f", Priority: 1,
	})
	if err != nil {
		return "hook-error"
	}
	if err = webrtc.VerifExportExtensions(ext, c); err != nil {
		return "err"
	}
	tcp := c.TCPType().String()
	if tcp == "" {
		tcp = "-"
	}

	return "ok " + tcp + " " + c25Exts(c.Extensions())
}

func c25PairArgs(a []string) ([]ice.CandidateExtension, bool) {
	if len(a) < 1 {
		return nil, false
	}
	n, err := strconv.Atoi(a[0])
	if err != nil || len(a) != 1+2*n {
		return nil, false
	}
	out := make([]ice.CandidateExtension, n)
	for i := range out {
		out[i] = ice.CandidateExtension{Key: string(unhx(a[1+2*i])), Value: string(unhx(a[2+2*i]))}
	}

	return out, true
}

func c25Exec(a []string) string {
	switch a[0] {
	case "rs", "add":
		if len(a) != 4 {
			return "bad-op"
		}
		pend, ok1 := c25Desc(a[1])
		cur, ok2 := c25Desc(a[2])
		if !ok1 || !ok2 {
			return "bad-op"
		}
		s := string(unhx(a[3]))
		if a[0] == "rs" {
			src, err := ice.UnmarshalCandidate(s)
			if err != nil {
				return "nosrc"
			}

			return c25Chain(pend, cur, src)
		}
		p, ps := c25Parse(strings.TrimPrefix(s, "candidate:"))

		return ps + " " + c25Add(pend, cur, webrtc.ICECandidateInit{Candidate: s}, p)
	case "rt":
		if len(a) < 15 {
			return "bad-op"
		}
		pend, ok1 := c25Desc(a[1])
		cur, ok2 := c25Desc(a[2])
		exts, ok3 := c25PairArgs(a[14:])
		port, e1 := strconv.Atoi(a[6])
		comp, e2 := strconv.ParseUint(a[7], 10, 16)
		prio, e3 := strconv.ParseUint(a[8], 10, 32)
		rport, e4 := strconv.Atoi(a[12])
		if !ok1 || !ok2 || !ok3 || e1 != nil || e2 != nil || e3 != nil || e4 != nil {
			return "bad-op"
		}
		network, addr, found, raddr := string(unhx(a[4])), string(unhx(a[5])), string(unhx(a[9])), string(unhx(a[11]))
		tcp := a[10]
		if tcp == "-" {
			tcp = ""
		}
		relay := a[13]
		if relay == "-" {
			relay = ""
		}
		var src ice.Candidate
		var err error
		switch a[3] {
		case "host":
			src, err = ice.NewCandidateHost(&ice.CandidateHostConfig{
				Network: network, Address: addr, Port: port, Component: uint16(comp), Priority: uint32(prio),
				Foundation: found, TCPType: ice.NewTCPType(tcp),
			})
		case "srflx":
			src, err = ice.NewCandidateServerReflexive(&ice.CandidateServerReflexiveConfig{
				Network: network, Address: addr, Port: port, Component: uint16(comp), Priority: uint32(prio),
				Foundation: found, RelAddr: raddr, RelPort: rport,
			})
		case "prflx":
			src, err = ice.NewCandidatePeerReflexive(&ice.CandidatePeerReflexiveConfig{
				Network: network, Address: addr, Port: port, Component: uint16(comp), Priority: uint32(prio),
				Foundation: found, RelAddr: raddr, RelPort: rport,
			})
		case "relay":
			src, err = ice.NewCandidateRelay(&ice.CandidateRelayConfig{
				Network: network, Address: addr, Port: port, Component: uint16(comp), Priority: uint32(prio),
				Foundation: found, RelAddr: raddr, RelPort: rport, RelayProtocol: relay,
			})
		default:
			return "bad-op"
		}
		if err != nil {
			return "nosrc"
		}
		for _, e := range exts {
			_ = src.AddExtension(e)
		}

		return c25Chain(pend, cur, src)
	case "wc":
		if len(a) != 13 {
			return "bad-op"
		}
		pend, ok1 := c25Desc(a[1])
		cur, ok2 := c25Desc(a[2])
		port, e1 := strconv.ParseUint(a[6], 10, 16)
		comp, e2 := strconv.ParseUint(a[7], 10, 16)
		prio, e3 := strconv.ParseUint(a[8], 10, 32)
		rport, e4 := strconv.ParseUint(a[12], 10, 16)
		if !ok1 || !ok2 || e1 != nil || e2 != nil || e3 != nil || e4 != nil {
			return "bad-op"
		}
		typ, _ := webrtc.NewICECandidateType(a[3]) // "unknown" → ICECandidateTypeUnknown
		proto, _ := webrtc.NewICEProtocol(a[4])    // "unknown" → ICEProtocolUnknown
		wc := webrtc.ICECandidate{
			Foundation: string(unhx(a[9])), Priority: uint32(prio), Address: string(unhx(a[5])), Protocol: proto,
			Port: uint16(port), Typ: typ, Component: uint16(comp), RelatedAddress: string(unhx(a[11])),
			RelatedPort: uint16(rport), TCPType: string(unhx(a[10])),
		}
		init := wc.ToJSON()
		p, ps := c25Parse(strings.TrimPrefix(init.Candidate, "candidate:"))

		return "J " + hx([]byte(init.Candidate)) + " " + ps + " " + c25Add(pend, cur, init, p)
	case "exts":
		exts, ok := c25PairArgs(a[1:])
		if !ok {
			return "bad-op"
		}
		s := webrtc.VerifSetExtensions(exts)

		return "X " + hx([]byte(s)) + " " + c25Export(s)
	case "ext":
		if len(a) != 2 {
			return "bad-op"
		}

		return c25Export(string(unhx(a[1])))
	}

	return "bad-op"
}

// ---- generators ----

type c25Gen struct{ c *Ctx }

func (g c25Gen) pick(xs ...string) string { return xs[g.c.Rng.Intn(len(xs))] }

const c25IceChars = "ABCDEFGHIJKLMNOPQRSTUVWXYZabcdefghijklmnopqrstuvwxyz0123456789+/"

func (g c25Gen) iceToken(n int) string {
	b := make([]byte, n)
	for i := range b {
		b[i] = c25IceChars[g.c.Rng.Intn(len(c25IceChars))]
	}

	return string(b)
}

func (g c25Gen) foundation() string {
	r := g.c.Rng
	switch r.Intn(10) {
	case 0:
		return g.iceToken(32)
	case 1:
		return strconv.Itoa(r.Intn(1 << 31))
	case 2:
		return g.iceToken(1)
	default:
		return g.iceToken(1 + r.Intn(12))
	}
}

func (g c25Gen) num(max int64, edges ...int64) int64 {
	r := g.c.Rng
	if r.Intn(4) == 0 {
		return edges[r.Intn(len(edges))]
	}

	return r.Int63n(max + 1)
}

func (g c25Gen) ipv4() string {
	r := g.c.Rng
	switch r.Intn(12) {
	case 0:
		return "0.0.0.0"
	case 1:
		return "255.255.255.255"
	case 2:
		return "127.0.0.1"
	}

	return fmt.Sprintf("%d.%d.%d.%d", r.Intn(256), r.Intn(256), r.Intn(256), r.Intn(256))
}

func (g c25Gen) ipv6() string {
	r := g.c.Rng
	grp := func() string {
		switch r.Intn(6) {
		case 0:
			return "0"
		case 1:
			return fmt.Sprintf("%X", r.Intn(65536))
		case 2:
			return fmt.Sprintf("%04x", r.Intn(65536))
		}

		return fmt.Sprintf("%x", r.Intn(65536))
	}
	groups := func(n int) string {
		gs := make([]string, n)
		for i := range gs {
			gs[i] = grp()
		}

		return strings.Join(gs, ":")
	}
	switch r.Intn(10) {
	case 0:
		return "::1"
	case 1:
		return "::"
	case 2:
		return "::ffff:" + g.ipv4()
	case 3:
		return groups(6) + ":" + g.ipv4()
	case 4, 5:
		return groups(8)
	case 6:
		return groups(1+r.Intn(6)) + "::"
	case 7:
		return "::" + groups(1+r.Intn(6))
	default:
		a := 1 + r.Intn(5)
		b := 1 + r.Intn(6-a)

		return groups(a) + "::" + groups(b)
	}
}

func (g c25Gen) ip() string {
	if g.c.Rng.Intn(3) == 0 {
		return g.ipv6()
	}

	return g.ipv4()
}

func (g c25Gen) mdns() string {
	r := g.c.Rng
	if r.Intn(5) == 0 {
		return g.iceToken(1+r.Intn(8)) + ".invalid"
	}

	return fmt.Sprintf("%08x-%04x-%04x-%04x-%012x.local", r.Uint32(), r.Intn(65536), r.Intn(65536), r.Intn(65536),
		r.Int63n(1<<48))
}

// extension tokens: RFC 5245 byte-string without SP, valid UTF-8 (so code points ≤ U+00FF, no NUL/CR/LF)
func (g c25Gen) extToken(allowEmpty bool) string {
	r := g.c.Rng
	if allowEmpty && r.Intn(6) == 0 {
		return ""
	}
	switch r.Intn(8) {
	case 0:
		return strconv.Itoa(r.Intn(1000))
	case 1:
		runes := []rune{}
		for i := 0; i < 1+r.Intn(6); i++ {
			runes = append(runes, []rune{'a', 'Z', '0', '-', '_', ':', '=', '"', '\t', 0x7f, 0xe9, 0xff, 0x01, '+', '/', '%', '.'}[r.Intn(17)])
		}

		return string(runes)
	}

	return g.iceToken(1 + r.Intn(8))
}

var c25Keys = []string{"generation", "network-id", "network-cost", "ufrag", "foo", "x", "Ufrag", "tcptyp", "rport", "typ"}

// ufrags of a description token, for choosing matching / non-matching candidate ufrags
func (g c25Gen) desc() (tok string, ufrags []string) {
	r := g.c.Rng
	if r.Intn(25) == 0 {
		return "N", nil
	}
	part := func() string {
		n := []int{0, 1, 1, 1, 1, 2}[r.Intn(6)]
		if n == 0 {
			return "-"
		}
		us := []string{}
		for i := 0; i < n; i++ {
			u := g.pick("abcd", "EFGH", "u1", "u2", "zz9+", "", "abc", "abcde")
			if r.Intn(3) == 0 {
				u = g.iceToken(4 + r.Intn(5))
			}
			ufrags = append(ufrags, u)
			if u == "" {
				us = append(us, "_")
			} else {
				us = append(us, hx([]byte(u)))
			}
		}

		return strings.Join(us, ".")
	}
	parts := []string{part()}
	for i := 0; i < r.Intn(4); i++ {
		parts = append(parts, part())
	}

	return "D" + strings.Join(parts, "/"), ufrags
}

func (g c25Gen) descs() (pend, cur string, ufrags []string) {
	r := g.c.Rng
	switch r.Intn(10) {
	case 0: // both: pending wins
		p, up := g.desc()
		c, _ := g.desc()
		if p == "N" {
			return p, c, nil // pending nil → current
		}

		return p, c, up
	case 1, 2:
		p, up := g.desc()

		return p, "N", up
	default:
		c, uc := g.desc()

		return "N", c, uc
	}
}

// exts returns an extension list (keys non-empty, no spaces); dup controls duplicate keys.
func (g c25Gen) exts(ufrags []string, allowDup bool) [][2]string {
	r := g.c.Rng
	n := []int{0, 0, 1, 2, 3, 3, 4, 5}[r.Intn(8)]
	out := [][2]string{}
	seen := map[string]bool{}
	for i := 0; i < n; i++ {
		k := c25Keys[r.Intn(len(c25Keys))]
		if r.Intn(4) == 0 {
			k = g.extToken(false)
		}
		if k == "tcptype" || k == "raddr" {
			k = "x" + k
		}
		if seen[k] && !(allowDup && r.Intn(2) == 0) {
			continue
		}
		seen[k] = true
		v := g.extToken(true)
		if k == "ufrag" {
			switch {
			case len(ufrags) > 0 && r.Intn(10) < 6:
				v = ufrags[r.Intn(len(ufrags))]
			case r.Intn(8) == 0:
				v = ""
			default:
				v = g.pick("abcd", "abc", "abcde", "nope", "EFGH", "efgh", "u1", "u3") // near misses
			}
		}
		out = append(out, [2]string{k, v})
	}

	return out
}

type c25Cand struct {
	found, comp, proto, prio, addr, port, typ string
	rel                                       string // "" or "raddr X rport Y"
	tcp                                       string // "" or tcptype value
	exts                                      [][2]string
}

func (cd c25Cand) String() string {
	s := strings.Join([]string{cd.found, cd.comp, cd.proto, cd.prio, cd.addr, cd.port, "typ", cd.typ}, " ")
	if cd.rel != "" {
		s += " " + cd.rel
	}
	if cd.tcp != "" {
		s += " tcptype " + cd.tcp
	}
	for _, e := range cd.exts {
		s += " " + e[0] + " " + e[1]
	}

	return s
}

// cand generates a candidate that is valid under the ICE grammar as pion/ice reads it.
func (g c25Gen) cand(ufrags []string) c25Cand {
	r := g.c.Rng
	cd := c25Cand{}
	cd.found = g.foundation()
	if r.Intn(25) == 0 {
		cd.found = "" // seen in the wild; pion maps it to " "
	}
	cd.comp = strconv.FormatInt(g.num(65535, 0, 1, 2, 255, 256, 257, 65535), 10)
	if r.Intn(3) > 0 {
		cd.comp = g.pick("1", "1", "2")
	}
	cd.proto = g.pick("udp", "udp", "udp", "tcp", "tcp", "UDP", "TCP", "Udp")
	cd.prio = strconv.FormatInt(g.num(4294967295, 1, 4294967295, 2130706431, 0, 4294967294), 10)
	cd.port = strconv.FormatInt(g.num(65535, 0, 1, 9, 65535, 65534, 1024), 10)
	cd.typ = g.pick("host", "host", "srflx", "srflx", "prflx", "relay", "relay")
	cd.addr = g.ip()
	if cd.typ == "host" && r.Intn(5) == 0 {
		cd.addr = g.mdns()
	}
	if cd.typ != "host" && r.Intn(8) > 0 || r.Intn(40) == 0 {
		raddr := g.ip()
		rport := strconv.FormatInt(g.num(65535, 1, 9, 65535, 1024), 10)
		switch r.Intn(40) {
		case 0:
			raddr, rport = "0.0.0.0", "0" // privacy-filtered form (recorded finding: lost by Marshal)
		case 1:
			rport = "0"
		case 2:
			raddr = g.mdns()
		}
		cd.rel = "raddr " + raddr + " rport " + rport
	}
	if strings.EqualFold(cd.proto, "tcp") && r.Intn(4) > 0 || r.Intn(30) == 0 {
		cd.tcp = g.pick("active", "passive", "passive", "so", "so", "PASSIVE", "So")
	}
	cd.exts = g.exts(ufrags, r.Intn(30) == 0)

	return cd
}

func (g c25Gen) mutate(s string, ufrags []string) string {
	r := g.c.Rng
	toks := strings.Split(s, " ")
	i := r.Intn(len(toks))
	switch r.Intn(24) {
	case 0:
		toks = append(toks[:i], toks[i+1:]...) // drop a token
	case 1:
		toks[i] = "" // double space
	case 2:
		toks[i] = g.pick("typ", "host", "raddr", "rport", "tcptype", "ufrag", "udp", "0", "65536", "99999", "4294967296",
			"99999999999", "1.2.3.4", "::1", "a.local")
	case 3:
		if len(toks) > 7 {
			toks[7] = g.pick("foo", "Host", "", "hos", "relayed", "srflx ")
		}
	case 4:
		if len(toks) > 2 {
			toks[2] = g.pick("sctp", "dtls", "", "ud", "udpx", "tcp6", "TCP4", "xudp")
		}
	case 5:
		if len(toks) > 3 {
			toks[3] = g.pick("4294967295", "4294967296", "9999999999", "10000000000", "-1", "1e3", "00000000001")
		}
	case 6:
		if len(toks) > 5 {
			toks[5] = g.pick("65535", "65536", "99999", "100000", "-1", "00000", "0x10")
		}
	case 7:
		toks[0] = g.pick(g.iceToken(32), g.iceToken(33), "a-b", "a_b", "é", "", "a b", "+/+")
	case 8:
		if len(toks) > 4 {
			toks[4] = g.pick("999.1.1.1", "1.2.3", "1.2.3.4.5", "01.2.3.4", "1..2.3", "g::1", "fe80::1%eth0", "fe80::1%",
				"::ffff:1.2.3.4", "1:2:3:4:5:6:7:8:9", "1:2:3:4:5:6:7", "1::2::3", ":::", "12345::1", "1:2:3:4:5:6:1.2.3.4",
				"1:2:3:4:5:1.2.3.4", "::1.2.3.4", "a.local", "x.invalid", "localhost", ".local", "1.2.3.4%eth0", ":1",
				"1:", "::", "[::1]", "1.2.3.4.local", "%", "")
		}
	case 9:
		return s + " "
	case 10:
		return "candidate:" + s
	case 11:
		return s[:r.Intn(len(s)+1)] // truncate
	case 12:
		if len(toks) > 6 {
			toks[6] = g.pick("type", "Typ", "", "typ:", "raddr")
		}
	case 13:
		return s + " tcptype " + g.pick("foo", "", "active", "ACTIVE", "so ", "passive x")
	case 14:
		return s + " " + g.pick("k\x00v", "k\nv", "k \rv", "€ 1", "k €", "ключ v", "ufrag", "ufrag ", "ufrag  x", " ", "  ", "a  b")
	case 15:
		if len(ufrags) > 0 {
			return s + " ufrag " + ufrags[r.Intn(len(ufrags))]
		}

		return s + " ufrag nope"
	case 16:
		return s + " ufrag " + g.pick("nope", "abcd", "", "abc", "u1") + " ufrag " + g.pick("abcd", "nope", "u2")
	case 17:
		j := strings.Index(s, " typ ")
		if j > 0 {
			return s[:j] + " typ " + g.pick("srflx", "relay", "prflx", "host") + " raddr " + g.pick("1.2.3.4 rport 0", "1.2.3.4",
				"1.2.3.4 rport", "1.2.3.4 rport 65536", "1.2.3.4 rprt 5", " rport 5", "1.2.3.4 rport 5 ", "1.2.3.4  rport 5")
		}
	case 18:
		b := []byte(s)
		b[r.Intn(len(b))] = byte(0x20 + r.Intn(0x5f))

		return string(b)
	case 19:
		return g.pick("", "candidate:", "candidate:candidate:", "candidate", " ", "candidate: ", "a=candidate:"+s)
	default:
		return s // unmutated: AddICECandidate on a well-formed string
	}

	return strings.Join(toks, " ")
}

func c25HexPairs(es [][2]string) string {
	sb := strings.Builder{}
	sb.WriteString(strconv.Itoa(len(es)))
	for _, e := range es {
		sb.WriteString(" " + hx([]byte(e[0])) + " " + hx([]byte(e[1])))
	}

	return sb.String()
}

func c25Gener(c *Ctx) {
	g := c25Gen{c}
	r := c.Rng
	// 1. exportExtensions on every string over {a, b, SP} up to length 7 (thorough: 9)
	maxLen := c.N(7, 10)
	alpha := []byte{'a', 'b', ' '}
	var rec func(prefix []byte)
	rec = func(prefix []byte) {
		c.Emit("ext %s", hx(prefix))
		if len(prefix) < maxLen {
			for _, ch := range alpha {
				rec(append(append([]byte{}, prefix...), ch))
			}
		}
	}
	rec(nil)
	// and on strings that exercise the tcptype / empty-key paths
	for i := 0; i < c.N(4000, 200000); i++ {
		toks := []string{}
		for k := 0; k < r.Intn(8); k++ {
			toks = append(toks, g.pick("tcptype", "active", "passive", "so", "foo", "", "a", "b", "generation", "0", "é", "SO"))
		}
		c.Emit("ext %s", hx([]byte(strings.Join(toks, " "))))
	}
	// 2. setExtensions → exportExtensions on lists (mostly in the grammar; some empty keys, spaces, duplicates, tcptype)
	for i := 0; i < c.N(6000, 300000); i++ {
		es := g.exts(nil, r.Intn(10) == 0)
		if r.Intn(8) == 0 && len(es) > 0 {
			j := r.Intn(len(es))
			switch r.Intn(4) {
			case 0:
				es[j][0] = ""
			case 1:
				es[j][0] = "a b"
			case 2:
				es[j][1] = "v w"
			case 3:
				es[j] = [2]string{"tcptype", g.pick("active", "passive", "so", "bogus", "")}
			}
		}
		c.Emit("exts %s", c25HexPairs(es))
	}
	// 3. candidates parsed from grammar strings, through the whole chain
	for i := 0; i < c.N(6000, 80000); i++ {
		pend, cur, ufrags := g.descs()
		cd := g.cand(ufrags)
		str := cd.String()
		if r.Intn(10) == 0 {
			str = "candidate:" + str // ice.UnmarshalCandidate accepts the attribute prefix
		}
		c.Emit("rs %s %s %s", pend, cur, hx([]byte(str)))
	}
	// 4. candidates built with the constructors (default foundation / priority, relay protocols, tcptype via AddExtension)
	for i := 0; i < c.N(2500, 40000); i++ {
		pend, cur, ufrags := g.descs()
		cd := g.cand(ufrags)
		found, prio := cd.found, cd.prio
		if r.Intn(3) == 0 {
			found = "" // crc32 default
		}
		if r.Intn(3) == 0 {
			prio = "0" // computed default
		}
		tcp := "-"
		if cd.typ == "host" && cd.tcp != "" {
			tcp = strings.ToLower(cd.tcp)
		}
		raddr, rport := "", "0"
		if f := strings.Fields(cd.rel); len(f) == 4 {
			raddr, rport = f[1], f[3]
		}
		es := cd.exts
		if cd.typ != "host" && cd.tcp != "" && r.Intn(3) == 0 {
			es = append(es, [2]string{"tcptype", strings.ToLower(cd.tcp)}) // recorded finding: pion/ice drops it when parsing
		}
		network := cd.proto
		if r.Intn(10) == 0 {
			network = g.pick("udp4", "udp6", "tcp4", "tcp6", "UDP6")
		}
		relay := "-"
		if cd.typ == "relay" {
			relay = g.pick("-", "udp", "tcp", "tls", "dtls")
		}
		switch r.Intn(40) {
		case 0: // a scoped IPv6 address keeps its zone inside pion/ice; Marshal strips it
			cd.addr = g.pick("fe80::1%eth0", "fe80::a:b%1", "ff02::1%lo")
		case 1: // Go ints beyond uint16: newICECandidateFromICE truncates
			cd.port = strconv.Itoa(65536 + r.Intn(70000))
		case 2:
			rport = strconv.Itoa(65536 + r.Intn(70000))
		case 3:
			found = " "
		}
		c.Emit("rt %s %s %s %s %s %s %s %s %s %s %s %s %s %s", pend, cur, cd.typ, hx([]byte(network)), hx([]byte(cd.addr)),
			cd.port, cd.comp, prio, hx([]byte(found)), tcp, hx([]byte(raddr)), rport, relay, c25HexPairs(es))
	}
	// 4b. hand-built webrtc.ICECandidate literals (no extension string): ToICE's own field mapping
	for i := 0; i < c.N(2000, 30000); i++ {
		pend, cur, ufrags := g.descs()
		cd := g.cand(ufrags)
		typ, proto := cd.typ, strings.ToLower(cd.proto)
		found, prio := cd.found, cd.prio
		if found == "" || r.Intn(12) == 0 {
			found = g.pick("", " ", "a b", g.iceToken(33))
		}
		tcp := strings.ToLower(cd.tcp)
		switch r.Intn(12) {
		case 0:
			tcp = g.pick("PASSIVE", "bogus", "So", "active ")
		case 1:
			typ = "unknown"
		case 2:
			proto = "unknown"
		case 3:
			cd.addr = g.pick("999.1.1.1", "example.com", "", "1.2.3.4 ", "fe80::1%eth0", "a b.local")
		}
		raddr, rport := "", "0"
		if f := strings.Fields(cd.rel); len(f) == 4 {
			raddr, rport = f[1], f[3]
		}
		c.Emit("wc %s %s %s %s %s %s %s %s %s %s %s %s", pend, cur, typ, proto, hx([]byte(cd.addr)), cd.port, cd.comp, prio,
			hx([]byte(found)), hx([]byte(tcp)), hx([]byte(raddr)), rport)
	}
	// 5. AddICECandidate on raw strings: mutated (malformed stream) and unmutated
	for i := 0; i < c.N(6000, 80000); i++ {
		pend, cur, ufrags := g.descs()
		s := g.mutate(g.cand(ufrags).String(), ufrags)
		if r.Intn(2) == 0 {
			s = "candidate:" + s
		}
		c.Emit("add %s %s %s", pend, cur, hx([]byte(strings.ToValidUTF8(s, "?"))))
	}
}

func c25Class(a []string, out string) string {
	f := strings.Fields(out)
	switch a[0] {
	case "ext", "exts":
		res := "?"
		for _, t := range f {
			if t == "ok" || t == "err" {
				res = t

				break
			}
		}

		return a[0] + " " + res
	case "wc":
		i := 0
		for i < len(f) && f[i] != "A" {
			i++
		}
		p := "P-err"
		if len(f) > 3 && f[3] != "err" {
			p = "P-ok"
		}
		if i+2 < len(f) {
			return "wc " + a[3] + "/" + a[4] + " " + p + " " + f[i+1] + "/" + f[i+2]
		}

		return "wc ?"
	case "add":
		p := "P-err"
		if len(f) > 1 && f[1] != "err" {
			p = "P-ok"
		}
		i := 0
		for i < len(f) && f[i] != "A" {
			i++
		}
		if i+2 < len(f) {
			return "add " + p + " " + f[i+1] + "/" + f[i+2]
		}

		return "add ?"
	default:
		if out == "nosrc" {
			return a[0] + " nosrc"
		}
		i := 0
		for i < len(f) && f[i] != "A" {
			i++
		}
		typ := "?"
		if len(f) > 1 {
			typ = f[1] + "/" + f[2]
		}
		if i+2 < len(f) {
			return a[0] + " " + typ + " " + f[i+1] + "/" + f[i+2]
		}

		return a[0] + " ?"
	}
}

func init() {
	registry["C25"] = &Prop{
		Workers: 16,
		Timeout: 30 * time.Second,
		Rule: "ext: exportExtensions on every string over {a,b,SP} up to length 7 (thorough 10) plus seeded token strings " +
			"around tcptype / empty fields; exts: seeded extension lists (0..5 entries, empty values, Latin-1 and control " +
			"characters, some duplicates / empty keys / embedded spaces / tcptype) through setExtensions→exportExtensions; " +
			"rs: seeded grammar-valid candidate strings (all four types, udp/tcp in mixed case, IPv4 / IPv6 in all " +
			"compression forms / IPv4-mapped / mDNS and .invalid names, ports and components and priorities with boundary " +
			"values, related addresses incl. 0.0.0.0:0, TCP types, 0..5 extensions incl. ufrag values that match, nearly " +
			"match or miss the description) parsed by ice.UnmarshalCandidate, converted with newICECandidateFromICE, " +
			"ToJSON, parsed back, and given to AddICECandidate on a bare PeerConnection whose pending/current remote " +
			"descriptions carry 0..2 ice-ufrag attributes at session level and in 0..3 media sections; rt: the same through " +
			"the four NewCandidate* constructors (default crc32 foundation, computed priority, relay protocols, tcptype " +
			"added to non-host candidates); wc: hand-built webrtc.ICECandidate literals (all Typ / Protocol values incl. " +
			"unknown, TCPType strings in any case, bad addresses) through ToJSON; add: AddICECandidate on mutated strings (dropped / doubled / replaced tokens, " +
			"bad transports, addresses, ports, priorities, foundations, types, raddr/rport forms, control and non-Latin-1 " +
			"characters, truncations, prefixes, end-of-candidates forms) and unmutated ones. " +
			"Non-trivial: distinct op lines whose source candidate exists (rs/rt), whose string parses (add), or whose " +
			"export succeeds (ext/exts).",
		Gen:  c25Gener,
		Exec: c25Exec,
		Class: func(a []string, out string) string {
			return c25Class(a, out)
		},
		Trivial: func(a []string, out string) bool {
			switch a[0] {
			case "rs", "rt":
				return out == "nosrc"
			case "add":
				return strings.HasPrefix(out, "P err")
			case "wc":
				return strings.Contains(out, " P err ")
			default:
				return !strings.Contains(out, "ok")
			}
		},
	}
}
