package main

import (
	"fmt"
	"strconv"
	"strings"
	"sync"
	"time"

	"github.com/pion/ice/v4"
	"github.com/pion/sdp/v3"
	"github.com/pion/webrtc/v4"
)

// C13 — complementary ICE and DTLS roles.
//
//	ans  <olite> <alite> <acfg> <offer-setups>           real answerer PC, pion offer with rewritten a=setup / a=ice-lite
//	     → <answer-setup> lite=<0|1> ice=<role> dtls=<role> args=<ice>/<remote dtls role>
//	pair <olite> <alite> <ocfg> <acfg>                   real offerer and answerer PCs, unmodified exchange
//	     → <offer-setup> <answer-setup> o=<ice>/<dtls> a=<ice>/<dtls>
//	off  <olite> <alite> <ocfg> <answer-setups>          real offerer PC, pion answer with rewritten a=setup / a=ice-lite
//	     → ice=<role> dtls=<role> args=<ice>/<remote dtls role>
//	conn <olite> <alite> <ocfg> <acfg> <offer-setup>     real connection over loopback; the offer is forwarded with a=setup rewritten
//	     → <answer-setup> o=<ice>/<dtls> a=<ice>/<dtls> connected|stuck|failed
//	fn role <remote> <configured> <ice>                  DTLSTransport.role() on a bare transport, raw values
//	fn conn <dtlsrole>                                   connectionRoleFromDtlsRole, raw value   → active|passive|actpass|holdconn|zero
//	fn sdp <setups|nil>                                  dtlsRoleFromSDP
//	fn set <cfg-sequence>                                SetAnsweringDTLSRole calls → <stored> <errors as 0/1…>
//
// setups: media sections separated by ',', setup attributes of one section separated by '+', '-' = no
// setup attribute (`active,-,passive+active`). cfg: u (unset) c (client) s (server) and the values the
// setter refuses: a (auto) z (DTLSRole(0)) x (DTLSRole(9)).
const (
	c13Wait     = 8 * time.Second
	c13ConnWait = 12 * time.Second
)

func c13Setting(lite bool, cfg string) (webrtc.SettingEngine, bool) {
	se := webrtc.SettingEngine{}
	se.SetLite(lite)
	se.SetICEMulticastDNSMode(ice.MulticastDNSModeDisabled)
	se.SetNetworkTypes([]webrtc.NetworkType{webrtc.NetworkTypeUDP4})
	se.SetIncludeLoopbackCandidate(true)
	se.SetInterfaceFilter(func(name string) bool { return name == "lo" })
	ok := true
	for _, ch := range cfg {
		var err error
		switch ch {
		case 'u':
		case 'c':
			err = se.SetAnsweringDTLSRole(webrtc.DTLSRoleClient)
		case 's':
			err = se.SetAnsweringDTLSRole(webrtc.DTLSRoleServer)
		case 'a':
			err = se.SetAnsweringDTLSRole(webrtc.DTLSRoleAuto)
			ok = ok && err != nil
			err = nil
		case 'z':
			err = se.SetAnsweringDTLSRole(webrtc.DTLSRole(0))
			ok = ok && err != nil
			err = nil
		case 'x':
			err = se.SetAnsweringDTLSRole(webrtc.DTLSRole(9))
			ok = ok && err != nil
			err = nil
		default:
			ok = false
		}
		if err != nil {
			ok = false
		}
	}

	return se, ok
}

func c13PC(lite bool, cfg string) (*webrtc.PeerConnection, error) {
	se, _ := c13Setting(lite, cfg)
	me := &webrtc.MediaEngine{}
	if err := me.RegisterDefaultCodecs(); err != nil {
		return nil, err
	}

	return webrtc.NewAPI(webrtc.WithSettingEngine(se), webrtc.WithMediaEngine(me)).
		NewPeerConnection(webrtc.Configuration{})
}

// c13AddSections gives the offerer k media sections: k=1 data; k=2 audio,data; k=3 audio,video,data; …
func c13AddSections(pc *webrtc.PeerConnection, k int) error {
	kinds := []webrtc.RTPCodecType{}
	for i := 0; i < k-1; i++ {
		if i%2 == 0 {
			kinds = append(kinds, webrtc.RTPCodecTypeAudio)
		} else {
			kinds = append(kinds, webrtc.RTPCodecTypeVideo)
		}
	}
	for _, kd := range kinds {
		if _, err := pc.AddTransceiverFromKind(kd); err != nil {
			return err
		}
	}
	_, err := pc.CreateDataChannel("c13", nil)

	return err
}

var (
	c13OfferMu    sync.Mutex
	c13OfferCache = map[int]string{}
)

// c13PionOffer returns a genuine pion offer with k media sections (cached per k).
func c13PionOffer(k int) (string, error) {
	c13OfferMu.Lock()
	defer c13OfferMu.Unlock()
	if s, ok := c13OfferCache[k]; ok {
		return s, nil
	}
	pc, err := c13PC(false, "u")
	if err != nil {
		return "", err
	}
	defer pc.Close() //nolint:errcheck
	if err = c13AddSections(pc, k); err != nil {
		return "", err
	}
	offer, err := pc.CreateOffer(nil)
	if err != nil {
		return "", err
	}
	c13OfferCache[k] = offer.SDP

	return offer.SDP, nil
}

func c13ParseSpec(spec string) [][]string {
	secs := [][]string{}
	for _, s := range strings.Split(spec, ",") {
		vals := []string{}
		if s != "-" {
			vals = strings.Split(s, "+")
		}
		secs = append(secs, vals)
	}

	return secs
}

// c13Rewrite replaces the media-level a=setup attributes by the spec's and sets/removes the
// session-level a=ice-lite attribute.
func c13Rewrite(text string, lite bool, spec string) (string, error) {
	d := &sdp.SessionDescription{}
	if err := d.UnmarshalString(text); err != nil {
		return "", err
	}
	secs := c13ParseSpec(spec)
	attrs := d.Attributes[:0:0]
	for _, a := range d.Attributes {
		if strings.TrimSpace(a.Key) != sdp.AttrKeyICELite {
			attrs = append(attrs, a)
		}
	}
	if lite {
		attrs = append(attrs, sdp.Attribute{Key: sdp.AttrKeyICELite})
	}
	d.Attributes = attrs
	if len(secs) != len(d.MediaDescriptions) {
		return "", fmt.Errorf("spec has %d sections, description has %d", len(secs), len(d.MediaDescriptions))
	}
	for i, m := range d.MediaDescriptions {
		ma := m.Attributes[:0:0]
		for _, a := range m.Attributes {
			if a.Key != "setup" {
				ma = append(ma, a)
			}
		}
		for _, v := range secs[i] {
			if v == "empty" {
				v = ""
			}
			ma = append(ma, sdp.Attribute{Key: "setup", Value: v})
		}
		m.Attributes = ma
	}
	b, err := d.Marshal()

	return string(b), err
}

// c13SetupOf canonicalises the a=setup lines of a description: the common value when every media
// section carries exactly one and they agree; otherwise none / mixed. Also reports a=ice-lite.
func c13SetupOf(text string) (string, bool) {
	d := &sdp.SessionDescription{}
	if err := d.UnmarshalString(text); err != nil {
		return "unparsable", false
	}
	lite := false
	for _, a := range d.Attributes {
		if strings.TrimSpace(a.Key) == sdp.AttrKeyICELite {
			lite = true
		}
	}
	vals := map[string]bool{}
	total := 0
	uneven := false
	for _, m := range d.MediaDescriptions {
		n := 0
		for _, a := range m.Attributes {
			if a.Key == "setup" {
				vals[a.Value] = true
				n++
				total++
			}
		}
		if n != 1 {
			uneven = true
		}
	}
	if total == 0 {
		return "none", lite
	}
	if len(vals) != 1 || uneven {
		return "mixed", lite
	}
	for v := range vals {
		if v == "" {
			v = "empty"
		}

		return v, lite
	}

	return "none", lite
}

// c13Observe waits for the startTransports call of pc and for its ICETransport to take its role, and
// evaluates DTLSTransport.role() with the remote role startTransports passes to DTLSTransport.Start.
func c13Observe(pc *webrtc.PeerConnection, ch <-chan webrtc.VerifTransportStart) string {
	select {
	case st := <-ch:
		deadline := time.Now().Add(c13Wait)
		for webrtc.VerifICERole(pc) == webrtc.ICERoleUnknown && time.Now().Before(deadline) {
			time.Sleep(200 * time.Microsecond)
		}

		return fmt.Sprintf("ice=%s dtls=%s args=%s/%s", c13Ice(webrtc.VerifICERole(pc)),
			c13Dtls(webrtc.VerifDTLSRoleAtStart(pc, st.RemoteDTLSRole)), c13Ice(st.ICERole), c13Dtls(st.RemoteDTLSRole))
	case <-time.After(c13Wait):
		return "ice=none dtls=none args=none/none"
	}
}

func c13Ice(r webrtc.ICERole) string {
	switch r {
	case webrtc.ICERoleControlling:
		return "controlling"
	case webrtc.ICERoleControlled:
		return "controlled"
	case webrtc.ICERoleUnknown:
		return "unknown"
	}

	return "raw" + strconv.Itoa(int(r))
}

func c13Dtls(r webrtc.DTLSRole) string {
	switch r {
	case webrtc.DTLSRoleAuto:
		return "auto"
	case webrtc.DTLSRoleClient:
		return "client"
	case webrtc.DTLSRoleServer:
		return "server"
	case webrtc.DTLSRoleUnknown:
		return "unknown"
	}

	return "raw" + strconv.Itoa(int(r))
}

func c13Ans(olite, alite bool, acfg, spec string) string {
	k := len(c13ParseSpec(spec))
	offer, err := c13PionOffer(k)
	if err != nil {
		return "err:offer"
	}
	offer, err = c13Rewrite(offer, olite, spec)
	if err != nil {
		return "err:rewrite"
	}
	pc, err := c13PC(alite, acfg)
	if err != nil {
		return "err:pc"
	}
	defer pc.Close() //nolint:errcheck
	ch := webrtc.VerifCaptureTransportStart(pc)
	defer webrtc.VerifReleaseTransportStart(pc)
	if err = pc.SetRemoteDescription(webrtc.SessionDescription{Type: webrtc.SDPTypeOffer, SDP: offer}); err != nil {
		return "err:srd"
	}
	answer, err := pc.CreateAnswer(nil)
	if err != nil {
		return "err:answer"
	}
	setup, lite := c13SetupOf(answer.SDP)

	return fmt.Sprintf("%s lite=%s %s", setup, b2s(lite), c13Observe(pc, ch))
}

func c13Short(obs string) string {
	// "ice=X dtls=Y args=…" → "X/Y"
	f := strings.Fields(obs)
	if len(f) < 2 {
		return "none/none"
	}

	return strings.TrimPrefix(f[0], "ice=") + "/" + strings.TrimPrefix(f[1], "dtls=")
}

func c13Pair(olite, alite bool, ocfg, acfg string) string {
	opc, err := c13PC(olite, ocfg)
	if err != nil {
		return "err:pc"
	}
	defer opc.Close() //nolint:errcheck
	apc, err := c13PC(alite, acfg)
	if err != nil {
		return "err:pc"
	}
	defer apc.Close() //nolint:errcheck
	och := webrtc.VerifCaptureTransportStart(opc)
	defer webrtc.VerifReleaseTransportStart(opc)
	ach := webrtc.VerifCaptureTransportStart(apc)
	defer webrtc.VerifReleaseTransportStart(apc)
	if err = c13AddSections(opc, 2); err != nil {
		return "err:sections"
	}
	offer, err := opc.CreateOffer(nil)
	if err != nil {
		return "err:offer"
	}
	if err = opc.SetLocalDescription(offer); err != nil {
		return "err:sld-offer"
	}
	if err = apc.SetRemoteDescription(offer); err != nil {
		return "err:srd-offer"
	}
	answer, err := apc.CreateAnswer(nil)
	if err != nil {
		return "err:answer"
	}
	if err = apc.SetLocalDescription(answer); err != nil {
		return "err:sld-answer"
	}
	if err = opc.SetRemoteDescription(answer); err != nil {
		return "err:srd-answer"
	}
	os, _ := c13SetupOf(offer.SDP)
	as, _ := c13SetupOf(answer.SDP)

	return fmt.Sprintf("%s %s o=%s a=%s", os, as, c13Short(c13Observe(opc, och)), c13Short(c13Observe(apc, ach)))
}

func c13Off(olite, alite bool, ocfg, spec string) string {
	k := len(c13ParseSpec(spec))
	opc, err := c13PC(olite, ocfg)
	if err != nil {
		return "err:pc"
	}
	defer opc.Close() //nolint:errcheck
	apc, err := c13PC(false, "u")
	if err != nil {
		return "err:pc"
	}
	defer apc.Close() //nolint:errcheck
	och := webrtc.VerifCaptureTransportStart(opc)
	defer webrtc.VerifReleaseTransportStart(opc)
	if err = c13AddSections(opc, k); err != nil {
		return "err:sections"
	}
	offer, err := opc.CreateOffer(nil)
	if err != nil {
		return "err:offer"
	}
	if err = opc.SetLocalDescription(offer); err != nil {
		return "err:sld-offer"
	}
	if err = apc.SetRemoteDescription(offer); err != nil {
		return "err:srd-offer"
	}
	answer, err := apc.CreateAnswer(nil)
	if err != nil {
		return "err:answer"
	}
	text, err := c13Rewrite(answer.SDP, alite, spec)
	if err != nil {
		return "err:rewrite"
	}
	if err = opc.SetRemoteDescription(webrtc.SessionDescription{Type: webrtc.SDPTypeAnswer, SDP: text}); err != nil {
		return "err:srd-answer"
	}

	return c13Observe(opc, och)
}

// c13Conn establishes a real connection over loopback UDP: the offerer is a pion PeerConnection whose
// offer is forwarded with its a=setup rewritten (its own local description stays as created, as a
// foreign offerer that announced that role would behave: it takes the complement of the answer).
func c13Conn(olite, alite bool, ocfg, acfg, offerSetup string) string {
	opc, err := c13PC(olite, ocfg)
	if err != nil {
		return "err:pc"
	}
	defer opc.Close() //nolint:errcheck
	apc, err := c13PC(alite, acfg)
	if err != nil {
		return "err:pc"
	}
	defer apc.Close() //nolint:errcheck
	if err = c13AddSections(opc, 1); err != nil {
		return "err:sections"
	}
	offer, err := opc.CreateOffer(nil)
	if err != nil {
		return "err:offer"
	}
	og := webrtc.GatheringCompletePromise(opc)
	if err = opc.SetLocalDescription(offer); err != nil {
		return "err:sld-offer"
	}
	select {
	case <-og:
	case <-time.After(c13Wait):
		return "err:gather-offer"
	}
	text, err := c13Rewrite(opc.LocalDescription().SDP, olite, offerSetup)
	if err != nil {
		return "err:rewrite"
	}
	if err = apc.SetRemoteDescription(webrtc.SessionDescription{Type: webrtc.SDPTypeOffer, SDP: text}); err != nil {
		return "err:srd-offer"
	}
	answer, err := apc.CreateAnswer(nil)
	if err != nil {
		return "err:answer"
	}
	ag := webrtc.GatheringCompletePromise(apc)
	if err = apc.SetLocalDescription(answer); err != nil {
		return "err:sld-answer"
	}
	select {
	case <-ag:
	case <-time.After(c13Wait):
		return "err:gather-answer"
	}
	if err = opc.SetRemoteDescription(*apc.LocalDescription()); err != nil {
		return "err:srd-answer"
	}
	as, _ := c13SetupOf(answer.SDP)
	state := "stuck"
	deadline := time.Now().Add(c13ConnWait)
	for time.Now().Before(deadline) {
		if opc.ConnectionState() == webrtc.PeerConnectionStateConnected &&
			apc.ConnectionState() == webrtc.PeerConnectionStateConnected {
			state = "connected"

			break
		}
		if opc.ConnectionState() == webrtc.PeerConnectionStateFailed ||
			apc.ConnectionState() == webrtc.PeerConnectionStateFailed {
			state = "failed"

			break
		}
		time.Sleep(2 * time.Millisecond)
	}
	side := func(pc *webrtc.PeerConnection) string {
		d, _ := webrtc.VerifDTLSRoleLive(pc)
		if pc.SCTP().Transport().State() == webrtc.DTLSTransportStateNew {
			return c13Ice(webrtc.VerifICERole(pc)) + "/notstarted"
		}

		return c13Ice(webrtc.VerifICERole(pc)) + "/" + c13Dtls(d)
	}

	return fmt.Sprintf("%s o=%s a=%s %s", as, side(opc), side(apc), state)
}

func c13DtlsRaw(s string) (webrtc.DTLSRole, bool) {
	n, err := strconv.Atoi(s)

	return webrtc.DTLSRole(n), err == nil && n >= 0 && n < 256 //nolint:gosec
}

func c13Fn(a []string) string {
	switch {
	case len(a) == 4 && a[0] == "role":
		r, ok1 := c13DtlsRaw(a[1])
		c, ok2 := c13DtlsRaw(a[2])
		i, err := strconv.Atoi(a[3])
		if !ok1 || !ok2 || err != nil {
			return "bad-op"
		}

		return c13Dtls(webrtc.VerifDTLSTransportRole(r, c, webrtc.ICERole(i)))
	case len(a) == 2 && a[0] == "conn":
		d, ok := c13DtlsRaw(a[1])
		if !ok {
			return "bad-op"
		}
		s := webrtc.VerifConnectionRoleFromDtlsRole(d)
		if s == "" {
			return "zero"
		}

		return s
	case len(a) == 2 && a[0] == "sdp":
		if a[1] == "nil" {
			return c13Dtls(webrtc.VerifDtlsRoleFromSDP(nil))
		}
		d := &sdp.SessionDescription{}
		for _, sec := range c13ParseSpec(a[1]) {
			m := &sdp.MediaDescription{}
			m.Attributes = append(m.Attributes, sdp.Attribute{Key: "mid", Value: "0"})
			for _, v := range sec {
				if v == "empty" {
					v = ""
				}
				m.Attributes = append(m.Attributes, sdp.Attribute{Key: "setup", Value: v})
			}
			m.Attributes = append(m.Attributes, sdp.Attribute{Key: "sendrecv"})
			d.MediaDescriptions = append(d.MediaDescriptions, m)
		}
		// a session-level a=setup is not consulted
		d.Attributes = append(d.Attributes, sdp.Attribute{Key: "setup", Value: "passive"})

		return c13Dtls(webrtc.VerifDtlsRoleFromSDP(d))
	case len(a) == 2 && a[0] == "set":
		se := webrtc.SettingEngine{}
		errs := []string{}
		for _, ch := range a[1] {
			var err error
			switch ch {
			case 'c':
				err = se.SetAnsweringDTLSRole(webrtc.DTLSRoleClient)
			case 's':
				err = se.SetAnsweringDTLSRole(webrtc.DTLSRoleServer)
			case 'a':
				err = se.SetAnsweringDTLSRole(webrtc.DTLSRoleAuto)
			case 'z':
				err = se.SetAnsweringDTLSRole(webrtc.DTLSRole(0))
			case 'x':
				err = se.SetAnsweringDTLSRole(webrtc.DTLSRole(9))
			case 'u':
				continue
			default:
				return "bad-op"
			}
			errs = append(errs, b2s(err != nil))
		}

		return c13Dtls(webrtc.VerifAnsweringDTLSRole(&se)) + " " + strings.Join(errs, "")
	}

	return "bad-op"
}

func init() {
	cfgs := []string{"u", "c", "s"}
	matrix := []string{"actpass", "active", "passive", "-"}
	vals := []string{"actpass", "active", "passive", "holdconn", "bogus", "ACTIVE", "empty", "Passive"}
	registry["C13"] = &Prop{
		Workers:    16,
		Exhaustive: true,
		Timeout:    60 * time.Second,
		Rule: "ans: the complete matrix ICE-lite{0,1}² × answering role{unset,client,server} × offered a=setup" +
			"{actpass,active,passive,absent} (48 rows), each run on a real answering PeerConnection that receives a " +
			"genuine pion offer with its a=setup / a=ice-lite lines rewritten — once as a 1-section offer and once as a " +
			"3-section (audio,video,data) offer with the same value in every section; pair: every (lite², offerer cfg, " +
			"answerer cfg) combination (36) as an unmodified exchange between two real PeerConnections; off: a real " +
			"offering PeerConnection receiving a pion answer rewritten to every (lite², cfg, setup∈{active,passive,actpass," +
			"absent,holdconn}) (60); conn: every matrix row (48) with an unconfigured offerer — thorough: × every offerer cfg (144), quick: " +
			"a seeded third of the configured-offerer rows — as a real connection over loopback UDP " +
			"(the offer forwarded with its a=setup rewritten; both ends must reach connected); plus seeded multi-section offers/answers with disagreeing, repeated, missing and " +
			"malformed setup values and refused SetAnsweringDTLSRole values (malformed stream); fn: DTLSTransport.role() on " +
			"every raw (remote 0..4, configured 0..4, ice 0..3), connectionRoleFromDtlsRole 0..5, dtlsRoleFromSDP on " +
			"seeded attribute lists, SetAnsweringDTLSRole call sequences. Observed: the answer's a=setup, " +
			"ICETransport.Role() after the real Start, DTLSTransport.role() with the remote role startTransports " +
			"passes. Trivial: fn lines with values outside the enums, and lines that ended in an error.",
		Gen: func(c *Ctx) {
			r := c.Rng
			// 1. the property's matrix, exhaustively
			for _, o := range []int{0, 1} {
				for _, a := range []int{0, 1} {
					for _, cfg := range cfgs {
						for _, s := range matrix {
							c.Emit("ans %d %d %s %s", o, a, cfg, s)
							c.Emit("ans %d %d %s %s,%s,%s", o, a, cfg, s, s, s)
						}
					}
				}
			}
			// 2. both ends real
			for _, o := range []int{0, 1} {
				for _, a := range []int{0, 1} {
					for _, oc := range cfgs {
						for _, ac := range cfgs {
							c.Emit("pair %d %d %s %s", o, a, oc, ac)
						}
					}
				}
			}
			// 3. offerer against a foreign answer
			for _, o := range []int{0, 1} {
				for _, a := range []int{0, 1} {
					for _, oc := range cfgs {
						for _, s := range []string{"active", "passive", "actpass", "-", "holdconn"} {
							c.Emit("off %d %d %s %s", o, a, oc, s)
						}
					}
				}
			}
			// 3b. real connections over loopback: every row of the matrix × every offerer-side cfg
			for _, o := range []int{0, 1} {
				for _, a := range []int{0, 1} {
					for _, oc := range cfgs {
						for _, ac := range cfgs {
							for _, s := range matrix {
								// quick: every matrix row with an unconfigured offerer + a seeded third of the rest
								if !c.Thorough() && oc != "u" && r.Intn(3) != 0 {
									continue
								}
								c.Emit("conn %d %d %s %s %s", o, a, oc, ac, s)
							}
						}
					}
				}
			}
			// 4. wide / malformed stream
			randSpec := func() string {
				k := 1 + r.Intn(4)
				secs := make([]string, k)
				for i := range secs {
					switch n := r.Intn(10); {
					case n < 3:
						secs[i] = "-"
					case n < 8:
						secs[i] = vals[r.Intn(3)]
						if r.Intn(4) == 0 {
							secs[i] = vals[r.Intn(len(vals))]
						}
					default:
						secs[i] = vals[r.Intn(len(vals))] + "+" + vals[r.Intn(len(vals))]
					}
				}

				return strings.Join(secs, ",")
			}
			randCfg := func() string {
				if r.Intn(4) != 0 {
					return cfgs[r.Intn(3)]
				}
				s := ""
				for i := 0; i < 1+r.Intn(3); i++ {
					s += string("ucsazx"[r.Intn(6)])
				}

				return s
			}
			for i := 0; i < c.N(300, 6000); i++ {
				if r.Intn(4) == 0 {
					c.Emit("off %d %d %s %s", r.Intn(2), r.Intn(2), randCfg(), randSpec())
				} else {
					c.Emit("ans %d %d %s %s", r.Intn(2), r.Intn(2), randCfg(), randSpec())
				}
			}
			// 5. helper functions, raw values
			for rm := 0; rm <= 4; rm++ {
				for cf := 0; cf <= 4; cf++ {
					for ic := 0; ic <= 3; ic++ {
						c.Emit("fn role %d %d %d", rm, cf, ic)
					}
				}
			}
			for d := 0; d <= 5; d++ {
				c.Emit("fn conn %d", d)
			}
			c.Emit("fn sdp nil")
			for _, v := range append([]string{"-"}, vals...) {
				c.Emit("fn sdp %s", v)
			}
			for i := 0; i < c.N(200, 5000); i++ {
				c.Emit("fn sdp %s", randSpec())
			}
			for _, s := range []string{"u", "c", "s", "a", "z", "x", "cs", "sc", "ca", "sz", "az", "xc", "csa", "zsx"} {
				c.Emit("fn set %s", s)
			}
			for i := 0; i < c.N(30, 300); i++ {
				s := ""
				for j := 0; j < 1+r.Intn(5); j++ {
					s += string("csazx"[r.Intn(5)])
				}
				c.Emit("fn set %s", s)
			}
		},
		Exec: func(a []string) string {
			if len(a) >= 1 && a[0] == "fn" {
				return c13Fn(a[1:])
			}
			if len(a) < 5 || (a[1] != "0" && a[1] != "1") || (a[2] != "0" && a[2] != "1") {
				return "bad-op"
			}
			o, al := a[1] == "1", a[2] == "1"
			if a[0] == "conn" && len(a) == 6 {
				return c13Conn(o, al, a[3], a[4], a[5])
			}
			if len(a) != 5 {
				return "bad-op"
			}
			switch a[0] {
			case "ans":
				return c13Ans(o, al, a[3], a[4])
			case "pair":
				return c13Pair(o, al, a[3], a[4])
			case "off":
				return c13Off(o, al, a[3], a[4])
			}

			return "bad-op"
		},
		Class: func(a []string, out string) string {
			f := strings.Fields(out)
			switch a[0] {
			case "fn":
				return "fn " + a[1]
			case "ans":
				if len(f) < 4 {
					return "ans " + out
				}
				kind := "uniform"
				if strings.ContainsAny(a[4], "+") {
					kind = "multi-attr"
				} else if secs := strings.Split(a[4], ","); len(secs) > 1 {
					for _, s := range secs {
						if s != secs[0] {
							kind = "sections-differ"
						}
					}
				}
				cfg := a[3]
				if len(cfg) > 1 || strings.ContainsAny(cfg, "azx") {
					cfg = "setter-sequence"
				}

				return fmt.Sprintf("ans cfg=%s offer=%s → %s %s", cfg, kind, f[0], f[3])
			case "pair":
				if len(f) < 4 {
					return "pair " + out
				}

				return "pair → " + f[1] + " " + f[2] + " " + f[3]
			case "conn":
				if len(f) < 4 {
					return "conn " + out
				}

				return "conn offer=" + a[5] + " → " + f[0] + " " + f[3]
			case "off":
				if len(f) < 2 {
					return "off " + out
				}

				return "off → " + f[0] + " " + f[1]
			}

			return ""
		},
		Trivial: func(a []string, out string) bool {
			if strings.HasPrefix(out, "err:") || strings.Contains(out, "ice=none") || out == "bad-op" || out == "timeout" {
				return true
			}
			if a[0] == "fn" && a[1] == "role" {
				for _, v := range a[2:] {
					if v == "0" || v == "4" {
						return true
					}
				}
				// ice 3 is outside the enum too
				return a[4] == "3"
			}
			if a[0] == "fn" && a[1] == "conn" {
				return a[2] == "0" || a[2] == "4" || a[2] == "5"
			}

			return false
		},
	}
}
