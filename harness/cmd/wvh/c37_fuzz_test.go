package main

// Coverage-guided search for C37 (optional; NOT run by bin/check — the first instrumented build of this package
// takes minutes).  Seeds are the valid files of the C37 generator; each target drives one real reader in a
// read-until-error loop and fails on a call that consumes nothing or on more successful calls than input
// bytes; the fuzzing engine itself reports panics and hung executions.
//
//	cd harness && GOFLAGS=-mod=mod GOPROXY=off go test -tags verif -run '^$' -fuzz '^FuzzC37Ogg$' -fuzztime 2m ./cmd/wvh
//
// Crashers land in cmd/wvh/testdata/fuzz/<target>/; turn one into an op line with `wvh`'s hex (`C37 <reader> fuzz <hex>`),
// put it into corpus/C37/ and run bin/check C37.

import (
	"bytes"
	"errors"
	"fmt"
	"go/ast"
	"go/parser"
	"go/token"
	"io"
	"math/rand"
	"os"
	"path/filepath"
	"sort"
	"strconv"
	"strings"
	"testing"

	"github.com/pion/webrtc/v4/pkg/media/h264reader"
	"github.com/pion/webrtc/v4/pkg/media/h265reader"
	"github.com/pion/webrtc/v4/pkg/media/ivfreader"
	"github.com/pion/webrtc/v4/pkg/media/oggreader"
	"github.com/pion/webrtc/v4/pkg/media/rtpdump"
)

// c37FuzzLoop calls next until it fails: every successful call must move `consumed` forward, and there cannot
// be more successful calls than input bytes (+2).
func c37FuzzLoop(t *testing.T, size int, start int, next func() (consumedSoFar int, err error)) {
	t.Helper()
	prev := start
	for i := 0; ; i++ {
		c, err := next()
		if err != nil {
			return
		}
		if c <= prev {
			t.Fatalf("no-progress: call %d left consumed at %d (was %d)", i, c, prev)
		}
		if c > size {
			t.Fatalf("overrun: consumed %d of %d bytes", c, size)
		}
		if i > size+2 {
			t.Fatalf("too-many-calls: %d calls on %d bytes", i, size)
		}
		prev = c
	}
}

func c37Seeds(f *testing.F, mk func(r *rand.Rand) []byte, extra ...any) {
	r := rand.New(rand.NewSource(37)) //nolint:gosec
	for i := 0; i < 12; i++ {
		if b := mk(r); len(b) > 0 {
			f.Add(append([]any{b}, extra...)...)
		}
	}
}

func FuzzC37Ivf(f *testing.F) {
	c37Seeds(f, func(r *rand.Rand) []byte { b, _ := c37IvfFile(r, r.Intn(5)); return b })
	f.Fuzz(func(t *testing.T, data []byte) {
		if c37IvfTooBig(data) {
			t.Skip()
		}
		cr := &c37Count{r: bytes.NewReader(data)}
		rd, _, err := ivfreader.NewWith(cr)
		if err != nil {
			return
		}
		c37FuzzLoop(t, len(data), cr.n, func() (int, error) {
			_, _, err := rd.ParseNextFrame()

			return cr.n, err
		})
	})
}

func c37FuzzOgg(f *testing.F, open func(in io.Reader) (*oggreader.OggReader, error)) {
	c37Seeds(f, func(r *rand.Rand) []byte { return c37OggFile(r, r.Intn(4)) }, false)
	f.Fuzz(func(t *testing.T, data []byte, fixCRC bool) {
		if fixCRC {
			data = append([]byte{}, data...)
			c37OggFixCRC(data)
		}
		cr := &c37Count{r: bytes.NewReader(data)}
		rd, err := open(cr)
		if err != nil {
			return
		}
		c37FuzzLoop(t, len(data), cr.n, func() (int, error) {
			_, _, err := rd.ParseNextPage()

			return cr.n, err
		})
	})
}

func FuzzC37Ogg(f *testing.F) {
	c37FuzzOgg(f, func(in io.Reader) (*oggreader.OggReader, error) { return oggreader.NewWithOptions(in) })
}

func FuzzC37OggNoChecksum(f *testing.F) {
	c37FuzzOgg(f, func(in io.Reader) (*oggreader.OggReader, error) {
		return oggreader.NewWithOptions(in, oggreader.WithDoChecksum(false))
	})
}

func FuzzC37OggNew(f *testing.F) {
	c37FuzzOgg(f, func(in io.Reader) (*oggreader.OggReader, error) {
		r, _, err := oggreader.NewWith(in)

		return r, err
	})
}

func FuzzC37OpusHead(f *testing.F) {
	c37Seeds(f, func(r *rand.Rand) []byte { b, _ := c37HeadPkt(r); return b })
	f.Fuzz(func(_ *testing.T, data []byte) { _, _ = oggreader.ParseOpusHead(data) })
}

func FuzzC37OpusTags(f *testing.F) {
	c37Seeds(f, func(r *rand.Rand) []byte { b, _ := c37TagsPkt(r); return b })
	f.Fuzz(func(t *testing.T, data []byte) {
		tags, err := oggreader.ParseOpusTags(data)
		if err == nil && len(tags.UserComments)*4 > len(data) {
			t.Fatalf("more comments (%d) than a quarter of the payload (%d bytes)", len(tags.UserComments), len(data))
		}
	})
}

// the Annex-B readers buffer their input: progress is measured in bytes handed out
func c37FuzzAnnex(f *testing.F, codec string) {
	c37Seeds(f, func(r *rand.Rand) []byte { return c37AnnexFile(r, codec) }, false, uint8(0), uint8(3))
	f.Fuzz(func(t *testing.T, data []byte, sei bool, chunk uint8, zeroEvery uint8) {
		// chunking: `chunk` bytes per Read (0 = 4096), a zero-length read before every `zeroEvery`-th chunk
		evs := []c34Ev{}
		k := int(chunk)
		if k == 0 {
			k = 4096
		}
		for i, rest := 0, data; len(rest) > 0; i++ {
			if zeroEvery > 0 && i%int(zeroEvery) == 0 {
				evs = append(evs, c34Ev{nil, nil})
			}
			n := min(k, len(rest))
			evs = append(evs, c34Ev{rest[:n], nil})
			rest = rest[n:]
		}
		script := &c34Script{evs: evs}
		var next func() (int, error)
		if codec == "h264" {
			r, _ := h264reader.NewReaderWithOptions(script, h264reader.WithIncludeSEI(sei))
			next = func() (int, error) {
				n, err := r.NextNAL()
				if err != nil {
					return 0, err
				}

				return len(n.Data), nil
			}
		} else {
			r, _ := h265reader.NewReaderWithOptions(script, h265reader.WithIncludeSEI(sei))
			next = func() (int, error) {
				n, err := r.NextNAL()
				if err != nil {
					return 0, err
				}

				return len(n.Data), nil
			}
		}
		out := 0
		c37FuzzLoop(t, len(data), 0, func() (int, error) {
			l, err := next()
			out += l

			return out, err
		})
	})
}

func FuzzC37H264(f *testing.F) { c37FuzzAnnex(f, "h264") }
func FuzzC37H265(f *testing.F) { c37FuzzAnnex(f, "h265") }

func FuzzC37Rtpdump(f *testing.F) {
	c37Seeds(f, func(r *rand.Rand) []byte { b, _ := c37RtpdumpFile(r, r.Intn(5)); return b })
	f.Fuzz(func(t *testing.T, data []byte) {
		rd, _, err := rtpdump.NewReader(bytes.NewReader(data))
		if err != nil {
			return
		}
		cum := 0
		c37FuzzLoop(t, len(data), 0, func() (int, error) {
			p, err := rd.Next()
			if err != nil && !errors.Is(err, io.EOF) && err.Error() != "malformed rtpdump" {
				t.Fatalf("unexpected error class: %v", err)
			}
			cum += 8 + len(p.Payload)

			return cum, err
		})
	})
}

// TestC37CorpusToOps turns the inputs the fuzzing engine kept as coverage-increasing (its cache directory, named by
// $C37_FUZZ_CACHE) into C37 op lines on stdout, for corpus/C37/: that way they are also compared with the Lean model.
func TestC37CorpusToOps(t *testing.T) {
	dir := os.Getenv("C37_FUZZ_CACHE")
	if dir == "" {
		t.Skip("C37_FUZZ_CACHE not set")
	}
	targets, _ := filepath.Glob(filepath.Join(dir, "FuzzC37*"))
	sort.Strings(targets)
	for _, td := range targets {
		files, _ := filepath.Glob(filepath.Join(td, "*"))
		sort.Strings(files)
		for _, fn := range files {
			raw, err := os.ReadFile(fn)
			if err != nil {
				continue
			}
			lines := strings.Split(strings.TrimSpace(string(raw)), "\n")
			if len(lines) < 2 || !strings.HasPrefix(lines[0], "go test fuzz v1") {
				continue
			}
			vals := []string{}
			okAll := true
			for _, l := range lines[1:] {
				e, err := parser.ParseExpr(l)
				call, isCall := e.(*ast.CallExpr)
				if err != nil || !isCall || len(call.Args) != 1 {
					okAll = false

					break
				}
				switch a := call.Args[0].(type) {
				case *ast.BasicLit:
					if a.Kind == token.STRING {
						s, err := strconv.Unquote(a.Value)
						if err != nil {
							okAll = false
						}
						vals = append(vals, s)
					} else {
						vals = append(vals, a.Value)
					}
				case *ast.Ident:
					vals = append(vals, a.Name)
				default:
					okAll = false
				}
			}
			if !okAll || len(vals) == 0 {
				continue
			}
			data := []byte(vals[0])
			switch name := filepath.Base(td); name {
			case "FuzzC37Ivf":
				fmt.Printf("C37 ivf fuzz %s\n", hx(data))
			case "FuzzC37Ogg", "FuzzC37OggNoChecksum", "FuzzC37OggNew":
				if len(vals) == 2 && vals[1] == "true" {
					c37OggFixCRC(data)
				}
				switch name {
				case "FuzzC37Ogg":
					fmt.Printf("C37 ogg fuzz 1 %s\n", hx(data))
				case "FuzzC37OggNoChecksum":
					fmt.Printf("C37 ogg fuzz 0 %s\n", hx(data))
				default:
					fmt.Printf("C37 oggnew fuzz %s\n", hx(data))
				}
			case "FuzzC37OpusHead":
				fmt.Printf("C37 head fuzz %s\n", hx(data))
			case "FuzzC37OpusTags":
				fmt.Printf("C37 tags fuzz %s\n", hx(data))
			case "FuzzC37Rtpdump":
				fmt.Printf("C37 rtpdump fuzz %s\n", hx(data))
			case "FuzzC37H264", "FuzzC37H265":
				if len(vals) != 4 {
					continue
				}
				k, _ := strconv.Atoi(vals[2])
				z, _ := strconv.Atoi(vals[3])
				if k == 0 {
					k = 4096
				}
				sched := fmt.Sprintf("r:d%d", k)
				if z > 0 {
					sched = "r:z" + strings.Repeat(fmt.Sprintf(",d%d", k), z)
				}
				fmt.Printf("C37 %s fuzz %s %s %s\n", strings.ToLower(strings.TrimPrefix(name, "FuzzC37")), b2s(vals[1] == "true"), sched, hx(data))
			}
		}
	}
}
