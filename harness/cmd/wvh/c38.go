package main

import (
	"bytes"
	"crypto"
	"crypto/ecdh"
	"crypto/ecdsa"
	"crypto/ed25519"
	"crypto/elliptic"
	"crypto/rand"
	"crypto/rsa"
	"crypto/x509"
	"crypto/x509/pkix"
	"encoding"
	"encoding/base64"
	"encoding/json"
	"encoding/pem"
	"fmt"
	"math"
	"math/big"
	mrand "math/rand"
	"reflect"
	"sort"
	"strconv"
	"strings"
	"sync"
	"time"
	"unicode/utf8"

	"github.com/pion/webrtc/v4"
)

// C38 — public value types survive their JSON / text / PEM encodings.  Protocol: see lean/WebrtcVerif/Drv/C38.lean.

// ---- value trees <-> tokens ------------------------------------------------------------------

func c38TreeOfJSON(b []byte) (any, error) {
	dec := json.NewDecoder(bytes.NewReader(b))
	dec.UseNumber()
	var v any
	if err := dec.Decode(&v); err != nil {
		return nil, err
	}

	return v, nil
}

func c38Toks(v any) []string {
	switch x := v.(type) {
	case nil:
		return []string{"N"}
	case bool:
		if x {
			return []string{"T"}
		}

		return []string{"F"}
	case json.Number:
		return []string{"D" + string(x)}
	case float64:
		b, _ := json.Marshal(x)

		return []string{"D" + string(b)}
	case string:
		return []string{"S" + hx([]byte(x))}
	case []any:
		out := []string{"A" + strconv.Itoa(len(x))}
		for _, e := range x {
			out = append(out, c38Toks(e)...)
		}

		return out
	case map[string]any:
		keys := make([]string, 0, len(x))
		for k := range x {
			keys = append(keys, k)
		}
		sort.Strings(keys)
		out := []string{"O" + strconv.Itoa(len(x))}
		for _, k := range keys {
			out = append(out, "K"+hx([]byte(k)))
			out = append(out, c38Toks(x[k])...)
		}

		return out
	}

	return []string{"?"}
}

func c38ToksOfJSON(b []byte) []string {
	v, err := c38TreeOfJSON(b)
	if err != nil {
		return []string{"?" + err.Error()}
	}

	return c38Toks(v)
}

// c38Parse reads one tree; numbers become json.Number (asFloat=false) or float64 (asFloat=true).
func c38Parse(t []string, asFloat bool) (any, []string, bool) {
	if len(t) == 0 || t[0] == "" {
		return nil, nil, false
	}
	h, rest := t[0], t[1:]
	switch h[0] {
	case 'N':
		return nil, rest, len(h) == 1
	case 'T':
		return true, rest, len(h) == 1
	case 'F':
		return false, rest, len(h) == 1
	case 'D':
		if asFloat {
			f, err := strconv.ParseFloat(h[1:], 64)

			return f, rest, err == nil
		}

		return json.Number(h[1:]), rest, true
	case 'S':
		return string(unhx(h[1:])), rest, true
	case 'A':
		n, err := strconv.Atoi(h[1:])
		if err != nil {
			return nil, nil, false
		}
		arr := make([]any, 0, n)
		for i := 0; i < n; i++ {
			var e any
			var ok bool
			e, rest, ok = c38Parse(rest, asFloat)
			if !ok {
				return nil, nil, false
			}
			arr = append(arr, e)
		}

		return arr, rest, true
	case 'O':
		n, err := strconv.Atoi(h[1:])
		if err != nil {
			return nil, nil, false
		}
		m := map[string]any{}
		for i := 0; i < n; i++ {
			if len(rest) == 0 || !strings.HasPrefix(rest[0], "K") {
				return nil, nil, false
			}
			k := string(unhx(rest[0][1:]))
			var e any
			var ok bool
			e, rest, ok = c38Parse(rest[1:], asFloat)
			if !ok {
				return nil, nil, false
			}
			m[k] = e
		}

		return m, rest, true
	}

	return nil, nil, false
}

func c38JSONOfToks(t []string) ([]byte, bool) {
	v, rest, ok := c38Parse(t, false)
	if !ok || len(rest) != 0 {
		return nil, false
	}
	b, err := json.Marshal(v)

	return b, err == nil
}

// ---- enums -----------------------------------------------------------------------------------

type c38Enum struct {
	name  string
	typ   reflect.Type
	count int
}

var c38Enums = []c38Enum{
	{"SDPType", reflect.TypeOf(webrtc.SDPType(0)), 5},
	{"SignalingState", reflect.TypeOf(webrtc.SignalingState(0)), 7},
	{"ICEConnectionState", reflect.TypeOf(webrtc.ICEConnectionState(0)), 8},
	{"ICEGatheringState", reflect.TypeOf(webrtc.ICEGatheringState(0)), 4},
	{"ICEGathererState", reflect.TypeOf(webrtc.ICEGathererState(0)), 5},
	{"ICETransportState", reflect.TypeOf(webrtc.ICETransportState(0)), 8},
	{"DTLSTransportState", reflect.TypeOf(webrtc.DTLSTransportState(0)), 6},
	{"SCTPTransportState", reflect.TypeOf(webrtc.SCTPTransportState(0)), 4},
	{"DataChannelState", reflect.TypeOf(webrtc.DataChannelState(0)), 5},
	{"PeerConnectionState", reflect.TypeOf(webrtc.PeerConnectionState(0)), 7},
	{"BundlePolicy", reflect.TypeOf(webrtc.BundlePolicy(0)), 4},
	{"RTCPMuxPolicy", reflect.TypeOf(webrtc.RTCPMuxPolicy(0)), 3},
	{"ICETransportPolicy", reflect.TypeOf(webrtc.ICETransportPolicy(0)), 3},
	{"SDPSemantics", reflect.TypeOf(webrtc.SDPSemantics(0)), 3},
	{"ICECredentialType", reflect.TypeOf(webrtc.ICECredentialType(0)), 2},
	{"ICERole", reflect.TypeOf(webrtc.ICERole(0)), 3},
	{"ICECandidateType", reflect.TypeOf(webrtc.ICECandidateType(0)), 5},
	{"ICEProtocol", reflect.TypeOf(webrtc.ICEProtocol(0)), 3},
}

func c38EnumByName(n string) *c38Enum {
	for i := range c38Enums {
		if c38Enums[i].name == n {
			return &c38Enums[i]
		}
	}

	return nil
}

// newPtr returns a pointer to a fresh variable of the enum type holding raw (ok=false if raw does not fit).
func (e *c38Enum) newPtr(raw int64) (reflect.Value, bool) {
	p := reflect.New(e.typ)
	switch e.typ.Kind() { //nolint:exhaustive
	case reflect.Uint32:
		if raw < 0 || raw > math.MaxUint32 {
			return p, false
		}
		p.Elem().SetUint(uint64(raw))
	case reflect.Int32:
		if raw < math.MinInt32 || raw > math.MaxInt32 {
			return p, false
		}
		p.Elem().SetInt(raw)
	default:
		p.Elem().SetInt(raw)
	}

	return p, true
}

func c38RawOf(p reflect.Value) int64 {
	if p.Elem().Kind() == reflect.Uint32 {
		return int64(p.Elem().Uint()) //nolint:gosec
	}

	return p.Elem().Int()
}

func c38R(p reflect.Value, err error) string {
	if err != nil {
		return "err"
	}

	return "ok:" + strconv.FormatInt(c38RawOf(p), 10)
}

func c38ShowNew(name, s string) string {
	v, failed, known := webrtc.VerifNewEnum(name, s)
	if !known {
		return "-"
	}

	return fmt.Sprintf("%d:%s", v, b2s(failed))
}

// ---- stats -----------------------------------------------------------------------------------

var c38Stats = map[string]reflect.Type{}

var c38StatsOrder = []any{
	webrtc.CodecStats{}, webrtc.InboundRTPStreamStats{}, webrtc.OutboundRTPStreamStats{},
	webrtc.RemoteInboundRTPStreamStats{}, webrtc.RemoteOutboundRTPStreamStats{}, webrtc.RTPContributingSourceStats{},
	webrtc.AudioSourceStats{}, webrtc.VideoSourceStats{}, webrtc.AudioPlayoutStats{}, webrtc.PeerConnectionStats{},
	webrtc.DataChannelStats{}, webrtc.MediaStreamStats{}, webrtc.AudioSenderStats{}, webrtc.VideoSenderStats{},
	webrtc.SenderAudioTrackAttachmentStats{}, webrtc.SenderVideoTrackAttachmentStats{}, webrtc.AudioReceiverStats{},
	webrtc.VideoReceiverStats{}, webrtc.TransportStats{}, webrtc.ICECandidatePairStats{}, webrtc.ICECandidateStats{},
	webrtc.CertificateStats{}, webrtc.SCTPTransportStats{},
}

// own tags of each struct, as this repository emits them (used by the generator only)
var c38OwnTags = map[string][2]string{
	"CodecStats": {"codec", "~"}, "InboundRTPStreamStats": {"inbound-rtp", ""}, "OutboundRTPStreamStats": {"outbound-rtp", ""},
	"RemoteInboundRTPStreamStats": {"remote-inbound-rtp", ""}, "RemoteOutboundRTPStreamStats": {"remote-outbound-rtp", ""},
	"RTPContributingSourceStats": {"csrc", "~"}, "AudioSourceStats": {"media-source", "audio"},
	"VideoSourceStats": {"media-source", "video"}, "AudioPlayoutStats": {"media-playout", ""},
	"PeerConnectionStats": {"peer-connection", "~"}, "DataChannelStats": {"data-channel", "~"},
	"MediaStreamStats": {"stream", "~"}, "AudioSenderStats": {"sender", "audio"}, "VideoSenderStats": {"sender", "video"},
	"SenderAudioTrackAttachmentStats": {"track", "audio"}, "SenderVideoTrackAttachmentStats": {"track", "video"},
	"AudioReceiverStats": {"receiver", "audio"}, "VideoReceiverStats": {"receiver", "video"},
	"TransportStats": {"transport", "~"}, "ICECandidatePairStats": {"candidate-pair", "~"},
	"ICECandidateStats": {"local-candidate", "~"}, "CertificateStats": {"certificate", "~"},
	"SCTPTransportStats": {"sctp-transport", "~"},
}

var c38StatsEnumFields = map[string][]string{
	"DataChannelStats":  {"State"},
	"TransportStats":    {"ICERole", "DTLSState", "ICEState"},
	"ICECandidateStats": {"CandidateType"},
}

var c38StatsEnumCount = map[string][]int{
	"DataChannelStats":  {5},
	"TransportStats":    {3, 6, 8},
	"ICECandidateStats": {5},
}

var c38TypeConsts = []string{
	"codec", "inbound-rtp", "outbound-rtp", "remote-inbound-rtp", "remote-outbound-rtp", "csrc", "media-source",
	"media-playout", "peer-connection", "data-channel", "stream", "track", "sender", "receiver", "transport",
	"candidate-pair", "local-candidate", "remote-candidate", "certificate", "sctp-transport",
}

var c38Strings = []string{
	"", "a", "audio", "video", "stun:stun.l.google.com:19302", "turn:192.158.29.39?transport=udp",
	`"quoted"\back/slash`, "\x00nul\x01\x1f", "line sep ", "<script>&amp;'", "日本語😀", "tab\tnew\nline\r",
	"\u007f\u0080�", "é", "candidate:1 1 udp 2130706431 10.0.0.1 5000 typ host", "null", "0", "{}",
	strings.Repeat("x", 3000),
}

func c38Fill(v reflect.Value, r *mrand.Rand, mode string) { //nolint:cyclop,gocognit
	str := func() string {
		switch mode {
		case "zero":
			return ""
		case "unusual":
			return c38Strings[r.Intn(len(c38Strings))]
		}
		b := make([]byte, r.Intn(12))
		for i := range b {
			b[i] = byte('a' + r.Intn(26))
		}

		return string(b)
	}
	switch v.Kind() { //nolint:exhaustive
	case reflect.String:
		v.SetString(str())
	case reflect.Bool:
		v.SetBool(mode != "zero" && r.Intn(2) == 0)
	case reflect.Uint8, reflect.Uint16, reflect.Uint32, reflect.Uint64:
		bits := v.Type().Bits()
		switch mode {
		case "zero":
		case "extreme":
			v.SetUint(math.MaxUint64 >> (64 - bits))
		default:
			v.SetUint(r.Uint64() >> (64 - bits) >> uint(r.Intn(bits))) //nolint:gosec
		}
	case reflect.Int, reflect.Int32, reflect.Int64:
		switch mode {
		case "zero":
		case "extreme":
			v.SetInt(math.MinInt32)
		default:
			v.SetInt(int64(r.Int31()) - 1<<30)
		}
	case reflect.Float64:
		switch mode {
		case "zero":
		case "nan":
			v.SetFloat([]float64{math.NaN(), math.Inf(1), math.Inf(-1)}[r.Intn(3)])
		case "extreme":
			v.SetFloat([]float64{math.MaxFloat64, math.SmallestNonzeroFloat64, -math.MaxFloat64, math.Copysign(0, -1),
				1e21, 1e-7, 0.1, 1 << 53}[r.Intn(8)])
		default:
			v.SetFloat(r.NormFloat64() * math.Pow(10, float64(r.Intn(20)-5)))
		}
	case reflect.Slice:
		switch mode {
		case "zero", "nilcoll":
		case "emptycoll":
			v.Set(reflect.MakeSlice(v.Type(), 0, 0))
		default:
			n := r.Intn(4)
			s := reflect.MakeSlice(v.Type(), n, n)
			for i := 0; i < n; i++ {
				c38Fill(s.Index(i), r, mode)
			}
			v.Set(s)
		}
	case reflect.Map:
		switch mode {
		case "zero", "nilcoll":
		case "emptycoll":
			v.Set(reflect.MakeMap(v.Type()))
		default:
			m := reflect.MakeMap(v.Type())
			for i := r.Intn(4); i > 0; i-- {
				k := reflect.New(v.Type().Key()).Elem()
				c38Fill(k, r, mode)
				e := reflect.New(v.Type().Elem()).Elem()
				c38Fill(e, r, mode)
				m.SetMapIndex(k, e)
			}
			v.Set(m)
		}
	case reflect.Pointer:
		switch mode {
		case "zero", "nilcoll":
		default:
			p := reflect.New(v.Type().Elem())
			if mode != "emptycoll" {
				c38Fill(p.Elem(), r, mode)
			}
			v.Set(p)
		}
	case reflect.Struct:
		for i := 0; i < v.NumField(); i++ {
			if v.Field(i).CanSet() {
				c38Fill(v.Field(i), r, mode)
			}
		}
	}
}

// ---- PEM -------------------------------------------------------------------------------------

type c38PemKit struct {
	orig       webrtc.Certificate
	pieces     map[string][]byte
	pemErr     error
	origPEM    string
	fingerpr   string
	hasNoKey   bool
	buildError string
}

var (
	c38PemKits = map[string]*c38PemKit{}
	c38PemMu   sync.Mutex
)

func c38GenKey(kind string) (crypto.PrivateKey, crypto.PublicKey, error) {
	switch kind {
	case "rsa":
		k, err := rsa.GenerateKey(rand.Reader, 2048)
		if err != nil {
			return nil, nil, err
		}

		return k, k.Public(), nil
	case "p256":
		k, err := ecdsa.GenerateKey(elliptic.P256(), rand.Reader)
		if err != nil {
			return nil, nil, err
		}

		return k, k.Public(), nil
	case "p384":
		k, err := ecdsa.GenerateKey(elliptic.P384(), rand.Reader)
		if err != nil {
			return nil, nil, err
		}

		return k, k.Public(), nil
	case "ed25519":
		pub, k, err := ed25519.GenerateKey(rand.Reader)

		return k, pub, err
	case "x25519":
		k, err := ecdh.X25519().GenerateKey(rand.Reader)

		return k, nil, err
	}

	return nil, nil, nil
}

func c38X509(signer crypto.PrivateKey, pub crypto.PublicKey, serial int64, notAfter time.Time) (*x509.Certificate, error) {
	tpl := x509.Certificate{
		SerialNumber: big.NewInt(serial), NotBefore: notAfter.Add(-48 * time.Hour), NotAfter: notAfter,
		Subject: pkix.Name{CommonName: "verif"}, Issuer: pkix.Name{CommonName: "verif"},
	}
	der, err := x509.CreateCertificate(rand.Reader, &tpl, &tpl, pub, signer)
	if err != nil {
		return nil, err
	}

	return x509.ParseCertificate(der)
}

func c38Kit(kind string) *c38PemKit { //nolint:cyclop
	c38PemMu.Lock()
	defer c38PemMu.Unlock()
	if k, ok := c38PemKits[kind]; ok {
		return k
	}
	kit := &c38PemKit{pieces: map[string][]byte{}}
	c38PemKits[kind] = kit
	fail := func(err error) *c38PemKit {
		kit.buildError = err.Error()

		return kit
	}
	key1, pub1, err := c38GenKey(kind)
	if err != nil {
		return fail(err)
	}
	key2, _, err := c38GenKey(kind)
	if err != nil {
		return fail(err)
	}
	signer, spub := key1, pub1
	if kind == "x25519" || kind == "nil" { // not a signing key: the x509 certificate belongs to another key pair
		signer, spub, err = c38GenKey("ed25519")
		if err != nil {
			return fail(err)
		}
	}
	na := time.Date(2031, 5, 6, 7, 8, 9, 0, time.UTC)
	cert1, err := c38X509(signer, spub, 1001, na)
	if err != nil {
		return fail(err)
	}
	cert2, err := c38X509(signer, spub, 1002, na.Add(time.Hour))
	if err != nil {
		return fail(err)
	}
	if kind == "rsa" || kind == "p256" || kind == "p384" {
		// the package's own constructor for the key types it supports
		c, err := webrtc.NewCertificate(key1, x509.Certificate{
			SerialNumber: big.NewInt(1001), NotBefore: na.Add(-48 * time.Hour), NotAfter: na,
			Subject: pkix.Name{CommonName: "verif"}, Issuer: pkix.Name{CommonName: "verif"},
		})
		if err != nil {
			return fail(err)
		}
		kit.orig = *c
		// recover the DER of the certificate NewCertificate made
		p, err := c.PEM()
		if err != nil {
			return fail(err)
		}
		for rest := []byte(p); ; {
			var blk *pem.Block
			blk, rest = pem.Decode(rest)
			if blk == nil {
				return fail(fmt.Errorf("PEM() wrote no CERTIFICATE block")) //nolint:err113
			}
			if blk.Type == "CERTIFICATE" {
				if cert1, err = x509.ParseCertificate(blk.Bytes); err != nil {
					return fail(err)
				}

				break
			}
		}
	} else {
		kit.orig = webrtc.CertificateFromX509(key1, cert1)
	}
	kit.hasNoKey = kind == "nil"
	kit.origPEM, kit.pemErr = kit.orig.PEM()
	enc := func(typ string, b []byte) []byte { return pem.EncodeToMemory(&pem.Block{Type: typ, Bytes: b}) }
	kit.pieces["C"] = enc("CERTIFICATE", cert1.Raw)
	kit.pieces["C2"] = enc("CERTIFICATE", cert2.Raw)
	kit.pieces["B"] = enc("CERTIFICATE", []byte(base64.StdEncoding.EncodeToString(cert1.Raw)))
	if key1 != nil {
		p1, err := x509.MarshalPKCS8PrivateKey(key1)
		if err != nil {
			return fail(err)
		}
		p2, err := x509.MarshalPKCS8PrivateKey(key2)
		if err != nil {
			return fail(err)
		}
		kit.pieces["K"] = enc("PRIVATE KEY", p1)
		kit.pieces["K2"] = enc("PRIVATE KEY", p2)
	}
	kit.pieces["X"] = enc("EC PARAMETERS", []byte{6, 8, 42, 134, 72, 206, 61, 3, 1, 7})
	kit.pieces["c"] = enc("CERTIFICATE", []byte{1, 2, 3, 0xff})
	kit.pieces["k"] = enc("PRIVATE KEY", []byte{0x30, 0x03, 1, 2, 3})
	kit.pieces["G"] = []byte("this line is not PEM\n-----BEGIN nonsense\n")

	return kit
}

func c38Fp(c *webrtc.Certificate) string {
	fps, err := c.GetFingerprints()
	if err != nil || len(fps) == 0 {
		return "?"
	}

	return fps[0].Algorithm + " " + fps[0].Value
}

func c38Import(kit *c38PemKit, text string) string {
	got, err := webrtc.CertificateFromPEM(text)
	if err != nil {
		msg := err.Error()
		switch {
		case strings.Contains(msg, "more than 1 CERTIFICATE"):
			return "err:multicert"
		case strings.Contains(msg, "more than 1 PRIVATE KEY"):
			return "err:multipriv"
		case strings.Contains(msg, "must contain both"):
			return "err:missing"
		case strings.HasPrefix(msg, "failed to decode"):
			return "err:decode"
		}

		return "err:other"
	}

	return fmt.Sprintf("ok %s %s %s", b2s(kit.orig.Equals(*got)), b2s(c38Fp(&kit.orig) == c38Fp(got)),
		b2s(kit.orig.Expires().Equal(got.Expires())))
}

// ---- ICEServer / ICECandidateInit / SessionDescription token codecs -----------------------------

func c38OptStr(p *string) string {
	if p == nil {
		return "n"
	}

	return "s:" + hx([]byte(*p))
}

func c38TokOptStr(t string) (*string, bool) {
	if t == "n" {
		return nil, true
	}
	if !strings.HasPrefix(t, "s:") {
		return nil, false
	}
	s := string(unhx(t[2:]))

	return &s, true
}

func c38ShowCI(c webrtc.ICECandidateInit, err error) string {
	if err != nil {
		return "err"
	}
	idx := "n"
	if c.SDPMLineIndex != nil {
		idx = "u:" + strconv.Itoa(int(*c.SDPMLineIndex))
	}

	return fmt.Sprintf("ok %s %s %s %s", hx([]byte(c.Candidate)), c38OptStr(c.SDPMid), idx, c38OptStr(c.UsernameFragment))
}

func c38ShowSD(d webrtc.SessionDescription, err error) string {
	if err != nil {
		return "err"
	}

	return fmt.Sprintf("ok %d %s", int(d.Type), hx([]byte(d.SDP)))
}

func c38UrlsTok(u []string) string {
	if u == nil {
		return "n"
	}
	if len(u) == 0 {
		return "e"
	}
	h := make([]string, len(u))
	for i, s := range u {
		h[i] = hx([]byte(s))
	}

	return "l:" + strings.Join(h, ",")
}

func c38CredToks(c any) string {
	switch x := c.(type) {
	case nil:
		return "n"
	case string:
		return "s:" + hx([]byte(x))
	case webrtc.OAuthCredential:
		return "o:" + hx([]byte(x.MACKey)) + "," + hx([]byte(x.AccessToken))
	case int:
		return "i:" + strconv.Itoa(x)
	}
	b, err := json.Marshal(c)
	if err != nil {
		return "v ?"
	}

	return "v " + strings.Join(c38ToksOfJSON(b), " ")
}

func c38ShowIS(s webrtc.ICEServer, err error) string {
	if err != nil {
		return "err"
	}

	return fmt.Sprintf("ok %s %s %d %s", c38UrlsTok(s.URLs), hx([]byte(s.Username)), int(s.CredentialType), c38CredToks(s.Credential))
}

func c38ParseServer(a []string) (webrtc.ICEServer, bool) {
	var s webrtc.ICEServer
	if len(a) < 4 {
		return s, false
	}
	switch {
	case a[0] == "n":
	case a[0] == "e":
		s.URLs = []string{}
	case strings.HasPrefix(a[0], "l:"):
		for _, h := range strings.Split(a[0][2:], ",") {
			s.URLs = append(s.URLs, string(unhx(h)))
		}
	default:
		return s, false
	}
	s.Username = string(unhx(a[1]))
	ct, err := strconv.Atoi(a[2])
	if err != nil {
		return s, false
	}
	s.CredentialType = webrtc.ICECredentialType(ct)
	c := a[3:]
	switch {
	case len(c) == 1 && c[0] == "n":
	case len(c) == 1 && strings.HasPrefix(c[0], "s:"):
		s.Credential = string(unhx(c[0][2:]))
	case len(c) == 1 && strings.HasPrefix(c[0], "o:"):
		p := strings.Split(c[0][2:], ",")
		if len(p) != 2 {
			return s, false
		}
		s.Credential = webrtc.OAuthCredential{MACKey: string(unhx(p[0])), AccessToken: string(unhx(p[1]))}
	case len(c) == 1 && strings.HasPrefix(c[0], "i:"):
		n, err := strconv.Atoi(c[0][2:])
		if err != nil {
			return s, false
		}
		s.Credential = n
	case c[0] == "v":
		v, rest, ok := c38Parse(c[1:], true)
		if !ok || len(rest) != 0 {
			return s, false
		}
		s.Credential = v
	default:
		return s, false
	}

	return s, true
}

// ---- generators ------------------------------------------------------------------------------

func c38TableStrings() []string {
	set := map[string]bool{"unknown": true}
	for _, e := range c38Enums {
		for raw := 0; raw <= e.count; raw++ {
			p, ok := e.newPtr(int64(raw))
			if ok {
				set[p.Elem().Interface().(fmt.Stringer).String()] = true //nolint:forcetypeassert
			}
		}
	}
	out := []string{}
	for s := range set {
		out = append(out, s)
	}
	sort.Strings(out)

	return out
}

func c38NearMisses(tab []string) []string {
	set := map[string]bool{"": true, " ": true, "Unknown": true, "rollbacK": true, "ſtable": true,
		"cloſed": true, "İce": true, "UDP": true, "Tcp": true, "tcP": true, "uDp": true, "udp ": true,
		"tcр": true, "null": true, "0": true, "1": true, "PASSWORD": true, "OAuth": true, "Plan-B": true}
	for _, s := range tab {
		set[s] = true
		set[strings.ToUpper(s)] = true
		set[strings.ToUpper(s[:1])+s[1:]] = true
		set[s+" "] = true
		set[" "+s] = true
		set[s[:len(s)-1]] = true
		set[s+"x"] = true
		set[s[1:]] = true
		if i := strings.IndexByte(s, '-'); i >= 0 {
			set[s[:i]+"_"+s[i+1:]] = true
			set[s[:i]+s[i+1:]] = true
		}
	}
	out := []string{}
	for s := range set {
		out = append(out, s)
	}
	sort.Strings(out)

	return out
}

func c38Hs(s string) string { return hx([]byte(s)) }

func c38Gen(c *Ctx) { //nolint:cyclop,gocognit,maintidx
	r := c.Rng
	pick := func(xs []string) string { return xs[r.Intn(len(xs))] }
	// 1. enum tables: every raw value -1..count+1 of every enum (complete)
	for _, e := range c38Enums {
		for raw := -1; raw <= e.count+1; raw++ {
			if raw < 0 && e.typ.Kind() == reflect.Uint32 {
				continue
			}
			c.Emit("ev %s %d", e.name, raw)
		}
	}
	// 2. every enum's decoders on every table string of every enum and their near-misses (complete for that set)
	strs := c38NearMisses(c38TableStrings())
	for _, e := range c38Enums {
		for _, s := range strs {
			c.Emit("es %s %s", e.name, c38Hs(s))
		}
	}
	// 3. enum decoders on non-string trees
	trees := []string{"N", "T", "F", "D0", "D1", "D2", "D-1", "D7", "D99", "D1.5", "D1e0", "D4294967296", "D-2147483649",
		"D9223372036854775808", "S-", "A0", "A1 D1", "A1 S6f66666572", "O0", "O1 K74797065 S6f66666572"}
	for _, e := range c38Enums {
		for _, t := range trees {
			for cur := 0; cur <= 2; cur++ {
				c.Emit("ej %s %d %s", e.name, cur, t)
			}
		}
	}
	// 4. SessionDescription
	bad := []string{"\xff", "a\xc0\xafb", "\xed\xa0\x80", "ok\x80"}
	for ty := -1; ty <= 6; ty++ {
		for _, s := range c38Strings {
			c.Emit("sd %d %s", ty, c38Hs(s))
		}
		for _, s := range bad {
			c.Emit("sd %d %s", ty, c38Hs(s))
		}
	}
	for i := 0; i < c.N(300, 6000); i++ {
		b := make([]rune, r.Intn(40))
		for k := range b {
			b[k] = rune([]int{r.Intn(128), r.Intn(0x800), 0x2028 + r.Intn(2), 0x1F600 + r.Intn(64), '"', '\\', '<', '&'}[r.Intn(8)])
			if b[k] >= 0xD800 && b[k] <= 0xDFFF {
				b[k] = 'x'
			}
		}
		c.Emit("sd %d %s", 1+r.Intn(4), c38Hs(string(b)))
	}
	typeVals := []string{"N", "D1", "T", "A0", "O0"}
	for _, s := range strs {
		typeVals = append(typeVals, "S"+c38Hs(s))
	}
	sdpVals := []string{"", "N", "D1", "T", "A0", "S-", "S763d30", "S" + c38Hs(c38Strings[6])}
	for _, tv := range typeVals {
		for _, sv := range sdpVals {
			if sv == "" {
				c.Emit("sdd O1 K74797065 %s", tv)
			} else {
				c.Emit("sdd O2 K736470 %s K74797065 %s", sv, tv)
			}
		}
	}
	for _, t := range []string{"N", "T", "D1", "S-", "A0", "O0", "O1 K736470 S61", "O1 K736470 N", "O2 K736470 S61 K78 D1"} {
		c.Emit("sdd %s", t)
	}
	// 5. ICECandidateInit
	optS := func() string {
		if r.Intn(3) == 0 {
			return "n"
		}

		return "s:" + c38Hs(pick(c38Strings))
	}
	for i := 0; i < c.N(600, 30000); i++ {
		idx := "n"
		switch r.Intn(4) {
		case 0:
			idx = "u:" + strconv.Itoa([]int{0, 1, 65535, 255, 256}[r.Intn(5)])
		case 1:
			idx = "u:" + strconv.Itoa(r.Intn(65536))
		}
		c.Emit("ci %s %s %s %s", c38Hs(pick(c38Strings)), optS(), idx, optS())
	}
	c.Emit("ci - n n n")
	fieldVals := []string{"", "N", "S-", "S61", "D0", "D65535", "D65536", "D-1", "D1.5", "T", "A0", "O0"}
	for i := 0; i < c.N(500, 20000); i++ {
		keys := []string{"63616e646964617465", "7364704d4c696e65496e646578", "7364704d6964", "757365726e616d65467261676d656e74"}
		parts := []string{}
		n := 0
		for _, k := range keys {
			fv := pick(fieldVals)
			if r.Intn(2) == 0 { // bias to well-typed
				switch k {
				case "7364704d4c696e65496e646578":
					fv = pick([]string{"", "N", "D0", "D65535", "D7"})
				default:
					fv = pick([]string{"", "N", "S-", "S61"})
				}
			}
			if fv != "" {
				parts = append(parts, "K"+k, fv)
				n++
			}
		}
		c.Emit("cid O%d %s", n, strings.Join(parts, " "))
	}
	for _, t := range []string{"N", "T", "D1", "S-", "A0", "O0"} {
		c.Emit("cid %s", t)
	}
	// 6. ICEServer
	urlSets := []string{"n", "e"}
	for i := 0; i < 8; i++ {
		n := 1 + r.Intn(3)
		h := make([]string, n)
		for k := range h {
			h[k] = c38Hs(pick(c38Strings))
		}
		urlSets = append(urlSets, "l:"+strings.Join(h, ","))
	}
	urlSets = append(urlSets, "l:-", "l:"+c38Hs("stun:a"), "l:"+c38Hs("turn:b?transport=tcp")+","+c38Hs("turns:c"))
	creds := []string{"n", "s:-", "s:" + c38Hs("secret"), "s:" + c38Hs(c38Strings[6]), "o:-,-", "o:" + c38Hs("bWFj") + "," + c38Hs("dG9r"),
		"o:" + c38Hs(c38Strings[10]) + "," + c38Hs(c38Strings[7]), "i:0", "i:5", "i:-3", "v T", "v F", "v D1.5", "v D2", "v A0",
		"v A2 S61 D1", "v O0", "v O1 K6b S76", "v O2 K416363657373546f6b656e S74 K4d41434b6579 S6b",
		"v O2 K416363657373546f6b656e N K4d41434b6579 S6b", "v O1 K4d41434b6579 S6b"}
	users := []string{"-", c38Hs("user"), c38Hs(c38Strings[6]), c38Hs(c38Strings[10])}
	for _, u := range urlSets {
		for _, cr := range creds {
			for ct := -1; ct <= 2; ct++ {
				c.Emit("is %s %s %d %s", u, pick(users), ct, cr)
			}
		}
	}
	for _, us := range users {
		for ct := 0; ct <= 1; ct++ {
			c.Emit("is n %s %d n", us, ct)
			c.Emit("is e %s %d n", us, ct)
		}
	}
	for i := 0; i < c.N(500, 30000); i++ {
		u := "n"
		switch r.Intn(4) {
		case 0:
			u = "e"
		case 1, 2:
			n := 1 + r.Intn(4)
			h := make([]string, n)
			for k := range h {
				h[k] = c38Hs(pick(c38Strings))
			}
			u = "l:" + strings.Join(h, ",")
		}
		us := "-"
		if r.Intn(3) > 0 {
			us = c38Hs(pick(c38Strings))
		}
		ct := r.Intn(2)
		cr := "n"
		switch {
		case r.Intn(8) == 0:
			cr = pick(creds)
		case r.Intn(4) == 0:
		case ct == 0:
			cr = "s:" + c38Hs(pick(c38Strings))
		default:
			cr = "o:" + c38Hs(pick(c38Strings)) + "," + c38Hs(pick(c38Strings))
		}
		c.Emit("is %s %s %d %s", u, us, ct, cr)
	}
	urlV := []string{"", "N", "A0", "A1 S61", "A2 S61 S-", "A2 S61 D1", "A1 N", "S78", "D1", "O0", "T"}
	userV := []string{"", "S75", "S-", "N", "D6", "A0"}
	ctV := []string{"", "S" + c38Hs("password"), "S" + c38Hs("oauth"), "S" + c38Hs("unknown"), "S" + c38Hs("Password"),
		"S" + c38Hs("OAUTH"), "S-", "N", "D0", "D1"}
	crV := []string{"", "N", "S70", "S-", "D1.5", "T", "A0", "O0", "O2 K416363657373546f6b656e S74 K4d41434b6579 S6b",
		"O1 K4d41434b6579 S6b", "O2 K416363657373546f6b656e S74 K4d41434b6579 D1337",
		"O2 K416363657373546f6b656e N K4d41434b6579 S6b", "O3 K416363657373546f6b656e S74 K4d41434b6579 S6b K78 D1"}
	emitISD := func(u, us, ct, cr string) {
		parts := []string{}
		n := 0
		for _, kv := range [][2]string{{"63726564656e7469616c", cr}, {"63726564656e7469616c54797065", ct}, {"75726c73", u}, {"757365726e616d65", us}} {
			if kv[1] != "" {
				parts = append(parts, "K"+kv[0], kv[1])
				n++
			}
		}
		c.Emit("isd O%d %s", n, strings.Join(parts, " "))
	}
	for _, u := range urlV {
		for _, ct := range ctV {
			for _, cr := range crV {
				emitISD(u, pick(userV), ct, cr)
			}
		}
	}
	for _, us := range userV {
		emitISD("A1 S61", us, "", "")
		for _, ct := range ctV {
			emitISD(pick(urlV), us, ct, pick(crV))
		}
	}
	for i := 0; i < c.N(300, 6000); i++ {
		emitISD(pick(urlV), pick(userV), pick(ctV), pick(crV))
	}
	for _, t := range []string{"N", "T", "D1", "S-", "A0", "A1 O0"} {
		c.Emit("isd %s", t)
	}
	// 7. Stats
	modes := []string{"zero", "rand", "nilcoll", "emptycoll", "unusual", "extreme"}
	enumTok := func(name string, zero bool) string {
		cnt := c38StatsEnumCount[name]
		if len(cnt) == 0 {
			return "-"
		}
		p := make([]string, len(cnt))
		for i, n := range cnt {
			v := 1 + r.Intn(n-1)
			if zero {
				v = 0
			}
			p[i] = strconv.Itoa(v)
		}

		return strings.Join(p, ",")
	}
	kindTok := func(k string) string {
		if k == "~" {
			return "~"
		}

		return c38Hs(k)
	}
	for _, sv := range c38StatsOrder {
		name := reflect.TypeOf(sv).Name()
		own := c38OwnTags[name]
		// own tags, every mode, several fills
		for _, m := range modes {
			for k := 0; k < c.N(2, 40); k++ {
				c.Emit("st %s %s %s %s %s %d", name, c38Hs(own[0]), kindTok(own[1]), enumTok(name, m == "zero"), m, r.Intn(1<<30))
			}
		}
		c.Emit("st %s %s %s %s nan %d", name, c38Hs(own[0]), kindTok(own[1]), enumTok(name, false), r.Intn(1<<30))
		if name == "ICECandidateStats" {
			c.Emit("st %s %s ~ %s rand %d", name, c38Hs("remote-candidate"), enumTok(name, false), r.Intn(1<<30))
		}
		// the zero value and zero tags
		zeroKind := "~"
		if own[1] != "~" {
			zeroKind = ""
		}
		c.Emit("st %s - %s %s zero 0", name, kindTok(zeroKind), enumTok(name, true))
		c.Emit("st %s - %s %s rand 1", name, kindTok(own[1]), enumTok(name, false))
		if own[1] != "~" {
			c.Emit("st %s %s - %s rand 2", name, c38Hs(own[0]), enumTok(name, false))
		}
		// every type constant × kinds (foreign tags land in another struct or fail)
		for _, tc := range append([]string{"Codec", "codec ", "unknown", "media-sourc"}, c38TypeConsts...) {
			kinds := []string{"~"}
			if own[1] != "~" {
				kinds = []string{"audio", "video", "", "Audio", "x"}
			}
			for _, k := range kinds {
				c.Emit("st %s %s %s %s rand %d", name, c38Hs(tc), kindTok(k), enumTok(name, false), r.Intn(1<<30))
			}
		}
		// enum-typed fields: every raw value -1..count+1 in one field at a time, plus random combinations
		cnt := c38StatsEnumCount[name]
		for fi, n := range cnt {
			for raw := -1; raw <= n+1; raw++ {
				p := strings.Split(enumTok(name, false), ",")
				p[fi] = strconv.Itoa(raw)
				c.Emit("st %s %s %s %s rand %d", name, c38Hs(own[0]), kindTok(own[1]), strings.Join(p, ","), r.Intn(1<<30))
			}
		}
		if len(cnt) > 1 {
			for k := 0; k < c.N(40, 1500); k++ {
				p := make([]string, len(cnt))
				for i, n := range cnt {
					p[i] = strconv.Itoa(r.Intn(n+2) - 1)
				}
				c.Emit("st %s %s %s %s rand %d", name, c38Hs(own[0]), kindTok(own[1]), strings.Join(p, ","), r.Intn(1<<30))
			}
		}
	}
	tyV := []string{"", "N", "D1", "T", "A0", "S-", "S" + c38Hs("Codec"), "S" + c38Hs("unknown")}
	for _, tc := range c38TypeConsts {
		tyV = append(tyV, "S"+c38Hs(tc))
	}
	kdV := []string{"", "N", "D1", "S-", "S" + c38Hs("audio"), "S" + c38Hs("video"), "S" + c38Hs("Video"), "A0"}
	k := func(name string) string { return "K" + c38Hs(name) }
	exV := []string{"", k("state") + " S" + c38Hs("open"), k("state") + " N", k("state") + " S" + c38Hs("unknown"),
		k("candidateType") + " S" + c38Hs("host"), k("candidateType") + " S" + c38Hs("unknown"), k("candidateType") + " N",
		k("dtlsState") + " S" + c38Hs("closed"), k("dtlsState") + " D2", k("iceRole") + " S" + c38Hs("controlling"),
		k("iceRole") + " T", k("iceState") + " S" + c38Hs("failed"), k("iceState") + " O0"}
	for _, ty := range tyV {
		for _, kd := range kdV {
			for rep := 0; rep < 2; rep++ {
				ex := pick(exV)
				parts := []string{}
				n := 0
				for _, kv := range []string{ex, kd, ty} {
					if kv != "" {
						n++
					}
				}
				if ex != "" {
					parts = append(parts, ex)
				}
				if kd != "" {
					parts = append(parts, k("kind"), kd)
				}
				if ty != "" {
					parts = append(parts, k("type"), ty)
				}
				c.Emit("std O%d %s", n, strings.Join(parts, " "))
			}
		}
	}
	for _, t := range []string{"N", "T", "D1", "S-", "A0", "S" + c38Hs("codec")} {
		c.Emit("std %s", t)
	}
	// 8. PEM
	kinds := []string{"p256", "p384", "ed25519", "rsa", "x25519", "nil"}
	for _, k := range kinds {
		c.Emit("pem %s", k)
	}
	blocks := []string{"C", "B", "K", "X", "c", "k", "C2", "K2", "G"}
	for _, k := range kinds[:5] {
		c.Emit("pemb %s", k)
		for _, a := range blocks {
			c.Emit("pemb %s %s", k, a)
			for _, b := range blocks {
				c.Emit("pemb %s %s %s", k, a, b)
				if k == "p256" || k == "ed25519" || c.Thorough() {
					for _, d := range blocks {
						c.Emit("pemb %s %s %s %s", k, a, b, d)
					}
				}
			}
		}
		for i := 0; i < c.N(60, 5000); i++ {
			n := 4 + r.Intn(4)
			p := make([]string, n)
			for j := range p {
				p[j] = blocks[r.Intn(len(blocks))]
				if r.Intn(3) == 0 {
					p[j] = []string{"X", "G"}[r.Intn(2)]
				}
			}
			c.Emit("pemb %s %s", k, strings.Join(p, " "))
		}
	}
}

// ---- executor --------------------------------------------------------------------------------

func c38Exec(a []string) string { //nolint:cyclop,gocognit,maintidx
	switch a[0] {
	case "ev":
		if len(a) != 3 {
			return "bad-op"
		}
		e := c38EnumByName(a[1])
		raw, err := strconv.ParseInt(a[2], 10, 64)
		if e == nil || err != nil {
			return "bad-op"
		}
		p, ok := e.newPtr(raw)
		if !ok {
			return "bad-op"
		}
		v := p.Elem().Interface()
		str := v.(fmt.Stringer).String() //nolint:forcetypeassert
		jb, err := json.Marshal(v)
		if err != nil {
			return "marshal-error"
		}
		w, _ := e.newPtr(1)
		d := c38R(w, json.Unmarshal(jb, w.Interface()))
		text := "- -"
		if tm, ok := v.(encoding.TextMarshaler); ok {
			tb, err := tm.MarshalText()
			if err != nil {
				return "marshaltext-error"
			}
			w2, _ := e.newPtr(1)
			text = hx(tb) + " " + c38R(w2, w2.Interface().(encoding.TextUnmarshaler).UnmarshalText(tb)) //nolint:forcetypeassert
		}

		return fmt.Sprintf("%s N %s J %s D %s T %s", hx([]byte(str)), c38ShowNew(e.name, str), strings.Join(c38ToksOfJSON(jb), " "), d, text)
	case "es":
		if len(a) != 3 {
			return "bad-op"
		}
		e := c38EnumByName(a[1])
		if e == nil {
			return "bad-op"
		}
		s := string(unhx(a[2]))
		jb, _ := json.Marshal(s)
		w, _ := e.newPtr(1)
		j := c38R(w, json.Unmarshal(jb, w.Interface()))
		t := "-"
		w2, _ := e.newPtr(1)
		if tu, ok := w2.Interface().(encoding.TextUnmarshaler); ok {
			t = c38R(w2, tu.UnmarshalText([]byte(s)))
		}

		return fmt.Sprintf("N %s J %s T %s", c38ShowNew(e.name, s), j, t)
	case "ej":
		if len(a) < 4 {
			return "bad-op"
		}
		e := c38EnumByName(a[1])
		cur, err := strconv.ParseInt(a[2], 10, 64)
		jb, ok := c38JSONOfToks(a[3:])
		if e == nil || err != nil || !ok {
			return "bad-op"
		}
		w, ok := e.newPtr(cur)
		if !ok {
			return "bad-op"
		}

		return c38R(w, json.Unmarshal(jb, w.Interface()))
	case "sd":
		if len(a) != 3 {
			return "bad-op"
		}
		ty, err := strconv.Atoi(a[1])
		if err != nil {
			return "bad-op"
		}
		d := webrtc.SessionDescription{Type: webrtc.SDPType(ty), SDP: string(unhx(a[2]))}
		jb, err := json.Marshal(d)
		if err != nil {
			return "marshal-error"
		}
		var got webrtc.SessionDescription
		uerr := json.Unmarshal(jb, &got)
		if !utf8.ValidString(d.SDP) {
			return "nonutf8 " + b2s(uerr == nil && got.Type == d.Type && got.SDP == d.SDP)
		}

		return "J " + strings.Join(c38ToksOfJSON(jb), " ") + " U " + c38ShowSD(got, uerr)
	case "sdd":
		jb, ok := c38JSONOfToks(a[1:])
		if !ok {
			return "bad-op"
		}
		var got webrtc.SessionDescription

		return c38ShowSD(got, json.Unmarshal(jb, &got))
	case "ci":
		if len(a) != 5 {
			return "bad-op"
		}
		ci := webrtc.ICECandidateInit{Candidate: string(unhx(a[1]))}
		var ok1, ok2 bool
		ci.SDPMid, ok1 = c38TokOptStr(a[2])
		ci.UsernameFragment, ok2 = c38TokOptStr(a[4])
		if !ok1 || !ok2 {
			return "bad-op"
		}
		if a[3] != "n" {
			n, err := strconv.Atoi(strings.TrimPrefix(a[3], "u:"))
			if err != nil || n < 0 || n > 65535 {
				return "bad-op"
			}
			u := uint16(n)
			ci.SDPMLineIndex = &u
		}
		jb, err := json.Marshal(ci)
		if err != nil {
			return "marshal-error"
		}
		var got webrtc.ICECandidateInit
		uerr := json.Unmarshal(jb, &got)
		if uerr == nil && !reflect.DeepEqual(got, ci) {
			return "deepequal-mismatch " + c38ShowCI(got, nil)
		}

		return "J " + strings.Join(c38ToksOfJSON(jb), " ") + " U " + c38ShowCI(got, uerr)
	case "cid":
		jb, ok := c38JSONOfToks(a[1:])
		if !ok {
			return "bad-op"
		}
		var got webrtc.ICECandidateInit

		return c38ShowCI(got, json.Unmarshal(jb, &got))
	case "is":
		s, ok := c38ParseServer(a[1:])
		if !ok {
			return "bad-op"
		}
		jb, err := json.Marshal(s)
		if err != nil {
			return "marshal-error"
		}
		var got webrtc.ICEServer
		uerr := json.Unmarshal(jb, &got)
		out := "J " + strings.Join(c38ToksOfJSON(jb), " ") + " U " + c38ShowIS(got, uerr)
		// the printed form must not hide a difference reflect.DeepEqual sees (and vice versa)
		if uerr == nil && reflect.DeepEqual(got, s) != (c38ShowIS(got, nil) == c38ShowIS(s, nil)) {
			return "deepequal-mismatch " + out
		}

		return out
	case "isd":
		jb, ok := c38JSONOfToks(a[1:])
		if !ok {
			return "bad-op"
		}
		var got webrtc.ICEServer

		return c38ShowIS(got, json.Unmarshal(jb, &got))
	case "st":
		if len(a) != 7 {
			return "bad-op"
		}
		t, ok := c38Stats[a[1]]
		seed, err := strconv.ParseInt(a[6], 10, 64)
		if !ok || err != nil {
			return "bad-op"
		}
		v := reflect.New(t).Elem()
		c38Fill(v, mrand.New(mrand.NewSource(seed)), a[5]) //nolint:gosec
		v.FieldByName("Type").SetString(string(unhx(a[2])))
		kf := v.FieldByName("Kind")
		if kf.IsValid() != (a[3] != "~") {
			return "bad-op"
		}
		if kf.IsValid() {
			kf.SetString(string(unhx(a[3])))
		}
		fields := c38StatsEnumFields[a[1]]
		if (a[4] == "-") != (len(fields) == 0) {
			return "bad-op"
		}
		if len(fields) > 0 {
			raws := strings.Split(a[4], ",")
			if len(raws) != len(fields) {
				return "bad-op"
			}
			for i, f := range fields {
				n, err := strconv.ParseInt(raws[i], 10, 64)
				if err != nil {
					return "bad-op"
				}
				v.FieldByName(f).SetInt(n)
			}
		}
		orig := v.Interface()
		jb, err := json.Marshal(orig)
		if err != nil {
			return "merr"
		}
		got, err := webrtc.UnmarshalStatsJSON(jb)
		if err != nil || reflect.TypeOf(got) != t {
			// refused, or decoded into another struct (whose own decoding may or may not accept these fields)
			return "ne"
		}

		return fmt.Sprintf("ok %s %s", reflect.TypeOf(got).Name(), b2s(reflect.DeepEqual(got, orig)))
	case "std":
		jb, ok := c38JSONOfToks(a[1:])
		if !ok {
			return "bad-op"
		}
		got, err := webrtc.UnmarshalStatsJSON(jb)
		if err != nil {
			return "err"
		}

		return "ok " + reflect.TypeOf(got).Name()
	case "pem":
		if len(a) != 2 {
			return "bad-op"
		}
		kit := c38Kit(a[1])
		if kit.buildError != "" {
			return "kit-error " + kit.buildError
		}
		if kit.pemErr != nil {
			return "P - R err:marshal"
		}
		types := []string{}
		rest := []byte(kit.origPEM)
		for {
			var b *pem.Block
			b, rest = pem.Decode(rest)
			if b == nil {
				break
			}
			types = append(types, strings.ReplaceAll(b.Type, " ", "_"))
		}

		return "P " + strings.Join(types, ",") + " R " + c38Import(kit, kit.origPEM)
	case "pemb":
		if len(a) < 2 {
			return "bad-op"
		}
		kit := c38Kit(a[1])
		if kit.buildError != "" {
			return "kit-error " + kit.buildError
		}
		text := []byte{}
		for _, b := range a[2:] {
			p, ok := kit.pieces[b]
			if !ok {
				return "bad-op"
			}
			text = append(text, p...)
		}

		return c38Import(kit, string(text))
	}

	return "bad-op"
}

func init() {
	for _, sv := range c38StatsOrder {
		c38Stats[reflect.TypeOf(sv).Name()] = reflect.TypeOf(sv)
	}
	registry["C38"] = &Prop{
		Workers: 16,
		Rule: "ev: every raw value -1..count+1 of each of the 18 enum types (complete): String(), string constructor, " +
			"json.Marshal→json.Unmarshal, MarshalText→UnmarshalText; es: every decoder of every enum on every table string " +
			"of every enum plus near-misses (case, spaces, truncations, U+212A/U+017F/U+0130 look-alikes); ej: enum decoders " +
			"on null/bool/number/array/object trees; sd/ci/is: SessionDescription (types -1..6 × a pool of unusual strings " +
			"incl. NUL, quotes, U+2028, 3000 chars, invalid UTF-8, + seeded random), ICECandidateInit (nil/set pointers, " +
			"index boundaries), ICEServer (nil/empty/populated URLs × no/password/OAuth/ill-typed credentials × credential " +
			"types -1..2) through json.Marshal→json.Unmarshal with reflect.DeepEqual cross-checked; sdd/cid/isd: the decoders " +
			"on mutated trees (missing keys, null, wrong types); st: each of the 23 Stats structs filled reflectively " +
			"(zero, random, nil/empty collections, unusual strings, extreme numbers, NaN) with own, zero and every foreign " +
			"Type/Kind tag and every raw value of its enum-typed fields, json.Marshal→UnmarshalStatsJSON→DeepEqual; std: " +
			"UnmarshalStatsJSON on mutated trees; pem: PEM()→CertificateFromPEM for P-256/P-384/RSA-2048/Ed25519/X25519/nil " +
			"keys (Equals, fingerprint, Expires); pemb: CertificateFromPEM on every block sequence of length ≤ 2 (≤ 3 for two " +
			"key types / thorough) over {cert, base64 cert, key, foreign block, junk cert, junk key, 2nd cert, 2nd key, garbage} " +
			"plus random longer ones. Non-trivial: distinct op lines the executor accepted.",
		Gen:  c38Gen,
		Exec: c38Exec,
		Class: func(a []string, out string) string {
			f := strings.Fields(out)
			if len(f) == 0 {
				return a[0] + " (empty)"
			}
			switch a[0] {
			case "ev", "sd", "ci", "is":
				res := "decoded"
				if strings.Contains(out, " err") {
					res = "refused"
				}
				if f[0] == "nonutf8" {
					res = "nonutf8"
				}

				return a[0] + " " + res
			case "st":
				cl := "st " + a[5] + " " + f[0]
				if len(f) == 3 {
					cl += " eq=" + f[2]
				}

				return cl
			case "pem", "pemb":
				if i := strings.Index(out, "err:"); i >= 0 {
					return a[0] + " " + strings.Fields(out[i:])[0]
				}

				return a[0] + " ok"
			case "ej":
				return "ej " + strings.SplitN(f[0], ":", 2)[0]
			}

			return a[0] + " " + strings.SplitN(f[0], ":", 2)[0]
		},
		Trivial: func(a []string, out string) bool {
			return out == "bad-op" || strings.HasPrefix(out, "kit-error")
		},
	}
}
