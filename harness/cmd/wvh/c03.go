package main

import (
	"strings"
	"time"
)

// C03 — a rejected SetLocal/SetRemoteDescription leaves negotiation state unchanged.
//
//	h <cfg> <step>…                history on a pair of real PeerConnections (see sighist.go)
var sigRemoteMutations = []string{
	"nomid", "nomidlast", "noufrag", "nopwd", "nofp", "badfp", "cand", "trunc", "badport", "noorigin",
}

func sigInvalidCalls(x string) []string {
	out := []string{}
	tys := []string{"o", "p", "a"}
	// wrong type for the state (those that happen to be right for a stage simply succeed)
	for _, ty := range []string{"o", "p", "a", "r"} {
		out = append(out, x+"sl:"+ty+":mo", x+"sl:"+ty+":ma", x+"sr:"+ty+":po", x+"sr:"+ty+":pa")
	}
	for _, ty := range []string{"u", "x"} {
		out = append(out, x+"sl:"+ty+":mo", x+"sr:"+ty+":po", x+"sl:"+ty+":e", x+"sr:"+ty+":g")
	}
	for _, ty := range tys {
		// semantically invalid / unparsable remote descriptions
		for _, ref := range []string{"po", "pa"} {
			for _, m := range sigRemoteMutations {
				if m == "nomidlast" && ty == "a" {
					continue
				}
				out = append(out, x+"sr:"+ty+":"+ref+":"+m)
			}
		}
		out = append(out, x+"sr:"+ty+":e", x+"sr:"+ty+":g")
		// local descriptions that are not the last created offer / answer, or do not parse
		for _, ref := range []string{"mo2", "po", "pa", "mo:attr", "ma:attr", "mo:trunc", "ma:nomid", "g", "e"} {
			out = append(out, x+"sl:"+ty+":"+ref)
		}
	}

	return out
}

func init() {
	registry["C03"] = &Prop{
		Workers:    16,
		Exhaustive: false,
		Timeout:    60 * time.Second,
		Rule: "h: from each of 14 stages (every signaling state of a first negotiation and of a renegotiation) one " +
			"call of the focus peer out of ~150: every (side, type) with a valid text (wrong type for the state), " +
			"SDPType 0 and 7, remote offer/pranswer/answer texts mutated by: all a=mid removed, last a=mid " +
			"removed, ice-ufrag / ice-pwd / fingerprint removed, one-token fingerprint, unparsable candidate, " +
			"truncated m= line, non-numeric port, o= removed, empty text, garbage; local texts that differ from " +
			"the last created offer/answer (older offer, other peer's, extra attribute, mutated, garbage, empty); " +
			"followed by the rest of the exchange, which must go through as if the call had not been made; " +
			"thorough adds every pair of such calls for a seeded third of them; media-engine rejections " +
			"(non-numeric payload type / rtx apt, audio and video configurations) as final steps; plus seeded guided " +
			"random walks with 40% arbitrary calls over all mutations. After each rejected call the harness waits " +
			"3 ms for a stray OnSignalingStateChange event. " +
			"Non-trivial: distinct op lines; a history is trivial when no SetLocal/SetRemoteDescription was rejected.",
		Gen: func(c *Ctx) {
			for _, st := range sigStages() {
				calls := sigInvalidCalls(st.focus)
				for _, x := range calls {
					c.Emit("h d %s", sigJoin(st.prefix, x, st.cont))
				}
				for _, x := range calls {
					for _, y := range calls {
						if c.Rng.Intn(c.N(60, 3)) != 0 {
							continue
						}
						c.Emit("h d %s", sigJoin(st.prefix, x, y, st.cont))
					}
				}
			}
			// media-engine rejections: they happen after the commit point (recorded finding)
			for _, cfg := range []string{"m", "t", "v"} {
				for _, pre := range []string{"Aco", "Aco Asl:o:mo", "Aco Bsr:o:po:nomid Bsr:o:po:nofp"} {
					c.Emit("h %s %s Bsr:o:po:badfmt", cfg, pre)
				}
			}
			c.Emit("h v Aco Asl:o:mo Bsr:o:po:badapt")
			muts := append([]string{"attr", "candok"}, sigRemoteMutations...)
			for n := 0; n < c.N(2000, 25000); n++ {
				c.Emit("%s", sigWalk(c, 6+c.Rng.Intn(c.N(14, 24)),
					sigWalkOpts{invalid: 400, rollback: 60, closeProb: 5, mutations: muts}))
			}
		},
		Exec: func(a []string) string {
			return sigExecHistory(a, 3*time.Millisecond)
		},
		Class: func(a []string, out string) string {
			// the error classes of the rejected Set calls of the history
			cl := map[string]bool{}
			for i, tok := range strings.Fields(out) {
				if i+2 >= len(a) {
					break
				}
				if !strings.Contains(a[i+2], "sl:") && !strings.Contains(a[i+2], "sr:") {
					continue
				}
				f := strings.Split(tok, "/")
				if len(f) == 9 && f[0] != "ok" {
					cl[a[i+2][1:3]+"→"+f[0]] = true
				}
			}
			if len(cl) == 0 {
				return "no rejected call"
			}
			if len(cl) > 1 {
				return "several error classes"
			}
			for k := range cl {
				return k
			}

			return ""
		},
		Trivial: func(a []string, out string) bool {
			for i, tok := range strings.Fields(out) {
				if i+2 < len(a) && (strings.Contains(a[i+2], "sl:") || strings.Contains(a[i+2], "sr:")) &&
					tok != "noref" && !strings.HasPrefix(tok, "ok/") {
					return false
				}
			}

			return true
		},
	}
}
