package main

import (
	"fmt"
	"hash/fnv"
	"math/rand"
	"os"
	"strconv"
	"strings"

	"github.com/pion/webrtc/v4"
)

// C15 — codec negotiation of the MediaEngine (updateFromRemoteDescription, getCodecByPayload).
//
//	upd <multi> <nA> codec* <nV> codec* <nD> { <nS> { <mediaHex> <bad> <nC> codec* }* }*
//	codec := <pt> <mimeHex> <clock> <channels> <fmtpHex> <nFb> { <typeHex> <paramHex> }*
//	→ E <nD> <ok|apt|dup|sdp>* NA <flag> <n> codec* NV <flag> <n> codec* KA <n> <hash> KV <n> <hash>
//	  P <n> { <pt> <a|v> <hash> }*
type c15Codec struct {
	pt    int
	mime  string // local: full mime type; remote: rtpmap encoding name
	clock uint32
	ch    uint16
	fmtp  string
	fb    [][2]string
}

type c15Section struct {
	media  string
	bad    bool
	codecs []c15Codec
}

func c15Tokens(c c15Codec) []string {
	t := []string{
		strconv.Itoa(c.pt), hx([]byte(c.mime)), strconv.FormatUint(uint64(c.clock), 10),
		strconv.Itoa(int(c.ch)), hx([]byte(c.fmtp)), strconv.Itoa(len(c.fb)),
	}
	for _, f := range c.fb {
		t = append(t, hx([]byte(f[0])), hx([]byte(f[1])))
	}

	return t
}

func c15Hash(toks []string) string {
	h := fnv.New64a()
	h.Write([]byte(strings.Join(toks, " ")))

	return strconv.FormatUint(h.Sum64(), 10)
}

func c15FromParams(c webrtc.RTPCodecParameters) c15Codec {
	out := c15Codec{
		pt: int(c.PayloadType), mime: c.MimeType, clock: c.ClockRate, ch: c.Channels, fmtp: c.SDPFmtpLine,
	}
	for _, f := range c.RTCPFeedback {
		out.fb = append(out.fb, [2]string{f.Type, f.Parameter})
	}

	return out
}

func c15ToParams(c c15Codec) webrtc.RTPCodecParameters {
	p := webrtc.RTPCodecParameters{
		RTPCodecCapability: webrtc.RTPCodecCapability{
			MimeType: c.mime, ClockRate: c.clock, Channels: c.ch, SDPFmtpLine: c.fmtp,
		},
		PayloadType: webrtc.PayloadType(c.pt), //nolint:gosec
	}
	for _, f := range c.fb {
		p.RTCPFeedback = append(p.RTCPFeedback, webrtc.RTCPFeedback{Type: f[0], Parameter: f[1]})
	}

	return p
}

func c15ListTokens(cs []webrtc.RTPCodecParameters) []string {
	t := []string{}
	for _, c := range cs {
		t = append(t, c15Tokens(c15FromParams(c))...)
	}

	return t
}

// token reader
type c15Reader struct {
	t  []string
	ok bool
}

func (r *c15Reader) next() string {
	if len(r.t) == 0 {
		r.ok = false

		return ""
	}
	s := r.t[0]
	r.t = r.t[1:]

	return s
}

func (r *c15Reader) num() int {
	n, err := strconv.ParseUint(r.next(), 10, 32)
	if err != nil {
		r.ok = false
	}

	return int(n) //nolint:gosec
}

func (r *c15Reader) str() string { return string(unhx(r.next())) }

func (r *c15Reader) codec() c15Codec {
	c := c15Codec{}
	c.pt = r.num()
	c.mime = r.str()
	c.clock = uint32(r.num()) //nolint:gosec
	c.ch = uint16(r.num())    //nolint:gosec
	c.fmtp = r.str()
	n := r.num()
	for i := 0; i < n && r.ok; i++ {
		a := r.str()
		b := r.str()
		c.fb = append(c.fb, [2]string{a, b})
	}

	return c
}

func (r *c15Reader) codecs() []c15Codec {
	n := r.num()
	out := []c15Codec{}
	for i := 0; i < n && r.ok; i++ {
		out = append(out, r.codec())
	}

	return out
}

func c15Same(a, b c15Codec) bool {
	if a.pt != b.pt || a.mime != b.mime || a.clock != b.clock || a.ch != b.ch || a.fmtp != b.fmtp || len(a.fb) != len(b.fb) {
		return false
	}
	for i := range a.fb {
		if a.fb[i] != b.fb[i] {
			return false
		}
	}

	return true
}

// c15ExecAux: flt / tgc (model validation for the shared codec model; not part of property C15).
func c15ExecAux(a []string) string {
	r := &c15Reader{t: a[1:], ok: true}
	toParams := func(cs []c15Codec) []webrtc.RTPCodecParameters {
		out := []webrtc.RTPCodecParameters{}
		for _, c := range cs {
			out = append(out, c15ToParams(c))
		}

		return out
	}
	show := func(tag string, cs []webrtc.RTPCodecParameters) []string {
		return append([]string{tag, strconv.Itoa(len(cs))}, c15ListTokens(cs)...)
	}
	switch a[0] {
	case "flt":
		cs := toParams(r.codecs())
		if !r.ok || len(r.t) != 0 {
			return "bad-op"
		}
		res := webrtc.VerifFilterUnattachedRTX(cs)

		return strings.Join(append(show("R", res), show("V", cs)...), " ")
	case "tgc":
		eng := toParams(r.codecs())
		prefs := toParams(r.codecs())
		if !r.ok || len(r.t) != 0 {
			return "bad-op"
		}
		res, after := webrtc.VerifTransceiverGetCodecs(eng, prefs)

		return strings.Join(append(show("R", res), show("E", after)...), " ")
	}

	return "bad-op"
}

func c15Exec(a []string) string {
	if len(a) > 0 && (a[0] == "flt" || a[0] == "tgc") {
		return c15ExecAux(a)
	}
	if len(a) == 0 || a[0] != "upd" {
		return "bad-op"
	}
	r := &c15Reader{t: a[1:], ok: true}
	multi := r.num() != 0
	toParams := func(cs []c15Codec) []webrtc.RTPCodecParameters {
		out := []webrtc.RTPCodecParameters{}
		for _, c := range cs {
			out = append(out, c15ToParams(c))
		}

		return out
	}
	audio := toParams(r.codecs())
	video := toParams(r.codecs())
	nd := r.num()
	descs := [][]webrtc.VerifRemoteSection{}
	plain := [][]c15Section{}
	for d := 0; d < nd && r.ok; d++ {
		ns := r.num()
		secs := []webrtc.VerifRemoteSection{}
		ps := []c15Section{}
		for s := 0; s < ns && r.ok; s++ {
			media := r.str()
			bad := r.num() != 0
			cs := r.codecs()
			secs = append(secs, webrtc.VerifRemoteSection{Media: media, Codecs: toParams(cs), MissingRtpmap: bad})
			ps = append(ps, c15Section{media, bad, cs})
		}
		descs = append(descs, secs)
		plain = append(plain, ps)
	}
	if !r.ok || len(r.t) != 0 {
		return "bad-op"
	}
	st := webrtc.VerifMediaEngineUpdate(audio, video, multi, descs)

	// the SDP that was read must be the SDP that the op line describes
	for d := range plain {
		for s, sec := range plain[d] {
			seen := st.Seen[d][s]
			if sec.bad {
				if seen != nil {
					return "sdp-unfaithful bad-section-accepted"
				}

				continue
			}
			if seen == nil || len(seen) != len(sec.codecs) {
				return fmt.Sprintf("sdp-unfaithful %d %d", d, s)
			}
			for i, c := range sec.codecs {
				want := c
				want.mime = sec.media + "/" + c.mime
				if !c15Same(want, c15FromParams(seen[i])) {
					return fmt.Sprintf("sdp-unfaithful %d %d %d", d, s, i)
				}
			}
		}
	}

	out := []string{"E", strconv.Itoa(len(st.Errors))}
	out = append(out, st.Errors...)
	out = append(out, "NA", b2s(st.NegotiatedAudio), strconv.Itoa(len(st.NegotiatedAudioCodecs)))
	out = append(out, c15ListTokens(st.NegotiatedAudioCodecs)...)
	out = append(out, "NV", b2s(st.NegotiatedVideo), strconv.Itoa(len(st.NegotiatedVideoCodecs)))
	out = append(out, c15ListTokens(st.NegotiatedVideoCodecs)...)
	out = append(out, "KA", strconv.Itoa(len(st.AudioCodecsByKind)), c15Hash(c15ListTokens(st.AudioCodecsByKind)))
	out = append(out, "KV", strconv.Itoa(len(st.VideoCodecsByKind)), c15Hash(c15ListTokens(st.VideoCodecsByKind)))
	out = append(out, "P", strconv.Itoa(len(st.ByPayload)))
	for _, l := range st.ByPayload {
		k := "?"
		switch l.Kind {
		case webrtc.RTPCodecTypeAudio:
			k = "a"
		case webrtc.RTPCodecTypeVideo:
			k = "v"
		default:
		}
		out = append(out, strconv.Itoa(int(l.PayloadType)), k, c15Hash(c15Tokens(c15FromParams(l.Codec))))
	}

	return strings.Join(out, " ")
}

/* ---------------------------------------------------------------- generator */

var c15VideoFb = [][2]string{{"goog-remb", ""}, {"ccm", "fir"}, {"nack", ""}, {"nack", "pli"}}

var c15FbPool = [][2]string{
	{"goog-remb", ""}, {"ccm", "fir"}, {"nack", ""}, {"nack", "pli"}, {"transport-cc", ""},
	{"NACK", ""}, {"nack", "PLI"}, {"ccm", "tmmbr"},
}

func c15DefaultAudio() []c15Codec {
	return []c15Codec{
		{111, "audio/opus", 48000, 2, "minptime=10;useinbandfec=1", nil},
		{9, "audio/G722", 8000, 0, "", nil},
		{0, "audio/PCMU", 8000, 0, "", nil},
		{8, "audio/PCMA", 8000, 0, "", nil},
	}
}

func c15DefaultVideo() []c15Codec {
	h := func(pt int, f string) c15Codec { return c15Codec{pt, "video/H264", 90000, 0, f, c15VideoFb} }
	x := func(pt, apt int) c15Codec {
		return c15Codec{pt, "video/rtx", 90000, 0, "apt=" + strconv.Itoa(apt), nil}
	}

	return []c15Codec{
		{96, "video/VP8", 90000, 0, "", c15VideoFb}, x(97, 96),
		h(102, "level-asymmetry-allowed=1;packetization-mode=1;profile-level-id=42001f"), x(103, 102),
		h(104, "level-asymmetry-allowed=1;packetization-mode=0;profile-level-id=42001f"), x(105, 104),
		h(106, "level-asymmetry-allowed=1;packetization-mode=1;profile-level-id=42e01f"), x(107, 106),
		h(108, "level-asymmetry-allowed=1;packetization-mode=0;profile-level-id=42e01f"), x(109, 108),
		h(127, "level-asymmetry-allowed=1;packetization-mode=1;profile-level-id=4d001f"), x(125, 127),
		h(39, "level-asymmetry-allowed=1;packetization-mode=0;profile-level-id=4d001f"), x(40, 39),
		{116, "video/H265", 90000, 0, "", c15VideoFb}, x(117, 116),
		{45, "video/AV1", 90000, 0, "", c15VideoFb}, x(46, 45),
		{98, "video/VP9", 90000, 0, "profile-id=0", c15VideoFb}, x(99, 98),
		{100, "video/VP9", 90000, 0, "profile-id=2", c15VideoFb}, x(101, 100),
		h(112, "level-asymmetry-allowed=1;packetization-mode=1;profile-level-id=64001f"), x(113, 112),
	}
}

func c15Pick[T any](r *rand.Rand, xs []T) T { return xs[r.Intn(len(xs))] }

func c15FbSubset(r *rand.Rand) [][2]string {
	out := [][2]string{}
	switch r.Intn(5) {
	case 0:
		return nil
	case 1:
		return append(out, c15VideoFb...)
	default:
	}
	for _, f := range c15FbPool {
		if r.Intn(3) == 0 {
			out = append(out, f)
		}
	}
	r.Shuffle(len(out), func(i, j int) { out[i], out[j] = out[j], out[i] })

	return out
}

func c15H264Fmtp(r *rand.Rand) string {
	plid := c15Pick(r, []string{
		"42001f", "42e01f", "4d001f", "64001f", "42E01F", "42e034", "640c1f", "4200", "42e0", "42e", "zz001f", "", "42001",
	})
	pm := c15Pick(r, []string{"0", "1", "1", "2", ""})
	parts := []string{}
	if r.Intn(3) > 0 {
		parts = append(parts, "level-asymmetry-allowed=1")
	}
	if r.Intn(8) > 0 {
		parts = append(parts, "packetization-mode="+pm)
	}
	if r.Intn(8) > 0 {
		parts = append(parts, "profile-level-id="+plid)
	}
	r.Shuffle(len(parts), func(i, j int) { parts[i], parts[j] = parts[j], parts[i] })

	return strings.Join(parts, ";")
}

// c15RandomCodec draws a codec of the kind from the per-codec grammars. pts lists payload types of
// codecs drawn before (targets for apt).
func c15RandomCodec(r *rand.Rand, audio bool, pt int, pts []int) c15Codec {
	pre := "video/"
	if audio {
		pre = "audio/"
	}
	if r.Intn(40) == 0 { // registered under the other kind's prefix
		if audio {
			pre = "video/"
		} else {
			pre = "audio/"
		}
	}
	c := c15Codec{pt: pt}
	if audio {
		switch r.Intn(8) {
		case 0, 1, 2:
			c.mime, c.clock, c.ch = pre+"opus", 48000, 2
			c.fmtp = c15Pick(r, []string{"minptime=10;useinbandfec=1", "", "useinbandfec=1", "minptime=10; useinbandfec=0", "stereo=1"})
		case 3:
			c.mime, c.clock = pre+"PCMU", 8000
		case 4:
			c.mime, c.clock = pre+"PCMA", 8000
		case 5:
			c.mime, c.clock = pre+"G722", 8000
		case 6:
			c.mime, c.clock, c.fmtp = pre+"telephone-event", c15Pick(r, []uint32{8000, 48000}), "0-16"
		default:
			c.mime, c.clock, c.ch = pre+"red", 48000, 2
			c.fmtp = "111/111"
		}
		if r.Intn(4) == 0 {
			c.fb = [][2]string{{"transport-cc", ""}}
		}
	} else {
		switch r.Intn(12) {
		case 0, 1:
			c.mime = pre + "VP8"
		case 2, 3:
			c.mime = pre + "VP9"
			c.fmtp = c15Pick(r, []string{"profile-id=0", "profile-id=2", "profile-id=1", "", "PROFILE-ID=0", "profile-id=00", " profile-id=2 "})
		case 4, 5, 6:
			c.mime = pre + "H264"
			c.fmtp = c15H264Fmtp(r)
		case 7:
			c.mime = pre + "H265"
			c.fmtp = c15Pick(r, []string{"", "level-id=93;profile-id=1;tier-flag=0;tx-mode=SRST", "profile-id=2"})
		case 8:
			c.mime = pre + "AV1"
			c.fmtp = c15Pick(r, []string{"", "profile=0", "profile=1", "level-idx=5;profile=0;tier=0", "profile=2;level-idx=5"})
		case 9, 10:
			c.mime = pre + "rtx"
			apt := r.Intn(128)
			if len(pts) > 0 && r.Intn(5) > 0 {
				apt = c15Pick(r, pts)
			}
			c.fmtp = "apt=" + strconv.Itoa(apt)
		default:
			c.mime = pre + c15Pick(r, []string{"flexfec-03", "ulpfec", "unknown", "red"})
			if strings.HasSuffix(c.mime, "flexfec-03") {
				c.fmtp = "repair-window=10000000"
			}
		}
		c.clock = 90000
		if (!strings.HasSuffix(c.mime, "rtx") && !strings.Contains(c.mime, "fec")) || r.Intn(6) == 0 {
			c.fb = c15FbSubset(r)
		}
	}
	switch r.Intn(14) {
	case 0:
		c.clock = 0
	case 1:
		c.ch = c15Pick(r, []uint16{0, 1, 2})
	case 2:
		c.clock = c15Pick(r, []uint32{8000, 16000, 48000, 90000})
	default:
	}

	return c
}

func c15RecaseMime(r *rand.Rand, s string) string {
	b := []byte(s)
	for i := range b {
		if r.Intn(3) == 0 {
			switch {
			case b[i] >= 'a' && b[i] <= 'z':
				b[i] -= 32
			case b[i] >= 'A' && b[i] <= 'Z':
				b[i] += 32
			}
		}
	}

	return string(b)
}

var c15PtPool = []int{96, 97, 98, 99, 100, 101, 102, 103, 104, 110, 111, 120, 125, 126, 35, 36, 45, 63, 1, 10}

func c15FreshPt(r *rand.Rand, used map[int]bool) int {
	for i := 0; i < 50; i++ {
		pt := c15Pick(r, c15PtPool)
		if r.Intn(6) == 0 {
			pt = 1 + r.Intn(126)
		}
		if pt == 0 || pt == 8 || pt == 9 || pt == 127 || used[pt] {
			continue
		}

		return pt
	}
	for pt := 20; pt < 127; pt++ {
		if !used[pt] {
			return pt
		}
	}

	return 126
}

func c15MutateFmtp(r *rand.Rand, f string) string {
	switch r.Intn(9) {
	case 0:
		return ""
	case 1:
		return strings.ToUpper(f)
	case 2:
		return strings.ReplaceAll(f, ";", "; ")
	case 3:
		if f == "" {
			return "x-google-start-bitrate=800"
		}

		return f + ";x-google-start-bitrate=800"
	case 4:
		p := strings.Split(f, ";")
		r.Shuffle(len(p), func(i, j int) { p[i], p[j] = p[j], p[i] })

		return strings.Join(p, ";")
	case 5:
		p := strings.Split(f, ";")
		if len(p) > 1 {
			k := r.Intn(len(p))
			p = append(p[:k], p[k+1:]...)
		}

		return strings.Join(p, ";")
	case 6:
		return strings.NewReplacer("42001f", "42e01f", "42e01f", "4d001f", "profile-id=0", "profile-id=2",
			"packetization-mode=1", "packetization-mode=0", "profile=0", "profile=1", "useinbandfec=1", "useinbandfec=0").Replace(f)
	case 7:
		return f + ";"
	default:
		return strings.NewReplacer("001f", "0028", "e01f", "e033").Replace(f) // another level: still the same profile
	}
}

var c15WeirdApt = []string{
	"apt=%03d", "APT=%d", "apt=%d;rtx-time=3000", "rtx-time=3000;apt=%d", " apt=%d", "apt=%d ", "apt= %d", "apt=",
	"apt=abc", "apt=300", "apt=-1", "apt=+%d", "apt=%d;apt=97", "xapt=%d;apt=%d", "apt=%d0;apt=%d", "apt", "Apt=%d;apt=%d",
	"apt=99999999999999999999",
}

func c15Name(mime string) string {
	if i := strings.Index(mime, "/"); i >= 0 {
		return mime[i+1:]
	}

	return mime
}

// c15RemoteSection builds a remote section of the kind: variants of the local codecs (payload types
// remapped, apt following the remap) and/or independent random codecs.
func c15RemoteSection(r *rand.Rand, audio bool, locals []c15Codec, malformed bool) c15Section {
	media := "video"
	if audio {
		media = "audio"
	}
	if r.Intn(12) == 0 {
		media = c15RecaseMime(r, media)
	}
	sec := c15Section{media: media}
	used := map[int]bool{}
	remap := map[int]int{}
	keepPt := r.Intn(3) == 0
	derive := r.Intn(10) < 7
	if derive {
		for _, l := range locals {
			if r.Intn(10) >= 7 {
				continue
			}
			c := l
			c.mime = c15Name(l.mime)
			c.fb = append([][2]string{}, l.fb...)
			pt := l.pt
			if !keepPt || used[pt] || pt == 0 || pt == 8 || pt == 9 || pt == 127 || pt > 127 {
				static := (pt == 0 && c.mime == "PCMU") || (pt == 8 && c.mime == "PCMA") || (pt == 9 && c.mime == "G722")
				if !(keepPt && static && !used[pt] && c.clock == 8000) {
					pt = c15FreshPt(r, used)
				}
			}
			used[pt] = true
			if _, dup := remap[l.pt]; !dup {
				remap[l.pt] = pt
			}
			c.pt = pt
			static := pt == 0 || pt == 8 || pt == 9
			if !static && r.Intn(5) == 0 {
				c.mime = c15RecaseMime(r, c.mime)
			}
			if !static && r.Intn(12) == 0 {
				c.clock = c15Pick(r, []uint32{0, 8000, 48000, 90000})
			}
			if !static && r.Intn(12) == 0 {
				c.ch = c15Pick(r, []uint16{0, 1, 2})
			}
			if r.Intn(4) == 0 && !strings.EqualFold(c.mime, "rtx") {
				c.fmtp = c15MutateFmtp(r, c.fmtp)
			}
			switch r.Intn(6) {
			case 0:
				c.fb = c15FbSubset(r)
			case 1:
				if len(c.fb) > 0 {
					k := r.Intn(len(c.fb))
					c.fb = append(c.fb[:k:k], c.fb[k+1:]...)
				}
			case 2:
				c.fb = append(c.fb, c15Pick(r, c15FbPool))
			case 3:
				r.Shuffle(len(c.fb), func(i, j int) { c.fb[i], c.fb[j] = c.fb[j], c.fb[i] })
			default:
			}
			sec.codecs = append(sec.codecs, c)
		}
		// apt follows the payload type remap (mostly)
		for i := range sec.codecs {
			c := &sec.codecs[i]
			if !strings.HasPrefix(strings.ToLower(c.fmtp), "apt=") {
				continue
			}
			old, err := strconv.Atoi(strings.TrimPrefix(strings.ToLower(c.fmtp), "apt="))
			if err != nil {
				continue
			}
			apt, ok := remap[old]
			if !ok || r.Intn(12) == 0 {
				apt = 1 + r.Intn(126)
				if len(sec.codecs) > 0 && r.Intn(2) == 0 {
					apt = c15Pick(r, sec.codecs).pt // any listed codec, possibly itself or another rtx
				}
			}
			c.fmtp = "apt=" + strconv.Itoa(apt)
			if malformed && r.Intn(3) == 0 {
				w := c15Pick(r, c15WeirdApt)
				switch strings.Count(w, "%") {
				case 0:
					c.fmtp = w
				case 1:
					c.fmtp = fmt.Sprintf(w, apt)
				default:
					c.fmtp = fmt.Sprintf(w, apt, apt)
				}
			}
		}
	}
	if !derive || r.Intn(3) == 0 {
		n := 1 + r.Intn(4)
		for i := 0; i < n; i++ {
			pts := []int{}
			for _, c := range sec.codecs {
				pts = append(pts, c.pt)
			}
			pt := c15FreshPt(r, used)
			used[pt] = true
			c := c15RandomCodec(r, audio, pt, pts)
			c.mime = c15Name(c.mime)
			sec.codecs = append(sec.codecs, c)
		}
	}
	if r.Intn(4) == 0 {
		r.Shuffle(len(sec.codecs), func(i, j int) { sec.codecs[i], sec.codecs[j] = sec.codecs[j], sec.codecs[i] })
	}
	if malformed && r.Intn(6) == 0 {
		sec.bad = true
	}

	return sec
}

func c15Locals(r *rand.Rand, audio bool) []c15Codec {
	switch r.Intn(10) {
	case 0, 1, 2:
		base := c15DefaultVideo()
		if audio {
			base = c15DefaultAudio()
		}
		if r.Intn(2) == 0 {
			return base
		}
		// a subset, in pairs (codec + its rtx) for video
		out := []c15Codec{}
		step := 2
		if audio {
			step = 1
		}
		for i := 0; i+step <= len(base); i += step {
			if r.Intn(2) == 0 {
				out = append(out, base[i:i+step]...)
			}
		}

		return out
	case 3:
		return nil
	default:
	}
	n := 1 + r.Intn(7)
	out := []c15Codec{}
	pts := []int{}
	for i := 0; i < n; i++ {
		pt := c15Pick(r, c15PtPool)
		if r.Intn(4) == 0 {
			pt = r.Intn(128)
		}
		c := c15RandomCodec(r, audio, pt, pts)
		if strings.HasSuffix(c.mime, "rtx") && len(out) > 0 && r.Intn(4) > 0 {
			c.fmtp = "apt=" + strconv.Itoa(out[len(out)-1].pt) // rtx right after its primary
		}
		pts = append(pts, pt)
		out = append(out, c)
	}

	return out
}

func c15EmitOp(c *Ctx, multi bool, audio, video []c15Codec, descs [][]c15Section) {
	t := []string{"upd", b2s(multi), strconv.Itoa(len(audio))}
	for _, x := range audio {
		t = append(t, c15Tokens(x)...)
	}
	t = append(t, strconv.Itoa(len(video)))
	for _, x := range video {
		t = append(t, c15Tokens(x)...)
	}
	t = append(t, strconv.Itoa(len(descs)))
	for _, d := range descs {
		t = append(t, strconv.Itoa(len(d)))
		for _, s := range d {
			t = append(t, hx([]byte(s.media)), b2s(s.bad), strconv.Itoa(len(s.codecs)))
			for _, x := range s.codecs {
				t = append(t, c15Tokens(x)...)
			}
		}
	}
	c.Emit("%s", strings.Join(t, " "))
}

// c15GenAux emits flt/tgc ops (only when VERIF_C15_AUX is set: they validate the parts of the shared
// codec model that C10/C16 use, not property C15).
func c15GenAux(c *Ctx) {
	r := c.Rng
	emit := func(verb string, lists ...[]c15Codec) {
		t := []string{verb}
		for _, l := range lists {
			t = append(t, strconv.Itoa(len(l)))
			for _, x := range l {
				t = append(t, c15Tokens(x)...)
			}
		}
		c.Emit("%s", strings.Join(t, " "))
	}
	for i := 0; i < c.N(1500, 20000); i++ {
		eng := c15Locals(r, false)
		for k := range eng {
			if strings.HasSuffix(eng[k].mime, "rtx") && r.Intn(3) == 0 {
				eng[k].fmtp = c15Pick(r, []string{"apt=", "apt=abc", "apt=-0", "apt=+96", "apt=256", "apt=0096", "", "APT=96", "apt=-5"})
			}
			if r.Intn(15) == 0 {
				eng[k].mime = c15RecaseMime(r, eng[k].mime)
			}
		}
		if r.Intn(3) == 0 {
			emit("flt", eng)

			continue
		}
		prefs := []c15Codec{}
		if r.Intn(3) > 0 {
			sec := c15RemoteSection(r, false, eng, false)
			for _, x := range sec.codecs {
				x.mime = "video/" + x.mime
				if r.Intn(3) == 0 {
					x.pt = 0
				}
				prefs = append(prefs, x)
			}
		}
		emit("tgc", eng, prefs)
	}
}

func c15Gen(c *Ctx) {
	if os.Getenv("VERIF_C15_AUX") != "" {
		c15GenAux(c)

		return
	}
	r := c.Rng
	n := c.N(4000, 40000)
	for i := 0; i < n; i++ {
		malformed := i%5 == 4 // separate stream: weird apt syntax, sections the SDP layer rejects
		audio := c15Locals(r, true)
		video := c15Locals(r, false)
		multi := r.Intn(4) == 0
		nd := 1
		if r.Intn(4) == 0 {
			nd = 2 + r.Intn(2)
		}
		descs := [][]c15Section{}
		for d := 0; d < nd; d++ {
			secs := []c15Section{}
			ns := 1 + r.Intn(3)
			if r.Intn(3) == 0 {
				ns = 1
			}
			for s := 0; s < ns; s++ {
				switch k := r.Intn(9); {
				case k < 5:
					secs = append(secs, c15RemoteSection(r, false, video, malformed))
				case k < 8:
					secs = append(secs, c15RemoteSection(r, true, audio, malformed))
				default:
					secs = append(secs, c15Section{media: c15Pick(r, []string{"application", "text", "videos", ""})})
				}
			}
			descs = append(descs, secs)
		}
		c15EmitOp(c, multi, audio, video, descs)
	}
	// RTX chains: an rtx whose apt names another rtx, below an exactly or partially matched primary,
	// remote payload types partly coinciding with local ones (exercises the apt rewrite and its guard)
	for i := 0; i < c.N(300, 3000); i++ {
		p := c15Pick(r, c15PtPool)
		prim := c15RandomCodec(r, false, p, nil)
		for strings.HasSuffix(prim.mime, "rtx") {
			prim = c15RandomCodec(r, false, p, nil)
		}
		fbA, fbB := c15FbSubset(r), c15FbSubset(r)
		a, b, x := p+1, p+2, p+3
		video := []c15Codec{
			prim,
			{a, "video/rtx", 90000, 0, "apt=" + strconv.Itoa(p), fbA},
			{b, "video/rtx", 90000, 0, "apt=" + strconv.Itoa(a), fbB},
			{x, "video/rtx", 90000, 0, "apt=" + strconv.Itoa(c15Pick(r, []int{p, a, b, x, 77})), c15FbSubset(r)},
		}
		if r.Intn(3) == 0 {
			r.Shuffle(len(video), func(i, j int) { video[i], video[j] = video[j], video[i] })
		}
		rp := prim
		rp.mime = c15Name(prim.mime)
		if r.Intn(2) == 0 {
			rp.fmtp = c15MutateFmtp(r, rp.fmtp)
		}
		used := map[int]bool{p: true}
		if r.Intn(3) == 0 {
			rp.pt = c15FreshPt(r, used)
			used[rp.pt] = true
		}
		ra := c15FreshPt(r, used)
		if r.Intn(3) == 0 && !used[a] {
			ra = a
		}
		used[ra] = true
		rb := c15FreshPt(r, used)
		used[rb] = true
		all := c15FbSubset(r)
		sec := c15Section{media: "video", codecs: []c15Codec{
			rp,
			{ra, "rtx", 90000, 0, "apt=" + strconv.Itoa(rp.pt), append(append([][2]string{}, all...), fbA...)},
			{rb, "rtx", 90000, 0, "apt=" + strconv.Itoa(ra), append(append([][2]string{}, all...), fbB...)},
		}}
		for k := range sec.codecs { // no duplicate feedback entries (pion/sdp would keep them, the hook's read-back check is exact)
			seen := map[[2]string]bool{}
			out := [][2]string{}
			for _, f := range sec.codecs[k].fb {
				if !seen[f] {
					seen[f] = true
					out = append(out, f)
				}
			}
			sec.codecs[k].fb = out
		}
		if r.Intn(3) == 0 {
			r.Shuffle(len(sec.codecs), func(i, j int) { sec.codecs[i], sec.codecs[j] = sec.codecs[j], sec.codecs[i] })
		}
		c15EmitOp(c, false, nil, video, [][]c15Section{{sec}})
	}
}

func c15Class(a []string, out string) string {
	if len(a) > 0 && a[0] != "upd" {
		return "aux " + a[0]
	}
	f := strings.Fields(out)
	if len(f) < 3 || f[0] != "E" {
		return "unparsed"
	}
	nd, _ := strconv.Atoi(f[1])
	if len(f) < 2+nd {
		return "unparsed"
	}
	cl := "ok"
	for _, e := range f[2 : 2+nd] {
		if e != "ok" {
			cl = "err-" + e
		}
	}
	get := func(tag string) int {
		for i, t := range f {
			if t == tag && i+2 < len(f) {
				n, _ := strconv.Atoi(f[i+2])

				return n
			}
		}

		return 0
	}
	sz := func(n int) string {
		switch {
		case n == 0:
			return "0"
		case n <= 2:
			return "1-2"
		default:
			return "3+"
		}
	}
	multi := ""
	if len(a) > 1 && a[1] == "1" {
		multi = " multi"
	}
	hist := "single-desc"
	if nd > 1 {
		hist = "history"
	}

	return fmt.Sprintf("%s %s negotiated audio=%s video=%s%s", cl, hist, sz(get("NA")), sz(get("NV")), multi)
}

func init() {
	registry["C15"] = &Prop{
		Workers: 16,
		Rule: "Seeded random cases: a MediaEngine registration (RegisterDefaultCodecs' table, a subset of it, nothing, or 1-7 " +
			"random codecs per kind over opus/PCMU/PCMA/G722/telephone-event/red/VP8/VP9/H264/H265/AV1/rtx/flexfec/ulpfec/unknown " +
			"with per-codec fmtp grammars incl. invalid profile-level-ids, clock/channels incl. 0, feedback subsets, colliding " +
			"payload types) and 1-3 remote descriptions of 1-3 m-sections (audio/video/other, media name re-cased) whose codecs are " +
			"variants of the local ones (payload types remapped with apt following, mime re-cased, clock/channels/fmtp/feedback " +
			"mutated, order shuffled so RTX can precede its primary) and/or independent random codecs; multi-codec negotiation on in " +
			"1/4. Every fifth case is the malformed stream: apt values with leading zeros, upper case, blanks, signs, duplicates, " +
			"non-numbers, > 255, and sections listing a payload type without rtpmap. The real updateFromRemoteDescription runs on an " +
			"sdp.SessionDescription built with pion/sdp (the hook confirms codecsFromMediaDescription reads back the described " +
			"codecs); negotiated lists, getCodecsByKind and getCodecByPayload for all 256 payload types are compared with the model. " +
			"Non-trivial: distinct op lines in which at least one codec was negotiated.",
		Gen:   c15Gen,
		Exec:  c15Exec,
		Class: c15Class,
		Trivial: func(a []string, out string) bool {
			return strings.Contains(out, " NA 0 0 NV 0 0 ") || strings.Contains(out, " NA 1 0 NV 1 0 ") ||
				strings.Contains(out, " NA 0 0 NV 1 0 ") || strings.Contains(out, " NA 1 0 NV 0 0 ")
		},
	}
}
