package main

import (
	"fmt"
	"os"
	"runtime"
	"strings"
	"sync/atomic"
	"time"

	"github.com/pion/ice/v4"
	"github.com/pion/sdp/v3"
	"github.com/pion/webrtc/v4"
)

// Shared executor for C01/C02/C03: a negotiation history on a pair of real PeerConnections.
//
//	h <cfg> <step>…
//
// cfg   d = both peers pre-create one data channel; m = d + peer A has an audio transceiver;
//
//	t = d + peer A has a local audio track (sender)
//
// step  <P>co | <P>ca | <P>cl                      createOffer / createAnswer / Close on peer P∈{A,B}
//
//	<P>sl:<ty>:<ref>[:<mut>]                   SetLocalDescription
//	<P>sr:<ty>:<ref>[:<mut>]                   SetRemoteDescription
//
// ty    o p a r (offer, pranswer, answer, rollback)  u (SDPType 0)  x (SDPType 7)
// ref   mo ma (P's last created offer/answer)  po pa (the other peer's)  mo2 po2 (the one before the last)
//
//	e (empty SDP text)  g (text that pion/sdp rejects)
//
// mut   mutation applied to the referenced text (see sigMutate)
//
// Output: one token per step  <err>/<sig>/<pendL>/<pendR>/<curL>/<curR>/<LocalDescription>/<RemoteDescription>/<events>
// for the peer the step acted on (`noref` when the reference does not resolve; nothing is executed then).
// A description is named <type letter><k>[~mut] where k is the creation index of its SDP text in this history.
type sigPeer struct {
	pc      *webrtc.PeerConnection
	events  chan webrtc.SignalingState
	offers  []int // creation indices of the offers this peer created
	answers []int
}

type sigRun struct {
	peers [2]*sigPeer
	texts []string          // texts[k-1] = SDP text with creation index k
	names map[string]string // normalised text → name
}

func sigStateName(s webrtc.SignalingState) string {
	switch s {
	case webrtc.SignalingStateStable:
		return "st"
	case webrtc.SignalingStateHaveLocalOffer:
		return "hlo"
	case webrtc.SignalingStateHaveRemoteOffer:
		return "hro"
	case webrtc.SignalingStateHaveLocalPranswer:
		return "hlp"
	case webrtc.SignalingStateHaveRemotePranswer:
		return "hrp"
	case webrtc.SignalingStateClosed:
		return "cl"
	default:
		return "unk"
	}
}

func sigTypeOf(l string) (webrtc.SDPType, bool) {
	switch l {
	case "o":
		return webrtc.SDPTypeOffer, true
	case "p":
		return webrtc.SDPTypePranswer, true
	case "a":
		return webrtc.SDPTypeAnswer, true
	case "r":
		return webrtc.SDPTypeRollback, true
	case "u":
		return webrtc.SDPTypeUnknown, true
	case "x":
		return webrtc.SDPType(7), true
	}

	return 0, false
}

func sigTypeLetter(t webrtc.SDPType) string {
	switch t {
	case webrtc.SDPTypeOffer:
		return "o"
	case webrtc.SDPTypePranswer:
		return "p"
	case webrtc.SDPTypeAnswer:
		return "a"
	case webrtc.SDPTypeRollback:
		return "r"
	case webrtc.SDPTypeUnknown:
		return "u"
	default:
		return "x"
	}
}

// sigNormalise removes what populateLocalCandidates may append.
func sigNormalise(s string) string {
	if !strings.Contains(s, "a=candidate:") && !strings.Contains(s, "a=end-of-candidates") {
		return s
	}
	lines := strings.SplitAfter(s, "\n")
	out := lines[:0]
	for _, l := range lines {
		if strings.HasPrefix(l, "a=candidate:") || strings.HasPrefix(l, "a=end-of-candidates") {
			continue
		}
		out = append(out, l)
	}

	return strings.Join(out, "")
}

var sigMissedEvents atomic.Int64

const sigGarbage = "v=0\r\nthis is not sdp\r\n"

// sigMutate applies a named mutation to a valid SDP text.
//
//nolint:cyclop
func sigMutate(s, mut string) (string, bool) {
	lines := strings.Split(s, "\r\n")
	drop := func(pred func(i int, l string) bool) string {
		out := []string{}
		for i, l := range lines {
			if pred(i, l) {
				continue
			}
			out = append(out, l)
		}

		return strings.Join(out, "\r\n")
	}
	lastIdx := func(prefix string) int {
		k := -1
		for i, l := range lines {
			if strings.HasPrefix(l, prefix) {
				k = i
			}
		}

		return k
	}
	firstIdx := func(prefix string) int {
		for i, l := range lines {
			if strings.HasPrefix(l, prefix) {
				return i
			}
		}

		return -1
	}
	insertAfterFirstMedia := func(extra string) string {
		k := firstIdx("m=")
		if k < 0 {
			return s
		}
		out := append([]string{}, lines[:k+1]...)
		out = append(out, extra)
		out = append(out, lines[k+1:]...)

		return strings.Join(out, "\r\n")
	}
	switch mut {
	case "", "none":
		return s, true
	case "attr": // harmless extra session attribute: still valid, text differs
		k := firstIdx("t=")
		out := append([]string{}, lines[:k+1]...)
		out = append(out, "a=x-verif:1")
		out = append(out, lines[k+1:]...)

		return strings.Join(out, "\r\n"), true
	case "nomid": // every a=mid removed
		return drop(func(_ int, l string) bool { return strings.HasPrefix(l, "a=mid:") }), true
	case "nomidlast": // only the last section loses its mid
		k := lastIdx("a=mid:")

		return drop(func(i int, _ string) bool { return i == k }), true
	case "noufrag":
		return drop(func(_ int, l string) bool { return strings.HasPrefix(l, "a=ice-ufrag:") }), true
	case "nopwd":
		return drop(func(_ int, l string) bool { return strings.HasPrefix(l, "a=ice-pwd:") }), true
	case "nofp":
		return drop(func(_ int, l string) bool { return strings.HasPrefix(l, "a=fingerprint:") }), true
	case "badfp": // fingerprint with a single token
		out := []string{}
		for _, l := range lines {
			if strings.HasPrefix(l, "a=fingerprint:") {
				l = "a=fingerprint:sha-256"
			}
			out = append(out, l)
		}

		return strings.Join(out, "\r\n"), true
	case "cand": // one candidate line that pion/ice cannot parse, in the first media section
		return insertAfterFirstMedia("a=candidate:1 1 udp 1 notanaddress 99999999 typ host"), true
	case "candok": // one well-formed host candidate
		return insertAfterFirstMedia("a=candidate:1 1 udp 2130706431 127.0.0.1 9 typ host"), true
	case "trunc": // the m= line cut short
		out := []string{}
		for _, l := range lines {
			if strings.HasPrefix(l, "m=") {
				l = "m=application"
			}
			out = append(out, l)
		}

		return strings.Join(out, "\r\n"), true
	case "badport": // non-numeric port
		out := []string{}
		for _, l := range lines {
			if strings.HasPrefix(l, "m=") {
				f := strings.Fields(l)
				if len(f) > 1 {
					f[1] = "x9"
				}
				l = strings.Join(f, " ")
			}
			out = append(out, l)
		}

		return strings.Join(out, "\r\n"), true
	case "badfmt": // non-numeric payload type in the first audio/video m= line
		out := []string{}
		done := false
		for _, l := range lines {
			if !done && (strings.HasPrefix(l, "m=audio") || strings.HasPrefix(l, "m=video")) {
				f := strings.Fields(l)
				if len(f) > 3 {
					f[3] = "abc"
					done = true
				}
				l = strings.Join(f, " ")
			}
			out = append(out, l)
		}

		return strings.Join(out, "\r\n"), true
	case "badapt": // rtx apt parameter that is not a number
		out := []string{}
		for _, l := range lines {
			if strings.HasPrefix(l, "a=fmtp:") && strings.Contains(l, "apt=") {
				l = l[:strings.Index(l, "apt=")] + "apt=zz"
			}
			out = append(out, l)
		}

		return strings.Join(out, "\r\n"), true
	case "noorigin":
		return drop(func(_ int, l string) bool { return strings.HasPrefix(l, "o=") }), true
	}

	return "", false
}

func newSigPeer(cfg string, isA bool) (*sigPeer, error) {
	se := webrtc.SettingEngine{}
	se.SetInterfaceFilter(func(string) bool { return false })
	se.SetICEMulticastDNSMode(ice.MulticastDNSModeDisabled)
	se.SetIncludeLoopbackCandidate(false)
	me := &webrtc.MediaEngine{}
	if err := me.RegisterDefaultCodecs(); err != nil {
		return nil, err
	}
	api := webrtc.NewAPI(webrtc.WithSettingEngine(se), webrtc.WithMediaEngine(me))
	pc, err := api.NewPeerConnection(webrtc.Configuration{})
	if err != nil {
		return nil, err
	}
	p := &sigPeer{pc: pc, events: make(chan webrtc.SignalingState, 256)}
	pc.OnSignalingStateChange(func(s webrtc.SignalingState) { p.events <- s })
	if _, err = pc.CreateDataChannel("verif", nil); err != nil {
		return p, err
	}
	switch cfg {
	case "d":
	case "m":
		if isA {
			if _, err = pc.AddTransceiverFromKind(webrtc.RTPCodecTypeAudio); err != nil {
				return p, err
			}
		}
	case "v":
		if isA {
			if _, err = pc.AddTransceiverFromKind(webrtc.RTPCodecTypeVideo); err != nil {
				return p, err
			}
		}
	case "t":
		if isA {
			tr, terr := webrtc.NewTrackLocalStaticSample(
				webrtc.RTPCodecCapability{MimeType: webrtc.MimeTypeOpus}, "audio", "verif")
			if terr != nil {
				return p, terr
			}
			if _, err = pc.AddTrack(tr); err != nil {
				return p, err
			}
		}
	default:
		return p, fmt.Errorf("bad cfg %q", cfg) //nolint:err113
	}

	return p, nil
}

func (r *sigRun) nameOf(d *webrtc.SessionDescription) string {
	if d == nil {
		return "-"
	}
	n, ok := r.names[d.SDP]
	if !ok {
		n, ok = r.names[sigNormalise(d.SDP)]
	}
	if !ok {
		n = "?"
	}

	return sigTypeLetter(d.Type) + n
}

// register names a text, its candidate-free form and what pion/sdp re-marshals it to (the getters for
// local descriptions return a re-marshalled copy). The first name given to a text wins.
func (r *sigRun) register(text, name string) {
	put := func(t string) {
		if _, seen := r.names[t]; !seen {
			r.names[t] = name
		}
	}
	put(text)
	put(sigNormalise(text))
	parsed := &sdp.SessionDescription{}
	if err := parsed.UnmarshalString(text); err == nil {
		if b, merr := parsed.Marshal(); merr == nil {
			put(string(b))
			put(sigNormalise(string(b)))
		}
	}
}

func sigErrClass(err error) string {
	c := webrtc.VerifSignalingErrClass(err)
	if c == "other" && os.Getenv("VERIF_DEBUG") != "" {
		fmt.Fprintf(os.Stderr, "other: %T %v\n", err, err)
	}

	return c
}

func (r *sigRun) resolve(p, q *sigPeer, ref string) (string, string, bool) {
	nth := func(l []int, back int) (string, string, bool) {
		if len(l) < back {
			return "", "", false
		}
		k := l[len(l)-back]

		return r.texts[k-1], fmt.Sprint(k), true
	}
	switch ref {
	case "mo":
		return nth(p.offers, 1)
	case "ma":
		return nth(p.answers, 1)
	case "po":
		return nth(q.offers, 1)
	case "pa":
		return nth(q.answers, 1)
	case "mo2":
		return nth(p.offers, 2)
	case "po2":
		return nth(q.offers, 2)
	case "e":
		return "", "e", true
	case "g":
		return sigGarbage, "g", true
	}

	return "", "", false
}

// drain collects the signaling-state events of one step. The handler runs on its own goroutine:
// when the state changed wait for it, otherwise give a stray event time to show up.
func (p *sigPeer) drain(changed bool, settle time.Duration) string {
	got := []string{}
	if changed {
		// An event that never comes costs the full wait: once that has happened a few times (a tree that
		// does not emit the event) stop paying it.
		wait := 2 * time.Second
		if sigMissedEvents.Load() > 6 {
			wait = 30 * time.Millisecond
		}
		select {
		case s := <-p.events:
			got = append(got, sigStateName(s))
		case <-time.After(wait):
			sigMissedEvents.Add(1)
		}
	}
	deadline := time.Now().Add(settle)
	for {
		select {
		case s := <-p.events:
			got = append(got, sigStateName(s))

			continue
		default:
		}
		if time.Now().After(deadline) {
			break
		}
		runtime.Gosched()
		time.Sleep(50 * time.Microsecond)
	}
	if len(got) == 0 {
		return "-"
	}

	return strings.Join(got, "+")
}

func (r *sigRun) observe(p *sigPeer, errClass string, before webrtc.SignalingState, settle time.Duration) string {
	after := p.pc.SignalingState()
	if errClass == "ok" { // a success announces itself: the event is awaited, no need to linger
		settle = 100 * time.Microsecond
	}
	ev := p.drain(before != after, settle)

	return strings.Join([]string{
		errClass, sigStateName(after),
		r.nameOf(p.pc.PendingLocalDescription()), r.nameOf(p.pc.PendingRemoteDescription()),
		r.nameOf(p.pc.CurrentLocalDescription()), r.nameOf(p.pc.CurrentRemoteDescription()),
		r.nameOf(p.pc.LocalDescription()), r.nameOf(p.pc.RemoteDescription()), ev,
	}, "/")
}

// sigExecHistory runs one history; settle is the time allowed for stray events after each failed step.
//
//nolint:cyclop,gocognit
func sigExecHistory(a []string, settle time.Duration) string {
	if len(a) < 2 || a[0] != "h" {
		return "bad-op"
	}
	cfg := a[1]
	r := &sigRun{names: map[string]string{}}
	r.register("", "e")
	r.register(sigGarbage, "g")
	defer func() {
		for _, p := range r.peers {
			if p != nil && p.pc != nil {
				_ = p.pc.Close()
			}
		}
	}()
	for i := range r.peers {
		p, err := newSigPeer(cfg, i == 0)
		r.peers[i] = p
		if err != nil {
			return "setup-failed"
		}
	}
	outs := []string{}
	for _, step := range a[2:] {
		if len(step) < 3 || (step[0] != 'A' && step[0] != 'B') {
			return "bad-op"
		}
		p, q := r.peers[0], r.peers[1]
		if step[0] == 'B' {
			p, q = q, p
		}
		f := strings.Split(step[1:], ":")
		before := p.pc.SignalingState()
		switch {
		case f[0] == "co" && len(f) == 1:
			d, err := p.pc.CreateOffer(nil)
			if err == nil {
				if _, dup := r.names[d.SDP]; dup {
					return "duplicate-sdp-text"
				}
				r.texts = append(r.texts, d.SDP)
				r.register(d.SDP, fmt.Sprint(len(r.texts)))
				p.offers = append(p.offers, len(r.texts))
			}
			outs = append(outs, r.observe(p, sigErrClass(err), before, settle))
		case f[0] == "ca" && len(f) == 1:
			d, err := p.pc.CreateAnswer(nil)
			if err == nil {
				if _, dup := r.names[d.SDP]; dup {
					return "duplicate-sdp-text"
				}
				r.texts = append(r.texts, d.SDP)
				r.register(d.SDP, fmt.Sprint(len(r.texts)))
				p.answers = append(p.answers, len(r.texts))
			}
			outs = append(outs, r.observe(p, sigErrClass(err), before, settle))
		case f[0] == "cl" && len(f) == 1:
			err := p.pc.Close()
			outs = append(outs, r.observe(p, sigErrClass(err), p.pc.SignalingState(), settle))
		case (f[0] == "sl" || f[0] == "sr") && (len(f) == 3 || len(f) == 4):
			ty, ok := sigTypeOf(f[1])
			if !ok {
				return "bad-op"
			}
			text, name, ok := r.resolve(p, q, f[2])
			if !ok {
				if f[2] != "mo" && f[2] != "ma" && f[2] != "po" && f[2] != "pa" && f[2] != "mo2" && f[2] != "po2" {
					return "bad-op"
				}
				outs = append(outs, "noref")

				continue
			}
			if len(f) == 4 && f[3] != "none" {
				if f[2] == "e" || f[2] == "g" {
					return "bad-op"
				}
				text, ok = sigMutate(text, f[3])
				if !ok {
					return "bad-op"
				}
				name += "~" + f[3]
			}
			r.register(text, name)
			desc := webrtc.SessionDescription{Type: ty, SDP: text}
			var err error
			if f[0] == "sl" {
				err = p.pc.SetLocalDescription(desc)
			} else {
				err = p.pc.SetRemoteDescription(desc)
			}
			outs = append(outs, r.observe(p, sigErrClass(err), before, settle))
		default:
			return "bad-op"
		}
	}
	if len(outs) == 0 {
		return "-"
	}

	return strings.Join(outs, " ")
}
