package main

import (
	"crypto"
	"crypto/md5"  //nolint:gosec
	"crypto/sha1" //nolint:gosec
	"crypto/sha256"
	"crypto/sha512"
	"crypto/x509"
	"encoding/hex"
	"encoding/pem"
	"errors"
	"fmt"
	"math/rand"
	"os"
	"strconv"
	"strings"
	"sync"
	"sync/atomic"
	"time"

	"github.com/pion/ice/v4"
	"github.com/pion/webrtc/v4"
	"github.com/pion/webrtc/v4/pkg/media"
)

// C14 — DTLS authenticates the peer against the signaled fingerprint.  Op lines: see lean/WebrtcVerif/Drv/C14.lean.

type c14Cert struct {
	der  []byte
	x509 *x509.Certificate
	key  crypto.PrivateKey
	pem  string
}

var (
	c14PoolOnce sync.Once
	c14Pool     []c14Cert
)

func c14Certs() []c14Cert {
	c14PoolOnce.Do(func() {
		for _, p := range c14CertPEMs {
			var cc c14Cert
			cc.pem = p
			rest := []byte(p)
			for {
				var blk *pem.Block
				blk, rest = pem.Decode(rest)
				if blk == nil {
					break
				}
				switch blk.Type {
				case "CERTIFICATE":
					cc.der = blk.Bytes
					c, err := x509.ParseCertificate(blk.Bytes)
					if err != nil {
						panic(err)
					}
					cc.x509 = c
				case "PRIVATE KEY":
					k, err := x509.ParsePKCS8PrivateKey(blk.Bytes)
					if err != nil {
						panic(err)
					}
					cc.key = k
				}
			}
			if cc.der == nil || cc.key == nil {
				panic("c14: bad pool entry")
			}
			c14Pool = append(c14Pool, cc)
		}
	})

	return c14Pool
}

var c14Algos = []string{"md5", "sha-1", "sha-224", "sha-256", "sha-384", "sha-512"}

// c14Digest is computed with Go's crypto packages directly (not through pion's fingerprint package).
func c14Digest(algo int, der []byte) []byte {
	switch algo {
	case 0:
		s := md5.Sum(der) //nolint:gosec

		return s[:]
	case 1:
		s := sha1.Sum(der) //nolint:gosec

		return s[:]
	case 2:
		s := sha256.Sum224(der)

		return s[:]
	case 3:
		s := sha256.Sum256(der)

		return s[:]
	case 4:
		s := sha512.Sum384(der)

		return s[:]
	default:
		s := sha512.Sum512(der)

		return s[:]
	}
}

func c14Render(d []byte) string {
	parts := make([]string, len(d))
	for i, b := range d {
		parts[i] = fmt.Sprintf("%02x", b)
	}

	return strings.Join(parts, ":")
}

func tx(s string) string { return hx([]byte(s)) }

func untx(s string) string { return string(unhx(s)) }

// ---------------------------------------------------------------------------------------------------
// ext / exts

type c14Desc struct {
	sess  [][2]string
	media [][][2]string
}

func (d c14Desc) tokens() string {
	sb := strings.Builder{}
	fmt.Fprintf(&sb, "%d", len(d.sess))
	for _, a := range d.sess {
		fmt.Fprintf(&sb, " %s %s", tx(a[0]), tx(a[1]))
	}
	fmt.Fprintf(&sb, " %d", len(d.media))
	for _, m := range d.media {
		fmt.Fprintf(&sb, " %d", len(m))
		for _, a := range m {
			fmt.Fprintf(&sb, " %s %s", tx(a[0]), tx(a[1]))
		}
	}

	return sb.String()
}

func c14ParseDesc(a []string) (c14Desc, bool) {
	var d c14Desc
	pos := 0
	next := func() (string, bool) {
		if pos >= len(a) {
			return "", false
		}
		pos++

		return a[pos-1], true
	}
	attrs := func() ([][2]string, bool) {
		t, ok := next()
		if !ok {
			return nil, false
		}
		n, err := strconv.Atoi(t)
		if err != nil || n < 0 {
			return nil, false
		}
		out := [][2]string{}
		for i := 0; i < n; i++ {
			k, ok1 := next()
			v, ok2 := next()
			if !ok1 || !ok2 {
				return nil, false
			}
			out = append(out, [2]string{untx(k), untx(v)})
		}

		return out, true
	}
	var ok bool
	if d.sess, ok = attrs(); !ok {
		return d, false
	}
	t, ok := next()
	if !ok {
		return d, false
	}
	nm, err := strconv.Atoi(t)
	if err != nil {
		return d, false
	}
	for i := 0; i < nm; i++ {
		m, ok := attrs()
		if !ok {
			return d, false
		}
		d.media = append(d.media, m)
	}

	return d, pos == len(a)
}

func (d c14Desc) sdpText() string {
	sb := strings.Builder{}
	sb.WriteString("v=0\r\no=- 1 1 IN IP4 0.0.0.0\r\ns=-\r\nt=0 0\r\n")
	line := func(a [2]string) {
		if a[1] == "" {
			fmt.Fprintf(&sb, "a=%s\r\n", a[0])
		} else {
			fmt.Fprintf(&sb, "a=%s:%s\r\n", a[0], a[1])
		}
	}
	for _, a := range d.sess {
		line(a)
	}
	for _, m := range d.media {
		sb.WriteString("m=video 9 UDP/TLS/RTP/SAVPF 96\r\nc=IN IP4 0.0.0.0\r\n")
		for _, a := range m {
			line(a)
		}
	}

	return sb.String()
}

func c14ExtractOut(v, h string, err error) string {
	switch {
	case err == nil:
		return fmt.Sprintf("ok %s %s", tx(v), tx(h))
	case errors.Is(err, webrtc.ErrSessionDescriptionNoFingerprint):
		return "nofp"
	case errors.Is(err, webrtc.ErrSessionDescriptionInvalidFingerprint):
		return "badfp"
	}

	return "err"
}

// c14GenDesc builds a random description; sdpSafe restricts the alphabet to what survives SDP text.
func c14GenDesc(r *rand.Rand, malformed, sdpSafe bool) c14Desc {
	tag := 0
	fpValue := func() string {
		tag++
		good := fmt.Sprintf("sha-256 %02X:%02X:AB", r.Intn(256), tag)
		if !malformed || r.Intn(3) != 0 {
			if r.Intn(12) == 0 {
				return ""
			}

			return good
		}
		opts := []string{"", "sha-256", "sha-256  AA:BB", "sha-256 AA:BB ", " sha-256 AA", "sha-256 AA BB", " ", "x y",
			"sha-256\tAA", "ſha-256 AA", "a b c d"}
		if sdpSafe {
			opts = []string{"", "sha-256", "sha-256  AA:BB", "sha-256 AA BB", "x y", "a b c d", "sha-256:AA"}
		}

		return opts[r.Intn(len(opts))]
	}
	noise := func() [2]string {
		ks := [][2]string{{"ice-ufrag", "abcd"}, {"ice-pwd", "pw"}, {"setup", "actpass"}, {"sendrecv", ""},
			{"msid-semantic", " WMS"}, {"rtcp-mux", ""}, {"Fingerprint", "sha-256 FF:FF"}, {"fingerprints", "sha-256 EE"},
			{"MID", "0"}, {"extmap-allow-mixed", ""}}

		return ks[r.Intn(len(ks))]
	}
	var d c14Desc
	mids := []string{"0", "1", "2", "audio", "0", "BUNDLE"}
	groups := []string{"BUNDLE 0 1", "BUNDLE 1", "BUNDLE 1 0", "BUNDLE 2", "BUNDLE", "BUNDLE ", "LS 0 1", "FID BUNDLE", "BUNDLE audio",
		"LS BUNDLE 0", "BUNDLE  0", "bundle 0", "BUNDLE 7", "", "BUNDLE BUNDLE"}
	if sdpSafe {
		groups = []string{"BUNDLE 0 1", "BUNDLE 1", "BUNDLE 1 0", "BUNDLE 2", "BUNDLE", "LS 0 1", "FID BUNDLE", "BUNDLE audio",
			"LS BUNDLE 0", "BUNDLE  0", "bundle 0", "BUNDLE 7", "BUNDLE BUNDLE"}
	}
	// session level
	for k := r.Intn(3); k > 0; k-- {
		d.sess = append(d.sess, noise())
	}
	ng := 0
	switch r.Intn(10) {
	case 0, 1, 2:
	case 9:
		ng = 2
	default:
		ng = 1
	}
	for i := 0; i < ng; i++ {
		g := groups[r.Intn(len(groups))]
		if !malformed && r.Intn(3) != 0 {
			g = groups[r.Intn(4)]
		}
		d.sess = append(d.sess, [2]string{"group", g})
	}
	nsf := 0
	switch r.Intn(10) {
	case 0, 1, 2, 3:
		nsf = 1
	case 4:
		nsf = 2
	}
	for i := 0; i < nsf; i++ {
		d.sess = append(d.sess, [2]string{"fingerprint", fpValue()})
		if r.Intn(3) == 0 {
			d.sess = append(d.sess, noise())
		}
	}
	if r.Intn(2) == 0 { // order of group and fingerprint must not matter
		r.Shuffle(len(d.sess), func(i, j int) { d.sess[i], d.sess[j] = d.sess[j], d.sess[i] })
	}
	nm := r.Intn(5)
	for i := 0; i < nm; i++ {
		m := [][2]string{}
		if r.Intn(8) != 0 {
			mid := strconv.Itoa(i)
			if r.Intn(4) == 0 {
				mid = mids[r.Intn(len(mids))]
			}
			m = append(m, [2]string{"mid", mid})
		}
		for k := r.Intn(3); k > 0; k-- {
			m = append(m, noise())
		}
		switch r.Intn(6) {
		case 0, 1:
		case 2:
			m = append(m, [2]string{"fingerprint", fpValue()}, [2]string{"fingerprint", fpValue()})
		default:
			m = append(m, [2]string{"fingerprint", fpValue()})
		}
		if r.Intn(3) == 0 {
			r.Shuffle(len(m), func(i, j int) { m[i], m[j] = m[j], m[i] })
		}
		d.media = append(d.media, m)
	}

	return d
}

// ---------------------------------------------------------------------------------------------------
// val

func c14CertTok(k int) string { return "c" + strconv.Itoa(k) }

func c14DigestToks(der []byte) string {
	t := make([]string, 6)
	for i := range t {
		t[i] = hex.EncodeToString(c14Digest(i, der))
	}

	return strings.Join(t, " ")
}

type c14Fp struct{ algo, value string }

func c14ValOp(disabled bool, cert string, der []byte, fps []c14Fp) string {
	sb := strings.Builder{}
	fmt.Fprintf(&sb, "val %s %s %s %d", b2s(disabled), cert, c14DigestToks(der), len(fps))
	for _, f := range fps {
		fmt.Fprintf(&sb, " %s %s", tx(f.algo), tx(f.value))
	}

	return sb.String()
}

func c14NextHex(c byte) byte {
	switch {
	case c == '9':
		return 'A'
	case c == 'F':
		return '0'
	case c == 'f':
		return '0'
	}

	return c + 1
}

// c14AlterDigit replaces the i-th hex digit (colons not counted) by the next hex digit.
func c14AlterDigit(v string, i int) string {
	pos := i + i/2
	if pos >= len(v) {
		return v
	}
	b := []byte(v)
	b[pos] = c14NextHex(b[pos])

	return string(b)
}

func c14MixCase(r *rand.Rand, s string) string {
	b := []byte(s)
	for i := range b {
		if r.Intn(2) == 0 {
			b[i] = strings.ToUpper(string(b[i]))[0]
		} else {
			b[i] = strings.ToLower(string(b[i]))[0]
		}
	}

	return string(b)
}

func c14GenVal(c *Ctx) {
	r := c.Rng
	pool := c14Certs()
	badNames := []string{"", "sha256", "sha-256 ", " sha-256", "sha_256", "SHA-2", "sha-3", "sha-999", "md-5", "sha1", "ſha-256",
		"sha-256\x00", "sha-25K", "sha-256k", "sha‐256"}
	for k, pc := range pool {
		tok := c14CertTok(k)
		der := pc.der
		val := func(a int) string { return c14Render(c14Digest(a, der)) }
		dis := func() bool { return r.Intn(8) == 0 }
		// correct value under every name, three spellings
		for a, name := range c14Algos {
			c.Emit("%s", c14ValOp(false, tok, der, []c14Fp{{name, val(a)}}))
			c.Emit("%s", c14ValOp(false, tok, der, []c14Fp{{strings.ToUpper(name), strings.ToUpper(val(a))}}))
			c.Emit("%s", c14ValOp(dis(), tok, der, []c14Fp{{c14MixCase(r, name), c14MixCase(r, val(a))}}))
		}
		// every hex digit of the sha-256 value altered, one at a time (all certificates in thorough, two in quick)
		if c.Thorough() || k == int(c.Seed)%len(pool) || k == (int(c.Seed)+2)%len(pool) {
			up := strings.ToUpper(val(3))
			for i := 0; i < 64; i++ {
				c.Emit("%s", c14ValOp(false, tok, der, []c14Fp{{"sha-256", c14AlterDigit(up, i)}}))
			}
			for i := 0; i < 64; i += 1 + r.Intn(8) {
				c.Emit("%s", c14ValOp(true, tok, der, []c14Fp{{"sha-256", c14AlterDigit(up, i)}}))
			}
		}
		for n := 0; n < c.N(12, 120); n++ { // random digit of a random algorithm, random replacement character
			a := r.Intn(6)
			v := []byte(val(a))
			pos := r.Intn(len(v))
			repl := "0123456789abcdefABCDEF:gG kKſ"
			rs := []rune(repl)
			nv := string(v[:pos]) + string(rs[r.Intn(len(rs))]) + string(v[pos+1:])
			c.Emit("%s", c14ValOp(dis(), tok, der, []c14Fp{{c14Algos[a], nv}}))
		}
		// the sha-256 value under other names, known and unknown
		for a, name := range c14Algos {
			if a != 3 {
				c.Emit("%s", c14ValOp(false, tok, der, []c14Fp{{name, val(3)}}))
				c.Emit("%s", c14ValOp(false, tok, der, []c14Fp{{"sha-256", val(a)}}))
			}
		}
		for _, name := range badNames {
			c.Emit("%s", c14ValOp(dis(), tok, der, []c14Fp{{name, val(3)}}))
		}
		// shape variations of the value
		v := val(3)
		for _, nv := range []string{"", v[:len(v)-1], v[:len(v)-3], v + ":00", v + " ", " " + v, strings.ReplaceAll(v, ":", ""),
			strings.ReplaceAll(v, ":", "-"), v[3:], strings.Repeat("00:", 31) + "00", v + "\n", strings.ToUpper(v)[:47] + v[47:]} {
			c.Emit("%s", c14ValOp(dis(), tok, der, []c14Fp{{"sha-256", nv}}))
		}
		// lists
		wrong := c14AlterDigit(v, r.Intn(64))
		other := c14Render(c14Digest(3, pool[(k+1)%len(pool)].der))
		lists := [][]c14Fp{
			{},
			{{"sha-256", wrong}, {"sha-256", v}},
			{{"sha-256", v}, {"sha-256", wrong}},
			{{"sha-1", val(1)}, {"sha-256", wrong}},
			{{"sha-1", wrong}, {"sha-512", val(5)}},
			{{"bogus", v}, {"sha-256", v}},
			{{"sha-256", v}, {"bogus", v}},
			{{"sha-256", wrong}, {"bogus", v}, {"sha-256", v}},
			{{"sha-256", other}},
			{{"sha-256", other}, {"sha-384", c14Render(c14Digest(4, pool[(k+1)%len(pool)].der))}},
			{{"sha-256", wrong}, {"sha-256", other}, {"md5", val(0)}},
		}
		for _, l := range lists {
			c.Emit("%s", c14ValOp(false, tok, der, l))
			if r.Intn(3) == 0 {
				c.Emit("%s", c14ValOp(true, tok, der, l))
			}
		}
		// no certificate / bytes that are not a certificate
		c.Emit("%s", c14ValOp(dis(), "none", der, []c14Fp{{"sha-256", v}}))
		c.Emit("%s", c14ValOp(true, "none", der, nil))
		for _, cut := range []int{0, 1, len(der) / 2, len(der) - 1} {
			g := der[:cut]
			c.Emit("%s", c14ValOp(false, "x"+hx(g), g, []c14Fp{{"sha-256", c14Render(c14Digest(3, g))}}))
			c.Emit("%s", c14ValOp(true, "x"+hx(g), g, []c14Fp{{"sha-256", wrong}}))
		}
		g := append([]byte{}, der...)
		g[0] ^= 0x01
		c.Emit("%s", c14ValOp(false, "x"+hx(g), g, []c14Fp{{"sha-256", c14Render(c14Digest(3, g))}}))
	}
}

func c14ExecVal(a []string) string {
	if len(a) < 10 {
		return "bad-op"
	}
	disabled := a[1] == "1"
	var raw [][]byte
	switch {
	case a[2] == "none":
	case strings.HasPrefix(a[2], "x"):
		b := unhx(a[2][1:])
		if a[2] == "x-" || len(b) == 0 {
			b = []byte{}
		}
		raw = [][]byte{b}
	case strings.HasPrefix(a[2], "c"):
		k, err := strconv.Atoi(a[2][1:])
		if err != nil || k < 0 || k >= len(c14Certs()) {
			return "bad-op"
		}
		raw = [][]byte{c14Certs()[k].der}
	default:
		return "bad-op"
	}
	n, err := strconv.Atoi(a[9])
	if err != nil || len(a) != 10+2*n {
		return "bad-op"
	}
	fps := []webrtc.DTLSFingerprint{}
	for i := 0; i < n; i++ {
		fps = append(fps, webrtc.DTLSFingerprint{Algorithm: untx(a[10+2*i]), Value: untx(a[11+2*i])})
	}
	class, rec := webrtc.VerifVerifyPeerCertificate(raw, fps, disabled)
	if class == "" {
		class = "ok"
	}
	recOK := len(raw) > 0 && rec != nil && string(rec) == string(raw[0])
	// only the leaf (rawCerts[0]) authenticates the peer: appending the expected peer's certificate to
	// another leaf must not change the verdict for that leaf
	chain := "ok"
	if strings.HasPrefix(a[2], "c") {
		k, _ := strconv.Atoi(a[2][1:])
		certs := c14Certs()
		j := (k + 1) % len(certs)
		alone, _ := webrtc.VerifVerifyPeerCertificate([][]byte{certs[j].der}, fps, disabled)
		withTail, _ := webrtc.VerifVerifyPeerCertificate([][]byte{certs[j].der, certs[k].der}, fps, disabled)
		if alone != withTail {
			chain = "bad"
		}
	}

	return fmt.Sprintf("%s rec=%s chain=%s", class, b2s(recOK), chain)
}

// ---------------------------------------------------------------------------------------------------
// gfp / adv

func c14PoolCertificate(k int, viaX509 bool) (webrtc.Certificate, error) {
	pc := c14Certs()[k]
	if viaX509 {
		return webrtc.CertificateFromX509(pc.key, pc.x509), nil
	}
	c, err := webrtc.CertificateFromPEM(pc.pem)
	if err != nil {
		return webrtc.Certificate{}, err
	}

	return *c, nil
}

func c14ExecGfp(a []string) string {
	if len(a) != 3 || !strings.HasPrefix(a[1], "c") {
		return "bad-op"
	}
	k, err := strconv.Atoi(a[1][1:])
	if err != nil || k < 0 || k >= len(c14Certs()) {
		return "bad-op"
	}
	out := ""
	for _, via := range []bool{false, true} {
		cert, err := c14PoolCertificate(k, via)
		if err != nil {
			return "err"
		}
		fps, err := cert.GetFingerprints()
		if err != nil {
			return "err"
		}
		s := strconv.Itoa(len(fps))
		for _, f := range fps {
			s += " " + tx(f.Algorithm) + " " + tx(f.Value)
		}
		if out != "" && out != s {
			return "pem-x509-differ " + out + " | " + s
		}
		out = s
	}

	return out
}

// c14SDPFingerprints returns the a=fingerprint values of the session part and of every m-section.
func c14SDPFingerprints(sdp string) (sess []string, media [][]string) {
	cur := -1
	for _, l := range strings.Split(strings.ReplaceAll(sdp, "\r\n", "\n"), "\n") {
		if strings.HasPrefix(l, "m=") {
			cur++
			media = append(media, nil)

			continue
		}
		if v, ok := strings.CutPrefix(l, "a=fingerprint:"); ok {
			if cur < 0 {
				sess = append(sess, v)
			} else {
				media[cur] = append(media[cur], v)
			}
		}
	}

	return sess, media
}

func c14AdvertisedOK(sdp string, presentedDER []byte) bool {
	// hash name and hex digits are compared without regard to case (the property says "equals the SHA-256 fingerprint")
	want := "sha-256 " + c14Render(c14Digest(3, presentedDER))
	sess, med := c14SDPFingerprints(sdp)
	n := 0
	for _, v := range sess {
		n++
		if strings.ToLower(v) != want {
			return false
		}
	}
	for _, m := range med {
		for _, v := range m {
			n++
			if strings.ToLower(v) != want {
				return false
			}
		}
	}

	return n > 0
}

func c14API(disabled, mediaLevel bool) *webrtc.API {
	se := webrtc.SettingEngine{}
	se.SetIncludeLoopbackCandidate(true)
	se.SetInterfaceFilter(func(name string) bool { return name == "lo" })
	se.SetNetworkTypes([]webrtc.NetworkType{webrtc.NetworkTypeUDP4})
	se.SetICEMulticastDNSMode(ice.MulticastDNSModeDisabled)
	se.DisableCertificateFingerprintVerification(disabled)
	se.SetSDPMediaLevelFingerprints(mediaLevel)

	return webrtc.NewAPI(webrtc.WithSettingEngine(se))
}

func c14ParseCfg(cfg string) ([]webrtc.Certificate, []int, bool) {
	if cfg == "gen" {
		return nil, nil, true
	}
	certs := []webrtc.Certificate{}
	idx := []int{}
	for i, t := range strings.Split(cfg, ",") {
		if !strings.HasPrefix(t, "c") {
			return nil, nil, false
		}
		k, err := strconv.Atoi(t[1:])
		if err != nil || k < 0 || k >= len(c14Certs()) {
			return nil, nil, false
		}
		c, err := c14PoolCertificate(k, (k+i)%2 == 1)
		if err != nil {
			return nil, nil, false
		}
		certs = append(certs, c)
		idx = append(idx, k)
	}

	return certs, idx, true
}

func c14ExecAdv(a []string) string {
	if len(a) != 3 {
		return "bad-op"
	}
	certs, idx, ok := c14ParseCfg(a[1])
	if !ok {
		return "bad-op"
	}
	pc, err := c14API(false, a[2] == "1").NewPeerConnection(webrtc.Configuration{Certificates: certs})
	if err != nil {
		return "err-new"
	}
	defer pc.Close() //nolint:errcheck
	if _, err = pc.AddTransceiverFromKind(webrtc.RTPCodecTypeVideo); err != nil {
		return "err-transceiver"
	}
	if _, err = pc.CreateDataChannel("d", nil); err != nil {
		return "err-dc"
	}
	// SetConfiguration with the same certificates must not disturb anything; with other ones it must fail
	if len(certs) > 0 {
		if err = pc.SetConfiguration(webrtc.Configuration{Certificates: certs}); err != nil {
			return "err-setconfiguration-same"
		}
		other, _ := c14PoolCertificate((idx[0]+1)%len(c14Certs()), false)
		repl := append([]webrtc.Certificate{other}, certs[1:]...)
		if err = pc.SetConfiguration(webrtc.Configuration{Certificates: repl}); err == nil {
			return "err-setconfiguration-other-accepted"
		}
	}
	offer, err := pc.CreateOffer(nil)
	if err != nil {
		return "err-offer"
	}
	presented := webrtc.VerifPresentedCertificate(pc)
	sess, med := c14SDPFingerprints(offer.SDP)
	nm := 0
	for _, m := range med {
		if len(m) > 0 {
			nm++
		}
	}
	first := "na"
	if len(idx) > 0 {
		first = b2s(string(presented) == string(c14Certs()[idx[0]].der))
	}

	// the answer path (generateMatchedSDP) has its own GetFingerprints call: answer an offer of a plain peer
	aeq := "err"
	remote, err := c14API(false, false).NewPeerConnection(webrtc.Configuration{})
	if err == nil {
		defer remote.Close() //nolint:errcheck
		subject, serr := c14API(false, a[2] == "1").NewPeerConnection(webrtc.Configuration{Certificates: certs})
		if serr == nil {
			defer subject.Close() //nolint:errcheck
			_, _ = remote.AddTransceiverFromKind(webrtc.RTPCodecTypeVideo)
			_, _ = remote.CreateDataChannel("d", nil)
			if ro, e := remote.CreateOffer(nil); e == nil {
				if e = subject.SetRemoteDescription(ro); e == nil {
					if ans, e2 := subject.CreateAnswer(nil); e2 == nil {
						aeq = b2s(c14AdvertisedOK(ans.SDP, webrtc.VerifPresentedCertificate(subject)))
					}
				}
			}
		}
	}

	return fmt.Sprintf("s=%d m=%d/%d eq=%s first=%s aeq=%s", len(sess), nm, len(med), b2s(c14AdvertisedOK(offer.SDP, presented)),
		first, aeq)
}

// ---------------------------------------------------------------------------------------------------
// e2e

// c14Matches: does the DER match an a=fingerprint value ("<hash> <hex>"), judged with Go's crypto directly.
func c14Matches(der []byte, v string) bool {
	parts := strings.Split(v, " ")
	if len(parts) != 2 {
		return false
	}
	for i, n := range c14Algos {
		if strings.ToLower(parts[0]) == n {
			return strings.ToLower(parts[1]) == c14Render(c14Digest(i, der))
		}
	}

	return false
}

// c14Rewrite replaces the fingerprint lines of an SDP by the given session-level and per-section values.
func c14Rewrite(sdp string, sess []string, media [][]string) string {
	lines := strings.Split(strings.TrimSuffix(sdp, "\r\n"), "\r\n")
	out := []string{}
	cur := -1
	flush := func() {
		if cur >= 0 && cur < len(media) {
			for _, v := range media[cur] {
				out = append(out, "a=fingerprint:"+v)
			}
		}
	}
	for _, l := range lines {
		if strings.HasPrefix(l, "a=fingerprint:") {
			continue
		}
		if strings.HasPrefix(l, "m=") {
			if cur < 0 {
				for _, v := range sess {
					out = append(out, "a=fingerprint:"+v)
				}
			} else {
				flush()
			}
			cur++
		}
		out = append(out, l)
	}
	flush()

	return strings.Join(out, "\r\n") + "\r\n"
}

// c14Variant computes the fingerprint lines the victim will see.
func c14Variant(variant, param string, attackerDER []byte, attackerTok string) (sess []string, med [][]string, ok bool) {
	good := strings.ToUpper(c14Render(c14Digest(3, attackerDER)))
	name := "sha-256"
	bad := c14AlterDigit(good, 5)
	fp := func(n, v string) string { return n + " " + v }
	med = [][]string{nil, nil}
	switch variant {
	case "ok":
		sess = []string{fp(name, good)}
	case "lower":
		sess = []string{fp(strings.ToUpper(name), strings.ToLower(good))}
	case "digit":
		i, err := strconv.Atoi(param)
		if err != nil || i < 0 || i > 63 {
			return nil, nil, false
		}
		sess = []string{fp(name, c14AlterDigit(good, i))}
	case "name":
		sess = []string{fp(untx(param), good)}
	case "hashok":
		n := untx(param)
		found := false
		for i, an := range c14Algos {
			if strings.ToLower(n) == an {
				sess = []string{fp(n, strings.ToUpper(c14Render(c14Digest(i, attackerDER))))}
				found = true
			}
		}
		if !found {
			return nil, nil, false
		}
	case "absent":
	case "media":
		med = [][]string{{fp(name, good)}, {fp(name, good)}}
	case "mediamaster":
		med = [][]string{{fp(name, good)}, nil}
	case "mediaother":
		med = [][]string{nil, {fp(name, good)}}
	case "sesswrong":
		sess = []string{fp(name, bad)}
		med = [][]string{{fp(name, good)}, {fp(name, good)}}
	case "mediawrong":
		sess = []string{fp(name, good)}
		med = [][]string{{fp(name, bad)}, {fp(name, bad)}}
	case "twofirstwrong":
		sess = []string{fp(name, bad), fp(name, good)}
	case "othercert":
		k := 3
		if attackerTok == "c3" {
			k = 0
		}
		sess = []string{fp(name, strings.ToUpper(c14Render(c14Digest(3, c14Certs()[k].der))))}
	case "nospace":
		sess = []string{name + good}
	case "asis": // handled by the caller: nothing is rewritten
	default:
		return nil, nil, false
	}

	return sess, med, true
}

type c14Obs struct {
	dtlsConn, dtlsFail, pcConn, pcFail, open, msg, track atomic.Bool
}

// c14Deadline bounds every wait of an end-to-end case; VERIF_C14_DEADLINE_MS overrides it (used to exercise the
// `inconclusive` path).
var c14Deadline = func() time.Duration {
	if ms, err := strconv.Atoi(os.Getenv("VERIF_C14_DEADLINE_MS")); err == nil && ms > 0 {
		return time.Duration(ms) * time.Millisecond
	}

	return 15 * time.Second
}()

//nolint:gocyclo,cyclop,maintidx
func c14ExecE2E(a []string) string {
	if len(a) < 5 || len(a) > 6 {
		return "bad-op"
	}
	victim, certTok, disabled, variant := a[1], a[2], a[3] == "1", a[4]
	param := ""
	if len(a) == 6 {
		param = a[5]
	}
	if victim != "o" && victim != "a" {
		return "bad-op"
	}
	attackerCerts, _, ok := c14ParseCfg(certTok)
	if !ok {
		return "bad-op"
	}
	// the victim verifies (or not) the attacker's certificate; the attacker always verifies normally
	mk := func(isVictim bool) (*webrtc.PeerConnection, error) {
		cfg := webrtc.Configuration{}
		if !isVictim {
			cfg.Certificates = attackerCerts
		}

		return c14API(isVictim && disabled, variant == "asis" && param == "1").NewPeerConnection(cfg)
	}
	offerer, err := mk(victim == "o")
	if err != nil {
		return "inconclusive new-pc " + err.Error()
	}
	answerer, err := mk(victim == "a")
	if err != nil {
		_ = offerer.Close()

		return "inconclusive new-pc " + err.Error()
	}
	done := make(chan struct{})
	defer func() {
		close(done)
		go offerer.Close()  //nolint:errcheck
		go answerer.Close() //nolint:errcheck
	}()
	vic, att := offerer, answerer
	if victim == "a" {
		vic, att = answerer, offerer
	}
	obs := &c14Obs{}
	change := make(chan struct{}, 64)
	note := func() {
		select {
		case change <- struct{}{}:
		default:
		}
	}
	vic.SCTP().Transport().OnStateChange(func(s webrtc.DTLSTransportState) {
		switch s { //nolint:exhaustive
		case webrtc.DTLSTransportStateConnected:
			obs.dtlsConn.Store(true)
		case webrtc.DTLSTransportStateFailed:
			obs.dtlsFail.Store(true)
		}
		note()
	})
	vic.OnConnectionStateChange(func(s webrtc.PeerConnectionState) {
		switch s { //nolint:exhaustive
		case webrtc.PeerConnectionStateConnected:
			obs.pcConn.Store(true)
		case webrtc.PeerConnectionStateFailed:
			obs.pcFail.Store(true)
		}
		note()
	})
	vic.OnTrack(func(t *webrtc.TrackRemote, _ *webrtc.RTPReceiver) {
		obs.track.Store(true)
		note()
	})
	wire := func(dc *webrtc.DataChannel, isVictim bool) {
		dc.OnOpen(func() {
			if isVictim {
				obs.open.Store(true)
				note()
			}
			_ = dc.SendText("hello")
		})
		dc.OnMessage(func(webrtc.DataChannelMessage) {
			if isVictim {
				obs.msg.Store(true)
				note()
			}
		})
	}
	// both sides send video; only the victim's reception is observed
	for _, pc := range []*webrtc.PeerConnection{offerer, answerer} {
		track, terr := webrtc.NewTrackLocalStaticSample(webrtc.RTPCodecCapability{MimeType: webrtc.MimeTypeVP8}, "video", "verif")
		if terr != nil {
			return "inconclusive track"
		}
		if _, terr = pc.AddTrack(track); terr != nil {
			return "inconclusive addtrack"
		}
		go func() {
			tk := time.NewTicker(20 * time.Millisecond)
			defer tk.Stop()
			for {
				select {
				case <-done:
					return
				case <-tk.C:
					_ = track.WriteSample(media.Sample{Data: []byte{0x10, 0x00, 0x00, 0x9d, 0x01, 0x2a, 1, 0, 1, 0}, Duration: 20 * time.Millisecond})
				}
			}
		}()
	}
	odc, err := offerer.CreateDataChannel("d", nil)
	if err != nil {
		return "inconclusive dc"
	}
	wire(odc, victim == "o")
	answerer.OnDataChannel(func(dc *webrtc.DataChannel) { wire(dc, victim == "a") })

	attackerDER := webrtc.VerifPresentedCertificate(att)
	sessFp, medFp, ok := c14Variant(variant, param, attackerDER, certTok)
	if !ok {
		return "bad-op"
	}
	appliedSDP := ""
	localSDP := map[*webrtc.PeerConnection]string{}
	negotiate := func() (string, error) {
		offer, e := offerer.CreateOffer(nil)
		if e != nil {
			return "", e
		}
		g := webrtc.GatheringCompletePromise(offerer)
		if e = offerer.SetLocalDescription(offer); e != nil {
			return "", e
		}
		select {
		case <-g:
		case <-time.After(c14Deadline):
			return "inconclusive", nil
		}
		osdp := offerer.LocalDescription().SDP
		localSDP[offerer] = osdp
		if victim == "a" && variant != "asis" {
			osdp = c14Rewrite(osdp, sessFp, medFp)
		}
		if victim == "a" {
			appliedSDP = osdp
		}
		if e = answerer.SetRemoteDescription(webrtc.SessionDescription{Type: webrtc.SDPTypeOffer, SDP: osdp}); e != nil {
			if victim == "a" {
				return "srd", e
			}

			return "", e
		}
		answer, e := answerer.CreateAnswer(nil)
		if e != nil {
			return "", e
		}
		g = webrtc.GatheringCompletePromise(answerer)
		if e = answerer.SetLocalDescription(answer); e != nil {
			return "", e
		}
		select {
		case <-g:
		case <-time.After(c14Deadline):
			return "inconclusive", nil
		}
		asdp := answerer.LocalDescription().SDP
		localSDP[answerer] = asdp
		if victim == "o" && variant != "asis" {
			asdp = c14Rewrite(asdp, sessFp, medFp)
		}
		if victim == "o" {
			appliedSDP = asdp
		}
		if e = offerer.SetRemoteDescription(webrtc.SessionDescription{Type: webrtc.SDPTypeAnswer, SDP: asdp}); e != nil {
			if victim == "o" {
				return "srd", e
			}

			return "", e
		}

		return "ok", nil
	}
	stage, nerr := negotiate()
	srd := "ok"
	switch {
	case stage == "inconclusive":
		return "inconclusive gathering"
	case stage == "srd" && errors.Is(nerr, webrtc.ErrSessionDescriptionNoFingerprint):
		srd = "nofp"
	case stage == "srd" && errors.Is(nerr, webrtc.ErrSessionDescriptionInvalidFingerprint):
		srd = "badfp"
	case nerr != nil:
		return "inconclusive negotiate " + strings.ReplaceAll(nerr.Error(), " ", "_")
	}

	// m: does the attacker's certificate match any a=fingerprint of the description the victim was given
	m := false
	as, am := c14SDPFingerprints(appliedSDP)
	for _, v := range as {
		m = m || c14Matches(attackerDER, v)
	}
	for _, mm := range am {
		for _, v := range mm {
			m = m || c14Matches(attackerDER, v)
		}
	}

	grace := 300 * time.Millisecond
	deadline := time.After(c14Deadline)
	if srd != "ok" {
		// the victim refused the description: nothing may happen on it; give the other side a moment
		time.Sleep(grace)
	} else {
	wait:
		for {
			switch {
			case obs.dtlsFail.Load() || obs.pcFail.Load():
				time.Sleep(grace)

				break wait
			case obs.dtlsConn.Load() && obs.pcConn.Load() && obs.open.Load() && obs.msg.Load() && obs.track.Load():
				break wait
			}
			select {
			case <-change:
			case <-time.After(50 * time.Millisecond):
			case <-deadline:
				if !disabled && !m && (obs.dtlsConn.Load() || obs.pcConn.Load() || obs.open.Load() || obs.msg.Load() || obs.track.Load()) {
					// a positive observation is conclusive even if the remaining events did not arrive in time
					break wait
				}

				return fmt.Sprintf("inconclusive timeout dtlsconn=%s pcconn=%s open=%s msg=%s track=%s", b2s(obs.dtlsConn.Load()),
					b2s(obs.pcConn.Load()), b2s(obs.open.Load()), b2s(obs.msg.Load()), b2s(obs.track.Load()))
			}
		}
	}

	// advertised versus presented, wherever a side saw the other's certificate on the wire
	adv := true
	for _, pr := range [][2]*webrtc.PeerConnection{{offerer, answerer}, {answerer, offerer}} {
		self, peer := pr[0], pr[1]
		seen := peer.SCTP().Transport().GetRemoteCertificate()
		if len(seen) == 0 {
			continue
		}
		if sdp, have := localSDP[self]; have && !c14AdvertisedOK(sdp, seen) {
			adv = false
		}
		if string(seen) != string(webrtc.VerifPresentedCertificate(self)) {
			adv = false
		}
	}

	return fmt.Sprintf("srd=%s m=%s dtlsconn=%s dtlsfail=%s pcconn=%s open=%s msg=%s track=%s adv=%s", srd, b2s(m),
		b2s(obs.dtlsConn.Load()), b2s(obs.dtlsFail.Load()), b2s(obs.pcConn.Load()), b2s(obs.open.Load()), b2s(obs.msg.Load()),
		b2s(obs.track.Load()), b2s(adv))
}

func c14GenE2E(c *Ctx) {
	r := c.Rng
	certs := []string{"gen", "c0", "c1", "c2", "c3", "c4", "c2,c0", "c1,c4,c3"}
	cert := func() string { return certs[r.Intn(len(certs))] }
	vict := func() string { return []string{"o", "a"}[r.Intn(2)] }
	if !c.Thorough() {
		// six connections: one honest, two altered digits (either side), another hash name, absent, disabled bypass
		c.Emit("e2e %s %s 0 ok", vict(), cert())
		c.Emit("e2e a %s 0 digit %d", cert(), r.Intn(64))
		c.Emit("e2e o %s 0 digit %d", cert(), r.Intn(64))
		c.Emit("e2e %s %s 0 name %s", vict(), cert(), tx([]string{"sha-1", "sha-384", "sha-512", "md5"}[r.Intn(4)]))
		c.Emit("e2e %s %s 0 absent", vict(), cert())
		c.Emit("e2e %s %s 1 digit %d", vict(), cert(), r.Intn(64))

		return
	}
	for _, v := range []string{"o", "a"} {
		for _, ct := range certs {
			c.Emit("e2e %s %s 0 ok", v, ct)
			c.Emit("e2e %s %s 0 digit %d", v, ct, r.Intn(64))
		}
		for i := 0; i < 64; i++ { // every hex digit of the sha-256 value
			c.Emit("e2e %s %s 0 digit %d", v, cert(), i)
		}
		c.Emit("e2e %s %s 0 asis 0", v, cert())
		c.Emit("e2e %s %s 0 asis 1", v, cert())
		c.Emit("e2e %s %s 1 asis 1", v, cert())
		for _, n := range []string{"sha-1", "sha-224", "sha-384", "sha-512", "md5", "sha-999", "SHA-256", ""} {
			c.Emit("e2e %s %s 0 name %s", v, cert(), tx(n))
		}
		for _, n := range []string{"sha-1", "sha-384", "SHA-512", "md5"} {
			c.Emit("e2e %s %s 0 hashok %s", v, cert(), tx(n))
		}
		for _, va := range []string{"lower", "absent", "media", "mediamaster", "mediaother", "sesswrong", "mediawrong", "twofirstwrong",
			"othercert", "nospace"} {
			c.Emit("e2e %s %s 0 %s", v, cert(), va)
		}
		// verification disabled
		c.Emit("e2e %s %s 1 ok", v, cert())
		c.Emit("e2e %s %s 1 digit %d", v, cert(), r.Intn(64))
		c.Emit("e2e %s %s 1 othercert", v, cert())
		c.Emit("e2e %s %s 1 absent", v, cert())
		c.Emit("e2e %s %s 1 name %s", v, cert(), tx("sha-999"))
		c.Emit("e2e %s %s 1 sesswrong", v, cert())
	}
}

func init() {
	registry["C14"] = &Prop{
		Workers: 8,
		Timeout: 60 * time.Second,
		Rule: "ext/exts: seeded random descriptions (0..4 m-sections; session/media fingerprints present, empty, duplicated, " +
			"malformed; first a=group attribute BUNDLE/LS/absent/odd; duplicate or missing mids; attribute order shuffled) through " +
			"extractFingerprint, built directly (ext) and through SDP text + pion/sdp (exts). val: the real VerifyPeerCertificate " +
			"callback on 5 fixed certificates (ECDSA P-256/P-384, RSA-2048/3072; loaded through CertificateFromPEM/FromX509) with " +
			"fingerprints: correct under all six hash names in three spellings, every one of the 64 hex digits of the sha-256 value " +
			"altered, random character replacements, the sha-256 value under other/unknown names, truncated/extended/re-punctuated " +
			"values, lists (empty, wrong+right, unknown name before/after a match, other certificate), no certificate, non-parsing " +
			"bytes, verification disabled. gfp/adv: GetFingerprints and the offer of a fresh PeerConnection versus SHA-256 (crypto/" +
			"sha256) of the certificate prepareStart presents. e2e: two pion PeerConnections over loopback (video track + data " +
			"channel both ways), the victim's remote description rewritten per variant; quick = 6 connections, thorough ≈ 250 (every hex digit position on either side). " +
			"A connection that hits the 15 s wall-clock limit is reported `inconclusive` and not judged. Non-trivial: distinct op " +
			"lines except ext/exts cases without any fingerprint attribute.",
		Gen: func(c *Ctx) {
			c14GenE2E(c) // first: they take wall-clock time and run beside the pure cases
			r := c.Rng
			for i := 0; i < c.N(1500, 40000); i++ {
				d := c14GenDesc(r, i%4 == 3, false)
				c.Emit("ext %s", d.tokens())
			}
			for i := 0; i < c.N(400, 8000); i++ {
				d := c14GenDesc(r, i%4 == 3, true)
				c.Emit("exts %s", d.tokens())
			}
			c14GenVal(c)
			for k := range c14Certs() {
				c.Emit("gfp c%d %s", k, hex.EncodeToString(c14Digest(3, c14Certs()[k].der)))
			}
			for _, cfg := range []string{"gen", "c0", "c1", "c2", "c3", "c4", "c2,c0", "c1,c3", "c0,c1,c2"} {
				c.Emit("adv %s 0", cfg)
				c.Emit("adv %s 1", cfg)
			}
		},
		Exec: func(a []string) string {
			switch a[0] {
			case "ext":
				d, ok := c14ParseDesc(a[1:])
				if !ok {
					return "bad-op"
				}

				return c14ExtractOut(webrtc.VerifExtractFingerprint(d.sess, d.media))
			case "exts":
				d, ok := c14ParseDesc(a[1:])
				if !ok {
					return "bad-op"
				}
				v, h, err, perr := webrtc.VerifExtractFingerprintSDP(d.sdpText())
				if perr != nil {
					return "parse-error"
				}

				return c14ExtractOut(v, h, err)
			case "val":
				return c14ExecVal(a)
			case "gfp":
				return c14ExecGfp(a)
			case "adv":
				return c14ExecAdv(a)
			case "e2e":
				return c14ExecE2E(a)
			}

			return "bad-op"
		},
		Class: func(a []string, out string) string {
			f := strings.Fields(out)
			if len(f) == 0 {
				return a[0] + " ?"
			}
			switch a[0] {
			case "ext", "exts":
				return a[0] + "→" + f[0]
			case "val":
				kind := "cert"
				if a[2] == "none" {
					kind = "nocert"
				} else if strings.HasPrefix(a[2], "x") {
					kind = "garbage"
				}

				return fmt.Sprintf("val %s disabled=%s→%s", kind, a[1], f[0])
			case "e2e":
				if f[0] == "inconclusive" {
					return "e2e inconclusive"
				}
				conn := "?"
				for _, t := range f {
					if v, ok := strings.CutPrefix(t, "dtlsconn="); ok {
						conn = v
					}
				}

				return fmt.Sprintf("e2e %s disabled=%s %s connected=%s", a[4], a[3], f[0], conn)
			}

			return a[0]
		},
		Trivial: func(a []string, out string) bool {
			switch a[0] {
			case "ext", "exts":
				d, ok := c14ParseDesc(a[1:])
				if !ok {
					return true
				}
				for _, at := range d.sess {
					if at[0] == "fingerprint" {
						return false
					}
				}
				for _, m := range d.media {
					for _, at := range m {
						if at[0] == "fingerprint" {
							return false
						}
					}
				}

				return true
			case "e2e":
				return strings.HasPrefix(out, "inconclusive")
			}

			return false
		},
	}
}
