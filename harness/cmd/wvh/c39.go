package main

import (
	"crypto"
	"crypto/ecdsa"
	"crypto/elliptic"
	"crypto/rand"
	"crypto/rsa"
	"crypto/x509"
	"crypto/x509/pkix"
	"errors"
	"fmt"
	"math/big"
	mrand "math/rand"
	"os"
	"strconv"
	"strings"
	"sync"
	"time"

	"github.com/pion/webrtc/v4"
	"github.com/pion/webrtc/v4/pkg/rtcerr"
)

// C39 — SetConfiguration never changes immutable settings.
//
//	h <cfg> <op>*          (format: lean/WebrtcVerif/Drv/C39.lean)
//
// Every line is a complete history on one real PeerConnection, driven through the public API only:
// NewPeerConnection(cfg), then SetConfiguration / CreateOffer+SetLocalDescription / remote offer +
// CreateAnswer+SetLocalDescription / Close / caller-side overwrites of a GetConfiguration() result,
// with GetConfiguration() observed after every step.

type c39Server struct {
	urls     []string
	username string
	cred     string // n | s<hex> | o | i
	credType int
}

type c39Cfg struct {
	pi      string
	certs   []string // tokens
	bp, mux int
	pool    int
	tp, sem int
	an      bool
	servers []c39Server
}

type c39Certs struct {
	pool    []webrtc.Certificate // 0,1 distinct keys; 2 = key of 0, other x509; 3 = key of 1 with the x509 of 0; 4 = RSA
	clone   []webrtc.Certificate // PEM round trips of pool
	expired []webrtc.Certificate
	junk    webrtc.Certificate // what scribbling writes; printed as 99
}

var (
	c39Once  sync.Once
	c39C     c39Certs
	c39API   *webrtc.API
	c39Setup error
)

func c39X509(pub crypto.PublicKey, priv crypto.PrivateKey, notAfter time.Time, serial int64) (*x509.Certificate, error) {
	tpl := x509.Certificate{
		SerialNumber: big.NewInt(serial),
		NotBefore:    time.Now().Add(-48 * time.Hour),
		NotAfter:     notAfter,
		Subject:      pkix.Name{CommonName: fmt.Sprintf("c39-%d", serial)},
	}
	der, err := x509.CreateCertificate(rand.Reader, &tpl, &tpl, pub, priv)
	if err != nil {
		return nil, err
	}

	return x509.ParseCertificate(der)
}

func c39Init() {
	c39Once.Do(func() {
		fail := func(err error) bool {
			if err != nil && c39Setup == nil {
				c39Setup = err
			}

			return err != nil
		}
		skA, err := ecdsa.GenerateKey(elliptic.P256(), rand.Reader)
		if fail(err) {
			return
		}
		skB, err := ecdsa.GenerateKey(elliptic.P256(), rand.Reader)
		if fail(err) {
			return
		}
		skJ, err := ecdsa.GenerateKey(elliptic.P256(), rand.Reader)
		if fail(err) {
			return
		}
		skR, err := rsa.GenerateKey(rand.Reader, 2048)
		if fail(err) {
			return
		}
		far := time.Now().Add(30 * 24 * time.Hour)
		past := time.Now().Add(-24 * time.Hour)
		xA, e1 := c39X509(skA.Public(), skA, far, 1)
		xB, e2 := c39X509(skB.Public(), skB, far, 2)
		xA2, e3 := c39X509(skA.Public(), skA, far, 3)
		xR, e4 := c39X509(skR.Public(), skR, far, 4)
		xJ, e5 := c39X509(skJ.Public(), skJ, far, 5)
		xE0, e6 := c39X509(skA.Public(), skA, past, 6)
		xE1, e7 := c39X509(skB.Public(), skB, past, 7)
		if fail(errors.Join(e1, e2, e3, e4, e5, e6, e7)) {
			return
		}
		c39C.pool = []webrtc.Certificate{
			webrtc.CertificateFromX509(skA, xA), webrtc.CertificateFromX509(skB, xB),
			webrtc.CertificateFromX509(skA, xA2), webrtc.CertificateFromX509(skB, xA),
			webrtc.CertificateFromX509(skR, xR),
		}
		for _, c := range c39C.pool {
			pem, err := c.PEM()
			if fail(err) {
				return
			}
			cl, err := webrtc.CertificateFromPEM(pem)
			if fail(err) {
				return
			}
			c39C.clone = append(c39C.clone, *cl)
		}
		c39C.expired = []webrtc.Certificate{webrtc.CertificateFromX509(skA, xE0), webrtc.CertificateFromX509(skB, xE1)}
		c39C.junk = webrtc.CertificateFromX509(skJ, xJ)
		se := webrtc.SettingEngine{}
		// no sockets: gathering is not what is observed here, and a UDP TURN allocation against a
		// silent port keeps Close() waiting for 7.8 s
		se.SetNetworkTypes([]webrtc.NetworkType{webrtc.NetworkTypeTCP4})
		se.SetInterfaceFilter(func(string) bool { return false })
		se.SetSTUNGatherTimeout(100 * time.Millisecond)
		c39API = webrtc.NewAPI(webrtc.WithSettingEngine(se))
	})
}

// ---- op-line parsing ----

func c39Text(t string) string { return string(unhx(t)) }

func c39ParseCfg(t []string) (c39Cfg, []string, bool) {
	var c c39Cfg
	if len(t) < 9 {
		return c, nil, false
	}
	c.pi = c39Text(t[0])
	if t[1] != "-" {
		c.certs = strings.Split(t[1], ",")
	}
	n := make([]int, 7)
	for i := range n {
		v, err := strconv.Atoi(t[2+i])
		if err != nil {
			return c, nil, false
		}
		n[i] = v
	}
	c.bp, c.mux, c.pool, c.tp, c.sem, c.an = n[0], n[1], n[2], n[3], n[4], n[5] != 0
	t = t[9:]
	for s := 0; s < n[6]; s++ {
		if len(t) < 1 {
			return c, nil, false
		}
		k, err := strconv.Atoi(t[0])
		if err != nil || len(t) < 1+k+3 {
			return c, nil, false
		}
		sv := c39Server{urls: []string{}}
		for _, u := range t[1 : 1+k] {
			sv.urls = append(sv.urls, c39Text(u))
		}
		sv.username = c39Text(t[1+k])
		sv.cred = t[2+k]
		ct, err := strconv.Atoi(t[3+k])
		if err != nil {
			return c, nil, false
		}
		sv.credType = ct
		c.servers = append(c.servers, sv)
		t = t[4+k:]
	}

	return c, t, true
}

func (c c39Cfg) tokens() string {
	sb := strings.Builder{}
	certs := "-"
	if len(c.certs) > 0 {
		certs = strings.Join(c.certs, ",")
	}
	fmt.Fprintf(&sb, "%s %s %d %d %d %d %d %s %d", hx([]byte(c.pi)), certs, c.bp, c.mux, c.pool, c.tp, c.sem, b2s(c.an), len(c.servers))
	for _, s := range c.servers {
		fmt.Fprintf(&sb, " %d", len(s.urls))
		for _, u := range s.urls {
			sb.WriteString(" " + hx([]byte(u)))
		}
		fmt.Fprintf(&sb, " %s %s %d", hx([]byte(s.username)), s.cred, s.credType)
	}

	return sb.String()
}

// ---- spec → real values → canonical tokens ----

type c39Run struct {
	pc   *webrtc.PeerConnection
	auto *webrtc.Certificate
}

func (r *c39Run) cert(tok string) (webrtc.Certificate, bool) {
	switch {
	case tok == "a":
		if r.auto == nil {
			return webrtc.Certificate{}, false
		}

		return *r.auto, true
	case tok == "z":
		return webrtc.Certificate{}, true
	case strings.HasPrefix(tok, "e"):
		i, err := strconv.Atoi(tok[1:])
		if err != nil || i < 0 || i >= len(c39C.expired) {
			return webrtc.Certificate{}, false
		}

		return c39C.expired[i], true
	case strings.HasPrefix(tok, "c"):
		i, err := strconv.Atoi(tok[1:])
		if err != nil || i < 0 || i >= len(c39C.clone) {
			return webrtc.Certificate{}, false
		}

		return c39C.clone[i], true
	}
	i, err := strconv.Atoi(tok)
	if err != nil || i < 0 || i >= len(c39C.pool) {
		return webrtc.Certificate{}, false
	}

	return c39C.pool[i], true
}

func (r *c39Run) build(c c39Cfg) (webrtc.Configuration, bool) {
	out := webrtc.Configuration{
		PeerIdentity:                c.pi,
		BundlePolicy:                webrtc.BundlePolicy(c.bp),
		RTCPMuxPolicy:               webrtc.RTCPMuxPolicy(c.mux),
		ICECandidatePoolSize:        uint8(c.pool), //nolint:gosec
		ICETransportPolicy:          webrtc.ICETransportPolicy(c.tp),
		SDPSemantics:                webrtc.SDPSemantics(c.sem),
		AlwaysNegotiateDataChannels: c.an,
	}
	if c.pool < 0 || c.pool > 255 {
		return out, false
	}
	for _, t := range c.certs {
		ct, ok := r.cert(t)
		if !ok {
			return out, false
		}
		out.Certificates = append(out.Certificates, ct)
	}
	for _, s := range c.servers {
		sv := webrtc.ICEServer{URLs: append([]string{}, s.urls...), Username: s.username, CredentialType: webrtc.ICECredentialType(s.credType)}
		switch {
		case s.cred == "n":
		case s.cred == "o":
			sv.Credential = webrtc.OAuthCredential{MACKey: "bWFj", AccessToken: "dG9r"}
		case s.cred == "i":
			sv.Credential = 42
		case strings.HasPrefix(s.cred, "s"):
			sv.Credential = c39Text(s.cred[1:])
		default:
			return out, false
		}
		out.ICEServers = append(out.ICEServers, sv)
	}

	return out, true
}

func (r *c39Run) certTok(c webrtc.Certificate) string {
	if !c.Equals(c) {
		if c.Expires().IsZero() {
			return "z"
		}

		return "?"
	}
	for i, p := range c39C.pool {
		if p.Equals(c) {
			return strconv.Itoa(i)
		}
	}
	for i, p := range c39C.expired {
		if p.Equals(c) {
			return "e" + strconv.Itoa(i)
		}
	}
	if r.auto != nil && r.auto.Equals(c) {
		return "a"
	}
	if c39C.junk.Equals(c) {
		return "99"
	}

	return "?"
}

func (r *c39Run) observe() string {
	g := r.pc.GetConfiguration()
	c := c39Cfg{
		pi: g.PeerIdentity, bp: int(g.BundlePolicy), mux: int(g.RTCPMuxPolicy), pool: int(g.ICECandidatePoolSize),
		tp: int(g.ICETransportPolicy), sem: int(g.SDPSemantics), an: g.AlwaysNegotiateDataChannels,
	}
	for _, ct := range g.Certificates {
		c.certs = append(c.certs, r.certTok(ct))
	}
	for _, s := range g.ICEServers {
		sv := c39Server{urls: s.URLs, username: s.Username, credType: int(s.CredentialType)}
		switch v := s.Credential.(type) {
		case nil:
			sv.cred = "n"
		case string:
			sv.cred = "s" + hx([]byte(v))
		case webrtc.OAuthCredential:
			sv.cred = "o"
		default:
			sv.cred = "i"
		}
		c.servers = append(c.servers, sv)
	}

	return c.tokens()
}

// c39Scribble overwrites every slice element reachable from a Configuration value the caller holds.
func c39Scribble(c webrtc.Configuration) {
	for i := range c.Certificates {
		c.Certificates[i] = c39C.junk
	}
	for i := range c.ICEServers {
		for j := range c.ICEServers[i].URLs {
			c.ICEServers[i].URLs[j] = "stun:192.0.2.1:9"
		}
		c.ICEServers[i] = webrtc.ICEServer{URLs: []string{"stun:192.0.2.9:9"}, Username: "scribbled"}
	}
}

func c39Err(err error) string {
	if err == nil {
		return "nil"
	}
	var (
		is *rtcerr.InvalidStateError
		im *rtcerr.InvalidModificationError
		ia *rtcerr.InvalidAccessError
		ns *rtcerr.NotSupportedError
	)
	switch {
	case errors.As(err, &is):
		if errors.Is(err, webrtc.ErrConnectionClosed) {
			return "InvalidState:closed"
		}

		return "InvalidState:other"
	case errors.As(err, &im):
		switch {
		case errors.Is(err, webrtc.ErrModifyingPeerIdentity):
			return "InvalidModification:peerIdentity"
		case errors.Is(err, webrtc.ErrModifyingCertificates):
			return "InvalidModification:certificates"
		case errors.Is(err, webrtc.ErrModifyingBundlePolicy):
			return "InvalidModification:bundlePolicy"
		case errors.Is(err, webrtc.ErrModifyingRTCPMuxPolicy):
			return "InvalidModification:rtcpMuxPolicy"
		case errors.Is(err, webrtc.ErrModifyingICECandidatePoolSize):
			return "InvalidModification:poolSize"
		}

		return "InvalidModification:other"
	case errors.As(err, &ia):
		switch {
		case errors.Is(err, webrtc.ErrNoTurnCredentials):
			return "InvalidAccess:noTurnCred"
		case errors.Is(err, webrtc.ErrTurnCredentials):
			return "InvalidAccess:turnCred"
		case errors.Is(err, webrtc.ErrCertificateExpired):
			return "InvalidAccess:certExpired"
		}

		return "InvalidAccess:url"
	case errors.As(err, &ns):
		if strings.Contains(err.Error(), "pool size") {
			return "NotSupported:poolSize"
		}

		return "NotSupported:other"
	}

	return "other:" + strings.ReplaceAll(fmt.Sprintf("%T", err), " ", "")
}

// sdStep runs f (offer or answer path) and reports ok / err / panic.
func c39SD(f func() error) (res string) {
	defer func() {
		if r := recover(); r != nil {
			res = "panic"
		}
	}()
	if err := f(); err != nil {
		return "err"
	}

	return "ok"
}

func c39Exec(a []string) (res string) {
	if os.Getenv("VERIF_DEBUG") != "" {
		t0 := time.Now()
		defer func() {
			if d := time.Since(t0); d > 50*time.Millisecond {
				fmt.Fprintf(os.Stderr, "slow %v: %s\n", d, strings.Join(a, " "))
			}
		}()
	}
	c39Init()
	if c39Setup != nil {
		return "setup-failed " + strings.ReplaceAll(c39Setup.Error(), " ", "_")
	}
	if len(a) < 1 || a[0] != "h" {
		return "bad-op"
	}
	c0, rest, ok := c39ParseCfg(a[1:])
	if !ok {
		return "bad-op"
	}
	run := &c39Run{}
	for _, t := range c0.certs {
		if t == "a" {
			return "bad-op" // the generated certificate does not exist before the connection does
		}
	}
	cfg, ok := run.build(c0)
	if !ok {
		return "bad-op"
	}
	pc, err := c39API.NewPeerConnection(cfg)
	if err != nil {
		return "I err " + c39Err(err)
	}
	run.pc = pc
	defer func() { _ = pc.Close() }()
	if len(c0.certs) == 0 {
		if g := pc.GetConfiguration(); len(g.Certificates) == 1 {
			ct := g.Certificates[0]
			run.auto = &ct
		}
	}
	out := []string{"I ok", run.observe()}
	for len(rest) > 0 {
		op := rest[0]
		rest = rest[1:]
		switch op {
		case "set":
			if len(rest) < 1 {
				return "bad-op"
			}
			mode := rest[0]
			spec, r2, ok := c39ParseCfg(rest[1:])
			if !ok {
				return "bad-op"
			}
			rest = r2
			want, ok := run.build(spec)
			if !ok {
				return "bad-op"
			}
			arg := want
			switch mode {
			case "f", "s":
			case "g":
				// the W3C idiom: cfg := pc.GetConfiguration(); modify cfg; pc.SetConfiguration(cfg) —
				// with the modifications written into the slices GetConfiguration returned
				got := pc.GetConfiguration()
				servers := make([]webrtc.ICEServer, len(want.ICEServers))
				for i, s := range want.ICEServers {
					if i < len(got.ICEServers) {
						s.URLs = append(got.ICEServers[i].URLs[:0], s.URLs...)
					}
					servers[i] = s
				}
				arg.Certificates = append(got.Certificates[:0], want.Certificates...)
				arg.ICEServers = append(got.ICEServers[:0], servers...)
			default:
				return "bad-op"
			}
			err := pc.SetConfiguration(arg)
			if mode == "s" {
				c39Scribble(arg)
			}
			out = append(out, "S", c39Err(err), run.observe())
		case "slo":
			res := c39SD(func() error {
				o, err := pc.CreateOffer(nil)
				if err != nil {
					return err
				}

				return pc.SetLocalDescription(o)
			})
			if res == "panic" {
				out = append(out, "L panic")

				return strings.Join(out, " ")
			}
			out = append(out, "L", res, run.observe())
		case "ans":
			res := c39SD(func() error {
				helper, err := c39API.NewPeerConnection(webrtc.Configuration{})
				if err != nil {
					return err
				}
				defer func() { _ = helper.Close() }()
				if _, err = helper.CreateDataChannel("c39", nil); err != nil {
					return err
				}
				o, err := helper.CreateOffer(nil)
				if err != nil {
					return err
				}
				if err = pc.SetRemoteDescription(o); err != nil {
					return err
				}
				an, err := pc.CreateAnswer(nil)
				if err != nil {
					return err
				}

				return pc.SetLocalDescription(an)
			})
			if res == "panic" {
				out = append(out, "L panic")

				return strings.Join(out, " ")
			}
			out = append(out, "L", res, run.observe())
		case "close":
			_ = pc.Close()
			out = append(out, "C", run.observe())
		case "scrib":
			c39Scribble(pc.GetConfiguration())
			out = append(out, "X", run.observe())
		default:
			return "bad-op"
		}
	}

	return strings.Join(out, " ")
}

// ---- generators ----

var c39ValidStun = []string{
	"stun:127.0.0.1:3478", "stun:127.0.0.1", "stuns:127.0.0.1:5349", "STUN:127.0.0.2:3478", "stun:localhost:3478",
	"stun:127.0.0.1:3478?", "stun:10.255.255.1:+5", "stun:127.0.0.1:-1",
}

var c39ValidTurn = []string{
	"turn:127.0.0.1:3478", "turn:127.0.0.1?transport=tcp", "turns:127.0.0.1:443?transport=tcp",
	"turn:localhost?transport=udp", "TURNS:127.0.0.3", "turn:127.0.0.1:3478?",
}

var c39BadURL = []string{
	"", "stun:", "stun", "http://example.org", "stun://127.0.0.1", "stun:127.0.0.1:port", "stun:127.0.0.1:1:2",
	"stun::3478", "stun:127.0.0.1?transport=udp", "stun:127.0.0.1:3478?x=1", "turn:127.0.0.1?transport=sctp",
	"turn:127.0.0.1?transport", "turn:127.0.0.1?foo=bar", "turn:127.0.0.1?transport=udp=1", "stunx:127.0.0.1",
	"1stun:127.0.0.1", "stun:127.0.0.1:", ":stun", "turn:", "turns:/x", "stun:127.0.0.1:99999999999999999999",
	"turn:127.0.0.1??", "stun:127.0.0.1??", "turn:127.0.0.1?transport=", "stun:/127.0.0.1",
}

var c39Frag = []string{"stun", "turn", "stuns", "turns", "s", ":", ":", "?", "=", "/", "-", ".", "1", "0", "transport", "udp", "tcp", "127.0.0.1", "x", "T", ":3478", "?transport=udp"}

func c39RandURL(r *mrand.Rand) string {
	n := 1 + r.Intn(6)
	sb := strings.Builder{}
	for i := 0; i < n; i++ {
		sb.WriteString(c39Frag[r.Intn(len(c39Frag))])
	}

	return sb.String()
}

// c39Server draws one ICE server: valid (kind 0), invalid (kind 1) or anything (kind 2).
func c39GenServer(r *mrand.Rand, kind int) c39Server {
	s := c39Server{urls: []string{}, cred: "n"}
	goodCred := func() {
		s.username = []string{"user", "u", "üser"}[r.Intn(3)]
		if r.Intn(4) == 0 {
			s.cred, s.credType = "o", 1
		} else {
			s.cred, s.credType = "s"+hx([]byte([]string{"pass", "", "p w"}[r.Intn(3)])), 0
		}
	}
	badCred := func() {
		switch r.Intn(7) {
		case 0:
			s.username, s.cred, s.credType = "", "s"+hx([]byte("pass")), 0
		case 1:
			s.username, s.cred, s.credType = "user", "n", 0
		case 2:
			s.username, s.cred, s.credType = "user", "o", 0 // oauth value, password type
		case 3:
			s.username, s.cred, s.credType = "user", "s"+hx([]byte("pass")), 1 // string value, oauth type
		case 4:
			s.username, s.cred, s.credType = "user", "i", r.Intn(2)
		case 5:
			s.username, s.cred, s.credType = "user", "s"+hx([]byte("pass")), 2+r.Intn(3) // unknown credential type
		default:
			s.username, s.cred, s.credType = "", "n", 0
		}
	}
	nurl := 1 + r.Intn(3)
	if r.Intn(12) == 0 {
		nurl = 0
	}
	switch kind {
	case 0:
		turn := r.Intn(2) == 0
		if turn {
			goodCred()
		} else if r.Intn(2) == 0 {
			badCred() // credentials are irrelevant for STUN-only servers
		}
		for i := 0; i < nurl; i++ {
			if turn && r.Intn(2) == 0 {
				s.urls = append(s.urls, c39ValidTurn[r.Intn(len(c39ValidTurn))])
			} else {
				s.urls = append(s.urls, c39ValidStun[r.Intn(len(c39ValidStun))])
			}
		}
	case 1:
		if nurl == 0 {
			nurl = 1
		}
		bad := r.Intn(nurl)
		if r.Intn(2) == 0 { // a TURN url with unusable credentials, possibly behind valid STUN urls
			badCred()
			for i := 0; i < nurl; i++ {
				if i == bad {
					s.urls = append(s.urls, c39ValidTurn[r.Intn(len(c39ValidTurn))])
				} else {
					s.urls = append(s.urls, c39ValidStun[r.Intn(len(c39ValidStun))])
				}
			}
		} else {
			goodCred()
			for i := 0; i < nurl; i++ {
				switch {
				case i == bad:
					s.urls = append(s.urls, c39BadURL[r.Intn(len(c39BadURL))])
				case r.Intn(2) == 0:
					s.urls = append(s.urls, c39ValidTurn[r.Intn(len(c39ValidTurn))])
				default:
					s.urls = append(s.urls, c39ValidStun[r.Intn(len(c39ValidStun))])
				}
			}
		}
	default:
		if r.Intn(2) == 0 {
			goodCred()
		} else {
			badCred()
		}
		for i := 0; i < nurl; i++ {
			s.urls = append(s.urls, c39RandURL(r))
		}
	}

	return s
}

// c39GenServers: kind 0 all valid, 1 at least one invalid, 2 random-fragment urls.
func c39GenServers(r *mrand.Rand, kind int) []c39Server {
	n := r.Intn(4)
	if kind != 0 && n == 0 {
		n = 1
	}
	out := []c39Server{}
	bad := 0
	if n > 0 {
		bad = r.Intn(n)
	}
	for i := 0; i < n; i++ {
		switch {
		case kind == 1 && i == bad:
			out = append(out, c39GenServer(r, 1))
		case kind == 2 && i == bad:
			out = append(out, c39GenServer(r, 2))
		default:
			out = append(out, c39GenServer(r, 0))
		}
	}

	return out
}

var c39Identities = []string{"alice", "bob", "Alice", "alice ", "ålice"}

var c39InitCerts = [][]string{
	nil, nil, nil, nil, {"0"}, {"1"}, {"0", "1"}, {"1", "0"}, {"2"}, {"3"}, {"4"}, {"0", "1", "2"}, {"0", "0"}, {"c1"}, {"4", "3"},
}

// immutable part of the state the generator steers by (what the argument is "unchanged" relative to)
type c39Track struct {
	pi      string
	certs   []string
	bp, mux int
	pool    int
}

func c39GenInit(r *mrand.Rand) c39Cfg {
	c := c39Cfg{}
	if r.Intn(2) == 0 {
		c.pi = c39Identities[r.Intn(len(c39Identities))]
	}
	c.certs = c39InitCerts[r.Intn(len(c39InitCerts))]
	c.bp = []int{0, 0, 1, 2, 3, 3, 7}[r.Intn(7)]
	c.mux = []int{0, 0, 1, 2, 2, 5}[r.Intn(6)]
	c.pool = []int{0, 0, 0, 1, 1}[r.Intn(5)]
	c.tp = []int{0, 0, 1, 2, 6}[r.Intn(5)]
	c.sem = []int{0, 0, 1, 2, 9}[r.Intn(5)]
	c.an = r.Intn(3) == 0
	if r.Intn(3) != 0 {
		c.servers = c39GenServers(r, 0)
	}

	return c
}

func c39TrackOf(c c39Cfg) c39Track {
	t := c39Track{pi: c.pi, certs: c.certs, bp: c.bp, mux: c.mux, pool: c.pool}
	if len(t.certs) == 0 {
		t.certs = []string{"a"}
	}
	if t.bp == 0 {
		t.bp = 1
	}
	if t.mux == 0 {
		t.mux = 2
	}

	return t
}

func c39OtherCert(r *mrand.Rand, not string) string {
	for {
		t := []string{"0", "1", "2", "3", "4", "e0", "z", "c0", "c3"}[r.Intn(9)]
		if strings.TrimPrefix(t, "c") != strings.TrimPrefix(not, "c") {
			return t
		}
	}
}

func c39ChangedCerts(r *mrand.Rand, cur []string) []string {
	out := append([]string{}, cur...)
	switch r.Intn(5) {
	case 0: // longer
		return append(out, c39OtherCert(r, ""))
	case 1: // shorter (or, for a single certificate, another one)
		if len(out) > 1 {
			return out[:len(out)-1]
		}
	case 2: // rotated
		if len(out) > 1 && out[0] != out[len(out)-1] {
			return append(out[1:], out[0])
		}
	case 3: // last element replaced
		i := len(out) - 1
		out[i] = c39OtherCert(r, out[i])

		return out
	}
	i := r.Intn(len(out))
	out[i] = c39OtherCert(r, out[i])

	return out
}

func c39UnchangedCerts(r *mrand.Rand, cur []string) []string {
	out := append([]string{}, cur...)
	for i, t := range out {
		if _, err := strconv.Atoi(t); err == nil && r.Intn(3) == 0 {
			out[i] = "c" + t // an equal certificate held in a different object
		}
	}

	return out
}

// c39GenArg: every immutable field independently zero / unchanged / changed with probability pch.
func c39GenArg(r *mrand.Rand, t c39Track, pch float64, srvKind int) c39Cfg {
	pick := func() int { // 0 zero, 1 unchanged, 2 changed
		x := r.Float64()
		switch {
		case x < pch:
			return 2
		case x < pch+(1-pch)/2:
			return 1
		}

		return 0
	}
	a := c39Cfg{}
	switch pick() {
	case 1:
		a.pi = t.pi
	case 2:
		for {
			a.pi = c39Identities[r.Intn(len(c39Identities))]
			if a.pi != t.pi {
				break
			}
		}
	}
	switch pick() {
	case 1:
		a.certs = c39UnchangedCerts(r, t.certs)
	case 2:
		a.certs = c39ChangedCerts(r, t.certs)
	}
	switch pick() {
	case 1:
		a.bp = t.bp
	case 2:
		for a.bp == 0 || a.bp == t.bp {
			a.bp = 1 + r.Intn(4)
		}
	}
	switch pick() {
	case 1:
		a.mux = t.mux
	case 2:
		for a.mux == 0 || a.mux == t.mux {
			a.mux = 1 + r.Intn(3)
		}
	}
	switch pick() {
	case 1:
		a.pool = t.pool
	case 2:
		for a.pool == 0 || a.pool == t.pool {
			a.pool = []int{1, 1, 2, 255}[r.Intn(4)]
		}
	}
	a.tp = []int{0, 1, 1, 2, 6}[r.Intn(5)]
	a.sem = []int{0, 0, 1, 2}[r.Intn(4)]
	a.an = r.Intn(3) == 0
	if srvKind >= 0 {
		a.servers = c39GenServers(r, srvKind)
	}

	return a
}

func c39Gen(c *Ctx) {
	r := c.Rng
	modes := func() string { return []string{"f", "f", "f", "g", "g", "s"}[r.Intn(6)] }
	// 1. systematic: every subset of the five immutable fields changed × phase × server validity × mode,
	//    on a few initial configurations (single changes, all pairs, … all five)
	inits := []c39Cfg{
		{},
		{pi: "alice", certs: []string{"0", "1"}, bp: 3, mux: 1, pool: 1, tp: 1, an: true,
			servers: []c39Server{{urls: []string{"stun:127.0.0.1:3478"}, cred: "n"}}},
	}
	if c.Thorough() {
		inits = append(inits, c39Cfg{certs: []string{"4"}, bp: 2, pool: 0, sem: 1},
			c39Cfg{pi: "bob", certs: []string{"2", "3", "0"}, mux: 2, pool: 1,
				servers: []c39Server{{urls: []string{"turn:127.0.0.1?transport=tcp", "stun:127.0.0.1"}, username: "u", cred: "s" + hx([]byte("p"))}}})
	}
	phases := [][]string{{}, {"slo"}, {"ans"}, {"close"}, {"ans", "slo"}, {"slo", "close"}}
	for _, in := range inits {
		t := c39TrackOf(in)
		for _, ph := range phases {
			for mask := 0; mask < 32; mask++ {
				for srv := 0; srv < 3; srv++ { // none / valid / invalid
					a := c39Cfg{tp: (in.tp + 1) % 3, an: true}
					if mask&1 != 0 {
						a.pi = "mallory"
					} else if srv == 1 {
						a.pi = t.pi
					}
					if mask&2 != 0 {
						a.certs = c39ChangedCerts(r, t.certs)
					} else if srv == 2 {
						a.certs = c39UnchangedCerts(r, t.certs)
					}
					if mask&4 != 0 {
						a.bp = t.bp%3 + 1
					} else if srv == 0 {
						a.bp = t.bp
					}
					if mask&8 != 0 {
						a.mux = t.mux%2 + 1
					} else if srv == 1 {
						a.mux = t.mux
					}
					if mask&16 != 0 {
						a.pool = 2 - t.pool
					} else if srv == 2 {
						a.pool = t.pool
					}
					switch srv {
					case 1:
						a.servers = c39GenServers(r, 0)
					case 2:
						a.servers = c39GenServers(r, 1)
					}
					c.Emit("h %s %s set %s %s", in.tokens(), strings.Join(ph, " "), modes(), a.tokens())
				}
			}
		}
	}
	// 2. random histories
	for n := 0; n < c.N(2500, 60000); n++ {
		in := c39GenInit(r)
		t := c39TrackOf(in)
		sb := strings.Builder{}
		sb.WriteString("h " + in.tokens())
		closed := false
		pch := []float64{0, 0.08, 0.15, 0.3}[r.Intn(4)]
		zero := false
		for _, ct := range in.certs {
			zero = zero || ct == "z"
		}
		for k, l := 0, 1+r.Intn(6); k < l; k++ {
			x := r.Intn(100)
			switch {
			case x < 62:
				kind := []int{-1, 0, 0, 0, 1, 1, 2}[r.Intn(7)]
				sb.WriteString(" set " + modes() + " " + c39GenArg(r, t, pch, kind).tokens())
			case x < 76 && !zero:
				sb.WriteString(" slo")
			case x < 84 && !zero:
				sb.WriteString(" ans")
			case x < 90 && !closed:
				sb.WriteString(" close")
				closed = true
			default:
				sb.WriteString(" scrib")
			}
		}
		c.Emit("%s", sb.String())
	}
	// 3. malformed / refused initial configurations and odd values
	for n := 0; n < c.N(300, 4000); n++ {
		in := c39GenInit(r)
		switch r.Intn(6) {
		case 0:
			in.pool = []int{2, 3, 255}[r.Intn(3)]
		case 1:
			in.certs = [][]string{{"e0"}, {"0", "e1"}, {"e1", "1"}}[r.Intn(3)]
		case 2:
			in.servers = c39GenServers(r, 1)
		case 3:
			in.servers = c39GenServers(r, 2)
		case 4:
			in.certs = [][]string{{"z"}, {"0", "z"}}[r.Intn(2)]
		default:
			// stun urls with a query: accepted (and stripped) by NewPeerConnection, refused by SetConfiguration
			in.servers = []c39Server{{urls: []string{"stun:127.0.0.1:3478?transport=udp", "stuns:127.0.0.1?x"}, cred: "n"}}
		}
		t := c39TrackOf(in)
		sb := strings.Builder{}
		sb.WriteString("h " + in.tokens())
		for k, l := 0, 1+r.Intn(3); k < l; k++ {
			if r.Intn(8) == 0 {
				sb.WriteString(" " + []string{"slo", "ans", "close", "scrib"}[r.Intn(4)])

				continue
			}
			a := c39GenArg(r, t, 0.1, []int{-1, 0, 1, 2}[r.Intn(4)])
			if r.Intn(4) == 0 {
				a.servers = in.servers // what NewPeerConnection was given, unsanitised
			}
			sb.WriteString(" set " + modes() + " " + a.tokens())
		}
		c.Emit("%s", sb.String())
	}
}

func init() {
	registry["C39"] = &Prop{
		Workers: 8,
		Timeout: 30 * time.Second,
		Rule: "Each case is a whole history on one real PeerConnection (public API only): NewPeerConnection(random configuration), " +
			"then 1..7 steps of SetConfiguration(argument) / CreateOffer+SetLocalDescription / remote offer+CreateAnswer+SetLocalDescription / " +
			"Close / overwriting a GetConfiguration() result, GetConfiguration() observed after every step. Systematic part: every subset of the " +
			"five immutable settings changed × six phases (new, have-local-offer, answered, closed, answered+offer, offer+closed) × ICE servers " +
			"absent/valid/invalid on 2 (quick) or 4 (thorough) initial configurations. Random part: each immutable field of each argument " +
			"independently zero/unchanged/changed (certificate lists equal, copied, longer, shorter, rotated, one element replaced, same key other " +
			"x509, same x509 other key, expired, zero value), ICE servers valid / one invalid (bad URL from a catalogue, TURN without or with " +
			"mismatched credentials) / random URL fragments; arguments built fresh, by the get-modify-set idiom, or overwritten after the call. " +
			"Malformed stream: initial configurations NewPeerConnection refuses (pool size > 1, expired certificate, invalid servers), zero " +
			"certificates, STUN URLs with queries. Non-trivial: distinct op lines whose connection was created and that contain at least one SetConfiguration.",
		Gen:  c39Gen,
		Exec: c39Exec,
		Class: func(a []string, out string) string {
			f := strings.Fields(out)
			if len(f) >= 2 && f[0] == "I" && f[1] == "err" {
				return "init refused " + f[2]
			}
			// phase and outcome of the last SetConfiguration of the history
			phase, last := "new", ""
			local, closed := false, false
			for i := 0; i < len(f); i++ {
				switch f[i] {
				case "L":
					if i+1 < len(f) && f[i+1] == "ok" {
						local = true
					}
				case "C":
					closed = true
				case "S":
					if i+1 < len(f) {
						phase = "new"
						if local {
							phase = "local"
						}
						if closed {
							phase = "closed"
						}
						last = phase + " → " + f[i+1]
					}
				}
			}
			if last == "" {
				return "no SetConfiguration"
			}

			return "last set: " + last
		},
		Trivial: func(a []string, out string) bool {
			if strings.HasPrefix(out, "I err") || strings.HasPrefix(out, "bad-op") {
				return true
			}
			for _, t := range a {
				if t == "set" {
					return false
				}
			}

			return true
		},
	}
}
