package main

import "strings"

// Browser-style session descriptions used as mutation bases for C30 (hand-written after the shape of
// Chrome / Firefox output; fixed identifiers so that op lines are reproducible).

const c30FP = "a=fingerprint:sha-256 0F:74:31:25:CB:A2:13:EC:28:6F:6D:2C:61:FF:5D:C2:BC:B9:DB:3D:98:14:8D:1A:BB:EA:33:0C:A4:60:A8:8E"

func crlf(s string) string {
	return strings.ReplaceAll(strings.TrimLeft(s, "\n"), "\n", "\r\n")
}

// Chrome-like Unified Plan offer: audio, video with RTX + red/ulpfec + flexfec, data channel.
var c30ChromeUnified = crlf(`
v=0
o=- 4215775240449105457 2 IN IP4 127.0.0.1
s=-
t=0 0
a=group:BUNDLE 0 1 2
a=extmap-allow-mixed
a=msid-semantic: WMS stream0
m=audio 9 UDP/TLS/RTP/SAVPF 111 63 9 0 8 13 110 126
c=IN IP4 0.0.0.0
a=rtcp:9 IN IP4 0.0.0.0
a=candidate:1 1 udp 2130706431 127.0.0.1 50001 typ host generation 0 network-id 1
a=ice-ufrag:chro
a=ice-pwd:chromepasswordchromepassword0000
a=ice-options:trickle
` + c30FP + `
a=setup:actpass
a=mid:0
a=extmap:1 urn:ietf:params:rtp-hdrext:ssrc-audio-level
a=extmap:2 http://www.webrtc.org/experiments/rtp-hdrext/abs-send-time
a=extmap:3 http://www.ietf.org/id/draft-holmer-rmcat-transport-wide-cc-extensions-01
a=extmap:4 urn:ietf:params:rtp-hdrext:sdes:mid
a=sendrecv
a=msid:stream0 audio0
a=rtcp-mux
a=rtpmap:111 opus/48000/2
a=rtcp-fb:111 transport-cc
a=fmtp:111 minptime=10;useinbandfec=1
a=rtpmap:63 red/48000/2
a=fmtp:63 111/111
a=rtpmap:9 G722/8000
a=rtpmap:0 PCMU/8000
a=rtpmap:8 PCMA/8000
a=rtpmap:13 CN/8000
a=rtpmap:110 telephone-event/48000
a=rtpmap:126 telephone-event/8000
a=ssrc:1001 cname:cnamechrome
a=ssrc:1001 msid:stream0 audio0
m=video 9 UDP/TLS/RTP/SAVPF 96 97 102 103 98 99 116 117 118 35 36
c=IN IP4 0.0.0.0
a=rtcp:9 IN IP4 0.0.0.0
a=ice-ufrag:chro
a=ice-pwd:chromepasswordchromepassword0000
a=ice-options:trickle
` + c30FP + `
a=setup:actpass
a=mid:1
a=extmap:14 urn:ietf:params:rtp-hdrext:toffset
a=extmap:2 http://www.webrtc.org/experiments/rtp-hdrext/abs-send-time
a=extmap:13 urn:3gpp:video-orientation
a=extmap:3 http://www.ietf.org/id/draft-holmer-rmcat-transport-wide-cc-extensions-01
a=extmap:4 urn:ietf:params:rtp-hdrext:sdes:mid
a=extmap:10 urn:ietf:params:rtp-hdrext:sdes:rtp-stream-id
a=extmap:11 urn:ietf:params:rtp-hdrext:sdes:repaired-rtp-stream-id
a=sendrecv
a=msid:stream0 video0
a=rtcp-mux
a=rtcp-rsize
a=rtpmap:96 VP8/90000
a=rtcp-fb:96 goog-remb
a=rtcp-fb:96 transport-cc
a=rtcp-fb:96 ccm fir
a=rtcp-fb:96 nack
a=rtcp-fb:96 nack pli
a=rtpmap:97 rtx/90000
a=fmtp:97 apt=96
a=rtpmap:102 H264/90000
a=rtcp-fb:102 goog-remb
a=rtcp-fb:102 transport-cc
a=rtcp-fb:102 ccm fir
a=rtcp-fb:102 nack
a=rtcp-fb:102 nack pli
a=fmtp:102 level-asymmetry-allowed=1;packetization-mode=1;profile-level-id=42001f
a=rtpmap:103 rtx/90000
a=fmtp:103 apt=102
a=rtpmap:98 VP9/90000
a=rtcp-fb:98 goog-remb
a=rtcp-fb:98 transport-cc
a=rtcp-fb:98 nack
a=fmtp:98 profile-id=0
a=rtpmap:99 rtx/90000
a=fmtp:99 apt=98
a=rtpmap:116 red/90000
a=rtpmap:117 rtx/90000
a=fmtp:117 apt=116
a=rtpmap:118 ulpfec/90000
a=rtpmap:35 flexfec-03/90000
a=rtcp-fb:35 goog-remb
a=rtcp-fb:35 transport-cc
a=fmtp:35 repair-window=10000000
a=rtpmap:36 AV1/90000
a=ssrc-group:FID 2001 2002
a=ssrc-group:FEC-FR 2001 2003
a=ssrc:2001 cname:cnamechrome
a=ssrc:2001 msid:stream0 video0
a=ssrc:2002 cname:cnamechrome
a=ssrc:2002 msid:stream0 video0
a=ssrc:2003 cname:cnamechrome
a=ssrc:2003 msid:stream0 video0
m=application 9 UDP/DTLS/SCTP webrtc-datachannel
c=IN IP4 0.0.0.0
a=ice-ufrag:chro
a=ice-pwd:chromepasswordchromepassword0000
a=ice-options:trickle
` + c30FP + `
a=setup:actpass
a=mid:2
a=sctp-port:5000
a=max-message-size:262144
`)

// Chrome-like Unified Plan simulcast offer (rid based, no a=ssrc lines in the video section).
var c30ChromeSimulcast = crlf(`
v=0
o=- 1215775240449105457 2 IN IP4 127.0.0.1
s=-
t=0 0
a=group:BUNDLE 0 1
a=extmap-allow-mixed
a=msid-semantic: WMS stream0
m=audio 9 UDP/TLS/RTP/SAVPF 111
c=IN IP4 0.0.0.0
a=rtcp:9 IN IP4 0.0.0.0
a=ice-ufrag:simu
a=ice-pwd:simulcastpasswordsimulcastpwd000
a=ice-options:trickle
` + c30FP + `
a=setup:actpass
a=mid:0
a=extmap:4 urn:ietf:params:rtp-hdrext:sdes:mid
a=sendonly
a=msid:stream0 audio0
a=rtcp-mux
a=rtpmap:111 opus/48000/2
a=fmtp:111 minptime=10;useinbandfec=1
a=ssrc:1001 cname:cnamesim
m=video 9 UDP/TLS/RTP/SAVPF 96 97
c=IN IP4 0.0.0.0
a=rtcp:9 IN IP4 0.0.0.0
a=ice-ufrag:simu
a=ice-pwd:simulcastpasswordsimulcastpwd000
a=ice-options:trickle
` + c30FP + `
a=setup:actpass
a=mid:1
a=extmap:4 urn:ietf:params:rtp-hdrext:sdes:mid
a=extmap:10 urn:ietf:params:rtp-hdrext:sdes:rtp-stream-id
a=extmap:11 urn:ietf:params:rtp-hdrext:sdes:repaired-rtp-stream-id
a=sendonly
a=msid:stream0 video0
a=rtcp-mux
a=rtcp-rsize
a=rtpmap:96 VP8/90000
a=rtcp-fb:96 nack
a=rtcp-fb:96 nack pli
a=rtpmap:97 rtx/90000
a=fmtp:97 apt=96
a=rid:q send
a=rid:h send
a=rid:f send
a=simulcast:send q;h;~f
`)

// Chrome-like Plan B offer: several sources per section, FID and SIM groups.
var c30ChromePlanB = crlf(`
v=0
o=- 3215775240449105457 2 IN IP4 127.0.0.1
s=-
t=0 0
a=group:BUNDLE audio video data
a=msid-semantic: WMS streamA streamB
m=audio 9 UDP/TLS/RTP/SAVPF 111 0
c=IN IP4 0.0.0.0
a=rtcp:9 IN IP4 0.0.0.0
a=candidate:1 1 udp 2130706431 127.0.0.1 50002 typ host generation 0
a=ice-ufrag:plnb
a=ice-pwd:planbpasswordplanbpasswordplanb0
` + c30FP + `
a=setup:actpass
a=mid:audio
a=extmap:1 urn:ietf:params:rtp-hdrext:ssrc-audio-level
a=sendrecv
a=rtcp-mux
a=rtpmap:111 opus/48000/2
a=fmtp:111 minptime=10;useinbandfec=1
a=rtpmap:0 PCMU/8000
a=ssrc:3001 cname:cnameplanb
a=ssrc:3001 msid:streamA audioA
a=ssrc:3001 mslabel:streamA
a=ssrc:3001 label:audioA
a=ssrc:3002 cname:cnameplanb
a=ssrc:3002 msid:streamB audioB
m=video 9 UDP/TLS/RTP/SAVPF 96 97
c=IN IP4 0.0.0.0
a=rtcp:9 IN IP4 0.0.0.0
a=ice-ufrag:plnb
a=ice-pwd:planbpasswordplanbpasswordplanb0
` + c30FP + `
a=setup:actpass
a=mid:video
a=extmap:2 urn:ietf:params:rtp-hdrext:toffset
a=sendrecv
a=rtcp-mux
a=rtcp-rsize
a=rtpmap:96 VP8/90000
a=rtcp-fb:96 nack
a=rtcp-fb:96 nack pli
a=rtcp-fb:96 goog-remb
a=rtpmap:97 rtx/90000
a=fmtp:97 apt=96
a=ssrc-group:FID 4001 4002
a=ssrc:4001 cname:cnameplanb
a=ssrc:4001 msid:streamA videoA
a=ssrc:4002 cname:cnameplanb
a=ssrc:4002 msid:streamA videoA
a=ssrc-group:SIM 4003 4005
a=ssrc-group:FID 4003 4004
a=ssrc:4003 cname:cnameplanb
a=ssrc:4003 msid:streamB videoB
a=ssrc:4004 cname:cnameplanb
a=ssrc:4004 msid:streamB videoB
a=ssrc:4005 cname:cnameplanb
a=ssrc:4005 msid:streamB videoB
m=application 9 DTLS/SCTP 5000
c=IN IP4 0.0.0.0
a=ice-ufrag:plnb
a=ice-pwd:planbpasswordplanbpasswordplanb0
` + c30FP + `
a=setup:actpass
a=mid:data
a=sctpmap:5000 webrtc-datachannel 1024
`)

// Firefox-like offer: session-level fingerprint, bundle-only sections, no a=ssrc msid form.
var c30Firefox = crlf(`
v=0
o=mozilla...THIS_IS_SDPARTA-99.0 5215775240449105457 0 IN IP4 0.0.0.0
s=-
t=0 0
` + c30FP + `
a=group:BUNDLE 0 1 2
a=ice-options:trickle
a=msid-semantic:WMS *
m=audio 9 UDP/TLS/RTP/SAVPF 109 9 0 8 101
c=IN IP4 0.0.0.0
a=sendrecv
a=extmap:1 urn:ietf:params:rtp-hdrext:ssrc-audio-level
a=extmap:2/recvonly urn:ietf:params:rtp-hdrext:csrc-audio-level
a=extmap:3 urn:ietf:params:rtp-hdrext:sdes:mid
a=fmtp:109 maxplaybackrate=48000;stereo=1;useinbandfec=1
a=fmtp:101 0-15
a=ice-pwd:firefoxpasswordfirefoxpassword00
a=ice-ufrag:frfx
a=mid:0
a=msid:{streamff} {audioff}
a=rtcp-mux
a=rtpmap:109 opus/48000/2
a=rtpmap:9 G722/8000/1
a=rtpmap:0 PCMU/8000
a=rtpmap:8 PCMA/8000
a=rtpmap:101 telephone-event/8000
a=setup:actpass
a=ssrc:5001 cname:{cnameff}
m=video 0 UDP/TLS/RTP/SAVPF 120 124 121 125 126 127
c=IN IP4 0.0.0.0
a=bundle-only
a=sendrecv
a=extmap:3 urn:ietf:params:rtp-hdrext:sdes:mid
a=extmap:4 http://www.webrtc.org/experiments/rtp-hdrext/abs-send-time
a=extmap:5 urn:ietf:params:rtp-hdrext:toffset
a=extmap:7 http://www.ietf.org/id/draft-holmer-rmcat-transport-wide-cc-extensions-01
a=fmtp:126 profile-level-id=42e01f;level-asymmetry-allowed=1;packetization-mode=1
a=fmtp:120 max-fs=12288;max-fr=60
a=fmtp:124 apt=120
a=fmtp:121 max-fs=12288;max-fr=60
a=fmtp:125 apt=121
a=fmtp:127 apt=126
a=ice-pwd:firefoxpasswordfirefoxpassword00
a=ice-ufrag:frfx
a=mid:1
a=msid:{streamff} {videoff}
a=rtcp-fb:120 nack
a=rtcp-fb:120 nack pli
a=rtcp-fb:120 ccm fir
a=rtcp-fb:120 goog-remb
a=rtcp-fb:120 transport-cc
a=rtcp-mux
a=rtcp-rsize
a=rtpmap:120 VP8/90000
a=rtpmap:124 rtx/90000
a=rtpmap:121 VP9/90000
a=rtpmap:125 rtx/90000
a=rtpmap:126 H264/90000
a=rtpmap:127 rtx/90000
a=setup:actpass
a=ssrc:5002 cname:{cnameff}
a=ssrc:5003 cname:{cnameff}
a=ssrc-group:FID 5002 5003
m=application 0 UDP/DTLS/SCTP webrtc-datachannel
c=IN IP4 0.0.0.0
a=bundle-only
a=sendrecv
a=ice-pwd:firefoxpasswordfirefoxpassword00
a=ice-ufrag:frfx
a=mid:2
a=setup:actpass
a=sctp-port:5000
a=max-message-size:1073741823
`)

// The witness shape for the Plan-B simulcast warning: a Plan-B style mid, msid and rid lines, no ssrc.
var c30PlanBSimulcast = crlf(`
v=0
o=- 6215775240449105457 2 IN IP4 127.0.0.1
s=-
t=0 0
a=group:BUNDLE video
m=video 9 UDP/TLS/RTP/SAVPF 96
c=IN IP4 0.0.0.0
a=ice-ufrag:plbs
a=ice-pwd:planbsimulcastpasswordplanbsimul
` + c30FP + `
a=setup:actpass
a=mid:video
a=sendrecv
a=msid:streamS videoS
a=rtcp-mux
a=rtpmap:96 VP8/90000
a=rid:q send
a=rid:h send
a=simulcast:send q;h
`)
