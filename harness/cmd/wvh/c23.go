package main

import (
	"bytes"
	"fmt"
	"math/rand"
	"os"
	"strconv"
	"strings"
	"sync"
	"time"

	"github.com/pion/interceptor"
	"github.com/pion/rtp"
	"github.com/pion/sdp/v3"
	"github.com/pion/webrtc/v4"
)

// C23 — media end to end over loopback.
//
//	media <offerer A|B> <dc 0|1> <ntracks> {<mimehex> <streamIDhex> <trackIDhex> <sender A|B>}* <npackets> <seed>
//
// Each track is a TrackLocalStaticRTP added to its sender side; after negotiation and connection, packets with
// seeded payloads are written until the other side has read npackets of them (or a deadline). For every
// track the oracle compares what TrackRemote.ReadRTP returned with (i) the a=ssrc announced for that sender in
// the description the receiver applied, (ii) the payload type that description's rtpmap gives the codec,
// (iii) the written payload / sequence number / timestamp / marker, and TrackRemote.Codec/StreamID/ID with
// the sender's codec and ids.
type c23Track struct {
	mime, fmtp, streamID, trackID string
	sender                        string
}

func c23API() (*webrtc.API, error) {
	m := &webrtc.MediaEngine{}
	if err := m.RegisterDefaultCodecs(); err != nil {
		return nil, err
	}
	ir := &interceptor.Registry{}
	if err := webrtc.RegisterDefaultInterceptors(m, ir); err != nil {
		return nil, err
	}

	return webrtc.NewAPI(webrtc.WithMediaEngine(m), webrtc.WithInterceptorRegistry(ir), webrtc.WithSettingEngine(loopbackSettings())), nil
}

// announced returns, for the msid "<stream> <track>", the primary SSRC and the payload types per mime
// type of the section that carries it.
// c23Fmtps maps payload type → fmtp line for the section that carries the msid (filled by c23Announced).
var c23FmtpMu sync.Mutex

func c23Announced(desc *webrtc.SessionDescription, streamID, trackID string) (ssrc uint32, pts map[string][]uint8, ok bool) {
	ssrc, pts, _, ok = c23AnnouncedF(desc, streamID, trackID)

	return ssrc, pts, ok
}

func c23AnnouncedF(desc *webrtc.SessionDescription, streamID, trackID string) (ssrc uint32, pts map[string][]uint8, fmtps map[uint8]string, ok bool) {
	parsed := &sdp.SessionDescription{}
	if err := parsed.UnmarshalString(desc.SDP); err != nil {
		return 0, nil, nil, false
	}
	fmtps = map[uint8]string{}
	for _, md := range parsed.MediaDescriptions {
		found := false
		var first uint32
		haveFirst := false
		for _, a := range md.Attributes {
			if a.Key == "msid" && a.Value == streamID+" "+trackID {
				found = true
			}
			if a.Key == "ssrc" && !haveFirst {
				f := strings.Fields(a.Value)
				if v, err := strconv.ParseUint(f[0], 10, 32); err == nil {
					first = uint32(v)
					haveFirst = true
				}
			}
			if a.Key == "ssrc-group" && strings.HasPrefix(a.Value, "FID ") {
				f := strings.Fields(a.Value)
				if len(f) >= 2 {
					if v, err := strconv.ParseUint(f[1], 10, 32); err == nil {
						first = uint32(v)
						haveFirst = true
					}
				}
			}
		}
		if !found {
			continue
		}
		pts = map[string][]uint8{}
		for _, a := range md.Attributes {
			if a.Key == "fmtp" {
				f := strings.SplitN(a.Value, " ", 2)
				if v, err := strconv.Atoi(f[0]); err == nil && len(f) == 2 {
					fmtps[uint8(v)] = f[1] //nolint:gosec
				}
			}
			if a.Key == "rtpmap" {
				f := strings.Fields(a.Value)
				if len(f) == 2 {
					if v, err := strconv.Atoi(f[0]); err == nil {
						name := strings.ToLower(strings.Split(f[1], "/")[0])
						pts[md.MediaName.Media+"/"+name] = append(pts[md.MediaName.Media+"/"+name], uint8(v)) //nolint:gosec
					}
				}
			}
		}

		return first, pts, fmtps, haveFirst
	}

	return 0, nil, nil, false
}

func c23Run(a []string) string {
	if len(a) < 4 || a[0] != "media" {
		return "bad-op"
	}
	offererA := a[1] == "A"
	withDC := a[2] == "1"
	nt, err := strconv.Atoi(a[3])
	if err != nil || len(a) != 4+4*nt+2 {
		return "bad-op"
	}
	tracks := make([]c23Track, nt)
	for i := range tracks {
		mf := strings.SplitN(string(unhx(a[4+4*i])), "|", 2)
		tracks[i] = c23Track{mime: mf[0], streamID: string(unhx(a[5+4*i])), trackID: string(unhx(a[6+4*i])), sender: a[7+4*i]}
		if len(mf) == 2 {
			tracks[i].fmtp = mf[1]
		}
	}
	npk, e1 := strconv.Atoi(a[4+4*nt])
	seed, e2 := strconv.ParseInt(a[5+4*nt], 10, 64)
	if e1 != nil || e2 != nil {
		return "bad-op"
	}
	apiA, err := c23API()
	if err != nil {
		return "inconclusive api"
	}
	apiB, _ := c23API()
	pair, err := NewPair(apiA, apiB)
	if err != nil {
		return "inconclusive newpc"
	}
	defer pair.Close()
	pcOf := func(side string) *webrtc.PeerConnection {
		if side == "A" {
			return pair.A
		}

		return pair.B
	}
	other := func(side string) *webrtc.PeerConnection {
		if side == "A" {
			return pair.B
		}

		return pair.A
	}
	locals := make([]*webrtc.TrackLocalStaticRTP, nt)
	for i, t := range tracks {
		tl, err := webrtc.NewTrackLocalStaticRTP(webrtc.RTPCodecCapability{MimeType: t.mime, SDPFmtpLine: t.fmtp}, t.trackID, t.streamID)
		if err != nil {
			return "inconclusive newtrack"
		}
		locals[i] = tl
		if _, err = pcOf(t.sender).AddTrack(tl); err != nil {
			return "inconclusive addtrack"
		}
	}
	if withDC {
		if _, err = pair.A.CreateDataChannel("x", nil); err != nil {
			return "inconclusive dc"
		}
	}
	type got struct {
		pkt *rtp.Packet
	}
	type rxT struct {
		mu    sync.Mutex
		tr    *webrtc.TrackRemote
		pkts  []*rtp.Packet
		codec webrtc.RTPCodecParameters
	}
	var rmu sync.Mutex
	remotes := map[string]*rxT{} // key: side + msid
	onTrack := func(side string) func(*webrtc.TrackRemote, *webrtc.RTPReceiver) {
		return func(tr *webrtc.TrackRemote, _ *webrtc.RTPReceiver) {
			r := &rxT{tr: tr}
			rmu.Lock()
			remotes[side+"|"+tr.StreamID()+" "+tr.ID()] = r
			rmu.Unlock()
			go func() {
				for {
					p, _, err := tr.ReadRTP()
					if err != nil {
						return
					}
					r.mu.Lock()
					r.pkts = append(r.pkts, p)
					r.codec = tr.Codec()
					r.mu.Unlock()
				}
			}()
		}
	}
	pair.A.OnTrack(onTrack("A"))
	pair.B.OnTrack(onTrack("B"))
	// the side that has something to offer must be the offerer for its tracks to be negotiated in one
	// round; run one round in the requested direction and, if the other side also sends, a second one back.
	first, second := pair.A, pair.B
	if !offererA {
		first, second = pair.B, pair.A
	}
	// an offerer without any m-section cannot start an exchange: give it a receive-only transceiver
	hasSomething := withDC && first == pair.A
	for _, t := range tracks {
		if pcOf(t.sender) == first {
			hasSomething = true
		}
	}
	if !hasSomething {
		if _, err := first.AddTransceiverFromKind(webrtc.RTPCodecTypeAudio, webrtc.RTPTransceiverInit{Direction: webrtc.RTPTransceiverDirectionRecvonly}); err != nil {
			return "inconclusive addtransceiver"
		}
	}
	if err := Negotiate(first, second); err != nil {
		if os.Getenv("VERIF_DEBUG") != "" {
			fmt.Fprintln(os.Stderr, "negotiate:", err)
		}

		return "inconclusive negotiate"
	}
	needSecond := false
	for _, t := range tracks {
		if pcOf(t.sender) == second {
			needSecond = true
		}
	}
	if needSecond {
		if err := Negotiate(second, first); err != nil {
			if os.Getenv("VERIF_DEBUG") != "" {
				fmt.Fprintln(os.Stderr, "negotiate2:", err)
			}

			return "inconclusive negotiate2"
		}
	}
	if !pair.WaitConnected(15 * time.Second) {
		return "inconclusive not-connected"
	}
	// send
	rng := rand.New(rand.NewSource(seed)) //nolint:gosec
	type sentT struct{ payload []byte; ts uint32; marker bool }
	sent := make([]map[uint16]sentT, nt)
	for i := range sent {
		sent[i] = map[uint16]sentT{}
	}
	seq0 := uint16(rng.Intn(65536)) //nolint:gosec
	deadline := time.Now().Add(12 * time.Second)
	recvCount := func(i int) int {
		t := tracks[i]
		rmu.Lock()
		r := remotes[map[string]string{"A": "B", "B": "A"}[t.sender]+"|"+t.streamID+" "+t.trackID]
		rmu.Unlock()
		if r == nil {
			return 0
		}
		r.mu.Lock()
		defer r.mu.Unlock()

		return len(r.pkts)
	}
	for k := 0; time.Now().Before(deadline) && k < 40*npk; k++ {
		done := true
		for i := range tracks {
			if recvCount(i) >= npk {
				continue
			}
			done = false
			// sizes up to what fits the default receive MTU (1460) with header, header extensions and the SRTP
			// tag; half of the runs start every track with a packet above the 1200-byte outbound MTU
			size := 1 + rng.Intn(1100)
			switch {
			case k == 0 && seed%2 == 1:
				size = 1250 + rng.Intn(100)
			case rng.Intn(4) == 0:
				size = 1101 + rng.Intn(250)
			}
			pl := make([]byte, size)
			rng.Read(pl)
			s := sentT{payload: pl, ts: rng.Uint32(), marker: rng.Intn(2) == 0}
			seq := seq0 + uint16(k) //nolint:gosec
			sent[i][seq] = s
			_ = locals[i].WriteRTP(&rtp.Packet{
				Header:  rtp.Header{Version: 2, SequenceNumber: seq, Timestamp: s.ts, Marker: s.marker, SSRC: 0xdeadbeef, PayloadType: 1},
				Payload: pl,
			})
		}
		if done {
			break
		}
		time.Sleep(3 * time.Millisecond)
	}
	time.Sleep(50 * time.Millisecond)
	out := []string{}
	for i, t := range tracks {
		recvSide := map[string]string{"A": "B", "B": "A"}[t.sender]
		rmu.Lock()
		r := remotes[recvSide+"|"+t.streamID+" "+t.trackID]
		rmu.Unlock()
		f := map[string]string{"ssrc": "ok", "pt": "ok", "codec": "ok", "sid": "ok", "id": "ok", "payload": "ok", "hdr": "ok", "delivered": "ok"}
		rd := other(t.sender).RemoteDescription()
		annSSRC, pts, fmtps, okAnn := c23AnnouncedF(rd, t.streamID, t.trackID)
		if r == nil {
			// no TrackRemote with the sender's ids: either nothing arrived or it arrived under other ids
			rmu.Lock()
			anyOther := false
			for k := range remotes {
				if strings.HasPrefix(k, recvSide+"|") {
					anyOther = true
				}
			}
			rmu.Unlock()
			if anyOther && nt == 1 {
				f["sid"], f["id"] = "bad", "bad"
			} else {
				f["delivered"] = "none"
			}
		} else {
			r.mu.Lock()
			pkts := append([]*rtp.Packet{}, r.pkts...)
			codec := r.codec
			r.mu.Unlock()
			if len(pkts) == 0 {
				f["delivered"] = "none"
			}
			if r.tr.StreamID() != t.streamID {
				f["sid"] = "bad"
			}
			if r.tr.ID() != t.trackID {
				f["id"] = "bad"
			}
			if len(pkts) > 0 && (!strings.EqualFold(codec.MimeType, t.mime) || (t.fmtp != "" && codec.SDPFmtpLine != t.fmtp)) {
				f["codec"] = "bad"
			}
			for _, p := range pkts {
				if !okAnn || p.SSRC != annSSRC || uint32(r.tr.SSRC()) != annSSRC {
					f["ssrc"] = "bad"
				}
				okPT := false
				for _, v := range pts[strings.ToLower(t.mime)] {
					// when the track asks for a specific codec variant (fmtp line), only the payload type
					// negotiated for exactly that variant is right
					if v == p.PayloadType && (t.fmtp == "" || fmtps[v] == t.fmtp) {
						okPT = true
					}
				}
				if !okPT || uint8(r.tr.PayloadType()) != p.PayloadType || uint8(codec.PayloadType) != p.PayloadType {
					f["pt"] = "bad"
				}
				s, have := sent[i][p.SequenceNumber]
				if !have {
					f["hdr"] = "bad"

					continue
				}
				if !bytes.Equal(s.payload, p.Payload) {
					f["payload"] = "bad"
				}
				if s.ts != p.Timestamp || s.marker != p.Marker {
					f["hdr"] = "bad"
				}
			}
		}
		// systematic loss (e.g. every other packet bound to a wrong SSRC) is not transport loss: fewer than
		// 3 of 4 written packets read back counts as not delivered
		if r != nil && f["delivered"] == "ok" {
			r.mu.Lock()
			n := len(r.pkts)
			r.mu.Unlock()
			if os.Getenv("VERIF_DEBUG") != "" {
				fmt.Fprintf(os.Stderr, "track %d: read %d of %d written\n", i, n, len(sent[i]))
			}
			if 4*n < 3*len(sent[i]) {
				f["delivered"] = "partial"
			}
		}
		out = append(out, fmt.Sprintf("trk %d ssrc=%s pt=%s codec=%s sid=%s id=%s payload=%s hdr=%s delivered=%s",
			i, f["ssrc"], f["pt"], f["codec"], f["sid"], f["id"], f["payload"], f["hdr"], f["delivered"]))
	}

	return strings.Join(out, " ")
}

func init() {
	registry["C23"] = &Prop{
		Workers: 6,
		Timeout: 90 * time.Second,
		Rule: "one loopback connection per op line: 1–3 TrackLocalStaticRTP tracks (Opus, VP8, VP9, H264, AV1 from the default " +
			"engine incl. its RTX codecs) added on either side, with or without a data channel bundled, either side " +
			"offering (a second round when the answerer also sends); 10–30 packets per track with seeded payloads " +
			"(1–1350 bytes; in half of the runs the first packet of every track is larger than the 1200-byte outbound MTU), random timestamps/markers and deliberately wrong SSRC/payload type in the caller's " +
			"packet; oracle against the a=ssrc / rtpmap of the description the receiver applied. Non-trivial: " +
			"distinct op lines with at least one delivered packet.",
		Gen: func(c *Ctx) {
			r := c.Rng
			mimes := []string{webrtc.MimeTypeOpus, webrtc.MimeTypeVP8, webrtc.MimeTypeVP9, webrtc.MimeTypeH264, webrtc.MimeTypeAV1,
				// specific variants of the default engine that are not the first of their mime type
				webrtc.MimeTypeVP9 + "|profile-id=2", webrtc.MimeTypeVP9 + "|profile-id=0",
				webrtc.MimeTypeH264 + "|level-asymmetry-allowed=1;packetization-mode=0;profile-level-id=42001f",
				webrtc.MimeTypeH264 + "|level-asymmetry-allowed=1;packetization-mode=1;profile-level-id=42e01f",
				webrtc.MimeTypeH264 + "|level-asymmetry-allowed=1;packetization-mode=0;profile-level-id=4d001f"}
			for n := 0; n < c.N(10, 120); n++ {
				nt := 1 + r.Intn(3)
				sb := strings.Builder{}
				fmt.Fprintf(&sb, "media %s %d %d", []string{"A", "B"}[r.Intn(2)], r.Intn(2), nt)
				for k := 0; k < nt; k++ {
					fmt.Fprintf(&sb, " %s %s %s %s", hx([]byte(mimes[r.Intn(len(mimes))])),
						hx([]byte(fmt.Sprintf("stream%d", r.Intn(3)))), hx([]byte(fmt.Sprintf("track%d_%d", k, r.Intn(100)))), []string{"A", "B"}[r.Intn(2)])
				}
				fmt.Fprintf(&sb, " %d %d", 10+r.Intn(21), r.Int63n(1<<40))
				c.Emit("%s", sb.String())
			}
		},
		Exec: c23Run,
		Class: func(_ []string, out string) string {
			if strings.HasPrefix(out, "inconclusive") {
				return out
			}
			if strings.Contains(out, "=bad") || strings.Contains(out, "=none") {
				return "deviation"
			}

			return "all-ok"
		},
		Trivial: func(_ []string, out string) bool { return strings.HasPrefix(out, "inconclusive") },
	}
}
